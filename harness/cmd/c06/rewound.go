// rewound.go: a command UPSTREAM of a two-pass command (fillnull without a field list, bin
// without span=) is rewound by DataProcessor.Rewind() and fed its input a second time.  The
// property text says "in one or two passes": the chain `X | T` must give T applied to what X
// gives in a one-pass chain.  Every command with cross-batch state (head, head <expr>, tail,
// dedup, sort, top, rare, stats, streamstats, another two-pass command) is put in front of
// each two-pass command, the chain is run through the real DataProcessors for every cut, and
// the result is compared with
//   - the composition computed by running X alone (one pass) and T alone over X's output
//     (`<X>_before_two_pass_wrong_rows`),
//   - the un-cut run (`<X>_before_two_pass_chunk_dependent`),
//   - the Coq model of chains of DataProcessors with Rewind (Pipe.v level C, `chk_rewound`).
package main

import (
	"fmt"
	"os"
	"sort"
	"strconv"
	"strings"

	"verifharness/vhlib"
)

// the output of a one-pass run as a table (the input of the second stage of the composition)
func tableOf(res runResult) (*Table, bool) {
	cols := append([]string{}, res.Cols...)
	sort.Strings(cols)
	t := &Table{Cols: append([]string{tsCol}, cols...)}
	for i, r := range res.Rows {
		row := make([]Cell, len(t.Cols))
		row[0] = Cell{K: 'i', I: int64(1700000000000 - i*1000)}
		for ci, c := range cols {
			cell := r.get(c)
			if cell.K == 'o' {
				return nil, false
			}
			row[ci+1] = cell
		}
		t.Rows = append(t.Rows, row)
	}
	return t, true
}

// the rows of a run with the null cells kept (a column that is null in every row still exists
// for fillnull): what the Coq tables need
func fullRows(res runResult) ([]CRow, bool) {
	t, ok := tableOf(res)
	if !ok {
		return nil, false
	}
	return t.crowsFull(), true
}

type rewSpec struct {
	Fam     string // class prefix = the command whose state is rewound
	Up      string // the chain in front of the two-pass command
	Cmp     int
	Tables  string
	Model   func(cc *coqCtx) string // Coq: the rstages of Up ("" / nil = no model)
	Known   string                  // known class (the alias stream)
	TailN   int                     // alias stream: chk_alias with tail <n> and the observed row function
	NoBy    bool                    // stats without BY: chk_noby with count, sum(v)
	Kept    string                  // alias stream: chk_alias_rows with the rows this front returns alone (sort ..)
	MinRows int                     // model comparison only for tables with at least this many rows
}

type twoPassCmd struct {
	SPL   string
	Col   string                  // the column it needs ("" = none)
	Model func(cc *coqCtx) string // Coq twopass, nil = none
}

func rs(procExpr, flags string) string { return "RStage " + procExpr + " " + flags }

func rewSpecs() []rewSpec {
	// a model expression "(xxx_cmd args)" -> "(xxx_proc args)"
	proc := func(m modelFn, from, to, flags string) func(cc *coqCtx) string {
		return func(cc *coqCtx) string { return rs(strings.Replace(m(cc), from, to, 1), flags) }
	}
	headP := func(n int) func(cc *coqCtx) string {
		return func(*coqCtx) string { return rs(fmt.Sprintf("(head_proc %d)", n), "streaming_flags") }
	}
	tailP := func(n int) func(cc *coqCtx) string {
		return func(*coqCtx) string { return rs(fmt.Sprintf("(tail_proc %d)", n), "bottleneck_flags") }
	}
	headE := func(k int, max string, null, keeplast bool) func(cc *coqCtx) string {
		return proc(headExprModel(k, max, null, keeplast), "head_expr_cmd", "head_expr_proc", "streaming_flags")
	}
	dedupP := func(limit int, fields []string, consecutive bool) func(cc *coqCtx) string {
		return proc(dedupModel(limit, fields, consecutive, false, false), "dedup_cmd", "dedup_proc", "streaming_flags")
	}
	ssP := func(m modelFn) func(cc *coqCtx) string {
		return proc(m, "streamstats_cmd false", "streamstats_proc", "streaming_flags")
	}
	aggP := func(m modelFn) func(cc *coqCtx) string {
		return func(cc *coqCtx) string { return rs("(agg_proc "+m(cc)+")", "bottleneck_flags") }
	}
	seq := func(ms ...func(cc *coqCtx) string) func(cc *coqCtx) string {
		return func(cc *coqCtx) string {
			parts := make([]string, len(ms))
			for i, m := range ms {
				parts[i] = m(cc)
			}
			return strings.Join(parts, "; ")
		}
	}
	whereV := func(cc *coqCtx) string {
		return rs(fmt.Sprintf("(rowwise_proc (fun r => match get r %s with VNum z => if (1 <? z)%%Z then [r] else [] | _ => [] end))", cc.field("v")), "streaming_flags")
	}
	tpFill := func(cc *coqCtx) string {
		return rs(fmt.Sprintf("(twopass_proc (fillnull_tp (VStr %s)))", vhlib.CoqStr("0")), "twopass_flags")
	}
	ssCount := ssModel("SCount", "v", "c", true, nil, 0, true)
	return []rewSpec{
		// head: fewer rows than the limit, exactly the limit, more
		{Fam: "head", Up: "head 3", Model: headP(3)},
		{Fam: "head", Up: "head 5", Model: headP(5)},
		{Fam: "head", Up: "head 20", Model: headP(20)},
		{Fam: "head", Up: "head 1", Model: headP(1)},
		{Fam: "head", Up: "head limit=2 v<9", Model: headE(9, "2", false, false)},
		{Fam: "head", Up: "head v<4 null=true keeplast=true", Model: headE(4, maxU64, true, true)},
		// tail: fewer rows than the limit (the cached result is shorter than TailRows), more
		{Fam: "tail", Up: "tail 3", Model: tailP(3)},
		{Fam: "tail", Up: "tail 5", Model: tailP(5)},
		{Fam: "tail", Up: "tail 20", Model: tailP(20)},
		{Fam: "tail", Up: "tail 1", Model: tailP(1)},
		// dedup
		{Fam: "dedup", Up: "dedup a", Model: dedupP(1, []string{"a"}, false)},
		{Fam: "dedup", Up: "dedup 2 a g", Model: dedupP(2, []string{"a", "g"}, false)},
		{Fam: "dedup", Up: "dedup g consecutive=true", Model: dedupP(1, []string{"g"}, true)},
		// streamstats
		{Fam: "streamstats", Up: "streamstats count as c", Model: ssP(ssCount)},
		{Fam: "streamstats", Up: "streamstats current=false sum(v) as sv by a", Model: ssP(ssModel("SSum", "v", "sv", false, []string{"a"}, 0, true))},
		{Fam: "streamstats", Up: "streamstats window=2 sum(v) as sv", Tables: "num", Model: ssP(ssModel("SSum", "v", "sv", true, nil, 2, true))},
		{Fam: "streamstats", Up: "streamstats window=2 global=false count as c by g", Model: ssP(ssModel("SCount", "v", "c", true, []string{"g"}, 2, false))},
		{Fam: "streamstats", Up: "streamstats reset_on_change=true count as c by g", Model: ssP(ssModelR("SCount", "v", "c", true, []string{"g"}, 0, true, true))},
		// bottlenecks that keep their result: sort, top, rare, stats
		{Fam: "sort", Up: "sort v, id"},
		{Fam: "sort", Up: "sort 3 -v, id"},
		{Fam: "top", Up: "top a", Cmp: cmpMultiset, Tables: "distinct", Model: aggP(topModel(true, 10, []string{"a"}))},
		{Fam: "top", Up: "top limit=2 a, g", Cmp: cmpMultiset, Tables: "distinct", Model: aggP(topModel(true, 2, []string{"a", "g"}))},
		{Fam: "rare", Up: "rare limit=2 a", Cmp: cmpMultiset, Tables: "distinct", Model: aggP(topModel(false, 2, []string{"a"}))},
		{Fam: "stats", Up: "stats count, sum(v) by a", Cmp: cmpMultiset, Model: aggP(gstatsModel([]string{"a"}))},
		{Fam: "stats", Up: "stats count, sum(v) by a, g", Cmp: cmpMultiset, Model: aggP(gstatsModel([]string{"a", "g"}))},
		// another two-pass command, row-wise commands
		{Fam: "twopass", Up: "fillnull value=0", Model: tpFill},
		{Fam: "twopass", Up: "bin bins=3 v", Tables: "num"},
		{Fam: "rowwise", Up: "where v>1", Model: whereV},
		{Fam: "rowwise", Up: "eval w=v*2 | fields - s"},
		// several commands with state in front of the two-pass command
		{Fam: "chain", Up: "dedup a | head 2", Model: seq(dedupP(1, []string{"a"}, false), headP(2))},
		{Fam: "chain", Up: "streamstats count as c | head 3", Model: seq(ssP(ssCount), headP(3))},
		{Fam: "chain", Up: "head 5 | tail 2", Model: seq(headP(5), tailP(2))},
		{Fam: "chain", Up: "tail 5 | head 2", Model: seq(tailP(5), headP(2))},
		{Fam: "chain", Up: "tail 4 | dedup a", Model: seq(tailP(4), dedupP(1, []string{"a"}, false))},
		{Fam: "chain", Up: "where v>1 | tail 20 | streamstats count as c", Model: seq(whereV, tailP(20), ssP(ssCount))},
		{Fam: "chain", Up: "head 6 | fillnull value=0 | tail 4", Model: seq(headP(6), tpFill, tailP(4))},
		{Fam: "chain", Up: "dedup 2 g | stats count, sum(v) by a", Cmp: cmpMultiset, Model: seq(dedupP(2, []string{"g"}, false), aggP(gstatsModel([]string{"a"})))},
		{Fam: "chain", Up: "sort v, id | head 20"},
		{Fam: "chain", Up: "sort -v, id | dedup a"},
	}
}

// tail and sort keep their final IQR; a command between them and the two-pass command that changes
// the IQR in place must not reach the kept result.
//   - tail: repaired (Process(nil) and GetFinalResultIfExists give away copies); the class stays so that a
//     regression is reported with its input, the chains are compared with the chain model like all others;
//   - sort: known defect: sort hands out p.resultsSoFar ITSELF again after a Rewind
const aliasClass = "cached_result_rewritten_before_two_pass"
const sortAliasClass = "sort_result_rewritten_before_two_pass"

// stats without a BY clause merged its collected statistics into the result at EVERY extraction
// (Process(nil), then GetFinalResultIfExists after the Rewind): repaired, the class stays
const noByClass = "stats_without_by_doubled_before_two_pass"

func aliasSpecs() []rewSpec {
	tailP := func(n int) string { return rs(fmt.Sprintf("(tail_proc %d)", n), "bottleneck_flags") }
	incr := func(cc *coqCtx) string {
		return rs(fmt.Sprintf("(rowwise_proc (fun r => match get r %s with VNum z => [set_field r %s (VNum (z + 1)%%Z)] | _ => [r] end))", cc.field("v"), cc.field("v")), "streaming_flags")
	}
	return []rewSpec{
		{Fam: "alias", Up: "tail 3 | eval v=v+1", Known: aliasClass, TailN: 3, Tables: "num",
			Model: func(cc *coqCtx) string { return tailP(3) + "; " + incr(cc) }},
		{Fam: "alias", Up: "tail 20 | eval v=v+1", Known: aliasClass, TailN: 20, Tables: "num",
			Model: func(cc *coqCtx) string { return tailP(20) + "; " + incr(cc) }},
		{Fam: "alias", Up: "tail 4 | streamstats sum(v) as v", Known: aliasClass, Tables: "num",
			Model: func(cc *coqCtx) string {
				return tailP(4) + "; " + rs(strings.Replace(ssModel("SSum", "v", "v", true, nil, 0, true)(cc), "streamstats_cmd false", "streamstats_proc", 1), "streaming_flags")
			}},
		{Fam: "alias", Up: "tail 6 | rename v as vv", Known: aliasClass, Tables: "num",
			Model: func(cc *coqCtx) string {
				return tailP(6) + "; " + rs(fmt.Sprintf("(rowwise_proc (fun r => [set_field (drop_field %s r) %s (get r %s)]))", cc.field("v"), cc.field("vv"), cc.field("v")), "streaming_flags")
			}},
		{Fam: "alias", Up: "tail 5 | head 2 | eval v=v+1", Known: aliasClass, Tables: "num",
			Model: func(cc *coqCtx) string {
				return tailP(5) + "; " + rs("(head_proc 2)", "streaming_flags") + "; " + incr(cc)
			}},
		{Fam: "sortalias", Up: "sort v, id | eval v=v+1", Known: sortAliasClass, Kept: "sort v, id", Tables: "num"},
		{Fam: "sortalias", Up: "sort v, id | where v>3", Known: sortAliasClass, Tables: "num"},
		{Fam: "sortalias", Up: "sort -v, id | head 3", Known: sortAliasClass, Tables: "num"},
		{Fam: "statsnoby", Up: "stats count", Cmp: cmpMultiset, Known: noByClass},
		{Fam: "statsnoby", Up: "stats count, sum(v)", Cmp: cmpMultiset, Known: noByClass, NoBy: true, MinRows: 1,
			Model: func(cc *coqCtx) string { return rs("(agg_proc "+gstatsModel(nil)(cc)+")", "bottleneck_flags") }},
		{Fam: "statsnoby", Up: "stats sum(v) as sv, count as c", Cmp: cmpMultiset, Known: noByClass},
		{Fam: "statsnoby", Up: "head 4 | stats max(v), count", Cmp: cmpMultiset, Known: noByClass},
	}
}

func twoPassCmds() []twoPassCmd {
	return []twoPassCmd{
		{"fillnull value=0", "", func(cc *coqCtx) string { return fmt.Sprintf("(fillnull_tp (VStr %s))", vhlib.CoqStr("0")) }},
		{"bin bins=3 v", "v", func(cc *coqCtx) string { return fmt.Sprintf("(bin_tp %s 3)", cc.field("v")) }},
		{"bin id", "id", nil},
	}
}

type rewCase struct {
	SPL     string   `json:"spl"`
	Table   []string `json:"table_rows"`
	Cut     []int    `json:"batch_sizes"`
	EofWith bool     `json:"eof_with_last_batch"`
	Got     []string `json:"got"`
	OnePass []string `json:"one_pass_output_of_the_commands_in_front"`
	Want    []string `json:"want"`
	Note    string   `json:"note,omitempty"`
}

// every command with state in front of every two-pass command
func runRewoundStream(cfg vhlib.Config, sum *vhlib.Summary, rng *vhlib.Rng, tables map[string][]*Table) {
	extra := 2
	maxTables := 8
	if cfg.Thorough() {
		extra, maxTables = 6, 40
	}
	var cf *caseFile
	shard := 0
	tabDefined := map[string]bool{}
	file := func() *caseFile {
		if cf != nil && cf.size() > 300000 {
			cf.flush(sum, cfg.Out)
			cf = nil
			shard++
		}
		if cf == nil {
			name := "cases_rewound"
			if shard > 0 {
				name = fmt.Sprintf("cases_rewound_%d", shard)
			}
			cf = newCaseFile(name)
		}
		return cf
	}
	specs := append(rewSpecs(), aliasSpecs()...)
	for si := range specs {
		s := &specs[si]
		cr := rng.Fork()
		for tpi, tp := range twoPassCmds() {
			if s.Known != "" && tpi == 2 {
				continue
			}
			spl := s.Up + " | " + tp.SPL
			cmp := &Spec{Cmp: s.Cmp}
			for ti, t := range tables[s.Tables] {
				if ti >= maxTables {
					break
				}
				n := len(t.Rows)
				in := t.crows()
				sum.Count("rewound/" + s.Fam)
				one := runChain(s.Up, t, []int{n}, false)
				if one.Err != "" {
					sum.Fail(s.Fam+"_error", fmt.Sprintf("%q on %d rows, un-cut: %s", s.Up, n, one.Err), rewCase{SPL: s.Up, Table: rowsStr(in), Cut: []int{n}, Note: one.Err})
					continue
				}
				mid, ok := tableOf(one)
				hasCol := tp.Col == ""
				for _, c := range one.Cols {
					hasCol = hasCol || c == tp.Col
				}
				if !hasCol {
					continue
				}
				if !ok {
					sum.Count("rewound_not_encodable/" + s.Fam)
					continue
				}
				comp := runChain(tp.SPL, mid, []int{len(mid.Rows)}, false)
				if comp.Err != "" {
					sum.Fail("twopass_error", fmt.Sprintf("%q on the %d rows that %q returns: %s", tp.SPL, len(mid.Rows), s.Up, comp.Err),
						rewCase{SPL: tp.SPL, Table: rowsStr(mid.crows()), Cut: []int{len(mid.Rows)}, Note: comp.Err})
					continue
				}
				want := comp.Rows
				cuts := append([][]int{{n}}, genCuts(cr, n, extra)...)
				type obs struct {
					cut []int
					ew  bool
					fs  []int
				}
				var all []obs
				agree := true
				uncutOK := true
				for ci, cut := range cuts {
					ew := ci%2 == 1
					got := runChain(spl, t, cut, ew)
					nb := 0
					for _, k := range cut {
						if k > 0 {
							nb++
						}
					}
					sum.Eval(fmt.Sprintf("rew|%s|%s|%d|%v", spl, s.Tables, ti, cut), n > 0 && nb >= 2)
					okc := got.Err == "" && same(cmp, got.Rows, want)
					if ci == 0 {
						uncutOK = okc
					}
					if !okc {
						agree = false
						cls := s.Fam + "_before_two_pass_wrong_rows"
						if uncutOK {
							cls = s.Fam + "_before_two_pass_chunk_dependent"
						}
						if s.Known != "" && got.Err == "" {
							cls = s.Known
						}
						sum.Fail(cls, fmt.Sprintf("%q: %d rows in batches %v (EOF with last batch: %v) give %s; %q alone (one pass) followed by %q alone gives %s%s",
							spl, n, cut, ew, firstDiff(rowsStr(got.Rows), rowsStr(want)), s.Up, tp.SPL, "", errNote(got.Err)),
							rewCase{SPL: spl, Table: rowsStr(in), Cut: cut, EofWith: ew, Got: rowsStr(got.Rows), OnePass: rowsStr(one.Rows), Want: rowsStr(want), Note: got.Err})
					}
					all = append(all, obs{cut, ew, got.Fetches})
				}
				if ti < 1 && tpi == 0 {
					sum.Sample(map[string]interface{}{"spl": spl, "table": rowsStr(in), "cuts": cuts, "one_pass_then_two_pass_command": rowsStr(want)})
				}
				// ---- model comparison ----
				f := file()
				tname := fmt.Sprintf("t_%s_%d", strings.ReplaceAll(s.Tables+"g", "-", ""), ti)
				defTable := func() bool {
					if !tabDefined[f.name+tname] {
						ts, ok := f.cc.rows(t.crowsFull())
						if !ok {
							return false
						}
						fmt.Fprintf(&f.defs, "Definition %s : batch := %s.\n", tname, ts)
						tabDefined[f.name+tname] = true
					}
					return true
				}
				if s.Model != nil && tp.Model != nil && agree && n >= s.MinRows {
					exp, ok := f.cc.rows(want)
					if !ok || !defTable() {
						continue
					}
					items := []string{}
					for _, o := range all {
						items = append(items, fmt.Sprintf("(%s, %v, %s)", coqNats(o.cut), o.ew, coqNats(o.fs)))
					}
					fn := "chk_rewound"
					if s.Cmp == cmpMultiset {
						fn = "chk_rewound_perm"
					}
					f.checks = append(f.checks, fmt.Sprintf("%s [%s; %s] %s %s %s", fn, s.Model(f.cc), rs("(twopass_proc "+tp.Model(f.cc)+")", "twopass_flags"), tname, vhlib.CoqList(items), exp))
					f.ncases += len(all)
				}
				if s.NoBy && tp.Model != nil && !agree && n > 0 {
					got := runChain(spl, t, []int{n}, false)
					exp, ok := f.cc.rows(got.Rows)
					if got.Err == "" && ok && defTable() {
						f.checks = append(f.checks, fmt.Sprintf("chk_noby %s %s %s %s", gstatsModel(nil)(f.cc), tp.Model(f.cc), tname, exp))
						f.ncases++
					}
				}
				if s.Kept != "" && tp.Model != nil && !agree && n > 0 {
					// the rows sort keeps, the row function as observed on them and on its own output
					got := runChain(spl, t, []int{n}, false)
					fcmd := strings.TrimSpace(s.Up[strings.Index(s.Up, "|")+1:])
					kept := runChain(s.Kept, t, []int{n}, false)
					items := []string{}
					seen := map[string]bool{}
					okAll := got.Err == "" && kept.Err == ""
					level := kept
					for depth := 0; depth < 2 && okAll; depth++ {
						lt, ok := tableOf(level)
						if !ok {
							okAll = false
							break
						}
						var next runResult
						for i := range lt.Rows {
							o := runChain(fcmd, lt.sub(i, i+1), []int{1}, false)
							if o.Err != "" || len(o.Rows) != 1 {
								okAll = false
								break
							}
							next.Rows = append(next.Rows, o.Rows...)
							next.Cols = o.Cols
							k := lt.crow(i).String()
							if seen[k] {
								continue
							}
							seen[k] = true
							a, ok1 := f.cc.row(lt.crow(i))
							ofull, ok3 := fullRows(o)
							b, ok2 := f.cc.rows(ofull)
							if !ok1 || !ok2 || !ok3 {
								okAll = false
								break
							}
							items = append(items, fmt.Sprintf("(%s, %s)", a, b))
						}
						level = next
					}
					keptFull, okk := fullRows(kept)
					okAll = okAll && okk
					keptC, ok0 := f.cc.rows(keptFull)
					exp, ok := f.cc.rows(got.Rows)
					if okAll && ok && ok0 {
						f.checks = append(f.checks, fmt.Sprintf("chk_alias_rows %s %s %s %s", keptC, vhlib.CoqListNL(items), tp.Model(f.cc), exp))
						f.ncases++
					}
				}
				if s.TailN > 0 && tp.Model != nil && !agree {
					// the model of the IQR handed out twice must give the observed rows: f as observed on
					// single rows of tail's output and of f's output
					got := runChain(spl, t, []int{n}, false)
					fcmd := strings.TrimSpace(s.Up[strings.Index(s.Up, "|")+1:])
					tl := runChain(strings.TrimSpace(s.Up[:strings.Index(s.Up, "|")]), t, []int{n}, false)
					items := []string{}
					seen := map[string]bool{}
					okAll := got.Err == "" && tl.Err == ""
					level := tl
					for depth := 0; depth < 2 && okAll; depth++ {
						lt, ok := tableOf(level)
						if !ok {
							okAll = false
							break
						}
						var next runResult
						for i := range lt.Rows {
							o := runChain(fcmd, lt.sub(i, i+1), []int{1}, false)
							if o.Err != "" || len(o.Rows) != 1 {
								okAll = false
								break
							}
							next.Rows = append(next.Rows, o.Rows...)
							next.Cols = o.Cols
							k := lt.crow(i).String()
							if seen[k] {
								continue
							}
							seen[k] = true
							a, ok1 := f.cc.row(lt.crow(i))
							b, ok2 := f.cc.rows(o.Rows)
							if !ok1 || !ok2 {
								okAll = false
								break
							}
							items = append(items, fmt.Sprintf("(%s, %s)", a, b))
						}
						level = next
					}
					exp, ok := f.cc.rows(got.Rows)
					if okAll && ok && defTable() {
						ftab := "(@nil (row * list row))"
						if len(items) > 0 {
							ftab = vhlib.CoqListNL(items)
						}
						f.checks = append(f.checks, fmt.Sprintf("chk_alias %d %s %s %s %s %s", s.TailN, ftab, tp.Model(f.cc), tname, coqCuts(cuts), exp))
						f.ncases += len(cuts)
					}
				}
			}
		}
	}
	if cf != nil {
		cf.flush(sum, cfg.Out)
	}
}

func rewoundProbeMain(args []string) {
	n := 6
	if v := os.Getenv("C06_N"); v != "" {
		n, _ = strconv.Atoi(v)
	}
	r := vhlib.NewRng(12345)
	t := genTable(r, os.Getenv("C06_KIND"), n)
	fmt.Println("table:")
	for _, row := range t.crows() {
		fmt.Println("   ", row.String())
	}
	for _, spl := range args {
		i := strings.LastIndex(spl, "|")
		up, tp := strings.TrimSpace(spl[:i]), strings.TrimSpace(spl[i+1:])
		one := runChain(up, t, []int{n}, false)
		fmt.Printf("%q alone: err=%q cols=%v\n", up, one.Err, one.Cols)
		for _, row := range one.Rows {
			fmt.Println("      ", row.String())
		}
		mid, ok := tableOf(one)
		if !ok {
			fmt.Println("   not encodable")
			continue
		}
		want := runChain(tp, mid, []int{len(mid.Rows)}, false)
		fmt.Printf("  composition: err=%q\n", want.Err)
		for _, row := range want.Rows {
			fmt.Println("      ", row.String())
		}
		for _, cut := range [][]int{{n}, {n / 2, n - n/2}, {1, n - 1}, {0, n, 0}} {
			got := runChain(spl, t, cut, false)
			fmt.Printf("  chain cut %v: err=%q same=%v fetches=%v\n", cut, got.Err, sameOrdered(got.Rows, want.Rows), got.Fetches)
			if !sameOrdered(got.Rows, want.Rows) {
				for _, row := range got.Rows {
					fmt.Println("      ", row.String())
				}
			}
		}
	}
}

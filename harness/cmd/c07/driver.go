package main

func driverMain() {}

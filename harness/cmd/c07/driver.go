package main

import (
	"context"
	"encoding/json"
	"fmt"
	"os"
	"os/exec"
	"path/filepath"
	"regexp"
	"sort"
	"strconv"
	"strings"
	"time"

	"verifharness/vhlib"
)

const traceSet = "trace=openat,write,pwrite64,lseek,rename,renameat,renameat2,unlink,unlinkat,ftruncate,mkdir,mkdirat,fsync,fdatasync"

// abstract protocol token of an op (what the Coq model consumes)
var reSegFile = regexp.MustCompile(`/final/[^/]+/[^/]+/(\d+)/(.*)$`)

func token(o fsop) string {
	m := reSegFile.FindStringSubmatch(o.Path)
	p2 := reSegFile.FindStringSubmatch(o.Path2)
	switch {
	case strings.HasSuffix(o.Path, "/progress.log"):
		return ""
	case strings.HasSuffix(o.Path, "segmeta.json") && o.Kind == "write":
		// one line per rotated segment: find its suffix in the payload
		mm := regexp.MustCompile(`/final/[^/]+/[^/]+/(\d+)/`).FindSubmatch(o.Data)
		if mm != nil {
			return "SegmetaAppend " + string(mm[1])
		}
		return "Other"
	case o.Kind == "rename" && p2 != nil && strings.HasSuffix(p2[2], ".sfm"):
		return "SfmRename " + p2[1]
	case o.Kind == "rename" && p2 != nil && strings.HasSuffix(p2[2], ".sst"):
		return "SstRename " + p2[1]
	case m == nil:
		return "Other"
	}
	s, f := m[1], m[2]
	switch {
	case strings.HasSuffix(f, ".sfm.tmp"):
		if o.Kind == "write" {
			return "SfmTmpWrite " + s + " " + numBlocks(o.Data)
		}
		if o.Kind == "trunc" || o.Kind == "creat" {
			return "SfmTmpTrunc " + s
		}
		return "Other"
	case strings.HasSuffix(f, ".sfm"):
		if o.Kind == "trunc" {
			return "SfmTruncate " + s
		}
		if o.Kind == "write" {
			return "SfmWriteInPlace " + s + " " + numBlocks(o.Data)
		}
		if o.Kind == "unlink" {
			return "SfmUnlink " + s
		}
		return "Other"
	case strings.HasSuffix(f, ".bsu"):
		if o.Kind == "write" || o.Kind == "pwrite" {
			return "BsuAppend " + s
		}
		return "Other"
	case strings.HasSuffix(f, ".pqmr"):
		// persistent-query match results: FlushPqmr appends blkNum, size, bitset length, bitset words
		if o.Kind == "write" || o.Kind == "pwrite" {
			return "PqmrWrite " + s
		}
		return "Other"
	case strings.HasSuffix(f, ".sst.tmp"):
		if o.Kind == "write" {
			return "SstWrite " + s
		}
		return "Other"
	default:
		if o.Kind == "write" || o.Kind == "pwrite" || o.Kind == "trunc" || o.Kind == "ftruncate" {
			return "ColWrite " + s
		}
		return "Other"
	}
}

// tokens of the suffix-file protocol (model SuffixProto): calls on <stream>.suffix / .suffix.tmp and the first
// creation of a segment directory
var reSegDir = regexp.MustCompile(`/final/[^/]+/[^/]+/(\d+)/?$`)
var reSufVal = regexp.MustCompile(`"suffix":(\d+)`)

func sufToken(o fsop, seenDir map[string]bool) string {
	val := func() string {
		if m := reSufVal.FindSubmatch(o.Data); m != nil {
			return string(m[1])
		}
		return "0"
	}
	switch {
	case o.Kind == "rename" && strings.HasSuffix(o.Path2, ".suffix"):
		return "SufRename"
	case strings.HasSuffix(o.Path, ".suffix.tmp"):
		if o.Kind == "trunc" || o.Kind == "creat" {
			return "SufTmpTrunc"
		}
		if o.Kind == "write" {
			return "SufTmpWrite " + val()
		}
	case strings.HasSuffix(o.Path, ".suffix"):
		if o.Kind == "trunc" || o.Kind == "creat" {
			return "SufTruncate"
		}
		if o.Kind == "write" {
			return "SufWriteInPlace " + val()
		}
	case o.Kind == "mkdir":
		if m := reSegDir.FindStringSubmatch(o.Path); m != nil && !seenDir[o.Path] {
			seenDir[o.Path] = true
			return "SegDirCreate " + m[1]
		}
	}
	return ""
}

var lastSuffixObs = -1 // value of the stream's suffix file in the replayed crash state (0 = absent or empty)

var reNumBlocks = regexp.MustCompile(`"numBlocks":(\d+)`)

func numBlocks(data []byte) string {
	m := reNumBlocks.FindSubmatch(data)
	if m == nil {
		return "0"
	}
	return string(m[1])
}

// the history with the observed numbers of column writes / sst writes per flush, derived from the
// complete token sequence: a flush is the maximal run "ColWrite* BsuAppend SstWrite* SstRename"
func observedHistory(h history, toks []string) string {
	var items []string
	i := 0
	var prot []string
	for _, t := range toks {
		if t != "" && t != "Other" {
			prot = append(prot, t)
		}
	}
	// one buffer flush: ColWrite* BsuAppend SstWrite* SstRename, the .sfm calls, PqmrWrite*
	flush := func() (m, n, p int) {
		for i < len(prot) && strings.HasPrefix(prot[i], "ColWrite") {
			m++
			i++
		}
		if i < len(prot) && strings.HasPrefix(prot[i], "BsuAppend") {
			i++
		}
		for i < len(prot) && strings.HasPrefix(prot[i], "SstWrite") {
			n++
			i++
		}
		// SstRename + sfm ops
		for i < len(prot) && !strings.HasPrefix(prot[i], "ColWrite") && !strings.HasPrefix(prot[i], "SfmTmpTrunc") && !strings.HasPrefix(prot[i], "SfmTruncate") {
			i++
		}
		for i < len(prot) && (strings.HasPrefix(prot[i], "Sfm")) {
			i++
			if strings.HasPrefix(prot[i-1], "SfmRename") || strings.HasPrefix(prot[i-1], "SfmWriteInPlace") {
				break
			}
		}
		// persistent-query match results appended after the .sfm (FlushPqmr)
		for i < len(prot) && strings.HasPrefix(prot[i], "PqmrWrite") {
			p++
			i++
		}
		return
	}
	// the rotation's tokens (sfm rewrites + segmeta line)
	rotation := func() {
		for i < len(prot) && !strings.HasPrefix(prot[i], "ColWrite") {
			i++
		}
	}
	for _, st := range h.Steps {
		switch {
		case st.Kind == "rotate" || (st.Kind == "shutdown" && st.N == 0):
			// a forced flush with an empty buffer is AppendWipToSegfile going straight to the rotation
			items = append(items, "Rotate")
			rotation()
		case st.Kind == "shutdown":
			// forced flush: the buffer flush and the rotation in the same call
			m, n, p := flush()
			items = append(items, fmt.Sprintf("ForcedFlush %d %d %d", m, n, p))
			rotation()
		default:
			m, n, p := flush()
			items = append(items, fmt.Sprintf("Flush %d %d", m, n))
			if p > 0 {
				items = append(items, fmt.Sprintf("PqWrites %d", p))
			}
		}
	}
	return vhlib.CoqList(items)
}

func run(timeout time.Duration, name string, args ...string) (int, string) {
	ctx, cancel := context.WithTimeout(context.Background(), timeout)
	defer cancel()
	cmd := exec.CommandContext(ctx, name, args...)
	out, err := cmd.CombinedOutput()
	if ctx.Err() != nil {
		return 124, string(out)
	}
	if err != nil {
		if ee, ok := err.(*exec.ExitError); ok {
			return ee.ExitCode(), string(out)
		}
		return 1, string(out)
	}
	return 0, string(out)
}

// shutdownAfterFlush: the history ends with a graceful shutdown that finds events in the buffer of a segment which already
// has a completed flush (the forced rotation starts from a segment whose .sfm is the one of the PREVIOUS flush);
// otherwise the end is drawn: open segment | rotation | shutdown with 0..3 buffered events (after a rotation: a segment
// whose only flush is the shutdown flush)
func genHistory(r *vhlib.Rng, shutdownAfterFlush bool) history {
	h := history{Index: "idx"}
	n := r.Range(3, 6)
	for i := 0; i < n; i++ {
		if i > 0 && r.Chance(30) {
			h.Steps = append(h.Steps, step{Kind: "rotate"})
		}
		h.Steps = append(h.Steps, step{Kind: "flush", N: r.Range(1, 3)})
	}
	if shutdownAfterFlush {
		h.Steps = append(h.Steps, step{Kind: "shutdown", N: r.Range(1, 3)})
		return h
	}
	if r.Chance(40) {
		h.Steps = append(h.Steps, step{Kind: "rotate"})
	}
	if r.Chance(50) {
		h.Steps = append(h.Steps, step{Kind: "shutdown", N: r.Range(0, 3)})
	}
	return h
}

// a history for the persistent-query stream: at least one segment with two or more flushes, a rotation, flushes after
// it; consecutive blocks of a segment get DIFFERENT match sets for the filter (so that answering a block with another
// block's stored bits, or with none, changes the answer)
func genPQHistory(r *vhlib.Rng, thorough bool) history {
	for try := 0; ; try++ {
		h := history{Index: "idx", PQ: true, Filter: fmt.Sprintf("w=w%d", r.Intn(3))}
		nseg := 2
		if thorough {
			nseg = r.Range(2, 3)
		}
		for s := 0; s < nseg; s++ {
			nf := r.Range(1, 2)
			if s == 0 {
				nf = r.Range(2, 3)
			}
			// the last segment ends with a graceful shutdown whose buffer holds its last block (quick: always; thorough:
			// drawn against an open segment / a rotation)
			end := 0
			if s == nseg-1 {
				end = 1
				if thorough {
					end = r.Intn(3)
				}
			}
			for i := 0; i < nf; i++ {
				if end == 1 && i == nf-1 {
					h.Steps = append(h.Steps, step{Kind: "shutdown", N: r.Range(1, 4)})
				} else {
					h.Steps = append(h.Steps, step{Kind: "flush", N: r.Range(1, 4)})
				}
			}
			if s < nseg-1 || end == 2 {
				h.Steps = append(h.Steps, step{Kind: "rotate"})
			}
		}
		ok := true
		bl := blocksOf(h)
		for i := 1; i < len(bl); i++ {
			if bl[i].Seg != bl[i-1].Seg {
				continue
			}
			same := true
			for j := 0; j < bl[i].N; j++ {
				prev := j < bl[i-1].N && filterMatches(h, bl[i-1].From+j)
				if prev != filterMatches(h, bl[i].From+j) {
					same = false
				}
			}
			ok = ok && !same
		}
		if ok || try > 50 {
			return h
		}
	}
}

func intsEq(a, b []int) bool {
	if len(a) != len(b) {
		return false
	}
	for i := range a {
		if a[i] != b[i] {
			return false
		}
	}
	return true
}

func driverMain() {
	cfg := vhlib.ParseFlags()
	sum := vhlib.NewSummary("one case = one crash point: the file-system state after the first k completed system calls of a traced ingest/flush/rotate history (strace of the real worker, replayed into a fresh directory at the same path), followed by a real restart + `*` + `stats count` + further ingest; " +
		"after every restart also a filter query (`w=w<r>`: exactly the visible events that match); every third history is a persistent-query history (the filter asked on the empty index before the first event: every flush appends the block's match bits to <segkey>/pqmr/<pqid>.pqmr, consecutive blocks of a segment have different match sets; in every crash state each pqmr file is read by the real ReadPqmr and compared with what the traced writer had appended, and the query's per-block answer with the searcher model); " +
		"histories end with an open segment, a rotation or a graceful shutdown (ForcedFlushToSegfile with 0..n events in the buffer: buffer flush + rotation in one call; the RotateSegment hook of siglens marks the return of the buffer flush); " +
		"quick: stratified sample of k (every protocol token boundary of sfm/bsu/sst/segmeta + random; every call boundary from the return of the shutdown's buffer flush to the rename of the final .sfm; persistent-query history: every boundary of the pqmr appends + 7 others), thorough: every k; non-trivial = at least one flush had started; distinct by (history, k); " +
		"metadata-rewrite stream: a traced worker rotates segments of two indexes and runs a real rewrite of segmeta.json (retention cleaner; thorough: also the delete-index handler and AddOrReplaceRotatedSegmeta); crash states = call boundaries of its calls on segmeta.json(.tmp) + short writes on the temporary file; each is replayed, the real server restarts, runs a second real rewrite to its end, segmeta.json is read (bytes + the real reader), the server restarts again and is queried; " +
		"index-names stream: a traced worker flushes into several indexes, some of them registered (first event: append to virtualtablenames.txt) after completed flushes of the others; every byte prefix of the appended stream is read by the real reader; crash states inside those registrations (call boundaries, the record without its newline, a torn name; thorough: every byte) are replayed, the real server restarts and is queried on every index, flushes into all indexes and a brand-new one, is gone, restarts again and is queried")
	r := vhlib.NewRng(cfg.Seed)
	self, _ := os.Executable()
	nh := 3
	if cfg.Thorough() {
		nh = 5
	}
	caseShard := 0
	// the segmeta.json rewrite stream (meta.go) has its own directories and workers: it runs beside the histories
	metaDone := make(chan struct{})
	go func() {
		defer close(metaDone)
		if v := os.Getenv("C07_ONLY_H"); v == "" || v == "meta" {
			metaStream(cfg, sum, self)
		}
	}()
	// the index-names stream (names.go): crash inside the registration of a new index, two generations; own directories
	namesDone := make(chan struct{})
	go func() {
		defer close(namesDone)
		if v := os.Getenv("C07_ONLY_H"); (v == "" || v == "names") && os.Getenv("C07_SKIP_NAMES") == "" {
			namesStream(cfg, sum, self)
		}
	}()
	for hi := 0; hi < nh; hi++ {
		// quick: h0 = segment whose ONLY flush is the shutdown flush, h1 = shutdown flush after earlier flushes of the segment
		h := genHistory(r.Fork(), hi == 1)
		if v := os.Getenv("C07_ONLY_H"); v != "" && v != strconv.Itoa(hi) {
			continue
		}
		if hi == 0 {
			h = history{Index: "idx", Steps: []step{{"flush", 2}, {"flush", 1}, {"rotate", 0}, {"shutdown", 2}}}
		}
		if hi%2 == 1 {
			h.Desc = true // late-arriving data: every flush holds OLDER timestamps than the one before
		}
		h.Filter = "w=w1"
		if hi%3 == 2 {
			// persistent-query stream: the filter is asked before the first event arrives, every flush appends the block's
			// match bits to the segment's pqmr file, after the restart the filter is answered from those files
			h = genPQHistory(r.Fork(), cfg.Thorough())
		}
		root, _ := filepath.Abs(filepath.Join(cfg.Out, fmt.Sprintf("h%d", hi)))
		_ = os.MkdirAll(root, 0o755)
		hf := filepath.Join(root, "history.json")
		hb, _ := json.Marshal(h)
		_ = os.WriteFile(hf, hb, 0o644)
		run1 := filepath.Join(root, "run")
		_ = os.MkdirAll(run1, 0o755)
		tracef := filepath.Join(root, "trace.txt")
		rc, out := run(120*time.Second, "strace", "-f", "-y", "-xx", "-s", "2000000", "-o", tracef, "-e", traceSet, self, "worker", "ingest", run1, hf)
		if rc != 0 {
			sum.HarnessError(fmt.Sprintf("traced ingest worker rc=%d: %s", rc, tail(out)))
			continue
		}
		ops, err := parseTrace(tracef, run1)
		if err != nil || len(ops) == 0 {
			sum.HarnessError(fmt.Sprintf("trace parse: %v (%d ops)", err, len(ops)))
			continue
		}
		// sanity of the replayer: replaying everything must reproduce the worker's own final state
		finalIDs, ok := recoverAt(self, run1, hf, ops, len(ops), sum, h)
		if !ok {
			continue
		}
		_ = finalIDs
		toks := make([]string, len(ops))
		for i, o := range ops {
			toks[i] = token(o)
		}
		sufToks := make([]string, len(ops))
		seenDir := map[string]bool{}
		nAllocs := 0
		for i, o := range ops {
			sufToks[i] = sufToken(o, seenDir)
			if strings.HasPrefix(sufToks[i], "SegDirCreate") {
				nAllocs++
			}
		}
		// crash points
		var ks []int
		if cfg.Thorough() {
			for k := 0; k <= len(ops); k++ {
				ks = append(ks, k)
			}
		} else {
			budget := 34 // crash points of a history (the forced-rotation window included)
			must := map[int]bool{} // the window of the persistent-query appends: every boundary is kept
			for i, t := range toks {
				if strings.HasPrefix(t, "PqmrWrite") {
					must[i] = true
					must[i+1] = true
				}
			}
			if h.PQ {
				budget = 7 + len(must)
			}
			// the window a forced rotation opens: from the return of the shutdown's buffer flush (marker written by the
			// RotateSegment hook) to the rename of the final .sfm, every boundary of a protocol call is kept
			for i, o := range ops {
				if !(strings.HasSuffix(o.Path, "/progress.log") && o.Kind == "write" && strings.HasPrefix(string(o.Data), "FLUSHED")) {
					continue
				}
				must[i+1] = true
				if h.PQ {
					budget++
				}
				for j := i + 1; j < len(ops); j++ {
					if strings.HasPrefix(toks[j], "Sfm") {
						for _, b := range []int{j, j + 1} {
							if h.PQ && !must[b] {
								budget++
							}
							must[b] = true
						}
					}
					if strings.HasPrefix(toks[j], "SfmRename") {
						break
					}
				}
			}
			pick := map[int]bool{0: true, len(ops): true}
			for i, t := range sufToks {
				if strings.HasPrefix(t, "Suf") {
					pick[i] = true
					pick[i+1] = true
				}
			}
			for i, t := range toks {
				if strings.HasPrefix(t, "Sfm") || strings.HasPrefix(t, "Bsu") || strings.HasPrefix(t, "SstRename") || strings.HasPrefix(t, "Segmeta") {
					pick[i] = true
					pick[i+1] = true
				}
			}
			for len(pick) < 36 && len(pick) < len(ops) {
				pick[r.Intn(len(ops)+1)] = true
			}
			for k := range pick {
				if !must[k] {
					ks = append(ks, k)
				}
			}
			sort.Ints(ks)
			if rest := budget - len(must); len(ks) > rest {
				// keep the budget: thin out evenly (the sfm/bsu boundaries stay over-represented)
				var ks2 []int
				for i := 0; i < rest; i++ {
					ks2 = append(ks2, ks[i*len(ks)/rest])
				}
				ks = ks2
			}
			for k := range must {
				ks = append(ks, k)
			}
			sort.Ints(ks)
		}
		if os.Getenv("C07_DUMP") != "" {
			for i, o := range ops {
				fmt.Fprintf(os.Stderr, "op %d: %s %s -> %s [%s] %d bytes %x\n", i, o.Kind, strings.TrimPrefix(o.Path, run1), strings.TrimPrefix(o.Path2, run1), toks[i], len(o.Data), o.Data[:min(len(o.Data), 24)])
			}
		}
		if v := os.Getenv("C07_ONLY_K"); v != "" {
			kk, _ := strconv.Atoi(v)
			ks = []int{kk}
			for i := kk - 6; i < kk+2 && i < len(ops); i++ {
				if i >= 0 {
					fmt.Fprintf(os.Stderr, "op %d: %s %s -> %s [%s]\n", i, ops[i].Kind, ops[i].Path, ops[i].Path2, toks[i])
				}
			}
		}
		// protocol-order case: the whole token sequence must be ops_of (history with observed write counts)
		{
			var tl []string
			for _, t := range toks {
				if t != "" && t != "Other" {
					tl = append(tl, "("+t+")")
				}
			}
			defs := "Open Scope nat_scope.\nDefinition hist : list hstep := " + observedHistory(h, toks) + ".\nDefinition observed : list fop := " + vhlib.CoqListNL(tl) + ".\n"
			sum.WriteCaseFile(cfg.Out, fmt.Sprintf("cases_protocol_%d", hi), "From SigM Require Import Base FlushProto FlushProtoCheck.\n", defs, "if check_protocol hist observed then [] else [O]", 1)
		}
		var cases []string
		var sufObs []string
		for _, k := range ks {
			obs, ok := recoverAt(self, run1, hf, ops, k, sum, h)
			if !ok {
				continue
			}
			if lastSuffixObs >= 0 {
				ks2 := 0
				for _, t := range sufToks[:k] {
					if t != "" {
						ks2++
					}
				}
				sufObs = append(sufObs, fmt.Sprintf("(%d, %d)", ks2, lastSuffixObs))
			}
			// model case: tokens of the prefix (protocol ops only) and the observed visible blocks
			var tl []string
			for _, t := range toks[:k] {
				if t != "" && t != "Other" {
					tl = append(tl, "("+t+")")
				}
			}
			if h.Desc {
				// late-arriving data: whether the block of the flush IN PROGRESS is already searchable also depends on the
				// time range recorded in the previous .sfm (the searcher schedules blocks by the segment's recorded range);
				// the protocol model does not carry time ranges, so these crash points are judged by the oracle only
				sum.Count("crash_points_oracle_only(descending timestamps)")
				continue
			}
			cases = append(cases, fmt.Sprintf("(%s, %s)", vhlib.CoqList(tl), blocksCoq(h, obs)))
			if len(cases) >= 200 {
				writeCases(cfg, sum, &caseShard, h, cases)
				cases = nil
			}
		}
		writeCases(cfg, sum, &caseShard, h, cases)
		if h.PQ {
			checkPqmrWriter(cfg, sum, hi, ops, h)
			if len(pqReadCases) == 0 {
				sum.HarnessError(fmt.Sprintf("history %d: no pqmr file was read in any crash state", hi))
			}
			writePqmrReadCases(cfg, sum, hi)
			writePqmrAnswerCases(cfg, sum, hi)
		}
		// suffix-file protocol: the traced calls must be the model's ops for nAllocs allocations, and in every crash state
		// the file must hold what the model says (the restarted writer allocates that number next)
		{
			var tl []string
			for _, t := range sufToks {
				if t != "" {
					tl = append(tl, "("+t+")")
				}
			}
			defs := "Open Scope nat_scope.\nDefinition observed : list sop := " + vhlib.CoqListNL(tl) + ".\nDefinition obs : list (nat * nat) := " + vhlib.CoqListNL(sufObs) + ".\n"
			sum.WriteCaseFile(cfg.Out, fmt.Sprintf("cases_suffix_%d", hi), "From SigM Require Import Base SuffixProto.\n", defs,
				fmt.Sprintf("check_suffix true %d observed obs", nAllocs), len(sufObs)+1)
		}
		sum.Sample(map[string]interface{}{"history": h, "syscalls": len(ops), "crash_points": len(ks)})
		if os.Getenv("C07_ONLY_K") != "" {
			break
		}
		_ = os.RemoveAll(run1)
	}
	<-metaDone
	<-namesDone
	sum.Write(cfg.Out)
}

func tail(s string) string {
	if len(s) > 400 {
		return s[len(s)-400:]
	}
	return s
}

// events of each flush step, as id ranges; block numbering: (segment index, block index) in ingest order
type blk struct{ Seg, Blk, From, N int }

func blocksOf(h history) []blk {
	var out []blk
	seg, b, next := 0, 0, 1
	for _, st := range h.Steps {
		switch st.Kind {
		case "flush":
			out = append(out, blk{seg, b, next, st.N})
			next += st.N
			b++
		case "rotate":
			if b > 0 {
				seg++
				b = 0
			}
		case "shutdown":
			// the buffered events become the last block of the segment, which is rotated in the same call
			if st.N > 0 {
				out = append(out, blk{seg, b, next, st.N})
				next += st.N
				b++
			}
			if b > 0 {
				seg++
				b = 0
			}
		}
	}
	return out
}

// observed ids -> list of fully visible blocks (as "(seg,blk)"), partial blocks reported separately
func blocksCoq(h history, ids []int) string {
	set := map[int]bool{}
	for _, i := range ids {
		set[i] = true
	}
	var items []string
	for _, b := range blocksOf(h) {
		all := true
		for i := 0; i < b.N; i++ {
			all = all && set[b.From+i]
		}
		if all {
			items = append(items, fmt.Sprintf("(%d,%d)", b.Seg, b.Blk))
		}
	}
	return vhlib.CoqList(items)
}

func writeCases(cfg vhlib.Config, sum *vhlib.Summary, shard *int, h history, cases []string) {
	if len(cases) == 0 {
		return
	}
	defs := "Open Scope nat_scope.\nDefinition cases : list (list fop * list (nat * nat)) := " + vhlib.CoqListNL(cases) + ".\n"
	sum.WriteCaseFile(cfg.Out, fmt.Sprintf("cases_%d", *shard), "From SigM Require Import Base FlushProto FlushProtoCheck.\n", defs, "check_crash_cases cases", len(cases))
	*shard++
}

// replay the first k ops at the original path, restart the real code on it, evaluate the oracle
func recoverAt(self, run1, hf string, ops []fsop, k int, sum *vhlib.Summary, h history) ([]int, bool) {
	_ = os.RemoveAll(run1)
	_ = os.MkdirAll(run1, 0o755)
	for _, o := range ops[:k] {
		if err := applyOp(o); err != nil {
			sum.HarnessError(fmt.Sprintf("replay op %d (%s %s): %v", o.Line, o.Kind, o.Path, err))
			return nil, false
		}
	}
	if h.PQ {
		checkPqmrFiles(run1, ops, k, sum, h, map[string]interface{}{"history": h, "crash_after_syscalls": k})
	}
	lastSuffixObs = -1
	if fs, _ := filepath.Glob(filepath.Join(run1, "data", "*", "suffix", "*", "*.suffix")); len(fs) <= 1 {
		lastSuffixObs = 0
		if len(fs) == 1 {
			if b, err := os.ReadFile(fs[0]); err == nil {
				if m := reSufVal.FindSubmatch(b); m != nil {
					lastSuffixObs, _ = strconv.Atoi(string(m[1]))
				}
			}
		}
	}
	// which steps had completed (markers are written by the worker after each step returns)
	done := -1
	started := false
	flushed := map[int]bool{} // shutdown steps whose buffer flush had returned (the forced rotation had begun)
	if pb, err := os.ReadFile(filepath.Join(run1, "progress.log")); err == nil {
		for _, l := range strings.Split(string(pb), "\n") {
			if strings.HasPrefix(l, "DONE ") {
				done, _ = strconv.Atoi(strings.TrimPrefix(l, "DONE "))
			}
			if strings.HasPrefix(l, "FLUSHED ") {
				i, _ := strconv.Atoi(strings.TrimPrefix(l, "FLUSHED "))
				flushed[i] = true
			}
			if l == "START" {
				started = true
			}
		}
	}
	total := 0
	for _, st := range h.Steps {
		total += st.N
	}
	of := filepath.Join(filepath.Dir(run1), "recovered.json")
	_ = os.Remove(of)
	rc, out := run(90*time.Second, self, "worker", "recover", run1, hf, of, strconv.Itoa(total+1))
	// second crash generation (the recovering process flushed two more events and is killed in turn)
	rc2 := 0
	if rc == 0 {
		rc2, _ = run(90*time.Second, self, "worker", "again", run1, hf, of)
	}
	var rec recovered
	ob, _ := os.ReadFile(of)
	_ = json.Unmarshal(ob, &rec)
	sum.Eval(fmt.Sprintf("%s/%d", hf, k), started)
	sum.Count("crash_points")
	c := map[string]interface{}{"history": h, "crash_after_syscalls": k, "steps_completed": done + 1}
	// a step's buffer flush had completed before the crash: the step returned, or (shutdown step) its flush returned and
	// the crash hit the forced rotation that follows it in the same call
	flushCompleted := func(i int) bool { return i <= done || flushed[i] }
	// the crash hit a buffer flush that had not returned (known window of the statistics: block summary / .sst of the flush
	// in progress are on disk, its .sfm is not)
	inFlush := started && done+1 < len(h.Steps) && h.Steps[done+1].flushes() && !flushed[done+1]
	during := "" // class suffix: the crash hit a forced rotation whose buffer flush had completed
	for i := range flushed {
		if i > done {
			during = "_during_forced_rotation"
			c["crash_inside_forced_rotation_of_step"] = i
			sum.Count("crash_points_inside_forced_rotation(buffer flush of the shutdown completed)")
		}
	}
	if rc != 0 || !rec.StartupOK {
		sum.Fail("startup_fails_after_crash", fmt.Sprintf("restart after crash point %d: rc=%d err=%q %s", k, rc, rec.Err, tail(out)), c)
		return nil, true
	}
	// expected: events of completed flush steps; in-progress = the next flush step
	var completed, inprog []int
	next := 1
	for i, st := range h.Steps {
		if !st.flushes() {
			continue
		}
		for j := 0; j < st.N; j++ {
			if flushCompleted(i) {
				completed = append(completed, next+j)
			}
		}
		if !flushCompleted(i) && inprog == nil && started {
			// the first not-yet-completed flush step may be in progress (rotate steps in between do not add events)
			for j := 0; j < st.N; j++ {
				inprog = append(inprog, next+j)
			}
		}
		next += st.N
	}
	got := map[int]int{}
	for _, id := range rec.IDs {
		got[id]++
	}
	if rec.Err != "" {
		sum.Fail("query_error_after_crash", fmt.Sprintf("crash point %d: match-all returned error %q", k, rec.Err), c)
	}
	if len(rec.Bad) > 0 {
		sum.Fail("garbage_after_crash", fmt.Sprintf("crash point %d: rows with wrong content: %v", k, rec.Bad), c)
	}
	for id, n := range got {
		if n > 1 {
			sum.Fail("event_duplicated_after_crash", fmt.Sprintf("crash point %d: id %d returned %d times", k, id, n), c)
			break
		}
	}
	for _, id := range completed {
		if got[id] == 0 {
			sum.Fail("completed_flush_lost_after_crash"+during, fmt.Sprintf("crash point %d (%d steps completed%s): event %d of a completed flush is not searchable after restart; visible=%v", k, done+1, map[bool]string{false: "", true: "; the buffer flush of the graceful shutdown had returned, the crash hit the rotation that follows it"}[during != ""], id, rec.IDs), c)
			break
		}
	}
	allowed := map[int]bool{}
	for _, id := range completed {
		allowed[id] = true
	}
	nIn := 0
	for _, id := range inprog {
		allowed[id] = true
		if got[id] > 0 {
			nIn++
		}
	}
	for id := range got {
		if !allowed[id] {
			sum.Fail("unflushed_event_visible_after_crash", fmt.Sprintf("crash point %d: event %d visible but its flush had not started", k, id), c)
			break
		}
	}
	if nIn != 0 && nIn != len(inprog) {
		sum.Fail("flush_in_progress_partially_visible", fmt.Sprintf("crash point %d: %d of %d events of the flush in progress are visible", k, nIn, len(inprog)), c)
	}
	// a query bounded to the time range of a visible flush must return that flush's events
	{
		next := 1
		for i, st := range h.Steps {
			if !st.flushes() {
				continue
			}
			allVisible := true
			for j := 0; j < st.N; j++ {
				allVisible = allVisible && got[next+j] > 0
			}
			if allVisible && rec.Bounded != nil {
				have := map[int]bool{}
				for _, id := range rec.Bounded[i] {
					have[id] = true
				}
				for j := 0; j < st.N; j++ {
					if !have[next+j] {
						if !flushCompleted(i) {
							// the flush in progress: its block summary is appended, the .sfm still records the previous time range
							sum.Fail("in_progress_block_outside_recorded_time_range", fmt.Sprintf("crash point %d: event %d of the flush in progress is returned by the unbounded `*` but not by `*` bounded to its own time range (the .sfm still holds the previous earliest/latest)", k, next+j), c)
							break
						}
						sum.Fail("recovered_event_missing_from_time_bounded_query"+during, fmt.Sprintf("crash point %d: event %d is returned by the unbounded `*` after restart but not by `*` bounded to the time range of its own flush (got %v)", k, next+j, rec.Bounded[i]), c)
						break
					}
				}
			}
			next += st.N
		}
	}
	// the filter query (answered from the pqmr files when it is a persistent query): exactly the visible events that match
	if h.Filter != "" {
		kind, how := "filter_query", "`"+h.Filter+"`"
		if h.PQ {
			kind, how = "persistent_query", "persistent query `"+h.Filter+"`"
			if rec.FilterPath[1] > 0 {
				sum.Count("persistent_query_answered_from_pqmr_files")
			}
		}
		judge := func(when string, visible, got []int, suffix string) {
			if got == nil {
				return
			}
			want := []int{}
			for _, id := range visible {
				if filterMatches(h, id) {
					want = append(want, id)
				}
			}
			if intsEq(want, got) {
				return
			}
			have := map[int]int{}
			for _, id := range got {
				have[id]++
			}
			vis := map[int]bool{}
			for _, id := range visible {
				vis[id] = true
			}
			for _, id := range want {
				if have[id] == 0 {
					sum.Fail(kind+"_misses_matching_event"+suffix, fmt.Sprintf("crash point %d, %s: %s returns %v, but event %d is returned by `*` and matches (expected %v; segments raw-searched/answered from pqmr: %v)", k, when, how, got, id, want, rec.FilterPath), c)
					return
				}
			}
			for _, id := range got {
				if !filterMatches(h, id) || !vis[id] {
					sum.Fail(kind+"_returns_non_matching_event"+suffix, fmt.Sprintf("crash point %d, %s: %s returns %v, but event %d does not match or is not returned by `*` (expected %v; segments raw-searched/answered from pqmr: %v)", k, when, how, got, id, want, rec.FilterPath), c)
					return
				}
			}
			sum.Fail(kind+"_returns_event_twice"+suffix, fmt.Sprintf("crash point %d, %s: %s returns %v, expected %v", k, when, how, got, want), c)
		}
		if rec.FilterErr != "" {
			sum.Fail(kind+"_error_after_crash", fmt.Sprintf("crash point %d: %s: %s", k, how, rec.FilterErr), c)
		} else {
			judge("after restart", rec.IDs, rec.Filter, "_after_crash")
			if h.PQ && rec.Filter != nil && rec.Err == "" {
				addAnswerCases(h, rec.IDs, rec.Filter)
			}
		}
		if rec.AfterErr == "" {
			judge("after restart and two more flushed events", rec.After, rec.FilterAfter, "_after_later_ingest")
		}
		if rc2 == 0 && rec.AgainErr == "" {
			judge("after the second restart", rec.Again, rec.FilterAgain, "_after_second_crash")
		}
	}
	if rec.CountErr != "" {
		sum.Fail("query_error_after_crash", fmt.Sprintf("crash point %d: stats count error %q", k, rec.CountErr), c)
	} else if int(rec.Count) != len(rec.IDs) && !(rec.Count <= 0 && len(rec.IDs) == 0) && !inFlush {
		// no buffer flush was in progress when the crash hit: the files hold completed flushes only
		sum.Fail("segment_stats_disagree_with_completed_flushes_after_crash"+during, fmt.Sprintf("crash point %d: `* | stats count` = %d but match-all returns %d events, all of completed flushes", k, rec.Count, len(rec.IDs)), c)
	} else if int(rec.Count) != len(rec.IDs) && !(rec.Count <= 0 && len(rec.IDs) == 0) {
		sum.Fail("stale_segment_stats_after_crash", fmt.Sprintf("crash point %d: `* | stats count` = %d but match-all returns %d events", k, rec.Count, len(rec.IDs)), c)
	}
	// the same for a statistic over the events' content: sum(n) with n = 7*id
	if rec.CountErr == "" && rec.SumN >= 0 {
		want := int64(0)
		for _, id := range rec.IDs {
			want += int64(id) * 7
		}
		if rec.SumN != want {
			if !inFlush {
				sum.Fail("segment_stats_sum_disagrees_with_completed_flushes_after_crash"+during, fmt.Sprintf("crash point %d: `* | stats sum(n)` = %d but the events returned by match-all (all of completed flushes) sum to %d", k, rec.SumN, want), c)
			} else {
				sum.Fail("stale_segment_stats_after_crash", fmt.Sprintf("crash point %d: `* | stats sum(n)` = %d but the events returned by match-all sum to %d (a flush is in progress)", k, rec.SumN, want), c)
			}
		}
	}
	if os.Getenv("C07_TABLE") != "" {
		t := ""
		if k > 0 {
			t = token(ops[k-1])
		}
		fmt.Fprintf(os.Stderr, "k=%d last=%q done=%d ids=%v count=%d sum(n)=%d\n", k, t, done+1, rec.IDs, rec.Count, rec.SumN)
	}
	// later ingestion must not overwrite recovered data
	if rec.AfterErr != "" {
		sum.Fail("ingest_fails_after_recovery", fmt.Sprintf("crash point %d: %s", k, rec.AfterErr), c)
	} else {
		want := append(append([]int{}, rec.IDs...), total+1, total+2)
		sort.Ints(want)
		if !intsEq(want, rec.After) {
			sum.Fail("later_ingest_disturbs_recovered_data", fmt.Sprintf("crash point %d: visible before %v, after ingesting 2 more events %v", k, rec.IDs, rec.After), c)
		}
	}
	if rc2 != 0 || rec.AgainErr != "" {
		sum.Fail("startup_fails_after_second_crash", fmt.Sprintf("crash point %d: second restart rc=%d err=%q", k, rc2, rec.AgainErr), c)
	} else if rec.AfterErr == "" && !intsEq(rec.After, rec.Again) {
		sum.Fail("completed_flush_lost_after_second_crash", fmt.Sprintf("crash point %d: after recovery + further ingest + flush the searchable ids were %v; after the next restart they are %v", k, rec.After, rec.Again), c)
	}
	return rec.IDs, true
}

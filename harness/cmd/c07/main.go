// c07: crash safety of flushed log data (see DESIGN.md §3 C07).
package main

import (
	"os"
	"strings"

	log "github.com/sirupsen/logrus"
)

func main() {
	log.SetLevel(log.PanicLevel)
	log.SetOutput(os.Stderr)
	if len(os.Args) > 2 && os.Args[1] == "worker" && strings.HasPrefix(os.Args[2], "meta") {
		metaWorkerMain(os.Args[2:])
		return
	}
	if len(os.Args) > 2 && os.Args[1] == "worker" && strings.HasPrefix(os.Args[2], "names") {
		namesWorkerMain(os.Args[2:])
		return
	}
	if len(os.Args) > 1 && os.Args[1] == "worker" {
		workerMain(os.Args[2:])
		return
	}
	driverMain()
}

package main

// Driver of the segmeta.json REWRITE stream: "the server dies during a metadata rewrite", over TWO generations.
//   1. a traced worker rotates the scenario's segments (two indexes) and runs rewrite R1 (retention cleaner, delete-index
//      request or AddOrReplaceRotatedSegmeta);
//   2. every call boundary of R1's calls on segmeta.json / segmeta.json.tmp is a crash point, plus short-write states (the
//      first half of a write on the temporary file): the prefix is replayed at the original path;
//   3. the real server is restarted on it (oracle: the segments R1 does not touch are searchable), runs rewrite R2 to its
//      end, and the driver reads segmeta.json and the real reader's view of it;
//   4. the server is restarted again (segmeta.json is re-read) and queried.
// Oracle: after the completed R2 segmeta.json names every segment no rewrite touched exactly once, none that a completed
// removal dropped, has no unreadable line, and no temporary file is left; the queries after the second restart return
// the events of exactly those segments.  Model (SegmetaProto): the traced calls of R1 are the model's calls; for every crash
// state the model's run of R2 on it yields the observed bytes of segmeta.json.

import (
	"bytes"
	"encoding/json"
	"fmt"
	"os"
	"path/filepath"
	"strings"
	"time"

	"verifharness/vhlib"

	"github.com/siglens/siglens/pkg/segment/writer"
)

func metaScenarios(r *vhlib.Rng, thorough bool) []mscenario {
	// quick: the retention cleaner drops the oldest segment and dies; after the restart it drops the two oldest of the
	// index (what it had written to the temporary file names a segment that the second run deletes)
	scs := []mscenario{{
		Segs: []mseg{{"idx", 2}, {"idx2", 1}, {"idx", 1}, {"idx", 2}, {"idx2", 2}},
		R1:   rewrite{Kind: "retention", Segs: []int{0}},
		R2:   rewrite{Kind: "retention", Segs: []int{0, 2}},
	}}
	if !thorough {
		return scs
	}
	for i := 0; i < 4; i++ {
		var sc mscenario
		n := r.Range(4, 6)
		var ofIdx [2][]int
		for s := 0; s < n; s++ {
			ix := r.Intn(2)
			if s < 2 {
				ix = s
			}
			sc.Segs = append(sc.Segs, mseg{[]string{"idx", "idx2"}[ix], r.Range(1, 3)})
			ofIdx[ix] = append(ofIdx[ix], s)
		}
		pick := func(avoid map[int]bool) rewrite {
			switch r.Intn(3) {
			case 0:
				// the cleaner drops the oldest one or two segments
				k := r.Range(1, 2)
				var segs []int
				for s := 0; s < n && len(segs) < k; s++ {
					segs = append(segs, s)
				}
				return rewrite{Kind: "retention", Segs: segs}
			case 1:
				return rewrite{Kind: "delindex", Index: "idx2"}
			default:
				for {
					o := r.Intn(n)
					if !avoid[o] {
						return rewrite{Kind: "replace", Segs: []int{o}}
					}
				}
			}
		}
		sc.R1 = pick(nil)
		for {
			sc.R2 = pick(nil)
			if sc.R1.Kind == "delindex" && sc.R2.Kind == "delindex" {
				continue // the index is gone from the table list after the first request: the second one answers 404
			}
			if sc.R2.Kind == "retention" {
				// the next run of the cleaner picks what the interrupted one picked, and one more
				sc.R2.Segs = nil
				for s := 0; s < n && s <= len(sc.R1.Segs); s++ {
					sc.R2.Segs = append(sc.R2.Segs, s)
				}
			}
			break
		}
		scs = append(scs, sc)
	}
	return scs
}

// ordinals a rewrite drops for good / drops and adds again
func (sc mscenario) targets(rw rewrite) (drop map[int]bool, readd map[int]bool) {
	drop, readd = map[int]bool{}, map[int]bool{}
	switch rw.Kind {
	case "retention":
		for _, o := range rw.Segs {
			drop[o] = true
		}
	case "delindex":
		for o, s := range sc.Segs {
			if s.Index == rw.Index {
				drop[o] = true
			}
		}
	case "replace":
		for _, o := range rw.Segs {
			readd[o] = true
		}
	}
	return
}

func rwCoq(sc mscenario, rw rewrite) string {
	switch rw.Kind {
	case "retention":
		var it []string
		for _, o := range rw.Segs {
			it = append(it, cnat(o))
		}
		return "Retention " + vhlib.CoqList(it)
	case "delindex":
		return "DelIndex " + cnat(indexID(sc, rw.Index))
	case "replace":
		return "ReplaceSeg " + cnat(rw.Segs[0])
	}
	return "NoRw"
}

// a nat literal (the case files are read in N scope: bytes)
func cnat(i int) string { return fmt.Sprintf("%d%%nat", i) }

func indexID(sc mscenario, name string) int {
	for i, n := range sc.indexes() {
		if n == name {
			return i
		}
	}
	return 99
}

// model token of a call on segmeta.json / segmeta.json.tmp ("" = not part of the protocol)
func mtoken(o fsop, mainPath string) string {
	tmp := mainPath + ".tmp"
	switch {
	case o.Kind == "rename" && o.Path == tmp && o.Path2 == mainPath:
		return "Rename"
	case o.Path == tmp && o.Kind == "trunc":
		return "TmpOpenTrunc"
	case o.Path == tmp && o.Kind == "creat":
		return "TmpOpenKeep"
	case o.Path == tmp && (o.Kind == "write" || o.Kind == "pwrite"):
		return fmt.Sprintf("TmpWrite %s %s %s", vhlib.CoqBool(o.Kind == "write" && o.Append), cnat(int(o.Off)), vhlib.CoqBytes(o.Data))
	case o.Path == mainPath && o.Kind == "creat":
		return "MainOpen"
	case o.Path == mainPath && o.Kind == "trunc":
		return "MainUnlink); (MainOpen"
	case o.Path == mainPath && (o.Kind == "write" || o.Kind == "pwrite"):
		return "MainAppend " + vhlib.CoqBytes(o.Data)
	case o.Path == mainPath && o.Kind == "unlink":
		return "MainUnlink"
	case o.Kind == "rename" && (o.Path2 == mainPath || o.Path == tmp || o.Path == mainPath):
		return "Rename" // any other rename that involves the two files would be a different protocol: keep it visible
	}
	return ""
}

func coqOptBytes(b []byte, ok bool) string {
	if !ok {
		return "None"
	}
	return "(Some " + vhlib.CoqBytes(b) + ")"
}

type metaState struct {
	K    int // ops[:K] replayed
	Torn int // > 0: plus the first Torn bytes of the write ops[K] (a short write on the temporary file)
}

func metaStream(cfg vhlib.Config, sum *vhlib.Summary, self string) {
	r := vhlib.NewRng(cfg.Seed*0x9E3779B97F4A7C15 + 0x07c07)
	for mi, sc := range metaScenarios(r, cfg.Thorough()) {
		runMetaScenario(cfg, sum, self, mi, sc)
	}
}

func runMetaScenario(cfg vhlib.Config, sum *vhlib.Summary, self string, mi int, sc mscenario) {
	root, _ := filepath.Abs(filepath.Join(cfg.Out, fmt.Sprintf("m%d", mi)))
	_ = os.MkdirAll(root, 0o755)
	sf := filepath.Join(root, "scenario.json")
	sb, _ := json.Marshal(sc)
	_ = os.WriteFile(sf, sb, 0o644)
	run1 := filepath.Join(root, "run")
	_ = os.MkdirAll(run1, 0o755)
	tracef := filepath.Join(root, "trace.txt")
	rc, out := run(120*time.Second, "strace", "-f", "-y", "-xx", "-s", "2000000", "-o", tracef, "-e", traceSet, self, "worker", "metaingest", run1, sf)
	if rc != 0 {
		sum.HarnessError(fmt.Sprintf("metadata-rewrite scenario %d: traced worker rc=%d: %s", mi, rc, tail(out)))
		return
	}
	ops, err := parseTrace(tracef, run1)
	if err != nil || len(ops) == 0 {
		sum.HarnessError(fmt.Sprintf("metadata-rewrite scenario %d: trace parse: %v (%d ops)", mi, err, len(ops)))
		return
	}
	iBegin, iEnd, mainPath := -1, -1, ""
	for i, o := range ops {
		if strings.HasSuffix(o.Path, "/progress.log") && o.Kind == "write" {
			if strings.HasPrefix(string(o.Data), "R1BEGIN") {
				iBegin = i + 1
			}
			if strings.HasPrefix(string(o.Data), "R1DONE") {
				iEnd = i
			}
		}
		if strings.HasSuffix(o.Path, "/segmeta.json") {
			mainPath = o.Path
		}
	}
	if iBegin < 0 || iEnd < iBegin || mainPath == "" {
		sum.HarnessError(fmt.Sprintf("metadata-rewrite scenario %d: rewrite window not found in the trace (%d..%d, %q)", mi, iBegin, iEnd, mainPath))
		return
	}
	replay := func(st metaState) bool {
		_ = os.RemoveAll(run1)
		_ = os.MkdirAll(run1, 0o755)
		for _, o := range ops[:st.K] {
			if err := applyOp(o); err != nil {
				sum.HarnessError(fmt.Sprintf("metadata-rewrite scenario %d: replay op %d (%s %s): %v", mi, o.Line, o.Kind, o.Path, err))
				return false
			}
		}
		if st.Torn > 0 {
			o := ops[st.K]
			o.Data = o.Data[:st.Torn]
			if err := applyOp(o); err != nil {
				sum.HarnessError(fmt.Sprintf("metadata-rewrite scenario %d: replay of the short write: %v", mi, err))
				return false
			}
		}
		return true
	}
	// segmeta.json when R1 starts: its lines are the dictionary (line i = the i-th rotated segment)
	if !replay(metaState{K: iBegin}) {
		return
	}
	main0, err0 := os.ReadFile(mainPath)
	keys := readSegkeys(run1)
	lines0 := bytes.Split(bytes.TrimSuffix(main0, []byte("\n")), []byte("\n"))
	if err0 != nil || len(lines0) != len(sc.Segs) || len(keys) != len(sc.Segs) {
		sum.HarnessError(fmt.Sprintf("metadata-rewrite scenario %d: segmeta.json before the rewrite has %d lines, %d segment keys, %d segments expected (%v)", mi, len(lines0), len(keys), len(sc.Segs), err0))
		return
	}
	ordOf := map[string]int{}
	var dict []string
	for i, l := range lines0 {
		if !bytes.Contains(l, []byte(`"segmentKey":"`+keys[i]+`"`)) {
			sum.HarnessError(fmt.Sprintf("metadata-rewrite scenario %d: line %d of segmeta.json does not name segment %s", mi, i, keys[i]))
			return
		}
		ordOf[keys[i]] = i
		dict = append(dict, fmt.Sprintf("(%s, (%s, %s))", vhlib.CoqBytes(l), cnat(i), cnat(indexID(sc, sc.Segs[i].Index))))
	}
	// the protocol calls of R1
	var tokIdx []int
	var toks []string
	for i := iBegin; i < iEnd; i++ {
		if t := mtoken(ops[i], mainPath); t != "" {
			tokIdx = append(tokIdx, i)
			toks = append(toks, "("+t+")")
		}
	}
	if os.Getenv("C07_DUMP") != "" {
		for i := iBegin; i < iEnd; i++ {
			fmt.Fprintf(os.Stderr, "meta op %d: %s %s -> %s append=%v off=%d %d bytes\n", i, ops[i].Kind, strings.TrimPrefix(ops[i].Path, run1), strings.TrimPrefix(ops[i].Path2, run1), ops[i].Append, ops[i].Off, len(ops[i].Data))
		}
	}
	if len(tokIdx) == 0 {
		sum.HarnessError(fmt.Sprintf("metadata-rewrite scenario %d: the first rewrite made no call on segmeta.json", mi))
		return
	}
	// crash states: every boundary of a protocol call; short writes on the temporary file
	type cstate struct {
		st   metaState
		ntok int // protocol calls completed
	}
	var states []cstate
	nTmpWrite := 0
	for n, i := range tokIdx {
		states = append(states, cstate{metaState{K: i}, n})
		o := ops[i]
		if o.Path == mainPath+".tmp" && o.Kind == "write" && len(o.Data) > 1 {
			nTmpWrite++
			// quick: a short write of the first and of the second line; thorough: of every line
			if cfg.Thorough() || nTmpWrite <= 2 {
				states = append(states, cstate{metaState{K: i, Torn: len(o.Data) / 2}, n})
			}
		}
	}
	states = append(states, cstate{metaState{K: tokIdx[len(tokIdx)-1] + 1}, len(tokIdx)})
	// ---- all-or-nothing on the file itself, in EVERY crash state (no restart needed: the real reader on the replayed
	// file): segmeta.json names the segments it named before the rewrite or the ones it names after it (replace: also
	// the state between the removal and the append).  This is what a restart without the .sfm scan has to go by.
	{
		var oldL, newL, midL []int
		d1, ra1 := sc.targets(sc.R1)
		for o := range sc.Segs {
			oldL = append(oldL, o)
			if !d1[o] && !ra1[o] {
				newL = append(newL, o)
			}
		}
		midL = append([]int{}, newL...)
		for o := range sc.Segs {
			if ra1[o] {
				newL = append(newL, o)
			}
		}
		for _, cs := range states {
			if cs.st.Torn > 0 || !replay(cs.st) {
				continue
			}
			var got []int
			for _, sm := range writer.ReadSegmeta(mainPath) {
				if o, ok := ordOf[sm.SegmentKey]; ok {
					got = append(got, o)
				} else {
					got = append(got, 999)
				}
			}
			sum.Count("crash_states_of_a_segmeta_rewrite_read_with_the_real_reader")
			if !intsEq(got, oldL) && !intsEq(got, newL) && !intsEq(got, midL) {
				sum.Fail("segmeta_json_neither_old_nor_new_entries_after_crash_during_rewrite", fmt.Sprintf("crash after %d of the %d calls of the rewrite (%s %v%s) on segmeta.json(.tmp): segmeta.json names segments %v; before the rewrite %v, after it %v", cs.ntok, len(tokIdx), sc.R1.Kind, sc.R1.Segs, sc.R1.Index, got, oldL, newL),
					map[string]interface{}{"scenario": sc, "crash_after_syscalls": cs.st.K})
			}
		}
	}
	if !cfg.Thorough() && os.Getenv("C07_META_ALL") == "" {
		// quick: the protocol is checked token for token on the complete trace; of the crash states keep the one before
		// the first call, every state with a temporary file on disk, and the completed rewrite
		var keep []cstate
		for _, s := range states {
			if s.ntok == 0 || s.ntok == len(tokIdx) || (s.ntok >= 2 && s.ntok < len(tokIdx)) || s.st.Torn > 0 {
				keep = append(keep, s)
			}
		}
		states = keep
	}
	drop1, readd1 := sc.targets(sc.R1)
	drop2, readd2 := sc.targets(sc.R2)
	var cases []string
	for _, cs := range states {
		if !replay(cs.st) {
			continue
		}
		r1Done := cs.ntok == len(tokIdx) && cs.st.Torn == 0
		// segments the start-up scan can adopt: a .sfm under an index that virtualtablenames.txt lists
		var dirs []string
		{
			listed := map[string]bool{}
			if fs, _ := filepath.Glob(filepath.Join(run1, "data", "ingestnodes", "*", "vtabledata", "virtualtablenames.txt")); len(fs) == 1 {
				vb, _ := os.ReadFile(fs[0])
				for _, l := range strings.Split(string(vb), "\n") {
					listed[strings.TrimSpace(l)] = true
				}
			}
			for o, k := range keys {
				if _, err := os.Stat(k + ".sfm"); err == nil && listed[sc.Segs[o].Index] {
					dirs = append(dirs, cnat(o))
				}
			}
		}
		of := filepath.Join(root, "metarecovered.json")
		_ = os.Remove(of)
		rc, out := run(90*time.Second, self, "worker", "metarecover", run1, sf, of)
		mainB, errM := os.ReadFile(mainPath)
		_, errT := os.Stat(mainPath + ".tmp")
		rc2 := 0
		if rc == 0 {
			rc2, _ = run(90*time.Second, self, "worker", "metaagain", run1, sf, of)
		}
		var rec metaRecovered
		ob, _ := os.ReadFile(of)
		_ = json.Unmarshal(ob, &rec)
		where := fmt.Sprintf("crash after %d of the %d calls of the first rewrite on segmeta.json(.tmp)", cs.ntok, len(tokIdx))
		if cs.st.Torn > 0 {
			where += fmt.Sprintf(" and a short write (%d of %d bytes) of the next line to segmeta.json.tmp", cs.st.Torn, len(ops[cs.st.K].Data))
		}
		c := map[string]interface{}{"scenario": sc, "crash_state": where, "crash_after_syscalls": cs.st.K}
		sum.Eval(fmt.Sprintf("%s/%d/%d", sf, cs.st.K, cs.st.Torn), true)
		sum.Count("crash_points")
		sum.Count("crash_points_inside_a_segmeta_rewrite(second rewrite after restart)")
		if rc != 0 || !rec.StartupOK {
			sum.Fail("startup_fails_after_crash_during_metadata_rewrite", fmt.Sprintf("%s: restart rc=%d err=%q %s", where, rc, rec.Err, tail(out)), c)
			continue
		}
		// ---- after the first restart: segments the interrupted rewrite does not touch are all there
		judgeIdx := func(when, suffix string, ans map[string]idxAnswer, dropped map[int]bool, either map[int]bool, strict bool) {
			for _, ix := range sc.indexes() {
				if (sc.R1.Kind == "delindex" && sc.R1.Index == ix) || (strict && sc.R2.Kind == "delindex" && sc.R2.Index == ix) {
					continue // the index itself is (being) deleted
				}
				a, ok := ans[ix]
				if !ok {
					sum.Fail("query_missing"+suffix, fmt.Sprintf("%s, %s: no answer for index %s", where, when, ix), c)
					continue
				}
				got := map[int]int{}
				for _, id := range a.IDs {
					got[id]++
				}
				if a.Err != "" {
					sum.Fail("query_error"+suffix, fmt.Sprintf("%s, %s: match-all on %s returned error %q", where, when, ix, a.Err), c)
				}
				if len(a.Bad) > 0 {
					sum.Fail("garbage"+suffix, fmt.Sprintf("%s, %s: rows with wrong content on %s: %v", where, when, ix, a.Bad), c)
				}
				for id, n := range got {
					if n > 1 {
						sum.Fail("event_duplicated"+suffix, fmt.Sprintf("%s, %s: id %d returned %d times by `*` on %s (%v)", where, when, id, n, ix, a.IDs), c)
						break
					}
				}
				want := 0
				for o, s := range sc.Segs {
					if s.Index != ix {
						continue
					}
					first := sc.firstID(o)
					nvis := 0
					for j := 0; j < s.N; j++ {
						if got[first+j] > 0 {
							nvis++
						}
					}
					switch {
					case dropped[o]:
						if nvis > 0 {
							sum.Fail("event_of_deleted_segment_returned"+suffix, fmt.Sprintf("%s, %s: segment %d was deleted, `*` on %s still returns %d of its events (%v)", where, when, o, ix, nvis, a.IDs), c)
						}
					case either[o]:
						if nvis != 0 && nvis != s.N {
							sum.Fail("segment_partially_visible"+suffix, fmt.Sprintf("%s, %s: %d of %d events of segment %d visible", where, when, nvis, s.N, o), c)
						}
						want += nvis
					default:
						want += s.N
						if nvis != s.N {
							sum.Fail("completed_flush_lost"+suffix, fmt.Sprintf("%s, %s: segment %d (events %d..%d, never touched by a rewrite) is not completely searchable: `*` on %s returns %v", where, when, o, first, first+s.N-1, ix, a.IDs), c)
						}
					}
				}
				if strict && a.CountErr == "" && a.Err == "" && int(a.Count) != len(a.IDs) && !(a.Count <= 0 && len(a.IDs) == 0) {
					sum.Fail("stats_count_disagrees_with_match_all"+suffix, fmt.Sprintf("%s, %s: `* | stats count` on %s = %d but `*` returns %d events (%v)", where, when, ix, a.Count, len(a.IDs), a.IDs), c)
				}
				_ = want
			}
		}
		// R1 in progress: its victims may be visible or not (whole segments)
		either1 := map[int]bool{}
		for o := range drop1 {
			either1[o] = true
		}
		for o := range readd1 {
			either1[o] = !r1Done
		}
		judgeIdx("after the restart", "_after_crash_during_metadata_rewrite", rec.Gen1, map[int]bool{}, either1, false)
		if rec.R2Err != "" {
			sum.HarnessError(fmt.Sprintf("metadata-rewrite scenario %d, %s: second rewrite: %s", mi, where, rec.R2Err))
			continue
		}
		// ---- segmeta.json after the completed second rewrite
		mustNot := map[int]bool{}
		either := map[int]bool{}
		for o := range drop2 {
			mustNot[o] = true
		}
		for o := range drop1 {
			if r1Done {
				mustNot[o] = true
			} else if !mustNot[o] {
				either[o] = true
			}
		}
		for o := range readd1 {
			if !r1Done && !mustNot[o] && !readd2[o] {
				either[o] = true
			}
		}
		const sfx = "_after_rewrite_following_interrupted_rewrite"
		cnt := map[int]int{}
		var okeys []string
		var onames []int
		unknown := 0
		for _, k := range rec.KeysAfterR2 {
			if o, ok := ordOf[k]; ok {
				cnt[o]++
				okeys = append(okeys, cnat(o))
				onames = append(onames, o)
			} else {
				unknown++
				okeys = append(okeys, cnat(999))
				onames = append(onames, 999)
			}
		}
		nLines := 0
		for _, l := range bytes.Split(mainB, []byte("\n")) {
			if len(l) > 0 {
				nLines++
			}
		}
		fileDesc := fmt.Sprintf("segmeta.json names segments %v (the real reader, file order; %d lines in the file)", onames, nLines)
		if nLines != len(rec.KeysAfterR2) {
			sum.Fail("segmeta_json_has_unreadable_line"+sfx, fmt.Sprintf("%s, then restart and %s %v completed: %d lines in segmeta.json but the reader returns %d entries; %s", where, sc.R2.Kind, sc.R2.Segs, nLines, len(rec.KeysAfterR2), fileDesc), c)
		}
		if unknown > 0 {
			sum.Fail("segmeta_json_names_unknown_segment"+sfx, fmt.Sprintf("%s: %s", where, fileDesc), c)
		}
		for o := range sc.Segs {
			switch {
			case mustNot[o] && cnt[o] > 0:
				sum.Fail("deleted_segment_entry_resurrected_in_segmeta"+sfx, fmt.Sprintf("%s, then restart and %s %v completed: the entry of deleted segment %d is in segmeta.json again; %s", where, sc.R2.Kind, sc.R2.Segs, o, fileDesc), c)
			case !mustNot[o] && !either[o] && cnt[o] == 0:
				sum.Fail("live_segment_entry_lost_from_segmeta"+sfx, fmt.Sprintf("%s, then restart and %s %v completed: the entry of segment %d, which no rewrite dropped, is gone from segmeta.json; %s", where, sc.R2.Kind, sc.R2.Segs, o, fileDesc), c)
			}
			if cnt[o] > 1 {
				sum.Fail("segment_entry_duplicated_in_segmeta"+sfx, fmt.Sprintf("%s, then restart and %s %v completed: segment %d is named %d times; %s", where, sc.R2.Kind, sc.R2.Segs, o, cnt[o], fileDesc), c)
			}
		}
		if errT == nil {
			sum.Count("segmeta_tmp_left_after_completed_rewrite")
		}
		// ---- after the second restart
		if rc2 != 0 || !rec.AgainOK {
			sum.Fail("startup_fails"+sfx, fmt.Sprintf("%s: second restart rc=%d err=%q", where, rc2, rec.AgainErr), c)
		} else {
			if fmt.Sprint(rec.KeysAgain) != fmt.Sprint(rec.KeysAfterR2) {
				sum.Fail("segmeta_json_changed_by_restart"+sfx, fmt.Sprintf("%s: after the second rewrite %v, read by the next start %v", where, rec.KeysAfterR2, rec.KeysAgain), c)
			}
			judgeIdx("after the second rewrite and the next restart", sfx, rec.Again, mustNot, either, true)
		}
		cases = append(cases, fmt.Sprintf("(%s, %s, %s, (%s, %s, %s))", cnat(cs.ntok), vhlib.CoqOpt(cs.st.Torn > 0, cnat(cs.st.Torn)), vhlib.CoqList(dirs), coqOptBytes(mainB, errM == nil), vhlib.CoqBool(errT == nil), vhlib.CoqList(okeys)))
	}
	defs := "Definition d : dict := " + vhlib.CoqListNL(dict) + ".\n" +
		"Definition main0 : option bytes := " + coqOptBytes(main0, true) + ".\n" +
		"Definition obs1 : list mop := " + vhlib.CoqListNL(toks) + ".\n" +
		"Definition cs : list mcase := " + vhlib.CoqListNL(cases) + ".\n"
	sum.WriteCaseFile(cfg.Out, fmt.Sprintf("cases_segmeta_%d", mi), "From SigM Require Import Base SegmetaProto SegmetaProtoCheck.\n", defs,
		fmt.Sprintf("check_meta d main0 (%s) (%s) obs1 cs", rwCoq(sc, sc.R1), rwCoq(sc, sc.R2)), len(cases)+1)
	sum.Sample(map[string]interface{}{"metadata_rewrite_scenario": sc, "calls_of_first_rewrite": len(tokIdx), "crash_states": len(states)})
	if os.Getenv("C07_KEEP") == "" {
		_ = os.RemoveAll(run1)
	}
}

package main

// Workers of the segmeta.json REWRITE stream ("the server dies during a metadata rewrite", over two generations):
//   worker metaingest  <dir> <scenario.json>            rotate the scenario's segments, then run rewrite R1 (traced by the driver)
//   worker metarecover <dir> <scenario.json> <out.json> restart on a crash state of R1, query, run rewrite R2 completely, read segmeta.json
//   worker metaagain   <dir> <scenario.json> <out.json> restart once more (segmeta.json is re-read), query
// The rewrites are the real ones: retention.DeleteSegmentData (directories, in-memory metadata, then RemoveSegMetas ->
// removeSegmetas), the delete-index request handler es/writer.ProcessDeleteIndex (-> DeleteSegmentsForIndex -> removeSegmetas by
// index name) and writer.AddOrReplaceRotatedSegmeta (removeSegmetas of one key, then WriteSfm + the append of BulkAddRotatedSegmetas).

import (
	"encoding/json"
	"fmt"
	"os"
	"sort"
	"strings"
	"time"

	"github.com/valyala/fasthttp"

	eswriter "github.com/siglens/siglens/pkg/es/writer"
	"github.com/siglens/siglens/pkg/retention"
	"github.com/siglens/siglens/pkg/segment/structs"
	"github.com/siglens/siglens/pkg/segment/writer"
)

type mseg struct {
	Index string `json:"index"`
	N     int    `json:"events"`
}

// one rewrite of segmeta.json
type rewrite struct {
	Kind  string `json:"kind"`            // retention | delindex | replace
	Segs  []int  `json:"segments"`        // retention: ordinals of the segments the cleaner drops; replace: the one segment
	Index string `json:"index,omitempty"` // delindex
}

type mscenario struct {
	Segs []mseg  `json:"rotated_segments"` // each: ingest N events into Index, flush, rotate (one block per segment)
	R1   rewrite `json:"rewrite_interrupted_by_the_crash"`
	R2   rewrite `json:"rewrite_after_restart"`
}

func (sc mscenario) indexes() []string {
	seen := map[string]bool{}
	var out []string
	for _, s := range sc.Segs {
		if !seen[s.Index] {
			seen[s.Index] = true
			out = append(out, s.Index)
		}
	}
	return out
}

// first event id of each segment
func (sc mscenario) firstID(ord int) int {
	next := 1
	for i := 0; i < ord; i++ {
		next += sc.Segs[i].N
	}
	return next
}

type idxAnswer struct {
	IDs      []int    `json:"ids"`
	Bad      []string `json:"bad,omitempty"`
	Err      string   `json:"err,omitempty"`
	Count    int64    `json:"stats_count"`
	CountErr string   `json:"stats_err,omitempty"`
}

type metaRecovered struct {
	StartupOK bool                 `json:"startup_ok"`
	Err       string               `json:"err,omitempty"`
	Gen1      map[string]idxAnswer `json:"after_first_restart"`
	R2Err     string               `json:"rewrite2_err,omitempty"`
	// segment keys the real reader returns from segmeta.json after R2 (file order, with multiplicity)
	KeysAfterR2 []string             `json:"segmeta_keys_after_second_rewrite"`
	Again       map[string]idxAnswer `json:"after_second_restart"`
	AgainOK     bool                 `json:"second_startup_ok"`
	AgainErr    string               `json:"again_err,omitempty"`
	KeysAgain   []string             `json:"segmeta_keys_read_by_second_restart"`
}

func segkeysFile(dir string) string { return dir + "/segkeys.log" }

func readSegkeys(dir string) []string {
	b, _ := os.ReadFile(segkeysFile(dir))
	var out []string
	for _, l := range strings.Split(string(b), "\n") {
		if l != "" {
			out = append(out, l)
		}
	}
	return out
}

func doRewrite(dir string, rw rewrite) error {
	keys := readSegkeys(dir)
	switch rw.Kind {
	case "retention":
		// the cleaner picks its victims from what segmeta.json lists
		present := map[string]*structs.SegMeta{}
		for _, sm := range writer.ReadLocalSegmeta(false) {
			present[sm.SegmentKey] = sm
		}
		del := map[string]*structs.SegMeta{}
		for _, o := range rw.Segs {
			if o < len(keys) {
				if sm, ok := present[keys[o]]; ok {
					del[keys[o]] = sm
				}
			}
		}
		retention.DeleteSegmentData(del)
	case "delindex":
		var ctx fasthttp.RequestCtx
		ctx.SetUserValue("indexName", rw.Index)
		eswriter.ProcessDeleteIndex(&ctx, 0)
		if ctx.Response.StatusCode() != fasthttp.StatusOK {
			return fmt.Errorf("delete index %s: status %d %s", rw.Index, ctx.Response.StatusCode(), ctx.Response.Body())
		}
	case "replace":
		// the entry with its column names and persistent-query ids (they live in the .sfm, which AddOrReplaceRotatedSegmeta rewrites)
		for _, sm := range writer.ReadLocalSegmeta(true) {
			if len(rw.Segs) > 0 && rw.Segs[0] < len(keys) && sm.SegmentKey == keys[rw.Segs[0]] {
				writer.AddOrReplaceRotatedSegmeta(*sm)
			}
		}
	case "none":
	default:
		return fmt.Errorf("unknown rewrite kind %q", rw.Kind)
	}
	return nil
}

func waitStable(index string) {
	var prev []int
	for i := 0; i < 20; i++ {
		time.Sleep(100 * time.Millisecond)
		cur, _, _ := matchAll(index)
		if i > 0 && fmt.Sprint(cur) == fmt.Sprint(prev) {
			break
		}
		prev = cur
	}
}

func statsCount(index string) (int64, string) {
	r, err := runQuery(index, "* | stats count")
	if err != nil {
		return -1, err.Error()
	}
	cnt := int64(-1)
	mb, _ := json.Marshal(r.Measures)
	var ms []struct {
		MeasureVal map[string]interface{} `json:"MeasureVal"`
	}
	if json.Unmarshal(mb, &ms) == nil && len(ms) > 0 {
		for _, v := range ms[0].MeasureVal {
			if c, ok := num(v); ok {
				cnt = c
			} else if s, ok := v.(string); ok {
				fmt.Sscanf(strings.ReplaceAll(s, ",", ""), "%d", &cnt)
			}
		}
	}
	return cnt, ""
}

func answers(sc mscenario) map[string]idxAnswer {
	out := map[string]idxAnswer{}
	idx := sc.indexes()
	waitStable(idx[0])
	for _, ix := range idx {
		var a idxAnswer
		ids, bad, err := matchAll(ix)
		a.IDs, a.Bad = ids, bad
		if a.IDs == nil {
			a.IDs = []int{}
		}
		if err != nil {
			a.Err = err.Error()
		}
		a.Count, a.CountErr = statsCount(ix)
		out[ix] = a
	}
	return out
}

func segmetaKeys() []string {
	out := []string{}
	for _, sm := range writer.ReadSegmeta(writer.GetLocalSegmetaFName()) {
		out = append(out, sm.SegmentKey)
	}
	return out
}

func metaWorkerMain(args []string) {
	mode, dir, sf := args[0], args[1], args[2]
	var sc mscenario
	b, _ := os.ReadFile(sf)
	_ = json.Unmarshal(b, &sc)
	switch mode {
	case "metaingest":
		if err := initSiglens(dir + "/data"); err != nil {
			os.Exit(3)
		}
		marker(dir, "START")
		next := 1
		known := map[string]bool{}
		for _, s := range sc.Segs {
			if err := ingest(s.Index, next, s.N); err != nil {
				os.Exit(4)
			}
			next += s.N
			flushLogs()
			writer.ForceRotateSegmentsForTest()
			// which segment key did the rotation register
			var fresh []string
			for _, k := range segmetaKeys() {
				if !known[k] {
					known[k] = true
					fresh = append(fresh, k)
				}
			}
			sort.Strings(fresh)
			if len(fresh) != 1 {
				fmt.Fprintf(os.Stderr, "rotation registered %d segments\n", len(fresh))
				os.Exit(5)
			}
			f, err := os.OpenFile(segkeysFile(dir), os.O_CREATE|os.O_WRONLY|os.O_APPEND, 0o644)
			if err == nil {
				_, _ = f.WriteString(fresh[0] + "\n")
				f.Close()
			}
		}
		marker(dir, "R1BEGIN")
		if err := doRewrite(dir, sc.R1); err != nil {
			fmt.Fprintln(os.Stderr, err)
			os.Exit(6)
		}
		marker(dir, "R1DONE")
		os.Exit(0)
	case "metarecover":
		of := args[3]
		var out metaRecovered
		write := func() {
			ob, _ := json.Marshal(out)
			_ = os.WriteFile(of, ob, 0o644)
		}
		if err := initSiglens(dir + "/data"); err != nil {
			out.Err = err.Error()
			write()
			os.Exit(0)
		}
		out.StartupOK = true
		out.Gen1 = answers(sc)
		write()
		if err := doRewrite(dir, sc.R2); err != nil {
			out.R2Err = err.Error()
		}
		out.KeysAfterR2 = segmetaKeys()
		write()
		os.Exit(0)
	case "metaagain":
		of := args[3]
		var out metaRecovered
		ob, _ := os.ReadFile(of)
		_ = json.Unmarshal(ob, &out)
		if err := initSiglens(dir + "/data"); err != nil {
			out.AgainErr = err.Error()
		} else {
			out.AgainOK = true
			out.KeysAgain = segmetaKeys()
			out.Again = answers(sc)
		}
		ob, _ = json.Marshal(out)
		_ = os.WriteFile(of, ob, 0o644)
		os.Exit(0)
	}
}

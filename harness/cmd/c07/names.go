package main

// Driver of the INDEX-NAMES stream: the auxiliary file the start-up recovery scan depends on.
// syncSegMetaWithSegFullMeta adopts the unrotated segments (only a .sfm, not yet in segmeta.json) of the indexes that
// virtualtablenames.txt lists; the file is appended by addVirtualTableHelper when the FIRST event of a new index arrives.
//   1. a traced worker flushes events into several indexes; some indexes are new BETWEEN completed flushes of the others;
//   2. the calls on virtualtablenames.txt (open, write(s), fsync) are the protocol calls; every byte prefix of what they
//      append is given to the real reader (LoadVirtualTableNamesFromFile) - file-level oracle + reader model;
//   3. crash states (call boundaries inside the registration of a new index, plus a torn name) are replayed at the original
//      path; the real server restarts (oracle: every completed flush of every index searchable exactly once), runs
//      generation 1 (more flushes, the first event of ANOTHER new index: the next append to the file the crash left), is
//      gone, and the server restarts again (oracle: completed flushes of both generations).
// Model (NamesProto): reader = bufio.ScanLines tokens; writer = the traced chunks; for every crash state the model's
// generation 1 on the crash state's file yields the observed bytes of the file; adoption = index listed.

import (
	"encoding/json"
	"fmt"
	"os"
	"path/filepath"
	"sort"
	"strconv"
	"strings"
	"time"

	"verifharness/vhlib"

	vtable "github.com/siglens/siglens/pkg/virtualtable"
)

// the writer as it is in the tree since eb50b5f: the names of one call and their newlines in ONE write(2), preceded by a
// "\n" when the file found is not empty and does not end in one.  (Before: two writes per name, the end of the file never
// looked at: namesTwoWrites = true, namesHeal = false - the model has both writers.)
const namesTwoWrites = false
const namesHeal = true

func namesScenarios(r *vhlib.Rng, thorough bool) []nscenario {
	scs := []nscenario{{
		Gen0: []nstep{{"idxa", 2, false}, {"idxb", 1, false}, {"idxa", 1, false}, {"newc", 2, false}, {"idxb", 1, false}, {"lated", 1, false}},
		Gen1: []nstep{{"idxa", 1, false}, {"newc", 1, false}, {"gen1e", 2, false}, {"lated", 1, false}, {"idxb", 1, false}},
	}}
	if !thorough {
		return scs
	}
	for i := 0; i < 3; i++ {
		var sc nscenario
		pool := []string{"idxa", "idxb", "c", "latedd", "ee"}
		nOld := r.Range(1, 2)
		used := 0
		n := r.Range(4, 7)
		for s := 0; s < n; s++ {
			var ix string
			if s < nOld {
				ix = pool[s]
				used = s + 1
			} else if used < len(pool)-1 && (r.Chance(40) || (s > nOld && used == nOld)) { // at least one index is new after completed flushes
				ix = pool[used]
				used++
			} else {
				ix = pool[r.Intn(used)]
			}
			sc.Gen0 = append(sc.Gen0, nstep{ix, r.Range(1, 3), s > 0 && r.Chance(20)})
		}
		// generation 1: every index again, in a drawn order, with a brand-new one among them
		g1 := append([]string{}, pool[:used]...)
		g1 = append(g1, "gen1"+string(rune('f'+i)))
		if r.Chance(50) {
			g1 = append(g1, "gen1z")
		}
		for j := len(g1) - 1; j > 0; j-- {
			k := r.Intn(j + 1)
			g1[j], g1[k] = g1[k], g1[j]
		}
		for _, ix := range g1 {
			sc.Gen1 = append(sc.Gen1, nstep{ix, r.Range(1, 2), false})
		}
		scs = append(scs, sc)
	}
	return scs
}

func namesStream(cfg vhlib.Config, sum *vhlib.Summary, self string) {
	r := vhlib.NewRng(cfg.Seed*0x9E3779B97F4A7C15 + 0x07a3e5)
	for ni, sc := range namesScenarios(r, cfg.Thorough()) {
		runNamesScenario(cfg, sum, self, ni, sc)
	}
}

// the real reader on given file bytes: (sorted names, error text)
func readNamesReal(tmp string, content []byte, absent bool) ([]string, string) {
	_ = os.Remove(tmp)
	if !absent {
		if err := os.WriteFile(tmp, content, 0o644); err != nil {
			return nil, "harness: " + err.Error()
		}
	}
	m := map[string]bool{}
	if err := vtable.LoadVirtualTableNamesFromFile(tmp, m); err != nil {
		return nil, err.Error()
	}
	out := []string{}
	for k := range m {
		out = append(out, k)
	}
	sort.Strings(out)
	return out, ""
}

func coqNames(ns []string) string {
	var it []string
	for _, n := range ns {
		it = append(it, vhlib.CoqStr(n))
	}
	return vhlib.CoqList(it)
}

type nameState struct {
	K     int    // ops[:K] replayed
	Torn  int    // > 0: plus the first Torn bytes of the write ops[K] on the names file
	Where string // description
	Reg   string // the index whose registration the crash interrupts ("" = none)
}

func runNamesScenario(cfg vhlib.Config, sum *vhlib.Summary, self string, ni int, sc nscenario) {
	root, _ := filepath.Abs(filepath.Join(cfg.Out, fmt.Sprintf("n%d", ni)))
	_ = os.MkdirAll(root, 0o755)
	sf := filepath.Join(root, "scenario.json")
	sb, _ := json.Marshal(sc)
	_ = os.WriteFile(sf, sb, 0o644)
	run1 := filepath.Join(root, "run")
	_ = os.MkdirAll(run1, 0o755)
	tracef := filepath.Join(root, "trace.txt")
	rc, out := run(120*time.Second, "strace", "-f", "-y", "-xx", "-s", "2000000", "-o", tracef, "-e", traceSet, self, "worker", "namesingest", run1, sf)
	if rc != 0 {
		sum.HarnessError(fmt.Sprintf("index-names scenario %d: traced worker rc=%d: %s", ni, rc, tail(out)))
		return
	}
	ops, err := parseTrace(tracef, run1)
	if err != nil || len(ops) == 0 {
		sum.HarnessError(fmt.Sprintf("index-names scenario %d: trace parse: %v (%d ops)", ni, err, len(ops)))
		return
	}
	const fname = "/virtualtablenames.txt"
	namesPath := ""
	var callIdx []int // the calls on the names file
	var toks []string
	for i, o := range ops {
		if !strings.HasSuffix(o.Path, fname) && !strings.HasSuffix(o.Path2, fname) {
			continue
		}
		namesPath = o.Path
		callIdx = append(callIdx, i)
		switch o.Kind {
		case "creat":
			toks = append(toks, "NOpen")
		case "write":
			if o.Append {
				toks = append(toks, "(NWrite "+vhlib.CoqBytes(o.Data)+")")
			} else {
				toks = append(toks, fmt.Sprintf("(NOther %s)", cnat(1))) // a positioned write: another protocol
			}
		case "fsync":
			toks = append(toks, "NSync")
		default:
			toks = append(toks, fmt.Sprintf("(NOther %s)", cnat(0))) // truncation, rename, unlink: another protocol
		}
	}
	if os.Getenv("C07_DUMP") != "" {
		for _, i := range callIdx {
			fmt.Fprintf(os.Stderr, "names op %d: %s %s append=%v %q\n", i, ops[i].Kind, strings.TrimPrefix(ops[i].Path, run1), ops[i].Append, ops[i].Data)
		}
	}
	if namesPath == "" {
		sum.HarnessError(fmt.Sprintf("index-names scenario %d: no call on virtualtablenames.txt in the trace", ni))
		return
	}
	// order in which the indexes of generation 0 are first seen = order of the registrations
	var regs0 []string
	{
		seen := map[string]bool{}
		for _, s := range sc.Gen0 {
			if !seen[s.Index] {
				seen[s.Index] = true
				regs0 = append(regs0, s.Index)
			}
		}
	}
	// ---- (1) the file-level oracle and the reader model on EVERY byte prefix of what the traced process appended
	var stream []byte
	for _, i := range callIdx {
		if ops[i].Kind == "write" {
			stream = append(stream, ops[i].Data...)
		}
	}
	tmpf := filepath.Join(root, "names_probe.txt")
	var readCases []string
	addRead := func(content []byte, absent bool, what string, completed []string, partial string) {
		got, e := readNamesReal(tmpf, content, absent)
		sum.Count("names_file_states_read_with_the_real_reader")
		c := map[string]interface{}{"scenario": sc, "names_file_bytes": string(content), "state": what}
		if e != "" {
			sum.Fail("index_names_file_unreadable_after_crash_during_index_registration", fmt.Sprintf("%s: virtualtablenames.txt = %q: the reader returns error %q (the start-up recovery scan then adopts no unrotated segment of any index)", what, content, e), c)
		} else {
			has := map[string]bool{}
			for _, n := range got {
				has[n] = true
			}
			for _, n := range completed {
				if !has[n] {
					sum.Fail("registered_index_name_not_read_after_crash_during_index_registration", fmt.Sprintf("%s: virtualtablenames.txt = %q: index %q was registered completely, the reader returns %q", what, content, n, got), c)
				}
			}
			for _, n := range got {
				ok := partial != "" && strings.HasPrefix(partial, n) && n != ""
				for _, m := range completed {
					ok = ok || n == m
				}
				if !ok {
					sum.Fail("index_names_file_reports_unknown_name_after_crash_during_index_registration", fmt.Sprintf("%s: virtualtablenames.txt = %q: the reader returns %q; registered %q, being registered %q", what, content, got, completed, partial), c)
				}
			}
		}
		obs := "None"
		if e == "" {
			obs = "(Some " + coqNames(got) + ")"
		}
		readCases = append(readCases, fmt.Sprintf("(%s, %s)", coqOptBytes(content, !absent), obs))
	}
	addRead(nil, true, "before the first registration (no file)", nil, "")
	for k := 0; k <= len(stream); k++ {
		// names completely registered inside the prefix / the one being written, from the scenario (not from the bytes)
		var completed []string
		partial := ""
		off := 0
		for _, n := range regs0 {
			if off+len(n)+1 <= k {
				completed = append(completed, n)
			} else if off < k {
				partial = n
			}
			off += len(n) + 1
		}
		addRead(stream[:k], false, fmt.Sprintf("crash after %d of the %d bytes the index registrations append", k, len(stream)), completed, partial)
	}
	// the reader on files a Windows editor or a blank line leaves: "\r\n" endings, an empty line (model: drop_cr, empty token)
	for _, extra := range []string{"idxa\r\nidxb\r\n", "idxa\n\nidxb", "\n", "idxa\r"} {
		got, e := readNamesReal(tmpf, []byte(extra), false)
		obs := "None"
		if e == "" {
			obs = "(Some " + coqNames(got) + ")"
		}
		readCases = append(readCases, fmt.Sprintf("(%s, %s)", coqOptBytes([]byte(extra), true), obs))
	}
	_ = os.Remove(tmpf)

	// ---- (2) crash states for the two-generation replay
	nameOfCall := map[int]string{} // op index -> the index being registered by the open..fsync group the call belongs to
	{
		g := -1
		for _, i := range callIdx {
			if ops[i].Kind == "creat" || ops[i].Kind == "trunc" {
				g++
			}
			if g >= 0 && g < len(regs0) {
				nameOfCall[i] = regs0[g]
			}
		}
	}
	doneBefore := func(k int) int { // steps of generation 0 completed in ops[:k]
		d := 0
		for _, o := range ops[:k] {
			if strings.HasSuffix(o.Path, "/progress.log") && o.Kind == "write" && strings.HasPrefix(string(o.Data), "DONE ") {
				d++
			}
		}
		return d
	}
	var states []nameState
	full := cfg.Thorough() || os.Getenv("C07_NAMES_ALL") != ""
	nBetween := 0
	for n, i := range callIdx {
		reg := nameOfCall[i]
		o := ops[i]
		between := doneBefore(i) > 0 // the registration happens after completed flushes of other indexes
		if between && (o.Kind == "creat" || o.Kind == "trunc") {
			nBetween++
		}
		where := fmt.Sprintf("crash after %d of the %d calls on virtualtablenames.txt (registration of index %q)", n, len(callIdx), reg)
		// quick, inside a registration that follows completed flushes: every boundary before a write after the first one
		// (two-write writer: name written, newline not); before the open of the first such registration
		prevWrite := n > 0 && ops[callIdx[n-1]].Kind == "write" && o.Kind == "write"
		if full || (between && prevWrite) || (between && o.Kind == "creat" && nBetween == 1) {
			states = append(states, nameState{K: i, Where: where, Reg: reg})
		}
		if o.Kind == "write" && len(o.Data) > 1 && between {
			var cuts []int
			if full {
				for c := 1; c < len(o.Data); c++ {
					cuts = append(cuts, c)
				}
			} else {
				// short writes: the record without its final newline (one-write writer: the state "name written, newline
				// not"); for the first registration also half of it (a torn name)
				if o.Data[len(o.Data)-1] == '\n' && len(o.Data) > 1 {
					cuts = append(cuts, len(o.Data)-1)
				}
				if nBetween == 1 && len(o.Data)/2 > 0 && len(o.Data)/2 != len(o.Data)-1 {
					cuts = append(cuts, len(o.Data)/2)
				}
			}
			for _, c := range cuts {
				states = append(states, nameState{K: i, Torn: c, Where: fmt.Sprintf("%s and a short write (%d of %d bytes: %q) of the next one", where, c, len(o.Data), o.Data[:c]), Reg: reg})
			}
		}
	}
	states = append(states, nameState{K: len(ops), Where: "crash after the complete generation 0"})
	replay := func(st nameState) bool {
		_ = os.RemoveAll(run1)
		_ = os.MkdirAll(run1, 0o755)
		for _, o := range ops[:st.K] {
			if err := applyOp(o); err != nil {
				sum.HarnessError(fmt.Sprintf("index-names scenario %d: replay op %d (%s %s): %v", ni, o.Line, o.Kind, o.Path, err))
				return false
			}
		}
		if st.Torn > 0 {
			o := ops[st.K]
			o.Data = o.Data[:st.Torn]
			if err := applyOp(o); err != nil {
				sum.HarnessError(fmt.Sprintf("index-names scenario %d: replay of the short write: %v", ni, err))
				return false
			}
		}
		return true
	}
	var genCases, adoptCases []string
	total0 := sc.total0()
	for _, st := range states {
		if !replay(st) {
			continue
		}
		file0, err0 := os.ReadFile(namesPath)
		done := doneBefore(st.K)
		of := filepath.Join(root, "namesrecovered.json")
		_ = os.Remove(of)
		rc, out := run(90*time.Second, self, "worker", "namesrecover", run1, sf, of)
		file1, err1 := os.ReadFile(namesPath)
		rc2 := 0
		if rc == 0 {
			rc2, _ = run(90*time.Second, self, "worker", "namesagain", run1, sf, of)
		}
		var rec namesRecovered
		ob, _ := os.ReadFile(of)
		_ = json.Unmarshal(ob, &rec)
		c := map[string]interface{}{"scenario": sc, "crash_state": st.Where, "crash_after_syscalls": st.K, "steps_completed": done,
			"names_file_at_crash": string(file0), "names_file_after_generation_1": string(file1)}
		sum.Eval(fmt.Sprintf("%s/%d/%d", sf, st.K, st.Torn), done > 0)
		sum.Count("crash_points")
		sum.Count("crash_points_inside_an_index_registration(second generation registers another index)")
		const s1 = "_after_crash_during_index_registration"
		const s2 = "_after_restart_following_interrupted_index_registration"
		if rc != 0 || !rec.StartupOK {
			sum.Fail("startup_fails"+s1, fmt.Sprintf("%s: restart rc=%d err=%q %s", st.Where, rc, rec.Err, tail(out)), c)
			continue
		}
		// expected events per index: (must, may) from generation 0; generation 1 ran to its end
		type want struct{ must, may, never []int }
		expect := func(withGen1 bool) map[string]*want {
			w := map[string]*want{}
			for _, ix := range sc.indexes() {
				w[ix] = &want{}
			}
			next := 1
			for i, s := range sc.Gen0 {
				for j := 0; j < s.N; j++ {
					switch {
					case i < done:
						w[s.Index].must = append(w[s.Index].must, next+j)
					case i == done:
						w[s.Index].may = append(w[s.Index].may, next+j)
					default:
						w[s.Index].never = append(w[s.Index].never, next+j)
					}
				}
				next += s.N
			}
			for _, s := range sc.Gen1 {
				for j := 0; j < s.N; j++ {
					if withGen1 {
						w[s.Index].must = append(w[s.Index].must, next+j)
					} else {
						w[s.Index].never = append(w[s.Index].never, next+j)
					}
				}
				next += s.N
			}
			return w
		}
		// returns per index whether every `must` event is visible
		judge := func(when, sfx string, ans map[string]idxAnswer, w map[string]*want, lostClass string) map[string]bool {
			okIdx := map[string]bool{}
			for _, ix := range sc.indexes() {
				a, ok := ans[ix]
				if !ok {
					sum.Fail("query_missing"+sfx, fmt.Sprintf("%s, %s: no answer for index %s", st.Where, when, ix), c)
					continue
				}
				got := map[int]int{}
				for _, id := range a.IDs {
					got[id]++
				}
				if a.Err != "" {
					sum.Fail("query_error"+sfx, fmt.Sprintf("%s, %s: match-all on %s returned error %q", st.Where, when, ix, a.Err), c)
				}
				if len(a.Bad) > 0 {
					sum.Fail("garbage"+sfx, fmt.Sprintf("%s, %s: rows with wrong content on %s: %v", st.Where, when, ix, a.Bad), c)
				}
				for id, n := range got {
					if n > 1 {
						sum.Fail("event_duplicated"+sfx, fmt.Sprintf("%s, %s: id %d returned %d times by `*` on %s (%v)", st.Where, when, id, n, ix, a.IDs), c)
						break
					}
				}
				var lost []int
				for _, id := range w[ix].must {
					if got[id] == 0 {
						lost = append(lost, id)
					}
					delete(got, id)
				}
				okIdx[ix] = len(lost) == 0
				if len(lost) > 0 {
					sum.Fail(lostClass, fmt.Sprintf("%s, %s: events %v of index %s belong to completed buffer flushes and are not searchable: `*` returns %v (index names read by the server: %v %s)", st.Where, when, lost, ix, a.IDs, map[bool][]string{true: rec.Names1, false: rec.Names2}[sfx == s1], rec.Names1Err+rec.Names2Err), c)
				}
				nmay := 0
				for _, id := range w[ix].may {
					if got[id] > 0 {
						nmay++
					}
					delete(got, id)
				}
				if nmay != 0 && nmay != len(w[ix].may) {
					sum.Fail("flush_in_progress_partially_visible"+sfx, fmt.Sprintf("%s, %s: %d of %d events of the flush in progress on %s visible (%v)", st.Where, when, nmay, len(w[ix].may), ix, a.IDs), c)
				}
				if len(got) > 0 {
					sum.Fail("event_never_flushed_returned"+sfx, fmt.Sprintf("%s, %s: `*` on %s returns %v; expected only %v (+ all or none of %v)", st.Where, when, ix, a.IDs, w[ix].must, w[ix].may), c)
				}
				if a.CountErr == "" && a.Err == "" && int(a.Count) != len(a.IDs) && !(a.Count <= 0 && len(a.IDs) == 0) {
					sum.Fail("stats_count_disagrees_with_match_all"+sfx, fmt.Sprintf("%s, %s: `* | stats count` on %s = %d but `*` returns %d events (%v)", st.Where, when, ix, a.Count, len(a.IDs), a.IDs), c)
				}
			}
			return okIdx
		}
		if rec.Names1Err != "" {
			sum.Fail("index_names_unreadable_by_restarted_server"+s1, fmt.Sprintf("%s: GetVirtualTableNames after the restart: %s", st.Where, rec.Names1Err), c)
		}
		vis1 := judge("after the restart", s1, rec.Gen1, expect(false), "completed_flush_lost"+s1)
		// adoption case: the indexes with a completed flush in a segment that is not rotated -> searchable after the restart?
		{
			rot := map[string]int{} // last step of the index (among the completed ones) that was followed by a rotation
			for i, s := range sc.Gen0 {
				if i < done && s.Rotate {
					for j := 0; j <= i; j++ {
						rot[sc.Gen0[j].Index] = j + 1
					}
				}
			}
			var it []string
			seen := map[string]bool{}
			for i, s := range sc.Gen0 {
				if i < done && i+1 > rot[s.Index] && !seen[s.Index] {
					seen[s.Index] = true
					it = append(it, fmt.Sprintf("(%s, %s)", vhlib.CoqStr(s.Index), vhlib.CoqBool(vis1[s.Index])))
				}
			}
			if len(it) > 0 && (len(sc.Gen0) <= 6 || ni > 0) {
				// rotation makes earlier events visible through segmeta.json; the model case is about unrotated segments
				// only when the index has NO rotated segment (rot = 0), otherwise `vis` mixes both
				ok := true
				for ix := range seen {
					if rot[ix] > 0 {
						ok = false
					}
				}
				if ok {
					adoptCases = append(adoptCases, fmt.Sprintf("(%s, %s)", coqOptBytes(file0, err0 == nil), vhlib.CoqList(it)))
				}
			}
		}
		if !rec.Gen1Done {
			sum.Fail("ingest_fails"+s1, fmt.Sprintf("%s: generation 1 (ingest + flush after the restart): %s", st.Where, rec.Gen1Err), c)
			continue
		}
		// the writer across the restart: generation 1 on the crash state's file = the observed file
		{
			var g1 []string
			for _, s := range sc.Gen1 {
				g1 = append(g1, s.Index)
			}
			genCases = append(genCases, fmt.Sprintf("(%s, %s, %s)", coqOptBytes(file0, err0 == nil), coqNames(g1), coqOptBytes(file1, err1 == nil)))
		}
		if rc2 != 0 || !rec.AgainOK {
			sum.Fail("startup_fails"+s2, fmt.Sprintf("%s: second restart rc=%d err=%q", st.Where, rc2, rec.AgainErr), c)
			continue
		}
		if rec.Names2Err != "" {
			sum.Fail("index_names_unreadable_by_restarted_server"+s2, fmt.Sprintf("%s: GetVirtualTableNames after the second restart: %s", st.Where, rec.Names2Err), c)
		}
		// every index that completed a flush in either generation must be listed (property text: the state recovery reads)
		lostClass := "completed_flush_lost" + s2
		{
			has := map[string]bool{}
			for _, n := range rec.Names2 {
				has[n] = true
			}
			var missing []string
			for _, s := range sc.Gen1 {
				if !has[s.Index] {
					missing = append(missing, s.Index)
				}
			}
			if len(missing) > 0 && rec.Names2Err == "" {
				cls := "registered_index_name_lost" + s2
				// the known shape: the crash left an unterminated last line X and generation 1 appended Y right behind it:
				// the file now holds the single line XY, neither X nor Y is listed
				glued := knownGlue(file0, file1, missing)
				if glued != "" {
					cls = "index_name_glued_to_unterminated_last_line_of_names_file"
					lostClass = "completed_flush_of_index_glued_in_names_file_lost_after_second_restart"
					c["glued_line"] = glued
				}
				sum.Fail(cls, fmt.Sprintf("%s, then restart, generation 1 (first events of %v among its flushes) and a second restart: indexes %v are not in virtualtablenames.txt (%q); after the crash it was %q", st.Where, newNames(file0, sc.Gen1), missing, file1, file0), c)
				if glued != "" {
					// only the indexes of the glued line may lose events under the known class
					w := expect(true)
					for ix, a := range rec.Again {
						if !strings.Contains(glued, ix) {
							got := map[int]bool{}
							for _, id := range a.IDs {
								got[id] = true
							}
							for _, id := range w[ix].must {
								if !got[id] {
									lostClass = "completed_flush_lost" + s2
								}
							}
						}
					}
				}
			}
		}
		vis2 := judge("after generation 1 and the second restart", s2, rec.Again, expect(true), lostClass)
		{
			// generation 1 flushed into fresh (unrotated) segments: searchable after the second restart iff the index is listed
			var it []string
			next := total0 + 1
			for _, s := range sc.Gen1 {
				a := rec.Again[s.Index]
				got := map[int]bool{}
				for _, id := range a.IDs {
					got[id] = true
				}
				all := true
				for j := 0; j < s.N; j++ {
					all = all && got[next+j]
				}
				next += s.N
				it = append(it, fmt.Sprintf("(%s, %s)", vhlib.CoqStr(s.Index), vhlib.CoqBool(all)))
			}
			adoptCases = append(adoptCases, fmt.Sprintf("(%s, %s)", coqOptBytes(file1, err1 == nil), vhlib.CoqList(it)))
			_ = vis2
		}
	}
	defs := "Definition regs0 : list bytes := " + coqNames(regs0) + ".\n" +
		"Definition obs0 : list nop := " + vhlib.CoqListNL(toks) + ".\n" +
		"Definition reads : list (option bytes * option (list bytes)) := " + vhlib.CoqListNL(readCases) + ".\n" +
		"Definition gens : list (option bytes * list bytes * option bytes) := " + vhlib.CoqListNL(genCases) + ".\n" +
		"Definition adopts : list (option bytes * list (bytes * bool)) := " + vhlib.CoqListNL(adoptCases) + ".\n"
	sum.WriteCaseFile(cfg.Out, fmt.Sprintf("cases_names_%d", ni), "From SigM Require Import Base SegmetaProto NamesProto NamesProtoCheck.\n", defs,
		fmt.Sprintf("check_names %s %s regs0 obs0 reads gens adopts", vhlib.CoqBool(namesTwoWrites), vhlib.CoqBool(namesHeal)), 1+len(readCases)+len(genCases)+len(adoptCases))
	sum.Sample(map[string]interface{}{"index_names_scenario": sc, "calls_on_names_file": len(callIdx), "crash_states": len(states), "byte_prefixes_read": len(stream) + 1})
	if os.Getenv("C07_KEEP") == "" {
		_ = os.RemoveAll(run1)
	}
}

// names of generation 1 that the file at the crash does not list (they are registered by generation 1)
func newNames(file0 []byte, g1 []nstep) []string {
	listed := map[string]bool{}
	for _, l := range strings.Split(string(file0), "\n") {
		listed[l] = true
	}
	var out []string
	seen := map[string]bool{}
	for _, s := range g1 {
		if !listed[s.Index] && !seen[s.Index] {
			seen[s.Index] = true
			out = append(out, s.Index)
		}
	}
	return out
}

// the known defect's exact shape: file0 ends with an unterminated token X (non-empty), file1 = file0 ++ Y ++ "\n" ++ ...
// so that the line X+Y exists in file1, and every missing index is X or Y.  Returns the glued line or "".
func knownGlue(file0, file1 []byte, missing []string) string {
	if len(file0) == 0 || file0[len(file0)-1] == '\n' || !strings.HasPrefix(string(file1), string(file0)) {
		return ""
	}
	i := strings.LastIndex(string(file0), "\n")
	x := string(file0[i+1:])
	rest := string(file1[len(file0):])
	j := strings.Index(rest, "\n")
	if j <= 0 {
		return ""
	}
	y := rest[:j]
	for _, m := range missing {
		if m != x && m != y {
			return ""
		}
	}
	return x + y
}

var _ = strconv.Itoa

package main

// Workers of the INDEX-NAMES stream (virtualtablenames.txt, the list of index names the start-up recovery scan goes by):
//   worker namesingest  <dir> <scenario.json>            generation 0 (traced): per step ingest N events into an index + buffer
//                                                        flush; a step whose index is new registers its name between the
//                                                        completed flushes of the other indexes (addVirtualTableHelper)
//   worker namesrecover <dir> <scenario.json> <out.json> restart on a crash state, query every index, then run generation 1
//                                                        (more flushes, among them the first event of ANOTHER new index)
//   worker namesagain   <dir> <scenario.json> <out.json> the process of generation 1 is gone too: restart, query every index

import (
	"encoding/json"
	"fmt"
	"os"
	"sort"
	"time"

	"github.com/siglens/siglens/pkg/segment/writer"
	vtable "github.com/siglens/siglens/pkg/virtualtable"
)

type nstep struct {
	Index  string `json:"index"`
	N      int    `json:"events"`
	Rotate bool   `json:"rotate_after,omitempty"` // rotate every open segment after the flush
}

type nscenario struct {
	Gen0 []nstep `json:"steps_before_the_crash"`        // traced; crash points = the calls on virtualtablenames.txt
	Gen1 []nstep `json:"steps_after_the_first_restart"` // run to the end, then the process is gone
}

func (sc nscenario) indexes() []string {
	seen := map[string]bool{}
	var out []string
	for _, s := range append(append([]nstep{}, sc.Gen0...), sc.Gen1...) {
		if !seen[s.Index] {
			seen[s.Index] = true
			out = append(out, s.Index)
		}
	}
	return out
}

func (sc nscenario) total0() int {
	n := 0
	for _, s := range sc.Gen0 {
		n += s.N
	}
	return n
}

type namesRecovered struct {
	StartupOK bool                 `json:"startup_ok"`
	Err       string               `json:"err,omitempty"`
	Names1    []string             `json:"index_names_after_first_restart"` // GetVirtualTableNames (the file, real reader)
	Names1Err string               `json:"index_names_err,omitempty"`
	Gen1      map[string]idxAnswer `json:"after_first_restart"`
	Gen1Err   string               `json:"generation1_err,omitempty"`
	Gen1Done  bool                 `json:"generation1_done"`
	AgainOK   bool                 `json:"second_startup_ok"`
	AgainErr  string               `json:"again_err,omitempty"`
	Names2    []string             `json:"index_names_after_second_restart"`
	Names2Err string               `json:"index_names2_err,omitempty"`
	Again     map[string]idxAnswer `json:"after_second_restart"`
}

func namesNow() ([]string, string) {
	m, err := vtable.GetVirtualTableNames(0)
	if err != nil {
		return []string{}, err.Error()
	}
	out := []string{}
	for k := range m {
		out = append(out, k)
	}
	sort.Strings(out)
	return out, ""
}

// answers of every index of the scenario; start-up adoption of .sfm-only segments is asynchronous: wait until two
// consecutive rounds over ALL indexes agree
func namesAnswers(sc nscenario) map[string]idxAnswer {
	idx := sc.indexes()
	prev := ""
	for i := 0; i < 20; i++ {
		time.Sleep(100 * time.Millisecond)
		cur := ""
		for _, ix := range idx {
			ids, _, _ := matchAll(ix)
			cur += fmt.Sprint(ids) + ";"
		}
		if i > 0 && cur == prev {
			break
		}
		prev = cur
	}
	out := map[string]idxAnswer{}
	for _, ix := range idx {
		var a idxAnswer
		ids, bad, err := matchAll(ix)
		a.IDs, a.Bad = ids, bad
		if a.IDs == nil {
			a.IDs = []int{}
		}
		if err != nil {
			a.Err = err.Error()
		}
		a.Count, a.CountErr = statsCount(ix)
		out[ix] = a
	}
	return out
}

func runNSteps(dir string, steps []nstep, next int, tag string) error {
	for i, s := range steps {
		if err := ingest(s.Index, next, s.N); err != nil {
			return err
		}
		next += s.N
		flushLogs()
		if s.Rotate {
			writer.ForceRotateSegmentsForTest()
		}
		marker(dir, fmt.Sprintf("%s %d", tag, i))
	}
	return nil
}

func namesWorkerMain(args []string) {
	mode, dir, sf := args[0], args[1], args[2]
	var sc nscenario
	b, _ := os.ReadFile(sf)
	_ = json.Unmarshal(b, &sc)
	switch mode {
	case "namesingest":
		if err := initSiglens(dir + "/data"); err != nil {
			os.Exit(3)
		}
		marker(dir, "START")
		if err := runNSteps(dir, sc.Gen0, 1, "DONE"); err != nil {
			os.Exit(4)
		}
		os.Exit(0)
	case "namesrecover":
		of := args[3]
		var out namesRecovered
		write := func() {
			ob, _ := json.Marshal(out)
			_ = os.WriteFile(of, ob, 0o644)
		}
		if err := initSiglens(dir + "/data"); err != nil {
			out.Err = err.Error()
			write()
			os.Exit(0)
		}
		out.StartupOK = true
		out.Names1, out.Names1Err = namesNow()
		out.Gen1 = namesAnswers(sc)
		write()
		if err := runNSteps(dir, sc.Gen1, sc.total0()+1, "DONE1"); err != nil {
			out.Gen1Err = err.Error()
		} else {
			out.Gen1Done = true
		}
		write()
		os.Exit(0)
	case "namesagain":
		of := args[3]
		var out namesRecovered
		ob, _ := os.ReadFile(of)
		_ = json.Unmarshal(ob, &out)
		if err := initSiglens(dir + "/data"); err != nil {
			out.AgainErr = err.Error()
		} else {
			out.AgainOK = true
			out.Names2, out.Names2Err = namesNow()
			out.Again = namesAnswers(sc)
		}
		ob, _ = json.Marshal(out)
		_ = os.WriteFile(of, ob, 0o644)
		os.Exit(0)
	}
}

package main

// Persistent-query match results (<segkey>/pqmr/<pqid>.pqmr) in crash states: the real ReadPqmr on the replayed files,
// an independent decoding of what the traced writer appended, the oracle and the Coq cases (model PqmrProto).

import (
	"encoding/binary"
	"encoding/json"
	"fmt"
	"os"
	"path/filepath"
	"regexp"
	"sort"
	"strconv"
	"strings"

	"github.com/siglens/siglens/pkg/segment/pqmr"

	"verifharness/vhlib"
)

// one block record as the writer appended it (decoded from the traced write(2) payloads, not through ReadPqmr)
type pqBlock struct {
	Blk   int
	Len   uint64
	Bits  []int // record numbers with the bit set (below Len)
	Bytes int   // bytes of the record in the file
}

func setBits(length uint64, words []byte) []int {
	var out []int
	for j := 0; j+8 <= len(words); j += 8 {
		w := binary.BigEndian.Uint64(words[j : j+8])
		for t := 0; t < 64; t++ {
			if w&(1<<uint(t)) != 0 && uint64(j/8*64+t) < length {
				out = append(out, j/8*64+t)
			}
		}
	}
	return out
}

// the chunks of one pqmr file in the first k ops: every write(2) payload in order
func pqmrChunks(ops []fsop, k int) map[string][][]byte {
	out := map[string][][]byte{}
	for _, o := range ops[:k] {
		if strings.HasSuffix(o.Path, ".pqmr") && (o.Kind == "write" || o.Kind == "pwrite") {
			out[o.Path] = append(out[o.Path], o.Data)
		}
	}
	return out
}

// FlushPqmr issues blkNum(2) size(2) length(8) words(size-8): decode the stream of appended bytes record by record;
// returns the complete records and the number of trailing bytes that belong to an unfinished record
func decodeWritten(chunks [][]byte) ([]pqBlock, int) {
	var all []byte
	for _, c := range chunks {
		all = append(all, c...)
	}
	var out []pqBlock
	off := 0
	for {
		if len(all)-off < 4 {
			return out, len(all) - off
		}
		blk := int(binary.LittleEndian.Uint16(all[off:]))
		size := int(binary.LittleEndian.Uint16(all[off+2:]))
		if size < 8 || len(all)-off-4 < size {
			return out, len(all) - off
		}
		length := binary.BigEndian.Uint64(all[off+4:])
		out = append(out, pqBlock{Blk: blk, Len: length, Bits: setBits(length, all[off+12:off+4+size]), Bytes: 4 + size})
		off += 4 + size
	}
}

type pqObs struct {
	Err    bool
	Blocks []pqBlock // sorted by block number
}

func readPqmrReal(path string) pqObs {
	res, err := pqmr.ReadPqmr(&path)
	if err != nil || res == nil {
		return pqObs{Err: true}
	}
	var o pqObs
	nums := res.GetAllBlocks()
	sort.Slice(nums, func(i, j int) bool { return nums[i] < nums[j] })
	for _, b := range nums {
		r, ok := res.GetBlockResults(b)
		if !ok {
			continue
		}
		blk := pqBlock{Blk: int(b), Len: uint64(r.GetNumberOfBits())}
		n := r.GetNumberOfBits()
		if n > 1<<20 {
			n = 1 << 20 // garbage length: the set bits of the first 2^20 records are enough to tell
		}
		for i := uint(0); i < n; i++ {
			if r.DoesRecordMatch(i) {
				blk.Bits = append(blk.Bits, int(i))
			}
		}
		o.Blocks = append(o.Blocks, blk)
	}
	return o
}

func coqNList(xs []int) string {
	it := make([]string, len(xs))
	for i, x := range xs {
		it[i] = strconv.Itoa(x)
	}
	return vhlib.CoqList(it)
}

func (o pqObs) coq() string {
	if o.Err {
		return "None"
	}
	var it []string
	for _, b := range o.Blocks {
		it = append(it, fmt.Sprintf("(%d, (%d, %s))", b.Blk, b.Len, coqNList(b.Bits)))
	}
	return "(Some " + vhlib.CoqList(it) + ")"
}

var pqReadCases []string // Coq cases (file bytes, observed result) collected over the crash points of a history
var pqAnswerCases []string // Coq cases (file bytes, NumBlocks in the .sfm, per block: matching records, records returned)

// a segment with a pqmr file in the crash state just replayed
type pqSegState struct {
	Seg      int
	File     []byte
	Recorded int // "numBlocks" of the segment's .sfm (-1: no readable .sfm, start-up does not adopt the segment)
}

var pqSegStates []pqSegState
var pqFinalFiles = map[string][]byte{} // content of every pqmr file after the complete trace has been replayed
var reSegOfPqmr = regexp.MustCompile(`/final/[^/]+/[^/]+/(\d+)/`)

// after the first k ops have been replayed: every pqmr file of the crash state is read by the real ReadPqmr and
// judged against what the traced writer had appended by then
func checkPqmrFiles(run1 string, ops []fsop, k int, sum *vhlib.Summary, h history, c map[string]interface{}) {
	files, _ := filepath.Glob(filepath.Join(run1, "data", "*", "final", "*", "*", "*", "*", "pqmr", "*.pqmr"))
	sort.Strings(files)
	written := pqmrChunks(ops, k)
	pqSegStates = nil
	for _, f := range files {
		data, err := os.ReadFile(f)
		if err != nil {
			continue
		}
		if m := reSegOfPqmr.FindStringSubmatch(f); m != nil {
			st := pqSegState{File: data, Recorded: -1}
			st.Seg, _ = strconv.Atoi(m[1])
			if sb, err := os.ReadFile(filepath.Dir(filepath.Dir(f)) + ".sfm"); err == nil {
				var js map[string]interface{}
				if json.Unmarshal(sb, &js) == nil {
					st.Recorded = 0 // "numBlocks" is omitted when it is 0
					if mm := reNumBlocks.FindSubmatch(sb); mm != nil {
						st.Recorded, _ = strconv.Atoi(string(mm[1]))
					}
				}
			}
			pqSegStates = append(pqSegStates, st)
		}
		if k == len(ops) {
			pqFinalFiles[f] = data
		}
		obs := readPqmrReal(f)
		sum.Count("pqmr_files_read_in_crash_states")
		pqReadCases = append(pqReadCases, fmt.Sprintf("(%s, %s)", vhlib.CoqBytes(data), obs.coq()))
		blocks, tornBytes := decodeWritten(written[f])
		if tornBytes > 0 {
			sum.Count("pqmr_files_with_torn_last_record")
		}
		rel := strings.TrimPrefix(f, run1)
		if obs.Err {
			// an unreadable file makes the searcher raw-search the whole segment: safe, but the writer never leaves one
			// behind under the process-crash model (a torn record is a short read, not an error)
			sum.Fail("pqmr_file_unreadable_after_crash", fmt.Sprintf("crash point %d: ReadPqmr(%s) fails on a prefix of the writer's appends (%d bytes, %d complete records, %d bytes of an unfinished record)", k, rel, len(data), len(blocks), tornBytes), c)
			continue
		}
		want := map[int]pqBlock{}
		for _, b := range blocks {
			want[b.Blk] = b
		}
		for _, b := range obs.Blocks {
			w, ok := want[b.Blk]
			if !ok {
				sum.Fail("torn_pqmr_block_reported_after_crash", fmt.Sprintf("crash point %d: %s holds %d complete block records and %d bytes of an unfinished one, but ReadPqmr reports block %d (matching records %v of %d bits), whose match bits never reached the disk; a persistent query is answered with these bits for that block", k, rel, len(blocks), tornBytes, b.Blk, b.Bits, b.Len), c)
				continue
			}
			if w.Len != b.Len || !intsEq(w.Bits, b.Bits) {
				sum.Fail("pqmr_block_bits_differ_from_flushed", fmt.Sprintf("crash point %d: %s block %d: flushed matching records %v (%d bits), ReadPqmr reports %v (%d bits)", k, rel, b.Blk, w.Bits, w.Len, b.Bits, b.Len), c)
			}
		}
	}
}

// complete trace: the chunks of every pqmr file follow the model's writer (Coq), and the bits flushed for block b of
// segment s are the records of that block that satisfy the query
func checkPqmrWriter(cfg vhlib.Config, sum *vhlib.Summary, hi int, ops []fsop, h history) {
	written := pqmrChunks(ops, len(ops))
	if len(written) == 0 {
		sum.HarnessError(fmt.Sprintf("history %d: persistent query registered but the traced writer appended to no pqmr file", hi))
		return
	}
	var paths []string
	for p := range written {
		paths = append(paths, p)
	}
	sort.Strings(paths)
	bl := blocksOf(h)
	var cases []string
	for _, p := range paths {
		var it []string
		for _, ch := range written[p] {
			it = append(it, vhlib.CoqBytes(ch))
		}
		final, ok := pqFinalFiles[p]
		if !ok {
			// the rotation removes the pqmr file of a segment in which the query matched nothing: no final content to compare
			for _, o := range ops {
				if o.Kind == "unlink" && o.Path == p {
					ok = true
					for _, ch := range written[p] {
						final = append(final, ch...)
					}
					sum.Count("pqmr_files_removed_at_rotation(no match in the segment)")
				}
			}
		}
		cases = append(cases, "("+vhlib.CoqList(it)+", "+vhlib.CoqBytes(final)+")")
		m := reSegOfPqmr.FindStringSubmatch(p)
		if m == nil {
			continue
		}
		seg, _ := strconv.Atoi(m[1])
		blocks, torn := decodeWritten(written[p])
		if torn != 0 {
			sum.Fail("pqmr_writer_leaves_unfinished_record", fmt.Sprintf("%s: %d trailing bytes after the last complete record although every flush returned", p, torn), map[string]interface{}{"history": h})
		}
		for _, b := range blocks {
			var truth []int
			found := false
			for _, x := range bl {
				if x.Seg == seg && x.Blk == b.Blk {
					found = true
					for i := 0; i < x.N; i++ {
						if filterMatches(h, x.From+i) {
							truth = append(truth, i)
						}
					}
				}
			}
			if !found || !intsEq(truth, b.Bits) {
				sum.Fail("persistent_query_bits_differ_from_filter", fmt.Sprintf("segment %d block %d: the flush stored matching records %v for `%s`, the events say %v", seg, b.Blk, b.Bits, h.Filter, truth), map[string]interface{}{"history": h})
			}
		}
	}
	defs := "Definition files : list (list (list N) * list N) := " + vhlib.CoqListNL(cases) + ".\n"
	sum.WriteCaseFile(cfg.Out, fmt.Sprintf("cases_pqmr_writer_%d", hi), "From SigM Require Import Base PqmrProto.\n", defs, "check_writers files", len(cases))
}

func writePqmrReadCases(cfg vhlib.Config, sum *vhlib.Summary, hi int) {
	for sh := 0; len(pqReadCases) > 0; sh++ {
		n := len(pqReadCases)
		if n > 300 {
			n = 300
		}
		defs := "Definition cases : list (list N * option (list obs_block)) := " + vhlib.CoqListNL(pqReadCases[:n]) + ".\n"
		sum.WriteCaseFile(cfg.Out, fmt.Sprintf("cases_pqmr_read_%d_%d", hi, sh), "From SigM Require Import Base PqmrProto.\n", defs, "check_read_cases cases", n)
		pqReadCases = pqReadCases[n:]
	}
}

// number of leading blocks of segment seg whose events are all in ids
func visibleBlocks(h history, ids []int, seg int) int {
	set := map[int]bool{}
	for _, i := range ids {
		set[i] = true
	}
	n := 0
	for _, b := range blocksOf(h) {
		if b.Seg != seg || b.Blk != n {
			continue
		}
		for i := 0; i < b.N; i++ {
			if !set[b.From+i] {
				return n
			}
		}
		n++
	}
	return n
}

// Coq cases for the searcher model: per adopted segment with a pqmr file, per searchable block, the records that match
// and the records the real persistent query returned after the restart
func addAnswerCases(h history, visible, got []int) {
	have := map[int]bool{}
	for _, id := range got {
		have[id] = true
	}
	for _, st := range pqSegStates {
		v := visibleBlocks(h, visible, st.Seg)
		if st.Recorded < 0 || v == 0 {
			continue
		}
		var truth, obs []string
		for _, b := range blocksOf(h) {
			if b.Seg != st.Seg || b.Blk >= v {
				continue
			}
			var t, o []int
			for i := 0; i < b.N; i++ {
				if filterMatches(h, b.From+i) {
					t = append(t, i)
				}
				if have[b.From+i] {
					o = append(o, i)
				}
			}
			truth = append(truth, coqNList(t))
			obs = append(obs, coqNList(o))
		}
		pqAnswerCases = append(pqAnswerCases, fmt.Sprintf("(%s, (%s, %s))", vhlib.CoqBytes(st.File), vhlib.CoqList(truth), vhlib.CoqList(obs)))
	}
}

func writePqmrAnswerCases(cfg vhlib.Config, sum *vhlib.Summary, hi int) {
	for sh := 0; len(pqAnswerCases) > 0; sh++ {
		n := len(pqAnswerCases)
		if n > 300 {
			n = 300
		}
		defs := "Definition cases : list answer_case := " + vhlib.CoqListNL(pqAnswerCases[:n]) + ".\n"
		sum.WriteCaseFile(cfg.Out, fmt.Sprintf("cases_pqmr_answer_%d_%d", hi, sh), "From SigM Require Import Base PqmrProto.\n", defs, "check_answer_cases cases", n)
		pqAnswerCases = pqAnswerCases[n:]
	}
}

package main

import (
	"bufio"
	"fmt"
	"os"
	"path/filepath"
	"regexp"
	"strconv"
	"strings"
)

// One completed file-system call of the traced worker, in completion order.
type fsop struct {
	Kind  string // creat | trunc | write | pwrite | rename | unlink | mkdir | ftruncate | fsync | open
	Path  string
	Path2 string
	Data  []byte
	Off   int64
	Append bool
	Line  int
}

var reResumed = regexp.MustCompile(`^(\d+)\s+<\.\.\. (\w+) resumed>(.*)$`)
var reUnfinished = regexp.MustCompile(`^(\d+)\s+(\w+)\((.*) <unfinished \.\.\.>$`)
var reCall = regexp.MustCompile(`^(\d+)\s+(\w+)\((.*)$`)

// parseTrace reads `strace -f -y -xx -s <big>` output and returns the completed calls that touch paths under root.
func parseTrace(file, root string) ([]fsop, error) {
	f, err := os.Open(file)
	if err != nil {
		return nil, err
	}
	defer f.Close()
	sc := bufio.NewScanner(f)
	sc.Buffer(make([]byte, 1<<20), 1<<28)
	pending := map[string]string{} // pid -> beginning of an unfinished call
	var ops []fsop
	fdAppend := map[string]bool{} // fd path opened with O_APPEND (by fd number)
	fdPos := map[string]int64{}
	ln := 0
	for sc.Scan() {
		ln++
		line := sc.Text()
		if m := reUnfinished.FindStringSubmatch(line); m != nil {
			pending[m[1]] = m[2] + "(" + m[3]
			continue
		}
		var call string
		if m := reResumed.FindStringSubmatch(line); m != nil {
			beg, ok := pending[m[1]]
			if !ok {
				continue
			}
			delete(pending, m[1])
			call = beg + m[3]
		} else if m := reCall.FindStringSubmatch(line); m != nil {
			call = m[2] + "(" + m[3]
		} else {
			continue
		}
		// result
		eq := strings.LastIndex(call, " = ")
		if eq < 0 {
			continue
		}
		res := strings.TrimSpace(call[eq+3:])
		body := call[:eq]
		if strings.HasPrefix(res, "-1") || strings.HasPrefix(res, "?") {
			continue // failed call: no effect
		}
		name := body[:strings.Index(body, "(")]
		args := body[strings.Index(body, "(")+1:]
		args = strings.TrimSuffix(strings.TrimSpace(args), ")")
		switch name {
		case "openat":
			// openat(AT_FDCWD, "path", FLAGS[, mode]) = fd<path>
			p, rest := quoted(args)
			if !under(p, root) {
				continue
			}
			fd := fdNum(res)
			fdAppend[fd] = strings.Contains(rest, "O_APPEND")
			fdPos[fd] = 0
			if strings.Contains(rest, "O_TRUNC") {
				ops = append(ops, fsop{Kind: "trunc", Path: p, Line: ln})
			} else if strings.Contains(rest, "O_CREAT") {
				ops = append(ops, fsop{Kind: "creat", Path: p, Line: ln})
			}
		case "write", "pwrite64":
			// write(5</path>, "\x..", n) = n
			fdp := args[:strings.Index(args, ",")]
			p := fdPath(fdp)
			if !under(p, root) {
				continue
			}
			fd := fdNumArg(fdp)
			data, rest := quotedBytes(args[strings.Index(args, ",")+1:])
			n, _ := strconv.Atoi(strings.Fields(res)[0])
			if n < len(data) {
				data = data[:n]
			}
			if name == "pwrite64" {
				parts := strings.Split(rest, ",")
				off, _ := strconv.ParseInt(strings.TrimSpace(parts[len(parts)-1]), 10, 64)
				ops = append(ops, fsop{Kind: "pwrite", Path: p, Data: data, Off: off, Line: ln})
			} else {
				ops = append(ops, fsop{Kind: "write", Path: p, Data: data, Off: fdPos[fd], Append: fdAppend[fd], Line: ln})
				fdPos[fd] += int64(len(data))
			}
		case "lseek":
			fdp := args[:strings.Index(args, ",")]
			if under(fdPath(fdp), root) {
				off, _ := strconv.ParseInt(strings.Fields(res)[0], 10, 64)
				fdPos[fdNumArg(fdp)] = off
			}
		case "renameat", "renameat2", "rename":
			a, rest := quoted(args)
			b, _ := quoted(rest)
			if under(a, root) || under(b, root) {
				ops = append(ops, fsop{Kind: "rename", Path: a, Path2: b, Line: ln})
			}
		case "unlinkat", "unlink":
			p, rest := quoted(args)
			if name == "unlinkat" {
				p, rest = atPath(args)
			}
			if under(p, root) {
				k := "unlink"
				if strings.Contains(rest, "AT_REMOVEDIR") {
					k = "rmdir"
				}
				ops = append(ops, fsop{Kind: k, Path: p, Line: ln})
			}
		case "mkdirat", "mkdir":
			p, _ := quoted(args)
			if under(p, root) {
				ops = append(ops, fsop{Kind: "mkdir", Path: p, Line: ln})
			}
		case "ftruncate":
			fdp := args[:strings.Index(args, ",")]
			p := fdPath(fdp)
			if under(p, root) {
				sz, _ := strconv.ParseInt(strings.TrimSpace(args[strings.Index(args, ",")+1:]), 10, 64)
				ops = append(ops, fsop{Kind: "ftruncate", Path: p, Off: sz, Line: ln})
			}
		case "fsync", "fdatasync":
			p := fdPath(args)
			if under(p, root) {
				ops = append(ops, fsop{Kind: "fsync", Path: p, Line: ln})
			}
		}
	}
	return ops, sc.Err()
}

func under(p, root string) bool { return strings.HasPrefix(p, root) }

// path argument of an *at call: `AT_FDCWD<cwd>, "name"` or `5</dir>, "name"` (os.RemoveAll walks a tree with
// directory descriptors and relative names); returns the absolute path and the text after the name
func atPath(args string) (string, string) {
	name, rest := quoted(args)
	if strings.HasPrefix(name, "/") || name == "" {
		return name, rest
	}
	i := strings.Index(args, ",")
	if i < 0 {
		return name, rest
	}
	dir := fdPath(args[:i])
	if dir == "" {
		return name, rest
	}
	return strings.TrimSuffix(dir, "/") + "/" + name, rest
}

// first quoted string of s (strace -xx: every byte as \xNN) and the remainder
func quoted(s string) (string, string) {
	b, rest := quotedBytes(s)
	return string(b), rest
}
func quotedBytes(s string) ([]byte, string) {
	i := strings.Index(s, "\"")
	if i < 0 {
		return nil, ""
	}
	j := i + 1
	var out []byte
	for j < len(s) && s[j] != '"' {
		if s[j] == '\\' && j+3 < len(s) && s[j+1] == 'x' {
			v, _ := strconv.ParseUint(s[j+2:j+4], 16, 8)
			out = append(out, byte(v))
			j += 4
		} else {
			out = append(out, s[j])
			j++
		}
	}
	if j+1 <= len(s) {
		return out, s[j+1:]
	}
	return out, ""
}
func fdPath(a string) string {
	i, j := strings.Index(a, "<"), strings.LastIndex(a, ">")
	if i < 0 || j < i {
		return ""
	}
	p := a[i+1 : j]
	// -xx also escapes the path inside <...>
	if strings.Contains(p, "\\x") {
		b, _ := quotedBytes("\"" + p + "\"")
		return string(b)
	}
	return p
}
func fdNumArg(a string) string {
	i := strings.Index(a, "<")
	if i < 0 {
		return strings.TrimSpace(a)
	}
	return strings.TrimSpace(a[:i])
}
func fdNum(res string) string {
	i := strings.Index(res, "<")
	if i < 0 {
		return strings.Fields(res)[0]
	}
	return res[:i]
}

// apply one op to the file system (replay)
func applyOp(o fsop) error {
	switch o.Kind {
	case "mkdir":
		return os.MkdirAll(o.Path, 0o755)
	case "creat":
		_ = os.MkdirAll(filepath.Dir(o.Path), 0o755)
		f, err := os.OpenFile(o.Path, os.O_CREATE|os.O_WRONLY, 0o644)
		if err == nil {
			f.Close()
		}
		return err
	case "trunc":
		_ = os.MkdirAll(filepath.Dir(o.Path), 0o755)
		f, err := os.OpenFile(o.Path, os.O_CREATE|os.O_WRONLY|os.O_TRUNC, 0o644)
		if err == nil {
			f.Close()
		}
		return err
	case "write", "pwrite":
		f, err := os.OpenFile(o.Path, os.O_CREATE|os.O_WRONLY, 0o644)
		if err != nil {
			return err
		}
		defer f.Close()
		if o.Kind == "write" && o.Append {
			st, _ := f.Stat()
			_, err = f.WriteAt(o.Data, st.Size())
		} else {
			_, err = f.WriteAt(o.Data, o.Off)
		}
		return err
	case "rename":
		return os.Rename(o.Path, o.Path2)
	case "unlink":
		return os.Remove(o.Path)
	case "rmdir":
		return os.Remove(o.Path)
	case "ftruncate":
		return os.Truncate(o.Path, o.Off)
	case "fsync":
		return nil
	}
	return fmt.Errorf("unknown op %s", o.Kind)
}

package main

import (
	"context"
	"encoding/json"
	"fmt"
	"io"
	"os"
	"regexp"
	"sort"
	"strconv"
	"strings"
	"sync"
	"time"

	log "github.com/sirupsen/logrus"

	"github.com/siglens/siglens/pkg/ast/pipesearch"
	"github.com/siglens/siglens/pkg/config"
	eswriter "github.com/siglens/siglens/pkg/es/writer"
	"github.com/siglens/siglens/pkg/hooks"
	"github.com/siglens/siglens/pkg/segment/memory/limit"
	"github.com/siglens/siglens/pkg/segment/query"
	"github.com/siglens/siglens/pkg/segment/writer"
	serverutils "github.com/siglens/siglens/pkg/server/utils"
	vtable "github.com/siglens/siglens/pkg/virtualtable"
)

// A history is a list of steps; events carry ids 1..n in ingest order.
type step struct {
	// "flush" (ingest N events then flush) | "rotate" | "shutdown" (ingest N >= 0 events, NO flush, then the graceful
	// shutdown writer.ForcedFlushToSegfile: AppendWipToSegfile(forceRotate=true) flushes the open block and rotates the
	// segment in the same call; always the last step of a history)
	Kind string `json:"kind"`
	N    int    `json:"n"`
}

// does the step flush a block of its own events
func (s step) flushes() bool { return (s.Kind == "flush" || s.Kind == "shutdown") && s.N > 0 }
type history struct {
	Steps []step `json:"steps"`
	Index string `json:"index"`
	Desc  bool   `json:"timestamps_descending"` // later events carry EARLIER timestamps (late-arriving data)
	// the filter query asked after every restart; with PQ it is also asked on the (empty, existing) index BEFORE the first
	// event arrives, which makes it a persistent query: every flush then appends the block's match bits to
	// <segkey>/pqmr/<pqid>.pqmr (after the .sfm), and after a restart the query is answered from that file
	Filter string `json:"filter_query"`
	PQ     bool   `json:"filter_is_persistent_query"`
}

// does the event satisfy the filter query (the queries used are `w=w<r>`)
func filterMatches(h history, id int) bool {
	return h.Filter == fmt.Sprintf("w=w%d", id%3)
}

type recovered struct {
	StartupOK bool     `json:"startup_ok"`
	Err       string   `json:"err"`
	IDs       []int    `json:"ids"`        // ids returned by `*` (with multiplicity, sorted)
	Bad       []string `json:"bad"`        // rows whose content is not what was sent
	Count     int64    `json:"stats_count"` // `* | stats count`
	CountErr  string   `json:"stats_err"`
	SumN      int64    `json:"stats_sum_n"` // `* | stats sum(n)` (-1: no number in the answer)
	After     []int    `json:"ids_after_more_ingest"`
	AfterErr  string   `json:"after_err"`
	Bounded   map[int][]int `json:"ids_by_time_bounded_query_per_flush_step"`
	Again     []int    `json:"ids_after_second_restart"`
	AgainErr  string   `json:"again_err"`
	// the filter query (a persistent query when history.PQ) after restart / after more ingest / after the second restart
	Filter      []int  `json:"filter_ids"`
	FilterErr   string `json:"filter_err"`
	FilterAfter []int  `json:"filter_ids_after_more_ingest"`
	FilterAgain []int  `json:"filter_ids_after_second_restart"`
	FilterPath  [2]int `json:"filter_segments_served_raw_pqs"` // from the server's own log line (-1 = none)
}

// logrus hook: how many segments of a query were raw-searched / answered from persistent-query results
type pathHook struct {
	mu sync.Mutex
	m  map[uint64][2]int
}

var pathRe = regexp.MustCompile(`qid=(\d+), GetSortedQSRs: Received \d+ query segment requests\. (\d+) raw search (\d+) pqs`)

func (h *pathHook) Levels() []log.Level { return []log.Level{log.InfoLevel} }
func (h *pathHook) Fire(e *log.Entry) error {
	if m := pathRe.FindStringSubmatch(e.Message); m != nil {
		q, _ := strconv.ParseUint(m[1], 10, 64)
		r, _ := strconv.Atoi(m[2])
		p, _ := strconv.Atoi(m[3])
		h.mu.Lock()
		h.m[q] = [2]int{r, p}
		h.mu.Unlock()
	}
	return nil
}

var paths = &pathHook{m: map[uint64][2]int{}}

func filterQuery(h history) ([]int, error) {
	r, err := runQuery(h.Index, h.Filter)
	if err != nil {
		return nil, err
	}
	ids := []int{}
	for _, row := range r.Rows {
		if id, ok := num(row["id"]); ok {
			ids = append(ids, int(id))
		} else {
			ids = append(ids, -1)
		}
	}
	sort.Ints(ids)
	return ids, nil
}

func initSiglens(dir string) error {
	config.InitializeTestingConfig(dir + "/")
	config.SetNewQueryPipelineEnabled(true)
	limit.InitMemoryLimiter()
	writer.InitWriterNode()
	if err := vtable.InitVTable(serverutils.GetMyIds); err != nil {
		return err
	}
	if err := query.InitQueryNode(serverutils.GetMyIds, serverutils.ExtractKibanaRequests); err != nil {
		return err
	}
	query.InitMaxRunningQueries()
	go query.PullQueriesToRun(context.Background())
	return nil
}

func flushLogs() {
	z, z2 := time.Duration(0), time.Duration(0)
	writer.FlushWipBufferToFile(&z, &z2)
}

const baseTs = uint64(1700000000000)

var descending bool

func tsOf(id int) uint64 {
	if descending {
		return baseTs + uint64(100000-id)*1000
	}
	return baseTs + uint64(id)*1000
}

func eventJSON(id int) string {
	// content is a function of the id so that recovered rows can be validated
	return fmt.Sprintf(`{"id":%d,"w":"w%d","n":%d,"timestamp":%d}`, id, id%3, id*7, tsOf(id))
}

func ingest(index string, from, n int) error {
	body := ""
	for i := 0; i < n; i++ {
		body += fmt.Sprintf(`{"index":{"_index":"%s"}}`+"\n", index) + eventJSON(from+i) + "\n"
	}
	_, _, err := eswriter.HandleBulkBody([]byte(body), nil, 0, 0, false)
	return err
}

var qid uint64 = 5000

func runQuery(index, text string) (*pipesearchResp, error) {
	return runQueryRange(index, text, uint64(1), ^uint64(0))
}

func runQueryRange(index, text string, start, end uint64) (*pipesearchResp, error) {
	qid++
	req := map[string]interface{}{
		"searchText": text, "indexName": index, "startEpoch": start, "endEpoch": end,
		"size": uint64(10000), "queryLanguage": "Splunk QL",
	}
	resp, _, _, err := pipesearch.ParseAndExecutePipeRequest(req, qid, 0, time.Now(), "", nil)
	if err != nil {
		return nil, err
	}
	out := &pipesearchResp{}
	if resp == nil {
		return out, nil
	}
	for _, h := range resp.Hits.Hits {
		out.Rows = append(out.Rows, h)
	}
	out.Measures = resp.MeasureResults
	out.Errors = resp.Errors
	return out, nil
}

type pipesearchResp struct {
	Rows     []map[string]interface{}
	Measures interface{}
	Errors   interface{}
}

func num(x interface{}) (int64, bool) {
	switch t := x.(type) {
	case int64:
		return t, true
	case uint64:
		return int64(t), true
	case float64:
		return int64(t), true
	case int:
		return int64(t), true
	case json.Number:
		v, err := t.Int64()
		return v, err == nil
	}
	return 0, false
}

func matchAll(index string) (ids []int, bad []string, err error) {
	r, err := runQuery(index, "*")
	if err != nil {
		return nil, nil, err
	}
	for _, row := range r.Rows {
		id, ok := num(row["id"])
		if !ok {
			bad = append(bad, fmt.Sprintf("row without id: %v", row))
			continue
		}
		n, _ := num(row["n"])
		ts, _ := num(row["timestamp"])
		w, _ := row["w"].(string)
		if n != id*7 || uint64(ts) != tsOf(int(id)) || w != fmt.Sprintf("w%d", id%3) {
			bad = append(bad, fmt.Sprintf("id %d: n=%v w=%v timestamp=%v", id, row["n"], row["w"], row["timestamp"]))
		}
		ids = append(ids, int(id))
	}
	sort.Ints(ids)
	return ids, bad, nil
}

func marker(dir, s string) {
	f, err := os.OpenFile(dir+"/progress.log", os.O_CREATE|os.O_WRONLY|os.O_APPEND, 0o644)
	if err == nil {
		_, _ = f.WriteString(s + "\n")
		f.Close()
	}
}

// worker ingest <dir> <history.json> : run the history, writing a progress marker after each completed step
// worker recover <dir> <history.json> <out.json> <nextId>: start on the same dir, query, ingest one more batch, query again
func workerMain(args []string) {
	mode, dir, hf := args[0], args[1], args[2]
	var h history
	b, _ := os.ReadFile(hf)
	_ = json.Unmarshal(b, &h)
	descending = h.Desc
	switch mode {
	case "ingest":
		if err := initSiglens(dir + "/data"); err != nil {
			os.Exit(3)
		}
		if h.PQ {
			// the index exists and the filter has been asked before any data arrives -> persistent query
			e1 := vtable.AddVirtualTable(&h.Index, 0)
			_, e2 := runQuery(h.Index, h.Filter)
			if os.Getenv("C07_DUMP") != "" {
				fmt.Fprintf(os.Stderr, "PQ registration: AddVirtualTable err=%v query err=%v\n", e1, e2)
			}
		}
		marker(dir, "START")
		next := 1
		for i, st := range h.Steps {
			switch st.Kind {
			case "flush":
				if err := ingest(h.Index, next, st.N); err != nil {
					os.Exit(4)
				}
				next += st.N
				flushLogs()
			case "rotate":
				writer.ForceRotateSegmentsForTest()
			case "shutdown":
				if st.N > 0 {
					if err := ingest(h.Index, next, st.N); err != nil {
						os.Exit(4)
					}
					next += st.N
				}
				// siglens calls this hook as the first statement of the rotation, i.e. right after the buffer flush of the
				// forced flush has returned: the marker tells the oracle that this flush HAD COMPLETED when the crash hit
				step := i
				hooks.GlobalHooks.RotateSegment = func(segstore interface{}, streamId string, forceRotate bool) (bool, error) {
					marker(dir, fmt.Sprintf("FLUSHED %d", step))
					return false, nil
				}
				writer.ForcedFlushToSegfile()
				hooks.GlobalHooks.RotateSegment = nil
			}
			marker(dir, fmt.Sprintf("DONE %d", i))
		}
		os.Exit(0)
	case "again":
		// second generation: the process that recovered, ingested and flushed more is gone too (its flush had
		// completed); start once more on the same directory and read everything
		of := args[3]
		var out recovered
		ob, _ := os.ReadFile(of)
		_ = json.Unmarshal(ob, &out)
		if err := initSiglens(dir + "/data"); err != nil {
			out.AgainErr = err.Error()
		} else {
			var prev []int
			for i := 0; i < 20; i++ {
				time.Sleep(100 * time.Millisecond)
				cur, _, _ := matchAll(h.Index)
				if i > 0 && fmt.Sprint(cur) == fmt.Sprint(prev) {
					break
				}
				prev = cur
			}
			ids, _, err := matchAll(h.Index)
			out.Again = ids
			if err != nil {
				out.AgainErr = err.Error()
			}
			if out.Again == nil {
				out.Again = []int{}
			}
			if h.Filter != "" {
				if f, err := filterQuery(h); err != nil {
					out.AgainErr = "filter query: " + err.Error()
				} else {
					out.FilterAgain = f
				}
			}
		}
		ob, _ = json.Marshal(out)
		_ = os.WriteFile(of, ob, 0o644)
		os.Exit(0)
	case "recover":
		out := recovered{}
		of := args[3]
		var nextID int
		fmt.Sscanf(args[4], "%d", &nextID)
		write := func() {
			ob, _ := json.Marshal(out)
			_ = os.WriteFile(of, ob, 0o644)
		}
		if err := initSiglens(dir + "/data"); err != nil {
			out.Err = err.Error()
			write()
			os.Exit(0)
		}
		out.StartupOK = true
		// segments that only have a .sfm are adopted by a goroutine started in InitQueryNode
		// (initSyncSegMetaForAllIds): wait until two consecutive match-all answers agree
		var prev []int
		for i := 0; i < 20; i++ {
			time.Sleep(100 * time.Millisecond)
			cur, _, _ := matchAll(h.Index)
			if i > 0 && fmt.Sprint(cur) == fmt.Sprint(prev) {
				break
			}
			prev = cur
		}
		ids, bad, err := matchAll(h.Index)
		out.IDs, out.Bad = ids, bad
		if err != nil {
			out.Err = err.Error()
		}
		if r, err := runQuery(h.Index, "* | stats count"); err != nil {
			out.CountErr = err.Error()
		} else {
			out.Count = -1
			mb, _ := json.Marshal(r.Measures)
			var ms []struct {
				MeasureVal map[string]interface{} `json:"MeasureVal"`
			}
			if json.Unmarshal(mb, &ms) == nil && len(ms) > 0 {
				for _, v := range ms[0].MeasureVal {
					if c, ok := num(v); ok {
						out.Count = c
					} else if s, ok := v.(string); ok {
						fmt.Sscanf(s, "%d", &out.Count)
					}
				}
			}
		}
		// a statistic over the CONTENT of the events (n = 7*id), answered from the per-segment statistics files
		out.SumN = -1
		if r, err := runQuery(h.Index, "* | stats sum(n)"); err == nil {
			mb, _ := json.Marshal(r.Measures)
			var ms []struct {
				MeasureVal map[string]interface{} `json:"MeasureVal"`
			}
			if json.Unmarshal(mb, &ms) == nil && len(ms) > 0 {
				for _, v := range ms[0].MeasureVal {
					if c, ok := num(v); ok {
						out.SumN = c
					} else if s, ok := v.(string); ok {
						var f float64
						if _, err := fmt.Sscanf(strings.ReplaceAll(s, ",", ""), "%g", &f); err == nil {
							out.SumN = int64(f)
						}
					}
				}
			}
		} else if out.CountErr == "" {
			out.CountErr = "stats sum(n): " + err.Error()
		}
		if h.Filter != "" {
			if h.PQ {
				log.SetLevel(log.InfoLevel)
				log.SetOutput(io.Discard)
				log.AddHook(paths)
			}
			f, err := filterQuery(h)
			out.Filter = f
			if err != nil {
				out.FilterErr = err.Error()
			}
			out.FilterPath = [2]int{-1, -1}
			if h.PQ {
				log.SetLevel(log.PanicLevel)
				paths.mu.Lock()
				if v, ok := paths.m[qid]; ok {
					out.FilterPath = v
				}
				paths.mu.Unlock()
			}
		}
		// time-bounded queries: the range of each flush step's own events
		out.Bounded = map[int][]int{}
		next := 1
		for i, st := range h.Steps {
			if !st.flushes() {
				continue
			}
			lo, hi := tsOf(next), tsOf(next+st.N-1)
			if lo > hi {
				lo, hi = hi, lo
			}
			if r, err := runQueryRange(h.Index, "*", lo, hi); err == nil {
				var ids []int
				for _, row := range r.Rows {
					if id, ok := num(row["id"]); ok {
						ids = append(ids, int(id))
					}
				}
				sort.Ints(ids)
				out.Bounded[i] = ids
			}
			next += st.N
		}
		write()
		// later ingestion must not overwrite recovered data
		if err := ingest(h.Index, nextID, 2); err != nil {
			out.AfterErr = err.Error()
		} else {
			flushLogs()
			ids2, _, err := matchAll(h.Index)
			out.After = ids2
			if err != nil {
				out.AfterErr = err.Error()
			}
			if h.Filter != "" && err == nil {
				if f, err := filterQuery(h); err != nil {
					out.AfterErr = "filter query: " + err.Error()
				} else {
					out.FilterAfter = f
				}
			}
		}
		write()
		os.Exit(0)
	}
}

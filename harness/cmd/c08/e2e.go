package main

import (
	"context"
	"encoding/json"
	"fmt"
	"github.com/siglens/siglens/pkg/segment/reader/metrics/series"
	"github.com/siglens/siglens/pkg/segment/reader/microreader"
	"github.com/siglens/siglens/pkg/segment/structs"
	"math"
	"os"
	"os/exec"
	"path/filepath"
	"sort"
	"strings"
	"sync"
	"time"

	jp "github.com/buger/jsonparser"
	"github.com/siglens/siglens/pkg/config"
	"github.com/siglens/siglens/pkg/integrations/prometheus/promql"
	"github.com/siglens/siglens/pkg/segment"
	"github.com/siglens/siglens/pkg/segment/memory/limit"
	"github.com/siglens/siglens/pkg/segment/query"
	sutils "github.com/siglens/siglens/pkg/segment/utils"
	"github.com/siglens/siglens/pkg/segment/writer/metrics"
	"github.com/siglens/siglens/pkg/segment/writer/metrics/meta"

	"verifharness/vhlib"
)

// ---------- history format shared by driver and worker ----------
type e2eDP struct {
	Series int    `json:"s"`
	T      uint32 `json:"t"`
	V      uint64 `json:"v"`
	Phase  int    `json:"phase"` // 0: before the first rotation, 1: after it (new segment)
}
type e2eSeries struct {
	Name string `json:"name"`
	Tags []tag  `json:"tags"`
}
type e2eHistory struct {
	Series    []e2eSeries `json:"series"`
	DPs       []e2eDP     `json:"dps"`
	T0        uint32      `json:"t0"`
	BlockOnly bool        `json:"first_rotation_block_only"` // first rotation closes the metrics BLOCK but keeps the segment open
	AgedTree  bool        `json:"first_rotation_by_size_with_tags_tree_older_than_24h,omitempty"` // size-based segment rotation that also moves the tags tree holder
	// race stream (race.go): Rot[i] = the rotation that follows phase i and lands between the two steps of a selector query;
	// Late[i] = the datapoints of phase i+1 are accepted after that rotation and before the query is executed
	Rot  []string `json:"rotation_during_query_after_phase,omitempty"`
	Late []bool   `json:"next_phase_ingested_before_query_executes,omitempty"`
	// TreeFlush[i] = the periodic tags-tree flush (timeBasedTagsTreeFlush) happens after phase i, before the raced query
	TreeFlush []bool `json:"tags_tree_flushed_after_phase,omitempty"`
	// retention stream (retention.go): RetAges[i] = 1: phase i holds back-filled datapoints (40 days older than T0), 0: recent
	// ones; RetRot[i] = the segment rotation after phase i; then the retention pass (cut at T0 - 20 days);
	// RetPost = one more phase of recent datapoints and a rotation after the pass, before the restart
	RetAges []int    `json:"retention_phase_holds_backfilled_data,omitempty"`
	RetRot  []string `json:"retention_rotation_after_phase,omitempty"`
	RetPost bool     `json:"retention_more_ingest_and_rotation_after_the_pass,omitempty"`
}

// observation: per stage, per series index, the points returned by a selector query
type e2eObs struct {
	Stage  string          `json:"stage"`
	Series map[string][]pt `json:"series"` // canonical series (name{k="v",...} with sorted keys) -> points
	Errs   []string        `json:"errs"`
	Meta   []string        `json:"meta,omitempty"` // block-summary problems found after the WAL replay
}

// "cpu{host:v1,zone:v2," -> cpu{host="v1",zone="v2"}
func canonID(id string) string {
	i := strings.Index(id, "{")
	if i < 0 {
		return id
	}
	name, rest := id[:i], strings.TrimSuffix(id[i+1:], ",")
	var ts []tag
	if rest != "" {
		for _, kv := range strings.Split(rest, ",") {
			j := strings.Index(kv, ":")
			if j < 0 {
				ts = append(ts, tag{kv, "?"})
			} else {
				ts = append(ts, tag{kv[:j], kv[j+1:]})
			}
		}
	}
	sort.Slice(ts, func(a, b int) bool { return ts[a].K < ts[b].K })
	return selector(e2eSeries{name, ts})
}

func selector(s e2eSeries) string {
	var ms []string
	for _, t := range s.Tags {
		ms = append(ms, fmt.Sprintf("%s=%q", t.K, t.V))
	}
	return s.Name + "{" + strings.Join(ms, ",") + "}"
}

func initMetrics(dir string) error {
	cfg := config.GetTestConfig(dir + "/")
	cfg.SSInstanceName = "test"
	config.SetConfig(cfg)
	if err := config.InitDerivedConfig("test"); err != nil {
		return err
	}
	limit.InitMemoryLimiter()
	metrics.InitTestingConfig()
	return meta.InitMetricsMeta()
}

var qid uint64 = 1000

func queryAll(h e2eHistory, stage string) e2eObs {
	return queryAllBy(h, stage, false)
}

// byRegex: the metric is selected with a regular expression on its name ({__name__=~"cpu"}); the series then come back
// under the name "*", which is put back here
func queryAllBy(h e2eHistory, stage string, byRegex bool) e2eObs {
	o := e2eObs{Stage: stage, Series: map[string][]pt{}}
	names := map[string]bool{}
	for _, s := range h.Series {
		names[s.Name] = true
	}
	var nl []string
	for n := range names {
		nl = append(nl, n)
	}
	sort.Strings(nl)
	for _, q := range nl {
		name := q
		if byRegex {
			q = fmt.Sprintf(`{__name__=~"%s"}`, name)
		}
		reqs, _, _, err := promql.ConvertPromQLToMetricsQuery(q, h.T0, h.T0+330, 0)
		if err != nil || len(reqs) == 0 {
			o.Errs = append(o.Errs, fmt.Sprintf("parse %s: %v", q, err))
			continue
		}
		qid++
		res := segment.ExecuteMetricsQuery(&reqs[0].MetricsQuery, &reqs[0].TimeRange, qid)
		if res == nil {
			o.Errs = append(o.Errs, "nil result for "+q)
			continue
		}
		for _, e := range res.ErrList {
			o.Errs = append(o.Errs, fmt.Sprintf("%s: %v", q, e))
		}
		for k, m := range res.Results {
			var pts []pt
			for t, v := range m {
				pts = append(pts, pt{t, math.Float64bits(v)})
			}
			sort.Slice(pts, func(a, b int) bool { return pts[a].T < pts[b].T })
			if byRegex && strings.HasPrefix(k, "*{") {
				k = name + k[1:]
			}
			c := canonID(k)
			if _, dup := o.Series[c]; dup {
				o.Errs = append(o.Errs, "series returned twice: "+c)
			}
			o.Series[c] = pts
		}
	}
	return o
}

func ingest(h e2eHistory, phase int) []string {
	var errs []string
	for _, d := range h.DPs {
		if d.Phase != phase {
			continue
		}
		s := h.Series[d.Series]
		th := metrics.GetTagsHolder()
		for _, t := range s.Tags {
			th.Insert(t.K, []byte(t.V), jp.String)
		}
		if err := metrics.EncodeDatapoint([]byte(s.Name), th, math.Float64frombits(d.V), d.T, 40, 0); err != nil {
			errs = append(errs, err.Error())
		}
	}
	return errs
}

// block rotation without segment rotation: CheckAndRotate(false) rotates the block when its encoded size
// exceeds sutils.MAX_BYTES_METRICS_BLOCK (a var; the server default is 100 MB)
func rotateBlocksOnly() error {
	old := sutils.MAX_BYTES_METRICS_BLOCK
	sutils.MAX_BYTES_METRICS_BLOCK = 1
	defer func() { sutils.MAX_BYTES_METRICS_BLOCK = old }()
	for _, mSeg := range metrics.GetAllMetricsSegments() {
		if err := mSeg.CheckAndRotate(false); err != nil {
			return err
		}
	}
	return nil
}

// the size-based rotation of a long-running server: the segment is full and its tags tree holder is more than a day old,
// so CheckAndRotate(false) closes block and segment and moves the holder to a new tags-tree directory
func rotateBySizeWithAgedTree() error {
	if metrics.VerifAgeTagsTreeHolders(25*time.Hour) == 0 {
		return fmt.Errorf("no tags tree holder")
	}
	old := sutils.MAX_BYTES_METRICS_SEGMENT
	sutils.MAX_BYTES_METRICS_SEGMENT = 1
	defer func() { sutils.MAX_BYTES_METRICS_SEGMENT = old }()
	for _, mSeg := range metrics.GetAllMetricsSegments() {
		if err := mSeg.CheckAndRotate(false); err != nil {
			return err
		}
	}
	return query.PopulateMetricsMetadataForTheFile_TestOnly(meta.GetLocalMetricsMetaFName())
}

func rotateAll() error {
	for _, mSeg := range metrics.GetAllMetricsSegments() {
		if err := mSeg.CheckAndRotate(true); err != nil {
			return err
		}
	}
	metrics.ResetMetricsSegStore_TestOnly()
	return query.PopulateMetricsMetadataForTheFile_TestOnly(meta.GetLocalMetricsMetaFName())
}

// worker run <dir> <history.json> <out.json>   |   worker restart <dir> <history.json> <out.json>
func workerMain(args []string) {
	mode, dir, hf, of := args[0], args[1], args[2], args[3]
	var h e2eHistory
	b, _ := os.ReadFile(hf)
	_ = json.Unmarshal(b, &h)
	ctx, cancel := context.WithCancel(context.Background())
	defer cancel()
	go query.PullQueriesToRun(ctx)
	var out []e2eObs
	fail := func(e string) {
		out = append(out, e2eObs{Stage: "harness", Errs: []string{e}})
		ob, _ := json.Marshal(out)
		_ = os.WriteFile(of, ob, 0o644)
		os.Exit(0)
	}
	if err := initMetrics(dir); err != nil {
		fail("init: " + err.Error())
	}
	switch mode {
	case "run":
		if e := ingest(h, 0); len(e) > 0 {
			out = append(out, e2eObs{Stage: "ingest0", Errs: e})
		}
		out = append(out, queryAll(h, "open"))
		if h.AgedTree {
			if err := rotateBySizeWithAgedTree(); err != nil {
				fail("rotate by size: " + err.Error())
			}
		} else if h.BlockOnly {
			if err := rotateBlocksOnly(); err != nil {
				fail("rotate block: " + err.Error())
			}
		} else if err := rotateAll(); err != nil {
			fail("rotate: " + err.Error())
		}
		out = append(out, queryAll(h, "rotated"))
		if e := ingest(h, 1); len(e) > 0 {
			out = append(out, e2eObs{Stage: "ingest1", Errs: e})
		}
		out = append(out, queryAll(h, "rotated+open"))
		if err := rotateAll(); err != nil {
			fail("rotate2: " + err.Error())
		}
		// the block reader looks series up in map-iteration order: ask several times
		for i := 0; i < 4; i++ {
			out = append(out, queryAll(h, "rotated2"))
		}
	case "racerun":
		out = raceRun(h, fail)
	case "retrun":
		out = retRun(h, fail)
	case "retrestart":
		out = retRestart(h, fail)
	case "walrun":
		// ingest, rotate the BLOCK (the segment stays open), ingest more, let the WAL buffer reach its file, die
		if e := ingest(h, 0); len(e) > 0 {
			fail("ingest0: " + strings.Join(e, ";"))
		}
		if err := rotateBlocksOnly(); err != nil {
			fail("rotate block: " + err.Error())
		}
		if e := ingest(h, 1); len(e) > 0 {
			fail("ingest1: " + strings.Join(e, ";"))
		}
		if err := metrics.VerifFlushDpWalBuffers(); err != nil {
			fail("wal flush: " + err.Error())
		}
		o := e2eObs{Stage: "walrun", Errs: metrics.VerifSegKeys()} // Errs carries the segment keys to the recover step
		ob, _ := json.Marshal([]e2eObs{o})
		_ = os.WriteFile(of, ob, 0o644)
		os.Exit(0) // abrupt end: no flush, no rotation
	case "walrecover":
		// start-up replay of the datapoint WAL, then read every block file of the segments directly
		var prev []e2eObs
		pb, _ := os.ReadFile(of)
		_ = json.Unmarshal(pb, &prev)
		metrics.RecoverWALData()
		o := e2eObs{Stage: "walrecover", Series: map[string][]pt{}}
		qm := &structs.MetricsQueryProcessingMetrics{UpdateLock: &sync.Mutex{}}
		if len(prev) == 1 {
			for _, segKey := range prev[0].Errs {
				tssr, err := series.InitTimeSeriesReader(segKey)
				if err != nil {
					o.Errs = append(o.Errs, "InitTimeSeriesReader: "+err.Error())
					continue
				}
				for blk := uint16(0); blk < 8; blk++ {
					if _, err := os.Stat(fmt.Sprintf("%s_%d.tso", segKey, blk)); err != nil {
						continue
					}
					tsbr, err := tssr.InitReaderForBlock(blk, qm)
					if err != nil {
						o.Errs = append(o.Errs, fmt.Sprintf("block %d: %v", blk, err))
						continue
					}
					blkLo, blkHi, blkN := uint32(math.MaxUint32), uint32(0), 0
					for _, s := range h.Series {
						th := metrics.GetTagsHolder()
						for _, t := range s.Tags {
							th.Insert(t.K, []byte(t.V), jp.String)
						}
						tsid, err := th.GetTSID([]byte(s.Name))
						if err != nil {
							continue
						}
						itr, found, err := tsbr.GetTimeSeriesIterator(tsid)
						if err != nil {
							o.Errs = append(o.Errs, fmt.Sprintf("block %d series %s: %v", blk, selector(s), err))
							continue
						}
						if !found {
							continue
						}
						for itr.Next() {
							t, v := itr.At()
							o.Series[selector(s)] = append(o.Series[selector(s)], pt{t, math.Float64bits(v)})
							blkN++
							if t < blkLo {
								blkLo = t
							}
							if t > blkHi {
								blkHi = t
							}
						}
					}
					// the query path finds a block through the block summaries of its segment (<segkey>.mbsu):
					// the block must be listed there under its own number with a time range covering its datapoints
					if blkN > 0 {
						sums, err := microreader.ReadMetricsBlockSummaries(segKey + ".mbsu")
						if err != nil {
							o.Meta = append(o.Meta, fmt.Sprintf("block summaries of %s unreadable: %v", filepath.Base(segKey), err))
						} else {
							listed, covered := []string{}, false
							for _, bs := range sums {
								listed = append(listed, fmt.Sprintf("%d:[%d,%d]", bs.Blknum, bs.LowTs, bs.HighTs))
								if bs.Blknum == blk && bs.LowTs <= blkLo && bs.HighTs >= blkHi {
									covered = true
								}
							}
							if !covered {
								o.Meta = append(o.Meta, fmt.Sprintf("block %d of segment %s holds %d datapoints in [%d,%d] but the segment's block summaries list %v",
									blk, filepath.Base(segKey), blkN, blkLo, blkHi, listed))
							}
						}
					}
				}
				tssr.Close()
			}
		} else {
			o.Errs = append(o.Errs, "no segment keys from the crashed run")
		}
		for k := range o.Series {
			ps := o.Series[k]
			sort.Slice(ps, func(a, b int) bool { return ps[a].T < ps[b].T })
		}
		out = append(out, o)
	case "restart":
		if err := query.PopulateMetricsMetadataForTheFile_TestOnly(meta.GetLocalMetricsMetaFName()); err != nil {
			fail("populate: " + err.Error())
		}
		for i := 0; i < 4; i++ {
			out = append(out, queryAll(h, "restart"))
		}
	}
	ob, _ := json.Marshal(out)
	_ = os.WriteFile(of, ob, 0o644)
	os.Exit(0)
}

// ---------- driver ----------
var e2eVals = []uint64{0, 0x3FF0000000000000, 0x4000000000000000, 0x4000000000000001,
	0x7FF0000000000000, 0xFFF0000000000000, 1, 0x000FFFFFFFFFFFFF, 0x7FEFFFFFFFFFFFFF, 0x400921FB54442D18, 0x3FB999999999999A, 0xC05EDD2F1A9FBE77}

// special-value stream: -0 and NaN payloads through the query path (which sums/averages per time bucket)
func specialHistory() e2eHistory {
	h := e2eHistory{T0: 1700000000}
	h.Series = []e2eSeries{{"spec", []tag{{"k", "negzero"}}}, {"spec", []tag{{"k", "nan"}}}}
	h.DPs = []e2eDP{{0, 1700000010, 0x8000000000000000, 0}, {0, 1700000020, 0x3FF0000000000000, 0},
		{1, 1700000010, 0x7FF8000000000001, 0}, {1, 1700000020, 0xFFF8000000000000, 0}, {1, 1700000030, 0x7FF0000000000001, 0}}
	return h
}

// many series of ONE metric, half of which only start after the first rotation (absent from the first
// rotated block): the block reader is asked for tsids that the block does not hold, in map order
func lateSeriesHistory(r *vhlib.Rng) e2eHistory {
	h := e2eHistory{T0: uint32(1700000000 + r.Intn(1000)*400), BlockOnly: true}
	n := r.Range(6, 10)
	for i := 0; i < n; i++ {
		h.Series = append(h.Series, e2eSeries{"late", []tag{{"host", fmt.Sprintf("h%02d", i)}}})
	}
	for si := range h.Series {
		late := si%2 == 1
		ts := r.Intn(10)
		for j := 0; j < 4; j++ {
			ts += r.Range(1, 20)
			ph := 0
			if late || j >= 2 {
				ph = 1
			}
			h.DPs = append(h.DPs, e2eDP{Series: si, T: h.T0 + uint32(ts), V: math.Float64bits(float64(si*100 + j)), Phase: ph})
		}
	}
	return h
}

func genHistory(r *vhlib.Rng, known bool) e2eHistory {
	h := e2eHistory{T0: uint32(1700000000 + r.Intn(1000)*400)}
	names := []string{"cpu", "mem_used", "req_total"}
	ns := r.Range(2, 5)
	seen := map[string]bool{}
	for len(h.Series) < ns {
		s := e2eSeries{Name: vhlib.Pick(r, names)}
		nt := r.Range(1, 3)
		used := map[string]bool{}
		for j := 0; j < nt; j++ {
			k := vhlib.Pick(r, []string{"host", "dc", "zone", "app"})
			if used[k] {
				continue
			}
			used[k] = true
			s.Tags = append(s.Tags, tag{k, fmt.Sprintf("v%d", r.Intn(4))})
		}
		sort.Slice(s.Tags, func(a, b int) bool { return s.Tags[a].K < s.Tags[b].K })
		key := selector(s)
		if seen[key] {
			continue
		}
		seen[key] = true
		h.Series = append(h.Series, s)
	}
	if known {
		// the confirmed identity collision: value runs into the next key
		h.Series = []e2eSeries{{"c", []tag{{"ab", "2"}, {"z", "1"}}}, {"c", []tag{{"b", "2"}, {"z", "1a"}}}}
	}
	for si := range h.Series {
		n := r.Range(1, 8)
		ts := r.Intn(20)
		v := vhlib.Pick(r, e2eVals)
		for j := 0; j < n; j++ {
			ts += r.Range(1, 25)
			if ts >= 320 {
				break
			}
			switch {
			case r.Chance(20):
			case r.Chance(40):
				v = xorWith(v, r.Intn(64), r.Intn(64), r)
				if v&0x7FF0000000000000 == 0x7FF0000000000000 && v&0x000FFFFFFFFFFFFF != 0 {
					v &^= 0x7FF0000000000000 // NaNs only in the special-value stream (float arithmetic in the result path)
				}
				if v == 0x8000000000000000 {
					v = 0 // -0 only in the special-value stream
				}
			default:
				v = vhlib.Pick(r, e2eVals)
			}
			ph := 0
			if j >= n/2 && r.Chance(60) {
				ph = 1
			}
			h.DPs = append(h.DPs, e2eDP{Series: si, T: h.T0 + uint32(ts), V: v, Phase: ph})
		}
	}
	// phases must be monotone per series (phase-1 points are ingested after phase-0 points)
	last := map[int]int{}
	for i := range h.DPs {
		if h.DPs[i].Phase < last[h.DPs[i].Series] {
			h.DPs[i].Phase = last[h.DPs[i].Series]
		}
		last[h.DPs[i].Series] = h.DPs[i].Phase
	}
	return h
}

func runWorker(args ...string) error {
	ctx, cancel := context.WithTimeout(context.Background(), 60*time.Second)
	defer cancel()
	cmd := exec.CommandContext(ctx, os.Args[0], append([]string{"worker"}, args...)...)
	cmd.Stderr = nil
	cmd.Stdout = nil
	return cmd.Run()
}

func expected(h e2eHistory, si int, maxPhase int) []pt {
	var ps []pt
	for _, d := range h.DPs {
		if d.Series == si && d.Phase <= maxPhase {
			ps = append(ps, pt{d.T, d.V})
		}
	}
	sort.Slice(ps, func(a, b int) bool { return ps[a].T < ps[b].T })
	return ps
}

// crash after a BLOCK rotation with datapoints of the next block only in the WAL: start-up replay must keep the
// rotated block's datapoints and restore the logged ones (read from the block files; the selector path needs the
// segment to be rotated first and is covered by the other stages)
func walCrashPart(cfg vhlib.Config, sum *vhlib.Summary, r *vhlib.Rng) {
	n := 3
	if cfg.Thorough() {
		n = 25
	}
	root := filepath.Join(cfg.Out, "walcrash")
	for hi := 0; hi < n; hi++ {
		h := genHistory(r.Fork(), false)
		if hi%2 == 1 {
			h = lateSeriesHistory(r.Fork())
		}
		dir := filepath.Join(root, fmt.Sprintf("h%d", hi))
		_ = os.MkdirAll(dir, 0o755)
		hf := filepath.Join(dir, "history.json")
		hb, _ := json.Marshal(h)
		_ = os.WriteFile(hf, hb, 0o644)
		data := filepath.Join(dir, "data")
		of := filepath.Join(dir, "wal.json")
		if err := runWorker("walrun", data, hf, of); err != nil {
			sum.Fail("metrics_worker_crash", fmt.Sprintf("worker walrun failed: %v", err), h)
			continue
		}
		if err := runWorker("walrecover", data, hf, of); err != nil {
			sum.Fail("metrics_worker_crash", fmt.Sprintf("worker walrecover failed: %v", err), h)
			continue
		}
		var o []e2eObs
		ob, _ := os.ReadFile(of)
		_ = json.Unmarshal(ob, &o)
		if len(o) != 1 || o[0].Stage == "harness" {
			es := "no output"
			if len(o) == 1 {
				es = strings.Join(o[0].Errs, "; ")
			}
			sum.HarnessError("walcrash: " + es)
			continue
		}
		for _, mp := range o[0].Meta {
			sum.Fail("metrics_wal_recovery_block_not_listed_in_block_summaries", mp+" (blocks are found by queries through these summaries)", map[string]interface{}{"history": h})
		}
		for si := range h.Series {
			want := expected(h, si, 1)
			key := selector(h.Series[si])
			got := o[0].Series[key]
			sum.Eval(fmt.Sprintf("walcrash/%d/%d", hi, si), len(want) > 0)
			sum.Count("walcrash/series")
			if !ptsEq(want, got) {
				sum.Fail("metrics_wal_recovery_after_block_rotation_mismatch", fmt.Sprintf("series %s: ingested %v (block rotated after phase 0, phase 1 in the WAL), on disk after start-up replay %v (errors %v)", key, want, got, o[0].Errs),
					map[string]interface{}{"history": h, "series": si})
			}
		}
	}
}

func e2ePart(cfg vhlib.Config, sum *vhlib.Summary, r *vhlib.Rng) {
	walCrashPart(cfg, sum, r.Fork())
	n := 8
	if cfg.Thorough() {
		n = 120
	}
	root := filepath.Join(cfg.Out, "e2e")
	for hi := 0; hi < n+2; hi++ {
		known := hi == n
		special := hi == n+1
		h := genHistory(r.Fork(), known)
		if special {
			h = specialHistory()
		}
		if !known && !special && hi%2 == 1 {
			h = lateSeriesHistory(r.Fork())
			sum.Count("e2e/late_series_history")
		}
		if !known && !special && hi%4 == 2 {
			h.AgedTree = true
			sum.Count("e2e/size_rotation_with_aged_tags_tree")
		}
		dir := filepath.Join(root, fmt.Sprintf("h%d", hi))
		_ = os.MkdirAll(dir, 0o755)
		hf := filepath.Join(dir, "history.json")
		hb, _ := json.Marshal(h)
		_ = os.WriteFile(hf, hb, 0o644)
		data := filepath.Join(dir, "data")
		var all []e2eObs
		for _, mode := range []string{"run", "restart"} {
			of := filepath.Join(dir, mode+".json")
			if err := runWorker(mode, data, hf, of); err != nil {
				sum.Fail("metrics_worker_crash", fmt.Sprintf("worker %s failed: %v", mode, err), h)
				continue
			}
			var o []e2eObs
			ob, _ := os.ReadFile(of)
			_ = json.Unmarshal(ob, &o)
			all = append(all, o...)
		}
		for _, o := range all {
			if o.Stage == "harness" {
				sum.HarnessError(strings.Join(o.Errs, "; "))
				continue
			}
			maxPhase := 1
			if o.Stage == "open" || o.Stage == "rotated" {
				maxPhase = 0
			}
			if strings.HasPrefix(o.Stage, "ingest") {
				sum.Fail("metrics_ingest_rejected", strings.Join(o.Errs, "; "), h)
				continue
			}
			wantSeries := map[string]bool{}
			for si := range h.Series {
				want := expected(h, si, maxPhase)
				key := selector(h.Series[si])
				if len(want) > 0 {
					wantSeries[key] = true
				}
				got := o.Series[key]
				sum.Eval(fmt.Sprintf("e2e/%d/%s/%d", hi, o.Stage, si), len(want) > 0)
				sum.Count("e2e/stage/" + o.Stage)
				if ptsEq(want, got) {
					continue
				}
				cls := "metrics_e2e_" + strings.ReplaceAll(o.Stage, "+", "_") + "_mismatch"
				if known {
					cls = "tsid_value_key_concat_collision"
				}
				if special {
					cls = "metrics_query_special_float_not_bit_identical"
				}
				sum.Fail(cls, fmt.Sprintf("stage %s series %s: ingested %v, returned %v (errors %v)", o.Stage, key, want, got, o.Errs),
					map[string]interface{}{"history": h, "stage": o.Stage, "series": si})
			}
			for k := range o.Series {
				if !wantSeries[k] {
					cls := "metrics_e2e_invented_series"
					if known {
						cls = "tsid_value_key_concat_collision"
					}
					sum.Fail(cls, fmt.Sprintf("stage %s: a series %s is reported that was never ingested", o.Stage, k), map[string]interface{}{"history": h, "stage": o.Stage})
				}
			}
			if len(o.Errs) > 0 && !known {
				sum.Fail("metrics_e2e_query_error", fmt.Sprintf("stage %s: %v", o.Stage, o.Errs), map[string]interface{}{"history": h, "stage": o.Stage})
			}
		}
		if hi < 2 {
			sum.Sample(map[string]interface{}{"part": "e2e", "series": len(h.Series), "datapoints": len(h.DPs), "selectors": selector(h.Series[0])})
		}
		_ = os.RemoveAll(data)
	}
	racePart(cfg, sum, r.Fork()) // after the older streams, so that their histories stay the same for a given seed
	retPart(cfg, sum, r.Fork())  // after the race stream, for the same reason
}

// c08: Gorilla series codec (bytes and decoded points vs model), TSID pre-image,
// and the end-to-end datapoint round trip through EncodeDatapoint / rotation / restart / query.
package main

import (
	"bytes"
	"fmt"
	"math"
	"math/bits"
	"os"
	"sort"
	"strings"

	jp "github.com/buger/jsonparser"
	"github.com/cespare/xxhash"
	"github.com/siglens/siglens/pkg/segment/writer/metrics"
	"github.com/siglens/siglens/pkg/segment/writer/metrics/compress"
	log "github.com/sirupsen/logrus"

	"verifharness/vhlib"
)

type pt struct {
	T uint32 `json:"t"`
	V uint64 `json:"v_bits"`
}

func realCodec(header uint32, pts []pt) (enc []byte, dec []pt, err error) {
	var buf bytes.Buffer
	c, finish, err := compress.NewCompressor(&buf, header)
	if err != nil {
		return nil, nil, err
	}
	for _, p := range pts {
		if _, err := c.Compress(p.T, math.Float64frombits(p.V)); err != nil {
			return nil, nil, err
		}
	}
	if err := finish(); err != nil {
		return nil, nil, err
	}
	enc = append([]byte{}, buf.Bytes()...)
	it, err := compress.NewDecompressIterator(bytes.NewReader(enc))
	if err != nil {
		return enc, nil, err
	}
	for it.Next() {
		t, v := it.At()
		dec = append(dec, pt{t, math.Float64bits(v)})
	}
	if it.Err() != nil {
		return enc, dec, it.Err()
	}
	return enc, dec, nil
}

func coqPts(ps []pt) string {
	items := make([]string, len(ps))
	for i, p := range ps {
		items[i] = fmt.Sprintf("(%d,%d)", p.T, p.V)
	}
	return vhlib.CoqList(items)
}

// value following prev with a chosen (leading, trailing) zero window of the XOR
func xorWith(prev uint64, lz, tz int, r *vhlib.Rng) uint64 {
	if lz+tz >= 64 {
		return prev
	}
	w := 64 - lz - tz
	var mid uint64
	if w == 64 {
		mid = r.U64() | (1 << 63) | 1
	} else {
		mid = (r.U64() & ((1 << uint(w)) - 1)) | (1 << uint(w-1)) | 1
	}
	return prev ^ (mid << uint(tz))
}

var dodEdges = []int64{0, 1, -1, 63, 64, 65, -62, -63, -64, 255, 256, 257, -254, -255, -256, 2047, 2048, 2049, -2046, -2047, -2048, 100000, -100000}
var valPool = []uint64{0, 0x8000000000000000, 0x3FF0000000000000, 0x4000000000000000, 0x4000000000000001,
	0x7FF0000000000000, 0x7FF8000000000001, 0xFFF8000000000000, 1, 0x000FFFFFFFFFFFFF, 0x7FEFFFFFFFFFFFFF, 0x400921FB54442D18, 0xFFFFFFFFFFFFFFFF}

func genSeries(r *vhlib.Rng, n int, style int) []pt {
	t := uint32(1700000000 + r.Intn(100000))
	if style == 3 {
		t = uint32(1 + r.Intn(1000))
	}
	v := vhlib.Pick(r, valPool)
	ps := []pt{{t, v}}
	delta := int64(r.Intn(60))
	for i := 1; i < n; i++ {
		switch {
		case r.Chance(55):
			delta += vhlib.Pick(r, dodEdges)
		case r.Chance(50):
			// keep delta
		default:
			delta = int64(r.Intn(7200)) - 100
		}
		nt := int64(t) + delta
		if nt <= 0 || nt >= 1<<31 {
			delta = 1
			nt = int64(t) + 1
			if nt >= 1<<31 {
				nt = 5
				delta = nt - int64(t)
			}
		}
		t = uint32(nt)
		switch {
		case r.Chance(15):
			// same value
		case r.Chance(45):
			v = xorWith(v, r.Intn(64), r.Intn(64), r)
		case r.Chance(50):
			v = vhlib.Pick(r, valPool)
		default:
			v = r.U64()
		}
		ps = append(ps, pt{t, v})
	}
	return ps
}

func ptsEq(a, b []pt) bool {
	if len(a) != len(b) {
		return false
	}
	for i := range a {
		if a[i] != b[i] {
			return false
		}
	}
	return true
}

func codecPart(cfg vhlib.Config, sum *vhlib.Summary, r *vhlib.Rng) {
	nser := 150
	if cfg.Thorough() {
		nser = 3000
	}
	var series [][]pt
	// deterministic sweep: every (leading, trailing) zero pair of the XOR, each as a 3-point series
	// (quick: pairs on a coarse grid + all pairs with lz>=30; thorough: all 64x64)
	for lz := 0; lz < 64; lz++ {
		for tz := 0; lz+tz < 64; tz++ {
			if !cfg.Thorough() && !(lz >= 30 && tz%7 == 0) && !(lz%9 == 0 && tz%11 == 0) {
				continue
			}
			base := uint64(0x4000000000000000)
			v1 := xorWith(base, lz, tz, r)
			v2 := xorWith(v1, lz, tz, r) // same window again: reuse branch
			series = append(series, []pt{{1700000000, base}, {1700000001, v1}, {1700000002, v2}})
			sum.Count("codec/lz_tz_sweep")
		}
	}
	for i := 0; i < nser; i++ {
		n := r.Range(1, 12)
		if r.Chance(10) {
			n = r.Range(30, 80)
		}
		series = append(series, genSeries(r, n, r.Intn(4)))
		sum.Count("codec/random_series")
	}
	series = append(series, []pt{}) // empty series: finish marker only
	shard, shardN := []string{}, 0
	flush := func() {
		if len(shard) == 0 {
			return
		}
		defs := "Definition cases : list (N * list (N * N) * list N * list (N * N)) := " + vhlib.CoqListNL(shard) + ".\n"
		sum.WriteCaseFile(cfg.Out, fmt.Sprintf("cases_codec_%d", shardN), "From SigM Require Import Base Bits Gorilla GorillaCheck.\n", defs, "check_all cases", len(shard))
		shard = nil
		shardN++
	}
	for _, ps := range series {
		header := uint32(1700000000)
		if len(ps) > 0 {
			header = ps[0].T // as initTimeSeries / AddSingleEntry do
		}
		enc, dec, err := realCodec(header, ps)
		key := fmt.Sprintf("%d/%s", header, coqPts(ps))
		sum.Eval(key, len(ps) >= 2)
		if err != nil {
			sum.Fail("gorilla_codec_error", "real codec returned error: "+err.Error(), map[string]interface{}{"header": header, "points": ps})
			continue
		}
		if !ptsEq(dec, ps) {
			cls := "gorilla_roundtrip_mismatch"
			// signature of the (fixed) 5-bit leading-zero defect: some XOR of consecutive values has >= 32 leading zeros
			for i := 1; i < len(ps); i++ {
				x := ps[i].V ^ ps[i-1].V
				if x != 0 && bits.LeadingZeros64(x) >= 32 {
					cls = "gorilla_xor_leading_zeros_ge_32"
				}
			}
			sum.Fail(cls, fmt.Sprintf("decode(encode(series)) != series: header=%d points=%v decoded=%v", header, ps, dec), map[string]interface{}{"header": header, "points": ps, "decoded": dec})
		}
		shard = append(shard, fmt.Sprintf("(%d, %s, %s, %s)", header, coqPts(ps), vhlib.CoqBytes(enc), coqPts(dec)))
		if len(shard) >= 400 {
			flush()
		}
		if len(ps) >= 2 && len(ps) <= 4 {
			sum.Sample(map[string]interface{}{"part": "codec", "header": header, "points": ps, "encoded_len": len(enc)})
		}
	}
	flush()
}

// ---------- TSID pre-image ----------
type tag struct{ K, V string }

func realTSID(name string, tags []tag) (uint64, []byte) {
	th := metrics.GetTagsHolder()
	for _, t := range tags {
		th.Insert(t.K, []byte(t.V), jp.String)
	}
	id, _ := th.GetTSID([]byte(name))
	return id, th.VerifPreimage()
}

var keyPool = []string{"a", "b", "ab", "ba", "z", "host", "dc", "k_1", "a_", "_a", "k__x", "é"}
var vPool = []string{"1", "2", "1a", "a", "", "x__y", "web-1", "_", "1ab", "b", "é", "v v"}
var mPool = []string{"c", "cpu.load", "m", "a__b", "http_requests_total", "x_"}

func tsidPart(cfg vhlib.Config, sum *vhlib.Summary, r *vhlib.Rng) {
	n := 300
	if cfg.Thorough() {
		n = 5000
	}
	var items []string
	seen := map[uint64]string{}
	canon := func(name string, tags []tag) string {
		t2 := append([]tag{}, tags...)
		sort.Slice(t2, func(i, j int) bool { return t2[i].K < t2[j].K })
		var sb strings.Builder
		sb.WriteString(fmt.Sprintf("%d:%s", len(name), name))
		for _, t := range t2 {
			sb.WriteString(fmt.Sprintf("|%d:%s=%d:%s", len(t.K), t.K, len(t.V), t.V))
		}
		return sb.String()
	}
	add := func(name string, tags []tag, stream string) {
		id, pre := realTSID(name, tags)
		if xxhash.Sum64(pre) != id {
			sum.HarnessError("xxhash(preimage) != tsid")
		}
		sum.Eval("tsid/"+canon(name, tags), len(tags) >= 1)
		sum.Count("tsid/" + stream)
		c := canon(name, tags)
		if prev, ok := seen[id]; ok && prev != c {
			cls := "tsid_preimage_collision_other"
			if len(tags) >= 2 || strings.Contains(c, "_") {
				cls = "tsid_value_key_concat_collision"
			}
			sum.Fail(cls, fmt.Sprintf("different series get the same TSID %d: %s vs %s", id, prev, c), map[string]interface{}{"name": name, "tags": tags, "other": prev})
		}
		seen[id] = c
		var ts []string
		for _, t := range tags {
			ts = append(ts, "("+vhlib.CoqStr(t.K)+", "+vhlib.CoqStr(t.V)+")")
		}
		items = append(items, fmt.Sprintf("(%s, %s, %s)", vhlib.CoqStr(name), vhlib.CoqList(ts), vhlib.CoqBytes(pre)))
	}
	for i := 0; i < n; i++ {
		name := vhlib.Pick(r, mPool)
		nt := r.Intn(4)
		var tags []tag
		used := map[string]bool{}
		for j := 0; j < nt; j++ {
			k := vhlib.Pick(r, keyPool)
			if used[k] {
				continue
			}
			used[k] = true
			// main stream: values that cannot run into the next key (no letters/underscore at the end),
			// so that the known concatenation defect is only exercised by the dedicated stream below
			v := fmt.Sprintf("%d", r.Intn(50))
			tags = append(tags, tag{k, v})
		}
		add(name, tags, "main")
		if len(tags) >= 2 && r.Chance(50) {
			// same set in another insertion order must give the same id
			t2 := append([]tag{}, tags...)
			t2[0], t2[len(t2)-1] = t2[len(t2)-1], t2[0]
			id1, _ := realTSID(name, tags)
			id2, _ := realTSID(name, t2)
			if id1 != id2 {
				sum.Fail("tsid_depends_on_tag_order", fmt.Sprintf("%v vs %v", tags, t2), map[string]interface{}{"name": name, "tags": tags})
			}
		}
	}
	// known-class stream: value/next-key concatenation without separator
	add("c", []tag{{"z", "1"}, {"ab", "2"}}, "known_concat")
	add("c", []tag{{"z", "1a"}, {"b", "2"}}, "known_concat")
	for i := 0; i < 20; i++ {
		add(vhlib.Pick(r, mPool), []tag{{vhlib.Pick(r, keyPool), vhlib.Pick(r, vPool)}, {vhlib.Pick(r, keyPool) + "q", vhlib.Pick(r, vPool)}}, "known_concat")
	}
	defs := "Definition cases : list (list N * list (list N * list N) * list N) := " + vhlib.CoqListNL(items) + ".\n"
	sum.WriteCaseFile(cfg.Out, "cases_tsid", "From SigM Require Import Base Tsid.\n", defs, "check_tsid cases", len(items))
}

func main() {
	log.SetLevel(log.PanicLevel)
	log.SetOutput(os.Stderr)
	if len(os.Args) > 1 && os.Args[1] == "worker" {
		workerMain(os.Args[2:])
		return
	}
	cfg := vhlib.ParseFlags()
	sum := vhlib.NewSummary("codec: one case = one series (header = first timestamp, 1-80 points; timestamps in [1,2^31) with delta-of-delta at every bucket edge, values from a boundary pool, random bits, and XORs with chosen leading/trailing zero windows incl. the full (lz,tz) sweep); non-trivial = at least 2 points; " +
		"tsid: one case = (metric name, tag list in insertion order); e2e: one case = one datapoint of a multi-series history through EncodeDatapoint, block/segment rotation, restart and a selector query; race: one case = one series of a multi-phase history at one stage (selector queries whose search requests are built, then a block / segment / segment+tags-tree / forced rotation and optionally the next phase of ingest, then executed; plus the same queries at rest); distinct by content")
	r := vhlib.NewRng(cfg.Seed)
	codecPart(cfg, sum, r.Fork())
	tsidPart(cfg, sum, r.Fork())
	e2ePart(cfg, sum, r.Fork())
	sum.Write(cfg.Out)
}

package main

// A selector query caught by a rotation.  A metrics query is executed in two steps (pkg/segment/query/metricsquery.go,
// ApplyMetricsQuery): getAllRequestsWithinTimeRange decides which blocks of which segments have to be read (the flushed
// ones and the one still in memory), applyMetricsOperatorOnSegments reads them (search.RawSearchMetricsSegment per
// request).  The ingest side rotates blocks and segments on its own (timeBasedRotate, timeBasedMetricsFlush), so a
// rotation can land between the two steps.  Here the two steps are called separately, through the same exported
// functions ApplyMetricsQuery uses, with the rotation forced in between: plan -> rotate [-> ingest] -> execute.

import (
	"bytes"
	"encoding/json"
	"fmt"
	"math"
	"os"
	"path/filepath"
	"sort"
	"strings"

	"github.com/cespare/xxhash"
	dtu "github.com/siglens/siglens/pkg/common/dtypeutils"
	"github.com/siglens/siglens/pkg/config"
	"github.com/siglens/siglens/pkg/integrations/prometheus/promql"
	segmetadata "github.com/siglens/siglens/pkg/segment/metadata"
	"github.com/siglens/siglens/pkg/segment/query"
	"github.com/siglens/siglens/pkg/segment/query/summary"
	"github.com/siglens/siglens/pkg/segment/reader/metrics/tagstree"
	"github.com/siglens/siglens/pkg/segment/results/mresults"
	tsidtracker "github.com/siglens/siglens/pkg/segment/results/mresults/tsid"
	"github.com/siglens/siglens/pkg/segment/search"
	"github.com/siglens/siglens/pkg/segment/structs"
	sutils "github.com/siglens/siglens/pkg/segment/utils"
	"github.com/siglens/siglens/pkg/segment/writer/metrics"
	"github.com/siglens/siglens/pkg/segment/writer/metrics/meta"
	"github.com/siglens/siglens/pkg/utils"

	"verifharness/vhlib"
)

type plannedQuery struct {
	q    string
	mq   *structs.MetricsQuery
	tr   *dtu.MetricsTimeRange
	ftr  *dtu.MetricsTimeRange
	qs   *summary.QuerySummary
	res  *mresults.MetricsResult
	reqs map[string][]*structs.MetricsSearchRequest
	qid  uint64
	plan []string // what the plan holds, for the failure message
}

// step 1 of ApplyMetricsQuery: the search requests of this query are built from the store as it is now
func planQuery(q string, t0 uint32) (*plannedQuery, error) {
	reqs, _, _, err := promql.ConvertPromQLToMetricsQuery(q, t0, t0+330, 0)
	if err != nil || len(reqs) == 0 {
		return nil, fmt.Errorf("parse %s: %v", q, err)
	}
	qid++
	p := &plannedQuery{q: q, mq: &reqs[0].MetricsQuery, tr: &reqs[0].TimeRange, qid: qid}
	p.qs = summary.InitQuerySummary(summary.METRICS, p.qid)
	p.res = mresults.InitMetricResults(p.mq, p.qid)
	p.ftr = &dtu.MetricsTimeRange{StartEpochSec: p.tr.StartEpochSec, EndEpochSec: p.tr.EndEpochSec}
	if p.mq.LookBackToInclude > 0 {
		p.ftr.StartEpochSec = p.tr.StartEpochSec - uint32(p.mq.LookBackToInclude)
	}
	rot, err := segmetadata.GetMetricsSegmentRequests(p.ftr, p.qs, utils.Some(p.mq.OrgId))
	if err != nil {
		return nil, err
	}
	unrot, err := metrics.GetUnrotatedMetricsSegmentRequests(p.ftr, p.qs, utils.Some(p.mq.OrgId))
	if err != nil {
		return nil, err
	}
	for k, v := range unrot { // mergeMetricSearchRequests
		rot[k] = append(rot[k], v...)
	}
	p.reqs = rot
	allTagKeys := map[string]bool{}
	for _, rs := range p.reqs {
		for _, r := range rs {
			for tk := range r.AllTagKeys {
				allTagKeys[tk] = true
			}
			var bl, ub []int
			for b := range r.BlocksToSearch {
				bl = append(bl, int(b))
			}
			for b := range r.UnrotatedBlkToSearch {
				ub = append(ub, int(b))
			}
			sort.Ints(bl)
			sort.Ints(ub)
			kind := "closed segment"
			if r.QueryType == structs.UNROTATED_METRICS_SEARCH {
				kind = "open segment"
			}
			p.plan = append(p.plan, fmt.Sprintf("%s: flushed blocks %v, in-memory block %v", kind, bl, ub))
		}
	}
	sort.Strings(p.plan)
	if p.mq.SelectAllSeries {
		for _, v := range p.mq.TagsFilters {
			delete(allTagKeys, v.TagKey)
		}
		var ks []string
		for tkey, present := range allTagKeys {
			if present {
				ks = append(ks, tkey)
			}
		}
		sort.Strings(ks)
		for _, tkey := range ks {
			p.mq.TagsFilters = append(p.mq.TagsFilters, &structs.TagsFilter{
				TagKey:          tkey,
				RawTagValue:     tagstree.STAR,
				HashTagValue:    xxhash.Sum64String(tagstree.STAR),
				LogicalOperator: sutils.And,
				TagOperator:     sutils.Equal,
			})
		}
	}
	p.mq.ReorderTagFilters()
	if p.mq.SubsequentAggs != nil {
		p.mq.FirstAggregator = *p.mq.SubsequentAggs.AggregatorBlock
		p.mq.SubsequentAggs = p.mq.SubsequentAggs.Next
	}
	return p, nil
}

// step 2 of ApplyMetricsQuery: the requests are executed against the store as it is now
func (p *plannedQuery) execute(o *e2eObs) {
	buf := bytes.NewBuffer(make([]byte, 0, 50*1024))
	for tthBaseDir, rs := range p.reqs { // applyMetricsOperatorOnSegments
		tr, err := tsidtracker.InitTSIDTracker(len(p.mq.TagsFilters))
		if err != nil {
			p.res.AddError(err)
			continue
		}
		ttReq := rs[0] // the open segment's request of the directory when there is one (in-memory tags trees)
		for _, r := range rs {
			if r.Mid != "" {
				ttReq = r
				break
			}
		}
		if err := tagstree.SearchAndInsertTSIDs(p.mq, tr, []string{p.mq.MetricName}, tthBaseDir, ttReq, p.qid); err != nil {
			p.res.AddError(err)
			continue
		}
		for _, r := range rs {
			search.RawSearchMetricsSegment(p.mq, tr, r, p.res, buf, p.ftr, p.qid, p.qs)
		}
	}
	par := int(config.GetParallelism()) * 2
	if errs := p.res.DownsampleResults(p.mq.Downsampler, par); errs != nil {
		for _, e := range errs {
			p.res.AddError(e)
		}
	} else {
		p.res.MetricName = p.mq.MetricName
		if errs := p.res.AggregateResults(par, p.mq.FirstAggregator); errs != nil {
			for _, e := range errs {
				p.res.AddError(e)
			}
		} else {
			query.ProcessMQueryAggsChain(p.mq, p.tr, p.res, p.qid)
		}
	}
	for _, e := range p.res.ErrList {
		o.Errs = append(o.Errs, fmt.Sprintf("%s: %v", p.q, e))
	}
	for k, m := range p.res.Results {
		var pts []pt
		for t, v := range m {
			pts = append(pts, pt{t, math.Float64bits(v)})
		}
		sort.Slice(pts, func(a, b int) bool { return pts[a].T < pts[b].T })
		c := canonID(k)
		if _, dup := o.Series[c]; dup {
			o.Errs = append(o.Errs, "series returned twice: "+c)
		}
		o.Series[c] = pts
	}
}

func metricNames(h e2eHistory) []string {
	names := map[string]bool{}
	for _, s := range h.Series {
		names[s.Name] = true
	}
	var nl []string
	for n := range names {
		nl = append(nl, n)
	}
	sort.Strings(nl)
	return nl
}

// one selector query per metric name: all planned on the store as it is now, then `between` runs (a rotation, possibly
// followed by more ingest), then all executed.  between == nil: the two steps back to back (control).
func racedQueryAll(h e2eHistory, stage string, between func() error) (e2eObs, error) {
	o := e2eObs{Stage: stage, Series: map[string][]pt{}}
	var ps []*plannedQuery
	for _, q := range metricNames(h) {
		p, err := planQuery(q, h.T0)
		if err != nil {
			o.Errs = append(o.Errs, err.Error())
			continue
		}
		ps = append(ps, p)
		for _, l := range p.plan {
			o.Meta = append(o.Meta, q+": "+l)
		}
	}
	if between != nil {
		if err := between(); err != nil {
			return o, err
		}
	}
	for _, p := range ps {
		p.execute(&o)
	}
	return o, nil
}

// the size-based rotation of CheckAndRotate(false): the segment is full, block and segment are closed, the next
// segment starts with block 0 (the tags tree holder is younger than a day and stays)
func rotateBySize() error {
	old := sutils.MAX_BYTES_METRICS_SEGMENT
	sutils.MAX_BYTES_METRICS_SEGMENT = 1
	defer func() { sutils.MAX_BYTES_METRICS_SEGMENT = old }()
	for _, mSeg := range metrics.GetAllMetricsSegments() {
		if err := mSeg.CheckAndRotate(false); err != nil {
			return err
		}
	}
	return query.PopulateMetricsMetadataForTheFile_TestOnly(meta.GetLocalMetricsMetaFName())
}

// the forced rotation of shutdown / ForceFlushMetricsBlock, without dropping the in-memory store
func rotateForcedKeepStore() error {
	for _, mSeg := range metrics.GetAllMetricsSegments() {
		if err := mSeg.CheckAndRotate(true); err != nil {
			return err
		}
	}
	return nil
}

func rotateKind(kind string) error {
	switch kind {
	case "block":
		return rotateBlocksOnly()
	case "segment":
		return rotateBySize()
	case "segment_and_tags_tree":
		return rotateBySizeWithAgedTree()
	case "forced":
		return rotateForcedKeepStore()
	}
	return fmt.Errorf("unknown rotation %q", kind)
}

// worker: phases 0..len(Rot); after phase i a selector query per metric is planned, rotation Rot[i] happens (and, with
// Late[i], phase i+1 is accepted), then the planned queries are executed.  Around it: the same queries at rest, through
// ExecuteMetricsQuery ("quiet") and through the two separate steps back to back ("twostep", the control of this stream).
func raceRun(h e2eHistory, fail func(string)) []e2eObs {
	var out []e2eObs
	ingested := -1
	ing := func(ph int) {
		if ph <= ingested {
			return
		}
		ingested = ph
		if e := ingest(h, ph); len(e) > 0 {
			out = append(out, e2eObs{Stage: fmt.Sprintf("ingest%d", ph), Errs: e})
		}
	}
	for i := 0; i <= len(h.Rot); i++ {
		ing(i)
		out = append(out, queryAll(h, fmt.Sprintf("quiet/%d", i)))
		out = append(out, queryAllBy(h, fmt.Sprintf("regex/%d", i), true))
		c, _ := racedQueryAll(h, fmt.Sprintf("twostep/%d", i), nil)
		out = append(out, c)
		if h.TreeFlush[i] {
			// the periodic tags-tree flush of a server (once a minute) happens here in half of the phases
			if err := metrics.VerifFlushDirtyTagsTrees(); err != nil {
				fail("tags tree flush: " + err.Error())
			}
			out = append(out, queryAll(h, fmt.Sprintf("flushed/%d", i)))
		}
		kind, late := "forced", false
		if i < len(h.Rot) {
			kind, late = h.Rot[i], h.Late[i]
		}
		o, err := racedQueryAll(h, fmt.Sprintf("race/%d/%s", i, kind), func() error {
			if err := rotateKind(kind); err != nil {
				return err
			}
			if late {
				ing(i + 1)
			}
			return nil
		})
		if err != nil {
			fail("rotation " + kind + ": " + err.Error())
		}
		out = append(out, o)
	}
	// which shard (MetricsSegment) a metric name goes to: getMetricsSegment, xxhash(name) mod number of shards
	sh := e2eObs{Stage: "shards"}
	if ns := uint64(len(metrics.GetAllMetricsSegments())); ns > 0 {
		for _, n := range metricNames(h) {
			sh.Meta = append(sh.Meta, fmt.Sprintf("%s=%d", n, xxhash.Sum64String(n)%ns))
		}
	}
	out = append(out, sh)
	metrics.ResetMetricsSegStore_TestOnly()
	if err := query.PopulateMetricsMetadataForTheFile_TestOnly(meta.GetLocalMetricsMetaFName()); err != nil {
		fail("populate: " + err.Error())
	}
	out = append(out, queryAll(h, fmt.Sprintf("quiet/%d", len(h.Rot)+1)))
	out = append(out, queryAllBy(h, fmt.Sprintf("regex/%d", len(h.Rot)+1), true))
	return out
}

// ---------- driver ----------
var raceKinds = []string{"block", "block", "segment", "segment_and_tags_tree"}

func genRaceHistory(r *vhlib.Rng, hi int) e2eHistory {
	h := genHistory(r.Fork(), false)
	if hi%3 == 2 {
		h = lateSeriesHistory(r.Fork())
		h.BlockOnly = false
	}
	// more metric names than shards (a metric goes to shard xxhash(name) mod #shards): several metrics share a shard, its
	// segments and its tags tree directory, and start reporting in different phases
	for i := range h.Series {
		h.Series[i].Name += vhlib.Pick(r, []string{"", "", "_a", "_b", "_c"})
	}
	nrot := r.Range(1, 3)
	for i := 0; i < nrot; i++ {
		h.Rot = append(h.Rot, vhlib.Pick(r, raceKinds))
		h.Late = append(h.Late, r.Chance(40))
	}
	if hi < len(raceKinds) { // every kind is the first rotation of some history of every run
		h.Rot[0] = raceKinds[(hi+1)%len(raceKinds)]
	}
	// phases 0..nrot, monotone per series in ingest order
	cur := map[int]int{}
	for i := range h.DPs {
		s := h.DPs[i].Series
		if _, ok := cur[s]; !ok {
			cur[s] = 0
			if r.Chance(15) {
				cur[s] = r.Intn(nrot + 1) // a series that starts reporting later
			}
		} else if r.Chance(45) && cur[s] < nrot {
			cur[s]++
		}
		h.DPs[i].Phase = cur[s]
	}
	for i := 0; i <= nrot; i++ {
		h.TreeFlush = append(h.TreeFlush, i > 0 && r.Chance(50))
	}
	return h
}

// What the operations of a history do to ONE shard, as far as the oracle needs it to name the class of a failure:
// segment number, block number, the phases in the in-memory block (an empty block / an empty segment does not rotate),
// and the state of the shard's tags tree holder: whether its directory also belongs to a closed segment (then the
// series of a query are looked up in the directory's FILES, see the known finding), up to which phase the files are
// current, whether the holder counts as older than 24 h.
type shardSim struct {
	seg, cur          int
	memPhases         []int
	segHasData        bool
	aged              bool
	closedUnderHolder bool
	treeThrough       int
	dirs              [][]*simSeg // tags tree directories of the shard, each with its segments; the last segment of the last directory is the open one
}

// a segment of the shard: the metric names it holds (its .mnm / mNamesMap) and the phases ingested into it
type simSeg struct {
	names  map[string]bool
	phases map[int]bool
}

func newSimSeg() *simSeg { return &simSeg{map[string]bool{}, map[int]bool{}} }

func (s *shardSim) ingest(ph, n int, names []string) {
	if n > 0 {
		s.memPhases = append(s.memPhases, ph)
		s.segHasData = true
		d := s.dirs[len(s.dirs)-1]
		open := d[len(d)-1]
		open.phases[ph] = true
		for _, nm := range names {
			open.names[nm] = true
		}
	}
}

// A regular expression on the metric name is matched against the names of ONE segment of a tags tree directory
// (getRegexMatchedMetricNames(allMSearchReqs[0], ...)): the datapoints of metric `name` accepted in phase ph are at
// risk when their segment shares its directory with a segment that does not hold that name.
func (s *shardSim) regexNameAtRisk(name string, ph int) bool {
	for _, d := range s.dirs {
		in := false
		for _, sg := range d {
			in = in || (sg.phases[ph] && sg.names[name])
		}
		if !in {
			continue
		}
		for _, sg := range d {
			if len(sg.phases) > 0 && !sg.names[name] {
				return true
			}
		}
	}
	return false
}
func (s *shardSim) rot(kind string, ph int) {
	if kind == "segment_and_tags_tree" {
		s.aged = true // VerifAgeTagsTreeHolders ages every holder, also of a shard that has nothing to rotate now
	}
	if len(s.memPhases) > 0 {
		s.cur++
		s.memPhases = nil
	}
	if kind == "block" || !s.segHasData {
		return
	}
	s.treeThrough = ph // rotateSegment is followed by flushTagsTree
	if kind == "forced" {
		return
	}
	s.seg++
	s.cur = 0
	s.segHasData = false
	if s.aged {
		s.aged, s.closedUnderHolder = false, false // rotateTagsTree: new directory, no closed segment under it yet
		s.dirs = append(s.dirs, []*simSeg{newSimSeg()})
	} else {
		s.closedUnderHolder = true
		s.dirs[len(s.dirs)-1] = append(s.dirs[len(s.dirs)-1], newSimSeg())
	}
}

// state of shard sh when the queries of `stage` of phase ph are planned
func simAtPlan(h e2eHistory, ids [][][]int, sh int, stage string, ph int) *shardSim {
	sim := &shardSim{treeThrough: -1, dirs: [][]*simSeg{{newSimSeg()}}}
	namesOf := func(l []int) []string {
		var ns []string
		for _, i := range l {
			ns = append(ns, h.Series[h.DPs[i].Series].Name)
		}
		return ns
	}
	last := ph
	if last > len(h.Rot) {
		last = len(h.Rot)
	}
	for j := 0; j <= last; j++ {
		sim.ingest(j, len(ids[j][sh]), namesOf(ids[j][sh]))
		if h.TreeFlush[j] && (j < ph || stage == "flushed" || stage == "race") {
			sim.treeThrough = j
		}
		if j < ph {
			k := "forced"
			if j < len(h.Rot) {
				k = h.Rot[j]
			}
			sim.rot(k, j)
		}
	}
	return sim
}

func ptSet(ps []pt) map[pt]bool {
	m := map[pt]bool{}
	for _, p := range ps {
		m[p] = true
	}
	return m
}

func coqNats(xs []int) string {
	it := make([]string, len(xs))
	for i, x := range xs {
		it[i] = fmt.Sprintf("%d", x)
	}
	return vhlib.CoqList(it)
}

func coqOp(kind string) string {
	switch kind {
	case "block":
		return "RotBlock"
	case "forced":
		return "RotForced"
	}
	return "RotSeg" // with or without the tags tree holder
}

func racePart(cfg vhlib.Config, sum *vhlib.Summary, r *vhlib.Rng) {
	n := 6
	if cfg.Thorough() {
		n = 80
	}
	root := filepath.Join(cfg.Out, "race")
	var cases []string
	for hi := 0; hi < n; hi++ {
		h := genRaceHistory(r.Fork(), hi)
		dir := filepath.Join(root, fmt.Sprintf("h%d", hi))
		_ = os.MkdirAll(dir, 0o755)
		hf := filepath.Join(dir, "history.json")
		hb, _ := json.Marshal(h)
		_ = os.WriteFile(hf, hb, 0o644)
		data := filepath.Join(dir, "data")
		of := filepath.Join(dir, "race.json")
		if err := runWorker("racerun", data, hf, of); err != nil {
			sum.Fail("metrics_worker_crash", fmt.Sprintf("worker racerun failed: %v", err), h)
			continue
		}
		var obs []e2eObs
		ob, _ := os.ReadFile(of)
		_ = json.Unmarshal(ob, &obs)
		// shard of every series; per shard the rotation state is independent (an empty block / segment does not rotate)
		shardOf := map[string]int{}
		nshards := 1
		for _, o := range obs {
			if o.Stage == "shards" {
				for _, m := range o.Meta {
					var idx int
					j := strings.LastIndex(m, "=")
					_, _ = fmt.Sscanf(m[j+1:], "%d", &idx)
					shardOf[m[:j]] = idx
					if idx+1 > nshards {
						nshards = idx + 1
					}
				}
			}
		}
		// datapoint ids (index in h.DPs) for the model, per phase and shard; first phase of every series
		idOf := map[string]int{}
		ids := make([][][]int, len(h.Rot)+2)
		for ph := range ids {
			ids[ph] = make([][]int, nshards)
		}
		firstPhase := map[int]int{}
		for i, d := range h.DPs {
			idOf[fmt.Sprintf("%s/%d/%d", selector(h.Series[d.Series]), d.T, d.V)] = i
			sh := shardOf[h.Series[d.Series].Name]
			ids[d.Phase][sh] = append(ids[d.Phase][sh], i)
			if _, ok := firstPhase[d.Series]; !ok {
				firstPhase[d.Series] = d.Phase
			}
		}
		quiet := map[int]e2eObs{}
		for _, o := range obs {
			if o.Stage == "shards" {
				continue
			}
			if o.Stage == "harness" {
				sum.HarnessError("race: " + strings.Join(o.Errs, "; "))
				continue
			}
			if strings.HasPrefix(o.Stage, "ingest") {
				sum.Fail("metrics_ingest_rejected", strings.Join(o.Errs, "; "), h)
				continue
			}
			parts := strings.Split(o.Stage, "/")
			var ph int
			_, _ = fmt.Sscanf(parts[1], "%d", &ph)
			lo, up, kind, late := ph, ph, "", false
			if lo > len(h.Rot) {
				lo, up = len(h.Rot), len(h.Rot)
			}
			switch parts[0] {
			case "quiet":
				quiet[ph] = o
			case "race":
				kind = parts[2]
				if ph < len(h.Rot) && h.Late[ph] {
					up, late = ph+1, true
				}
				sum.Count("race/rotation_during_query/" + kind)
				if late {
					sum.Count("race/ingest_between_rotation_and_execution")
				}
			case "flushed":
				sum.Count("race/query_after_periodic_tags_tree_flush")
			case "regex":
				sum.Count("race/regex_on_metric_name_at_rest")
			}
			// per shard: (1) is the planned in-memory block's number the shard's number again at execution, in another
			// segment (the fix-up of SearchUnrotatedMetricsBlock compares block numbers only)?  (2) are the series looked up
			// in tags tree FILES that are older than some series?
			reusedNumber := make([]map[int]bool, nshards)
			filesOnly := make([]bool, nshards)
			treeThrough := make([]int, nshards)
			sims := make([]*shardSim, nshards)
			for sh := 0; sh < nshards; sh++ {
				sim := simAtPlan(h, ids, sh, parts[0], ph)
				sims[sh] = sim
				filesOnly[sh] = sim.closedUnderHolder
				if parts[0] == "race" {
					seg0, k, memPh := sim.seg, sim.cur, sim.memPhases
					sim.rot(kind, ph)
					if len(memPh) > 0 && sim.seg != seg0 && sim.cur == k {
						reusedNumber[sh] = map[int]bool{}
						for _, p := range memPh {
							reusedNumber[sh][p] = true
						}
						sum.Count("race/planned_block_number_reached_again_in_next_segment")
					}
				}
				treeThrough[sh] = sim.treeThrough
			}
			gotIDs := make([][]int, nshards)
			wantSeries := map[string]bool{}
			for si := range h.Series {
				key := selector(h.Series[si])
				sh := shardOf[h.Series[si].Name]
				must, may := expected(h, si, lo), ptSet(expected(h, si, up))
				if len(may) > 0 {
					wantSeries[key] = true
				}
				got := o.Series[key]
				gs := ptSet(got)
				sum.Eval(fmt.Sprintf("race/%d/%s/%d", hi, o.Stage, si), len(must) > 0)
				var lost, extra []pt
				for _, p := range must {
					if !gs[p] {
						lost = append(lost, p)
					}
				}
				for _, p := range got {
					if !may[p] {
						extra = append(extra, p)
					}
					if id, ok := idOf[fmt.Sprintf("%s/%d/%d", key, p.T, p.V)]; ok {
						gotIDs[sh] = append(gotIDs[sh], id)
					} else {
						gotIDs[sh] = append(gotIDs[sh], 4000000000)
					}
				}
				notInTreeFiles := filesOnly[sh] && firstPhase[si] > treeThrough[sh] && parts[0] != "flushed" && parts[0] != "regex"
				if notInTreeFiles {
					sum.Count("race/series_newer_than_the_tags_tree_files_of_its_directory")
				}
				if len(lost) == 0 && len(extra) == 0 && len(gs) == len(got) {
					continue
				}
				var cls, what string
				switch parts[0] {
				case "quiet", "flushed":
					cls, what = "metrics_e2e_multi_rotation_mismatch", fmt.Sprintf("query at rest after phase %d of rotations %v", ph, h.Rot)
					if parts[0] == "flushed" {
						what += " and a periodic tags-tree flush"
					}
				case "regex":
					cls, what = "metrics_regex_name_query_mismatch", fmt.Sprintf("query {__name__=~%q} at rest after phase %d of rotations %v", h.Series[si].Name, ph, h.Rot)
					explained := len(lost) > 0 && len(extra) == 0
					for _, p := range lost {
						for _, d := range h.DPs {
							if d.Series == si && d.T == p.T && !sims[sh].regexNameAtRisk(h.Series[si].Name, d.Phase) {
								explained = false
							}
						}
					}
					if explained {
						cls = "metrics_regex_name_selector_matches_names_of_one_segment_per_tags_tree_dir"
						what += "; the missing datapoints are in a segment that shares its tags tree directory with a segment that does not hold this metric name"
					}
				case "twostep":
					cls, what = "metrics_two_step_query_mismatch", fmt.Sprintf("requests built and executed back to back after phase %d of rotations %v", ph, h.Rot)
				default:
					what = fmt.Sprintf("requests built after phase %d (%v), then %s rotation", ph, o.Meta, kind)
					if late {
						what += fmt.Sprintf(", then phase %d accepted", ph+1)
					}
					what += ", then executed"
					cls = "metrics_query_racing_" + kind + "_rotation_loses_datapoints"
					if len(lost) == 0 {
						cls = "metrics_query_racing_" + kind + "_rotation_wrong_datapoints"
					} else if ru := reusedNumber[sh]; ru != nil && len(extra) == 0 {
						explained := true
						for _, p := range lost {
							for _, d := range h.DPs {
								if d.Series == si && d.T == p.T && !ru[d.Phase] {
									explained = false
								}
							}
						}
						if explained {
							cls = "metrics_query_racing_segment_rotation_block_number_reused"
							what += "; the shard is at the planned in-memory block's number again, in the next segment"
						}
					}
				}
				if notInTreeFiles && len(got) == 0 {
					cls = "metrics_new_series_not_found_while_tags_tree_dir_has_closed_segment"
					what += fmt.Sprintf("; the series first reported in phase %d, the tags tree directory of its shard also belongs to a closed segment and its files were last written after phase %d", firstPhase[si], treeThrough[sh])
				}
				sum.Fail(cls, fmt.Sprintf("%s: series %s: accepted before the query %v, returned %v (missing %v, not accepted %v, errors %v)", what, key, must, got, lost, extra, o.Errs),
					map[string]interface{}{"history": h, "stage": o.Stage, "series": si})
			}
			for k, kpts := range o.Series {
				if wantSeries[k] {
					continue
				}
				// a series that started reporting after the requests were built (it may or may not be returned) can come back
				// under the label keys the query knew when it was built (SelectAllSeries adds one filter per known key)
				startedLater := false
				if late {
					for si, sr := range h.Series {
						if firstPhase[si] != ph+1 {
							continue
						}
						may := ptSet(expected(h, si, up))
						for mask := 0; mask < 1<<len(sr.Tags) && !startedLater; mask++ {
							sub := e2eSeries{Name: sr.Name}
							for ti, tg := range sr.Tags {
								if mask&(1<<ti) != 0 {
									sub.Tags = append(sub.Tags, tg)
								}
							}
							if selector(sub) != k {
								continue
							}
							startedLater = true
							for _, p := range kpts {
								startedLater = startedLater && may[p]
							}
						}
					}
				}
				if startedLater {
					sum.Count("race/series_started_after_the_plan_reported_under_plan_time_label_keys")
					continue
				}
				sum.Fail("metrics_e2e_invented_series", fmt.Sprintf("stage %s: a series %s is reported that was never ingested", o.Stage, k), map[string]interface{}{"history": h, "stage": o.Stage})
			}
			if len(o.Errs) > 0 {
				sum.Fail("metrics_e2e_query_error", fmt.Sprintf("stage %s: %v", o.Stage, o.Errs), map[string]interface{}{"history": h, "stage": o.Stage})
			}
			if parts[0] == "twostep" {
				// control of the stream itself: the two separate steps at rest must give what ExecuteMetricsQuery gives
				q := quiet[ph]
				same := len(q.Series) == len(o.Series)
				for k, v := range q.Series {
					same = same && ptsEq(v, o.Series[k])
				}
				if !same {
					sum.HarnessError(fmt.Sprintf("race: the two-step query differs from ExecuteMetricsQuery at rest (history %d stage %s): %v vs %v", hi, o.Stage, o.Series, q.Series))
				}
			}
			if parts[0] == "quiet" || parts[0] == "flushed" || parts[0] == "regex" || ph > len(h.Rot) {
				continue
			}
			// model cases, one per shard: ops before the plan, ops between plan and execution, observed datapoint ids
			for sh := 0; sh < nshards; sh++ {
				var before, between []string
				holds := len(gotIDs[sh])
				for j := range ids {
					holds += len(ids[j][sh])
				}
				if holds == 0 {
					continue // a shard that never gets a datapoint in this history
				}
				for j := 0; j <= ph; j++ {
					before = append(before, "Ingest "+coqNats(ids[j][sh]))
					if j < ph {
						before = append(before, coqOp(h.Rot[j]))
					}
				}
				if parts[0] == "race" {
					between = append(between, coqOp(kind))
					if late {
						between = append(between, "Ingest "+coqNats(ids[ph+1][sh]))
					}
				}
				sort.Ints(gotIDs[sh])
				cases = append(cases, fmt.Sprintf("(%s, %s, %s)", vhlib.CoqList(before), vhlib.CoqList(between), coqNats(gotIDs[sh])))
				sum.Count("race/model_case_per_shard")
			}
		}
		if hi < 2 {
			sum.Sample(map[string]interface{}{"part": "race", "series": len(h.Series), "datapoints": len(h.DPs), "rotations_during_queries": h.Rot, "ingest_before_execution": h.Late})
		}
		_ = os.RemoveAll(data)
	}
	// shards of at most 400 cases
	for i, k := 0, 0; i < len(cases); i, k = i+400, k+1 {
		j := i + 400
		if j > len(cases) {
			j = len(cases)
		}
		name := "cases_race"
		if k > 0 {
			name = fmt.Sprintf("cases_race_%d", k)
		}
		defs := "Definition cases : list race_case := " + vhlib.CoqListNL(cases[i:j]) + ".\n"
		sum.WriteCaseFile(cfg.Out, name, "From SigM Require Import Base MetricsPlan MetricsPlanCheck.\n", defs, "check_race cases", j-i)
	}
}

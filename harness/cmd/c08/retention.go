package main

// retention stream (seed C08j): datapoints of the metrics segments that SURVIVE a retention pass.
//
// A history has 2-4 phases; every phase is followed by a size-based segment rotation (the tags tree holder stays, so
// the new metricmeta.json entry shares the tags-tree directory of the previous one, or - holder older than 24 h - moves
// to a new directory). A phase holds either recent datapoints or back-filled ones (40 days older), in any order of
// phases: metricmeta.json lists the segments in ROTATION order while retention expires them by the age of their DATA.
// Then the real retention pass (retention.DoRetentionBasedDeletion with a cut between the two ages), selector queries
// in the same process, optionally more ingest + rotation, a restart (fresh process, metadata from metricmeta.json) and
// the selector queries again. Oracle (property text): every datapoint of every surviving segment comes back with its
// timestamp, bit-identical value and tags; nothing comes back that was not ingested.
// Correspondence with coq/model/TagsTreeGc.v: one case per pass (entries before in file order, removal set, entries
// after, tags-tree directories gone).

import (
	"bufio"
	"encoding/json"
	"fmt"
	"os"
	"path/filepath"
	"sort"
	"strings"
	"time"

	"github.com/siglens/siglens/pkg/config"
	"github.com/siglens/siglens/pkg/retention"
	"github.com/siglens/siglens/pkg/segment/query"
	"github.com/siglens/siglens/pkg/segment/structs"
	"github.com/siglens/siglens/pkg/segment/writer/metrics/meta"

	"verifharness/vhlib"
)

const retBackfillSec = 40 * 24 * 3600 // back-filled phases are this much older
const retCutSec = 20 * 24 * 3600      // the retention cut lies this far before T0

type retEntry struct {
	Seg      string `json:"segment_dir"`
	TTree    string `json:"tags_tree_dir"`
	Earliest uint32 `json:"earliest"`
	Latest   uint32 `json:"latest"`
}

// what one retention pass did to metricmeta.json and the tags-tree directories
type retGC struct {
	Before []retEntry `json:"metricmeta_entries_before_in_file_order"`
	After  []retEntry `json:"metricmeta_entries_after_in_file_order"`
	Gone   []string   `json:"tags_tree_dirs_gone"`
}

func readMetaInFileOrder() ([]retEntry, error) {
	fd, err := os.Open(meta.GetLocalMetricsMetaFName())
	if err != nil {
		if os.IsNotExist(err) {
			return nil, nil
		}
		return nil, err
	}
	defer fd.Close()
	var out []retEntry
	sc := bufio.NewScanner(fd)
	sc.Buffer(make([]byte, 1<<20), 1<<24)
	for sc.Scan() {
		if len(strings.TrimSpace(sc.Text())) == 0 {
			continue
		}
		var m structs.MetricsMeta
		if err := json.Unmarshal(sc.Bytes(), &m); err != nil {
			return nil, err
		}
		out = append(out, retEntry{m.MSegmentDir, m.TTreeDir, m.EarliestEpochSec, m.LatestEpochSec})
	}
	return out, sc.Err()
}

// selector queries over both time windows (recent and back-filled)
func retQueryAll(h e2eHistory, stage string) e2eObs {
	o := queryAll(h, stage)
	h2 := h
	h2.T0 = h.T0 - retBackfillSec
	o2 := queryAll(h2, stage)
	o.Errs = append(o.Errs, o2.Errs...)
	for k, ps := range o2.Series {
		o.Series[k] = append(o.Series[k], ps...)
		sort.Slice(o.Series[k], func(a, b int) bool { return o.Series[k][a].T < o.Series[k][b].T })
	}
	return o
}

func retRun(h e2eHistory, fail func(string)) []e2eObs {
	var out []e2eObs
	for ph := range h.RetAges {
		if e := ingest(h, ph); len(e) > 0 {
			out = append(out, e2eObs{Stage: fmt.Sprintf("ingest%d", ph), Errs: e})
		}
		if err := rotateKind(h.RetRot[ph]); err != nil {
			fail(fmt.Sprintf("rotation %s after phase %d: %v", h.RetRot[ph], ph, err))
		}
	}
	out = append(out, retQueryAll(h, "before_retention"))
	var gc retGC
	var err error
	if gc.Before, err = readMetaInFileOrder(); err != nil {
		fail("metricmeta.json: " + err.Error())
	}
	// the real pass: everything whose newest datapoint is older than T0 - 20 days expires
	hours := (time.Now().Unix() - (int64(h.T0) - retCutSec)) / 3600
	retention.DoRetentionBasedDeletion(config.GetCurrentNodeIngestDir(), int(hours), 0)
	if gc.After, err = readMetaInFileOrder(); err != nil {
		fail("metricmeta.json after the pass: " + err.Error())
	}
	seen := map[string]bool{}
	for _, e := range gc.Before {
		if seen[e.TTree] {
			continue
		}
		seen[e.TTree] = true
		if _, err := os.Stat(e.TTree); err != nil {
			gc.Gone = append(gc.Gone, e.TTree)
		}
	}
	gb, _ := json.Marshal(gc)
	out = append(out, e2eObs{Stage: "gc", Meta: []string{string(gb)}})
	out = append(out, retQueryAll(h, "retained"))
	if h.RetPost {
		ph := len(h.RetAges)
		if e := ingest(h, ph); len(e) > 0 {
			out = append(out, e2eObs{Stage: fmt.Sprintf("ingest%d", ph), Errs: e})
		}
		out = append(out, retQueryAll(h, "retained+open"))
		if err := rotateBySize(); err != nil {
			fail("rotation after the pass: " + err.Error())
		}
		out = append(out, retQueryAll(h, "retained+rotated"))
	}
	return out
}

func retRestart(h e2eHistory, fail func(string)) []e2eObs {
	if err := query.PopulateMetricsMetadataForTheFile_TestOnly(meta.GetLocalMetricsMetaFName()); err != nil {
		fail("populate: " + err.Error())
	}
	var out []e2eObs
	for i := 0; i < 2; i++ {
		out = append(out, retQueryAll(h, "retention_restart"))
	}
	return out
}

// ---------- driver ----------

// all age patterns of k phases with at least one recent (0) and one back-filled (1) phase, e.g. k=2: [0 1], [1 0]
func agePatterns(k int) [][]int {
	var out [][]int
	for m := 1; m < (1<<uint(k))-1; m++ {
		a := make([]int, k)
		for i := 0; i < k; i++ {
			a[i] = (m >> uint(i)) & 1
		}
		out = append(out, a)
	}
	return out
}

func genRetHistory(r *vhlib.Rng, ages []int) e2eHistory {
	h := e2eHistory{T0: uint32(1700000000 + r.Intn(1000)*400), RetAges: ages, RetPost: r.Chance(40)}
	for range ages {
		k := "segment"
		if r.Chance(25) {
			k = "segment_and_tags_tree"
		}
		h.RetRot = append(h.RetRot, k)
	}
	names := []string{"cpu", "mem_used", "req_total"}
	ns := r.Range(2, 4)
	seen := map[string]bool{}
	for len(h.Series) < ns {
		s := e2eSeries{Name: vhlib.Pick(r, names)}
		nt := r.Range(1, 2)
		used := map[string]bool{}
		for j := 0; j < nt; j++ {
			k := vhlib.Pick(r, []string{"host", "dc", "zone"})
			if used[k] {
				continue
			}
			used[k] = true
			s.Tags = append(s.Tags, tag{k, fmt.Sprintf("v%d", r.Intn(4))})
		}
		sort.Slice(s.Tags, func(a, b int) bool { return s.Tags[a].K < s.Tags[b].K })
		if seen[selector(s)] {
			continue
		}
		seen[selector(s)] = true
		h.Series = append(h.Series, s)
	}
	nph := len(ages)
	if h.RetPost {
		nph++
	}
	for ph := 0; ph < nph; ph++ {
		base := h.T0
		if ph < len(ages) && ages[ph] == 1 {
			base -= retBackfillSec
		}
		any := false
		for si := range h.Series {
			if !r.Chance(75) && (any || si < len(h.Series)-1) {
				continue
			}
			any = true
			ts := ph*60 + r.Intn(5)
			v := vhlib.Pick(r, e2eVals)
			for j, n := 0, r.Range(1, 4); j < n && ts < ph*60+55; j++ {
				if r.Chance(50) {
					v = xorWith(v, r.Intn(64), r.Intn(64), r)
					if v&0x7FF0000000000000 == 0x7FF0000000000000 && v&0x000FFFFFFFFFFFFF != 0 {
						v &^= 0x7FF0000000000000 // NaNs only in the special-value stream
					}
					if v == 0x8000000000000000 {
						v = 0
					}
				}
				h.DPs = append(h.DPs, e2eDP{Series: si, T: base + uint32(ts), V: v, Phase: ph})
				ts += r.Range(1, 15)
			}
		}
	}
	return h
}

func retPart(cfg vhlib.Config, sum *vhlib.Summary, r *vhlib.Rng) {
	// quick: every age pattern of 2 phases, 3 random patterns of 3-4 phases; thorough: all patterns of 2-4 phases, twice
	var pats [][]int
	pats = append(pats, agePatterns(2)...)
	if cfg.Thorough() {
		for rep := 0; rep < 2; rep++ {
			pats = append(pats, agePatterns(2)...)
			pats = append(pats, agePatterns(3)...)
			pats = append(pats, agePatterns(4)...)
		}
	} else {
		for i := 0; i < 3; i++ {
			pats = append(pats, vhlib.Pick(r, agePatterns(3+i%2)))
		}
	}
	root := filepath.Join(cfg.Out, "retention")
	var cases []string
	for hi, ages := range pats {
		h := genRetHistory(r.Fork(), ages)
		dir := filepath.Join(root, fmt.Sprintf("h%d", hi))
		_ = os.MkdirAll(dir, 0o755)
		hf := filepath.Join(dir, "history.json")
		hb, _ := json.Marshal(h)
		_ = os.WriteFile(hf, hb, 0o644)
		data := filepath.Join(dir, "data")
		var obs []e2eObs
		ok := true
		for _, mode := range []string{"retrun", "retrestart"} {
			of := filepath.Join(dir, mode+".json")
			if err := runWorker(mode, data, hf, of); err != nil {
				sum.Fail("metrics_worker_crash", fmt.Sprintf("worker %s failed: %v", mode, err), h)
				ok = false
				break
			}
			var o []e2eObs
			ob, _ := os.ReadFile(of)
			_ = json.Unmarshal(ob, &o)
			obs = append(obs, o...)
		}
		_ = os.RemoveAll(data)
		if !ok {
			continue
		}
		sum.Count(fmt.Sprintf("retention/phases_%d", len(ages)))
		// the pass as observed
		var gc retGC
		haveGC := false
		for _, o := range obs {
			if o.Stage == "gc" && len(o.Meta) == 1 {
				haveGC = json.Unmarshal([]byte(o.Meta[0]), &gc) == nil
			}
		}
		if !haveGC {
			es := []string{}
			for _, o := range obs {
				if o.Stage == "harness" {
					es = append(es, o.Errs...)
				}
			}
			sum.HarnessError("retention: no pass observed: " + strings.Join(es, "; "))
			continue
		}
		cut := h.T0 - retCutSec
		segID, dirID := map[string]int{}, map[string]int{}
		var esC, rmC, listedC, goneC []string
		removedDirs, keptBefore := map[string]bool{}, map[string]bool{}
		sharedOrder := false // a surviving entry listed BEFORE an expired entry of the same tags-tree directory
		for i, e := range gc.Before {
			segID[e.Seg] = i
			if _, ok := dirID[e.TTree]; !ok {
				dirID[e.TTree] = len(dirID)
			}
			esC = append(esC, fmt.Sprintf("(%d, %d)", i, dirID[e.TTree]))
			if e.Latest <= cut {
				rmC = append(rmC, fmt.Sprint(i))
				removedDirs[e.TTree] = true
				if keptBefore[e.TTree] {
					sharedOrder = true
				}
			} else {
				keptBefore[e.TTree] = true
			}
		}
		for _, e := range gc.After {
			id, ok := segID[e.Seg]
			if !ok {
				id = 1000 + len(listedC) // an entry that was not there before: the model will disagree
			}
			listedC = append(listedC, fmt.Sprint(id))
		}
		for _, d := range gc.Gone {
			goneC = append(goneC, fmt.Sprint(dirID[d]))
		}
		cases = append(cases, fmt.Sprintf("(%s, %s, %s, %s)", vhlib.CoqList(esC), vhlib.CoqList(rmC), vhlib.CoqList(listedC), vhlib.CoqList(goneC)))
		if sharedOrder {
			sum.Count("retention/survivor_listed_before_expired_segment_of_same_tags_tree_dir")
		}
		if len(removedDirs) > 0 {
			sum.Count("retention/pass_removes_segments")
		}
		// does a datapoint sit in a surviving segment that shares its tags-tree directory with an expired one?
		sharesWithExpired := func(t uint32) bool {
			for _, e := range gc.Before {
				if e.Latest > cut && e.Earliest <= t && t <= e.Latest && removedDirs[e.TTree] {
					return true
				}
			}
			return false
		}
		// ... or in a surviving segment whose entry the pass dropped from metricmeta.json?
		listedAfter := map[string]bool{}
		for _, e := range gc.After {
			listedAfter[e.Seg] = true
		}
		entryDropped := func(t uint32) bool {
			dropped := 0
			for _, e := range gc.Before {
				if e.Latest > cut && e.Earliest <= t && t <= e.Latest {
					if !listedAfter[e.Seg] {
						dropped++
					}
				}
			}
			return dropped > 0
		}
		survives := func(d e2eDP) bool { return d.Phase >= len(h.RetAges) || h.RetAges[d.Phase] == 0 }
		for _, o := range obs {
			switch {
			case o.Stage == "gc":
				continue
			case o.Stage == "harness":
				sum.HarnessError("retention: " + strings.Join(o.Errs, "; "))
				continue
			case strings.HasPrefix(o.Stage, "ingest"):
				sum.Fail("metrics_ingest_rejected", strings.Join(o.Errs, "; "), h)
				continue
			}
			maxPhase := len(h.RetAges) - 1
			if o.Stage == "retained+open" || o.Stage == "retained+rotated" || o.Stage == "retention_restart" {
				maxPhase = len(h.RetAges)
			}
			afterPass := o.Stage != "before_retention"
			for si := range h.Series {
				key := selector(h.Series[si])
				var want, expired []pt
				for _, d := range h.DPs {
					if d.Series != si || d.Phase > maxPhase {
						continue
					}
					if afterPass && !survives(d) {
						expired = append(expired, pt{d.T, d.V})
					} else {
						want = append(want, pt{d.T, d.V})
					}
				}
				sort.Slice(want, func(a, b int) bool { return want[a].T < want[b].T })
				got := o.Series[key]
				sum.Eval(fmt.Sprintf("retention/%d/%s/%d", hi, o.Stage, si), len(want) > 0 && afterPass)
				sum.Count("retention/stage/" + o.Stage)
				if ptsEq(want, got) {
					continue
				}
				gotSet, wantSet, expSet := ptSet(got), ptSet(want), ptSet(expired)
				var missing, stale, wrong []pt
				shared, unlisted := false, false
				for _, p := range want {
					if !gotSet[p] {
						missing = append(missing, p)
						if sharesWithExpired(p.T) {
							shared = true
						}
						if entryDropped(p.T) {
							unlisted = true
						}
					}
				}
				for _, p := range got {
					if !wantSet[p] {
						if expSet[p] {
							stale = append(stale, p)
						} else {
							wrong = append(wrong, p)
						}
					}
				}
				cls := ""
				switch {
				case !afterPass:
					cls = "metrics_e2e_before_retention_mismatch"
				case len(wrong) > 0:
					cls = "metrics_retention_wrong_datapoints_returned"
				case len(missing) > 0 && unlisted:
					cls = "metrics_retention_surviving_segment_dropped_from_metricmeta_loses_datapoints"
				case len(missing) > 0 && shared:
					cls = "metrics_retention_survivor_sharing_tags_tree_dir_with_expired_segment_loses_datapoints"
				case len(missing) > 0:
					cls = "metrics_retention_surviving_segment_loses_datapoints"
				default:
					cls = "metrics_retention_expired_datapoints_still_returned"
				}
				sum.Fail(cls, fmt.Sprintf("stage %s series %s: phases %v (1 = back-filled, 40 days older) each followed by rotation %v; retention pass expires everything older than T0-20d; expected %v, returned %v; missing %v, expired but returned %v, never ingested %v (query errors %v); metricmeta.json before the pass %+v, after %+v, tags-tree dirs gone %v",
					o.Stage, key, h.RetAges, h.RetRot, want, got, missing, stale, wrong, o.Errs, gc.Before, gc.After, gc.Gone),
					map[string]interface{}{"history": h, "stage": o.Stage, "series": si})
			}
			known := map[string]bool{}
			for _, s := range h.Series {
				known[selector(s)] = true
			}
			for k := range o.Series {
				if !known[k] {
					sum.Fail("metrics_e2e_invented_series", fmt.Sprintf("stage %s: a series %s is reported that was never ingested", o.Stage, k), map[string]interface{}{"history": h, "stage": o.Stage})
				}
			}
			if len(o.Errs) > 0 {
				cls := "metrics_retention_query_error_after_pass"
				if !afterPass {
					cls = "metrics_e2e_query_error"
				}
				sum.Fail(cls, fmt.Sprintf("stage %s: %v; metricmeta.json before the pass %+v, after %+v, tags-tree dirs gone %v", o.Stage, o.Errs, gc.Before, gc.After, gc.Gone),
					map[string]interface{}{"history": h, "stage": o.Stage})
			}
		}
		if hi < 1 {
			sum.Sample(map[string]interface{}{"part": "retention", "phase_ages": h.RetAges, "rotations": h.RetRot, "entries_before": len(gc.Before), "entries_after": len(gc.After), "tags_tree_dirs_gone": len(gc.Gone)})
		}
	}
	if len(cases) > 0 {
		defs := "Definition cases : list gc_case := " + vhlib.CoqListNL(cases) + ".\n"
		sum.WriteCaseFile(cfg.Out, "cases_retention_gc", "From SigM Require Import Base TagsTreeGc TagsTreeGcCheck.\n", defs, "check_gc cases", len(cases))
	}
}

package main

import (
	"context"
	"fmt"
	"math"
	"os"

	"github.com/cespare/xxhash"
	"github.com/siglens/siglens/pkg/integrations/prometheus/promql"
	"github.com/siglens/siglens/pkg/segment/writer/metrics"
	"github.com/siglens/siglens/pkg/segment"
	"github.com/siglens/siglens/pkg/segment/query"
	log "github.com/sirupsen/logrus"
)

func init() {
	if len(os.Args) < 3 || os.Args[1] != "probe" {
		return
	}
	log.SetLevel(log.PanicLevel)
	ctx, cancel := context.WithCancel(context.Background())
	defer cancel()
	go query.PullQueriesToRun(ctx)
	if err := initMetrics(os.Args[2]); err != nil {
		fmt.Println("init", err)
		os.Exit(1)
	}
	one := math.Float64bits(1)
	h := e2eHistory{T0: 1700000000, Series: []e2eSeries{{"aaa", []tag{{"h", "1"}}}, {"bbb", []tag{{"h", "1"}}}, {"aac", []tag{{"h", "2"}}}},
		DPs: []e2eDP{{0, 1700000010, one, 0}, {1, 1700000020, one, 1}, {2, 1700000030, one, 1}}}
	q := func(tag string) {
		for _, qs := range []string{`{__name__=~"aaa|bbb|aac"}`, `{__name__=~"aa.*"}`, `{__name__=~"aa.*",h="2"}`, "bbb", "aac"} {
			reqs, _, _, err := promql.ConvertPromQLToMetricsQuery(qs, h.T0, h.T0+330, 0)
			if err != nil {
				fmt.Println(tag, qs, "parse", err)
				continue
			}
			qid++
			res := segment.ExecuteMetricsQuery(&reqs[0].MetricsQuery, &reqs[0].TimeRange, qid)
			fmt.Println(tag, qs, "->", res.Results, res.ErrList)
		}
	}
	fmt.Println(ingest(h, 0))
	ns := uint64(len(metrics.GetAllMetricsSegments()))
	for _, n := range []string{"aaa", "bbb", "aab", "aac", "aad", "aae", "aaf"} {
		fmt.Println("shard", n, xxhash.Sum64String(n)%ns, "of", ns)
	}
	q("open")
	fmt.Println(rotateBySize())
	q("after segment rotation")
	fmt.Println(ingest(h, 1))
	q("new metric names in the open segment")
	fmt.Println(metrics.VerifFlushDirtyTagsTrees())
	q("tags tree flushed")
	fmt.Println(rotateBySize())
	q("second segment closed")
	os.Exit(0)
}

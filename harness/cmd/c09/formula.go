package main

// Formulas: trees of binary operations (+ - * /) over operand queries and number literals, asked through BOTH entry
// points that evaluate them:
//
//	API "formula"  promql.ProcessMetricsQueryRequest (queries + formulas JSON: the metrics-explorer endpoint and the
//	               alert evaluation) -> ExecuteMultipleMetricsQuery(..., opLabelsDoNotNeedToMatch = true)
//	API "promql"   the expanded expression through the call sequence of the Prometheus /query and /query_range
//	               handlers -> ExecuteMultipleMetricsQuery(..., false)
//
// Oracle: PromQL semantics of the expanded expression (one-to-one matching on the whole label set, a sample where both
// sides have one, vector op number per sample).  The model (coq/model/PromqlFormula.v) predicts the exact answer,
// including the operand loop (one run per distinct operand text, number of multi-series operand POSITIONS, the flag).

import (
	"fmt"
	"strings"

	"verifharness/vhlib"
)

type fnode struct {
	Op    string `json:"op,omitempty"` // + - * / : binary node
	L     *fnode `json:"l,omitempty"`
	R     *fnode `json:"r,omitempty"`
	Ref   int    `json:"ref"` // operand index (leaf), -1 otherwise
	IsNum bool   `json:"isnum,omitempty"`
	Num   int    `json:"num,omitempty"` // number literal
}

func (n *fnode) leaf() bool { return n.Op == "" && !n.IsNum }

func (n *fnode) text(leaf func(int) string) string {
	switch {
	case n.IsNum:
		return fmt.Sprint(n.Num)
	case n.Op == "":
		return leaf(n.Ref)
	}
	side := func(c *fnode) string {
		if c.Op != "" {
			return "(" + c.text(leaf) + ")"
		}
		return c.text(leaf)
	}
	return side(n.L) + " " + n.Op + " " + side(n.R)
}

func (n *fnode) has(op string) bool {
	if n == nil || n.Op == "" {
		return false
	}
	return n.Op == op || n.L.has(op) || n.R.has(op)
}

// operand positions in the order the parser collects them (left to right)
func (n *fnode) refs() []int {
	switch {
	case n.IsNum:
		return nil
	case n.Op == "":
		return []int{n.Ref}
	}
	return append(n.L.refs(), n.R.refs()...)
}

func (n *fnode) vecVecNodes() int {
	if n == nil || n.Op == "" {
		return 0
	}
	c := n.L.vecVecNodes() + n.R.vecVecNodes()
	if !n.L.IsNum && !n.R.IsNum {
		c++
	}
	return c
}

func (n *fnode) depth() int {
	if n == nil || n.Op == "" {
		return 0
	}
	return 1 + max(n.L.depth(), n.R.depth())
}

var formNames = []string{"a", "b", "c", "d"}

func (q qspec) formulaText() string {
	return q.Tree.text(func(i int) string { return formNames[i] })
}
func (q qspec) expanded() string {
	return q.Tree.text(func(i int) string { return q.Ops[i].promql() })
}
func (q qspec) formReq() formReq {
	f := formReq{Formula: q.formulaText()}
	for i, o := range q.Ops {
		f.Names = append(f.Names, formNames[i])
		f.Queries = append(f.Queries, o.promql())
	}
	return f
}
func (q qspec) formShow() string {
	if q.API != "formula" {
		return q.expanded()
	}
	var defs []string
	for i, o := range q.Ops {
		defs = append(defs, formNames[i]+" = "+o.promql())
	}
	return fmt.Sprintf("formula %q with %s (formula API)", q.formulaText(), strings.Join(defs, ", "))
}

// the hash of an operand is the hash of its text: operands with the same text share one key
func (q qspec) opKey(i int) int {
	for j := range q.Ops {
		if q.Ops[j].promql() == q.Ops[i].promql() {
			return j + 1
		}
	}
	return i + 1
}

// ---------- oracle ----------
func applyOp(op string, x, y float64) (float64, bool) {
	switch op {
	case "+":
		return x + y, true
	case "-":
		return x - y, true
	case "*":
		return x * y, true
	}
	return x / y, true
}

func pairPts(op string, sw bool, l, r map[uint32]float64) map[uint32]float64 {
	m := map[uint32]float64{}
	for t, lv := range l {
		rv, ok := r[t]
		if !ok {
			continue
		}
		if sw {
			lv, rv = rv, lv
		}
		if v, ok := applyOp(op, lv, rv); ok {
			m[t] = v
		}
	}
	return m
}

func stripName(a answer) answer {
	o := answer{}
	for k, v := range a {
		o[k[strings.Index(k, "{"):]] = v
	}
	return o
}

type formEval struct {
	d                  dataset
	maxPhase, lo, hi   int
	ops                []answer // PromQL answers of the operands (metric name dropped)
	explorer           bool     // evaluate as the code is DESIGNED to (see evalNode); false: PromQL
	free               bool     // explorer mode: opLabelsDoNotNeedToMatch after the operand loop
	emptyNested        bool     // a nested operation had an empty result (an empty operand; before fix 962cee9 the request failed)
	loneSeriesPairings int      // explorer mode: vector-vector nodes evaluated one-to-one / many-to-one without label matching
}

func (e *formEval) evalNode(n *fnode, root bool) answer {
	if n.Op == "" {
		return e.ops[n.Ref]
	}
	side := func(c *fnode) answer {
		if c.IsNum {
			return nil
		}
		v := e.evalNode(c, false)
		if c.Op != "" && len(v) == 0 {
			e.emptyNested = true
		}
		return v
	}
	l, r := side(n.L), side(n.R)
	out := answer{}
	switch {
	case n.R.IsNum || n.L.IsNum: // vector op number / number op vector
		vec, c, sw := l, float64(n.R.Num), false
		if n.L.IsNum {
			vec, c, sw = r, float64(n.L.Num), true
		}
		for k, pts := range vec {
			m := map[uint32]float64{}
			for t, v := range pts {
				x, y := v, c
				if sw {
					x, y = y, x
				}
				if z, ok := applyOp(n.Op, x, y); ok {
					m[t] = z
				}
			}
			if len(m) > 0 {
				out[k] = m
			}
		}
	case e.explorer && e.free:
		// the metrics explorer's convenience: with at most one multi-series operand, a lone series is combined with
		// every series of the other side whatever the labels are (the larger side gives the output its labels)
		sw := len(r) > len(l)
		if sw {
			l, r = r, l
		}
		if len(r) == 1 && len(l) >= 1 {
			e.loneSeriesPairings++
			for _, rp := range r {
				for k, lp := range l {
					if m := pairPts(n.Op, sw, lp, rp); len(m) > 0 {
						out[k] = m
					}
				}
			}
		}
	default: // PromQL: one-to-one on identical label sets
		for k, lp := range l {
			if rp, ok := r[k]; ok {
				if m := pairPts(n.Op, false, lp, rp); len(m) > 0 {
					out[k] = m
				}
			}
		}
	}
	return out
}

func (q qspec) operandAnswers(d dataset, maxPhase, lo, hi int) []answer {
	var ops []answer
	for _, o := range q.Ops {
		ops = append(ops, stripName(expectIn(o, d, maxPhase, lo, hi)))
	}
	return ops
}

// PromQL answer of the expanded expression
func expectForm(q qspec, d dataset, maxPhase, lo, hi int) answer {
	e := &formEval{d: d, maxPhase: maxPhase, lo: lo, hi: hi, ops: q.operandAnswers(d, maxPhase, lo, hi)}
	if q.Tree.Op == "" {
		return e.ops[q.Tree.Ref] // a single operand (the comparison drops the metric name of every non-selector query)
	}
	return e.evalNode(q.Tree, true)
}

// the answer the code is designed to give: the formula API (free = true initially) keeps "labels need not match" unless
// two operand positions are multi-series; a nested operation with an empty result is an empty operand (fix 962cee9).
// Returns the answer, whether a nested operation had an empty result, and the number of label-free pairings that took place
func designedForm(q qspec, d dataset, maxPhase, lo, hi int) (answer, bool, int) {
	e := &formEval{d: d, maxPhase: maxPhase, lo: lo, hi: hi, ops: q.operandAnswers(d, maxPhase, lo, hi), explorer: true}
	if q.Tree.Op == "" {
		return e.ops[q.Tree.Ref], false, 0
	}
	multi := 0
	for _, i := range q.Tree.refs() {
		if len(e.ops[i]) > 1 {
			multi++
		}
	}
	e.free = q.API == "formula" && multi <= 1
	a := e.evalNode(q.Tree, true)
	return a, e.emptyNested, e.loneSeriesPairings
}

// ---------- generator ----------
// One formula dataset: two metrics over the same label keys with overlapping label sets (several series each), and a
// third metric with exactly one series; every series may miss timestamps and may live only in the second segment, so
// the number of series of an operand changes with the stage and with the time range.  Values are positive multiples
// of 60.  A tree uses '-' or '/' but not both: with + - * everything is an exact integer, with + * / on positive
// numbers the binary64 result is within a few ulp of the exact rational (the model computes in Q, compared within 2^-50).
func genFormulaDS(r *vhlib.Rng) (dataset, []qspec) {
	d := dataset{T0: uint32(1700000000 + r.Intn(1000)*400)}
	names := subset(r, namePool, 3)
	if r.Bool() {
		names[0], names[1] = names[1], names[0]
	}
	var keys []string
	for tries := 0; ; tries++ {
		keys = subset(r, keyPool, r.Range(1, 3))
		if substrOK(keys, keys) || tries > 50 {
			break
		}
	}
	combos := genSeries(r, "", keys, r.Range(3, 5), 3)
	for mi, n := range names[:2] {
		cnt := 0
		for _, c := range combos {
			if r.Chance(80) {
				d.Series = append(d.Series, serie{Name: n, Tags: c.Tags})
				cnt++
			}
		}
		for ci := 0; cnt < 2; ci++ { // several series per metric
			dup := false
			for _, s := range d.Series {
				dup = dup || (s.Name == n && canonLabels("", labelMap(s)) == canonLabels("", labelMap(combos[(ci+mi)%len(combos)])))
			}
			if !dup {
				d.Series = append(d.Series, serie{Name: n, Tags: combos[(ci+mi)%len(combos)].Tags})
				cnt++
			}
		}
	}
	d.Series = append(d.Series, serie{Name: names[2], Tags: vhlib.Pick(r, combos).Tags}) // the lone series
	offs := genOffsets(r, r.Range(4, 6))
	offPhase := make([]int, len(offs))
	for i := range offs {
		offPhase[i] = r.Intn(2)
	}
	offPhase[0], offPhase[len(offs)-1] = 0, 1
	for si := range d.Series {
		late := r.Chance(25) // the series appears only after the first rotation
		n := 0
		for oi, o := range offs {
			if r.Chance(20) || (late && offPhase[oi] == 0) {
				continue
			}
			d.DPs = append(d.DPs, dpoint{S: si, T: d.T0 + uint32(o), V: int64(60 * r.Range(1, 20)), Phase: offPhase[oi]})
			n++
		}
		if n == 0 {
			d.DPs = append(d.DPs, dpoint{S: si, T: d.T0 + uint32(offs[len(offs)-1]), V: 60, Phase: 1})
		}
	}
	for i := len(d.DPs) - 1; i > 0; i-- {
		j := r.Intn(i + 1)
		d.DPs[i], d.DPs[j] = d.DPs[j], d.DPs[i]
	}

	// operand shapes.  All operands of one formula print their labels in the same order (a matcher stands on the
	// first key only; aggregations share the grouping clause), so equal label sets have equal id texts
	// the by-clause never names every label: a selector's id ("m{a:x,b:y,") and a by-aggregation's id ("m{a:x,b:y") differ
	// as texts even when the label sets are equal (known class arith_label_order_mismatch, asked in the known stream)
	var by []string
	if len(keys) > 1 {
		by = subset(r, keys, r.Range(1, len(keys)-1))
	}
	operand := func(shape int) qspec {
		m := names[r.Intn(2)]
		switch shape {
		case 0, 1, 2: // plain selector (several series)
			return qspec{Kind: "sel", Name: m, Fam: -1}
		case 3: // selector with a matcher on the first key
			return qspec{Kind: "sel", Name: m, Ms: []matcher{genMatcher(r, keys[0])}, Fam: -1}
		case 4: // the metric with one series
			return qspec{Kind: "sel", Name: names[2], Fam: -1}
		case 5: // aggregation without clause: one series without labels
			return qspec{Kind: "agg", Fn: vhlib.Pick(r, fns), Name: m, Fam: -1}
		default: // aggregation by labels
			if len(by) == 0 {
				return qspec{Kind: "agg", Fn: vhlib.Pick(r, fns), Name: m, Fam: -1}
			}
			return qspec{Kind: "agg", Fn: vhlib.Pick(r, fns), Grp: "by", GL: by, Name: m, Fam: -1}
		}
	}
	var tree func(depth int, nops int, noSub, noDiv bool) *fnode
	tree = func(depth int, nops int, noSub, noDiv bool) *fnode {
		if depth == 0 {
			return &fnode{Ref: r.Intn(nops)}
		}
		var ops []string
		ops = append(ops, "+", "*")
		if !noSub {
			ops = append(ops, "-", "-")
		}
		if !noDiv {
			ops = append(ops, "/", "/")
		}
		op := vhlib.Pick(r, ops)
		if op == "-" {
			noDiv = true
		}
		if op == "/" {
			noSub = true
		}
		n := &fnode{Op: op, Ref: -1}
		sub := func() *fnode {
			dd := depth - 1
			if dd > 0 && r.Chance(40) {
				dd--
			}
			return tree(dd, nops, noSub, noDiv)
		}
		switch r.Intn(8) {
		case 0:
			n.L, n.R = sub(), &fnode{IsNum: true, Num: r.Range(2, 5), Ref: -1}
		case 1:
			n.L, n.R = &fnode{IsNum: true, Num: r.Range(2, 5), Ref: -1}, sub()
		default:
			n.L, n.R = sub(), sub()
		}
		return n
	}
	var qs []qspec
	add := func(ops []qspec, t *fnode, kn string) {
		// a tree may have ended up with '-' and '/' in different branches: keep it to one of them
		if t.has("-") && t.has("/") {
			return
		}
		// only the operands the tree refers to are named in the request
		remap := map[int]int{}
		var used []qspec
		var walk func(n *fnode)
		walk = func(n *fnode) {
			switch {
			case n.IsNum:
			case n.Op == "":
				if _, ok := remap[n.Ref]; !ok {
					remap[n.Ref] = len(used)
					used = append(used, ops[n.Ref])
				}
				n.Ref = remap[n.Ref]
			default:
				walk(n.L)
				walk(n.R)
			}
		}
		walk(t)
		ops = used
		f := qspec{Kind: "form", Ops: ops, Tree: t, API: "formula", Fam: -1, Kn: kn, Twin: len(qs) + 1}
		p := f
		p.API, p.Twin = "promql", len(qs)
		qs = append(qs, f, p)
	}
	m0, m1 := qspec{Kind: "sel", Name: names[0], Fam: -1}, qspec{Kind: "sel", Name: names[1], Fam: -1}
	lone := qspec{Kind: "sel", Name: names[2], Fam: -1}
	leaf := func(i int) *fnode { return &fnode{Ref: i} }
	bin := func(op string, l, r *fnode) *fnode { return &fnode{Op: op, L: l, R: r, Ref: -1} }
	num := func(c int) *fnode { return &fnode{IsNum: true, Num: c, Ref: -1} }
	// fixed shapes: an operand repeated (same name, and two names with the same text), distinct operands, numbers, nesting
	add([]qspec{m0}, leaf(0), "")
	add([]qspec{m0}, bin(vhlib.Pick(r, []string{"-", "/", "+", "*"}), leaf(0), leaf(0)), "")
	add([]qspec{m0, m0}, bin(vhlib.Pick(r, []string{"-", "/"}), leaf(0), leaf(1)), "")
	add([]qspec{m0}, bin("/", bin("+", leaf(0), leaf(0)), leaf(0)), "")
	add([]qspec{m0, m1}, bin(vhlib.Pick(r, []string{"-", "/", "+", "*"}), leaf(0), leaf(1)), "")
	add([]qspec{m0, m1}, bin(vhlib.Pick(r, []string{"+", "*"}), bin("-", leaf(0), leaf(1)), bin("-", leaf(1), leaf(0))), "")
	add([]qspec{m0}, bin(vhlib.Pick(r, []string{"-", "/", "+", "*"}), leaf(0), num(r.Range(2, 5))), "")
	add([]qspec{m1}, bin(vhlib.Pick(r, []string{"-", "/"}), num(r.Range(2, 5)), leaf(0)), "")
	add([]qspec{m0, lone}, bin(vhlib.Pick(r, []string{"-", "/"}), leaf(r.Intn(2)), leaf(r.Intn(2))), "")
	add([]qspec{m0, lone}, bin("/", bin("+", leaf(0), leaf(1)), leaf(0)), "")
	// count without grouping clause keeps its entry "name{" even without a sample (nothing selected): the nested result is
	// "not empty" for processNodeExpr, the request does not fail and the answer is empty
	cnt0 := qspec{Kind: "agg", Fn: "count", Name: names[0], Ms: []matcher{{keys[0], "=", "zz"}}, Fam: -1}
	add([]qspec{cnt0}, bin("*", num(r.Range(2, 5)), bin(vhlib.Pick(r, []string{"*", "+"}), num(r.Range(2, 5)), leaf(0))), "")
	// random trees over one to three operands
	for i := 0; i < 9; i++ {
		nops := r.Range(1, 3)
		shapeBase := r.Intn(3) // 0: selectors, 1: aggregations by the shared clause, 2: mixed with single-series operands
		var ops []qspec
		for len(ops) < nops {
			var o qspec
			switch shapeBase {
			case 0:
				o = operand(r.Intn(4))
			case 1:
				o = operand(6)
			default:
				o = operand(r.Intn(7))
			}
			if len(ops) > 0 && r.Chance(15) {
				o = ops[0] // a second name for the same query text
			}
			ops = append(ops, o)
		}
		add(ops, tree(r.Range(1, 3), nops, false, false), "")
	}
	for i := range qs {
		qs[i].Full = -1
	}
	// narrow time ranges: both members of a pair get the same range
	n := len(qs)
	var w [2][2]int
	for i := range w {
		w[i][0], w[i][1] = genWindow(r, d)
	}
	for i := 0; i+1 < n; i += 2 {
		wi := r.Intn(4)
		if wi > 1 {
			continue
		}
		for k := 0; k < 2; k++ {
			c := qs[i+k]
			c.Lo, c.Hi, c.Full = w[wi][0], w[wi][1], i+k
			c.Twin = len(qs) + 1 - 2*k
			qs = append(qs, c)
		}
	}
	return d, qs
}

// ---------- Coq emission ----------
func (q qspec) coqTree(n *fnode) string {
	fop := map[string]string{"+": "FAdd", "-": "FSub", "*": "FMul", "/": "FDiv"}
	switch {
	case n.Op == "":
		return fmt.Sprintf("(FLeaf %d %s)", q.opKey(n.Ref), q.Ops[n.Ref].coqQuery())
	case n.R.IsNum:
		return fmt.Sprintf("(FConstR %s %s (Qmake %d 1))", fop[n.Op], q.coqTree(n.L), n.R.Num)
	case n.L.IsNum:
		return fmt.Sprintf("(FConstL %s (Qmake %d 1) %s)", fop[n.Op], n.L.Num, q.coqTree(n.R))
	}
	return fmt.Sprintf("(FBin %s %s %s)", fop[n.Op], q.coqTree(n.L), q.coqTree(n.R))
}

func coqFormObs(o qobs, t0 uint32) string {
	if len(o.Errs) > 0 {
		return "FoErr"
	}
	return "(FoVec " + coqObs(o, t0) + ")"
}

// c09: PromQL selectors and aggregations through the real parser and metrics query engine.
package main

import (
	"os"

	log "github.com/sirupsen/logrus"
)

func main() {
	log.SetLevel(log.PanicLevel)
	if len(os.Args) > 1 && os.Args[1] == "worker" {
		workerMain(os.Args[2:])
		return
	}
	if len(os.Args) > 1 && os.Args[1] == "probe" {
		probeMain(os.Args[2:])
		return
	}
}

// c09: PromQL selectors, aggregations (sum/min/max/avg/count, by/without; nested: aggregation of an aggregation) and vector arithmetic
// through the real parser (ConvertPromQLToMetricsQuery) and the real metrics query engine
// (ExecuteMetricsQuery / ExecuteMultipleMetricsQuery) on generated label sets, with open,
// rotated and two-segment data.
//
//	oracle          PromQL semantics from the property text, evaluated on the returned series
//	correspondence  the Coq model (coq/model/Promql.v) must predict the exact id strings and samples
package main

import (
	"fmt"
	"math/big"
	"os"
	"path/filepath"
	"regexp"
	"sort"
	"strings"
	"sync"

	log "github.com/sirupsen/logrus"

	"verifharness/vhlib"
)

// ---------- queries ----------
type matcher struct {
	K  string `json:"k"`
	Op string `json:"op"` // = != =~ !~
	V  string `json:"v"`
}
type qspec struct {
	Kind string    `json:"kind"` // sel | agg | arith | nest | form
	Fn   string    `json:"fn,omitempty"`
	Grp  string    `json:"grp,omitempty"` // "" | by | without
	GL   []string  `json:"gl,omitempty"`
	Name string    `json:"name,omitempty"`
	Ms   []matcher `json:"ms,omitempty"`
	Op   string    `json:"op,omitempty"`
	L    *qspec    `json:"l,omitempty"`
	R    *qspec    `json:"r,omitempty"`
	// nested aggregation  Fn Grp (GL) ( In ) : Fn/Grp/GL describe the OUTER aggregation, In the inner one (kind agg);
	// InQ-1 = index of the inner aggregation asked on its own in the same run (0: not asked)
	In  *qspec `json:"in,omitempty"`
	InQ int    `json:"inq,omitempty"`
	Aux bool   `json:"aux,omitempty"` // inner aggregation asked on its own (full window only)
	// formula (kind form): a tree of binary operations over the operand queries Ops and number literals, asked through
	// API "formula" (queries + formulas request of the metrics explorer) or "promql" (the expanded expression through the
	// Prometheus endpoints' call sequence); Twin = index of the same expression through the other API
	Ops  []qspec `json:"ops,omitempty"`
	Tree *fnode  `json:"tree,omitempty"`
	API  string  `json:"api,omitempty"`
	Twin int     `json:"twin,omitempty"`
	Fam  int       `json:"fam"`             // family id (same selector and grouping, all five functions), -1 = none
	Kn   string    `json:"known,omitempty"` // known-defect class this query was generated for ("" = main stream)
	// time range of the query: [t0+Lo, t0+Hi], both ends inclusive; Hi == 0 means the full window [0, window].
	// Full = index of the same query over the full window (-1: none)
	Lo   int `json:"lo,omitempty"`
	Hi   int `json:"hi,omitempty"`
	Full int `json:"full"`
}

func (q qspec) win() (int, int) {
	if q.Hi == 0 && q.Lo == 0 {
		return 0, window
	}
	return q.Lo, q.Hi
}
func lo0(q qspec) int     { lo, _ := q.win(); return lo }
func hi0(q qspec) int     { _, hi := q.win(); return hi }
func (q qspec) narrow() bool { lo, hi := q.win(); return lo != 0 || hi != window }

// text used in messages and replays
func (q qspec) show() string {
	txt := q.promql()
	if q.Kind == "form" {
		txt = q.formShow()
	}
	if !q.narrow() {
		return txt
	}
	lo, hi := q.win()
	return fmt.Sprintf("%s over [+%d,+%d]", txt, lo, hi)
}

func (q qspec) selector() string {
	if len(q.Ms) == 0 {
		return q.Name
	}
	var ms []string
	for _, m := range q.Ms {
		ms = append(ms, fmt.Sprintf("%s%s%q", m.K, m.Op, m.V))
	}
	return q.Name + "{" + strings.Join(ms, ",") + "}"
}
func (q qspec) promql() string {
	switch q.Kind {
	case "sel":
		return q.selector()
	case "agg":
		if q.Grp == "" {
			return fmt.Sprintf("%s(%s)", q.Fn, q.selector())
		}
		return fmt.Sprintf("%s %s (%s) (%s)", q.Fn, q.Grp, strings.Join(q.GL, ","), q.selector())
	case "nest":
		if q.Grp == "" {
			return fmt.Sprintf("%s(%s)", q.Fn, q.In.promql())
		}
		return fmt.Sprintf("%s %s (%s) (%s)", q.Fn, q.Grp, strings.Join(q.GL, ","), q.In.promql())
	case "form":
		return q.expanded()
	default:
		return q.L.promql() + " " + q.Op + " " + q.R.promql()
	}
}

func coqStrList(l []string) string {
	it := make([]string, len(l))
	for i, s := range l {
		it[i] = vhlib.CoqStr(s)
	}
	return vhlib.CoqList(it)
}
func coqMatchers(ms []matcher) string {
	it := make([]string, len(ms))
	for i, m := range ms {
		op := map[string]string{"=": "MEq", "!=": "MNe", "=~": "MRe", "!~": "MNre"}[m.Op]
		it[i] = fmt.Sprintf("mk_m %s %s %s", vhlib.CoqStr(m.K), op, vhlib.CoqStr(m.V))
	}
	return vhlib.CoqList(it)
}
func (q qspec) coqFn() string {
	return map[string]string{"sum": "ASum", "min": "AMin", "max": "AMax", "avg": "AAvg", "count": "ACount"}[q.Fn]
}
func (q qspec) coqGrouping() string {
	if q.Grp == "by" {
		return "(GBy " + coqStrList(q.GL) + ")"
	} else if q.Grp == "without" {
		return "(GWithout " + coqStrList(q.GL) + ")"
	}
	return "GNone"
}
func (q qspec) coqQuery() string {
	if q.Kind == "sel" {
		return fmt.Sprintf("(QSel %s %s)", vhlib.CoqStr(q.Name), coqMatchers(q.Ms))
	}
	return fmt.Sprintf("(QAgg %s %s %s %s)", q.coqFn(), q.coqGrouping(), vhlib.CoqStr(q.Name), coqMatchers(q.Ms))
}
func (q qspec) coqCase() string {
	if q.Kind == "nest" {
		return fmt.Sprintf("CN (mk_nq %s %s %s %s %s %s)", q.coqFn(), q.coqGrouping(), q.In.coqFn(), q.In.coqGrouping(),
			vhlib.CoqStr(q.In.Name), coqMatchers(q.In.Ms))
	}
	if q.Kind == "arith" {
		op := map[string]string{"+": "BAdd", "-": "BSub", "*": "BMul"}[q.Op]
		return fmt.Sprintf("CA %s %s %s", op, q.L.coqQuery(), q.R.coqQuery())
	}
	return "CQ " + q.coqQuery()
}

// ---------- PromQL oracle ----------
type answer map[string]map[uint32]float64 // canonical label set -> timestamp -> value

func canonLabels(name string, ls map[string]string) string {
	var ks []string
	for k, v := range ls {
		if v != "" {
			ks = append(ks, k)
		}
	}
	sort.Strings(ks)
	var sb strings.Builder
	sb.WriteString(name + "{")
	for i, k := range ks {
		if i > 0 {
			sb.WriteByte(',')
		}
		fmt.Fprintf(&sb, "%s=%q", k, ls[k])
	}
	sb.WriteByte('}')
	return sb.String()
}

func labelMap(s serie) map[string]string {
	m := map[string]string{}
	for _, t := range s.Tags {
		m[t.K] = t.V
	}
	return m
}

func matches(m matcher, ls map[string]string) bool {
	v := ls[m.K] // absent label = ""
	switch m.Op {
	case "=":
		return v == m.V
	case "!=":
		return v != m.V
	}
	ok := regexp.MustCompile("^(?:" + m.V + ")$").MatchString(v)
	if m.Op == "=~" {
		return ok
	}
	return !ok
}

func pointsOf(d dataset, si, maxPhase, lo, hi int) map[uint32]float64 {
	out := map[uint32]float64{}
	for _, p := range d.DPs {
		if off := int(p.T) - int(d.T0); off < lo || off > hi {
			continue // outside the queried time range (both ends inclusive)
		}
		if p.S == si && p.Phase <= maxPhase {
			out[p.T] = float64(p.V)
		}
	}
	return out
}

func selected(q qspec, d dataset) []int {
	var out []int
	for i, s := range d.Series {
		if s.Name != q.Name {
			continue
		}
		ok := true
		ls := labelMap(s)
		for _, m := range q.Ms {
			ok = ok && matches(m, ls)
		}
		if ok {
			out = append(out, i)
		}
	}
	return out
}

func fold(fn string, vs []float64) float64 {
	r := vs[0]
	switch fn {
	case "count":
		return float64(len(vs))
	case "sum", "avg":
		r = 0
		for _, v := range vs {
			r += v
		}
		if fn == "avg" {
			r /= float64(len(vs))
		}
	case "min":
		for _, v := range vs {
			if v < r {
				r = v
			}
		}
	case "max":
		for _, v := range vs {
			if v > r {
				r = v
			}
		}
	}
	return r
}

// one instant-vector series: label set (absent = not in the map) and samples
type lser struct {
	ls  map[string]string
	pts map[uint32]float64
}

// PromQL aggregation operator applied to a vector: per output group (by: the named labels the series carries;
// without: every label but the named ones; no clause: one group) and timestamp, the aggregate of the member
// series' samples at that timestamp
func aggLayer(fn, grp string, gl []string, in []lser) []lser {
	type group struct {
		ls   map[string]string
		vals map[uint32][]float64
	}
	groups := map[string]*group{}
	var order []string
	for _, s := range in {
		g := map[string]string{}
		switch grp {
		case "by":
			for _, k := range gl {
				if v := s.ls[k]; v != "" {
					g[k] = v
				}
			}
		case "without":
			for k, v := range s.ls {
				g[k] = v
			}
			for _, k := range gl {
				delete(g, k)
			}
		}
		key := canonLabels("", g)
		if groups[key] == nil {
			groups[key] = &group{ls: g, vals: map[uint32][]float64{}}
			order = append(order, key)
		}
		for t, v := range s.pts {
			groups[key].vals[t] = append(groups[key].vals[t], v)
		}
	}
	var out []lser
	for _, key := range order {
		g := groups[key]
		if len(g.vals) == 0 {
			continue
		}
		o := lser{ls: g.ls, pts: map[uint32]float64{}}
		for t, vs := range g.vals {
			o.pts[t] = fold(fn, vs)
		}
		out = append(out, o)
	}
	return out
}

func answerOf(v []lser) answer {
	out := answer{}
	for _, s := range v {
		if len(s.pts) > 0 {
			out[canonLabels("", s.ls)] = s.pts
		}
	}
	return out
}

// the observed answer of a query as a vector (the raw ids are parsed back into label sets)
func vectorOfObs(o qobs) ([]lser, bool) {
	var out []lser
	var ids []string
	for id := range o.Res {
		ids = append(ids, id)
	}
	sort.Strings(ids)
	for _, id := range ids {
		if len(o.Res[id]) == 0 {
			continue
		}
		_, ls, ok := parseID(id)
		if !ok {
			return nil, false
		}
		out = append(out, lser{ls: ls, pts: o.Res[id]})
	}
	return out, true
}

// withName: selectors keep the metric name; aggregations and arithmetic drop it
func expect(q qspec, d dataset, maxPhase int) answer {
	lo, hi := q.win()
	return expectIn(q, d, maxPhase, lo, hi)
}

func expectIn(q qspec, d dataset, maxPhase, lo, hi int) answer {
	out := answer{}
	switch q.Kind {
	case "sel":
		for _, i := range selected(q, d) {
			ps := pointsOf(d, i, maxPhase, lo, hi)
			if len(ps) > 0 {
				out[canonLabels(q.Name, labelMap(d.Series[i]))] = ps
			}
		}
	case "agg":
		members := map[string][]int{}
		for _, i := range selected(q, d) {
			ls := labelMap(d.Series[i])
			g := map[string]string{}
			switch q.Grp {
			case "by":
				for _, k := range q.GL {
					g[k] = ls[k]
				}
			case "without":
				for k, v := range ls {
					g[k] = v
				}
				for _, k := range q.GL {
					delete(g, k)
				}
			}
			key := canonLabels("", g)
			members[key] = append(members[key], i)
		}
		for key, is := range members {
			vals := map[uint32][]float64{}
			for _, i := range is {
				for t, v := range pointsOf(d, i, maxPhase, lo, hi) {
					vals[t] = append(vals[t], v)
				}
			}
			if len(vals) == 0 {
				continue
			}
			out[key] = map[uint32]float64{}
			for t, vs := range vals {
				out[key][t] = fold(q.Fn, vs)
			}
		}
	case "nest":
		// nesting = the outer aggregation applied to the inner aggregation's result vector
		var in []lser
		for _, i := range selected(*q.In, d) {
			if ps := pointsOf(d, i, maxPhase, lo, hi); len(ps) > 0 {
				in = append(in, lser{ls: labelMap(d.Series[i]), pts: ps})
			}
		}
		return answerOf(aggLayer(q.Fn, q.Grp, q.GL, aggLayer(q.In.Fn, q.In.Grp, q.In.GL, in)))
	case "form":
		return expectForm(q, d, maxPhase, lo, hi)
	case "arith":
		l, r := expectIn(*q.L, d, maxPhase, lo, hi), expectIn(*q.R, d, maxPhase, lo, hi)
		strip := func(a answer) answer {
			o := answer{}
			for k, v := range a {
				o[k[strings.Index(k, "{"):]] = v
			}
			return o
		}
		l, r = strip(l), strip(r)
		for k, lp := range l {
			rp, ok := r[k]
			if !ok {
				continue
			}
			m := map[uint32]float64{}
			for t, lv := range lp {
				if rv, ok := rp[t]; ok {
					switch q.Op {
					case "+":
						m[t] = lv + rv
					case "-":
						m[t] = lv - rv
					case "*":
						m[t] = lv * rv
					}
				}
			}
			if len(m) > 0 {
				out[k] = m
			}
		}
	}
	return out
}

// "cpu{host:v1,zone:v2," / "cpu{host:v1" -> name, labels
func parseID(id string) (string, map[string]string, bool) {
	i := strings.Index(id, "{")
	if i < 0 {
		return id, nil, false
	}
	name, rest := id[:i], strings.TrimSuffix(id[i+1:], ",")
	ls := map[string]string{}
	if rest != "" {
		for _, kv := range strings.Split(rest, ",") {
			j := strings.Index(kv, ":")
			if j < 0 {
				return name, ls, false
			}
			if old, dup := ls[kv[:j]]; dup && old != kv[j+1:] {
				return name, ls, false // one label with two values; the same pair twice is one label (by (a, a))
			}
			ls[kv[:j]] = kv[j+1:]
		}
	}
	return name, ls, true
}

// canonical form of an observed answer; problems (unparsable id, two ids with one label set) are returned
func canonObs(q qspec, o qobs) (answer, []string) {
	out := answer{}
	var probs []string
	for id, pts := range o.Res {
		if len(pts) == 0 {
			continue
		}
		name, ls, ok := parseID(id)
		if !ok {
			probs = append(probs, fmt.Sprintf("unparsable series id %q", id))
			continue
		}
		if q.Kind == "sel" {
			if name != q.Name {
				probs = append(probs, fmt.Sprintf("series id %q has metric name %q", id, name))
			}
		} else {
			name = ""
		}
		key := canonLabels(name, ls)
		if _, dup := out[key]; dup {
			probs = append(probs, fmt.Sprintf("label set %s reported twice", key))
		}
		m := map[uint32]float64{}
		for t, v := range pts {
			m[t] = v
		}
		out[key] = m
	}
	return out, probs
}

func sameKeys(a, b answer) bool {
	if len(a) != len(b) {
		return false
	}
	for k := range a {
		if _, ok := b[k]; !ok {
			return false
		}
	}
	return true
}
func sameAnswer(a, b answer) bool {
	if !sameKeys(a, b) {
		return false
	}
	for k, am := range a {
		bm := b[k]
		if len(am) != len(bm) {
			return false
		}
		for t, v := range am {
			if w, ok := bm[t]; !ok || w != v {
				return false
			}
		}
	}
	return true
}

// the answer restricted to the time range [t0+lo, t0+hi]; series left without a sample disappear
func restrict(a answer, t0 uint32, lo, hi int) answer {
	out := answer{}
	for k, m := range a {
		for t, v := range m {
			if off := int(t) - int(t0); off >= lo && off <= hi {
				if out[k] == nil {
					out[k] = map[uint32]float64{}
				}
				out[k][t] = v
			}
		}
	}
	return out
}

func showAnswer(a answer, t0 uint32) string {
	var ks []string
	for k := range a {
		ks = append(ks, k)
	}
	sort.Strings(ks)
	var sb strings.Builder
	for _, k := range ks {
		var ts []int
		for t := range a[k] {
			ts = append(ts, int(t))
		}
		sort.Ints(ts)
		sb.WriteString(k + ":")
		for _, t := range ts {
			fmt.Fprintf(&sb, " +%d=%g", t-int(t0), a[k][uint32(t)])
		}
		sb.WriteString("; ")
	}
	if sb.Len() == 0 {
		return "(nothing)"
	}
	return sb.String()
}

// ---------- generator ----------
var keyPool = []string{"a", "ab", "b", "ba", "c"}
var valPool = []string{"x", "y", "1", "xa", "2"}
var namePool = []string{"m", "cpu", "req", "n"}
var rePool = []string{"x|y", "x.*", ".*", "1|2", "zz", "y|xa.*", "xa|1", "x", "a"}

func subset(r *vhlib.Rng, pool []string, n int) []string {
	idx := map[int]bool{}
	for len(idx) < n {
		idx[r.Intn(len(pool))] = true
	}
	var out []string
	for i, s := range pool {
		if idx[i] {
			out = append(out, s)
		}
	}
	return out
}

func genSeries(r *vhlib.Rng, name string, keys []string, n int, nvals int) []serie {
	seen := map[string]bool{}
	var out []serie
	for tries := 0; len(out) < n && tries < 200; tries++ {
		s := serie{Name: name}
		for _, k := range keys {
			s.Tags = append(s.Tags, tag{k, valPool[r.Intn(nvals)]})
		}
		key := canonLabels(name, labelMap(s))
		if seen[key] {
			continue
		}
		seen[key] = true
		out = append(out, s)
	}
	return out
}

func genOffsets(r *vhlib.Rng, n int) []int {
	seen := map[int]bool{}
	var out []int
	for len(out) < n {
		o := r.Range(1, 295)
		if !seen[o] {
			seen[o] = true
			out = append(out, o)
		}
	}
	sort.Ints(out)
	return out
}

// datapoints: every series takes a subset of a shared offset pool (so series meet at timestamps);
// values are multiples of 60 (sums, and averages over up to 6 series, are exact integers)
func genPoints(r *vhlib.Rng, d *dataset, sameTimes bool) {
	offs := genOffsets(r, r.Range(4, 7))
	offPhase := make([]int, len(offs))
	for i := range offs {
		offPhase[i] = r.Intn(2)
	}
	offPhase[0], offPhase[len(offs)-1] = 0, 1
	for si := range d.Series {
		mode := r.Intn(4) // 0: all before the rotation, 1: all after it, 2,3: split
		for oi, o := range offs {
			if !sameTimes && r.Chance(35) {
				continue
			}
			ph := offPhase[oi]
			if !sameTimes {
				switch mode {
				case 0:
					ph = 0
				case 1:
					ph = 1
				}
			}
			d.DPs = append(d.DPs, dpoint{S: si, T: d.T0 + uint32(o), V: int64(60 * r.Range(-3, 20)), Phase: ph})
		}
	}
	// every series has at least one point
	has := map[int]bool{}
	for _, p := range d.DPs {
		has[p.S] = true
	}
	for si := range d.Series {
		if !has[si] {
			d.DPs = append(d.DPs, dpoint{S: si, T: d.T0 + uint32(offs[0]), V: 60, Phase: 0})
		}
	}
	// ingest order: shuffled (the store is fed in arbitrary order)
	for i := len(d.DPs) - 1; i > 0; i-- {
		j := r.Intn(i + 1)
		d.DPs[i], d.DPs[j] = d.DPs[j], d.DPs[i]
	}
}

func genMatcher(r *vhlib.Rng, key string) matcher {
	switch r.Intn(4) {
	case 0:
		return matcher{key, "=", valPool[r.Intn(4)]}
	case 1:
		return matcher{key, "!=", valPool[r.Intn(4)]}
	case 2:
		return matcher{key, "=~", vhlib.Pick(r, rePool)}
	default:
		return matcher{key, "!~", vhlib.Pick(r, rePool)}
	}
}

func genMatchers(r *vhlib.Rng, keys []string, n int) []matcher {
	var ms []matcher
	for _, k := range subset(r, keys, n) {
		ms = append(ms, genMatcher(r, k))
	}
	// query order of matchers is arbitrary
	if len(ms) == 2 && r.Bool() {
		ms[0], ms[1] = ms[1], ms[0]
	}
	return ms
}

// group-key extraction searches the id string for "field:"; it is exact when no OTHER key in the id
// ends with the field (names and values never contain ':' or ',' here)
func substrOK(idKeys []string, gl []string) bool {
	for _, f := range gl {
		for _, k := range idKeys {
			if k != f && strings.HasSuffix(k, f) {
				return false
			}
		}
	}
	return true
}

var fns = []string{"sum", "min", "max", "avg", "count"}

type metricInfo struct {
	name string
	keys []string
}

func genMain(r *vhlib.Rng, arith bool) (dataset, []qspec) {
	d := dataset{T0: uint32(1700000000 + r.Intn(1000)*400)}
	names := subset(r, namePool, 2)
	var mi []metricInfo
	if arith {
		keys := subset(r, keyPool, r.Range(1, 3))
		combos := genSeries(r, "", keys, r.Range(3, 6), 3)
		for _, n := range names {
			for _, c := range combos {
				if r.Chance(75) {
					d.Series = append(d.Series, serie{Name: n, Tags: c.Tags})
				}
			}
			mi = append(mi, metricInfo{n, keys})
		}
		if len(d.Series) == 0 {
			d.Series = append(d.Series, serie{Name: names[0], Tags: combos[0].Tags}, serie{Name: names[1], Tags: combos[0].Tags})
		}
	} else {
		for _, n := range names {
			keys := subset(r, keyPool, r.Range(2, 3))
			d.Series = append(d.Series, genSeries(r, n, keys, r.Range(3, 6), r.Range(2, 4))...)
			mi = append(mi, metricInfo{n, keys})
		}
	}
	genPoints(r, &d, arith)

	var qs []qspec
	for _, m := range mi {
		qs = append(qs, qspec{Kind: "sel", Name: m.name, Fam: -1})
	}
	for i := 0; i < 5; i++ {
		m := vhlib.Pick(r, mi)
		qs = append(qs, qspec{Kind: "sel", Name: m.name, Ms: genMatchers(r, m.keys, r.Range(1, min(2, len(m.keys)))), Fam: -1})
	}
	nfam := 3
	if arith {
		nfam = 1
	}
	for fam := 0; fam < nfam; fam++ {
		m := vhlib.Pick(r, mi)
		var ms []matcher
		if r.Chance(40) {
			ms = genMatchers(r, m.keys, 1)
		}
		var grp string
		var gl []string
		for tries := 0; tries < 20; tries++ {
			grp, gl = "", nil
			switch r.Intn(3) {
			case 1:
				grp = "by"
				gl = subset(r, m.keys, r.Range(1, len(m.keys)))
				if r.Bool() { // query order of the list is arbitrary
					for i, j := 0, len(gl)-1; i < j; i, j = i+1, j-1 {
						gl[i], gl[j] = gl[j], gl[i]
					}
				}
			case 2:
				if len(m.keys) > 1 {
					grp = "without"
					gl = subset(r, m.keys, r.Range(1, len(m.keys)-1))
				}
			}
			idKeys := append([]string{}, gl...)
			for _, x := range ms {
				idKeys = append(idKeys, x.K)
			}
			if grp != "by" || substrOK(idKeys, gl) {
				break
			}
			grp, gl = "", nil
		}
		for _, fn := range fns {
			qs = append(qs, qspec{Kind: "agg", Fn: fn, Grp: grp, GL: gl, Name: m.name, Ms: ms, Fam: fam})
		}
	}
	// nested aggregations: families (one inner aggregation and outer clause, all five outer functions) and singles
	nNestFam, nNestSingle := 1, 3
	if arith {
		nNestFam, nNestSingle = 0, 2
	}
	nr := r.Fork()
	for i := 0; i < nNestFam+nNestSingle; i++ {
		fam := -1
		if i < nNestFam {
			fam = 10 + i
		}
		qs = appendNested(qs, genNested(nr, vhlib.Pick(nr, mi), fam))
	}
	if arith {
		for i := 0; i < 4; i++ {
			l := qspec{Kind: "sel", Name: mi[0].name, Fam: -1}
			rr := qspec{Kind: "sel", Name: mi[1].name, Fam: -1}
			if r.Bool() {
				rr.Name, l.Name = l.Name, rr.Name
			}
			if r.Chance(40) {
				// both operands filter on the same key, so both id strings list the labels in the same order
				k := vhlib.Pick(r, mi[0].keys)
				l.Ms = []matcher{genMatcher(r, k)}
				rr.Ms = []matcher{genMatcher(r, k)}
			}
			qs = append(qs, qspec{Kind: "arith", Op: vhlib.Pick(r, []string{"+", "-", "*"}), L: &l, R: &rr, Fam: -1})
		}
	}
	for i := range qs {
		qs[i].Full = -1
	}
	return d, addWindows(r.Fork(), d, qs)
}

// ---------- nested aggregations ----------
// fn2 g2 (fn1 g1 (selector)): the clauses of the two layers name the same labels, nested (outer within inner),
// overlapping or disjoint label lists, by and without in every combination, over selectors with and
// without matchers.  Every label is carried by every series of the metric (absent labels are the known
// class agg_by_absent_label) and no label of the metric ends with a by-label (agg_group_key_substring).
func genNested(r *vhlib.Rng, m metricInfo, fam int) []qspec {
	var ms []matcher
	if r.Chance(40) {
		ms = genMatchers(r, m.keys, 1)
	}
	list := func(pool []string, lo, hi int) []string {
		gl := subset(r, pool, r.Range(lo, hi))
		if r.Bool() {
			for i, j := 0, len(gl)-1; i < j; i, j = i+1, j-1 {
				gl[i], gl[j] = gl[j], gl[i]
			}
		}
		if r.Chance(10) { // a label written twice in one clause: by (a, b, a)
			gl = append(gl, vhlib.Pick(r, gl))
		}
		return gl
	}
	var g1, g2 string
	var l1, l2 []string
	ok := false
	for tries := 0; tries < 40 && !ok; tries++ {
		g1, l1, g2, l2 = "", nil, "", nil
		switch r.Intn(7) {
		case 0:
		case 5, 6:
			if len(m.keys) > 1 {
				g1, l1 = "without", list(m.keys, 1, len(m.keys)-1)
			}
		default:
			g1, l1 = "by", list(m.keys, 1, len(m.keys))
		}
		switch r.Intn(11) {
		case 0:
		case 1: // the same labels again
			if g1 == "by" {
				g2, l2 = "by", append([]string{}, l1...)
			}
		case 2, 3: // some of the inner clause's labels again
			if len(l1) > 1 {
				g2, l2 = "by", list(l1, 1, len(l1)-1)
			} else if len(l1) == 1 {
				g2, l2 = "by", append([]string{}, l1...)
			}
		case 4, 7: // any labels of the metric
			g2, l2 = "by", list(m.keys, 1, len(m.keys))
		case 5, 8: // labels the inner clause does not name
			var rest []string
			for _, k := range m.keys {
				in := false
				for _, x := range l1 {
					in = in || x == k
				}
				if !in {
					rest = append(rest, k)
				}
			}
			if len(rest) > 0 {
				g2, l2 = "by", list(rest, 1, len(rest))
			}
		case 6, 9, 10:
			g2, l2 = "without", list(m.keys, 1, len(m.keys))
		}
		ok = (g1 != "by" || substrOK(m.keys, l1)) && (g2 != "by" || substrOK(m.keys, l2))
	}
	if !ok {
		g1, l1, g2, l2 = "", nil, "", nil
	}
	inner := qspec{Kind: "agg", Fn: vhlib.Pick(r, fns), Grp: g1, GL: l1, Name: m.name, Ms: ms, Fam: -1}
	var out []qspec
	if fam >= 0 {
		for _, fn := range fns {
			in := inner
			out = append(out, qspec{Kind: "nest", Fn: fn, Grp: g2, GL: l2, In: &in, Fam: fam})
		}
	} else {
		in := inner
		out = append(out, qspec{Kind: "nest", Fn: vhlib.Pick(r, fns), Grp: g2, GL: l2, In: &in, Fam: -1})
	}
	return out
}

// the inner aggregation of every nested query is also asked on its own (once), so that the nested answer can
// be compared with the outer aggregation of the implementation's own inner answer
func appendNested(qs []qspec, nested []qspec) []qspec {
	for _, q := range nested {
		idx := -1
		for i := range qs {
			if qs[i].Kind == "agg" && qs[i].Kn == "" && qs[i].promql() == q.In.promql() {
				idx = i
				break
			}
		}
		if idx < 0 {
			alone := *q.In
			alone.Aux = true
			qs = append(qs, alone)
			idx = len(qs) - 1
		}
		q.InQ = idx + 1
		qs = append(qs, q)
	}
	return qs
}

// how the label lists of the two clauses relate
func nestRelation(q qspec) string {
	if len(q.GL) == 0 || len(q.In.GL) == 0 {
		return "one_clause_without_labels"
	}
	set := func(l []string) map[string]bool {
		m := map[string]bool{}
		for _, x := range l {
			m[x] = true
		}
		return m
	}
	o, in := set(q.GL), set(q.In.GL)
	common := 0
	for a := range o {
		if in[a] {
			common++
		}
	}
	switch {
	case common == 0:
		return "disjoint"
	case common == len(o) && common == len(in):
		return "same_labels"
	case common == len(o):
		return "outer_within_inner"
	default:
		return "overlapping"
	}
}

// ---------- query time ranges ----------
// A narrow range has its ends on / next to timestamps that carry datapoints (both ends are inclusive)
// or anywhere in the window; datapoints lie before, inside and after it and arrive in shuffled order,
// so a block holds out-of-range datapoints before and after in-range ones.
func genWindow(r *vhlib.Rng, d dataset) (int, int) {
	seen := map[int]bool{}
	var offs []int
	for _, p := range d.DPs {
		if o := int(p.T - d.T0); !seen[o] {
			seen[o] = true
			offs = append(offs, o)
		}
	}
	sort.Ints(offs)
	edge := func() int {
		if r.Chance(25) {
			return r.Range(0, window)
		}
		return vhlib.Pick(r, offs) + vhlib.Pick(r, []int{-1, 0, 0, 1})
	}
	lo, hi := edge(), edge()
	if r.Chance(10) {
		hi = lo // one-second range
	}
	if lo > hi {
		lo, hi = hi, lo
	}
	if lo < 0 {
		lo = 0
	}
	if hi > window {
		hi = window
	}
	if lo == 0 && hi == 0 {
		hi = 1 // (0,0) encodes the full window
	}
	return lo, hi
}

// every plain selector, and about half of the other queries (families as a whole), is asked a second
// time over a narrow range; the copy remembers the full-window query it came from
func addWindows(r *vhlib.Rng, d dataset, qs []qspec) []qspec {
	var w [2][2]int
	for i := range w {
		w[i][0], w[i][1] = genWindow(r, d)
	}
	famWin := map[int]int{}
	n := len(qs)
	for i := 0; i < n; i++ {
		q := qs[i]
		var wi int
		switch {
		case q.Aux:
			wi = 2
		case q.Kind == "sel" && len(q.Ms) == 0:
			wi = i % 2
		case q.Fam >= 0:
			if _, ok := famWin[q.Fam]; !ok {
				famWin[q.Fam] = r.Intn(4) // 0,1: window, 2,3: no copy
			}
			wi = famWin[q.Fam]
		default:
			wi = r.Intn(4)
		}
		if wi > 1 {
			continue
		}
		c := q
		c.Lo, c.Hi, c.Full = w[wi][0], w[wi][1], i
		if c.Fam >= 0 {
			c.Fam += 100 * (wi + 1)
		}
		qs = append(qs, c)
	}
	return qs
}

// ---------- known-defect stream (separate generator, classes listed in known/C09.json) ----------
func genKnown(r *vhlib.Rng, which int) (dataset, []qspec) {
	d := dataset{T0: uint32(1700000000 + r.Intn(1000)*400)}
	var qs []qspec
	v := func() string { return valPool[r.Intn(2)] }
	switch which {
	case 0: // matchers / group-by on a label that some series of the metric do not carry
		d.Series = []serie{
			{"m", []tag{{"a", "1"}}},
			{"m", []tag{{"a", "2"}, {"b", v()}}},
			{"m", []tag{{"a", "xa"}, {"b", "2"}}},
			{"m", []tag{{"a", "y"}, {"c", v()}}},
			{"n", []tag{{"c", "x"}}},
		}
		for _, m := range []matcher{{"b", "!=", "2"}, {"b", "=", ""}, {"b", "=~", ".*"}, {"b", "!~", "x"}, {"zz", "!=", "x"}, {"Zz", "=~", ".*"}, {"c", "!=", "x"}} {
			qs = append(qs, qspec{Kind: "sel", Name: "m", Ms: []matcher{m}, Fam: -1, Kn: "selector_absent_label"})
		}
		qs = append(qs, qspec{Kind: "sel", Name: "m", Ms: []matcher{{"a", "=~", "1|2"}, {"zz", "=~", "x"}}, Fam: -1, Kn: "selector_absent_label"})
		qs = append(qs, qspec{Kind: "sel", Name: "m", Ms: []matcher{{"Zz", "!=", "x"}, {"a", "!=", "1"}}, Fam: -1, Kn: "selector_absent_label"})
		qs = append(qs, qspec{Kind: "agg", Fn: "sum", Name: "m", Ms: []matcher{{"b", "!=", "2"}}, Fam: -1, Kn: "selector_absent_label"})
		for _, fn := range []string{"sum", "count", "avg"} {
			qs = append(qs, qspec{Kind: "agg", Fn: fn, Grp: "by", GL: []string{"b"}, Name: "m", Fam: -1, Kn: "agg_by_absent_label"})
		}
		qs = append(qs, qspec{Kind: "agg", Fn: "max", Grp: "by", GL: []string{"c", "b"}, Name: "m", Fam: -1, Kn: "agg_by_absent_label"})
	case 1: // group key found by substring search: "b:" inside "ab:", "a:" inside "ba:"
		keys := []string{"a", "ab", "b", "ba"}
		d.Series = genSeries(r, "m", keys, 5, 2)
		for _, fn := range []string{"sum", "min", "count"} {
			qs = append(qs, qspec{Kind: "agg", Fn: fn, Grp: "by", GL: keys, Name: "m", Fam: -1, Kn: "agg_group_key_substring"})
		}
		qs = append(qs, qspec{Kind: "agg", Fn: "sum", Grp: "by", GL: []string{"b"}, Name: "m", Ms: []matcher{{"ab", "=~", ".*"}}, Fam: -1, Kn: "agg_group_key_substring"})
		qs = append(qs, qspec{Kind: "agg", Fn: "max", Grp: "by", GL: []string{"a"}, Name: "m", Ms: []matcher{{"ba", "!=", "zz"}}, Fam: -1, Kn: "agg_group_key_substring"})
		qs = append(qs, qspec{Kind: "agg", Fn: "avg", Grp: "by", GL: []string{"ab", "b"}, Name: "m", Fam: -1, Kn: "agg_group_key_substring"})
		// without (every label): one group {} is expected, nothing is returned
		for _, fn := range []string{"sum", "count"} {
			qs = append(qs, qspec{Kind: "agg", Fn: fn, Grp: "without", GL: keys, Name: "m", Fam: -1, Kn: "agg_without_all_labels"})
		}
	case 2: // two matchers on one label: the second one is dropped by ReorderTagFilters
		d.Series = genSeries(r, "m", []string{"a", "b"}, 5, 3)
		qs = append(qs, qspec{Kind: "sel", Name: "m", Ms: []matcher{{"a", "!=", "x"}, {"a", "!=", "y"}}, Fam: -1, Kn: "selector_duplicate_label_matcher"})
		qs = append(qs, qspec{Kind: "sel", Name: "m", Ms: []matcher{{"a", "=~", "x|y"}, {"a", "!=", "x"}}, Fam: -1, Kn: "selector_duplicate_label_matcher"})
		qs = append(qs, qspec{Kind: "agg", Fn: "sum", Name: "m", Ms: []matcher{{"b", "=~", ".*"}, {"b", "=", "x"}}, Fam: -1, Kn: "selector_duplicate_label_matcher"})
	case 3: // arithmetic: label order inside the id string, and a missing right-hand sample read as 0
		keys := []string{"a", "b"}
		combos := genSeries(r, "", keys, 4, 2)
		for _, n := range []string{"m", "n"} {
			for _, c := range combos {
				d.Series = append(d.Series, serie{Name: n, Tags: c.Tags})
			}
		}
		l := qspec{Kind: "sel", Name: "m", Ms: []matcher{{"b", "=~", ".*"}}, Fam: -1}
		rr := qspec{Kind: "sel", Name: "n", Fam: -1}
		qs = append(qs, qspec{Kind: "arith", Op: "+", L: &l, R: &rr, Fam: -1, Kn: "arith_label_order_mismatch"})
		l2 := qspec{Kind: "sel", Name: "m", Fam: -1}
		for _, op := range []string{"+", "*", "-"} {
			qs = append(qs, qspec{Kind: "arith", Op: op, L: &l2, R: &rr, Fam: -1, Kn: "arith_missing_sample_as_zero"})
		}
		// the same pairing by id text: a selector's ids end in a comma ("m{a:x,b:y,"), a by-aggregation's do not ("m{a:x,b:y"),
		// so a selector never pairs with an aggregation by all of its labels (both entry points)
		gb := qspec{Kind: "agg", Fn: "sum", Grp: "by", GL: keys, Name: "m", Fam: -1}
		for _, t := range []*fnode{{Op: "-", L: &fnode{Ref: 0}, R: &fnode{Ref: 1}, Ref: -1}, {Op: "+", L: &fnode{Ref: 1}, R: &fnode{Ref: 0}, Ref: -1}} {
			f := qspec{Kind: "form", Ops: []qspec{l2, gb}, Tree: t, API: "formula", Fam: -1, Kn: "arith_label_order_mismatch", Twin: len(qs) + 1}
			p := f
			p.API, p.Twin = "promql", len(qs)
			qs = append(qs, f, p)
		}
	}
	genPoints(r, &d, false)
	for i := range qs {
		qs[i].Full = -1
	}
	return d, qs
}

// which failure kinds a known-defect query may legitimately show
var knownKinds = map[string][]string{
	"selector_absent_label":            {"selector_wrong_series", "agg_wrong_groups", "agg_wrong_value"},
	"agg_by_absent_label":              {"agg_wrong_groups", "agg_wrong_value"},
	"agg_group_key_substring":          {"agg_wrong_groups", "agg_wrong_value"},
	"agg_without_all_labels":           {"agg_wrong_groups"},
	"selector_duplicate_label_matcher": {"selector_wrong_series", "agg_wrong_value", "agg_wrong_groups"},
	"arith_label_order_mismatch":       {"arith_wrong_series", "formula_wrong_series", "formula_ne_promql_endpoint_answer"},
	"arith_missing_sample_as_zero":     {"arith_wrong_value", "arith_wrong_series"}, // a pair without any common timestamp still yields a series
}

// ---------- Coq emission ----------
func coqRat(v float64) string {
	rat := new(big.Rat)
	if rat.SetFloat64(v) == nil {
		return "(Qmake 0 1)" // NaN/Inf never equals a model value: reported through the oracle
	}
	n := rat.Num().String()
	if rat.Num().Sign() < 0 {
		n = "(" + n + ")"
	}
	return fmt.Sprintf("(Qmake %s %s)", n, rat.Denom().String())
}

func coqDB(d dataset, split bool, maxPhase int) string {
	var items []string
	for si, s := range d.Series {
		var chunks [][]string
		cur := map[int][]string{}
		for _, p := range d.DPs {
			if p.S != si || p.Phase > maxPhase {
				continue
			}
			ph := p.Phase
			if !split {
				ph = 0
			}
			cur[ph] = append(cur[ph], fmt.Sprintf("(%d,%s)", p.T-d.T0, vhlib.CoqZ(p.V)))
		}
		for ph := 0; ph <= 1; ph++ {
			if len(cur[ph]) > 0 {
				chunks = append(chunks, cur[ph])
			}
		}
		if len(chunks) == 0 {
			continue // the series does not exist yet at this stage
		}
		var ls, cs []string
		for _, t := range s.Tags {
			ls = append(ls, "("+vhlib.CoqStr(t.K)+","+vhlib.CoqStr(t.V)+")")
		}
		for _, c := range chunks {
			cs = append(cs, vhlib.CoqList(c)+"%Z")
		}
		items = append(items, fmt.Sprintf("mk_series %s %s %s", vhlib.CoqStr(s.Name), vhlib.CoqList(ls), vhlib.CoqList(cs)))
	}
	return vhlib.CoqListNL(items)
}

func coqObs(o qobs, t0 uint32) string {
	var ids []string
	for id, pts := range o.Res {
		if len(pts) > 0 {
			ids = append(ids, id)
		}
	}
	sort.Strings(ids)
	var items []string
	for _, id := range ids {
		var ts []int
		for t := range o.Res[id] {
			ts = append(ts, int(t))
		}
		sort.Ints(ts)
		var ps []string
		for _, t := range ts {
			ps = append(ps, fmt.Sprintf("(%d%%Z,%s)", t-int(t0), coqRat(o.Res[id][uint32(t)])))
		}
		items = append(items, "("+vhlib.CoqStr(id)+","+vhlib.CoqList(ps)+")")
	}
	return vhlib.CoqList(items)
}

// ---------- driver ----------
type job struct {
	idx   int
	known bool
	arith bool
	form  bool
	d     dataset
	qs    []qspec
	split []stageObs // run with the rotation between phase 0 and phase 1
	whole []stageObs // run with everything ingested before the (single) rotation
	err   string
}

func stageOf(obs []stageObs, name string) *stageObs {
	for i := range obs {
		if obs[i].Stage == name {
			return &obs[i]
		}
	}
	return nil
}

func main() {
	log.SetLevel(log.PanicLevel)
	if len(os.Args) > 1 && os.Args[1] == "worker" {
		workerMain(os.Args[2:])
		return
	}
	if len(os.Args) > 1 && os.Args[1] == "probe" {
		probeMain(os.Args[2:])
		return
	}
	cfg := vhlib.ParseFlags()
	sum := vhlib.NewSummary("distinct = (dataset, query, stage) with a non-empty expected answer")
	r := vhlib.NewRng(cfg.Seed)
	mainRng, knownRng := r.Fork(), r.Fork()

	nMain, nKnownRounds := 60, 2
	if cfg.Thorough() {
		nMain, nKnownRounds = 700, 12
	}
	var jobs []*job
	for i := 0; i < nMain; i++ {
		arith := i%4 == 3
		d, qs := genMain(mainRng.Fork(), arith)
		jobs = append(jobs, &job{idx: len(jobs), arith: arith, d: d, qs: qs})
	}
	for k := 0; k < nKnownRounds; k++ {
		for w := 0; w < 4; w++ {
			d, qs := genKnown(knownRng.Fork(), w)
			jobs = append(jobs, &job{idx: len(jobs), known: true, d: d, qs: qs})
		}
	}
	// formulas through the formula API and through the PromQL endpoints (own generator stream, after the others)
	formRng := r.Fork()
	nForm := 8
	if cfg.Thorough() {
		nForm = 120
	}
	for i := 0; i < nForm; i++ {
		d, qs := genFormulaDS(formRng.Fork())
		jobs = append(jobs, &job{idx: len(jobs), form: true, d: d, qs: qs})
	}

	// C09_ONLY=formula / C09_ONLY=noformula: run only (or leave out) the formula stream (exploration and timing; not used by ./check)
	if only := os.Getenv("C09_ONLY"); only != "" {
		var keep []*job
		for _, j := range jobs {
			if (only == "formula") == j.form {
				j.idx = len(keep)
				keep = append(keep, j)
			}
		}
		jobs = keep
	}
	// run the real implementation (one worker process per store), a few at a time
	root := filepath.Join(cfg.Out, "runs")
	var wg sync.WaitGroup
	sem := make(chan struct{}, 10)
	for _, j := range jobs {
		for qi, q := range j.qs {
			j.d.Queries = append(j.d.Queries, q.promql())
			lo, hi := q.win()
			j.d.Wins = append(j.d.Wins, [2]int{lo, hi})
			if q.Kind == "form" && q.API == "formula" {
				if j.d.Forms == nil {
					j.d.Forms = map[int]formReq{}
				}
				j.d.Forms[qi] = q.formReq()
			}
		}
		wg.Add(1)
		go func(j *job) {
			defer wg.Done()
			sem <- struct{}{}
			defer func() { <-sem }()
			var err error
			if j.split, err = runWorker(filepath.Join(root, fmt.Sprintf("d%d_split", j.idx)), j.d); err != nil {
				j.err = "split run: " + err.Error()
				return
			}
			w := j.d
			w.DPs = append([]dpoint{}, j.d.DPs...)
			for i := range w.DPs {
				w.DPs[i].Phase = 0
			}
			if j.whole, err = runWorker(filepath.Join(root, fmt.Sprintf("d%d_whole", j.idx)), w); err != nil {
				j.err = "unsplit run: " + err.Error()
			}
		}(j)
	}
	wg.Wait()

	var defs strings.Builder
	var exprs []string
	ncases, fileNo := 0, 0
	flushFile := func() {
		if len(exprs) == 0 {
			return
		}
		sum.WriteCaseFile(filepath.Join(cfg.Out, "cases"), fmt.Sprintf("c09_%03d", fileNo),
			"From SigM Require Import Base Promql PromqlFormula PromqlCheck.\nFrom Coq Require Import QArith.\n",
			defs.String(), strings.Join(exprs, "\n  ++ "), ncases)
		defs.Reset()
		exprs = nil
		ncases = 0
		fileNo++
	}
	_ = os.MkdirAll(filepath.Join(cfg.Out, "cases"), 0o755)

	for _, j := range jobs {
		stream := "main"
		if j.known {
			stream = "known"
		} else if j.arith {
			stream = "main_arith"
		} else if j.form {
			stream = "formula"
		}
		caseOf := func(qi int, stage string) map[string]interface{} {
			lo, hi := j.qs[qi].win()
			return map[string]interface{}{"dataset": j.d, "query": j.qs[qi].show(), "query_index": qi, "range": [2]int{lo, hi}, "stage": stage,
				"replay": "save the dataset object as d.json (its queries / wins fields list all queries of the run and their time ranges [t0+lo, t0+hi]) and run: work/bin/c09 probe d.json"}
		}
		if j.err != "" {
			sum.Fail("metrics_worker_crash", j.err, map[string]interface{}{"dataset": j.d})
			continue
		}
		for _, so := range append(append([]stageObs{}, j.split...), j.whole...) {
			if so.Stage == "harness" {
				sum.HarnessError(strings.Join(so.Errs, "; "))
			}
			if so.Stage == "ingest" {
				sum.Fail("metrics_ingest_rejected", strings.Join(so.Errs, "; "), map[string]interface{}{"dataset": j.d})
			}
		}
		type stageRef struct {
			name     string
			obs      *stageObs
			maxPhase int
			split    bool
		}
		stages := []stageRef{
			{"open", stageOf(j.split, "open"), 0, true}, {"rotated", stageOf(j.split, "rotated"), 0, true},
			{"mixed", stageOf(j.split, "mixed"), 1, true}, {"rotated2", stageOf(j.split, "rotated2"), 1, true},
			{"whole_open", stageOf(j.whole, "open"), 1, false}, {"whole_rotated", stageOf(j.whole, "rotated"), 1, false},
		}
		canon := map[string][]answer{}
		formDeviates := map[string]bool{} // stage/query: the formula is designed to answer differently from PromQL here
		for _, st := range stages {
			if st.obs == nil || len(st.obs.Q) != len(j.qs) {
				sum.HarnessError(fmt.Sprintf("dataset %d: stage %s missing", j.idx, st.name))
				continue
			}
			canon[st.name] = make([]answer, len(j.qs))
			for qi, q := range j.qs {
				o := st.obs.Q[qi]
				want := expect(q, j.d, st.maxPhase)
				got, probs := canonObs(q, o)
				canon[st.name][qi] = got
				sum.Eval(fmt.Sprintf("%d/%d/%s", j.idx, qi, st.name), len(want) > 0)
				sum.Count("stream/" + stream)
				sum.Count("stage/" + st.name)
				kind := q.Kind
				if q.Kind == "agg" {
					kind = "agg/" + q.Fn + "/" + map[string]string{"": "none", "by": "by", "without": "without"}[q.Grp]
				}
				if q.Kind == "nest" {
					gname := map[string]string{"": "none", "by": "by", "without": "without"}
					kind = "nest/" + gname[q.Grp] + "_over_" + gname[q.In.Grp]
					sum.Count("nest_labels/" + nestRelation(q))
					if q.Grp != q.In.Grp && q.Grp != "" && q.In.Grp != "" {
						sum.Count("nest_labels/by_and_without_mixed")
					}
					for _, l := range [][]string{q.GL, q.In.GL} {
						seen := map[string]bool{}
						for _, x := range l {
							if seen[x] {
								sum.Count("nest_labels/label_twice_in_one_clause")
							}
							seen[x] = true
						}
					}
					sum.Count("nest_functions/" + q.Fn + "_of_" + q.In.Fn)
					if len(q.In.Ms) == 0 {
						sum.Count("nest_selector/no_matcher")
					} else {
						sum.Count("nest_selector/with_matcher")
					}
				}
				if q.Kind == "form" {
					kind = "form/" + q.API
					if q.API == "formula" {
						sum.Count(fmt.Sprintf("formula/nesting_depth_%d", q.Tree.depth()))
						texts, repeated, multi := map[string]int{}, false, 0
						ops := q.operandAnswers(j.d, st.maxPhase, lo0(q), hi0(q))
						for _, i := range q.Tree.refs() {
							texts[q.Ops[i].promql()]++
							repeated = repeated || texts[q.Ops[i].promql()] > 1
							if len(ops[i]) > 1 {
								multi++
							}
						}
						if repeated {
							sum.Count("formula/operand_text_repeated")
						} else if len(q.Tree.refs()) > 1 {
							sum.Count("formula/operands_distinct")
						}
						sum.Count(fmt.Sprintf("formula/multi_series_operand_positions_%d", min(multi, 3)))
						if repeated && multi > 1 && len(texts) == 1 {
							sum.Count("formula/one_multi_series_text_at_several_positions")
						}
						if q.Tree.vecVecNodes() < q.Tree.depth() || (q.Tree.Op != "" && (q.Tree.L.IsNum || q.Tree.R.IsNum)) {
							sum.Count("formula/with_number_literal")
						}
						for i, o := range q.Ops {
							if len(ops[i]) == 1 {
								sum.Count("formula/operand_with_one_series")
							}
							if o.Kind == "agg" {
								sum.Count("formula/aggregation_operand")
							}
						}
					}
				}
				sum.Count("query/" + kind)
				if q.narrow() {
					sum.Count("range/narrow")
					if len(want) == 0 {
						sum.Count("range/narrow_empty_answer")
					} else if len(expectIn(q, j.d, st.maxPhase, 0, window)) > 0 && !sameAnswer(want, expectIn(q, j.d, st.maxPhase, 0, window)) {
						sum.Count("range/narrow_cuts_datapoints")
					}
				} else {
					sum.Count("range/full")
				}
				fail := func(cls, detail string) {
					if q.Kn != "" {
						for _, k := range knownKinds[q.Kn] {
							if k == cls {
								cls = q.Kn
							}
						}
					}
					sum.Fail(cls, fmt.Sprintf("%s at stage %s: %s", q.show(), st.name, detail), caseOf(qi, st.name))
				}
				pre := map[string]string{"sel": "selector", "agg": "agg", "arith": "arith", "nest": "nested_agg", "form": "arith"}[q.Kind]
				if q.Kind == "form" && q.API == "formula" {
					pre = "formula"
				}
				wrongSeries := map[string]string{"sel": "selector_wrong_series", "agg": "agg_wrong_groups", "arith": "arith_wrong_series", "nest": "nested_agg_wrong_groups", "form": pre + "_wrong_series"}[q.Kind]
				wrongValue := map[string]string{"sel": "selector_wrong_samples", "agg": "agg_wrong_value", "arith": "arith_wrong_value", "nest": "nested_agg_wrong_value", "form": pre + "_wrong_value"}[q.Kind]
				// formulas: what the code is designed to answer where that is not the PromQL answer (known classes)
				var designed answer
				designedFails, lonePairings := false, 0
				if q.Kind == "form" {
					designed, designedFails, lonePairings = designedForm(q, j.d, st.maxPhase, lo0(q), hi0(q))
					if o.Scalar != nil {
						probs = append(probs, fmt.Sprintf("scalar answer %g for a vector expression", *o.Scalar))
					}
				}
				if designedFails {
					sum.Count("formula/nested_operation_with_empty_result")
				}
				if len(o.Errs) > 0 {
					// (fixed by 962cee9; a regression is reported under the class of the repaired finding)
					if designedFails && strings.Contains(strings.Join(o.Errs, "; "), "result is empty and scalarValuePtr is nil") {
						fail("arith_nested_empty_operand_is_error", fmt.Sprintf("PromQL answer %s, the request failed: %s", showAnswer(want, j.d.T0), strings.Join(o.Errs, "; ")))
					} else {
						fail(pre+"_query_error", strings.Join(o.Errs, "; "))
					}
					continue
				}
				if len(probs) > 0 {
					fail(wrongSeries, strings.Join(probs, "; "))
					continue
				}
				formDeviates[fmt.Sprintf("%s/%d", st.name, qi)] = q.Kind == "form" && !sameAnswer(designed, want)
				// the time range: no reported sample lies outside it ...
				if lo, hi := q.win(); !sameAnswer(got, restrict(got, j.d.T0, lo, hi)) {
					fail("sample_outside_query_range", fmt.Sprintf("range [+%d,+%d], returned %s", lo, hi, showAnswer(got, j.d.T0)))
				}
				// ... and the answer is the implementation's own full-window answer restricted to the range
				if q.Full >= 0 && q.Kn == "" && len(st.obs.Q[q.Full].Errs) == 0 &&
					!formDeviates[fmt.Sprintf("%s/%d", st.name, qi)] && !formDeviates[fmt.Sprintf("%s/%d", st.name, q.Full)] {
					lo, hi := q.win()
					if full := restrict(canon[st.name][q.Full], j.d.T0, lo, hi); !sameAnswer(got, full) {
						fail("range_answer_not_restriction_of_full_answer", fmt.Sprintf("the answer over the full window, restricted to the range, is %s; the query over the range returned %s",
							showAnswer(full, j.d.T0), showAnswer(got, j.d.T0)))
					}
				}
				// nesting = the outer aggregation applied to the inner aggregation's answer: the implementation's own answer
				// to the inner query (same stage, same time range), aggregated by the PromQL outer clause, is the nested answer
				if q.Kind == "nest" && q.InQ > 0 && q.Kn == "" {
					iq := j.qs[q.InQ-1]
					ilo, ihi := iq.win()
					lo, hi := q.win()
					if io := st.obs.Q[q.InQ-1]; ilo == lo && ihi == hi && len(io.Errs) == 0 {
						if vec, ok := vectorOfObs(io); ok {
							if outer := answerOf(aggLayer(q.Fn, q.Grp, q.GL, vec)); !sameAnswer(outer, got) {
								clause := q.Fn
								if q.Grp != "" {
									clause += " " + q.Grp + " (" + strings.Join(q.GL, ",") + ")"
								}
								fail("nested_ne_outer_of_inner_answer", fmt.Sprintf("%s alone returns %s; the PromQL %s of that vector is %s; the nested query returned %s",
									iq.promql(), showAnswer(answerOf(vec), j.d.T0), clause, showAnswer(outer, j.d.T0), showAnswer(got, j.d.T0)))
							}
						}
					}
				}
				// a formula through the formula API answers like the expanded expression through the PromQL endpoints
				// (wherever the formula API is not designed to leave PromQL)
				if q.Kind == "form" && q.API == "formula" && !formDeviates[fmt.Sprintf("%s/%d", st.name, qi)] && len(st.obs.Q[q.Twin].Errs) == 0 {
					if tw, tp := canonObs(j.qs[q.Twin], st.obs.Q[q.Twin]); len(tp) == 0 && !sameAnswer(tw, got) {
						fail("formula_ne_promql_endpoint_answer", fmt.Sprintf("the expanded expression %s through the PromQL endpoints returns %s; the formula API returned %s",
							q.expanded(), showAnswer(tw, j.d.T0), showAnswer(got, j.d.T0)))
					}
				}
				if !sameAnswer(want, got) && q.Kind == "form" && q.API == "formula" && lonePairings > 0 && sameAnswer(designed, got) {
					fail("formula_lone_series_operand_ignores_labels", fmt.Sprintf("PromQL answer %s, returned %s", showAnswer(want, j.d.T0), showAnswer(got, j.d.T0)))
				} else if !sameKeys(want, got) {
					fail(wrongSeries, fmt.Sprintf("PromQL answer %s, returned %s", showAnswer(want, j.d.T0), showAnswer(got, j.d.T0)))
				} else if !sameAnswer(want, got) {
					fail(wrongValue, fmt.Sprintf("PromQL answer %s, returned %s", showAnswer(want, j.d.T0), showAnswer(got, j.d.T0)))
				}
			}
			// relations between the five aggregations of one family, on the implementation's own answers
			fams := map[int]map[string]answer{}
			for qi, q := range j.qs {
				if q.Fam >= 0 && q.Kn == "" {
					if fams[q.Fam] == nil {
						fams[q.Fam] = map[string]answer{}
					}
					fams[q.Fam][q.Fn] = canon[st.name][qi]
				}
			}
			for fam, a := range fams {
				for g, avg := range a["avg"] {
					for t, av := range avg {
						s, okS := a["sum"][g][t]
						c, okC := a["count"][g][t]
						mn, okMn := a["min"][g][t]
						mx, okMx := a["max"][g][t]
						if okS && okC && (c == 0 || av != s/c) {
							sum.Fail("avg_ne_sum_div_count", fmt.Sprintf("family %d group %s t=+%d: avg %g, sum %g, count %g (stage %s)", fam, g, t-j.d.T0, av, s, c, st.name), caseOf(0, st.name))
						}
						if okMn && okMx && !(mn <= av && av <= mx) {
							sum.Fail("min_avg_max_order", fmt.Sprintf("family %d group %s t=+%d: min %g, avg %g, max %g (stage %s)", fam, g, t-j.d.T0, mn, av, mx, st.name), caseOf(0, st.name))
						}
					}
				}
			}
		}
		// same data, different physical layout: the answers must be identical
		pairs := [][3]string{{"open", "rotated", "open_vs_rotated_differ"}, {"mixed", "rotated2", "open_vs_rotated_differ"},
			{"whole_open", "whole_rotated", "open_vs_rotated_differ"}, {"rotated2", "whole_rotated", "split_changes_answer"}, {"mixed", "whole_open", "split_changes_answer"}}
		for _, p := range pairs {
			a, b := canon[p[0]], canon[p[1]]
			if a == nil || b == nil {
				continue
			}
			for qi, q := range j.qs {
				if !sameAnswer(a[qi], b[qi]) {
					sum.Fail(p[2], fmt.Sprintf("%s: stage %s returns %s, stage %s returns %s", q.show(), p[0], showAnswer(a[qi], j.d.T0), p[1], showAnswer(b[qi], j.d.T0)), caseOf(qi, p[0]+"/"+p[1]))
				}
			}
		}
		if j.idx < 3 || (j.known && len(sum.Samples) < 4) {
			sum.Sample(map[string]interface{}{"stream": stream, "series": len(j.d.Series), "datapoints": len(j.d.DPs), "queries": j.d.Queries})
		}

		// model cases: the model is run on the store contents of every stage
		fmt.Fprintf(&defs, "Definition db%d_a : list series := %s.\n", j.idx, coqDB(j.d, true, 0))
		fmt.Fprintf(&defs, "Definition db%d_b : list series := %s.\n", j.idx, coqDB(j.d, true, 1))
		fmt.Fprintf(&defs, "Definition db%d_c : list series := %s.\n", j.idx, coqDB(j.d, false, 1))
		for qi, q := range j.qs {
			if q.Kind == "form" {
				fmt.Fprintf(&defs, "Definition q%d_%d : ftree := %s.\n", j.idx, qi, q.coqTree(q.Tree))
				continue
			}
			fmt.Fprintf(&defs, "Definition q%d_%d : qcase := %s.\n", j.idx, qi, q.coqCase())
		}
		for si, st := range stages {
			if st.obs == nil || len(st.obs.Q) != len(j.qs) {
				continue
			}
			// maximal runs of plain cases / formula cases, each with the index of its first query
			db := map[int]string{0: "a", 1: "a", 2: "b", 3: "b", 4: "c", 5: "c"}[si]
			var items []string
			runStart, runForm := 0, false
			flushRun := func(end int) {
				if len(items) == 0 {
					return
				}
				if runForm {
					fmt.Fprintf(&defs, "Definition fs%d_%d_%d : list ((Z * Z) * bool * ftree * fobs) := %s.\n", j.idx, si, runStart, vhlib.CoqListNL(items))
					exprs = append(exprs, fmt.Sprintf("check_formulas_w db%d_%s fs%d_%d_%d %d", j.idx, db, j.idx, si, runStart, j.idx*10000+si*1000+runStart))
				} else {
					fmt.Fprintf(&defs, "Definition cs%d_%d_%d : list ((Z * Z) * qcase * obs) := %s.\n", j.idx, si, runStart, vhlib.CoqListNL(items))
					exprs = append(exprs, fmt.Sprintf("check_cases_w db%d_%s cs%d_%d_%d %d", j.idx, db, j.idx, si, runStart, j.idx*10000+si*1000+runStart))
				}
				items = nil
			}
			for qi := range j.qs {
				isForm := j.qs[qi].Kind == "form"
				if isForm != runForm {
					flushRun(qi)
					runStart, runForm = qi, isForm
				}
				lo, hi := j.qs[qi].win()
				if isForm {
					items = append(items, fmt.Sprintf("((%d, %d)%%Z, %v, q%d_%d, %s)", lo, hi, j.qs[qi].API == "formula", j.idx, qi, coqFormObs(st.obs.Q[qi], j.d.T0)))
				} else {
					items = append(items, fmt.Sprintf("((%d, %d)%%Z, q%d_%d, %s)", lo, hi, j.idx, qi, coqObs(st.obs.Q[qi], j.d.T0)))
				}
			}
			flushRun(len(j.qs))
			ncases += len(j.qs)
		}
		if ncases >= 450 {
			flushFile()
		}
	}
	flushFile()
	sum.Notes = append(sum.Notes,
		"values are multiples of 60 and at most 6 series share a metric, so sums and averages are exact integers in binary64; results are compared exactly",
		"all datapoints lie within a 300 s window (down-sampling step 1 s, one point per series and second)",
		"nested aggregations fn2 g2 (fn1 g1 (selector)): one family (all five outer functions) and three single queries per dataset, clauses naming the same / nested / overlapping / disjoint labels or a label twice, by and without mixed, selectors with and without matchers; PromQL answer = outer aggregation of the inner aggregation's vector; also compared with the outer aggregation of the implementation's own answer to the inner query asked alone",
		"time ranges: every query over the full window [t0, t0+300]; every plain selector and about half of the other queries a second time over a narrow range whose ends lie on / next to datapoint timestamps (datapoints before, inside and after the range, ingested in shuffled order)",
		"model comparison: exact series-id byte strings (label order included) and exact sample values, for every stage (open, rotated, open+rotated, two rotated segments, unsplit)",
		"formulas (stream formula): trees of + - * / over one to three operand queries (selectors with several series, a selector with one series, aggregations with and without by-clause) and number literals, operands repeated under one name and under two names, nested up to three levels; every formula is asked through the formula API (queries + formulas request, ProcessMetricsQueryRequest) and as the expanded expression through the PromQL endpoints' call sequence, over the full window and narrow ranges; oracle = PromQL answer of the expanded expression for both, and equality of the two answers",
		"case index = dataset*10000 + stage*1000 + query")
	sum.Write(cfg.Out)
	_ = os.RemoveAll(root)
}

package main

import (
	"context"
	"encoding/json"
	"fmt"
	"math"
	"os"
	"os/exec"
	"sort"
	"time"

	jp "github.com/buger/jsonparser"
	"github.com/siglens/siglens/pkg/config"
	"github.com/siglens/siglens/pkg/integrations/prometheus/promql"
	"github.com/siglens/siglens/pkg/segment"
	"github.com/siglens/siglens/pkg/segment/memory/limit"
	"github.com/siglens/siglens/pkg/segment/query"
	"github.com/siglens/siglens/pkg/segment/structs"
	"github.com/siglens/siglens/pkg/segment/writer/metrics"
	"github.com/siglens/siglens/pkg/segment/writer/metrics/meta"
)

// ---------- dataset / observation formats shared by driver and worker ----------
type tag struct {
	K string `json:"k"`
	V string `json:"v"`
}
type serie struct {
	Name string `json:"name"`
	Tags []tag  `json:"tags"` // sorted by key
}
type dpoint struct {
	S     int    `json:"s"`     // index into Series
	T     uint32 `json:"t"`     // epoch seconds
	V     int64  `json:"v"`     // small integer value (exact in float64)
	Phase int    `json:"phase"` // 0: ingested before the first rotation, 1: after it (second segment)
}
type dataset struct {
	T0      uint32   `json:"t0"`
	Series  []serie  `json:"series"`
	DPs     []dpoint `json:"dps"`
	Queries []string `json:"queries"`
	Wins    [][2]int `json:"wins,omitempty"` // per query: time range [t0+lo, t0+hi] (both inclusive); absent = [0, window]
	// per query index: the request for the metrics-explorer / formula API (queries + formulas JSON,
	// promql.ProcessMetricsQueryRequest); absent = the query text goes through the PromQL endpoints' call sequence
	Forms map[int]formReq `json:"forms,omitempty"`
}

// the body of a metrics-explorer request: named queries and one formula over the names
type formReq struct {
	Names   []string `json:"names"`
	Queries []string `json:"queries"`
	Formula string   `json:"formula"`
}

func (d dataset) win(qi int) (int, int) {
	if qi < len(d.Wins) {
		return d.Wins[qi][0], d.Wins[qi][1]
	}
	return 0, window
}

// one query at one stage: raw series id string -> timestamp -> value
type qobs struct {
	Query string                        `json:"q"`
	Res   map[string]map[uint32]float64 `json:"res"`
	Errs  []string                      `json:"errs,omitempty"`
	// the answer is a scalar (MetricsResult.IsScalar)
	Scalar *float64 `json:"scalar,omitempty"`
}
type stageObs struct {
	Stage string   `json:"stage"`
	Q     []qobs   `json:"q"`
	Errs  []string `json:"errs,omitempty"`
}

const window = 300 // seconds; CalculateInterval(300) = 1 s, so no two points of a series share a bucket

func initMetrics(dir string) error {
	cfg := config.GetTestConfig(dir + "/")
	cfg.SSInstanceName = "test"
	config.SetConfig(cfg)
	if err := config.InitDerivedConfig("test"); err != nil {
		return err
	}
	limit.InitMemoryLimiter()
	metrics.InitTestingConfig()
	return meta.InitMetricsMeta()
}

var qid uint64 = 5000

func runQuery(q string, t0 uint32, lo, hi int) qobs {
	o := qobs{Query: q, Res: map[string]map[uint32]float64{}}
	defer func() {
		if r := recover(); r != nil {
			o.Errs = append(o.Errs, fmt.Sprintf("panic: %v", r))
		}
	}()
	reqs, _, ariths, err := promql.ConvertPromQLToMetricsQuery(q, t0+uint32(lo), t0+uint32(hi), 0)
	if err != nil || len(reqs) == 0 {
		o.Errs = append(o.Errs, fmt.Sprintf("parse: %v", err))
		return o
	}
	qid++
	if len(ariths) == 0 {
		r := segment.ExecuteMetricsQuery(&reqs[0].MetricsQuery, &reqs[0].TimeRange, qid)
		if r == nil {
			o.Errs = append(o.Errs, "nil result")
			return o
		}
		for _, e := range r.ErrList {
			o.Errs = append(o.Errs, e.Error())
		}
		for k, m := range r.Results {
			o.Res[k] = m
		}
		return o
	}
	// vector arithmetic: the same call sequence as ProcessPromqlMetricsRangeSearchRequest
	hashes := make([]uint64, 0, len(reqs))
	mqs := make([]*structs.MetricsQuery, 0, len(reqs))
	for i := range reqs {
		hashes = append(hashes, reqs[i].MetricsQuery.QueryHash)
		mqs = append(mqs, &reqs[i].MetricsQuery)
	}
	r := segment.ExecuteMultipleMetricsQuery(hashes, mqs, ariths, &reqs[0].TimeRange, qid, false)
	if r == nil {
		o.Errs = append(o.Errs, "nil result")
		return o
	}
	for _, e := range r.ErrList {
		o.Errs = append(o.Errs, e.Error())
	}
	for k, m := range r.Results {
		o.Res[k] = m
	}
	return o
}

// the metrics-explorer / formula API: the same function the /metrics-explorer/api/v1/timeseries handler and the
// alert evaluation call with the parsed request body (queries + formulas)
func runFormula(f formReq, t0 uint32, lo, hi int) qobs {
	o := qobs{Query: f.Formula, Res: map[string]map[uint32]float64{}}
	defer func() {
		if r := recover(); r != nil {
			o.Errs = append(o.Errs, fmt.Sprintf("panic: %v", r))
		}
	}()
	var queries []map[string]interface{}
	for i, n := range f.Names {
		queries = append(queries, map[string]interface{}{"name": n, "query": f.Queries[i], "qlType": "promql"})
	}
	formulas := []map[string]interface{}{{"formula": f.Formula}}
	qid++
	r, _, _, _, err := promql.ProcessMetricsQueryRequest(queries, formulas, t0+uint32(lo), t0+uint32(hi), 0, qid)
	if err != nil {
		o.Errs = append(o.Errs, "request: "+err.Error())
		return o
	}
	if r == nil {
		o.Errs = append(o.Errs, "nil result")
		return o
	}
	for _, e := range r.ErrList {
		o.Errs = append(o.Errs, e.Error())
	}
	for k, m := range r.Results {
		o.Res[k] = m
	}
	if r.IsScalar {
		v := r.ScalarValue
		o.Scalar = &v
	}
	return o
}

func queryStage(d dataset, stage string) stageObs {
	so := stageObs{Stage: stage}
	for qi, q := range d.Queries {
		lo, hi := d.win(qi)
		if f, ok := d.Forms[qi]; ok {
			so.Q = append(so.Q, runFormula(f, d.T0, lo, hi))
			continue
		}
		so.Q = append(so.Q, runQuery(q, d.T0, lo, hi))
	}
	return so
}

func ingest(d dataset, phase int) []string {
	var errs []string
	for _, p := range d.DPs {
		if p.Phase != phase {
			continue
		}
		s := d.Series[p.S]
		th := metrics.GetTagsHolder()
		for _, t := range s.Tags {
			th.Insert(t.K, []byte(t.V), jp.String)
		}
		if err := metrics.EncodeDatapoint([]byte(s.Name), th, float64(p.V), p.T, 40, 0); err != nil {
			errs = append(errs, err.Error())
		}
	}
	return errs
}

func rotateAll() error {
	for _, mSeg := range metrics.GetAllMetricsSegments() {
		if err := mSeg.CheckAndRotate(true); err != nil {
			return err
		}
	}
	metrics.ResetMetricsSegStore_TestOnly()
	return query.PopulateMetricsMetadataForTheFile_TestOnly(meta.GetLocalMetricsMetaFName())
}

// worker <dir> <dataset.json> <out.json>
func workerMain(args []string) {
	dir, df, of := args[0], args[1], args[2]
	var d dataset
	b, _ := os.ReadFile(df)
	_ = json.Unmarshal(b, &d)
	ctx, cancel := context.WithCancel(context.Background())
	defer cancel()
	go query.PullQueriesToRun(ctx)
	var out []stageObs
	flush := func() {
		ob, _ := json.Marshal(out)
		_ = os.WriteFile(of, ob, 0o644)
		os.Exit(0)
	}
	fail := func(e string) {
		out = append(out, stageObs{Stage: "harness", Errs: []string{e}})
		flush()
	}
	if err := initMetrics(dir); err != nil {
		fail("init: " + err.Error())
	}
	hasPhase1 := false
	for _, p := range d.DPs {
		if p.Phase == 1 {
			hasPhase1 = true
		}
	}
	if e := ingest(d, 0); len(e) > 0 {
		out = append(out, stageObs{Stage: "ingest", Errs: e})
	}
	out = append(out, queryStage(d, "open"))
	if err := rotateAll(); err != nil {
		fail("rotate: " + err.Error())
	}
	out = append(out, queryStage(d, "rotated"))
	if hasPhase1 {
		if e := ingest(d, 1); len(e) > 0 {
			out = append(out, stageObs{Stage: "ingest", Errs: e})
		}
		out = append(out, queryStage(d, "mixed"))
		if err := rotateAll(); err != nil {
			fail("rotate2: " + err.Error())
		}
		out = append(out, queryStage(d, "rotated2"))
	}
	flush()
}

func runWorker(dir string, d dataset) ([]stageObs, error) {
	_ = os.MkdirAll(dir, 0o755)
	df, of, data := dir+"/dataset.json", dir+"/obs.json", dir+"/data"
	b, _ := json.Marshal(d)
	_ = os.WriteFile(df, b, 0o644)
	ctx, cancel := context.WithTimeout(context.Background(), 120*time.Second)
	defer cancel()
	cmd := exec.CommandContext(ctx, os.Args[0], "worker", data, df, of)
	err := cmd.Run()
	_ = os.RemoveAll(data)
	if err != nil {
		return nil, err
	}
	var o []stageObs
	ob, err := os.ReadFile(of)
	if err != nil {
		return nil, err
	}
	if err := json.Unmarshal(ob, &o); err != nil {
		return nil, err
	}
	return o, nil
}

// probe <dataset.json>: prints the raw results (used for replays and exploration)
func probeMain(args []string) {
	var d dataset
	b, err := os.ReadFile(args[0])
	if err != nil {
		fmt.Println(err)
		os.Exit(2)
	}
	if err := json.Unmarshal(b, &d); err != nil {
		fmt.Println(err)
		os.Exit(2)
	}
	dir, _ := os.MkdirTemp("", "C09_probe")
	defer os.RemoveAll(dir)
	obs, err := runWorker(dir, d)
	if err != nil {
		fmt.Println("worker:", err)
	}
	for _, so := range obs {
		fmt.Printf("== stage %s %v\n", so.Stage, so.Errs)
		for qi, q := range so.Q {
			lo, hi := d.win(qi)
			api := ""
			if f, ok := d.Forms[qi]; ok {
				api = fmt.Sprintf("   [formula API: %v = %q]", f.Names, f.Queries)
			}
			fmt.Printf("  %s   over [+%d,+%d]   errs=%v%s\n", q.Query, lo, hi, q.Errs, api)
			if q.Scalar != nil {
				fmt.Printf("     scalar %g\n", *q.Scalar)
			}
			var ids []string
			for id := range q.Res {
				ids = append(ids, id)
			}
			sort.Strings(ids)
			for _, id := range ids {
				var ts []int
				for t := range q.Res[id] {
					ts = append(ts, int(t))
				}
				sort.Ints(ts)
				fmt.Printf("     %q:", id)
				for _, t := range ts {
					v := q.Res[id][uint32(t)]
					if v == math.Trunc(v) {
						fmt.Printf(" %d=%d", t-int(d.T0), int64(v))
					} else {
						fmt.Printf(" %d=%g", t-int(d.T0), v)
					}
				}
				fmt.Println()
			}
		}
	}
}

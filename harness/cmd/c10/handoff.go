// handoff.go: the hand-off from the three metrics WALs (datapoints, metric names, meta entries) to the durable store
// at a forced rotation (shutdown: ForceFlushMetricsBlock -> CheckAndRotate(true) -> rotateBlock / rotateSegment).
// A traced worker ingests, completes an append of each log and runs the forced rotation; every prefix of its
// file-system calls is rebuilt at the ORIGINAL path (the logged entries hold absolute paths) and the real start-up
// recovery (RecoverWALData, RecoverMNameWALData, RecoverMEntryWALData) runs on it in a fresh process.  Oracle, from the
// property text: after the restart every datapoint / metric name / segment meta entry whose log append had completed
// before the crash is in the store (block files / .mnm / metricmeta.json), and nothing else is.
package main

import (
	"bufio"
	"encoding/json"
	"fmt"
	"os"
	"os/exec"
	"path/filepath"
	"sort"
	"strings"
	"sync"

	jp "github.com/buger/jsonparser"
	"github.com/siglens/siglens/cmd/startup"
	"github.com/siglens/siglens/pkg/config"
	"github.com/siglens/siglens/pkg/segment/memory/limit"
	"github.com/siglens/siglens/pkg/segment/reader/metrics/series"
	"github.com/siglens/siglens/pkg/segment/structs"
	sutils "github.com/siglens/siglens/pkg/segment/utils"
	"github.com/siglens/siglens/pkg/segment/writer/metrics"
	"github.com/siglens/siglens/pkg/segment/writer/metrics/meta"
	"github.com/siglens/siglens/pkg/segment/writer/metrics/wal"

	"verifharness/vhlib"
)

func metricsInit(dir string) {
	c := config.GetTestConfig(dir + "/")
	c.SSInstanceName = "test"
	config.SetConfig(c)
	if err := config.InitDerivedConfig("test"); err != nil {
		os.Exit(3)
	}
	limit.InitMemoryLimiter()
	metrics.InitTestingConfig()
	if err := meta.InitMetricsMeta(); err != nil {
		os.Exit(3)
	}
}

// The restart.  The three recovery functions are NOT called from here: the worker runs the real start-up function of an
// ingest node, startIngestServer (cmd/startup/startup.go, through the add-only hook hooks/C10_startup.go), in safe mode
// (the listener goroutine then only serves /health on an ephemeral port).  The order of RecoverWALData,
// RecoverMNameWALData and RecoverMEntryWALData - which depend on each other's side effects: the segment directory that
// FlushMetricNames needs is created by flushBlock - is therefore the order the start-up code uses.
func startupRecovery() {
	config.GetRunningConfig().SafeServerStart = true
	startup.VerifStartIngestServer("127.0.0.1:0")
}

// what the worker reports about the appends it completed (written OUTSIDE the traced directory)
type hoLogged struct {
	Names   []string          `json:"names"`   // the metric names picked for the scenario
	Shards  map[string]string `json:"shards"`  // metric name -> shard (Mid)
	Entries map[string]uint64 `json:"entries"` // MSegmentDir -> DatapointCount of the entries whose Wal.Write completed
	NSegs   int               `json:"nsegs"`
}

// handoffworker <dir> <info.json> <n> <flushSize> <pick 1|s2|d2|d3> <flushDp 0|1> <mode real|seq> [maxWalFileBytes]
// ingest n datapoints (datapoint i: metric names[i%len], timestamp base+i, value i), complete one append of the
// metric-name log and one Write of the meta-entry log (the bodies of the 1-second loops), mark, forced rotation, exit.
func handoffWorker(args []string) {
	dir, info := args[0], args[1]
	var n, fs, flushDp int
	fmt.Sscanf(args[2], "%d", &n)
	fmt.Sscanf(args[3], "%d", &fs)
	pick := args[4]
	fmt.Sscanf(args[5], "%d", &flushDp)
	mode := args[6]
	if len(args) > 7 {
		var mx int
		fmt.Sscanf(args[7], "%d", &mx)
		if mx > 0 {
			sutils.MAX_WAL_FILE_SIZE_BYTES = uint64(mx)
		}
	}
	earlier := 0 // datapoints ingested before an ordinary (size-triggered) block rotation: the segment directory then exists
	if len(args) > 8 {
		fmt.Sscanf(args[8], "%d", &earlier)
	}
	sutils.WAL_BLOCK_FLUSH_SIZE = fs
	metricsInit(dir)
	// metric names by the shard they are routed to (xxhash of the name modulo the number of segments)
	var names []string
	{
		byShard := map[string][]string{}
		var order []string
		for i := 0; i < 64; i++ {
			nm := fmt.Sprintf("walm%d", i)
			sh := metrics.VerifShardOf([]byte(nm))
			if len(byShard[sh]) == 0 {
				order = append(order, sh)
			}
			byShard[sh] = append(byShard[sh], nm)
		}
		switch pick {
		case "1":
			names = []string{"walm0"}
		case "s2":
			for _, sh := range order {
				if len(byShard[sh]) >= 2 {
					names = byShard[sh][:2]
					break
				}
			}
		default: // dK: K names on K different shards (fewer when the node has fewer segments)
			var k int
			fmt.Sscanf(pick, "d%d", &k)
			for _, sh := range order {
				if len(names) < k {
					names = append(names, byShard[sh][0])
				}
			}
		}
	}
	if len(names) == 0 {
		os.Exit(7)
	}
	for i := 0; i < n; i++ {
		if earlier > 0 && i == earlier {
			// the block is "full": timeBasedRotate's body, CheckAndRotate(false) -> rotateBlock (flushBlock creates the
			// segment directory, the datapoint log of block 0 is deleted, block 1 starts); the segment stays open
			mx := sutils.MAX_BYTES_METRICS_BLOCK
			sutils.MAX_BYTES_METRICS_BLOCK = 1
			for _, ms := range metrics.GetAllMetricsSegments() {
				if err := ms.CheckAndRotate(false); err != nil {
					os.Exit(6)
				}
			}
			sutils.MAX_BYTES_METRICS_BLOCK = mx
		}
		th := metrics.GetTagsHolder()
		th.Insert("host", []byte("h1"), jp.String)
		if err := metrics.EncodeDatapoint([]byte(names[i%len(names)]), th, float64(i), uint32(1700000000+i), 40, 0); err != nil {
			os.Exit(4)
		}
	}
	if flushDp == 1 {
		metrics.VerifDpWalFlushOnce()
	}
	metrics.VerifMNameWalFlushOnce()
	ents, err := metrics.VerifMetaEntryWalFlushOnce()
	if err != nil {
		os.Exit(5)
	}
	lg := hoLogged{Names: names, Shards: map[string]string{}, Entries: ents, NSegs: len(metrics.GetAllMetricsSegments())}
	for _, nm := range names {
		lg.Shards[nm] = metrics.VerifShardOf([]byte(nm))
	}
	b, _ := json.Marshal(lg)
	_ = os.WriteFile(info, b, 0o644)
	_ = os.WriteFile(filepath.Join(dir, "MARK_forced_rotation"), []byte("x"), 0o644)
	_ = mode
	metrics.ForceFlushMetricsBlock() // the shutdown path: one goroutine per segment with data, then the meta-entry WAL is deleted
	os.Exit(0)
}

// what the store holds after the restart
type hoSeg struct {
	Dir   string   `json:"dir"`
	Dps   uint64   `json:"dps"`
	Names []string `json:"names"`
	NmErr string   `json:"names_err,omitempty"`
}
type hoRecovered struct {
	Meta      []hoSeg             `json:"meta"`       // metricmeta.json as ReadMetricsMeta sees it
	Mnm       []hoSeg             `json:"mnm"`        // every <segment>.mnm file: the metric names of the segment
	MetaLines int                 `json:"meta_lines"` // lines of metricmeta.json
	Points    map[string][]uint32 `json:"points"`     // metric name -> timestamps found in the block files of all segments
	Blocks    map[string][]uint32 `json:"blocks"`     // "<shard>/<block number>" -> timestamps found in the files of that block
	Listed    map[string][]uint32 `json:"listed"`     // ... of the segments listed in metricmeta.json only
	BadVal    int                 `json:"bad_values"`
	Errs      []string            `json:"errs,omitempty"`
}

// handoffrecover <dir> <out.json> <names,comma> [restart|observe]
// restart: the real start-up of an ingest node, then the store is read back; observe: the store is only read back (the
// state a restart would find)
func handoffRecover(args []string) {
	dir, of := args[0], args[1]
	names := strings.Split(args[2], ",")
	metricsInit(dir)
	if len(args) < 4 || args[3] != "observe" {
		startupRecovery()
	}
	out := hoRecovered{Points: map[string][]uint32{}, Listed: map[string][]uint32{}, Blocks: map[string][]uint32{}}
	ents, err := meta.GetLocalMetricsMetaEntries()
	if err != nil {
		out.Errs = append(out.Errs, "metricmeta.json: "+err.Error())
	}
	listed := map[string]bool{}
	for d, e := range ents {
		s := hoSeg{Dir: d, Dps: e.DatapointCount}
		nm, err := series.GetAllMetricNames(d)
		if err != nil {
			s.NmErr = err.Error()
		}
		for k := range nm {
			s.Names = append(s.Names, k)
		}
		sort.Strings(s.Names)
		out.Meta = append(out.Meta, s)
		listed[d] = true
	}
	sort.Slice(out.Meta, func(a, b int) bool { return out.Meta[a].Dir < out.Meta[b].Dir })
	if f, err := os.Open(meta.GetLocalMetricsMetaFName()); err == nil {
		sc := bufio.NewScanner(f)
		sc.Buffer(make([]byte, 1<<20), 1<<26)
		for sc.Scan() {
			out.MetaLines++
		}
		f.Close()
	}
	_ = filepath.Walk(dir, func(p string, fi os.FileInfo, err error) error {
		if err != nil || fi.IsDir() || !strings.HasSuffix(p, ".mnm") {
			return nil
		}
		s := hoSeg{Dir: strings.TrimSuffix(p, ".mnm")}
		nm, err := series.GetAllMetricNames(s.Dir)
		if err != nil {
			s.NmErr = err.Error()
		}
		for k := range nm {
			s.Names = append(s.Names, k)
		}
		sort.Strings(s.Names)
		out.Mnm = append(out.Mnm, s)
		return nil
	})
	tsids := map[string]uint64{}
	for _, nm := range names {
		th := metrics.GetTagsHolder()
		th.Insert("host", []byte("h1"), jp.String)
		id, err := th.GetTSID([]byte(nm))
		if err != nil {
			os.Exit(4)
		}
		tsids[nm] = id
	}
	qm := &structs.MetricsQueryProcessingMetrics{UpdateLock: &sync.Mutex{}}
	_ = filepath.Walk(dir, func(p string, fi os.FileInfo, err error) error {
		if err != nil || fi.IsDir() || !strings.HasSuffix(p, ".tso") {
			return nil
		}
		base := strings.TrimSuffix(p, ".tso")
		i := strings.LastIndex(base, "_")
		segKey := base[:i]
		var blk uint16
		fmt.Sscanf(base[i+1:], "%d", &blk)
		defer func() {
			if r := recover(); r != nil {
				out.Errs = append(out.Errs, fmt.Sprintf("%s block %d: the block reader panics: %v", segKey, blk, r))
			}
		}()
		tssr, err := series.InitTimeSeriesReader(segKey)
		if err != nil {
			out.Errs = append(out.Errs, segKey+": "+err.Error())
			return nil
		}
		defer tssr.Close()
		tsbr, err := tssr.InitReaderForBlock(blk, qm)
		if err != nil {
			out.Errs = append(out.Errs, fmt.Sprintf("%s block %d: %v", segKey, blk, err))
			return nil
		}
		for nm, id := range tsids {
			itr, found, err := tsbr.GetTimeSeriesIterator(id)
			if err != nil {
				out.Errs = append(out.Errs, fmt.Sprintf("%s block %d series %s: %v", segKey, blk, nm, err))
				continue
			}
			if !found {
				continue
			}
			for itr.Next() {
				t, v := itr.At()
				if v != float64(int(t)-1700000000) {
					out.BadVal++
				}
				out.Points[nm] = append(out.Points[nm], t)
				bk := fmt.Sprintf("%s/%d", shardOfFinal(segKey), blk)
				out.Blocks[bk] = append(out.Blocks[bk], t)
				if listed[segKey] {
					out.Listed[nm] = append(out.Listed[nm], t)
				}
			}
		}
		return nil
	})
	ob, _ := json.Marshal(out)
	_ = os.WriteFile(of, ob, 0o644)
	os.Exit(0)
}

type hoScenario struct {
	N       int    `json:"datapoints"`
	Fs      int    `json:"wal_block_flush_size"`
	Mx      int    `json:"max_wal_file_bytes"` // 0 = default (one WAL file per block)
	Pick    string `json:"metric_names"`       // 1 = one name; d2/d3 = names on 2/3 different shards; s2 = two names on one shard
	FlushDp bool   `json:"dp_timer_flush_before_shutdown"`
	Earlier int    `json:"datapoints_before_an_ordinary_block_rotation"` // 0 = the segment is still in its first block (no directory) when it crashes
}

func copyTree(src, dst string) error {
	return filepath.Walk(src, func(p string, fi os.FileInfo, err error) error {
		if err != nil {
			return err
		}
		rel, _ := filepath.Rel(src, p)
		t := filepath.Join(dst, rel)
		if fi.IsDir() {
			return os.MkdirAll(t, 0o755)
		}
		b, err := os.ReadFile(p)
		if err != nil {
			return err
		}
		return os.WriteFile(t, b, 0o644)
	})
}

func walHandoffCrash(cfg vhlib.Config, sum *vhlib.Summary, r *vhlib.Rng) {
	self, _ := os.Executable()
	// stream A: all the data of the node in one shard
	scs := []hoScenario{
		{N: 23, Fs: 5, Mx: 100, Pick: "1", FlushDp: false},
	}
	if cfg.Thorough() {
		scs = append(scs, hoScenario{N: 40, Fs: 7, Pick: "s2", FlushDp: true},
			hoScenario{N: r.Range(5, 60), Fs: vhlib.Pick(r, []int{3, 10, 100}), Mx: vhlib.Pick(r, []int{0, 150}), Pick: "1", FlushDp: r.Bool()})
	}
	for si, sc := range scs {
		runHandoff(cfg, sum, self, fmt.Sprintf("a%d", si), sc, true)
	}
	// stream B: data in several shards; the meta-entry log is one file for all of them
	scb := []hoScenario{{N: 12, Fs: 4, Pick: "d2", FlushDp: true}}
	if cfg.Thorough() {
		scb = append(scb, hoScenario{N: 30, Fs: 4, Pick: "d3", FlushDp: false})
	}
	for si, sc := range scb {
		runHandoff(cfg, sum, self, fmt.Sprintf("b%d", si), sc, false)
	}
	// stream C: what a restart finds of a segment in its FIRST block (no segment directory) and of one that has rotated
	// a block before (directory exists), with the logs flushed in either order: the three recovery functions cooperate
	// through that directory, so the ORDER in which start-up calls them matters exactly in the first kind of state
	scc := []hoScenario{
		{N: 3, Fs: 5, Pick: "1", FlushDp: false},             // the name log is flushed, no datapoint append completes before the shutdown
		{N: 14, Fs: 4, Pick: "1", FlushDp: true, Earlier: 6}, // block 0 rotated by size, crash states of block 1
	}
	if cfg.Thorough() {
		scc = append(scc, hoScenario{N: 4, Fs: 9, Pick: "d2", FlushDp: false},
			hoScenario{N: 30, Fs: 4, Pick: "d2", FlushDp: r.Bool(), Earlier: 10},
			hoScenario{N: r.Range(8, 40), Fs: vhlib.Pick(r, []int{3, 50}), Pick: "s2", FlushDp: r.Bool(), Earlier: r.Range(1, 7)})
	}
	for si, sc := range scc {
		// phase 2 (the traced recovery against recovery_ops_store_first) needs a state in which all three logs hold
		// something at the mark (not the names-only scenarios) and data in one shard (the recovery functions walk the
		// shards in map order)
		runHandoff(cfg, sum, self, fmt.Sprintf("c%d", si), sc, sc.Earlier > 0 && !strings.HasPrefix(sc.Pick, "d"))
	}
}

type hoMilestone struct {
	op    int
	kind  string // Stored | Dropped
	k     string // KDp | KName | KMeta
	shard string
}

func shardOfWal(p string) string {
	b := filepath.Base(p)
	if !strings.HasPrefix(b, "shardID_") {
		return ""
	}
	rest := strings.TrimPrefix(b, "shardID_")
	if i := strings.Index(rest, "_"); i > 0 {
		return rest[:i]
	}
	return ""
}

// <data>/<host>/final/ts/<shard>/<suffix>/<file>
func shardOfFinal(p string) string {
	i := strings.Index(p, "/final/ts/")
	if i < 0 {
		return ""
	}
	parts := strings.Split(p[i+len("/final/ts/"):], "/")
	if len(parts) < 3 {
		return ""
	}
	return parts[0]
}

const hoTraceSet = "trace=openat,write,pwrite64,lseek,rename,renameat,renameat2,unlink,unlinkat,mkdir,mkdirat,ftruncate,fsync,fdatasync"

// milestones (coq/model/WalHandoff.v) among the calls ops[from:]; only shards with data; repeated unlinks of the
// WAL files of one block count once (the log is no longer whole after the first).
// Also returns the call that deletes the meta-entry log.
func hoMilestones(ops []vhlib.FsOp, from int, withData map[string]bool) (ms []hoMilestone, metaDropOp int) {
	metaDropOp = -1
	pendingMeta := ""
	dropped := map[string]bool{}
	lastMnmWrite := map[string]int{}
	add := func(i int, kind, k, sh string) {
		if !withData[sh] {
			return
		}
		if kind == "Dropped" {
			if dropped[k+"/"+sh] {
				return
			}
			dropped[k+"/"+sh] = true
		}
		ms = append(ms, hoMilestone{i, kind, k, sh})
	}
	for i := from; i < len(ops); i++ {
		o := ops[i]
		switch {
		case o.Kind == "write" && strings.HasSuffix(o.Path, ".tsg"):
			add(i, "Stored", "KDp", shardOfFinal(o.Path))
		case o.Kind == "unlink" && filepath.Base(filepath.Dir(o.Path)) == "wal-ts" && strings.HasSuffix(o.Path, ".wal"):
			add(i, "Dropped", "KDp", shardOfWal(o.Path))
		case o.Kind == "write" && strings.HasSuffix(o.Path, ".mnm"):
			lastMnmWrite[o.Path] = i
		case o.Kind == "fsync" && strings.HasSuffix(o.Path, ".mnm"):
			// the names are in the file after the last write (process-crash model: bytes handed to write(2) survive)
			if w, ok := lastMnmWrite[o.Path]; ok {
				add(w, "Stored", "KName", shardOfFinal(o.Path))
			}
		case o.Kind == "unlink" && filepath.Base(filepath.Dir(o.Path)) == "mname":
			add(i, "Dropped", "KName", shardOfWal(o.Path))
		case o.Kind == "write" && strings.HasSuffix(o.Path, "metricmeta.json") && len(o.Data) > 1:
			// AddMetricsMetaEntry: the JSON document and its newline in ONE write (fix 8a50027); a document without
			// the newline (the protocol before the fix) only becomes a line with the following "\n" write
			var e structs.MetricsMeta
			pendingMeta = ""
			doc, complete := o.Data, false
			if doc[len(doc)-1] == '\n' {
				doc, complete = doc[:len(doc)-1], true
			}
			if json.Unmarshal(doc, &e) == nil {
				pendingMeta = shardOfFinal(e.MSegmentDir + "/x")
			}
			if complete {
				// the line is complete (process-crash model: bytes handed to write(2) survive)
				add(i, "Stored", "KMeta", pendingMeta)
			}
		case o.Kind == "write" && strings.HasSuffix(o.Path, "metricmeta.json") && string(o.Data) == "\n":
			add(i, "Stored", "KMeta", pendingMeta)
		case o.Kind == "unlink" && strings.HasSuffix(o.Path, "metricsMetaEntry.wal"):
			// one file for all shards (model: meta_drop = Dropped KMeta 0)
			if metaDropOp < 0 {
				metaDropOp = i
				ms = append(ms, hoMilestone{i, "Dropped", "KMeta", "0"})
			}
		}
	}
	return
}

type hoRun struct {
	sum      *vhlib.Summary
	self     string
	id       string
	sc       hoScenario
	base     string // scratch directory of the scenario
	dir      string // the data directory of the traced worker (restarts run at this path)
	pristine string // the file-system state at the current crash point
	names    []string
	shards   []string
	lg       hoLogged
	dirOf    map[string]string
	walRoot  string
	mmeta    string
	everDp   map[string]map[uint32]bool // completed appends seen in a log at some crash point so far
	everNm   map[string]map[string]bool
	everMeta map[string]uint64 // shard -> datapoint count of the logged entry (segments with data only)
	metaHead string            // shard of the first entry in the meta-entry log (the first to be replayed)
	nameIDs  map[string]uint64 // metric name -> number used in the Coq case files
	rcases   []string          // (state before the restart, state after it) per crash point and shard (WalRestart.v)
}

func (h *hoRun) apply(o vhlib.FsOp) error {
	o.Path = strings.Replace(o.Path, h.dir, h.pristine, 1)
	o.Path2 = strings.Replace(o.Path2, h.dir, h.pristine, 1)
	return vhlib.ApplyOp(o)
}

// what the logs hold at this instant (through the real readers, which the framing stream compares with the model)
func (h *hoRun) findWalRoot() {
	if h.walRoot == "" {
		_ = filepath.Walk(h.pristine, func(p string, fi os.FileInfo, err error) error {
			if err == nil && fi.IsDir() && filepath.Base(p) == "wal-ts" {
				h.walRoot = p
			}
			return nil
		})
	}
}

func (h *hoRun) readLogs() {
	h.findWalRoot()
	if des, err := os.ReadDir(h.walRoot); err == nil {
		for _, de := range des {
			if sh := shardOfWal(de.Name()); sh != "" && !de.IsDir() && h.everDp[sh] != nil {
				got, _ := readDP(filepath.Join(h.walRoot, de.Name()))
				for _, d := range got {
					h.everDp[sh][d.Timestamp] = true
				}
			}
		}
	}
	if des, err := os.ReadDir(filepath.Join(h.walRoot, "mname")); err == nil {
		for _, de := range des {
			if sh := shardOfWal(de.Name()); sh != "" && h.everNm[sh] != nil {
				got, _ := readNames(filepath.Join(h.walRoot, "mname", de.Name()))
				for _, n := range got {
					h.everNm[sh][n] = true
				}
			}
		}
	}
	for i, e := range readMetaDirs(filepath.Join(h.walRoot, "metaentry", "metricsMetaEntry.wal")) {
		if i == 0 {
			h.metaHead = shardOfFinal(e.MSegmentDir + "/x")
		}
		if e.DatapointCount > 0 {
			h.everMeta[shardOfFinal(e.MSegmentDir+"/x")] = e.DatapointCount
		}
	}
}

// the model assumes that the name log is replayed into an existing segment directory: at this crash point the name log
// of the shard exists but neither the segment directory nor a datapoint WAL with a completed append (whose replay
// creates the directory) does
func (h *hoRun) nameLogWithoutSegmentDir(sh string) bool {
	h.findWalRoot()
	if h.walRoot == "" {
		return false
	}
	nameLog := false
	if des, err := os.ReadDir(filepath.Join(h.walRoot, "mname")); err == nil {
		for _, de := range des {
			if shardOfWal(de.Name()) == sh {
				nameLog = true
			}
		}
	}
	if !nameLog {
		return false
	}
	if d := h.dirOf[sh]; d != "" {
		if fi, err := os.Stat(strings.Replace(filepath.Dir(d), h.dir, h.pristine, 1)); err == nil && fi.IsDir() {
			return false
		}
	}
	if des, err := os.ReadDir(h.walRoot); err == nil {
		for _, de := range des {
			if shardOfWal(de.Name()) == sh && !de.IsDir() {
				if got, _ := readDP(filepath.Join(h.walRoot, de.Name())); len(got) > 0 {
					return false
				}
			}
		}
	}
	return true
}

// unlink calls on the datapoint WAL files of each shard among ops[from:]
func hoDpUnlinks(ops []vhlib.FsOp, from int) map[string][]int {
	out := map[string][]int{}
	for i := from; i < len(ops); i++ {
		o := ops[i]
		if o.Kind == "unlink" && filepath.Base(filepath.Dir(o.Path)) == "wal-ts" && strings.HasSuffix(o.Path, ".wal") {
			out[shardOfWal(o.Path)] = append(out[shardOfWal(o.Path)], i)
		}
	}
	return out
}

// shards whose block files were completely written (Stored KDp) within the first k calls
func hoDpStored(ms []hoMilestone, k int) map[string]bool {
	out := map[string]bool{}
	for _, m := range ms {
		if m.kind == "Stored" && m.k == "KDp" && m.op < k {
			out[m.shard] = true
		}
	}
	return out
}

// shards whose datapoint log is partly deleted after the first k calls
func hoPartly(unl map[string][]int, k int) map[string]bool {
	out := map[string]bool{}
	for sh, is := range unl {
		n := 0
		for _, i := range is {
			if i < k {
				n++
			}
		}
		out[sh] = n > 0 && n < len(is)
	}
	return out
}

// metricmeta.json ends in an unterminated line (crash between the two writes of AddMetricsMetaEntry)
func (h *hoRun) tornMeta() bool {
	if h.mmeta == "" {
		return false
	}
	mb, err := os.ReadFile(strings.Replace(h.mmeta, h.dir, h.pristine, 1))
	return err == nil && len(mb) > 0 && mb[len(mb)-1] != '\n'
}

// restart on the state of the current crash point (at the original path) + the oracle: every completed append is in
// the store afterwards, nothing else is.  phase: "rotation" (crash during ingest / forced rotation) or "recovery"
// (crash during the start-up recovery, followed by a second restart).  Returns item -> present in the store.
func (h *hoRun) restart(phase, where string, ccs map[string]interface{}, metaDropped bool, partly, dpStored map[string]bool) (map[string]bool, bool) {
	sum, sc, names := h.sum, h.sc, h.names
	_ = os.RemoveAll(h.dir)
	if err := copyTree(h.pristine, h.dir); err != nil {
		sum.HarnessError("hand-off copy: " + err.Error())
		return nil, false
	}
	torn := h.tornMeta()
	// the state the restart finds (block files, .mnm, metricmeta.json through the real readers in a fresh process)
	preRec, err := h.runRecover("observe")
	if err != nil {
		sum.HarnessError(fmt.Sprintf("hand-off observe, %s: %v", where, err))
		return nil, false
	}
	preSt := map[string]segObs{}
	for _, sh := range h.shards {
		preSt[sh] = h.observeSeg(h.pristine, preRec, sh)
	}
	_ = os.RemoveAll(h.dir)
	if err := copyTree(h.pristine, h.dir); err != nil {
		sum.HarnessError("hand-off copy: " + err.Error())
		return nil, false
	}
	// the restart: startIngestServer in a fresh process
	recp, err := h.runRecover("restart")
	if err != nil {
		sum.Fail("wal_recovery_process_failed", fmt.Sprintf("restart, %s: %v", where, err), ccs)
		return nil, false
	}
	rec := *recp
	postSt := map[string]segObs{}
	for _, sh := range h.shards {
		postSt[sh] = h.observeSeg(h.dir, recp, sh)
		switch {
		case torn:
			sum.Count("restart_model/not_compared/metricmeta_line_torn")
		case preSt[sh].DpBlks > 1:
			sum.Count("restart_model/not_compared/datapoint_logs_of_two_blocks")
		default:
			h.rcases = append(h.rcases, fmt.Sprintf("(%s,\n   %s)", h.coqSeg(preSt[sh]), h.coqSeg(postSt[sh])))
			st := "segment_directory_exists"
			if !preSt[sh].Dir {
				st = "first_block_no_segment_directory"
			}
			sum.Count(fmt.Sprintf("restart_model/state/%s/dp_log=%v/name_log=%v", st, len(preSt[sh].DpLog) > 0, len(preSt[sh].NmLog) > 0))
		}
	}
	pre := "forced_rotation_crash"
	if phase == "recovery" {
		pre = "recovery_crash"
	}
	onDisk := map[uint32]bool{}
	for _, nm := range names {
		for _, t := range rec.Points[nm] {
			if t < 1700000000 || t >= uint32(1700000000+sc.N) || names[int(t-1700000000)%len(names)] != nm {
				sum.Fail("wal_restart_invents_datapoints", fmt.Sprintf("%s: after the restart series %s holds timestamp %d that was never ingested for it", where, nm, t), ccs)
			}
			onDisk[t] = true
		}
	}
	if rec.BadVal > 0 {
		sum.Fail("wal_restart_invents_datapoints", fmt.Sprintf("%s: %d datapoints came back with another value", where, rec.BadVal), ccs)
	}
	present := map[string]bool{} // "K/shard" -> in the store after the restart
	anyDpLost := false
	for _, sh := range h.shards {
		missing := 0
		for t := range h.everDp[sh] {
			if !onDisk[t] {
				missing++
			}
		}
		present["KDp/"+sh] = missing == 0
		if missing > 0 {
			why := "RecoverWALData"
			if phase == "recovery" {
				why = "RecoverWALData deletes each WAL file of a block as soon as it has read it and writes the rebuilt block (flushBlock) afterwards"
			}
			cls := pre + "_loses_logged_datapoints"
			if partly[sh] && dpStored[sh] {
				cls = "wal_partly_deleted_replay_overwrites_flushed_block"
				why = "the block had been flushed completely and some, not all, of its WAL files were deleted: RecoverWALData rebuilds the block from the remaining files only and flushBlock overwrites the complete block files with it"
			}
			if len(rec.Errs) > 0 {
				why += fmt.Sprintf("; unreadable: %v", rec.Errs)
			}
			anyDpLost = true
			sum.Fail(cls, fmt.Sprintf("%s: %d of the %d datapoints of shard %s whose WAL append had completed are in no block file and in no WAL after the restart (%s)", where, missing, len(h.everDp[sh]), sh, why), ccs)
		}
		have := map[string]bool{}
		for _, s := range rec.Mnm {
			if shardOfFinal(s.Dir+"/x") == sh {
				for _, n := range s.Names {
					have[n] = true
				}
			}
		}
		missing = 0
		for n := range h.everNm[sh] {
			if !have[n] {
				missing++
			}
		}
		present["KName/"+sh] = missing == 0
		if missing > 0 {
			var want []string
			for n := range h.everNm[sh] {
				want = append(want, n)
			}
			var haveL []string
			for n := range have {
				haveL = append(haveL, n)
			}
			miss := namesMissing(want, haveL)
			if len(namesMissing(miss, postSt[sh].NmLog)) == 0 {
				// ONE restart must replay them (property text); they are still in the name log: does a second restart store them?
				second := "a second restart could not be run"
				if rec2, err := h.runRecover("restart"); err == nil {
					var have2 []string
					for _, s := range rec2.Mnm {
						if shardOfFinal(s.Dir+"/x") == sh {
							have2 = append(have2, s.Names...)
						}
					}
					if m2 := namesMissing(miss, have2); len(m2) == 0 {
						second = "a SECOND restart stores them"
					} else {
						second = fmt.Sprintf("a second restart does not store them either (%v)", m2)
					}
				}
				p := preSt[sh]
				cls := pre + "_leaves_logged_metric_names_in_the_log"
				why := "RecoverMNameWALData kept the name log"
				switch {
				case !p.Dir && len(p.DpLog) > 0:
					cls = "restart_replays_datapoints_of_first_block_segment_without_its_metric_names"
					why = fmt.Sprintf("the crashed segment was still in its FIRST block: its directory %s did not exist when the restart began; the %d logged datapoints were replayed (flushBlock creates the directory) but FlushMetricNames, which does not create it, ran when it did not exist yet: the recovery functions were not called in the order datapoints, then names", filepath.Dir(h.dirOf[sh]), len(p.DpLog))
				case !p.Dir:
					cls = "restart_keeps_metric_names_of_segment_without_directory_in_log"
					why = fmt.Sprintf("the crashed segment was still in its first block and no datapoint append had completed: nothing creates the directory %s and FlushMetricNames (O_CREATE, no MkdirAll) fails with ENOENT", filepath.Dir(h.dirOf[sh]))
				}
				sum.Fail(cls, fmt.Sprintf("%s: metric names %v of shard %s, whose WAL append had completed, are in no .mnm file after the restart; they are still in the name log; %s (%s)", where, miss, sh, second, why), ccs)
			} else {
				why := "RecoverMNameWALData"
				if phase == "recovery" {
					why = "RecoverMNameWALData deletes the name WAL file after reading it and writes <segment>.mnm (FlushMetricNames) afterwards"
				}
				sum.Fail(pre+"_loses_logged_metric_names", fmt.Sprintf("%s: %d of the %d metric names of shard %s whose WAL append had completed are in no .mnm file and in no WAL after the restart (%s)", where, missing, len(h.everNm[sh]), sh, why), ccs)
			}
		}
		inMeta := false
		for _, s := range rec.Meta {
			if shardOfFinal(s.Dir+"/x") == sh {
				inMeta = true
			}
		}
		_, logged := h.everMeta[sh]
		present["KMeta/"+sh] = inMeta
		if logged && !inMeta {
			cls := "forced_rotation_meta_log_deleted_before_segment_registered"
			why := "the meta-entry log (one file for all shards) was deleted before this segment was registered in metricmeta.json"
			if torn && !metaDropped {
				cls = "metricmeta_torn_line_swallows_replayed_meta_entry"
				why = "the crash fell between the two writes of AddMetricsMetaEntry (the JSON document, then the newline): the first entry replayed from the log is appended to the unterminated line and the merged line cannot be parsed"
			} else if !metaDropped {
				cls = pre + "_loses_logged_meta_entry"
				why = "the log still exists"
			}
			sum.Fail(cls, fmt.Sprintf("%s: the meta entry of segment %s (%d datapoints) had been written to the meta-entry WAL, but after the restart (RecoverMEntryWALData) metricmeta.json does not list the segment: %s; its %d logged datapoints are unreachable",
				where, h.dirOf[sh], h.everMeta[sh], why, len(h.everDp[sh])), ccs)
		}
	}
	// while the meta-entry log exists, restart replays ALL its entries (also those of segments without data)
	if !metaDropped {
		h.findWalRoot()
		listed := map[string]bool{}
		for _, s := range rec.Meta {
			listed[s.Dir] = true
		}
		for _, e := range readMetaDirs(filepath.Join(h.walRoot, "metaentry", "metricsMetaEntry.wal")) {
			sh := shardOfFinal(e.MSegmentDir + "/x")
			if listed[e.MSegmentDir] || (e.DatapointCount > 0 && h.everDp[sh] != nil) {
				continue // listed, or reported above
			}
			cls, why := pre+"_loses_logged_meta_entry", "the log still exists"
			if torn {
				cls = "metricmeta_torn_line_swallows_replayed_meta_entry"
				why = "the crash fell between the two writes of AddMetricsMetaEntry (the JSON document, then the newline): the first entry replayed from the log is appended to the unterminated line and the merged line cannot be parsed"
			}
			sum.Fail(cls, fmt.Sprintf("%s: the meta-entry WAL holds the entry of segment %s (%d datapoints), but after the restart (RecoverMEntryWALData) metricmeta.json does not list it: %s", where, e.MSegmentDir, e.DatapointCount, why), ccs)
		}
	}
	for _, s := range rec.Meta {
		sh := shardOfFinal(s.Dir + "/x")
		if _, ok := h.lg.Entries[s.Dir]; !ok || sh == "" {
			sum.Fail("wal_restart_invents_meta_entry", fmt.Sprintf("%s: metricmeta.json lists %s, which was neither logged nor rotated", where, s.Dir), ccs)
		}
	}
	if len(rec.Errs) > 0 && !anyDpLost {
		rebuilt := false // did the restart have a datapoint log to rebuild a block from
		for _, sh := range h.shards {
			if len(preSt[sh].DpLog) > 0 {
				rebuilt = true
			}
		}
		if rebuilt {
			sum.Fail("wal_recovered_block_unreadable", fmt.Sprintf("%s: %v", where, rec.Errs), ccs)
		} else {
			// a block file torn by the crash whose datapoints were never logged (no append had completed): nothing to
			// replay, not a statement of C10
			sum.Count("handoff/torn_block_file_of_never_logged_datapoints")
		}
	}
	return present, torn
}

func hoCoqMs(ms []hoMilestone) []string {
	var ml []string
	for _, m := range ms {
		sh := m.shard
		if sh == "" {
			sh = "999"
		}
		ml = append(ml, fmt.Sprintf("(%s %s %s)", m.kind, m.k, sh))
	}
	return ml
}

func runHandoff(cfg vhlib.Config, sum *vhlib.Summary, self string, id string, sc hoScenario, withRecovery bool) {
	base, _ := filepath.Abs(filepath.Join(cfg.Out, "handoff_"+id))
	_ = os.RemoveAll(base)
	dir := filepath.Join(base, "data")
	_ = os.MkdirAll(dir, 0o755)
	tracef := filepath.Join(base, "trace.txt")
	info := filepath.Join(base, "logged.json")
	fd := "0"
	if sc.FlushDp {
		fd = "1"
	}
	cmd := exec.Command("strace", "-f", "-y", "-xx", "-s", "200000", "-o", tracef, "-e", hoTraceSet,
		self, "handoffworker", dir, info, fmt.Sprint(sc.N), fmt.Sprint(sc.Fs), sc.Pick, fd, "real", fmt.Sprint(sc.Mx), fmt.Sprint(sc.Earlier))
	if out, err := cmd.CombinedOutput(); err != nil {
		sum.HarnessError(fmt.Sprintf("traced hand-off worker: %v %s", err, string(out)))
		return
	}
	ops, err := vhlib.ParseTrace(tracef, dir)
	if err != nil || len(ops) == 0 {
		sum.HarnessError(fmt.Sprintf("hand-off trace: %v (%d ops)", err, len(ops)))
		return
	}
	h := &hoRun{sum: sum, self: self, id: id, sc: sc, base: base, dir: dir, pristine: filepath.Join(base, "pristine"),
		dirOf: map[string]string{}, everDp: map[string]map[uint32]bool{}, everNm: map[string]map[string]bool{}, everMeta: map[string]uint64{}}
	ib, _ := os.ReadFile(info)
	if err := json.Unmarshal(ib, &h.lg); err != nil || len(h.lg.Names) == 0 {
		sum.HarnessError(fmt.Sprintf("hand-off worker info: %v", err))
		return
	}
	debug := os.Getenv("C10_HANDOFF_DEBUG") != ""
	dump := func(ops []vhlib.FsOp) {
		for i, o := range ops {
			fmt.Fprintf(os.Stderr, "%3d %-9s %s %s len=%d off=%d app=%v\n", i, o.Kind, strings.TrimPrefix(o.Path, dir), strings.TrimPrefix(o.Path2, dir), len(o.Data), o.Off, o.Append)
		}
	}
	if debug {
		dump(ops)
	}
	h.names = h.lg.Names
	withData := map[string]bool{}
	for _, nm := range h.names {
		if sh := h.lg.Shards[nm]; !withData[sh] {
			withData[sh] = true
			h.shards = append(h.shards, sh) // seq mode rotates in ascending shard order; real mode is used with one shard
		}
	}
	sort.Strings(h.shards)
	for _, sh := range h.shards {
		h.everDp[sh], h.everNm[sh] = map[uint32]bool{}, map[string]bool{}
	}
	for d := range h.lg.Entries {
		if sh := shardOfFinal(d + "/x"); sh != "" {
			h.dirOf[sh] = d
		}
	}
	mark := -1
	for i, o := range ops {
		if strings.HasSuffix(o.Path, "MARK_forced_rotation") && mark < 0 {
			mark = i
		}
		if strings.HasSuffix(o.Path, "metricmeta.json") {
			h.mmeta = o.Path
		}
	}
	if mark < 0 {
		sum.HarnessError("hand-off trace: no rotation mark")
		return
	}
	ms, metaDropOp := hoMilestones(ops, mark, withData)
	unl := hoDpUnlinks(ops, mark)
	skipObs := func(kd, sh string, torn bool, partly map[string]bool) bool {
		switch {
		case kd == "KMeta" && torn:
			sum.Count("handoff/not_compared/metricmeta_line_torn")
			return true // a line of metricmeta.json is not appended atomically: not at milestone granularity
		case kd == "KDp" && partly[sh]:
			sum.Count("handoff/not_compared/datapoint_log_partly_deleted")
			return true // the model's datapoint log of a block is one file
		case kd == "KName" && h.nameLogWithoutSegmentDir(sh):
			sum.Count("handoff/not_compared/name_log_without_segment_directory")
			return true // the model replays the name log into an existing segment directory
		}
		return false
	}
	// ---- phase 1: every crash point from the first log append to the end of the forced rotation ----
	start := mark
	for i, o := range ops {
		if o.Kind == "write" && strings.Contains(o.Path, "/wal-ts/") && o.Off >= 1 {
			start = i
			break
		}
	}
	_ = os.MkdirAll(h.pristine, 0o755)
	for _, o := range ops[:start] {
		if err := h.apply(o); err != nil {
			sum.HarnessError("hand-off replay: " + err.Error())
			return
		}
	}
	var obs []string
	ncrash := 0
	atMark := filepath.Join(base, "at_mark") // the state when the forced rotation starts: all three logs hold completed appends
	for k := start; k <= len(ops); k++ {
		if k > start {
			if err := h.apply(ops[k-1]); err != nil {
				sum.HarnessError(fmt.Sprintf("hand-off replay of call %d: %v", k-1, err))
				return
			}
		}
		h.readLogs()
		if k == mark {
			_ = copyTree(h.pristine, atMark)
		}
		where := fmt.Sprintf("crash after %d of %d file-system calls of ingest + forced rotation (the rotation starts after call %d; %s)", k, len(ops), mark, hoDescribe(ops, k, dir))
		ccs := map[string]interface{}{"scenario": sc, "metric_names": h.names, "shard_of_name": h.lg.Shards, "calls_completed": k, "calls": len(ops), "forced_rotation_starts_after_call": mark, "last_call": hoDescribe(ops, k, dir)}
		partly := hoPartly(unl, k)
		present, torn := h.restart("rotation", where, ccs, metaDropOp >= 0 && metaDropOp < k, partly, hoDpStored(ms, k))
		if present == nil {
			continue
		}
		ncrash++
		sum.Eval(fmt.Sprintf("handoff/%s/%d", id, k), k > start)
		sum.Count("handoff/rotation_crash_points")
		// ---- Coq: the model's prediction for this crash point (from the start of the rotation on) ----
		if k > mark+1 {
			j := 0
			for _, m := range ms {
				if m.op < k {
					j++
				}
			}
			for _, sh := range h.shards {
				for _, kd := range []string{"KDp", "KName", "KMeta"} {
					if skipObs(kd, sh, torn, partly) {
						continue
					}
					obs = append(obs, fmt.Sprintf("(%d%%nat, ((%s, %s), %v))", j, kd, sh, present[kd+"/"+sh]))
				}
			}
		}
	}
	ml := hoCoqMs(ms)
	defs := "Definition shards : list N := " + vhlib.CoqList(h.shards) + ".\n" +
		"Definition observed : list hop := " + vhlib.CoqListNL(ml) + ".\n" +
		"Definition obs : list (nat * (item * bool)) := " + vhlib.CoqListNL(obs) + ".\n"
	sum.WriteCaseFile(cfg.Out, "cases_handoff_"+id, "From SigM Require Import Base WalHandoff.\n", defs, "check_handoff_schedule shards observed obs", len(obs)+1)
	sum.Count(fmt.Sprintf("handoff/shards_with_data=%d", len(h.shards)))
	sum.Sample(map[string]interface{}{"part": "forced rotation hand-off", "scenario": sc, "calls": len(ops), "crash_points": ncrash, "milestones": ml, "shards_with_data": h.shards})
	if !withRecovery {
		h.writeRestartCases(cfg)
		return
	}
	defer h.writeRestartCases(cfg)
	// ---- phase 2: the start-up recovery itself is traced on the state at the rotation mark; every prefix of ITS calls,
	// then a second restart ----
	_ = os.RemoveAll(dir)
	if err := copyTree(atMark, dir); err != nil {
		sum.HarnessError("hand-off copy: " + err.Error())
		return
	}
	trace2 := filepath.Join(base, "trace_recovery.txt")
	cmd = exec.Command("strace", "-f", "-y", "-xx", "-s", "200000", "-o", trace2, "-e", hoTraceSet, self, "handoffrecoveronly", dir)
	if out, err := cmd.CombinedOutput(); err != nil {
		sum.HarnessError(fmt.Sprintf("traced recovery worker: %v %s", err, string(out)))
		return
	}
	rops, err := vhlib.ParseTrace(trace2, dir)
	if err != nil || len(rops) == 0 {
		sum.HarnessError(fmt.Sprintf("recovery trace: %v (%d ops)", err, len(rops)))
		return
	}
	if debug {
		dump(rops)
	}
	for _, o := range rops {
		if strings.HasSuffix(o.Path, "metricmeta.json") {
			h.mmeta = o.Path
		}
	}
	rms, _ := hoMilestones(rops, 0, withData)
	runl := hoDpUnlinks(rops, 0)
	_ = os.RemoveAll(h.pristine)
	if err := copyTree(atMark, h.pristine); err != nil {
		sum.HarnessError("hand-off copy: " + err.Error())
		return
	}
	h.walRoot = ""
	var robs []string
	nrec := 0
	for k := 0; k <= len(rops); k++ {
		if k > 0 {
			if err := h.apply(rops[k-1]); err != nil {
				sum.HarnessError(fmt.Sprintf("recovery replay of call %d: %v", k-1, err))
				return
			}
		}
		where := fmt.Sprintf("crash at the start of the forced rotation, restart, second crash after %d of the %d file-system calls of the start-up recovery (%s), second restart", k, len(rops), hoDescribe(rops, k, dir))
		ccs := map[string]interface{}{"scenario": sc, "metric_names": h.names, "shard_of_name": h.lg.Shards, "first_crash_after_call": mark, "recovery_calls_completed": k, "recovery_calls": len(rops), "last_call": hoDescribe(rops, k, dir)}
		partly := hoPartly(runl, k)
		present, torn := h.restart("recovery", where, ccs, false, partly, hoDpStored(rms, k))
		if present == nil {
			continue
		}
		nrec++
		sum.Eval(fmt.Sprintf("handoff/%s/recovery/%d", id, k), k > 0)
		sum.Count("handoff/recovery_crash_points")
		j := 0
		for _, m := range rms {
			if m.op < k {
				j++
			}
		}
		for _, sh := range h.shards {
			for _, kd := range []string{"KDp", "KName", "KMeta"} {
				if skipObs(kd, sh, torn, partly) {
					continue
				}
				robs = append(robs, fmt.Sprintf("(%d%%nat, ((%s, %s), %v))", j, kd, sh, present[kd+"/"+sh]))
			}
		}
	}
	rml := hoCoqMs(rms)
	defs = "Definition shards : list N := " + vhlib.CoqList(h.shards) + ".\n" +
		"Definition observed : list hop := " + vhlib.CoqListNL(rml) + ".\n" +
		"Definition obs : list (nat * (item * bool)) := " + vhlib.CoqListNL(robs) + ".\n"
	sum.WriteCaseFile(cfg.Out, "cases_handoff_rec_"+id, "From SigM Require Import Base WalHandoff.\n", defs, "check_handoff (recovery_ops_store_first shards) observed obs", len(robs)+1)
	sum.Sample(map[string]interface{}{"part": "start-up recovery hand-off", "scenario": sc, "calls": len(rops), "crash_points": nrec, "milestones": rml})
}

// WalRestart.v: the model's restart in the start-up order of the code must turn every observed state before the
// restart into the observed state after it (true = FlushMetricNames creates the segment directory itself, fix 5e1901f)
func (h *hoRun) writeRestartCases(cfg vhlib.Config) {
	const per = 150
	for i, n := 0, 0; i < len(h.rcases); i, n = i+per, n+1 {
		j := i + per
		if j > len(h.rcases) {
			j = len(h.rcases)
		}
		defs := "Definition cases : list (seg * seg) := " + vhlib.CoqListNL(h.rcases[i:j]) + ".\n"
		h.sum.WriteCaseFile(cfg.Out, fmt.Sprintf("cases_restart_%s_%d", h.id, n), "From SigM Require Import Base WalRestart.\n", defs, "check_restart true cases", j-i)
	}
	h.rcases = nil
}

func hoDescribe(ops []vhlib.FsOp, k int, dir string) string {
	if k == 0 {
		return "nothing done"
	}
	o := ops[k-1]
	return fmt.Sprintf("last call: %s %s", o.Kind, strings.TrimPrefix(o.Path, dir))
}

func readMetaDirs(path string) (res []*structs.MetricsMeta) {
	defer func() { _ = recover() }()
	if _, err := os.Stat(path); err != nil {
		return nil
	}
	it, err := wal.NewMetricsMetaEntryWalReader(path)
	if err != nil {
		return nil
	}
	defer it.Close()
	for {
		n, err := it.Next()
		if err != nil || n == nil {
			return res
		}
		res = append(res, n)
	}
}

// handoffrecoveronly <dir>: the three start-up recovery functions and nothing else (traced)
func handoffRecoverOnly(args []string) {
	metricsInit(args[0])
	startupRecovery()
	os.Exit(0)
}

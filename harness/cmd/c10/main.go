// c10: correspondence + property oracle for the metrics write-ahead log.
// Runs the real wal package (NewWAL/Append + the three iterators) on generated
// logs, every truncation and sampled/all single-byte modifications, and writes
// (a) the property verdict computed on the implementation's output,
// (b) Coq case files that compare the same observations with the model.
package main

import (
	"bytes"
	"encoding/json"
	"fmt"
	"github.com/siglens/siglens/pkg/segment/reader/metrics/series"
	"github.com/siglens/siglens/pkg/segment/reader/microreader"
	"math"
	"os"
	"os/exec"
	"path/filepath"
	"sort"
	"strings"
	"sync"
	"time"

	jp "github.com/buger/jsonparser"
	"github.com/klauspost/compress/zstd"
	"github.com/siglens/siglens/pkg/config"
	"github.com/siglens/siglens/pkg/segment/memory/limit"
	"github.com/siglens/siglens/pkg/segment/structs"
	sutils "github.com/siglens/siglens/pkg/segment/utils"
	"github.com/siglens/siglens/pkg/segment/writer/metrics"
	"github.com/siglens/siglens/pkg/segment/writer/metrics/meta"
	"github.com/siglens/siglens/pkg/segment/writer/metrics/wal"
	log "github.com/sirupsen/logrus"

	"verifharness/vhlib"
)

type mut struct {
	Kind string `json:"kind"` // trunc | flip | append
	K    int    `json:"k"`
	V    int    `json:"v"`
	Tail []byte `json:"tail,omitempty"`
}

func (m mut) coq() string {
	switch m.Kind {
	case "trunc":
		return fmt.Sprintf("Trunc %d", m.K)
	case "flip":
		return fmt.Sprintf("Flip %d %d", m.K, m.V)
	}
	return "Append1 " + vhlib.CoqBytes(m.Tail)
}
func (m mut) apply(f []byte) []byte {
	out := append([]byte{}, f...)
	switch m.Kind {
	case "trunc":
		if m.K < len(out) {
			out = out[:m.K]
		}
	case "flip":
		if m.K < len(out) {
			out[m.K] = byte(m.V)
		}
	case "append":
		out = append(out, m.Tail...)
	}
	return out
}

var zdec, _ = zstd.NewReader(nil)

type dpCase struct {
	Kind    string               `json:"kind"`
	Batches [][]wal.WalDatapoint `json:"batches"`
	Names   [][]string           `json:"names,omitempty"`
	Mut     *mut                 `json:"mutation,omitempty"`
	File    []byte               `json:"file,omitempty"`
}

func readDP(path string) (res []wal.WalDatapoint, st int) {
	defer func() {
		if r := recover(); r != nil {
			st = 2
		}
	}()
	it, err := wal.NewWALReader(path)
	if err != nil {
		return nil, 1
	}
	defer it.Close()
	for {
		dp, err := it.Next()
		if err != nil {
			return res, 1
		}
		if dp == nil {
			return res, 0
		}
		res = append(res, *dp)
	}
}

func readNames(path string) (res []string, st int) {
	defer func() {
		if r := recover(); r != nil {
			st = 2
		}
	}()
	it, err := wal.NewMNameWalReader(path)
	if err != nil {
		return nil, 1
	}
	defer it.Close()
	for {
		n, err := it.Next()
		if err != nil {
			return res, 1
		}
		if n == nil {
			return res, 0
		}
		res = append(res, *n)
	}
}

func readMeta(path string) (res []uint64, st int) {
	defer func() {
		if r := recover(); r != nil {
			st = 2
		}
	}()
	it, err := wal.NewMetricsMetaEntryWalReader(path)
	if err != nil {
		return nil, 1
	}
	defer it.Close()
	for {
		n, err := it.Next()
		if err != nil {
			return res, 1
		}
		if n == nil {
			return res, 0
		}
		res = append(res, n.DatapointCount)
	}
}

func coqDP(d wal.WalDatapoint) string {
	return fmt.Sprintf("mkdp %d %d %d", d.Timestamp, math.Float64bits(d.DpVal), d.Tsid)
}
func coqDPs(ds []wal.WalDatapoint) string {
	items := make([]string, len(ds))
	for i, d := range ds {
		items[i] = coqDP(d)
	}
	return vhlib.CoqList(items)
}

func dpEq(a, b wal.WalDatapoint) bool {
	return a.Timestamp == b.Timestamp && math.Float64bits(a.DpVal) == math.Float64bits(b.DpVal) && a.Tsid == b.Tsid
}

// mutations of a file: all truncations, flips (all positions x nvals values, or sampled)
func mutations(r *vhlib.Rng, f []byte, thorough bool, nflips int, bounds []int) []mut {
	var ms []mut
	// the top byte of a frame's size field makes the reader allocate up to 4 GiB before it
	// notices the short read (tens of seconds in this sandbox, not wrong): only value^1 is used there
	high := map[int]bool{}
	for _, b := range bounds {
		high[b+3] = true
	}

	for k := 0; k <= len(f); k++ {
		ms = append(ms, mut{Kind: "trunc", K: k})
	}
	addFlip := func(i, v int) {
		if high[i] {
			// the reader allocates the claimed block size before it reads: keep the claimed size <= 32 MiB
			v = int(f[i]) ^ 1
		}
		if int(f[i]) != v {
			ms = append(ms, mut{Kind: "flip", K: i, V: v})
		}
	}
	if thorough {
		for i := range f {
			for _, v := range []int{int(f[i]) ^ 0xFF, int(f[i]) ^ 0x01, 0, int(f[i]) ^ 0x80, (int(f[i]) + 1) & 0xFF} {
				addFlip(i, v)
			}
		}
	} else {
		// header region of every frame is hit deterministically (first 9 bytes) + random positions
		for i := 0; i < 9 && i < len(f); i++ {
			addFlip(i, int(f[i])^(1<<uint(r.Intn(8))))
		}
		for j := 0; j < nflips; j++ {
			i := r.Intn(len(f))
			v := r.Intn(256)
			if r.Chance(50) {
				v = int(f[i]) ^ (1 << uint(r.Intn(8)))
			}
			addFlip(i, v)
		}
	}
	// appended garbage after a complete log (a partial next frame)
	tail := make([]byte, r.Range(1, 7))
	for i := range tail {
		tail[i] = byte(r.Intn(256))
	}
	ms = append(ms, mut{Kind: "append", Tail: tail})
	return ms
}

var tsPool = []uint32{0, 1, 59, 60, 1700000000, 1700000001, math.MaxUint32, 1 << 31}
var valPool = []uint64{0, 0x8000000000000000, 0x3FF0000000000000, 0x4000000000000000, 0x4000000000000001,
	0x7FF0000000000000, 0x7FF8000000000001, 0xFFF8000000000000, 1, 0x000FFFFFFFFFFFFF, 0x7FEFFFFFFFFFFFFF, 0x400921FB54442D18}
var idPool = []uint64{0, 1, math.MaxUint64, 0xDEADBEEFCAFEBABE, 1 << 63}

func genDP(r *vhlib.Rng) wal.WalDatapoint {
	var d wal.WalDatapoint
	if r.Chance(50) {
		d.Timestamp = vhlib.Pick(r, tsPool)
	} else {
		d.Timestamp = uint32(r.U64())
	}
	if r.Chance(60) {
		d.DpVal = math.Float64frombits(vhlib.Pick(r, valPool))
	} else {
		d.DpVal = math.Float64frombits(r.U64())
	}
	if r.Chance(40) {
		d.Tsid = vhlib.Pick(r, idPool)
	} else {
		d.Tsid = r.U64()
	}
	return d
}

func main() {
	log.SetLevel(log.PanicLevel)
	log.SetOutput(os.Stderr)
	if len(os.Args) > 1 && os.Args[1] == "worker" {
		walWorker(os.Args[2:])
		return
	}
	if len(os.Args) > 1 && os.Args[1] == "recoverworker" {
		recoverWorker(os.Args[2:])
		return
	}
	if len(os.Args) > 1 && os.Args[1] == "rewriteworker" {
		rewriteWorker(os.Args[2:])
		return
	}
	if len(os.Args) > 1 && os.Args[1] == "handoffworker" {
		handoffWorker(os.Args[2:])
		return
	}
	if len(os.Args) > 1 && os.Args[1] == "handoffrecoveronly" {
		handoffRecoverOnly(os.Args[2:])
		return
	}
	if len(os.Args) > 1 && os.Args[1] == "handoffrecover" {
		handoffRecover(os.Args[2:])
		return
	}
	cfg := vhlib.ParseFlags()
	sum := vhlib.NewSummary("one case = one (log, mutation) pair; logs of 1-4 appended batches (datapoints from boundary pools and random bits, names, meta entries); " +
		"mutations: every truncation length, single-byte modifications (quick: frame-header bytes + random positions; thorough: every position x 5 values), trailing garbage; " +
		"non-trivial = the mutation changes the file; distinct by (log bytes, mutation); " +
		"hand-off stream: one case = one crash point (prefix of the straced file-system calls of ingest + forced rotation, or of the start-up recovery) followed by the real restart")
	r := vhlib.NewRng(cfg.Seed)
	dir := filepath.Join(cfg.Out, "wal")
	_ = os.MkdirAll(dir, 0o755)

	if os.Getenv("C10_ONLY") == "handoff" { // development aid: only the forced-rotation hand-off stream
		walHandoffCrash(cfg, sum, r.Fork())
		sum.Write(cfg.Out)
		return
	}
	nlogs := 6
	nflips := 60
	if cfg.Thorough() {
		nlogs = 40
	}
	for li := 0; li < nlogs; li++ {
		switch li % 3 {
		case 0:
			runDPLog(r.Fork(), cfg, sum, dir, li, nflips)
		case 1:
			runNamesLog(r.Fork(), cfg, sum, dir, li, nflips)
		case 2:
			runMetaLog(r.Fork(), cfg, sum, dir, li, nflips)
		}
	}
	walOrder(cfg, sum, dir)
	walIngestCrash(cfg, sum, r.Fork())
	walRewriteCrash(cfg, sum, r.Fork())
	walHandoffCrash(cfg, sum, r.Fork())
	walBigBlocks(cfg, sum, dir)
	sum.Write(cfg.Out)
}

// ---------- the writer side end to end: EncodeDatapoint -> appendToWALBuffer -> Append / rotateWAL, then a crash ----------
// worker <dir> <n> <flushSize> <maxFileBytes>: ingest n datapoints of one series (timestamp base+i, value i) and die.
func walWorker(args []string) {
	dir := args[0]
	var n, fs, mx int
	fmt.Sscanf(args[1], "%d", &n)
	fmt.Sscanf(args[2], "%d", &fs)
	fmt.Sscanf(args[3], "%d", &mx)
	sutils.WAL_BLOCK_FLUSH_SIZE = fs
	sutils.MAX_WAL_FILE_SIZE_BYTES = uint64(mx)
	c := config.GetTestConfig(dir + "/")
	c.SSInstanceName = "test"
	config.SetConfig(c)
	if err := config.InitDerivedConfig("test"); err != nil {
		os.Exit(3)
	}
	limit.InitMemoryLimiter()
	metrics.InitTestingConfig()
	if err := meta.InitMetricsMeta(); err != nil {
		os.Exit(3)
	}
	rotAt := -1
	if len(args) > 4 {
		fmt.Sscanf(args[4], "%d", &rotAt)
	}
	for i := 0; i < n; i++ {
		if i == rotAt {
			// a size-based rotation of the BLOCK only: the segment stays open, later datapoints go to block 1
			old := sutils.MAX_BYTES_METRICS_BLOCK
			sutils.MAX_BYTES_METRICS_BLOCK = 1
			for _, mSeg := range metrics.GetAllMetricsSegments() {
				if err := mSeg.CheckAndRotate(false); err != nil {
					os.Exit(5)
				}
			}
			sutils.MAX_BYTES_METRICS_BLOCK = old
		}
		th := metrics.GetTagsHolder()
		th.Insert("host", []byte("h1"), jp.String)
		if err := metrics.EncodeDatapoint([]byte("walm"), th, float64(i), uint32(1700000000+i), 40, 0); err != nil {
			os.Exit(4)
		}
	}
	os.Exit(0) // abrupt end: nothing is flushed or rotated; only completed WAL appends are on disk
}

// recoverworker <dir> <out.json>: the start-up replay (RecoverWALData) in a fresh process on the directory of a
// crashed worker, then every block file under the metrics directory is read back through the real block readers and the
// block summaries (<segkey>.mbsu, through which queries find blocks) are compared with what the blocks hold.
type recBlock struct {
	Seg    string    `json:"seg"`
	Blk    uint16    `json:"blk"`
	T      []uint32  `json:"t"`
	V      []float64 `json:"v"`
	Listed []string  `json:"listed"`
	Cover  bool      `json:"cover"`
	Err    string    `json:"err,omitempty"`
}

func recoverWorker(args []string) {
	dir, of := args[0], args[1]
	c := config.GetTestConfig(dir + "/")
	c.SSInstanceName = "test"
	config.SetConfig(c)
	if err := config.InitDerivedConfig("test"); err != nil {
		os.Exit(3)
	}
	limit.InitMemoryLimiter()
	metrics.InitTestingConfig()
	if err := meta.InitMetricsMeta(); err != nil {
		os.Exit(3)
	}
	metrics.RecoverWALData()
	th := metrics.GetTagsHolder()
	th.Insert("host", []byte("h1"), jp.String)
	tsid, err := th.GetTSID([]byte("walm"))
	if err != nil {
		os.Exit(4)
	}
	var out []recBlock
	qm := &structs.MetricsQueryProcessingMetrics{UpdateLock: &sync.Mutex{}}
	_ = filepath.Walk(dir, func(p string, info os.FileInfo, err error) error {
		if err != nil || info.IsDir() || !strings.HasSuffix(p, ".tso") {
			return nil
		}
		base := strings.TrimSuffix(p, ".tso")
		i := strings.LastIndex(base, "_")
		segKey := base[:i]
		var blk uint16
		fmt.Sscanf(base[i+1:], "%d", &blk)
		rb := recBlock{Seg: filepath.Base(segKey), Blk: blk}
		tssr, err := series.InitTimeSeriesReader(segKey)
		if err != nil {
			rb.Err = err.Error()
			out = append(out, rb)
			return nil
		}
		defer tssr.Close()
		tsbr, err := tssr.InitReaderForBlock(blk, qm)
		if err != nil {
			rb.Err = err.Error()
			out = append(out, rb)
			return nil
		}
		itr, found, err := tsbr.GetTimeSeriesIterator(tsid)
		if err != nil {
			rb.Err = err.Error()
		} else if found {
			for itr.Next() {
				t, v := itr.At()
				rb.T, rb.V = append(rb.T, t), append(rb.V, v)
			}
		}
		sums, err := microreader.ReadMetricsBlockSummaries(segKey + ".mbsu")
		if err != nil {
			rb.Err += " block summaries: " + err.Error()
		}
		for _, bs := range sums {
			rb.Listed = append(rb.Listed, fmt.Sprintf("%d:[%d,%d]", bs.Blknum, bs.LowTs, bs.HighTs))
			if len(rb.T) > 0 && bs.Blknum == blk && bs.LowTs <= rb.T[0] && bs.HighTs >= rb.T[len(rb.T)-1] {
				rb.Cover = true
			}
		}
		out = append(out, rb)
		return nil
	})
	ob, _ := json.Marshal(out)
	_ = os.WriteFile(of, ob, 0o644)
	os.Exit(0)
}

func walIngestCrash(cfg vhlib.Config, sum *vhlib.Summary, r *vhlib.Rng) {
	self, _ := os.Executable()
	type sc struct{ n, fs, mx, rot int }
	scs := []sc{{450, 100, 512, -1}, {130, 50, 4096, 60}, {1000, 50, 300, -1}, {420, 100, 100000, 250}}
	if cfg.Thorough() {
		for i := 0; i < 12; i++ {
			n := r.Range(60, 2500)
			rot := -1
			if i%2 == 0 {
				rot = r.Range(1, n-1)
			}
			scs = append(scs, sc{n, vhlib.Pick(r, []int{20, 50, 100}), vhlib.Pick(r, []int{200, 512, 2048, 100000}), rot})
		}
	}
	for si, c := range scs {
		dir, _ := filepath.Abs(filepath.Join(cfg.Out, fmt.Sprintf("walcrash_%d", si)))
		_ = os.MkdirAll(dir, 0o755)
		cmd := exec.Command(self, "worker", dir, fmt.Sprint(c.n), fmt.Sprint(c.fs), fmt.Sprint(c.mx), fmt.Sprint(c.rot))
		if out, err := cmd.CombinedOutput(); err != nil {
			sum.HarnessError(fmt.Sprintf("wal worker: %v %s", err, string(out)))
			continue
		}
		// the WAL directory of the host
		var walDir string
		_ = filepath.Walk(dir, func(p string, info os.FileInfo, err error) error {
			if err == nil && info.IsDir() && filepath.Base(p) == "wal-ts" {
				walDir = p
			}
			return nil
		})
		if walDir == "" {
			sum.HarnessError("no wal-ts directory after ingest")
			continue
		}
		groups, err := metrics.VerifExtractWALFileInfo(walDir)
		if err != nil {
			sum.HarnessError("extractWALFileInfo: " + err.Error())
			continue
		}
		var keys []string
		for k := range groups {
			keys = append(keys, k)
		}
		sort.Strings(keys)
		var replay []wal.WalDatapoint
		nfiles := 0
		for _, k := range keys {
			for _, fn := range groups[k] {
				nfiles++
				got, _ := readDP(filepath.Join(walDir, fn))
				replay = append(replay, got...)
			}
		}
		sum.Eval(fmt.Sprintf("walcrash/%d", si), true)
		sum.Count("walcrash/histories")
		sum.Count(fmt.Sprintf("walcrash/files=%d", nfiles))
		// completed appends: every full buffer of fs datapoints was appended before the next datapoint was accepted
		// (the 1 s timer may have appended more): replay must be a PREFIX of the ingested sequence of at least that length
		// with a block rotation after rot datapoints the first rot are in the rotated block (its WAL files are gone),
		// the WAL of the open block starts at datapoint rot
		off := 0
		if c.rot > 0 {
			off = c.rot
		}
		minLen := ((c.n - off - 1) / c.fs) * c.fs
		ok := len(replay) >= minLen && len(replay) <= c.n-off
		for i := 0; ok && i < len(replay); i++ {
			ok = replay[i].Timestamp == uint32(1700000000+off+i) && replay[i].DpVal == float64(off+i)
		}
		cs := map[string]interface{}{"datapoints": c.n, "wal_block_flush_size": c.fs, "max_wal_file_bytes": c.mx, "wal_files": nfiles, "replayed": len(replay)}
		if !ok {
			first := -1
			for i := range replay {
				if replay[i].Timestamp != uint32(1700000000+off+i) {
					first = i
					break
				}
			}
			cls := "wal_restart_replay_not_completed_prefix"
			if nfiles >= 11 && first >= 0 {
				cls = "wal_files_replayed_in_lexicographic_order"
			}
			sum.Fail(cls, fmt.Sprintf("%d datapoints ingested (buffer %d, file limit %d bytes -> %d WAL files), process ended; replaying the files as RecoverWALData does yields %d datapoints, first deviation at position %d; at least the first %d (completed appends) must come back in order",
				c.n, c.fs, c.mx, nfiles, len(replay), first, minLen), cs)
		}
		sum.Sample(cs)
		// ---- the real start-up replay on the same directory: what is in the block files afterwards, and is it findable ----
		of := filepath.Join(dir, "recovered.json")
		rc := exec.Command(self, "recoverworker", dir, of)
		if out, err := rc.CombinedOutput(); err != nil {
			sum.Fail("wal_recovery_process_failed", fmt.Sprintf("RecoverWALData on the directory of the crashed worker: %v %s", err, string(out)), cs)
			continue
		}
		var blocks []recBlock
		ob, _ := os.ReadFile(of)
		_ = json.Unmarshal(ob, &blocks)
		sort.Slice(blocks, func(a, b int) bool {
			if blocks[a].Seg != blocks[b].Seg {
				return blocks[a].Seg < blocks[b].Seg
			}
			return blocks[a].Blk < blocks[b].Blk
		})
		var onDisk []uint32
		vOK := true
		for _, b := range blocks {
			if b.Err != "" {
				sum.Fail("wal_recovered_block_unreadable", fmt.Sprintf("segment %s block %d after RecoverWALData: %s", b.Seg, b.Blk, b.Err), cs)
			}
			for i, t := range b.T {
				onDisk = append(onDisk, t)
				if b.V[i] != float64(int(t)-1700000000) {
					vOK = false
				}
			}
			if len(b.T) > 0 && !b.Cover {
				sum.Fail("wal_recovered_block_not_listed_in_block_summaries", fmt.Sprintf("%d datapoints ingested, block rotation after %d, process ended, RecoverWALData: block %d of segment %s holds %d datapoints [%d,%d] but the segment's block summaries (through which queries find blocks) list %v",
					c.n, c.rot, b.Blk, b.Seg, len(b.T), b.T[0], b.T[len(b.T)-1], b.Listed), cs)
			}
		}
		sort.Slice(onDisk, func(a, b int) bool { return onDisk[a] < onDisk[b] })
		want := off + len(replay) // the rotated block + the completed appends of the open block's WAL
		good := vOK && len(onDisk) == want
		for i := 0; good && i < len(onDisk); i++ {
			good = onDisk[i] == uint32(1700000000+i)
		}
		sum.Eval(fmt.Sprintf("walrecover/%d", si), true)
		sum.Count("walrecover/histories")
		if !good {
			sum.Fail("wal_recovery_blocks_not_completed_prefix", fmt.Sprintf("%d datapoints ingested (block rotation after %d), process ended with %d datapoints in the WAL files; after RecoverWALData the block files hold %d datapoints (values intact: %v), expected exactly the first %d",
				c.n, c.rot, len(replay), len(onDisk), vOK, want), cs)
		}
	}
}

// order in which RecoverWALData replays the WAL files of one block (extractWALFileInfo, through a verif hook)
func walOrder(cfg vhlib.Config, sum *vhlib.Summary, dir string) {
	var cases []string
	for _, n := range []int{1, 2, 9, 10, 11, 12, 21, 101} {
		d := filepath.Join(dir, fmt.Sprintf("order_%d", n))
		_ = os.MkdirAll(d, 0o755)
		for i := 0; i < n; i++ {
			// the names initNewDpWal / rotateWAL give the files of shard 0, segment 3, block 7, in append order
			_ = os.WriteFile(filepath.Join(d, fmt.Sprintf("shardID_0_segID_3_blockID_7_%d.wal", i)), []byte{1}, 0o644)
		}
		// a second block in the same directory must not disturb the first
		_ = os.WriteFile(filepath.Join(d, "shardID_0_segID_3_blockID_8_0.wal"), []byte{1}, 0o644)
		m, err := metrics.VerifExtractWALFileInfo(d)
		if err != nil {
			sum.HarnessError("extractWALFileInfo: " + err.Error())
			continue
		}
		var idx []string
		inOrder := true
		for j, name := range m["0_3_7"] {
			var sh, sg, bl, i int
			fmt.Sscanf(name, "shardID_%d_segID_%d_blockID_%d_%d.wal", &sh, &sg, &bl, &i)
			idx = append(idx, fmt.Sprint(i))
			if i != j {
				inOrder = false
			}
		}
		sum.Eval(fmt.Sprintf("walorder/%d", n), n >= 2)
		sum.Count("walorder/cases")
		if len(m["0_3_7"]) != n || len(m["0_3_8"]) != 1 {
			sum.Fail("wal_files_grouped_wrongly", fmt.Sprintf("%d files of block 7: grouped %d, block 8: %d", n, len(m["0_3_7"]), len(m["0_3_8"])), map[string]interface{}{"n": n})
		}
		if !inOrder {
			cls := "wal_replay_order_not_append_order"
			if n >= 11 {
				cls = "wal_files_replayed_in_lexicographic_order"
			}
			sum.Fail(cls, fmt.Sprintf("block with %d WAL files: replay order of the file indices is %v, append order is 0..%d", n, idx, n-1), map[string]interface{}{"n": n, "order": idx})
		}
		cases = append(cases, fmt.Sprintf("(%d, %s)", n, vhlib.CoqList(idx)))
	}
	defs := "Open Scope nat_scope.\nDefinition cases : list (nat * list nat) := " + vhlib.CoqListNL(cases) + ".\n"
	sum.WriteCaseFile(cfg.Out, "cases_walorder", "From SigM Require Import Base WalOrder.\n", defs, "check_wal_order cases", len(cases))
}

func runDPLog(r *vhlib.Rng, cfg vhlib.Config, sum *vhlib.Summary, dir string, li, nflips int) {
	nb := r.Range(1, 4)
	batches := make([][]wal.WalDatapoint, nb)
	for i := range batches {
		n := r.Range(1, 5)
		for j := 0; j < n; j++ {
			batches[i] = append(batches[i], genDP(r))
		}
	}
	path := filepath.Join(dir, fmt.Sprintf("dp_%d.wal", li))
	w, err := wal.NewWAL(path, wal.NewDataPointEncoder())
	if err != nil {
		sum.HarnessError("NewWAL: " + err.Error())
		return
	}
	var payloads, raws [][]byte
	penc := wal.NewDataPointEncoder()
	for _, b := range batches {
		if err := w.Append(b); err != nil {
			sum.HarnessError("Append: " + err.Error())
			return
		}
		p, _ := penc.PrepareEncode(b)
		p = append([]byte{}, p...)
		payloads = append(payloads, p)
		raw, err := zdec.DecodeAll(p, nil)
		if err != nil {
			sum.HarnessError("zstd: " + err.Error())
			return
		}
		raws = append(raws, raw)
	}
	w.Close()
	file, _ := os.ReadFile(path)
	var all []wal.WalDatapoint
	var cum []int // cumulative counts at batch boundaries
	for _, b := range batches {
		all = append(all, b...)
		cum = append(cum, len(all))
	}
	// frame boundaries (computed from the payload lengths; the model checks the same file byte for byte)
	bounds := []int{1}
	for _, p := range payloads {
		bounds = append(bounds, bounds[len(bounds)-1]+8+len(p))
	}
	muts := mutations(r, file, cfg.Thorough(), nflips, bounds)
	var obsItems []string
	mpath := filepath.Join(dir, fmt.Sprintf("dp_%d_mut.wal", li))
	for _, m := range muts {
		mf := m.apply(file)
		_ = os.WriteFile(mpath, mf, 0o644)
		t0 := time.Now()
		got, st := readDP(mpath)
		if d := time.Since(t0); d > 200*time.Millisecond {
			fmt.Fprintf(os.Stderr, "SLOW %v %s\n", d, m.coq())
		}
		sum.Eval(fmt.Sprintf("dp%d/%s/%d/%d", li, m.Kind, m.K, m.V), !bytes.Equal(mf, file))
		sum.Count("dp/" + m.Kind)
		sum.Count(fmt.Sprintf("status/%d", st))
		// ---- property oracle on the implementation ----
		c := dpCase{Kind: "dp", Batches: batches, Mut: &m, File: file}
		isPrefix := len(got) <= len(all)
		for i := 0; isPrefix && i < len(got); i++ {
			isPrefix = dpEq(got[i], all[i])
		}
		if st == 2 {
			sum.Fail("wal_reader_panic", fmt.Sprintf("DPWalIterator panicked on %s", m.coq()), c)
		}
		if !isPrefix {
			sum.Fail("wal_invented_datapoints", fmt.Sprintf("replay of %s yields datapoints that are not a prefix of what was appended", m.coq()), c)
		} else if m.Kind == "trunc" {
			// exactly the batches whose append completed
			want := 0
			for bi := range payloads {
				if m.K >= bounds[bi+1] {
					want = cum[bi]
				}
			}
			if len(got) != want {
				sum.Fail("wal_cut_not_exact_prefix", fmt.Sprintf("cut at %d: %d datapoints replayed, %d completed", m.K, len(got), want), c)
			}
		} else if m.Kind == "flip" && m.K >= 1 {
			// damage inside frame j: everything before frame j is still replayed; frame j itself
			// must not contribute unless the modified byte is outside it
			for bi := range payloads {
				if m.K >= bounds[bi] && m.K < bounds[bi+1] {
					before := 0
					if bi > 0 {
						before = cum[bi-1]
					}
					if len(got) < before {
						sum.Fail("wal_damage_drops_earlier_blocks", fmt.Sprintf("%s in block %d: only %d datapoints, %d precede the damage", m.coq(), bi, len(got), before), c)
					}
					if m.K >= bounds[bi]+4 && len(got) > before {
						sum.Fail("wal_damaged_block_accepted", fmt.Sprintf("%s in checksum/payload of block %d was accepted", m.coq(), bi), c)
					}
				}
			}
		}
		obsItems = append(obsItems, fmt.Sprintf("(%s, (%s, %d))", m.coq(), coqDPs(got), st))
		if sum.Evaluations%97 == 1 {
			sum.Sample(map[string]interface{}{"log": "dp", "batches": len(batches), "file_len": len(file), "mutation": m.coq(), "replayed": len(got), "status": st})
		}
	}
	// ---- Coq case file ----
	var ps, tbl, rs, bs []string
	for i := range payloads {
		ps = append(ps, vhlib.CoqBytes(payloads[i]))
		tbl = append(tbl, "("+vhlib.CoqBytes(payloads[i])+", "+vhlib.CoqBytes(raws[i])+")")
		rs = append(rs, vhlib.CoqBytes(raws[i]))
		bs = append(bs, coqDPs(batches[i]))
	}
	defs := "Definition payloads : list (list N) := " + vhlib.CoqListNL(ps) + ".\n" +
		"Definition tbl : list (list N * list N) := " + vhlib.CoqListNL(tbl) + ".\n" +
		"Definition raws : list (list N) := " + vhlib.CoqListNL(rs) + ".\n" +
		"Definition batches : list (list dp) := " + vhlib.CoqListNL(bs) + ".\n" +
		"Definition file : list N := " + vhlib.CoqBytes(file) + ".\n" +
		"Definition obs : list (mutation * (list dp * N)) := " + vhlib.CoqListNL(obsItems) + ".\n"
	expr := "(if check_dp_raw batches raws then [] else [999%nat]) ++ check_dp payloads tbl file obs"
	sum.WriteCaseFile(cfg.Out, fmt.Sprintf("cases_dp_%d", li), "From SigM Require Import Base Crc32 Wal WalCheck.\n", defs, expr, len(muts)+1)
}

var namePool = []string{"cpu", "m", "a.b", "http_requests_total", "x", "ünï", strings.Repeat("n", 70), "node_cpu_seconds_total{", "a b"}

func runNamesLog(r *vhlib.Rng, cfg vhlib.Config, sum *vhlib.Summary, dir string, li, nflips int) {
	nb := r.Range(1, 4)
	batches := make([][]string, nb)
	for i := range batches {
		n := r.Range(1, 4)
		for j := 0; j < n; j++ {
			nm := vhlib.Pick(r, namePool)
			if r.Chance(40) {
				nm = fmt.Sprintf("metric_%d", r.Intn(1000))
			}
			batches[i] = append(batches[i], nm)
		}
	}
	path := filepath.Join(dir, fmt.Sprintf("mn_%d.wal", li))
	w, err := wal.NewWAL(path, wal.NewMetricNameEncoder())
	if err != nil {
		sum.HarnessError("NewWAL: " + err.Error())
		return
	}
	var payloads, raws [][]byte
	penc := wal.NewMetricNameEncoder()
	for _, b := range batches {
		if err := w.Append(b); err != nil {
			sum.HarnessError("Append: " + err.Error())
			return
		}
		p, _ := penc.PrepareEncode(b)
		p = append([]byte{}, p...)
		payloads = append(payloads, p)
		raw, _ := zdec.DecodeAll(p, nil)
		raws = append(raws, raw)
	}
	w.Close()
	file, _ := os.ReadFile(path)
	var all []string
	var cum []int
	for _, b := range batches {
		all = append(all, b...)
		cum = append(cum, len(all))
	}
	bounds := []int{1}
	for _, p := range payloads {
		bounds = append(bounds, bounds[len(bounds)-1]+8+len(p))
	}
	muts := mutations(r, file, cfg.Thorough(), nflips, bounds)
	var obsItems []string
	mpath := filepath.Join(dir, fmt.Sprintf("mn_%d_mut.wal", li))
	for _, m := range muts {
		mf := m.apply(file)
		_ = os.WriteFile(mpath, mf, 0o644)
		got, st := readNames(mpath)
		sum.Eval(fmt.Sprintf("mn%d/%s/%d/%d", li, m.Kind, m.K, m.V), !bytes.Equal(mf, file))
		sum.Count("names/" + m.Kind)
		sum.Count(fmt.Sprintf("status/%d", st))
		c := dpCase{Kind: "names", Names: batches, Mut: &m, File: file}
		isPrefix := len(got) <= len(all)
		for i := 0; isPrefix && i < len(got); i++ {
			isPrefix = got[i] == all[i]
		}
		if st == 2 {
			sum.Fail("wal_reader_panic", fmt.Sprintf("MNameWalIterator panicked on %s", m.coq()), c)
		}
		if !isPrefix {
			sum.Fail("wal_invented_names", fmt.Sprintf("replay of %s yields names that are not a prefix of what was appended", m.coq()), c)
		} else if m.Kind == "trunc" {
			want := 0
			for bi := range payloads {
				if m.K >= bounds[bi+1] {
					want = cum[bi]
				}
			}
			if len(got) != want {
				sum.Fail("wal_cut_not_exact_prefix", fmt.Sprintf("names cut at %d: %d replayed, %d completed", m.K, len(got), want), c)
			}
		}
		var gi []string
		for _, g := range got {
			gi = append(gi, vhlib.CoqStr(g))
		}
		obsItems = append(obsItems, fmt.Sprintf("(%s, (%s, %d))", m.coq(), vhlib.CoqList(gi), st))
	}
	var ps, tbl, rs, bs []string
	for i := range payloads {
		ps = append(ps, vhlib.CoqBytes(payloads[i]))
		tbl = append(tbl, "("+vhlib.CoqBytes(payloads[i])+", "+vhlib.CoqBytes(raws[i])+")")
		rs = append(rs, vhlib.CoqBytes(raws[i]))
		var ns []string
		for _, n := range batches[i] {
			ns = append(ns, vhlib.CoqStr(n))
		}
		bs = append(bs, vhlib.CoqList(ns))
	}
	defs := "Definition payloads : list (list N) := " + vhlib.CoqListNL(ps) + ".\n" +
		"Definition tbl : list (list N * list N) := " + vhlib.CoqListNL(tbl) + ".\n" +
		"Definition raws : list (list N) := " + vhlib.CoqListNL(rs) + ".\n" +
		"Definition batches : list (list (list N)) := " + vhlib.CoqListNL(bs) + ".\n" +
		"Definition file : list N := " + vhlib.CoqBytes(file) + ".\n" +
		"Definition obs : list (mutation * (list (list N) * N)) := " + vhlib.CoqListNL(obsItems) + ".\n"
	expr := "(if check_names_raw batches raws then [] else [999%nat]) ++ check_names payloads tbl file obs"
	sum.WriteCaseFile(cfg.Out, fmt.Sprintf("cases_mn_%d", li), "From SigM Require Import Base Crc32 Wal WalCheck.\n", defs, expr, len(muts)+1)
}

func runMetaLog(r *vhlib.Rng, cfg vhlib.Config, sum *vhlib.Summary, dir string, li, nflips int) {
	// the meta-entry log is rewritten (Write = truncate + one block) or appended; both are exercised:
	// k Appends followed by one Write leaves exactly the Write's block.
	nb := r.Range(1, 3)
	mk := func(id uint64) *structs.MetricsMeta {
		return &structs.MetricsMeta{MSegmentDir: fmt.Sprintf("/d/seg%d", id), NumBlocks: uint16(id % 7), DatapointCount: id,
			TagKeys: map[string]bool{"k": true}, EarliestEpochSec: 1700000000, LatestEpochSec: 1700000060, OrgId: int64(id % 3)}
	}
	var batches [][]*structs.MetricsMeta
	next := uint64(r.Intn(1000))*10 + 1
	for i := 0; i < nb; i++ {
		n := r.Range(1, 3)
		var b []*structs.MetricsMeta
		for j := 0; j < n; j++ {
			b = append(b, mk(next))
			next++
		}
		batches = append(batches, b)
	}
	useWrite := r.Chance(50)
	path := filepath.Join(dir, fmt.Sprintf("mm_%d.wal", li))
	w, err := wal.NewWAL(path, &wal.MetricsMetaEncoder{})
	if err != nil {
		sum.HarnessError("NewWAL: " + err.Error())
		return
	}
	var kept [][]*structs.MetricsMeta
	for i, b := range batches {
		if useWrite && i == len(batches)-1 {
			err = w.Write(b)
			kept = [][]*structs.MetricsMeta{b}
		} else {
			err = w.Append(b)
			kept = append(kept, b)
		}
		if err != nil {
			sum.HarnessError("Append/Write: " + err.Error())
			return
		}
	}
	w.Close()
	if useWrite {
		sum.Count("meta/write_after_appends")
	}
	file, _ := os.ReadFile(path)
	var payloads [][]byte
	var all []uint64
	var cum []int
	var ids [][]uint64
	for _, b := range kept {
		p, _ := json.Marshal(b)
		payloads = append(payloads, p)
		var bi []uint64
		for _, e := range b {
			all = append(all, e.DatapointCount)
			bi = append(bi, e.DatapointCount)
		}
		ids = append(ids, bi)
		cum = append(cum, len(all))
	}
	bounds := []int{1}
	for _, p := range payloads {
		bounds = append(bounds, bounds[len(bounds)-1]+8+len(p))
	}
	muts := mutations(r, file, cfg.Thorough(), nflips, bounds)
	var obsItems []string
	mpath := filepath.Join(dir, fmt.Sprintf("mm_%d_mut.wal", li))
	for _, m := range muts {
		mf := m.apply(file)
		_ = os.WriteFile(mpath, mf, 0o644)
		got, st := readMeta(mpath)
		sum.Eval(fmt.Sprintf("mm%d/%s/%d/%d", li, m.Kind, m.K, m.V), !bytes.Equal(mf, file))
		sum.Count("meta/" + m.Kind)
		sum.Count(fmt.Sprintf("status/%d", st))
		c := map[string]interface{}{"kind": "meta", "ids": ids, "mutation": m, "file": file}
		isPrefix := len(got) <= len(all)
		for i := 0; isPrefix && i < len(got); i++ {
			isPrefix = got[i] == all[i]
		}
		if st == 2 {
			sum.Fail("wal_reader_panic", fmt.Sprintf("MMetaEntryIterator panicked on %s", m.coq()), c)
		}
		if !isPrefix {
			sum.Fail("wal_invented_meta", fmt.Sprintf("replay of %s yields entries that are not a prefix of what was written", m.coq()), c)
		} else if m.Kind == "trunc" {
			want := 0
			for bi := range payloads {
				if m.K >= bounds[bi+1] {
					want = cum[bi]
				}
			}
			if len(got) != want {
				sum.Fail("wal_cut_not_exact_prefix", fmt.Sprintf("meta cut at %d: %d replayed, %d completed", m.K, len(got), want), c)
			}
		}
		var gi []string
		for _, g := range got {
			gi = append(gi, vhlib.CoqN(g))
		}
		obsItems = append(obsItems, fmt.Sprintf("(%s, (%s, %d))", m.coq(), vhlib.CoqList(gi), st))
	}
	var ps, tbl []string
	for i := range payloads {
		ps = append(ps, vhlib.CoqBytes(payloads[i]))
		var is []string
		for _, id := range ids[i] {
			is = append(is, vhlib.CoqN(id))
		}
		tbl = append(tbl, "("+vhlib.CoqBytes(payloads[i])+", "+vhlib.CoqList(is)+")")
	}
	defs := "Definition payloads : list (list N) := " + vhlib.CoqListNL(ps) + ".\n" +
		"Definition tbl : list (list N * list N) := " + vhlib.CoqListNL(tbl) + ".\n" +
		"Definition file : list N := " + vhlib.CoqBytes(file) + ".\n" +
		"Definition obs : list (mutation * (list N * N)) := " + vhlib.CoqListNL(obsItems) + ".\n"
	expr := "check_meta payloads tbl file obs"
	sum.WriteCaseFile(cfg.Out, fmt.Sprintf("cases_mm_%d", li), "From SigM Require Import Base Crc32 Wal WalCheck.\n", defs, expr, len(muts)+1)
}

// ---------- Wal.Write (rewrite of the meta-entry log): every crash prefix of its system calls ----------
func metaEntries(first uint64, n int) []*structs.MetricsMeta {
	var b []*structs.MetricsMeta
	for j := 0; j < n; j++ {
		id := first + uint64(j)
		b = append(b, &structs.MetricsMeta{MSegmentDir: fmt.Sprintf("/d/seg%d", id), NumBlocks: uint16(id % 7), DatapointCount: id,
			TagKeys: map[string]bool{"k": true}, EarliestEpochSec: 1700000000, LatestEpochSec: 1700000060, OrgId: int64(id % 3)})
	}
	return b
}

// rewriteworker <file> <nwrites>: NewWAL, then nwrites Write calls with entries ids 100*i+j
func rewriteWorker(args []string) {
	var n int
	fmt.Sscanf(args[1], "%d", &n)
	w, err := wal.NewWAL(args[0], &wal.MetricsMetaEncoder{})
	if err != nil {
		os.Exit(3)
	}
	for i := 1; i <= n; i++ {
		if err := w.Write(metaEntries(uint64(100*i), 1+i%3)); err != nil {
			os.Exit(4)
		}
	}
	os.Exit(0)
}

func walRewriteCrash(cfg vhlib.Config, sum *vhlib.Summary, r *vhlib.Rng) {
	self, _ := os.Executable()
	nw := 3
	if cfg.Thorough() {
		nw = 6
	}
	dir, _ := filepath.Abs(filepath.Join(cfg.Out, "rewrite"))
	_ = os.MkdirAll(dir, 0o755)
	logPath := filepath.Join(dir, "metricsMetaEntry.wal")
	tracef := filepath.Join(dir, "trace.txt")
	cmd := exec.Command("strace", "-f", "-y", "-xx", "-s", "200000", "-o", tracef, "-e", "trace=openat,write,pwrite64,lseek,rename,renameat,renameat2,unlink,unlinkat,ftruncate,fsync", self, "rewriteworker", logPath, fmt.Sprint(nw))
	if out, err := cmd.CombinedOutput(); err != nil {
		sum.HarnessError(fmt.Sprintf("traced rewrite worker: %v %s", err, string(out)))
		return
	}
	ops, err := vhlib.ParseTrace(tracef, dir)
	if err != nil || len(ops) == 0 {
		sum.HarnessError(fmt.Sprintf("rewrite trace: %v (%d ops)", err, len(ops)))
		return
	}
	// tokens; the initial NewWAL (creat/trunc + version byte) is the model's fs_new and is skipped
	type tok struct {
		coq string
		op  vhlib.FsOp
	}
	var toks []tok
	seenVersion := false
	for _, o := range ops {
		isTmp := strings.HasSuffix(o.Path, ".tmp")
		switch {
		case !seenVersion:
			if o.Kind == "write" && !isTmp {
				seenVersion = true
			}
			continue
		case o.Kind == "ftruncate" && !isTmp:
			toks = append(toks, tok{"WTrunc", o})
		case o.Kind == "write" && !isTmp:
			toks = append(toks, tok{"WAppend " + vhlib.CoqBytes(o.Data), o})
		case (o.Kind == "trunc" || o.Kind == "creat") && isTmp:
			toks = append(toks, tok{"TTrunc", o})
		case o.Kind == "write" && isTmp:
			toks = append(toks, tok{"TAppend " + vhlib.CoqBytes(o.Data), o})
		case o.Kind == "rename":
			toks = append(toks, tok{"TRename", o})
		}
	}
	atomic := false
	for _, t := range toks {
		if t.coq == "TRename" {
			atomic = true
		}
	}
	// payloads + id table
	var payloads, tbl []string
	var ids [][]uint64
	for i := 1; i <= nw; i++ {
		b := metaEntries(uint64(100*i), 1+i%3)
		p, _ := json.Marshal(b)
		payloads = append(payloads, vhlib.CoqBytes(p))
		var is []string
		var iu []uint64
		for _, e := range b {
			is = append(is, vhlib.CoqN(e.DatapointCount))
			iu = append(iu, e.DatapointCount)
		}
		ids = append(ids, iu)
		tbl = append(tbl, "("+vhlib.CoqBytes(p)+", "+vhlib.CoqList(is)+")")
	}
	// every prefix: rebuild the file state, read it with the real iterator
	var obs, tl []string
	for _, t := range toks {
		tl = append(tl, "("+t.coq+")")
	}
	// index of the last token of each Write = completion point
	perWrite := len(toks) / nw
	replayDir := filepath.Join(dir, "replay")
	for k := 0; k <= len(toks); k++ {
		_ = os.RemoveAll(replayDir)
		_ = os.MkdirAll(replayDir, 0o755)
		rp := filepath.Join(replayDir, "metricsMetaEntry.wal")
		_ = os.WriteFile(rp, []byte{1}, 0o644) // NewWAL state
		for _, t := range toks[:k] {
			o := t.op
			o.Path = strings.Replace(o.Path, dir, replayDir, 1)
			o.Path2 = strings.Replace(o.Path2, dir, replayDir, 1)
			if err := vhlib.ApplyOp(o); err != nil {
				sum.HarnessError("rewrite replay: " + err.Error())
				return
			}
		}
		got, st := readMeta(rp)
		sum.Eval(fmt.Sprintf("rewrite/%d", k), k > 0)
		sum.Count("rewrite/crash_points")
		completed := 0
		if perWrite > 0 {
			completed = k / perWrite
		}
		var want []uint64
		if completed >= 1 {
			want = ids[completed-1]
		}
		okk := st != 2 && len(got) == len(want) // a read error with nothing completed loses nothing
		for i := 0; okk && i < len(got); i++ {
			okk = got[i] == want[i]
		}
		if !okk {
			sum.Fail("meta_wal_rewrite_crash_loses_completed_write", fmt.Sprintf("crash after %d of %d calls of %d Wal.Write rewrites (%d completed): restart reads entries %v (status %d), the last completed Write holds %v",
				k, len(toks), nw, completed, got, st, want), map[string]interface{}{"calls_completed": k, "writes_completed": completed, "read": got, "expected": want})
		}
		var gi []string
		for _, g := range got {
			gi = append(gi, vhlib.CoqN(g))
		}
		obs = append(obs, fmt.Sprintf("(%d%%nat, (%s, %d))", k, vhlib.CoqList(gi), st))
	}
	defs := "Definition payloads : list (list N) := " + vhlib.CoqListNL(payloads) + ".\n" +
		"Definition tbl : list (list N * list N) := " + vhlib.CoqListNL(tbl) + ".\n" +
		"Definition observed_ops : list wop := " + vhlib.CoqListNL(tl) + ".\n" +
		"Definition obs : list (nat * (list N * N)) := " + vhlib.CoqListNL(obs) + ".\n"
	sum.WriteCaseFile(cfg.Out, "cases_rewrite", "From SigM Require Import Base Crc32 Wal WalRewrite.\n", defs,
		fmt.Sprintf("check_rewrite %v payloads tbl observed_ops obs", atomic), len(obs)+1)
	sum.Sample(map[string]interface{}{"part": "Wal.Write rewrite", "writes": nw, "calls": len(toks), "protocol_atomic": atomic})
}

// ---------- blocks as large as the writers can make them (oracle only: the theorems are for every size, the Coq
// comparison runs on the small logs above) ----------
// The name log has no bound on the names of one flush interval; a datapoint block holds up to WAL_BLOCK_FLUSH_SIZE
// datapoints; the meta-entry log holds every unrotated segment.  Each log: [big block, small block], read back whole
// and cut before / inside / after the big block.
func walBigBlocks(cfg vhlib.Config, sum *vhlib.Summary, dir string) {
	sizes := []int{45000}
	if cfg.Thorough() {
		sizes = []int{20000, 45000, 150000}
	}
	for _, n := range sizes {
		// names: ~30 bytes each, n = 45000 is ~1.3 MiB before compression
		big := make([]string, n)
		for i := range big {
			big[i] = fmt.Sprintf("fleet_%06d_cpu_seconds_total_x", i)
		}
		small := []string{"disk_a", "disk_b", "disk_c"}
		path := filepath.Join(dir, fmt.Sprintf("big_mn_%d.wal", n))
		w, err := wal.NewWAL(path, wal.NewMetricNameEncoder())
		if err != nil {
			sum.HarnessError("NewWAL: " + err.Error())
			return
		}
		var bounds []int64
		for _, b := range [][]string{big, small} {
			if err := w.Append(b); err != nil {
				sum.HarnessError("Append(big names): " + err.Error())
				return
			}
			if fi, err := os.Stat(path); err == nil {
				bounds = append(bounds, fi.Size())
			}
		}
		w.Close()
		all := append(append([]string{}, big...), small...)
		check := func(label string, want int) {
			got, st := readNames(path)
			sum.Eval(fmt.Sprintf("bigmn/%d/%s", n, label), true)
			sum.Count("bignames/" + label)
			ok := st != 2 && len(got) == want
			for i := 0; ok && i < want; i += 997 {
				ok = got[i] == all[i]
			}
			if ok && want > 0 {
				ok = got[want-1] == all[want-1]
			}
			if !ok {
				sum.Fail("wal_large_block_not_replayed", fmt.Sprintf("name log [%d names, 3 names] %s: %d names replayed (status %d), %d completed", n, label, len(got), st, want),
					map[string]interface{}{"names_in_first_block": n, "cut": label, "replayed": len(got), "expected": want})
			}
		}
		check("whole", n+3)
		if len(bounds) == 2 {
			_ = os.Truncate(path, bounds[1]-1)
			check("cut inside the small block", n)
			_ = os.Truncate(path, bounds[0])
			check("cut after the big block", n)
			_ = os.Truncate(path, bounds[0]-1)
			check("cut inside the big block", 0)
		}
		_ = os.Remove(path)
	}
	// datapoints: one block of WAL_BLOCK_FLUSH_SIZE datapoints (the largest the writer appends) and one of 3
	nd := sutils.WAL_BLOCK_FLUSH_SIZE
	mk := func(k, n int) []wal.WalDatapoint {
		out := make([]wal.WalDatapoint, n)
		for i := range out {
			out[i] = wal.WalDatapoint{Timestamp: uint32(1700000000 + k + i), DpVal: float64(i) * 1.5, Tsid: uint64(1000 + i%97)}
		}
		return out
	}
	path := filepath.Join(dir, "big_dp.wal")
	w, err := wal.NewWAL(path, wal.NewDataPointEncoder())
	if err != nil {
		sum.HarnessError("NewWAL: " + err.Error())
		return
	}
	b1, b2 := mk(0, nd), mk(nd, 3)
	if err := w.Append(b1); err != nil {
		sum.HarnessError("Append(big dps): " + err.Error())
		return
	}
	_ = w.Append(b2)
	w.Close()
	got, st := readDP(path)
	sum.Eval("bigdp/whole", true)
	sum.Count("bigdps/whole")
	ok := st == 0 && len(got) == nd+3
	for i := 0; ok && i < nd; i += 499 {
		ok = got[i] == b1[i]
	}
	if ok {
		ok = got[nd+2] == b2[2]
	}
	if !ok {
		sum.Fail("wal_large_block_not_replayed", fmt.Sprintf("datapoint log [%d datapoints, 3 datapoints]: %d replayed (status %d)", nd, len(got), st), map[string]interface{}{"datapoints_in_first_block": nd, "replayed": len(got)})
	}
	_ = os.Remove(path)
}

// restart.go: what a restart FINDS and what it LEAVES, per shard, in the vocabulary of coq/model/WalRestart.v.
// The start-up code calls three recovery functions that cooperate through the file system (the segment directory that
// FlushMetricNames needs is created by flushBlock); the restart worker goes through the real startIngestServer, so the
// order is the code's.  For every crash point of the hand-off streams the state before the restart and the state after
// it are recorded and the model (restart false startup_order) must turn the first into the second.
package main

import (
	"fmt"
	"os"
	"os/exec"
	"path/filepath"
	"sort"
	"strings"

	"encoding/json"

	"verifharness/vhlib"
)

type segObs struct {
	Dir    bool              // final/ts/<shard>/<segID>/ exists
	DpBlk  int               // block number of the datapoint log files that hold completed appends
	DpBlks int               // number of different block numbers among them (the model has one)
	DpLog  []uint32          // timestamps of the completed appends of the datapoint log, files in replay order
	Blocks map[int][]uint32  // block number -> timestamps in the block files
	NmLog  []string          // metric names of the completed appends of the name log
	NmSt   []string          // names in the .mnm file(s) of the shard
	MeLog  bool              // the meta-entry log holds the entry of the segment
	MeSt   bool              // metricmeta.json lists the segment
}

// shardID_<sh>_segID_<seg>_blockID_<blk>_<idx>.wal
func walBlockAndIndex(name string) (blk, idx int, ok bool) {
	parts := strings.Split(strings.TrimSuffix(name, ".wal"), "_")
	if len(parts) < 7 || parts[4] != "blockID" {
		return 0, 0, false
	}
	if _, err := fmt.Sscanf(parts[5], "%d", &blk); err != nil {
		return 0, 0, false
	}
	if _, err := fmt.Sscanf(parts[6], "%d", &idx); err != nil {
		return 0, 0, false
	}
	return blk, idx, true
}

// root: the tree to look at (h.pristine before the restart, h.dir after it); rec: the store as the worker read it
func (h *hoRun) observeSeg(root string, rec *hoRecovered, sh string) segObs {
	o := segObs{Blocks: map[int][]uint32{}}
	mapped := func(p string) string { return strings.Replace(p, h.dir, root, 1) }
	segDir := ""
	if d := h.dirOf[sh]; d != "" {
		segDir = filepath.Dir(d)
		if fi, err := os.Stat(mapped(segDir)); err == nil && fi.IsDir() {
			o.Dir = true
		}
	}
	h.findWalRoot()
	walRoot := strings.Replace(h.walRoot, h.pristine, root, 1)
	type wf struct {
		blk, idx int
		name     string
	}
	var files []wf
	if des, err := os.ReadDir(walRoot); err == nil {
		for _, de := range des {
			if de.IsDir() || shardOfWal(de.Name()) != sh {
				continue
			}
			if b, i, ok := walBlockAndIndex(de.Name()); ok {
				files = append(files, wf{b, i, de.Name()})
			}
		}
	}
	sort.Slice(files, func(a, b int) bool {
		if files[a].blk != files[b].blk {
			return files[a].blk < files[b].blk
		}
		return files[a].idx < files[b].idx
	})
	seenBlk := map[int]bool{}
	for _, f := range files {
		got, _ := readDP(filepath.Join(walRoot, f.name))
		if len(got) == 0 {
			continue
		}
		if !seenBlk[f.blk] {
			seenBlk[f.blk] = true
			o.DpBlks++
			o.DpBlk = f.blk
		}
		for _, d := range got {
			o.DpLog = append(o.DpLog, d.Timestamp)
		}
	}
	if des, err := os.ReadDir(filepath.Join(walRoot, "mname")); err == nil {
		for _, de := range des {
			if shardOfWal(de.Name()) == sh {
				got, _ := readNames(filepath.Join(walRoot, "mname", de.Name()))
				o.NmLog = append(o.NmLog, got...)
			}
		}
	}
	for _, e := range readMetaDirs(filepath.Join(walRoot, "metaentry", "metricsMetaEntry.wal")) {
		if e.MSegmentDir == h.dirOf[sh] {
			o.MeLog = true
		}
	}
	for k, ts := range rec.Blocks {
		var bsh string
		var blk int
		if i := strings.Index(k, "/"); i > 0 {
			bsh = k[:i]
			fmt.Sscanf(k[i+1:], "%d", &blk)
		}
		if bsh == sh {
			o.Blocks[blk] = append(o.Blocks[blk], ts...)
		}
	}
	for _, s := range rec.Mnm {
		if shardOfFinal(s.Dir+"/x") == sh {
			o.NmSt = append(o.NmSt, s.Names...)
		}
	}
	for _, s := range rec.Meta {
		if s.Dir == h.dirOf[sh] {
			o.MeSt = true
		}
	}
	return o
}

func (h *hoRun) nameID(n string) uint64 {
	if h.nameIDs == nil {
		h.nameIDs = map[string]uint64{}
	}
	if id, ok := h.nameIDs[n]; ok {
		return id
	}
	id := uint64(len(h.nameIDs) + 1)
	h.nameIDs[n] = id
	return id
}

func (h *hoRun) coqSeg(o segObs) string {
	ts := func(l []uint32) string {
		it := make([]string, len(l))
		for i, t := range l {
			it[i] = vhlib.CoqN(uint64(t - 1700000000))
		}
		return vhlib.CoqList(it)
	}
	nm := func(l []string) string {
		it := make([]string, len(l))
		for i, n := range l {
			it[i] = vhlib.CoqN(h.nameID(n))
		}
		return vhlib.CoqList(it)
	}
	var bks []int
	for b := range o.Blocks {
		bks = append(bks, b)
	}
	sort.Ints(bks)
	var bl []string
	for _, b := range bks {
		bl = append(bl, fmt.Sprintf("(%d, %s)", b, ts(o.Blocks[b])))
	}
	return fmt.Sprintf("(mkSeg %s %d %s %s %s %s %s %s)", vhlib.CoqBool(o.Dir), o.DpBlk, ts(o.DpLog), vhlib.CoqList(bl),
		nm(o.NmLog), nm(o.NmSt), vhlib.CoqBool(o.MeLog), vhlib.CoqBool(o.MeSt))
}

// the store of the tree at h.dir, read by a fresh process; mode restart = through the real start-up first
func (h *hoRun) runRecover(mode string) (*hoRecovered, error) {
	of := filepath.Join(h.base, "recovered.json")
	_ = os.Remove(of)
	rc := exec.Command(h.self, "handoffrecover", h.dir, of, strings.Join(h.names, ","), mode)
	if out, err := rc.CombinedOutput(); err != nil {
		return nil, fmt.Errorf("%v %s", err, string(out))
	}
	var rec hoRecovered
	ob, _ := os.ReadFile(of)
	if err := json.Unmarshal(ob, &rec); err != nil {
		return nil, fmt.Errorf("recovered.json: %v", err)
	}
	return &rec, nil
}

func namesMissing(want []string, have []string) []string {
	hv := map[string]bool{}
	for _, n := range have {
		hv[n] = true
	}
	var miss []string
	seen := map[string]bool{}
	for _, n := range want {
		if !hv[n] && !seen[n] {
			seen[n] = true
			miss = append(miss, n)
		}
	}
	sort.Strings(miss)
	return miss
}

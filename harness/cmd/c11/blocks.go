// blocks.go: the searcher's BLOCK list while a segment with several blocks is handed over.
//
// Inside the hand-over window (segment already in the rotated metadata, still in the unrotated info) the planner lists
// one segment key twice, so every block of the segment reaches the searcher twice.  What happens to the two copies
// depends on the route the query takes:
//   kind 0  record query, time-ordered searcher (`*`): one getBlocks batch, blocks sorted by time, fetched in groups;
//   kind 1  first command is a statistics command (`* | stats ...`): the segment-statistics path (own de-duplication);
//   kind 2  a pipeline that can be split into parallel chains (`* | eval .. | stats ..`, `* | where .. | stats ..`):
//           the searcher runs in any-order mode and hands the block list out in groups of GOMAXPROCS blocks,
//           one group per Fetch, to GOMAXPROCS chains;
//   kind 3  first command is a statistics command WITH a by-clause (`* | stats count by id`): group-by buckets filled by
//           applyFopAllRequests, request by request (a segment key is searched once, where the segment is at that moment).
// The stage forces the interleavings of one rotation with one query (as the one-block stage in main.go does) for
// segments of B blocks, under GOMAXPROCS = P, for query shapes of all three kinds, and compares every answer with the
// property (each event once) and with the model (Handover.searcher_answer: de-duplication by (segment key, block
// number) over the batches of the block list, groups of P blocks).
package main

import (
	"encoding/json"
	"fmt"
	"runtime"
	"sort"
	"strconv"
	"strings"
	"time"

	"github.com/siglens/siglens/pkg/ast/pipesearch"
	"github.com/siglens/siglens/pkg/segment/writer"

	"verifharness/vhlib"
)

type qshape struct {
	Text string
	Kind int  // see above
	ByID bool // the answer has one row per id with its count
}

var shapes = []qshape{
	{"*", 0, false},
	{"* | stats count AS c", 1, false},
	{"* | stats count AS c by id", 3, true},
	{"* | stats count AS c, dc(id) AS d by w", 3, false},
	{"* | eval one=1 | stats count AS c", 2, false},
	{"* | eval one=1 | stats count AS c by id", 2, true},
	{"* | where id>0 | stats count AS c, dc(id) AS d", 2, false},
	{"* | fields id, w | stats count AS c by id", 2, true},
	{"* | rename w AS v | stats count AS c, dc(id) AS d", 2, false},
	{"* | eval k=id+1 | where k>1 | stats count AS c by id", 2, true},
}

func shapesOfKind(k int) []qshape {
	var out []qshape
	for _, s := range shapes {
		if s.Kind == k {
			out = append(out, s)
		}
	}
	return out
}

type answer struct {
	IDs      []int         `json:"ids,omitempty"`         // hits of a record query, sorted
	Count    int64         `json:"count"`                 // `count AS c` of a query without by-clause; -1: none
	Distinct int64         `json:"distinct"`              // `dc(id) AS d`; -1: none
	Rows     map[int]int64 `json:"count_by_id,omitempty"` // `count AS c by id`
	Err      string        `json:"err,omitempty"`
}

func anyToInt(v interface{}) (int64, bool) {
	switch t := v.(type) {
	case float64:
		return int64(t), true
	case int64:
		return t, true
	case uint64:
		return int64(t), true
	case int:
		return int64(t), true
	case json.Number:
		x, err := t.Int64()
		return x, err == nil
	case string:
		x, err := strconv.ParseInt(strings.ReplaceAll(t, ",", ""), 10, 64)
		if err != nil {
			f, ferr := strconv.ParseFloat(strings.ReplaceAll(t, ",", ""), 64)
			return int64(f), ferr == nil
		}
		return x, true
	}
	return 0, false
}

func runQueryAns(index string, sh qshape) answer {
	a := answer{Count: -1, Distinct: -1}
	qid := 9000 + qidCtr.Add(1)
	req := map[string]interface{}{
		"searchText": sh.Text, "indexName": index, "startEpoch": uint64(1), "endEpoch": ^uint64(0),
		"size": uint64(10000), "queryLanguage": "Splunk QL",
	}
	resp, _, _, err := pipesearch.ParseAndExecutePipeRequest(req, qid, 0, time.Now(), "", nil)
	if err != nil {
		a.Err = err.Error()
		return a
	}
	if resp == nil {
		a.Err = "no response"
		return a
	}
	if len(resp.Errors) > 0 {
		a.Err = strings.Join(resp.Errors, "; ")
	}
	for _, h := range resp.Hits.Hits {
		if v, ok := anyToInt(h["id"]); ok {
			a.IDs = append(a.IDs, int(v))
		}
	}
	sort.Ints(a.IDs)
	if sh.ByID {
		a.Rows = map[int]int64{}
	} else if sh.Kind == 3 {
		a.Count, a.Distinct = 0, 0 // by-clause over another column: no rows = no events
	}
	for _, m := range resp.MeasureResults {
		if sh.ByID {
			if len(m.GroupByValues) != 1 {
				a.Err += fmt.Sprintf(" [row with %d group-by values]", len(m.GroupByValues))
				continue
			}
			id, ok1 := anyToInt(m.GroupByValues[0])
			c, ok2 := anyToInt(m.MeasureVal["c"])
			if !ok1 || !ok2 {
				a.Err += fmt.Sprintf(" [unreadable row %v %v]", m.GroupByValues, m.MeasureVal)
				continue
			}
			a.Rows[int(id)] += c
			continue
		}
		// (a by-clause over another column partitions the events: the rows add up)
		if c, ok := anyToInt(m.MeasureVal["c"]); ok {
			a.Count = max(a.Count, 0) + c
		}
		if d, ok := anyToInt(m.MeasureVal["d"]); ok {
			a.Distinct = max(a.Distinct, 0) + d
		}
	}
	return a
}

// how often every id 1..n is in the answer (nil: the answer only has totals)
func (a answer) multiplicities(sh qshape, n int) []int64 {
	m := make([]int64, n+1)
	switch {
	case sh.Kind == 0:
		for _, id := range a.IDs {
			if id >= 1 && id <= n {
				m[id]++
			}
		}
	case sh.ByID:
		for id, c := range a.Rows {
			if id >= 1 && id <= n {
				m[id] = c
			}
		}
	default:
		return nil
	}
	return m
}

func (a answer) total(sh qshape) int64 {
	switch {
	case sh.Kind == 0:
		return int64(len(a.IDs))
	case sh.ByID:
		t := int64(0)
		for _, c := range a.Rows {
			t += c
		}
		return t
	}
	return a.Count
}

// the property on one answer: every one of the n events exactly once.  Returns "", "doubled" or "lost" + a description.
func judgeAnswer(a answer, sh qshape, n int) (verdict, what string) {
	if m := a.multiplicities(sh, n); m != nil {
		var twice, missing []int
		for id := 1; id <= n; id++ {
			if m[id] > 1 {
				twice = append(twice, id)
			}
			if m[id] < 1 {
				missing = append(missing, id)
			}
		}
		extra := a.total(sh)
		for id := 1; id <= n; id++ {
			extra -= m[id]
		}
		switch {
		case len(twice) > 0:
			return "doubled", fmt.Sprintf("ids %v are in the answer more than once (e.g. id %d: %d times); %d events in the answer for %d ingested", twice, twice[0], m[twice[0]], a.total(sh), n)
		case len(missing) > 0:
			return "lost", fmt.Sprintf("ids %v are missing; %d events in the answer for %d ingested", missing, a.total(sh), n)
		case extra != 0:
			return "doubled", fmt.Sprintf("%d events in the answer that were never ingested", extra)
		}
		return "", ""
	}
	switch {
	case a.Count > int64(n):
		return "doubled", fmt.Sprintf("count = %d for %d ingested events", a.Count, n)
	case a.Count < int64(n):
		return "lost", fmt.Sprintf("count = %d for %d ingested events", a.Count, n)
	case a.Distinct >= 0 && a.Distinct != int64(n):
		return "lost", fmt.Sprintf("dc(id) = %d for %d ingested events", a.Distinct, n)
	}
	return "", ""
}

var failClass = map[int]map[string]string{
	0: {"doubled": "event_doubled_during_rotation", "lost": "event_lost_during_rotation"},
	1: {"doubled": "stats_double_count_during_rotation", "lost": "stats_undercount_during_rotation"},
	2: {"doubled": "event_doubled_in_parallel_search_during_rotation", "lost": "event_lost_in_parallel_search_during_rotation"},
	3: {"doubled": "groupby_double_count_during_rotation", "lost": "groupby_undercount_during_rotation"},
}

// position of the k-th step (1-based) of thread th in a schedule
func stepPos(sched string, th byte, k int) int {
	for i := 0; i < len(sched); i++ {
		if sched[i] == th {
			k--
			if k == 0 {
				return i
			}
		}
	}
	return len(sched)
}

// The two defects the group-by route had before its repair (known/C11.json, status fixed), recognised by WHERE the
// query's steps fall relative to the rotation's, so that a regression is reported under its precise name; any other
// wrong answer of that route keeps the general class.
func groupbyKnownClass(sched, verdict string) string {
	addRot, delUnrot := stepPos(sched, 'w', 2), stepPos(sched, 'w', 3)
	snapU, snapR, read := stepPos(sched, 'r', 1), stepPos(sched, 'r', 2), stepPos(sched, 'r', 3)
	if verdict == "lost" && snapR < addRot && read > delUnrot {
		return "groupby_events_lost_when_segment_rotated_between_planning_and_reading"
	}
	if verdict == "doubled" && snapU < delUnrot && snapR > addRot && read < delUnrot {
		return "groupby_events_doubled_when_planned_and_read_inside_the_handover_window"
	}
	return ""
}

type blocksCase struct {
	Sched  string
	Shape  qshape
	P, B   int
	PerBlk int
}

// the observation in the form the model is asked for: per block the multiplicity of its events (all events of a block are
// read together), or — for answers that only have a total — the number of events
func coqBlocksCase(c blocksCase, a answer) string {
	n := c.B * c.PerBlk
	var obs []string
	total := "false"
	if m := a.multiplicities(c.Shape, n); m != nil {
		for b := 0; b < c.B; b++ {
			v := m[b*c.PerBlk+1]
			for i := 1; i <= c.PerBlk; i++ {
				if m[b*c.PerBlk+i] != v {
					v = 99 // the events of one block disagree: no model answer has this form
				}
			}
			obs = append(obs, fmt.Sprint(v))
		}
	} else {
		total = "true"
		t := a.Count
		if t < 0 {
			t = 9999
		}
		obs = []string{fmt.Sprint(t)}
	}
	return fmt.Sprintf("(%s, (%d, %d, %d), (%d, %s), %s)", schedCoq(c.Sched), c.B, c.PerBlk, c.P, c.Shape.Kind, total, vhlib.CoqList(obs))
}

var blocksIndexCtr int

func runBlocksCase(sum *vhlib.Summary, c blocksCase) (string, bool) {
	blocksIndexCtr++
	index := fmt.Sprintf("mb%d", blocksIndexCtr)
	n := c.B * c.PerBlk
	old := runtime.GOMAXPROCS(c.P)
	r := runScheduleGen(c.Sched, c.Shape.Text,
		func() {
			for b := 0; b < c.B; b++ { // one flush = one block of the open segment
				ingest(index, 1+b*c.PerBlk, c.PerBlk)
				flushLogs()
			}
		},
		func(r *result) { a := runQueryAns(index, c.Shape); r.Ans = &a; r.Err = a.Err },
		func(r *result) { a := runQueryAns(index, c.Shape); r.AfterAns = &a })
	runtime.GOMAXPROCS(old)
	// the index is not used again: drop its (now empty) open segment store, as deleting the index does — the writer
	// refuses new streams beyond 1000 segment stores per process, and the thorough tier runs more cases than that
	writer.DeleteVirtualTableSegStore(index)
	nontrivial := strings.Contains(strings.Trim(c.Sched, "w"), "w") || strings.Contains(strings.Trim(c.Sched, "r"), "r")
	sum.Eval(fmt.Sprintf("blocks/%s/%s/P%d/B%d", c.Shape.Text, c.Sched, c.P, c.B), nontrivial)
	sum.Count(fmt.Sprintf("blocks/kind%d/%s", c.Shape.Kind, c.Shape.Text))
	sum.Count(fmt.Sprintf("blocks/GOMAXPROCS=%d", c.P))
	switch {
	case c.B >= 2*c.P:
		sum.Count("blocks/segment_has>=2*GOMAXPROCS_blocks")
	case c.B >= c.P:
		sum.Count("blocks/segment_has>=GOMAXPROCS_blocks")
	default:
		sum.Count("blocks/segment_has<GOMAXPROCS_blocks")
	}
	if !r.Feasible {
		sum.Count("infeasible(blocked on a lock)")
	}
	cj := map[string]interface{}{"schedule": c.Sched, "query": c.Shape.Text, "GOMAXPROCS": c.P, "blocks_in_the_segment": c.B, "events_per_block": c.PerBlk,
		"ingest": fmt.Sprintf("ids 1..%d into a new index, a flush after every %d (one block each), then the schedule", n, c.PerBlk), "result": r,
		"legend": "w: rotation steps [segmeta.json entry | add to rotated metadata | remove from unrotated info | reset of the segstore]; r: query steps [snapshot unrotated | snapshot rotated | resolve+read]"}
	where := fmt.Sprintf("GOMAXPROCS=%d, open segment with %d blocks x %d events, schedule %s (rotation w / query r), query %q", c.P, c.B, c.PerBlk, c.Sched, c.Shape.Text)
	if r.Ans == nil {
		a := answer{Count: -1, Distinct: -1, Err: "no answer"}
		r.Ans = &a
	}
	if r.Err != "" {
		sum.Fail("query_error_during_rotation", where+": "+r.Err, cj)
	} else if v, what := judgeAnswer(*r.Ans, c.Shape, n); v != "" {
		cls := failClass[c.Shape.Kind][v]
		if c.Shape.Kind == 3 && r.Feasible {
			if k := groupbyKnownClass(c.Sched, v); k != "" {
				cls = k
			}
		}
		sum.Fail(cls, where+": "+what, cj)
	}
	if r.AfterAns != nil && r.AfterAns.Err == "" {
		if v, what := judgeAnswer(*r.AfterAns, c.Shape, n); v != "" {
			sum.Fail("quiescent_state_differs_from_sequential", where+", the same query after both had finished: "+what, cj)
		}
	}
	if blocksIndexCtr%11 == 1 {
		sum.Sample(cj)
	}
	return coqBlocksCase(c, *r.Ans), r.Feasible
}

// B relative to P: below, at and above the size of one group of blocks, and multiples of it
func blockCounts(P int) []int {
	cand := []int{1, P - 1, P, P + 1, 2 * P, 2*P + 1, 3 * P}
	var out []int
	seen := map[int]bool{}
	for _, b := range cand {
		if b >= 1 && b <= 24 && !seen[b] {
			seen[b] = true
			out = append(out, b)
		}
	}
	return out
}

func blocksStage(cfg vhlib.Config, sum *vhlib.Summary) []string {
	rng := vhlib.NewRng(cfg.Seed ^ 0xb10c5)
	scheds := interleavings(4, 3)
	var list []blocksCase
	if cfg.Thorough() {
		// every schedule x every any-order shape x P in 2..4 (+ one larger) x two block counts; the other kinds with one P
		for _, s := range scheds {
			for _, sh := range shapes {
				ps := []int{2, 3, 4, vhlib.Pick(rng, []int{6, 8, 16})}
				if sh.Kind != 2 {
					ps = []int{vhlib.Pick(rng, []int{1, 2, 4, 16})}
				}
				for _, p := range ps {
					bs := blockCounts(p)
					list = append(list, blocksCase{s, sh, p, vhlib.Pick(rng, bs), 2})
					if sh.Kind == 2 {
						list = append(list, blocksCase{s, sh, p, vhlib.Pick(rng, bs[2:]), 2})
					}
				}
			}
		}
	} else {
		// every schedule once with an any-order shape (P in 2..4, B around multiples of P) and once with a shape of the
		// other kinds on a multi-block segment
		for _, s := range scheds {
			p := rng.Range(2, 4)
			list = append(list, blocksCase{s, vhlib.Pick(rng, shapesOfKind(2)), p, vhlib.Pick(rng, blockCounts(p)), 2})
			p2 := vhlib.Pick(rng, []int{1, 2, 3, 4, 16})
			list = append(list, blocksCase{s, vhlib.Pick(rng, shapesOfKind(rng.Intn(2))), p2, rng.Range(2, 5), 2})
		}
		// the group-by route (repaired: re-test of IsSegKeyUnrotated + one search per segment key), every schedule once
		for _, s := range scheds {
			list = append(list, blocksCase{s, vhlib.Pick(rng, shapesOfKind(3)), vhlib.Pick(rng, []int{1, 2, 4, 16}), rng.Range(1, 4), 2})
		}
	}
	var cases []string
	for _, c := range list {
		cc, feasible := runBlocksCase(sum, c)
		if feasible {
			cases = append(cases, cc)
		}
	}
	return cases
}

// debugging aid: `c11 probe <dir> [tier]` runs the multi-block stage alone and prints what it found
func probeBlocks(args []string) {
	dir, tier := args[0], "quick"
	if len(args) > 1 {
		tier = args[1]
	}
	cfg := vhlib.Config{Tier: tier, Seed: 1, Out: dir}
	sum := vhlib.NewSummary("probe")
	if err := initSiglens(dir + "/data"); err != nil {
		fmt.Println(err)
		return
	}
	installHooks()
	t0 := time.Now()
	if len(args) > 4 { // probe <dir> <tier> <shape index> <P> <B>: all schedules with one shape
		var si, p, b int
		fmt.Sscanf(args[2], "%d", &si)
		fmt.Sscanf(args[3], "%d", &p)
		fmt.Sscanf(args[4], "%d", &b)
		for _, s := range interleavings(4, 3) {
			c, _ := runBlocksCase(sum, blocksCase{s, shapes[si], p, b, 2})
			fmt.Println(c)
		}
		for _, f := range sum.OracleFailures {
			fmt.Println(f.Class, "::", f.Detail)
		}
		fmt.Println("time", time.Since(t0))
		return
	}
	cases := blocksStage(cfg, sum)
	fmt.Println("cases", len(cases), "time", time.Since(t0))
	for _, c := range cases {
		fmt.Println(c)
	}
	sum.Write(dir)
}

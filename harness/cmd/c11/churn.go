// churn.go: "no deadlocks" observed on the running code.
//
// Scenario (in a worker process of its own, so that a hang cannot take the harness with it): an index with several
// ROTATED segments plus an open one is searched by several goroutines (`*` = raw-records search, whose first Fetch walks
// the rotated-segment metadata of every segment of the query, and `* | stats count`) while the writers of the locks a
// search reads under are busy all the time:
//   - real rotations of other indexes (ingest, flush, ForceRotateSegmentsForTest -> checkAndRotateColFiles ->
//     metadata.AddSegMetaToMetadata; they also rotate the open segment of the searched index once),
//   - metadata.AddSegMetaToMetadata / metadata.DeleteSegmentKey of segments of another table (what a rotation and the
//     retention loop do to the rotated list),
//   - empty write sections of globalMetadata.updateLock, UnrotatedInfoLock and allSegStoresLock (add-only hooks): a
//     writer arriving, nothing changed.
// Oracle: every search returns exactly the ingested ids (nothing lost, nothing twice) and — the clause "no deadlocks" —
// every participant keeps completing operations.  A watchdog that ticks every 100 ms counts, per participant, the ticks
// without a completed operation; a participant that completed nothing during 200 observed ticks (20 s; a search takes
// milliseconds) is a hang: all goroutine stacks are dumped, the blocked lock operations are named and, with the lock
// programs read from the source (locks.go), explained (which frame of the blocked goroutine already holds the lock).
// The parent repeats a worker that reported a hang; the class is a violation when at least two workers report it.
package main

import (
	"encoding/json"
	"fmt"
	"os"
	"os/exec"
	"path/filepath"
	"regexp"
	"runtime"
	"sort"
	"strings"
	"sync"
	"sync/atomic"
	"syscall"
	"time"

	"github.com/siglens/siglens/pkg/segment/metadata"
	"github.com/siglens/siglens/pkg/segment/structs"
	"github.com/siglens/siglens/pkg/segment/writer"

	"verifharness/vhlib"
)

func printLockPrograms() {
	repo := repoDir()
	la, err := analyseLocks(repo, lockDirs(repo))
	if err != nil {
		fmt.Println("error:", err)
		return
	}
	tot := 0
	for _, k := range la.roots {
		p := la.flatten(k)
		tot += len(p)
		fmt.Printf("%s: %d events (%d real)\n", k, len(p), realEvents(p))
		for _, r := range findReentries(k, p) {
			fmt.Printf("   REENTRY %+v\n", r)
		}
	}
	fmt.Println("roots", len(la.roots), "events", tot)
}

// ---------- the lock programs as Coq cases ----------
func lockProgramStage(cfg vhlib.Config, sum *vhlib.Summary) {
	repo := repoDir()
	la, err := analyseLocks(repo, lockDirs(repo))
	if err != nil {
		sum.HarnessError("lock programs: cannot read the Go source under " + repo + ": " + err.Error())
		return
	}
	lockIdx := map[string]int{}
	var lockNames []string
	var cases, names []string
	for _, k := range la.roots {
		p := la.flatten(k)
		if realEvents(p) == 0 {
			continue
		}
		var evs []string
		for _, e := range p {
			i, ok := lockIdx[e.Lock]
			if !ok {
				i = len(lockNames)
				lockIdx[e.Lock] = i
				lockNames = append(lockNames, e.Lock)
			}
			evs = append(evs, fmt.Sprintf("(%s,%d)", e.Act, i))
		}
		re := findReentries(k, p)
		names = append(names, k)
		cases = append(cases, vhlib.CoqList(evs)+fmt.Sprintf(" (* %d: %s *)", len(cases), k))
		sum.Eval("lockprog/"+k, len(p) > 2)
		sum.Count("lockprog/functions_that_take_a_process_wide_lock")
		for _, r := range re {
			sum.Count("lockprog/REENTRANT: " + r.Outer + " holds " + r.Lock + " (" + r.OuterMode + ") and " + r.Inner + " takes it again at " + r.InnerPos)
		}
		if len(cases)%40 == 1 {
			sum.Sample(map[string]interface{}{"lock_program_of": k, "events": evs, "locks": "numbered in order of first appearance, see cases_locks.v"})
		}
	}
	must := []string{"pkg/segment/metadata.allSegmentMetadata.updateLock", "pkg/segment/writer.UnrotatedInfoLock", "pkg/segment/writer.allSegStoresLock"}
	for _, m := range must {
		if _, ok := lockIdx[m]; !ok {
			sum.HarnessError("lock programs: the hand-over lock " + m + " was not found in the source (renamed? the extraction in harness/cmd/c11/locks.go has to follow)")
		}
	}
	for _, f := range []string{"pkg/segment/metadata.GetTotalBlocksInSegments", "pkg/segment/metadata.(allSegmentMetadata).bulkAddSegmentMicroIndex", "pkg/segment/writer.removeSegKeyFromUnrotatedInfo"} {
		found := false
		for _, n := range names {
			found = found || n == f
		}
		if !found {
			sum.HarnessError("lock programs: the hand-over function " + f + " no longer takes a process-wide lock according to the extraction")
		}
	}
	var lk []string
	for i, n := range lockNames {
		lk = append(lk, fmt.Sprintf("%d = %s", i, n))
	}
	defs := "Open Scope nat_scope.\n(* locks: " + strings.Join(lk, "; ") + " *)\nDefinition nlocks : nat := " + fmt.Sprint(len(lockNames)) + ".\n" +
		"Definition progs : list (list (lact * nat)) := " + vhlib.CoqListNL(cases) + ".\n"
	sum.WriteCaseFile(cfg.Out, "cases_locks", "From SigM Require Import Base Handover HandoverCheck.\n", defs, "check_lock_progs nlocks progs", len(cases))
}

// ---------- worker ----------
type churnFail struct {
	Class  string      `json:"class"`
	Detail string      `json:"detail"`
	Case   interface{} `json:"case"`
}

type churnResult struct {
	Status     string            `json:"status"` // ok | hang
	Counters   map[string]int64  `json:"operations_completed"`
	Segments   int               `json:"rotated_segments_of_the_searched_index"`
	Events     int               `json:"events"`
	Failures   []churnFail       `json:"failures"`
	HangClass  string            `json:"hang_class,omitempty"`
	HangDetail string            `json:"hang_detail,omitempty"`
	Stalled    []string          `json:"stalled_participants,omitempty"`
	Blocked    []blockedG        `json:"blocked_lock_operations,omitempty"`
	Dump       string            `json:"goroutine_dump,omitempty"`
	Params     map[string]string `json:"params"`
}

type participant struct {
	name   string
	n      atomic.Int64
	done   atomic.Bool
	pulser bool // does nothing but take and release a lock for writing: if IT makes no progress the lock is dead
}

func churnWorker(args []string) {
	if len(args) < 3 {
		fmt.Println("usage: churnworker <dir> <seed> <tier>")
		os.Exit(2)
	}
	dir, tier := args[0], args[2]
	var seed uint64
	fmt.Sscanf(args[1], "%d", &seed)
	rng := vhlib.NewRng(seed ^ 0xc11d)
	res := churnResult{Status: "ok", Counters: map[string]int64{}, Params: map[string]string{}}
	writeRes := func() {
		b, _ := json.MarshalIndent(res, "", " ")
		_ = os.WriteFile(filepath.Join(dir, "result.json"), b, 0o644)
	}
	_ = os.MkdirAll(dir, 0o755)
	if err := initSiglens(filepath.Join(dir, "data")); err != nil {
		res.Status = "error: " + err.Error()
		writeRes()
		os.Exit(2)
	}
	installHooks()
	// the scenario is bounded (rotations, events) so that a search stays a matter of milliseconds: a slow search must
	// not look like a stopped one
	K, per, S, quota, maxRot, maxFeed := 6+rng.Intn(4), 3, 4, 30, 40, 300
	if tier == "thorough" {
		K, S, quota, maxRot, maxFeed = 12+rng.Intn(8), 6, 100, 40, 300 // (three workers)
	}
	stallTicks := 200
	if v := os.Getenv("C11_CHURN_STALL_TICKS"); v != "" {
		fmt.Sscanf(v, "%d", &stallTicks)
	}
	index := "ch"
	next := 1
	for k := 0; k < K; k++ {
		ingest(index, next, per)
		next += per
		flushLogs()
		writer.ForceRotateSegmentsForTest()
	}
	ingest(index, next, per) // the open segment
	next += per
	flushLogs()
	total := next - 1
	res.Segments, res.Events = K, total
	res.Params = map[string]string{"rotated_segments": fmt.Sprint(K), "events": fmt.Sprint(total), "searchers": fmt.Sprint(S), "searches_each": fmt.Sprint(quota), "stall_ticks_of_100ms": fmt.Sprint(stallTicks)}

	var parts []*participant
	newPart := func(name string) *participant {
		p := &participant{name: name}
		parts = append(parts, p)
		return p
	}
	var fmu sync.Mutex
	fail := func(class, detail string, c interface{}) {
		fmu.Lock()
		defer fmu.Unlock()
		n := 0
		for _, f := range res.Failures {
			if f.Class == class {
				n++
			}
		}
		if n < 3 {
			res.Failures = append(res.Failures, churnFail{class, detail, c})
		}
	}
	stop := make(chan struct{})
	stopped := func() bool {
		select {
		case <-stop:
			return true
		default:
			return false
		}
	}
	var searchWG, writerWG sync.WaitGroup
	// the searched index keeps growing (feeder below): a search must return every id flushed before it began, nothing
	// twice, nothing that was not ingested when it ended
	var flushed, ingested atomic.Int64
	flushed.Store(int64(total))
	ingested.Store(int64(total))
	var flushMu sync.Mutex // FlushWipBufferToFile / ForceRotateSegmentsForTest are process-wide: the harness's own calls take turns
	for s := 0; s < S; s++ {
		p := newPart(fmt.Sprintf("search%d(`*`)", s))
		searchWG.Add(1)
		go func() {
			defer searchWG.Done()
			defer p.done.Store(true)
			for i := 0; i < quota; i++ {
				lo := flushed.Load()
				ids, _, errs := runQuery(index, "*")
				hi := ingested.Load()
				c := map[string]interface{}{"index": index, "rotated_segments_at_start": K, "flushed_before_the_search": lo, "ingested_after_the_search": hi, "ids": ids, "search_number": i}
				if errs != "" {
					fail("query_error_during_metadata_updates", errs, c)
				} else if hasDup(ids) {
					fail("event_doubled_during_metadata_updates", fmt.Sprintf("`*` over the rotated segments + the open one returned an id twice (%d ids, %d ingested)", len(ids), hi), c)
				} else {
					have := map[int]bool{}
					for _, id := range ids {
						have[id] = true
						if int64(id) > hi {
							fail("event_invented_during_metadata_updates", fmt.Sprintf("id %d returned, only %d ingested", id, hi), c)
							break
						}
					}
					for id := 1; int64(id) <= lo; id++ {
						if !have[id] {
							fail("event_lost_during_metadata_updates", fmt.Sprintf("`*` returned %d ids; id %d, flushed before the search began (%d flushed), is missing", len(ids), id, lo), c)
							break
						}
					}
				}
				p.n.Add(1)
			}
		}()
	}
	{
		p := newPart("search(`* | stats count`)")
		searchWG.Add(1)
		go func() {
			defer searchWG.Done()
			defer p.done.Store(true)
			for i := 0; i < quota; i++ {
				lo := flushed.Load()
				_, cnt, errs := runQuery(index, "* | stats count")
				hi := ingested.Load()
				c := map[string]interface{}{"index": index, "flushed_before_the_search": lo, "ingested_after_the_search": hi, "count": cnt}
				if errs != "" {
					fail("query_error_during_metadata_updates", errs, c)
				} else if cnt < lo || cnt > hi {
					fail("stats_miscount_during_metadata_updates", fmt.Sprintf("`* | stats count` = %d with %d events flushed before and %d ingested after the search", cnt, lo, hi), c)
				}
				p.n.Add(1)
			}
		}()
	}
	// feeder: the searched index always has an OPEN segment with flushed blocks next to its rotated ones
	{
		p := newPart("feed(ingest + flush into the searched index)")
		writerWG.Add(1)
		go func() {
			defer writerWG.Done()
			defer p.done.Store(true)
			for f := 0; f < maxFeed && !stopped(); f++ {
				ingested.Add(2)
				ingest(index, next, 2)
				next += 2
				flushMu.Lock()
				flushLogs()
				flushMu.Unlock()
				flushed.Store(int64(next - 1))
				p.n.Add(1)
				time.Sleep(3 * time.Millisecond)
			}
		}()
	}
	// writers of the rotated list: publish + delete segments of another table
	for m := 0; m < 2; m++ {
		p := newPart(fmt.Sprintf("publish+delete%d(AddSegMetaToMetadata, DeleteSegmentKey)", m))
		writerWG.Add(1)
		go func(m int) {
			defer writerWG.Done()
			defer p.done.Store(true)
			for i := 0; !stopped(); i++ {
				key := fmt.Sprintf("%s/churn/other%d/%d", dir, m, i)
				metadata.AddSegMetaToMetadata(&structs.SegMeta{SegmentKey: key, VirtualTableName: fmt.Sprintf("churnother%d", m),
					EarliestEpochMS: uint64(5000 + i), LatestEpochMS: uint64(6000 + i), NumBlocks: 1, RecordCount: 1})
				metadata.DeleteSegmentKey(key)
				p.n.Add(1)
				runtime.Gosched()
			}
		}(m)
	}
	// real rotations (other indexes; ForceRotateSegmentsForTest also hands over the open segment of the searched index)
	{
		p := newPart("rotate(ingest, flush, ForceRotateSegmentsForTest)")
		writerWG.Add(1)
		go func() {
			defer writerWG.Done()
			defer p.done.Store(true)
			id := 1
			for i := 0; i < maxRot && !stopped(); i++ {
				ingest(fmt.Sprintf("chw%d", i%2), id, 2)
				id += 2
				flushMu.Lock()
				flushLogs()
				writer.ForceRotateSegmentsForTest()
				flushMu.Unlock()
				p.n.Add(1)
				time.Sleep(15 * time.Millisecond)
			}
		}()
	}
	// a writer arriving, nothing changed
	{
		p := newPart("empty write sections(updateLock)")
		p.pulser = true
		writerWG.Add(1)
		go func() {
			defer writerWG.Done()
			defer p.done.Store(true)
			for !stopped() {
				metadata.VerifPulseUpdateLock()
				p.n.Add(1)
				runtime.Gosched()
			}
		}()
		q := newPart("empty write sections(UnrotatedInfoLock, allSegStoresLock)")
		q.pulser = true
		writerWG.Add(1)
		go func() {
			defer writerWG.Done()
			defer q.done.Store(true)
			for !stopped() {
				writer.VerifPulseHandoverLocks()
				q.n.Add(1)
				runtime.Gosched()
			}
		}()
	}

	allDone := make(chan struct{})
	go func() {
		searchWG.Wait()
		close(stop)
		writerWG.Wait()
		close(allDone)
	}()
	// watchdog: counts the ticks IT observes (a frozen process does not tick), per participant.
	//  (A) a participant that only takes and releases a lock for writing completed nothing during stallTicks ticks: writers
	//      are preferred and take turns, so the lock is dead (held or awaited for ever);
	//  (B) any participant completed nothing during 6 x stallTicks ticks AND the runtime reports goroutines inside siglens
	//      that have been waiting for one lock for more than a minute.  A slow participant without such waits is not a hang.
	last := make([]int64, len(parts))
	stall := make([]int, len(parts))
	tick := time.NewTicker(100 * time.Millisecond)
	defer tick.Stop()
	hang := false
	var dump string
loop:
	for {
		select {
		case <-allDone:
			break loop
		case <-tick.C:
			for i, p := range parts {
				v := p.n.Load()
				if v != last[i] || p.done.Load() {
					last[i], stall[i] = v, 0
					continue
				}
				stall[i]++
				if p.pulser && stall[i] >= stallTicks {
					hang = true
				}
				if !p.pulser && stall[i] >= 6*stallTicks {
					buf := make([]byte, 8<<20)
					dump = string(buf[:runtime.Stack(buf, true)])
					if longLockWaits(dump, 1) > 0 {
						hang = true
					} else {
						res.Params["slow_participant_without_long_lock_waits(not a hang)"] = p.name
						stall[i] = 0
					}
				}
			}
			if hang {
				break loop
			}
		}
	}
	for _, p := range parts {
		res.Counters[p.name] = p.n.Load()
	}
	if hang {
		res.Status = "hang"
		for i, p := range parts {
			if stall[i] >= stallTicks/2 && !p.done.Load() {
				res.Stalled = append(res.Stalled, fmt.Sprintf("%s: %d operations completed, none during the last %d ticks", p.name, p.n.Load(), stall[i]))
			}
		}
		if dump == "" {
			buf := make([]byte, 8<<20)
			dump = string(buf[:runtime.Stack(buf, true)])
		}
		res.HangClass, res.HangDetail, res.Blocked = explainHang(dump, res.Stalled)
		res.Dump = trimDump(dump)
		fmu.Lock()
		writeRes()
		fmu.Unlock()
		os.Exit(3)
	}
	// quiescent: the stored contents are what the ingests alone give
	flushLogs()
	total = next - 1
	ids, _, _ := runQuery(index, "*")
	_, cnt, _ := runQuery(index, "* | stats count")
	okq := len(ids) == total && cnt == int64(total)
	for i, id := range ids {
		okq = okq && id == i+1
	}
	if !okq {
		fail("quiescent_state_differs_from_sequential", fmt.Sprintf("after the searches and the metadata updates: `*` returns %d ids, count=%d, ingested 1..%d", len(ids), cnt, total), map[string]interface{}{"ids": ids, "count": cnt})
	}
	res.Events = total
	writeRes()
	os.Exit(0)
}

// ---------- reading a goroutine dump ----------
type gframe struct {
	Func string `json:"func"` // below the module, receiver stars and closure suffixes removed
	File string `json:"file"`
	Line int    `json:"line"`
}
type gor struct {
	ID     string
	State  string
	Frames []gframe // siglens frames only, innermost first
	Text   string
}
type blockedG struct {
	Goroutine string   `json:"goroutine"`
	Waiting   string   `json:"waiting_in"` // sync.RWMutex.RLock ...
	Func      string   `json:"function"`
	Pos       string   `json:"position"`
	Lock      string   `json:"lock,omitempty"`
	Stack     []string `json:"siglens_frames"`
	HeldBy    string   `json:"frame_of_the_same_goroutine_that_holds_the_lock,omitempty"`
}

var gorHead = regexp.MustCompile(`^goroutine (\d+) \[([^\]]*)\]:`)
var closureSuffix = regexp.MustCompile(`(\.(func|gowrap)\d+)+(\.\d+)*$`)
var genericArgs = regexp.MustCompile(`\[[^\]]*\]`)

func normFunc(s string) string {
	if i := strings.LastIndex(s, "("); i > 0 {
		s = s[:i]
	}
	s = strings.TrimPrefix(s, modPrefix)
	s = genericArgs.ReplaceAllString(s, "")
	s = closureSuffix.ReplaceAllString(s, "")
	return strings.ReplaceAll(s, "*", "")
}

func parseGoroutines(dump string) []gor {
	var out []gor
	for _, blk := range strings.Split(dump, "\n\n") {
		lines := strings.Split(strings.TrimSpace(blk), "\n")
		if len(lines) == 0 {
			continue
		}
		m := gorHead.FindStringSubmatch(lines[0])
		if m == nil {
			continue
		}
		g := gor{ID: m[1], State: m[2], Text: blk}
		for i := 1; i+1 < len(lines); i++ {
			if strings.HasPrefix(lines[i], "\t") || !strings.HasPrefix(lines[i], modPrefix) {
				continue
			}
			f := gframe{Func: normFunc(lines[i])}
			loc := strings.TrimSpace(lines[i+1])
			if j := strings.Index(loc, " "); j > 0 {
				loc = loc[:j]
			}
			if j := strings.LastIndex(loc, ":"); j > 0 {
				fmt.Sscanf(loc[j+1:], "%d", &f.Line)
				f.File = filepath.Base(loc[:j])
			}
			g.Frames = append(g.Frames, f)
		}
		out = append(out, g)
	}
	return out
}

func shortFn(s string) string {
	return strings.TrimPrefix(strings.TrimPrefix(s, "pkg/segment/"), "pkg/")
}

// names the blocked lock operations of a dump and, where the lock programs read from the source say so, the frame of the
// SAME goroutine that already holds the lock
func explainHang(dump string, stalled []string) (class, detail string, blocked []blockedG) {
	repo := repoDir()
	la, _ := analyseLocks(repo, lockDirs(repo))
	gs := parseGoroutines(dump)
	var recursive *blockedG
	waitingWriters := map[string]int{}
	for _, g := range gs {
		st := g.State
		if i := strings.Index(st, ","); i > 0 {
			st = st[:i]
		}
		if !(strings.HasPrefix(st, "sync.RWMutex.") || strings.HasPrefix(st, "sync.Mutex.") || st == "semacquire") || len(g.Frames) == 0 {
			continue
		}
		// the harness's own frames (package main) are not siglens frames; Frames holds siglens frames only
		b := blockedG{Goroutine: g.ID, Waiting: st, Func: g.Frames[0].Func, Pos: fmt.Sprintf("%s:%d", g.Frames[0].File, g.Frames[0].Line)}
		for _, f := range g.Frames {
			b.Stack = append(b.Stack, f.Func)
		}
		if la != nil {
			if fn := la.fns[b.Func]; fn != nil {
				for _, it := range fn.items {
					if it.ev != nil && !it.ev.Fake && it.ev.Pos == b.Pos {
						b.Lock = it.ev.Lock
					}
				}
			}
			if b.Lock != "" {
				for _, f := range g.Frames[1:] {
					for _, r := range findReentries(f.Func, la.flatten(f.Func)) {
						if r.Outer == f.Func && r.Inner == b.Func && r.Lock == b.Lock && b.HeldBy == "" {
							b.HeldBy = f.Func + " (holds it for " + r.OuterMode + ")"
							if recursive == nil {
								bb := b
								recursive = &bb
							}
						}
					}
				}
			}
		}
		if st == "sync.RWMutex.Lock" || st == "sync.Mutex.Lock" {
			waitingWriters[shortFn(b.Func)]++
		}
		blocked = append(blocked, b)
	}
	sort.Slice(blocked, func(i, j int) bool { return blocked[i].Func < blocked[j].Func })
	var ww []string
	for k, n := range waitingWriters {
		ww = append(ww, fmt.Sprintf("%s x%d", k, n))
	}
	sort.Strings(ww)
	if recursive != nil {
		outer := recursive.HeldBy[:strings.Index(recursive.HeldBy, " ")]
		class = "deadlock_recursive_read_lock: " + shortFn(outer) + " -> " + shortFn(recursive.Func)
		detail = fmt.Sprintf("DEADLOCK while searches over rotated segments run concurrently with writers of the segment metadata: %s holds %s for read and calls %s, which takes the read lock again (%s); a writer called Lock() in between, so goroutine %s waits behind the writer and the writer waits for goroutine %s. Writers waiting in Lock(): %s. Stalled participants (%d): %s",
			shortFn(outer), recursive.Lock, shortFn(recursive.Func), recursive.Pos, recursive.Goroutine, recursive.Goroutine, strings.Join(ww, ", "), len(stalled), strings.Join(firstN(stalled, 4), " | "))
		return
	}
	// not explained by the lock programs: name the innermost blocked function that most goroutines wait in
	cnt := map[string]int{}
	for _, b := range blocked {
		cnt[b.Waiting+" in "+shortFn(b.Func)]++
	}
	best := ""
	for k, n := range cnt {
		if best == "" || n > cnt[best] || (n == cnt[best] && k < best) {
			best = k
		}
	}
	if best == "" {
		best = "no goroutine waits for a lock"
	}
	class = "stall_during_search_with_metadata_updates: " + best
	detail = fmt.Sprintf("STALL while searches over rotated segments run concurrently with writers of the segment metadata: participants completed no operation for the whole watch period; %d goroutines wait for locks (most: %s); writers waiting in Lock(): %s. Stalled participants (%d): %s",
		len(blocked), best, strings.Join(ww, ", "), len(stalled), strings.Join(firstN(stalled, 4), " | "))
	return
}

// goroutines inside siglens code that the runtime reports as waiting for one lock for at least `mins` minutes
func longLockWaits(dump string, mins int) int {
	n := 0
	for _, g := range parseGoroutines(dump) {
		var m int
		if i := strings.Index(g.State, ", "); i > 0 && (strings.HasPrefix(g.State, "sync.") || strings.HasPrefix(g.State, "semacquire")) {
			fmt.Sscanf(g.State[i+2:], "%d minutes", &m)
		}
		if m >= mins && len(g.Frames) > 0 {
			n++
		}
	}
	return n
}

func firstN(l []string, n int) []string {
	if len(l) > n {
		return append(append([]string{}, l[:n]...), fmt.Sprintf("... %d more", len(l)-n))
	}
	return l
}

// the replay: the goroutines that wait for a lock first, then other goroutines inside siglens code; idle loops dropped
func trimDump(d string) string {
	var locks, others []string
	for _, blk := range strings.Split(d, "\n\n") {
		if !strings.Contains(blk, modPrefix) || !strings.HasPrefix(blk, "goroutine ") {
			continue
		}
		h := strings.SplitN(blk, "\n", 2)[0]
		lines := strings.Split(blk, "\n")
		if len(lines) > 30 {
			lines = append(lines[:30], "\t...")
		}
		blk = strings.Join(lines, "\n")
		if strings.Contains(h, "[sync.") || strings.Contains(h, "[semacquire") {
			locks = append(locks, blk)
		} else if !strings.Contains(h, "[sleep") && !strings.Contains(h, "[chan receive") && !strings.Contains(h, "[select") {
			others = append(others, blk)
		}
	}
	if len(locks) > 30 {
		locks = append(locks[:30], fmt.Sprintf("... %d more goroutines waiting for locks", len(locks)-30))
	}
	if len(others) > 6 {
		others = others[:6]
	}
	return strings.Join(append(locks, others...), "\n\n")
}

// an in-process stage (forced schedules, stress, concurrent first ingest) that does not end: after a generous limit the
// stacks are read; goroutines that have been waiting for a lock for minutes are a deadlock (reported with the dump),
// anything else is reported as a harness problem.  The process ends either way, with what was found so far.
func stageGuard(cfg vhlib.Config, sum *vhlib.Summary, stage string) func() {
	limit := 300 * time.Second
	if cfg.Thorough() {
		limit = 1800 * time.Second
	}
	fin := make(chan struct{})
	go func() {
		select {
		case <-fin:
			return
		case <-time.After(limit):
		}
		buf := make([]byte, 8<<20)
		buf = buf[:runtime.Stack(buf, true)]
		long := longLockWaits(string(buf), 2)
		if long > 0 {
			cls, det, bl := explainHang(string(buf), []string{fmt.Sprintf("the stage %q of the harness (not finished after %s; %d goroutines inside siglens have been waiting for a lock for minutes)", stage, limit, long)})
			sum.Fail(cls, det, map[string]interface{}{"stage": stage, "blocked_lock_operations": bl, "goroutine_dump": trimDump(string(buf))})
		} else {
			sum.HarnessError(fmt.Sprintf("stage %q did not finish within %s and no goroutine waits for a lock: machine too slow?", stage, limit))
		}
		sum.Write(cfg.Out)
		os.Exit(0)
	}()
	return func() { close(fin) }
}

// ---------- parent ----------
func churnStage(cfg vhlib.Config, sum *vhlib.Summary) {
	self, _ := os.Executable()
	base := filepath.Join(cfg.Out, "churn")
	_ = os.RemoveAll(base)
	runWorker := func(i int) (*churnResult, string) {
		dir := filepath.Join(base, fmt.Sprintf("w%d", i))
		_ = os.MkdirAll(dir, 0o755)
		cmd := exec.Command(self, "churnworker", dir, fmt.Sprint(cfg.Seed+uint64(i)), cfg.Tier)
		logf, _ := os.Create(filepath.Join(dir, "worker.out"))
		cmd.Stdout, cmd.Stderr = logf, logf
		if err := cmd.Start(); err != nil {
			return nil, "cannot start the worker: " + err.Error()
		}
		done := make(chan error, 1)
		go func() { done <- cmd.Wait() }()
		limit := 240 * time.Second
		if cfg.Thorough() {
			limit = 900 * time.Second
		}
		var werr error
		select {
		case werr = <-done:
		case <-time.After(limit):
			// the worker's own watchdog did not fire (it is stuck itself): ask the runtime for the stacks
			_ = cmd.Process.Signal(syscall.SIGQUIT)
			select {
			case werr = <-done:
			case <-time.After(20 * time.Second):
				_ = cmd.Process.Kill()
				werr = <-done
			}
			logf.Close()
			out, _ := os.ReadFile(filepath.Join(dir, "worker.out"))
			if longLockWaits(string(out), 1) == 0 {
				return &churnResult{Status: "slow"}, ""
			}
			cls, det, bl := explainHang(string(out), []string{"the whole worker (its watchdog included) for " + limit.String()})
			return &churnResult{Status: "hang", HangClass: cls, HangDetail: det, Blocked: bl, Dump: trimDump(string(out))}, ""
		}
		logf.Close()
		b, rerr := os.ReadFile(filepath.Join(dir, "result.json"))
		if rerr != nil {
			out, _ := os.ReadFile(filepath.Join(dir, "worker.out"))
			return nil, fmt.Sprintf("worker ended without a result (%v): %s", werr, tail(string(out), 1500))
		}
		var r churnResult
		if err := json.Unmarshal(b, &r); err != nil {
			return nil, "unreadable worker result: " + err.Error()
		}
		return &r, ""
	}
	workers := 1
	if cfg.Thorough() {
		workers = 3
	}
	next := 0
	for w := 0; w < workers; w++ {
		r, abn := runWorker(next)
		next++
		if r == nil {
			// abnormal end: once more, then judged
			sum.Count("churn/worker_abnormal_end(retried)")
			r2, abn2 := runWorker(next)
			next++
			if r2 == nil {
				sum.Fail("crash_during_search_with_metadata_updates", "the worker process (searches over rotated segments concurrent with rotations and metadata updates) ended abnormally twice: "+abn2,
					map[string]interface{}{"first": abn, "second": abn2})
				continue
			}
			r = r2
		}
		if r.Status == "hang" {
			// retry before the verdict: the class has to show in a second worker
			seen := []*churnResult{r}
			confirmed := false
			for t := 0; t < 2 && !confirmed; t++ {
				r2, _ := runWorker(next)
				next++
				if r2 != nil && r2.Status == "hang" {
					seen = append(seen, r2)
					confirmed = r2.HangClass == r.HangClass
				}
			}
			if !confirmed && len(seen) >= 3 && seen[1].HangClass == seen[2].HangClass {
				r, confirmed = seen[1], true
			}
			if confirmed {
				sum.Eval("churn/hang/"+r.HangClass, true)
				sum.Fail(r.HangClass, r.HangDetail, map[string]interface{}{"scenario": r.Params, "operations_completed_before_the_hang": r.Counters, "stalled": r.Stalled,
					"blocked_lock_operations": r.Blocked, "workers_that_hung": len(seen), "goroutine_dump": r.Dump})
			} else {
				sum.Count("churn/hang_reported_by_one_worker_only(not judged): " + r.HangClass)
			}
			continue
		}
		if r.Status == "slow" {
			sum.Count("churn/worker_exceeded_its_time_limit_without_long_lock_waits(machine too slow; not judged)")
			continue
		}
		if !strings.HasPrefix(r.Status, "ok") {
			sum.HarnessError("churn worker: " + r.Status)
			continue
		}
		nS := int64(0)
		for k, v := range r.Counters {
			if strings.HasPrefix(k, "search") {
				nS += v
			}
		}
		sum.Count("churn/workers_completed_without_a_stall")
		for i := int64(0); i < nS; i++ {
			sum.Eval(fmt.Sprintf("churn/%d/%d", w, i), true)
			sum.Count("churn/searches_completed_during_metadata_updates")
		}
		sum.Sample(map[string]interface{}{"scenario": "searches over rotated segments while the metadata writers are busy", "params": r.Params, "operations_completed": r.Counters})
		for _, f := range r.Failures {
			sum.Fail(f.Class, f.Detail, f.Case)
		}
	}
}

package main

// evict.go — memory rebalancing interleaved with ingest, flush, rotation and search: "eviction never changes an answer".
//
// One case = one op stream on a fresh index, run on the real code in a worker process:
//
//	F   ingest N events + FlushWipBufferToFile         (one more block of the index's open segment)
//	E0  writer.RebalanceUnrotatedMetadata(0)            (memory pressure: the in-memory micro indexes of every open
//	                                                     segment are removed — what limit.rebalanceMemoryAllocation does
//	                                                     when the unrotated metadata exceeds the CMI budget)
//	EB  writer.RebalanceUnrotatedMetadata(1 TiB)        (rebalance with room: nothing to remove)
//	R   writer.ForceRotateSegmentsForTest               (open -> rotated)
//	RE  metadata.RebalanceInMemoryCmi(0) + RebalanceInMemorySsm(0)   (rotated side: evict everything)
//	RL  the same with 1 TiB                              (rotated side: load everything)
//	Q   a search: match-all, column = value (block blooms), numeric comparisons (range indexes), OR / AND, negation,
//	    wildcard value, free text, the same in front of `stats count`
//
// Oracle (property text): every search returns every event of every block flushed before it, once, whatever was evicted
// or reloaded in between.  The worker also reports what the searches see of the open segment's micro indexes (hook
// VerifC11UnrotatedCmiState): flag, blocks, which entries hold indexes; coq/model/CmiEvictCheck.v replays the stream on the
// model (CmiEvict.v) and compares answers and that state.  A search that kills the worker (panic inside a search goroutine)
// is attributed through the progress file.

import (
	"bufio"
	"encoding/json"
	"fmt"
	"os"
	"os/exec"
	"path/filepath"
	"sort"
	"strings"
	"time"

	eswriter "github.com/siglens/siglens/pkg/es/writer"
	"github.com/siglens/siglens/pkg/segment/metadata"
	"github.com/siglens/siglens/pkg/segment/writer"

	"verifharness/vhlib"
)

type evQuery struct {
	Text     string `json:"text"`
	Shape    string `json:"shape"`
	Consults bool   `json:"consults"`
	Range    bool   `json:"range"`
	Needs    bool   `json:"searches_only_passed_columns"`
	Count    bool   `json:"count"`
	Want     []int  `json:"want"`
}
type evOp struct {
	K string   `json:"k"`
	N int      `json:"n,omitempty"`
	Q *evQuery `json:"q,omitempty"`
}
type evCase struct {
	Name   string `json:"name"`
	Stream string `json:"stream"`
	Ops    []evOp `json:"ops"`
}
type evObs struct {
	Op     int    `json:"op"`
	IDs    []int  `json:"ids"`
	Count  int64  `json:"count"`
	Err    string `json:"err,omitempty"`
	Found  bool   `json:"open_segment"`
	Loaded bool   `json:"isCmiLoaded"`
	Blocks int    `json:"blocks"`
	Cols   []int  `json:"cmi_columns_per_entry"`
	NSegs  int    `json:"open_segments"`
}
type evResult struct {
	I   int     `json:"i"`
	Obs []evObs `json:"obs"`
}

const evBig = uint64(1) << 40

func evIngest(index string, from, n, batch int) {
	var sb strings.Builder
	for i := 0; i < n; i++ {
		id := from + i
		fmt.Fprintf(&sb, `{"index":{"_index":"%s"}}`+"\n"+`{"id":%d,"w":"w%d","b":"batch-%d","timestamp":%d}`+"\n", index, id, id%3, batch, 1700000000000+uint64(id)*1000)
	}
	_, _, _ = eswriter.HandleBulkBody([]byte(sb.String()), nil, 0, 0, false)
}

// ---------- worker ----------
func evictWorker(args []string) {
	dir, casesFile := args[0], args[1]
	start := 0
	fmt.Sscanf(args[2], "%d", &start)
	b, err := os.ReadFile(casesFile)
	if err != nil {
		fmt.Println("cannot read cases:", err)
		os.Exit(3)
	}
	var cases []evCase
	if err := json.Unmarshal(b, &cases); err != nil {
		fmt.Println("cannot parse cases:", err)
		os.Exit(3)
	}
	if err := initSiglens(filepath.Join(dir, fmt.Sprintf("data%d", start))); err != nil {
		fmt.Println("init:", err)
		os.Exit(3)
	}
	out, _ := os.OpenFile(filepath.Join(dir, "results.jsonl"), os.O_APPEND|os.O_CREATE|os.O_WRONLY, 0o644)
	for i := start; i < len(cases); i++ {
		c := cases[i]
		index := fmt.Sprintf("ev%d", i)
		res := evResult{I: i}
		next, batch := 1, 0
		for j, o := range c.Ops {
			_ = os.WriteFile(filepath.Join(dir, "progress"), []byte(fmt.Sprintf("%d %d", i, j)), 0o644)
			switch o.K {
			case "F":
				batch++
				evIngest(index, next, o.N, batch)
				next += o.N
				flushLogs()
			case "E0":
				writer.RebalanceUnrotatedMetadata(0)
			case "EB":
				writer.RebalanceUnrotatedMetadata(evBig)
			case "R":
				writer.ForceRotateSegmentsForTest()
			case "RE":
				metadata.RebalanceInMemoryCmi(0)
				metadata.RebalanceInMemorySsm(0)
			case "RL":
				metadata.RebalanceInMemoryCmi(evBig)
				metadata.RebalanceInMemorySsm(evBig)
			case "Q":
				ob := evObs{Op: j}
				sts := writer.VerifC11UnrotatedCmiState(index)
				ob.NSegs = len(sts)
				if len(sts) > 0 {
					ob.Found, ob.Loaded, ob.Blocks, ob.Cols = true, sts[0].Loaded, sts[0].Blocks, sts[0].Cols
				}
				ids, cnt, e := runQuery(index, o.Q.Text)
				ob.IDs, ob.Count, ob.Err = ids, cnt, e
				res.Obs = append(res.Obs, ob)
			}
		}
		// the index is not used again (see blocks.go)
		writer.ForceRotateSegmentsForTest()
		writer.DeleteVirtualTableSegStore(index)
		line, _ := json.Marshal(res)
		_, _ = out.Write(append(line, '\n'))
		_ = out.Sync()
	}
	out.Close()
	os.Exit(0)
}

// ---------- generator ----------
type evEvent struct{ id, batch int }

type evGen struct {
	rng    *vhlib.Rng
	events []evEvent
	batch  int
}

func (g *evGen) flush(n int) evOp {
	g.batch++
	for i := 0; i < n; i++ {
		g.events = append(g.events, evEvent{len(g.events) + 1, g.batch})
	}
	return evOp{K: "F", N: n}
}

func (g *evGen) want(p func(evEvent) bool) []int {
	w := []int{}
	for _, e := range g.events {
		if p(e) {
			w = append(w, e.id)
		}
	}
	return w
}

var evShapes = []string{"all", "b_eq", "w_eq", "id_eq", "id_gt", "id_lt", "or", "and", "b_ne", "b_wild", "text", "b_eq_count", "id_gt_count", "b_eq_first"}

// a query of the given shape with parameters drawn over what has been flushed so far
func (g *evGen) query(shape string) evOp {
	nb := g.batch
	if nb == 0 {
		nb = 1
	}
	k := g.rng.Range(1, nb)
	l := g.rng.Range(1, nb)
	maxID := len(g.events)
	t := g.rng.Range(0, maxID+1)
	w := g.rng.Intn(3)
	q := &evQuery{Shape: shape, Consults: true}
	switch shape {
	case "all":
		q.Text, q.Consults = "*", false
		q.Want = g.want(func(e evEvent) bool { return true })
	case "b_eq_first":
		q.Text = "b=batch-1"
		q.Want = g.want(func(e evEvent) bool { return e.batch == 1 })
	case "b_eq":
		q.Text = fmt.Sprintf("b=batch-%d", k)
		q.Want = g.want(func(e evEvent) bool { return e.batch == k })
	case "w_eq":
		q.Text = fmt.Sprintf("w=w%d", w)
		q.Want = g.want(func(e evEvent) bool { return e.id%3 == w })
	case "id_eq":
		q.Text, q.Range = fmt.Sprintf("id=%d", t), true
		q.Want = g.want(func(e evEvent) bool { return e.id == t })
	case "id_gt":
		q.Text, q.Range = fmt.Sprintf("id>%d", t), true
		q.Want = g.want(func(e evEvent) bool { return e.id > t })
	case "id_lt":
		q.Text, q.Range = fmt.Sprintf("id<%d", t), true
		q.Want = g.want(func(e evEvent) bool { return e.id < t })
	case "or":
		q.Text = fmt.Sprintf("b=batch-%d OR b=batch-%d", k, l)
		q.Want = g.want(func(e evEvent) bool { return e.batch == k || e.batch == l })
	case "and":
		q.Text = fmt.Sprintf("b=batch-%d AND w=w%d", k, w)
		q.Want = g.want(func(e evEvent) bool { return e.batch == k && e.id%3 == w })
	case "b_ne":
		q.Text, q.Consults = fmt.Sprintf("b!=batch-%d", k), false
		q.Want = g.want(func(e evEvent) bool { return e.batch != k })
	case "b_wild":
		q.Text, q.Consults = "b=batch*", false
		q.Want = g.want(func(e evEvent) bool { return true })
	case "text":
		q.Text = fmt.Sprintf("batch-%d", k)
		q.Want = g.want(func(e evEvent) bool { return e.batch == k })
	case "b_eq_count":
		q.Text, q.Count = fmt.Sprintf("b=batch-%d | stats count AS c", k), true
		q.Want = g.want(func(e evEvent) bool { return e.batch == k })
	case "id_gt_count":
		q.Text, q.Count, q.Range = fmt.Sprintf("id>%d | stats count AS c", t), true, true
		q.Want = g.want(func(e evEvent) bool { return e.id > t })
	case "allcol_num": // stream allcol: a number searched in ALL columns (SimpleExpressionAllColumns)
		if t < 1 {
			t = 1
		}
		q.Text, q.Range, q.Needs = fmt.Sprintf("*=%d", t), true, true
		q.Want = g.want(func(e evEvent) bool { return e.id == t })
	case "allcol_eq", "allcol_quoted", "text_quoted", "allcol_count": // stream allcol: a value searched in ALL columns
		q.Text = map[string]string{"allcol_eq": "*=batch-%d", "allcol_quoted": `*="batch-%d"`, "text_quoted": `"batch-%d"`, "allcol_count": "*=batch-%d | stats count AS c"}[shape]
		q.Text = fmt.Sprintf(q.Text, k)
		q.Count = shape == "allcol_count"
		q.Want = g.want(func(e evEvent) bool { return e.batch == k })
	}
	return evOp{K: "Q", Q: q}
}

func evSeqs(alpha []string, maxLen int) [][]string {
	res := [][]string{}
	var rec func(cur []string)
	rec = func(cur []string) {
		if len(cur) > 0 {
			res = append(res, append([]string{}, cur...))
		}
		if len(cur) == maxLen {
			return
		}
		for _, a := range alpha {
			rec(append(cur, a))
		}
	}
	rec([]string{"F"})
	return res
}

func evGenerate(cfg vhlib.Config) []evCase {
	rng := vhlib.NewRng(cfg.Seed ^ 0xe71c7)
	var cases []evCase
	build := func(name, stream string, seq []string, perStep int, shapes []string) {
		g := &evGen{rng: rng.Fork()}
		c := evCase{Name: name, Stream: stream}
		for si, k := range seq {
			if k == "F" {
				c.Ops = append(c.Ops, g.flush(g.rng.Range(2, 5)))
			} else {
				c.Ops = append(c.Ops, evOp{K: k})
			}
			n := perStep
			if si == len(seq)-1 {
				n = perStep + 2
			}
			if perStep < 0 { // every shape after every step
				for _, sh := range shapes {
					c.Ops = append(c.Ops, g.query(sh))
				}
				continue
			}
			for x := 0; x < n; x++ {
				c.Ops = append(c.Ops, g.query(shapes[g.rng.Intn(len(shapes))]))
			}
			if stream == "evict" {
				c.Ops = append(c.Ops, g.query("b_eq_first"))
			}
		}
		cases = append(cases, c)
	}
	// (1) small scope, exhaustive: every op sequence over {F, E0, R} up to the length bound, searches after every step
	maxLen, per := 4, 2
	alpha := []string{"F", "E0", "R"}
	if cfg.Thorough() {
		maxLen, per = 5, -1
		alpha = []string{"F", "E0", "R", "RE"}
	}
	for _, s := range evSeqs(alpha, maxLen) {
		build("seq:"+strings.Join(s, ","), "evict", s, per, evShapes)
	}
	// (2) longer random streams over the whole alphabet
	nr := 16
	if cfg.Thorough() {
		nr = 300
	}
	full := []string{"F", "F", "F", "E0", "E0", "EB", "R", "RE", "RL"}
	for i := 0; i < nr; i++ {
		s := []string{"F"}
		ln := rng.Range(4, 9)
		for len(s) < ln {
			s = append(s, full[rng.Intn(len(full))])
		}
		build(fmt.Sprintf("rnd%d:%s", i, strings.Join(s, ",")), "evict", s, 1, evShapes)
	}
	// (3) own stream for the known finding: a value searched in ALL columns (`*=v`)
	for _, s := range [][]string{{"F"}, {"F", "F"}, {"F", "E0"}, {"F", "E0", "F"}, {"F", "F", "E0", "F"}, {"F", "E0", "R"}, {"F", "R", "RE"}, {"F", "E0", "F", "R"}, {"F", "EB", "F"}} {
		build("allcol:"+strings.Join(s, ","), "allcol", s, -1, []string{"allcol_eq", "allcol_quoted", "text_quoted", "allcol_count", "allcol_num"})
	}
	return cases
}

// ---------- stage ----------
func evCoqList(l []int) string {
	p := make([]string, len(l))
	for i, v := range l {
		p[i] = fmt.Sprint(v)
	}
	return "[" + strings.Join(p, ";") + "]"
}
func evCoqBool(b bool) string {
	if b {
		return "true"
	}
	return "false"
}

func evCoqCase(c evCase, r *evResult) string {
	var items []string
	obs := map[int]evObs{}
	for _, o := range r.Obs {
		obs[o.Op] = o
	}
	next := 1
	for j, o := range c.Ops {
		switch o.K {
		case "F":
			ids := []int{}
			for i := 0; i < o.N; i++ {
				ids = append(ids, next+i)
			}
			next += o.N
			items = append(items, "F "+evCoqList(ids))
		case "E0", "EB", "RE", "RL":
			items = append(items, o.K)
		case "R":
			items = append(items, "RO")
		case "Q":
			ob := obs[j]
			cnt := "None"
			if o.Q.Count {
				if ob.Count >= 0 {
					cnt = fmt.Sprintf("(Some %d)", ob.Count)
				} else {
					cnt = "(Some 0)" // `stats count` over nothing has no row
				}
			}
			state := "None"
			if ob.Found {
				has := make([]string, len(ob.Cols))
				for i, n := range ob.Cols {
					has[i] = evCoqBool(n > 0)
				}
				state = fmt.Sprintf("(Some (%s, %d%%nat, [%s]))", evCoqBool(ob.Loaded), ob.Blocks, strings.Join(has, ";"))
			}
			items = append(items, fmt.Sprintf("TObs (%s, %s, %s, %s) %s %s %s", evCoqBool(o.Q.Consults), evCoqBool(o.Q.Range), evCoqBool(o.Q.Needs), evCoqList(o.Q.Want), evCoqList(ob.IDs), cnt, state))
		}
	}
	return "[" + strings.Join(items, "; ") + "]"
}

func evHistory(c evCase, upto int) string {
	var p []string
	for j, o := range c.Ops {
		if j > upto {
			break
		}
		switch o.K {
		case "F":
			p = append(p, fmt.Sprintf("F(%d events)", o.N))
		case "Q":
			if j == upto {
				p = append(p, "Q["+o.Q.Text+"]")
			}
		default:
			p = append(p, o.K)
		}
	}
	return strings.Join(p, " ")
}

func evictStage(cfg vhlib.Config, sum *vhlib.Summary) {
	self, _ := os.Executable()
	dir := filepath.Join(cfg.Out, "evict")
	_ = os.RemoveAll(dir)
	_ = os.MkdirAll(dir, 0o755)
	cases := evGenerate(cfg)
	if only := os.Getenv("C11_EVICT_MAX"); only != "" {
		n := 0
		fmt.Sscanf(only, "%d", &n)
		if n < len(cases) {
			cases = cases[:n]
		}
	}
	cb, _ := json.Marshal(cases)
	casesFile := filepath.Join(dir, "cases.json")
	_ = os.WriteFile(casesFile, cb, 0o644)

	results := map[int]*evResult{}
	crashed := map[int]string{} // case -> "op j: tail of the worker output"
	readResults := func() {
		f, err := os.Open(filepath.Join(dir, "results.jsonl"))
		if err != nil {
			return
		}
		defer f.Close()
		sc := bufio.NewScanner(f)
		sc.Buffer(make([]byte, 1<<20), 1<<26)
		for sc.Scan() {
			var r evResult
			if json.Unmarshal(sc.Bytes(), &r) == nil {
				rr := r
				results[r.I] = &rr
			}
		}
	}
	start, launches := 0, 0
	for start < len(cases) && launches < 40 {
		launches++
		cmd := exec.Command(self, "evictworker", dir, casesFile, fmt.Sprint(start))
		logName := filepath.Join(dir, fmt.Sprintf("worker%d.out", launches))
		logf, _ := os.Create(logName)
		cmd.Stdout, cmd.Stderr = logf, logf
		if err := cmd.Start(); err != nil {
			sum.HarnessError("evict stage: cannot start the worker: " + err.Error())
			return
		}
		done := make(chan error, 1)
		go func() { done <- cmd.Wait() }()
		limit := 240 * time.Second
		if cfg.Thorough() {
			limit = 1200 * time.Second
		}
		timedOut := false
		select {
		case <-done:
		case <-time.After(limit):
			timedOut = true
			_ = cmd.Process.Kill()
			<-done
		}
		logf.Close()
		readResults()
		first := start
		for first < len(cases) && results[first] != nil {
			first++
		}
		if first >= len(cases) {
			break
		}
		// the worker ended inside case `first`
		pb, _ := os.ReadFile(filepath.Join(dir, "progress"))
		pi, pj := -1, -1
		fmt.Sscanf(string(pb), "%d %d", &pi, &pj)
		ob, _ := os.ReadFile(logName)
		what := tail(string(ob), 1800)
		if timedOut {
			what = "no answer within " + limit.String() + " (worker killed)"
		}
		if pi != first {
			pj = -1
		}
		crashed[first] = fmt.Sprintf("%d\x00%s", pj, what)
		start = first + 1
	}

	var coq []string
	nQ := 0
	for i, c := range cases {
		evicted := false // an eviction (open or rotated side) earlier in the stream
		if cr, ok := crashed[i]; ok {
			parts := strings.SplitN(cr, "\x00", 2)
			pj := -1
			fmt.Sscanf(parts[0], "%d", &pj)
			cj := map[string]interface{}{"case": c.Name, "ops": c.Ops, "worker_died_in_op": pj, "worker_output": parts[1]}
			hist := evHistory(c, pj)
			cls := "crash_during_flush_rotation_or_rebalance_stream"
			if pj >= 0 && pj < len(c.Ops) && c.Ops[pj].K == "Q" {
				cls = "crash_in_search_of_open_segment"
				for _, o := range c.Ops[:pj] {
					if o.K == "E0" || o.K == "RE" {
						cls = "crash_in_search_after_index_eviction"
					}
				}
				if c.Ops[pj].Q.Range && strings.HasSuffix(cls, "eviction") {
					cls = "crash_in_range_search_after_index_eviction"
				}
			}
			sum.Fail(cls, fmt.Sprintf("fresh index, op stream %s: the worker process died: %s", hist, firstLineWith(parts[1], "panic")), cj)
			sum.Count("evict/case_crashed")
			continue
		}
		r := results[i]
		if r == nil {
			sum.Count("evict/case_not_run")
			continue
		}
		obs := map[int]evObs{}
		for _, o := range r.Obs {
			obs[o.Op] = o
		}
		anyEvict := false
		for j, o := range c.Ops {
			if o.K == "E0" || o.K == "RE" {
				evicted = true
				anyEvict = true
			}
			if o.K != "Q" {
				continue
			}
			nQ++
			ob, ok := obs[j]
			if !ok {
				continue
			}
			sum.Count("evict/shape/" + o.Q.Shape)
			if evicted {
				sum.Count("evict/search_after_an_eviction")
			}
			if ob.Found && !ob.Loaded {
				sum.Count("evict/search_of_open_segment_without_indexes")
			}
			hist := evHistory(c, j)
			cj := map[string]interface{}{"case": c.Name, "ops_up_to_the_search": hist, "query": o.Q.Text, "expected_ids": o.Q.Want, "observed": ob,
				"legend": "F ingest+flush (one block of the open segment; events id=1.., w=w<id%3>, b=batch-<flush number>); E0 writer.RebalanceUnrotatedMetadata(0); EB the same with 1 TiB; R rotation; RE metadata.RebalanceInMemoryCmi(0)+RebalanceInMemorySsm(0); RL the same with 1 TiB"}
			suffix := ""
			if evicted {
				suffix = "_after_index_eviction"
			}
			filtered := "filtered_search"
			if o.Q.Shape == "all" {
				filtered = "match_all_search"
			}
			if c.Stream == "allcol" {
				filtered = "all_column_value_search"
			}
			missingClass := "flushed_event_missing_from_" + filtered + suffix
			if o.Q.Shape == "allcol_num" && ob.Found && !ob.Loaded {
				// regression name (fixed by 7108dc6, known/C11.json status fixed), own stream: `*=<number>`
				// (SimpleExpressionAllColumns) searches only the columns that passed the micro-index check, and an open
				// segment without loaded indexes used to pass none
				missingClass = "all_column_number_search_finds_nothing_in_open_segment_without_indexes"
			}
			got := ob.IDs
			if o.Q.Count {
				want := int64(len(o.Q.Want))
				c := max(ob.Count, 0)
				if ob.Err != "" {
					sum.Fail("query_error_in_"+filtered+suffix, fmt.Sprintf("%s: %s", hist, ob.Err), cj)
				} else if c < want {
					sum.Fail(missingClass, fmt.Sprintf("%s: count %d, %d events flushed before the search match", hist, c, want), cj)
				} else if c > want {
					sum.Fail("event_counted_twice_in_"+filtered+suffix, fmt.Sprintf("%s: count %d, %d events match", hist, c, want), cj)
				}
				continue
			}
			sort.Ints(got)
			switch {
			case ob.Err != "":
				sum.Fail("query_error_in_"+filtered+suffix, fmt.Sprintf("%s: %s", hist, ob.Err), cj)
			case hasDup(got):
				sum.Fail("event_doubled_in_"+filtered+suffix, fmt.Sprintf("%s: returned %v, expected %v", hist, got, o.Q.Want), cj)
			case !intsEq(got, o.Q.Want):
				missing := false
				set := map[int]bool{}
				for _, x := range got {
					set[x] = true
				}
				for _, x := range o.Q.Want {
					if !set[x] {
						missing = true
					}
				}
				if missing {
					sum.Fail(missingClass, fmt.Sprintf("%s: returned %v, expected %v (all flushed before the search began)", hist, got, o.Q.Want), cj)
				} else {
					sum.Fail("event_not_matching_returned_by_"+filtered+suffix, fmt.Sprintf("%s: returned %v, expected %v", hist, got, o.Q.Want), cj)
				}
			}
			if ob.NSegs > 1 {
				sum.Fail("index_has_two_open_segments", hist, cj)
			}
		}
		sum.Eval("evict/"+c.Name, anyEvict)
		sum.Count("evict/stream/" + c.Stream)
		if i%17 == 3 {
			sum.Sample(map[string]interface{}{"case": c.Name, "ops": c.Ops, "observed": r.Obs})
		}
		coq = append(coq, evCoqCase(c, r))
	}
	sum.Count(fmt.Sprintf("evict/worker_launches=%d", launches))
	for sh := 0; sh*150 < len(coq) || sh == 0; sh++ {
		part := coq[min(sh*150, len(coq)):min(sh*150+150, len(coq))]
		name := "cases_evict"
		if sh > 0 {
			name = fmt.Sprintf("cases_evict%d", sh)
		}
		defs := "Open Scope N_scope.\nDefinition cases : list (list titem) := " + vhlib.CoqListNL(part) + ".\n"
		sum.WriteCaseFile(cfg.Out, name, "From SigM Require Import Base CmiEvict CmiEvictCheck.\n", defs, "check_evict_cases cases", len(part))
	}
	_ = nQ
}

func firstLineWith(s, needle string) string {
	for _, l := range strings.Split(s, "\n") {
		if strings.Contains(l, needle) {
			return strings.TrimSpace(l)
		}
	}
	return tail(s, 300)
}

// locks.go: the lock programs of the hand-over code, read from the Go source the harness was built from.
//
// For every function of the analysed packages that takes one of the process-wide locks (package-level
// sync.Mutex / sync.RWMutex variables and the mutex fields of package-level singleton structs such as
// metadata.globalMetadata.updateLock) the sequence of acquisitions and releases it performs on ONE goroutine is
// written down, with the functions it calls expanded in place.  The Coq side (Handover.lscan) decides for every lock
// whether a program ever acquires a lock it already holds; the theorems of props/C11.v (C11_lock_progress,
// C11_lock_completion) hold for goroutines that run such non-reentrant programs, C11_recursive_read_lock_refuted shows
// what happens otherwise.
//
// What the extraction is: a syntactic reading (go/parser, no type checker).
//   - statements in source order; a branch (if/else, switch/select clause, loop body, function literal) is a detour that
//     is undone before the next one starts, so `L.RLock(); if x { L.RUnlock(); return }; ...; L.RUnlock()` reads as it runs;
//   - `defer` runs at the end of the function; `go f()` starts another goroutine and is not part of the caller's program;
//   - calls: functions of the same package, pkg.F of another analysed package, methods on the receiver / on package-level
//     variables of a known type; a method call on any other expression is followed when exactly one method of that name
//     exists in the analysed packages.  Calls through interfaces and function values are NOT followed.
package main

import (
	"fmt"
	"go/ast"
	"go/parser"
	"go/token"
	"os"
	"path/filepath"
	"sort"
	"strings"
)

type lockEv struct {
	Act  string // RAcq RRel WAcq WRel
	Lock string
	Fn   string // the function whose text contains the acquisition (after expansion: the callee)
	Pos  string
	Fake bool // undoing of a branch, not an action of the code
}

type lockItem struct {
	ev   *lockEv
	call string // key of the called function
}

type lockFn struct {
	key      string // pkg.Func or pkg.(T).Method
	pkg      string
	recvName string
	recvType string
	decl     *ast.FuncDecl
	lit      *ast.FuncLit
	file     *ast.File
	items    []lockItem
	direct   bool // takes a tracked lock itself
	done     bool
}

type lockPkg struct {
	path    string // import path below the module
	name    string
	vars    map[string]string            // package-level variable -> type name ("" unknown; "sync.RWMutex"/"sync.Mutex" for locks)
	fields  map[string]map[string]string // struct type -> field -> "sync.RWMutex"/"sync.Mutex"
	funcs   map[string]*lockFn           // plain functions by name
	methods map[string]map[string]*lockFn
}

type lockAnalysis struct {
	fset     *token.FileSet
	pkgs     map[string]*lockPkg // by import path
	fns      map[string]*lockFn
	byMethod map[string][]*lockFn // method name -> all methods of that name
	flat     map[string][]lockEv
	onStack  map[string]bool
	roots    []string
}

const modPrefix = "github.com/siglens/siglens/"

func typeName(e ast.Expr) string {
	switch t := e.(type) {
	case *ast.Ident:
		return t.Name
	case *ast.StarExpr:
		return typeName(t.X)
	case *ast.SelectorExpr:
		if x, ok := t.X.(*ast.Ident); ok {
			return x.Name + "." + t.Sel.Name
		}
	case *ast.UnaryExpr:
		return typeName(t.X)
	case *ast.CompositeLit:
		if t.Type != nil {
			return typeName(t.Type)
		}
	case *ast.IndexExpr:
		return typeName(t.X)
	}
	return ""
}

func analyseLocks(repo string, dirs []string) (*lockAnalysis, error) {
	la := &lockAnalysis{fset: token.NewFileSet(), pkgs: map[string]*lockPkg{}, fns: map[string]*lockFn{}, byMethod: map[string][]*lockFn{},
		flat: map[string][]lockEv{}, onStack: map[string]bool{}}
	for _, d := range dirs {
		ents, err := os.ReadDir(filepath.Join(repo, d))
		if err != nil {
			return nil, err
		}
		p := &lockPkg{path: d, vars: map[string]string{}, fields: map[string]map[string]string{}, funcs: map[string]*lockFn{}, methods: map[string]map[string]*lockFn{}}
		var files []*ast.File
		for _, e := range ents {
			n := e.Name()
			if e.IsDir() || !strings.HasSuffix(n, ".go") || strings.HasSuffix(n, "_test.go") || strings.HasPrefix(n, "zz_verif_") {
				continue
			}
			f, err := parser.ParseFile(la.fset, filepath.Join(repo, d, n), nil, 0)
			if err != nil {
				return nil, err
			}
			p.name = f.Name.Name
			files = append(files, f)
		}
		if len(files) == 0 {
			continue
		}
		la.pkgs[d] = p
		for _, f := range files {
			for _, dcl := range f.Decls {
				switch x := dcl.(type) {
				case *ast.GenDecl:
					for _, sp := range x.Specs {
						switch s := sp.(type) {
						case *ast.ValueSpec:
							for i, nm := range s.Names {
								ty := ""
								if s.Type != nil {
									ty = typeName(s.Type)
								} else if i < len(s.Values) {
									ty = typeName(s.Values[i])
								}
								p.vars[nm.Name] = ty
							}
						case *ast.TypeSpec:
							if st, ok := s.Type.(*ast.StructType); ok {
								m := map[string]string{}
								for _, fl := range st.Fields.List {
									ty := typeName(fl.Type)
									if ty == "sync.RWMutex" || ty == "sync.Mutex" {
										for _, nm := range fl.Names {
											m[nm.Name] = ty
										}
									}
								}
								p.fields[s.Name.Name] = m
							}
						}
					}
				case *ast.FuncDecl:
					if x.Body == nil {
						continue
					}
					fn := &lockFn{pkg: d, decl: x, file: f}
					if x.Recv != nil && len(x.Recv.List) == 1 {
						fn.recvType = typeName(x.Recv.List[0].Type)
						if len(x.Recv.List[0].Names) == 1 {
							fn.recvName = x.Recv.List[0].Names[0].Name
						}
						fn.key = d + ".(" + fn.recvType + ")." + x.Name.Name
						if p.methods[fn.recvType] == nil {
							p.methods[fn.recvType] = map[string]*lockFn{}
						}
						p.methods[fn.recvType][x.Name.Name] = fn
						la.byMethod[x.Name.Name] = append(la.byMethod[x.Name.Name], fn)
					} else {
						fn.key = d + "." + x.Name.Name
						p.funcs[x.Name.Name] = fn
					}
					la.fns[fn.key] = fn
				}
			}
		}
	}
	keys := make([]string, 0, len(la.fns))
	for k := range la.fns {
		keys = append(keys, k)
	}
	sort.Strings(keys)
	for _, k := range keys {
		la.walkFn(la.fns[k])
	}
	// function literals started with `go` were registered while walking
	keys = keys[:0]
	for k, f := range la.fns {
		if f.direct {
			keys = append(keys, k)
		}
	}
	sort.Strings(keys)
	la.roots = keys
	return la, nil
}

// ---- one function ----
type held struct{ r, w int }

type lockWalker struct {
	la     *lockAnalysis
	fn     *lockFn
	pkg    *lockPkg
	imp    map[string]string // import alias -> path below the module
	held   map[string]held
	defers []func()
	locals map[string]bool // names declared in the function (shadow package-level variables)
}

func (la *lockAnalysis) walkFn(fn *lockFn) {
	if fn.done {
		return
	}
	fn.done = true
	w := &lockWalker{la: la, fn: fn, pkg: la.pkgs[fn.pkg], imp: map[string]string{}, held: map[string]held{}, locals: map[string]bool{}}
	for _, is := range fn.file.Imports {
		path := strings.Trim(is.Path.Value, `"`)
		if !strings.HasPrefix(path, modPrefix) {
			continue
		}
		path = strings.TrimPrefix(path, modPrefix)
		alias := filepath.Base(path)
		if q, ok := la.pkgs[path]; ok {
			alias = q.name
		}
		if is.Name != nil {
			alias = is.Name.Name
		}
		w.imp[alias] = path
	}
	var body *ast.BlockStmt
	var ftype *ast.FuncType
	if fn.decl != nil {
		body, ftype = fn.decl.Body, fn.decl.Type
	} else {
		body, ftype = fn.lit.Body, fn.lit.Type
	}
	if ftype.Params != nil {
		for _, f := range ftype.Params.List {
			for _, n := range f.Names {
				w.locals[n.Name] = true
			}
		}
	}
	ast.Inspect(body, func(n ast.Node) bool {
		switch x := n.(type) {
		case *ast.AssignStmt:
			if x.Tok == token.DEFINE {
				for _, l := range x.Lhs {
					if id, ok := l.(*ast.Ident); ok {
						w.locals[id.Name] = true
					}
				}
			}
		case *ast.ValueSpec:
			for _, id := range x.Names {
				w.locals[id.Name] = true
			}
		case *ast.RangeStmt:
			if x.Tok == token.DEFINE {
				for _, e := range []ast.Expr{x.Key, x.Value} {
					if id, ok := e.(*ast.Ident); ok {
						w.locals[id.Name] = true
					}
				}
			}
		}
		return true
	})
	w.stmts(body.List)
	for i := len(w.defers) - 1; i >= 0; i-- {
		w.defers[i]()
	}
}

func copyHeld(m map[string]held) map[string]held {
	o := map[string]held{}
	for k, v := range m {
		if v.r != 0 || v.w != 0 {
			o[k] = v
		}
	}
	return o
}

func (w *lockWalker) emit(act, lock string, pos token.Pos, fake bool) {
	p := ""
	if pos.IsValid() {
		pp := w.la.fset.Position(pos)
		p = fmt.Sprintf("%s:%d", filepath.Base(pp.Filename), pp.Line)
	}
	w.fn.items = append(w.fn.items, lockItem{ev: &lockEv{Act: act, Lock: lock, Fn: w.fn.key, Pos: p, Fake: fake}})
	h := w.held[lock]
	switch act {
	case "RAcq":
		h.r++
	case "RRel":
		h.r--
	case "WAcq":
		h.w++
	case "WRel":
		h.w--
	}
	w.held[lock] = h
	if !fake {
		w.fn.direct = true
	}
}

// bring the walker's state from what it is to `to` with undo events
func (w *lockWalker) compensate(to map[string]held) {
	names := map[string]bool{}
	for k := range w.held {
		names[k] = true
	}
	for k := range to {
		names[k] = true
	}
	ks := make([]string, 0, len(names))
	for k := range names {
		ks = append(ks, k)
	}
	sort.Strings(ks)
	for _, k := range ks {
		for w.held[k].r > to[k].r {
			w.emit("RRel", k, token.NoPos, true)
		}
		for w.held[k].w > to[k].w {
			w.emit("WRel", k, token.NoPos, true)
		}
	}
	for _, k := range ks {
		for w.held[k].w < to[k].w {
			w.emit("WAcq", k, token.NoPos, true)
		}
		for w.held[k].r < to[k].r {
			w.emit("RAcq", k, token.NoPos, true)
		}
	}
}

func heldEq(a, b map[string]held) bool {
	a, b = copyHeld(a), copyHeld(b)
	if len(a) != len(b) {
		return false
	}
	for k, v := range a {
		if b[k] != v {
			return false
		}
	}
	return true
}

// every branch starts from the state before; after it the state is put back; at the end the net effect of the first
// branch that falls through and changes the state is applied.  Returns true when every branch leaves (return, break, ...).
func (w *lockWalker) branches(bs []func() bool, loop bool) bool {
	before := copyHeld(w.held)
	var target map[string]held
	allTerm := true
	for _, b := range bs {
		term := b()
		if !term {
			allTerm = false
			if target == nil && !heldEq(w.held, before) && !loop {
				target = copyHeld(w.held)
			}
		}
		w.compensate(before)
	}
	if target != nil {
		w.compensate(target)
	}
	return allTerm && !loop
}

func (w *lockWalker) stmts(list []ast.Stmt) bool {
	for _, s := range list {
		if w.stmt(s) {
			return true
		}
	}
	return false
}

func isTerminatingCall(e ast.Expr) bool {
	c, ok := e.(*ast.CallExpr)
	if !ok {
		return false
	}
	switch f := c.Fun.(type) {
	case *ast.Ident:
		return f.Name == "panic"
	case *ast.SelectorExpr:
		if x, ok := f.X.(*ast.Ident); ok {
			return (x.Name == "os" && f.Sel.Name == "Exit") || (x.Name == "log" && (f.Sel.Name == "Fatal" || f.Sel.Name == "Fatalf" || f.Sel.Name == "Panicf"))
		}
	}
	return false
}

func (w *lockWalker) stmt(s ast.Stmt) bool {
	switch x := s.(type) {
	case nil:
		return false
	case *ast.ExprStmt:
		w.expr(x.X)
		return isTerminatingCall(x.X)
	case *ast.AssignStmt:
		for _, e := range x.Rhs {
			w.expr(e)
		}
		for _, e := range x.Lhs {
			w.expr(e)
		}
	case *ast.DeclStmt:
		if g, ok := x.Decl.(*ast.GenDecl); ok {
			for _, sp := range g.Specs {
				if v, ok := sp.(*ast.ValueSpec); ok {
					for _, e := range v.Values {
						w.expr(e)
					}
				}
			}
		}
	case *ast.ReturnStmt:
		for _, e := range x.Results {
			w.expr(e)
		}
		return true
	case *ast.BranchStmt:
		return x.Tok != token.FALLTHROUGH
	case *ast.BlockStmt:
		return w.stmts(x.List)
	case *ast.LabeledStmt:
		return w.stmt(x.Stmt)
	case *ast.IncDecStmt:
		w.expr(x.X)
	case *ast.SendStmt:
		w.expr(x.Chan)
		w.expr(x.Value)
	case *ast.IfStmt:
		w.stmt(x.Init)
		w.expr(x.Cond)
		return w.branches([]func() bool{
			func() bool { return w.stmts(x.Body.List) },
			func() bool { return w.stmt(x.Else) },
		}, false)
	case *ast.ForStmt:
		w.stmt(x.Init)
		w.expr(x.Cond)
		w.branches([]func() bool{func() bool {
			t := w.stmts(x.Body.List)
			if !t {
				w.stmt(x.Post)
			}
			return t
		}}, true)
	case *ast.RangeStmt:
		w.expr(x.X)
		w.branches([]func() bool{func() bool { return w.stmts(x.Body.List) }}, true)
	case *ast.SwitchStmt:
		w.stmt(x.Init)
		w.expr(x.Tag)
		return w.clauses(x.Body)
	case *ast.TypeSwitchStmt:
		w.stmt(x.Init)
		w.stmt(x.Assign)
		return w.clauses(x.Body)
	case *ast.SelectStmt:
		return w.clauses(x.Body)
	case *ast.GoStmt:
		for _, a := range x.Call.Args {
			w.expr(a)
		}
		if fl, ok := x.Call.Fun.(*ast.FuncLit); ok {
			w.registerLit(fl)
		}
	case *ast.DeferStmt:
		c := x.Call
		w.defers = append(w.defers, func() { w.expr(c) })
	}
	return false
}

func (w *lockWalker) clauses(body *ast.BlockStmt) bool {
	var bs []func() bool
	hasDefault := false
	for _, c := range body.List {
		switch cc := c.(type) {
		case *ast.CaseClause:
			if cc.List == nil {
				hasDefault = true
			}
			cc2 := cc
			bs = append(bs, func() bool {
				for _, e := range cc2.List {
					w.expr(e)
				}
				return w.stmts(cc2.Body)
			})
		case *ast.CommClause:
			if cc.Comm == nil {
				hasDefault = true
			}
			cc2 := cc
			bs = append(bs, func() bool {
				w.stmt(cc2.Comm)
				return w.stmts(cc2.Body)
			})
		}
	}
	if !hasDefault {
		bs = append(bs, func() bool { return false })
	}
	return w.branches(bs, false)
}

// a function literal started on its own goroutine: a program of its own
func (w *lockWalker) registerLit(fl *ast.FuncLit) {
	pp := w.la.fset.Position(fl.Pos())
	k := fmt.Sprintf("%s.go@%s:%d", w.fn.key, filepath.Base(pp.Filename), pp.Line)
	if _, ok := w.la.fns[k]; ok {
		return
	}
	fn := &lockFn{key: k, pkg: w.fn.pkg, recvName: w.fn.recvName, recvType: w.fn.recvType, lit: fl, file: w.fn.file}
	w.la.fns[k] = fn
	w.la.walkFn(fn)
}

func (w *lockWalker) expr(e ast.Expr) {
	switch x := e.(type) {
	case nil:
	case *ast.CallExpr:
		// receiver expression and arguments first
		if se, ok := x.Fun.(*ast.SelectorExpr); ok {
			w.expr(se.X)
		} else if _, ok := x.Fun.(*ast.FuncLit); !ok {
			w.expr(x.Fun)
		}
		for _, a := range x.Args {
			w.expr(a)
		}
		w.call(x)
	case *ast.FuncLit:
		// a closure handed to somebody (sort.Slice, a callback): read as run here, as a detour
		w.branches([]func() bool{func() bool { w.stmts(x.Body.List); return false }}, true)
	case *ast.ParenExpr:
		w.expr(x.X)
	case *ast.SelectorExpr:
		w.expr(x.X)
	case *ast.IndexExpr:
		w.expr(x.X)
		w.expr(x.Index)
	case *ast.SliceExpr:
		w.expr(x.X)
		w.expr(x.Low)
		w.expr(x.High)
		w.expr(x.Max)
	case *ast.StarExpr:
		w.expr(x.X)
	case *ast.UnaryExpr:
		w.expr(x.X)
	case *ast.BinaryExpr:
		w.expr(x.X)
		w.expr(x.Y)
	case *ast.KeyValueExpr:
		w.expr(x.Key)
		w.expr(x.Value)
	case *ast.CompositeLit:
		for _, el := range x.Elts {
			w.expr(el)
		}
	case *ast.TypeAssertExpr:
		w.expr(x.X)
	}
}

// the process-wide lock an expression denotes ("" = not one of them)
func (w *lockWalker) lockOf(e ast.Expr) string {
	switch x := e.(type) {
	case *ast.ParenExpr:
		return w.lockOf(x.X)
	case *ast.UnaryExpr:
		return w.lockOf(x.X)
	case *ast.StarExpr:
		return w.lockOf(x.X)
	case *ast.Ident:
		if w.locals[x.Name] {
			return ""
		}
		if t := w.pkg.vars[x.Name]; t == "sync.RWMutex" || t == "sync.Mutex" {
			return w.fn.pkg + "." + x.Name
		}
	case *ast.SelectorExpr:
		root, ok := x.X.(*ast.Ident)
		if !ok {
			return ""
		}
		if root.Name == w.fn.recvName && w.fn.recvName != "" {
			if w.singleton(w.pkg, w.fn.recvType) && w.pkg.fields[w.fn.recvType][x.Sel.Name] != "" {
				return w.fn.pkg + "." + w.fn.recvType + "." + x.Sel.Name
			}
			return ""
		}
		if w.locals[root.Name] {
			return ""
		}
		if t, ok := w.pkg.vars[root.Name]; ok && t != "" {
			if w.pkg.fields[t][x.Sel.Name] != "" {
				return w.fn.pkg + "." + t + "." + x.Sel.Name
			}
			return ""
		}
		if path, ok := w.imp[root.Name]; ok {
			if q := w.la.pkgs[path]; q != nil {
				if t := q.vars[x.Sel.Name]; t == "sync.RWMutex" || t == "sync.Mutex" {
					return path + "." + x.Sel.Name
				}
			}
		}
	}
	return ""
}

// a struct type with a package-level instance: its mutex fields are process-wide locks
func (w *lockWalker) singleton(p *lockPkg, t string) bool {
	for _, vt := range p.vars {
		if vt == t {
			return true
		}
	}
	return false
}

func (w *lockWalker) call(c *ast.CallExpr) {
	switch f := c.Fun.(type) {
	case *ast.FuncLit:
		w.branches([]func() bool{func() bool { w.stmts(f.Body.List); return false }}, true)
	case *ast.Ident:
		if w.locals[f.Name] {
			return
		}
		if g := w.pkg.funcs[f.Name]; g != nil {
			w.fn.items = append(w.fn.items, lockItem{call: g.key})
		}
	case *ast.SelectorExpr:
		name := f.Sel.Name
		if name == "RLock" || name == "RUnlock" || name == "Lock" || name == "Unlock" {
			if l := w.lockOf(f.X); l != "" {
				act := map[string]string{"RLock": "RAcq", "RUnlock": "RRel", "Lock": "WAcq", "Unlock": "WRel"}[name]
				w.emit(act, l, c.Pos(), false)
				return
			}
		}
		if root, ok := f.X.(*ast.Ident); ok {
			if root.Name == w.fn.recvName && w.fn.recvName != "" {
				if g := w.pkg.methods[w.fn.recvType][name]; g != nil {
					w.fn.items = append(w.fn.items, lockItem{call: g.key})
				}
				return
			}
			if !w.locals[root.Name] {
				if t, ok := w.pkg.vars[root.Name]; ok {
					if g := w.pkg.methods[t][name]; g != nil {
						w.fn.items = append(w.fn.items, lockItem{call: g.key})
					}
					return
				}
				if path, ok := w.imp[root.Name]; ok {
					if q := w.la.pkgs[path]; q != nil {
						if g := q.funcs[name]; g != nil {
							w.fn.items = append(w.fn.items, lockItem{call: g.key})
						}
					}
					return
				}
				if _, isPkg := importNames(w.fn.file)[root.Name]; isPkg {
					return // a package outside the analysed set
				}
			}
		}
		// a method on some other expression: followed when the name is unambiguous
		if ms := w.la.byMethod[name]; len(ms) == 1 {
			w.fn.items = append(w.fn.items, lockItem{call: ms[0].key})
		}
	}
}

func importNames(f *ast.File) map[string]bool {
	m := map[string]bool{}
	for _, is := range f.Imports {
		path := strings.Trim(is.Path.Value, `"`)
		n := filepath.Base(path)
		if is.Name != nil {
			n = is.Name.Name
		}
		m[n] = true
	}
	return m
}

// ---- expansion ----
const maxLockProg = 4000

func (la *lockAnalysis) flatten(key string) []lockEv {
	if v, ok := la.flat[key]; ok {
		return v
	}
	if la.onStack[key] {
		return nil // recursion: the inner call repeats what the outer one is doing
	}
	fn := la.fns[key]
	if fn == nil {
		return nil
	}
	la.walkFn(fn)
	la.onStack[key] = true
	var out []lockEv
	for _, it := range fn.items {
		if it.ev != nil {
			out = append(out, *it.ev)
		} else {
			out = append(out, la.flatten(it.call)...)
		}
		if len(out) > maxLockProg {
			out = out[:maxLockProg]
			break
		}
	}
	la.onStack[key] = false
	// drop a trailing run of undo events? no: they are part of the reading
	la.flat[key] = out
	return out
}

// a program with no real acquisition at all says nothing
func realEvents(p []lockEv) int {
	n := 0
	for _, e := range p {
		if !e.Fake {
			n++
		}
	}
	return n
}

type reentry struct {
	Lock        string `json:"lock"`
	Outer       string `json:"outer_function"` // holds the lock
	OuterMode   string `json:"outer_mode"`
	Inner       string `json:"inner_function"` // takes it again
	InnerAct    string `json:"inner_action"`
	InnerPos    string `json:"inner_position"`
	RootProgram string `json:"root_program"`
}

// the harness-side reading of the same programs (used to explain a hang and for the evidence; the verdict on the
// programs is Coq's)
func findReentries(root string, p []lockEv) []reentry {
	type hs struct {
		r, w   int
		holder string
	}
	h := map[string]*hs{}
	var out []reentry
	for _, e := range p {
		s := h[e.Lock]
		if s == nil {
			s = &hs{}
			h[e.Lock] = s
		}
		switch e.Act {
		case "RAcq", "WAcq":
			if (s.r > 0 || s.w > 0) && !e.Fake {
				m := "read"
				if s.w > 0 {
					m = "write"
				}
				out = append(out, reentry{Lock: e.Lock, Outer: s.holder, OuterMode: m, Inner: e.Fn, InnerAct: e.Act, InnerPos: e.Pos, RootProgram: root})
			}
			if s.r == 0 && s.w == 0 {
				s.holder = e.Fn
			}
			if e.Act == "RAcq" {
				s.r++
			} else {
				s.w++
			}
		case "RRel":
			if s.r > 0 {
				s.r--
			}
		case "WRel":
			if s.w > 0 {
				s.w--
			}
		}
	}
	return out
}

func lockDirs(repo string) []string {
	var dirs []string
	for _, root := range []string{"pkg/segment", "pkg/virtualtable", "pkg/blob", "pkg/es/writer", "pkg/ast/pipesearch"} {
		_ = filepath.Walk(filepath.Join(repo, root), func(p string, info os.FileInfo, err error) error {
			if err == nil && info.IsDir() {
				rel, _ := filepath.Rel(repo, p)
				dirs = append(dirs, rel)
			}
			return nil
		})
	}
	sort.Strings(dirs)
	return dirs
}

func repoDir() string {
	if r := os.Getenv("VERIF_REPO"); r != "" {
		return r
	}
	return "/repo"
}

// c11: concurrent ingest / flush / rotation / search.
// Forces every interleaving of ONE segment rotation against ONE query at the hand-over points
// the code itself exposes (GlobalHooks: AfterSegmentRotation, UploadIngestNodeExtrasHook on the
// writer side; FilterQsrsHook after each of the query's two segment-list snapshots), checks the
// property on the real answers and writes the schedules + answers for comparison with the model.
package main

import (
	"context"
	"encoding/json"
	"fmt"
	"os"
	"os/exec"
	"path/filepath"
	"regexp"
	"runtime"
	"sort"
	"strings"
	"sync"
	"sync/atomic"
	"time"

	"github.com/siglens/siglens/pkg/ast/pipesearch"
	"github.com/siglens/siglens/pkg/config"
	eswriter "github.com/siglens/siglens/pkg/es/writer"
	"github.com/siglens/siglens/pkg/hooks"
	"github.com/siglens/siglens/pkg/segment/memory/limit"
	"github.com/siglens/siglens/pkg/segment/query"
	"github.com/siglens/siglens/pkg/segment/writer"
	serverutils "github.com/siglens/siglens/pkg/server/utils"
	vtable "github.com/siglens/siglens/pkg/virtualtable"
	log "github.com/sirupsen/logrus"

	"verifharness/vhlib"
)

func initSiglens(dir string) error {
	config.InitializeTestingConfig(dir + "/")
	config.SetNewQueryPipelineEnabled(true)
	limit.InitMemoryLimiter()
	writer.InitWriterNode()
	if err := vtable.InitVTable(serverutils.GetMyIds); err != nil {
		return err
	}
	if err := query.InitQueryNode(serverutils.GetMyIds, serverutils.ExtractKibanaRequests); err != nil {
		return err
	}
	query.InitMaxRunningQueries()
	go query.PullQueriesToRun(context.Background())
	return nil
}

// ---------- gates ----------
type gates struct {
	mu      sync.Mutex
	enabled bool
	arrived map[string]chan struct{} // thread -> signalled when the thread reaches its next gate (or finishes)
	release map[string]chan struct{} // thread -> closed/sent to let it continue
}

var G = &gates{arrived: map[string]chan struct{}{}, release: map[string]chan struct{}{}}

func (g *gates) pause(thread string) {
	g.mu.Lock()
	if !g.enabled {
		g.mu.Unlock()
		return
	}
	a, r := g.arrived[thread], g.release[thread]
	g.mu.Unlock()
	a <- struct{}{}
	<-r
}

// which goroutine the hook call belongs to is decided by these (one writer / one reader at a time); atomics: the hooks
// are called from siglens goroutines while the harness goroutines set them
var readerActive atomic.Bool
var writerGIDv atomic.Value // string

func gid() string {
	b := make([]byte, 64)
	b = b[:runtime.Stack(b, false)]
	return strings.Fields(string(b))[1]
}

func loadWriterGID() string {
	if v, ok := writerGIDv.Load().(string); ok {
		return v
	}
	return ""
}

func installHooks() {
	hooks.GlobalHooks.AfterSegmentRotation = func(segmeta interface{}) error {
		if gid() == loadWriterGID() {
			G.pause("w")
		}
		return nil
	}
	hooks.GlobalHooks.UploadIngestNodeExtrasHook = func() (bool, error) {
		if gid() == loadWriterGID() {
			G.pause("w")
		}
		return false, nil
	}
	// called from resetSegStore (suffix.GetNextSuffix) inside CleanupUnrotatedSegment, i.e. AFTER the segment
	// has left the unrotated info: a fourth writer step
	hooks.GlobalHooks.GetNextSuffixHook = func(next uint64, getSegKey func(uint64) string) (uint64, error) {
		if gid() == loadWriterGID() {
			G.pause("w")
		}
		return next, nil
	}
	hooks.GlobalHooks.FilterQsrsHook = func(qsrs interface{}, qi interface{}, isRotated bool) (interface{}, error) {
		// the query runs its segment enumeration on the goroutine that called ParseAndExecutePipeRequest or a child:
		// only the marked reader is paused
		if readerActive.Load() {
			G.pause("r")
		}
		return qsrs, nil
	}
}

var qidCtr atomic.Uint64

func runQuery(index, text string) ([]int, int64, string) {
	qid := 9000 + qidCtr.Add(1)
	req := map[string]interface{}{
		"searchText": text, "indexName": index, "startEpoch": uint64(1), "endEpoch": ^uint64(0),
		"size": uint64(10000), "queryLanguage": "Splunk QL",
	}
	resp, _, _, err := pipesearch.ParseAndExecutePipeRequest(req, qid, 0, time.Now(), "", nil)
	if err != nil {
		return nil, -1, err.Error()
	}
	var ids []int
	cnt := int64(-1)
	if resp != nil {
		for _, h := range resp.Hits.Hits {
			switch t := h["id"].(type) {
			case float64:
				ids = append(ids, int(t))
			case int64:
				ids = append(ids, int(t))
			case uint64:
				ids = append(ids, int(t))
			case json.Number:
				v, _ := t.Int64()
				ids = append(ids, int(v))
			}
		}
		for _, m := range resp.MeasureResults {
			for _, v := range m.MeasureVal {
				switch t := v.(type) {
				case float64:
					cnt = int64(t)
				case int64:
					cnt = t
				case uint64:
					cnt = int64(t)
				case string:
					fmt.Sscanf(t, "%d", &cnt)
				}
			}
		}
		if len(resp.Errors) > 0 {
			return ids, cnt, strings.Join(resp.Errors, "; ")
		}
	}
	sort.Ints(ids)
	return ids, cnt, ""
}

func ingest(index string, from, n int) {
	body := ""
	for i := 0; i < n; i++ {
		id := from + i
		body += fmt.Sprintf(`{"index":{"_index":"%s"}}`+"\n"+`{"id":%d,"w":"w%d","timestamp":%d}`+"\n", index, id, id%3, 1700000000000+uint64(id)*1000)
	}
	_, _, _ = eswriter.HandleBulkBody([]byte(body), nil, 0, 0, false)
}
func flushLogs() {
	z, z2 := time.Duration(0), time.Duration(0)
	writer.FlushWipBufferToFile(&z, &z2)
}

// all interleavings of two sequences of lengths a and b, as strings over {w,r}
func interleavings(a, b int) []string {
	if a == 0 {
		return []string{strings.Repeat("r", b)}
	}
	if b == 0 {
		return []string{strings.Repeat("w", a)}
	}
	var out []string
	for _, s := range interleavings(a-1, b) {
		out = append(out, "w"+s)
	}
	for _, s := range interleavings(a, b-1) {
		out = append(out, "r"+s)
	}
	return out
}

type result struct {
	Schedule   string `json:"schedule"`
	Query      string `json:"query"`
	Feasible   bool   `json:"feasible"`
	Executed   string `json:"executed"` // the order in which steps actually completed
	IDs        []int  `json:"ids"`
	Count      int64  `json:"count"`
	Err        string `json:"err"`
	AfterIDs   []int  `json:"after_ids"`
	AfterCount int64  `json:"after_count"`
	Ans        *answer `json:"answer,omitempty"`       // the multi-block stage (blocks.go)
	AfterAns   *answer `json:"after_answer,omitempty"` // the same query once everything has finished
}

// runs one schedule: writer = one rotation (4 steps: up to the segmeta.json entry | add to the rotated
// metadata | remove from the unrotated info (up to the suffix hook inside resetSegStore) | rest of the reset), reader = one query (3 steps: snapshot of the unrotated list |
// snapshot of the rotated list | resolve + read)
func runSchedule(index string, sched string, qtext string, nEvents int) result {
	var res result
	res = runScheduleGen(sched, qtext,
		func() { ingest(index, 1, nEvents); flushLogs() },
		func(r *result) { r.IDs, r.Count, r.Err = runQuery(index, qtext) },
		func(r *result) {
			r.AfterIDs, _, _ = runQuery(index, "*")
			_, r.AfterCount, _ = runQuery(index, "* | stats count")
		})
	return res
}

// prep: what is stored before the two threads start; query: the reader thread (fills the answer); after: the quiescent
// answers, once both threads have finished
func runScheduleGen(sched string, qtext string, prep func(), query func(*result), after func(*result)) result {
	res := result{Schedule: sched, Query: qtext, Feasible: true}
	prep()
	G.mu.Lock()
	G.enabled = true
	G.arrived = map[string]chan struct{}{"w": make(chan struct{}, 8), "r": make(chan struct{}, 8)}
	G.release = map[string]chan struct{}{"w": make(chan struct{}), "r": make(chan struct{})}
	G.mu.Unlock()
	wdone, rdone := make(chan struct{}), make(chan struct{})
	started := map[string]bool{}
	finished := map[string]bool{}
	startThread := func(th string) {
		if th == "w" {
			go func() {
				writerGIDv.Store(gid())
				writer.ForceRotateSegmentsForTest()
				writerGIDv.Store("")
				close(wdone)
			}()
		} else {
			go func() {
				readerActive.Store(true)
				query(&res)
				readerActive.Store(false)
				close(rdone)
			}()
		}
	}
	step := func(th string) bool {
		// let thread th run one step: until its next gate or its end
		done := wdone
		if th == "r" {
			done = rdone
		}
		if finished[th] {
			return true
		}
		if !started[th] {
			started[th] = true
			startThread(th)
		} else {
			G.release[th] <- struct{}{}
		}
		select {
		case <-G.arrived[th]:
			return true
		case <-done:
			finished[th] = true
			return true
		case <-time.After(1500 * time.Millisecond):
			return false // blocked on a lock held by the paused other thread: this interleaving cannot happen
		}
	}
	for i, c := range sched {
		if !step(string(c)) {
			res.Feasible = false
			res.Executed = sched[:i]
			break
		}
		res.Executed += string(c)
	}
	// drain: open all gates and wait for both
	G.mu.Lock()
	G.enabled = false
	G.mu.Unlock()
	for _, th := range []string{"w", "r"} {
		if !started[th] {
			started[th] = true
			startThread(th)
		}
	}
	drain := func(th string, done chan struct{}) {
		for {
			select {
			case <-done:
				return
			case G.release[th] <- struct{}{}:
			case <-G.arrived[th]:
			case <-time.After(20 * time.Second):
				res.Err += " [thread " + th + " did not finish]"
				return
			}
		}
	}
	drain("w", wdone)
	drain("r", rdone)
	// quiescent answers
	after(&res)
	return res
}

func intsEq(a, b []int) bool {
	if len(a) != len(b) {
		return false
	}
	for i := range a {
		if a[i] != b[i] {
			return false
		}
	}
	return true
}

func main() {
	log.SetLevel(log.PanicLevel)
	log.SetOutput(os.Stderr)
	if len(os.Args) > 1 && os.Args[1] == "locks" { // debugging aid: print the lock programs read from the source
		printLockPrograms()
		return
	}
	if len(os.Args) > 1 && os.Args[1] == "probe" { // debugging aid: the multi-block stage alone, with timing
		probeBlocks(os.Args[2:])
		return
	}
	if len(os.Args) > 1 && os.Args[1] == "evictworker" {
		evictWorker(os.Args[2:])
		return
	}
	if len(os.Args) > 1 && os.Args[1] == "pqworker" {
		pqWorker(os.Args[2:])
		return
	}
	if len(os.Args) > 1 && os.Args[1] == "churnworker" {
		churnWorker(os.Args[2:])
		return
	}
	cfg := vhlib.ParseFlags()
	sum := vhlib.NewSummary("one case = one forced interleaving of a segment rotation (4 steps) with a query (3 steps) on the real code, for a record query (`*`) and a statistics query (`* | stats count`); all 35 interleavings are enumerated (exhaustive at this granularity); an interleaving that blocks on a lock is recorded as infeasible; non-trivial = both threads take at least one step before the other finishes. Second stream (blocks.go): the same 35 interleavings on segments of B blocks under GOMAXPROCS = P for query shapes of every searcher route — time-ordered records (`*`), segment statistics (`* | stats count`), any-order records in front of a later stats command (`* | eval/where/fields/rename .. | stats count [by id]`, P in 2..4 (thorough: also 6/8/16), B drawn from {1, P-1, P, P+1, 2P, 2P+1, 3P}), and group-by statistics as first command (`* | stats count by id`); quick: every interleaving once per stream with shape/P/B drawn from the seed, thorough: every interleaving x every any-order shape x 4 values of P x 2 values of B; the free-running stress alternates `*` with an any-order by-id query")
	if err := initSiglens(cfg.Out + "/data"); err != nil {
		sum.HarnessError(err.Error())
		sum.Write(cfg.Out)
		return
	}
	if os.Getenv("C11_ONLY") == "evict" { // debugging aid: the memory-rebalancing streams alone
		evictStage(cfg, sum)
		sum.Write(cfg.Out)
		os.Exit(0)
	}
	if os.Getenv("C11_ONLY") == "pq" { // debugging aid: the persistent-query streams alone
		pqStart(cfg)(sum)
		sum.Write(cfg.Out)
		os.Exit(0)
	}
	// persistent queries across the hand-over (pq.go): the worker process runs beside the stages below
	var pqFinish func(*vhlib.Summary)
	if os.Getenv("VERIF_RACE_CHILD") == "" {
		pqFinish = pqStart(cfg)
	}
	installHooks()
	n := 0
	var cases []string
	queries := []string{"*", "* | stats count"}
	if os.Getenv("VERIF_RACE_CHILD") != "" {
		// the forced interleavings order their accesses through the pause points (channels), so the detector has
		// nothing to see there, and their 70 indexes cost ~15 GB under the detector: the instrumented child runs the
		// free-running parts only
		queries = nil
	}
	for _, q := range queries {
		for _, sched := range interleavings(4, 3) {
			n++
			index := fmt.Sprintf("ix%d", n)
			nEv := 3
			r := runSchedule(index, sched, q, nEv)
			want := []int{1, 2, 3}
			nontrivial := strings.Contains(strings.Trim(sched, "w"), "w") || strings.Contains(strings.Trim(sched, "r"), "r")
			sum.Eval(q+"/"+sched, nontrivial)
			sum.Count("query/" + q)
			if !r.Feasible {
				sum.Count("infeasible(blocked on a lock)")
			}
			c := map[string]interface{}{"schedule": sched, "query": q, "result": r, "legend": "w: rotation steps [segmeta.json entry | add to rotated metadata | remove from unrotated info | reset of the segstore]; r: query steps [snapshot unrotated | snapshot rotated | resolve+read]"}
			if r.Err != "" {
				sum.Fail("query_error_during_rotation", fmt.Sprintf("schedule %s query %q: %s", sched, q, r.Err), c)
			}
			if q == "*" {
				if len(r.IDs) > len(want) || hasDup(r.IDs) {
					sum.Fail("event_doubled_during_rotation", fmt.Sprintf("schedule %s: `*` returned %v for ingested %v", sched, r.IDs, want), c)
				} else if !intsEq(r.IDs, want) {
					sum.Fail("event_lost_during_rotation", fmt.Sprintf("schedule %s: `*` returned %v for ingested %v", sched, r.IDs, want), c)
				}
			} else {
				if r.Count > int64(nEv) {
					sum.Fail("stats_double_count_during_rotation", fmt.Sprintf("schedule %s: `stats count` = %d for %d events", sched, r.Count, nEv), c)
				} else if r.Count != int64(nEv) {
					sum.Fail("stats_undercount_during_rotation", fmt.Sprintf("schedule %s: `stats count` = %d for %d events", sched, r.Count, nEv), c)
				}
			}
			if !intsEq(r.AfterIDs, want) || r.AfterCount != int64(nEv) {
				sum.Fail("quiescent_state_differs_from_sequential", fmt.Sprintf("schedule %s: after quiescence `*`=%v count=%d", sched, r.AfterIDs, r.AfterCount), c)
			}
			if n%7 == 1 {
				sum.Sample(c)
			}
			// model case: schedule actually executed + what was observed of the segment's one block
			if r.Feasible {
				cases = append(cases, coqBlocksCase(blocksCase{sched, qshape{q, map[bool]int{true: 0, false: 1}[q == "*"], false}, runtime.GOMAXPROCS(0), 1, nEv},
					answer{IDs: r.IDs, Count: r.Count, Distinct: -1}))
			}
		}
	}
	if os.Getenv("VERIF_RACE_CHILD") == "" {
		// segments with several blocks, query shapes of all three searcher routes, GOMAXPROCS varied (blocks.go)
		cases = append(cases, blocksStage(cfg, sum)...)
	}
	for sh := 0; sh*400 < len(cases) || sh == 0; sh++ {
		part := cases[min(sh*400, len(cases)):min(sh*400+400, len(cases))]
		name := "cases_sched"
		if sh > 0 {
			name = fmt.Sprintf("cases_sched%d", sh)
		}
		defs := "Open Scope nat_scope.\nDefinition cases : list sched_case := " + vhlib.CoqListNL(part) + ".\n"
		sum.WriteCaseFile(cfg.Out, name, "From SigM Require Import Base Handover HandoverCheck.\n", defs, "check_sched_cases cases", len(part))
	}
	// the hooks stay installed (siglens background goroutines read them); without a marked writer / reader they do nothing
	if os.Getenv("VERIF_RACE_CHILD") == "" {
		lockProgramStage(cfg, sum)
		churnStage(cfg, sum)
		// memory rebalancing (eviction / reload of micro indexes) between flushes, rotations and searches (evict.go)
		evictStage(cfg, sum)
		pqFinish(sum)
	}
	endGuard := stageGuard(cfg, sum, "free-running stress and concurrent first ingest")
	stress(cfg, sum)
	concurrentFirstIngest(cfg, sum)
	endGuard()
	if os.Getenv("VERIF_RACE_CHILD") == "" {
		raceStage(cfg, sum)
	}
	sum.Write(cfg.Out)
	os.Exit(0)
}

// ---------- the same forced interleavings and stress under the Go race detector ----------
// work/bin/c11race is this program built with -race (lib/build_harness.sh c11 race).  It runs as a child with
// GORACE log_path; every report is reduced to the pair of innermost siglens functions of its two accesses.
// This is runtime observation (the clause "no data races" of the property), not a theorem.
var raceFuncRe = regexp.MustCompile(`^\s+(github\.com/siglens/siglens/[^\s(]+(?:\([^)]*\))?[^\s(]*)\(`)

func raceFrame(block []string) (string, string) {
	for i, l := range block {
		if m := raceFuncRe.FindStringSubmatch(l); m != nil {
			f := strings.TrimPrefix(m[1], "github.com/siglens/siglens/")
			// closures: keep the enclosing function
			for _, suf := range []string{".func", ".gowrap"} {
				if i := strings.Index(f, suf); i > 0 {
					f = f[:i]
				}
			}
			file := ""
			if i+1 < len(block) {
				file = strings.TrimSpace(block[i+1])
				if j := strings.Index(file, "pkg/"); j >= 0 {
					file = file[j:]
				}
				if j := strings.Index(file, ":"); j >= 0 {
					file = file[:j]
				}
			}
			return f, file
		}
	}
	return "", ""
}

// the files that implement what the Handover model describes: the open segment and its flush / rotation, the unrotated
// info, the rotated metadata list, the enumeration of both by a query.  A race whose WRITE is in one of these is judged;
// races elsewhere are counted in the evidence only (the unchanged tree has an open-ended set of them, see known/C11.json).
var handoverFiles = map[string]bool{
	"pkg/segment/writer/segstore.go": true, "pkg/segment/writer/segwriter.go": true, "pkg/segment/writer/unrotatedquery.go": true,
	"pkg/segment/writer/segmetarw.go": true, "pkg/segment/writer/packer.go": true, "pkg/segment/writer/suffix/suffix.go": true,
}

// pkg/segment/metadata/metadata.go holds the rotated list (judged: the functions below) next to the lazy loading of
// search metadata, which races on the unchanged tree (loadParallelSsm, seen in 1 of 27 runs) and is not judged.
var handoverFuncs = map[string]bool{
	"pkg/segment/metadata.BulkAddSegmentMicroIndex": true, "pkg/segment/metadata.AddSegMetaToMetadata": true,
	"pkg/segment/metadata.(*allSegmentMetadata).bulkAddSegmentMicroIndex": true,
	"pkg/segment/metadata.(*allSegmentMetadata).deleteSegmentKey":         true, "pkg/segment/metadata.(*allSegmentMetadata).deleteSegmentKeyWithLock": true,
	"pkg/segment/metadata.(*allSegmentMetadata).deleteTable": true, "pkg/segment/metadata.DeleteSegmentKey": true,
	"pkg/segment/metadata.DeleteVirtualTable": true, "pkg/segment/metadata.GetAllSegmentMicroIndex": true,
	// the enumeration of open and rotated segments by a query (pkg/segment/query/segquery.go)
	"pkg/segment/query.getAllSegmentsInQuery": true, "pkg/segment/query.getAllUnrotatedSegments": true,
	"pkg/segment/query.getAllRotatedSegmentsInQuery": true, "pkg/segment/query.getAllSegmentsInAggs": true,
	"pkg/segment/query.getAllUnrotatedSegmentsInAggs": true, "pkg/segment/query.getAllRotatedSegmentsInAggs": true,
	"pkg/segment/query.getRotatedSegments": true, "pkg/segment/query.GetSSRsFromQSR": true,
	"pkg/segment/query.FilterSegKeysToQueryResults": true, "pkg/segment/query.FilterAggSegKeysToQueryResults": true,
	"pkg/segment/query.ConvertSegKeysToQueryRequests": true, "pkg/segment/query.filterUnrotatedSegKeysToQueryRequests": true,
}

// one entry per distinct (writer functions, other function) combination
type raceRep struct {
	Writers []string // innermost siglens function of every WRITE access of the report ("(harness)" if none of siglens)
	WFiles  []string // their source files
	Other   string   // the reading side, if one access is a read
	Text    string
}

func parseRaceLogs(glob string) (reps map[string]raceRep, harnessOnly int) {
	reps = map[string]raceRep{}
	files, _ := filepath.Glob(glob)
	for _, fn := range files {
		b, err := os.ReadFile(fn)
		if err != nil {
			continue
		}
		for _, rep := range strings.Split(string(b), "WARNING: DATA RACE")[1:] {
			if i := strings.Index(rep, "=================="); i >= 0 {
				rep = rep[:i]
			}
			// sections are separated by blank lines: access 1, access 2 ("Previous ..."), then goroutine creation stacks
			var r raceRep
			n, siglens := 0, 0
			for _, sec := range strings.Split(rep, "\n\n") {
				t := strings.ToLower(strings.TrimSpace(sec))
				isW := strings.HasPrefix(t, "write at") || strings.HasPrefix(t, "previous write at") || strings.HasPrefix(t, "atomic write at") || strings.HasPrefix(t, "previous atomic write at")
				isR := strings.HasPrefix(t, "read at") || strings.HasPrefix(t, "previous read at") || strings.HasPrefix(t, "atomic read at") || strings.HasPrefix(t, "previous atomic read at")
				if !isW && !isR {
					continue
				}
				n++
				f, file := raceFrame(strings.Split(sec, "\n"))
				if f != "" {
					siglens++
				} else {
					f = "(harness)"
				}
				if isW {
					r.Writers = append(r.Writers, f)
					r.WFiles = append(r.WFiles, file)
				} else {
					r.Other = f
				}
			}
			if n < 2 || siglens == 0 {
				harnessOnly++
				continue
			}
			if len(r.Writers) == 2 && r.Writers[0] > r.Writers[1] {
				r.Writers[0], r.Writers[1] = r.Writers[1], r.Writers[0]
				r.WFiles[0], r.WFiles[1] = r.WFiles[1], r.WFiles[0]
			}
			key := strings.Join(r.Writers, " & ") + " | " + r.Other
			if _, ok := reps[key]; !ok {
				lines := strings.Split(strings.TrimSpace(rep), "\n")
				if len(lines) > 14 {
					lines = lines[:14]
				}
				r.Text = strings.Join(lines, "\n")
				reps[key] = r
			}
		}
	}
	return
}

func raceStage(cfg vhlib.Config, sum *vhlib.Summary) {
	self, _ := os.Executable()
	bin := filepath.Join(filepath.Dir(self), "c11race")
	if _, err := os.Stat(bin); err != nil {
		sum.HarnessError("race-detector build of the harness not found: " + bin)
		return
	}
	dir := filepath.Join(cfg.Out, "race")
	_ = os.RemoveAll(dir)
	_ = os.MkdirAll(dir, 0o755)
	// Three children run side by side; a writer class is judged only when at least two of them report it.
	// The unchanged tree has rare, timing-dependent races even in these files (one showed once in ~40 runs); an
	// unsynchronised access introduced by a change (a removed lock) shows in every run.
	runs := 3
	var wg sync.WaitGroup
	okRun := make([]bool, runs)
	var emu sync.Mutex
	for i := 0; i < runs; i++ {
		wg.Add(1)
		go func(i int) {
			defer wg.Done()
			for try := 0; try < 3 && !okRun[i]; try++ {
				cmd := exec.Command(bin, "--tier", cfg.Tier, "--seed", fmt.Sprint(cfg.Seed+uint64(i)), "--out", filepath.Join(dir, fmt.Sprintf("run%d", i)))
				cmd.Env = append(os.Environ(), "VERIF_RACE_CHILD=1", "GORACE=halt_on_error=0 history_size=5 log_path="+filepath.Join(dir, fmt.Sprintf("racelog%d", i)))
				out, err := cmd.CombinedOutput()
				_ = os.WriteFile(filepath.Join(dir, fmt.Sprintf("run%d.out", i)), out, 0o644)
				if err == nil {
					okRun[i] = true
					break
				}
				if ee, isExit := err.(*exec.ExitError); isExit && ee.ExitCode() == 66 { // 66 = races were reported
					okRun[i] = true
					break
				}
				// limits of the race runtime in this sandbox (not behaviour of the code under test): try again
				if strings.Contains(string(out), "too many address space collisions for -race mode") || strings.Contains(string(out), "out of memory") ||
					strings.Contains(string(out), "ThreadSanitizer: failed to") {
					sum.Count("race/child_retried(race runtime ran out of address space)")
					for _, f := range func() []string { fs, _ := filepath.Glob(filepath.Join(dir, fmt.Sprintf("racelog%d.*", i))); return fs }() {
						_ = os.Remove(f)
					}
					continue
				}
				// killed (memory) or any other abnormal end of the instrumented child: the same scenarios ran in this
				// process without the detector and were judged there; the race stage of this child is inconclusive
				emu.Lock()
				sum.Count("race/child_abnormal_end(retried): " + err.Error())
				emu.Unlock()
				for _, f := range func() []string { fs, _ := filepath.Glob(filepath.Join(dir, fmt.Sprintf("racelog%d.*", i))); return fs }() {
					_ = os.Remove(f)
				}
			}
		}(i)
	}
	wg.Wait()
	conclusive := 0
	for i := range okRun {
		if okRun[i] {
			conclusive++
		}
	}
	sum.Count(fmt.Sprintf("race/children_conclusive=%d_of_%d", conclusive, runs))
	// per child: the set of judged writer classes
	seenIn := map[string]int{}
	example := map[string]raceRep{}
	all := map[string]bool{}
	for i := 0; i < runs; i++ {
		reps, _ := parseRaceLogs(filepath.Join(dir, fmt.Sprintf("racelog%d.*", i)))
		classes := map[string]bool{}
		for k, r := range reps {
			all[k] = true
			w := ""
			for j, x := range r.Writers {
				if handoverFiles[r.WFiles[j]] || handoverFuncs[x] {
					w = x
					break
				}
			}
			if w == "" {
				sum.Count("race/outside_the_handover_code(counted, not judged)/" + r.Writers[0])
				continue
			}
			classes[w] = true
			if _, ok := example[w]; !ok {
				example[w] = r
			}
		}
		for w := range classes {
			seenIn[w]++
		}
	}
	sum.Count(fmt.Sprintf("race/distinct_reports=%d", len(all)))
	ws := make([]string, 0, len(seenIn))
	for w := range seenIn {
		ws = append(ws, w)
	}
	sort.Strings(ws)
	for _, w := range ws {
		r := example[w]
		sum.Eval("race/"+w, true)
		if seenIn[w] < 2 {
			sum.Count("race/in_handover_code_but_seen_in_one_child_only(not judged)/" + w)
			continue
		}
		sum.Fail("data_race_in_handover_code: "+w, fmt.Sprintf("the race detector reports (in %d of %d runs) an unsynchronised write in %s", seenIn[w], runs, strings.Join(r.Writers, " and "))+
			map[bool]string{true: " against a read in " + r.Other, false: ""}[r.Other != ""]+" during concurrent ingest / flush / rotation / search",
			map[string]interface{}{"writers": r.Writers, "files": r.WFiles, "other_access": r.Other, "report": r.Text, "runs_with_this_report": seenIn[w]})
	}
}

func tail(s string, n int) string {
	if len(s) > n {
		return s[len(s)-n:]
	}
	return s
}

// ---------- free-running stress (random real interleavings; observed, not forced) ----------
// W writers, each on its own index: ingest 2 events, flush, publish the count of flushed events,
// rotate every few rounds.  R readers: read the published count c of an index, run `*`,
// check: no id twice, ids 1..c all present (flushed before the query began), nothing beyond what was ingested.
func stress(cfg vhlib.Config, sum *vhlib.Summary) {
	W, rounds, R := 3, 12, 4
	if cfg.Thorough() {
		W, rounds, R = 4, 60, 8
	}
	flushed := make([]int64, W)
	ingested := make([]int64, W)
	var mu sync.Mutex
	var wg sync.WaitGroup
	stop := make(chan struct{})
	var flushMu sync.Mutex // FlushWipBufferToFile/ForceRotate are process-wide; serialise the harness's own calls
	for w := 0; w < W; w++ {
		wg.Add(1)
		go func(w int) {
			defer wg.Done()
			index := fmt.Sprintf("st%d", w)
			next := 1
			for i := 0; i < rounds; i++ {
				ingest(index, next, 2)
				next += 2
				mu.Lock()
				ingested[w] = int64(next - 1)
				mu.Unlock()
				flushMu.Lock()
				flushLogs()
				// after a completed flush everything ingested so far BY THIS writer before the flush call is flushed;
				// other writers' events may be flushed too (harmless for the lower bound)
				mu.Lock()
				flushed[w] = int64(next - 1)
				mu.Unlock()
				if i%4 == 3 {
					writer.ForceRotateSegmentsForTest()
				}
				flushMu.Unlock()
			}
		}(w)
	}
	var rg sync.WaitGroup
	for r := 0; r < R; r++ {
		rg.Add(1)
		go func(r int) {
			defer rg.Done()
			k := 0
			for {
				select {
				case <-stop:
					return
				default:
				}
				w := (r + k) % W
				k++
				index := fmt.Sprintf("st%d", w)
				mu.Lock()
				lo := flushed[w]
				mu.Unlock()
				// every second search takes the route of a pipeline split into parallel chains (any-order searcher); its
				// answer (one row per id with its count) is read as a list of ids
				qtext := "*"
				var ids []int
				var errs string
				if k%2 == 0 {
					sh := qshape{"* | eval one=1 | stats count AS c by id", 2, true}
					qtext = sh.Text
					a := runQueryAns(index, sh)
					errs = a.Err
					for id, n := range a.Rows {
						for i := int64(0); i < n && i < 4; i++ {
							ids = append(ids, id)
						}
					}
					sort.Ints(ids)
				} else {
					ids, _, errs = runQuery(index, "*")
				}
				mu.Lock()
				hi := ingested[w]
				mu.Unlock()
				sum.Eval(fmt.Sprintf("stress/%d/%d", r, k), true)
				sum.Count("stress/queries")
				sum.Count("stress/query/" + qtext)
				c := map[string]interface{}{"index": index, "query": qtext, "flushed_before_query": lo, "ingested_after_query": hi, "ids": ids}
				if errs != "" {
					sum.Fail("query_error_during_concurrent_ingest", errs, c)
				}
				if hasDup(ids) {
					sum.Fail("event_doubled_during_concurrent_ingest", fmt.Sprintf("index %s: %v", index, ids), c)
				}
				have := map[int]bool{}
				for _, id := range ids {
					have[id] = true
					if int64(id) > hi {
						sum.Fail("event_invented_during_concurrent_ingest", fmt.Sprintf("index %s: id %d returned, only %d ingested", index, id, hi), c)
					}
				}
				for id := 1; int64(id) <= lo; id++ {
					if !have[id] {
						sum.Fail("event_lost_during_concurrent_ingest", fmt.Sprintf("index %s: id %d flushed before the query began is missing (flushed %d, got %d ids)", index, id, lo, len(ids)), c)
						break
					}
				}
			}
		}(r)
	}
	wg.Wait()
	close(stop)
	rg.Wait()
	// quiescent: equals the sequential outcome
	flushLogs()
	for w := 0; w < W; w++ {
		index := fmt.Sprintf("st%d", w)
		ids, _, _ := runQuery(index, "*")
		want := int(ingested[w])
		ok := len(ids) == want && !hasDup(ids)
		for i, id := range ids {
			ok = ok && id == i+1
		}
		if !ok {
			sum.Fail("quiescent_state_differs_from_sequential", fmt.Sprintf("index %s after all activity: %d ids, want 1..%d", index, len(ids), want), map[string]interface{}{"index": index, "ids": ids})
		}
	}
}

func hasDup(a []int) bool {
	for i := 1; i < len(a); i++ {
		if a[i] == a[i-1] {
			return true
		}
	}
	return false
}

func schedCoq(s string) string {
	var it []string
	for _, c := range s {
		if c == 'w' {
			it = append(it, "W")
		} else {
			it = append(it, "R")
		}
	}
	return vhlib.CoqList(it)
}

// ---------- several ingesters start on the SAME new index at the same moment ----------
// "once activity stops the stored contents equal what a sequential execution of the same ingests would give":
// K goroutines are released together, each sends its own ids to an index nobody has written to yet; after they
// return and a flush, every acknowledged id must be searchable exactly once, also after a rotation.
func concurrentFirstIngest(cfg vhlib.Config, sum *vhlib.Summary) {
	// every round needs a fresh index, and every open index costs the writer tens of MB of block buffers
	// (ten times that under the race detector): keep the number of rounds small
	rounds, K, per := 4, 6, 5
	if cfg.Thorough() {
		rounds, K, per = 12, 8, 5
	}
	if os.Getenv("VERIF_RACE_CHILD") != "" {
		rounds = 2
	}
	if v := os.Getenv("C11_FIRST_INGEST_ROUNDS"); v != "" {
		fmt.Sscanf(v, "%d", &rounds)
	}
	for r := 0; r < rounds; r++ {
		index := fmt.Sprintf("cf%d", r)
		start := make(chan struct{})
		var wg sync.WaitGroup
		for g := 0; g < K; g++ {
			wg.Add(1)
			go func(g int) {
				defer wg.Done()
				<-start
				ingest(index, 1+g*per, per)
			}(g)
		}
		// starting gate: while the segstore table is write-locked every ingester blocks in its lookup of the (new)
		// stream; on release they all look it up at the same moment
		release := writer.VerifHoldAllSegStores()
		close(start)
		time.Sleep(60 * time.Millisecond)
		release()
		wg.Wait()
		flushLogs()
		check := func(stage string) {
			ids, _, errs := runQuery(index, "*")
			sum.Eval(fmt.Sprintf("firstingest/%d/%s", r, stage), true)
			sum.Count("firstingest/" + stage)
			c := map[string]interface{}{"index": index, "ingesters": K, "events_each": per, "stage": stage, "ids": ids}
			if errs != "" {
				sum.Fail("query_error_after_concurrent_first_ingest", errs, c)
				return
			}
			have := map[int]int{}
			for _, id := range ids {
				have[id]++
			}
			missing, dup := 0, 0
			for id := 1; id <= K*per; id++ {
				if have[id] == 0 {
					missing++
				}
				if have[id] > 1 {
					dup++
				}
			}
			if missing > 0 || dup > 0 || len(have) != K*per {
				sum.Fail("acknowledged_events_lost_after_concurrent_first_ingest", fmt.Sprintf("%d ingesters x %d events into the new index %s at the same moment, %s: %d of %d ids missing, %d doubled (a sequential execution stores all of them once)",
					K, per, index, stage, missing, K*per, dup), c)
			}
		}
		check("after flush")
		if r%3 == 2 {
			writer.ForceRotateSegmentsForTest()
			check("after rotation")
		}
	}
}

package main

// pq.go — persistent queries across the open -> rotated hand-over: "a query registered as persistent returns the same
// events before and after the rotation, for every pattern of matching / non-matching blocks".
//
// One case = one op stream on a fresh index, run on the real code in a worker process (PQS is on in the testing
// configuration).  The index is created and every tracked query is asked ONCE on the still empty index: from then on
// it is a persistent query of the table, every segment created later evaluates it at ingest, every buffer flush
// appends the block's match bits to <segkey>/pqmr/<pqid>.pqmr and updates SegStore.pqNonEmptyResults[pqid].
//
//	F(L) ingest 1-3 events with b=batch-L + FlushWipBufferToFile   (one more block of the open segment; L in 1..3:
//	                                                                 a block matches `b=batch-1` iff L = 1, ...)
//	R    writer.ForceRotateSegmentsForTest, then ONE pass of the writer's persistent-query listener (hook
//	     VerifC11DrainPqsChan = what listenBackFillAndEmptyPQSRequests does on its 10 s tick); the worker then reports,
//	     per tracked query, the bookkeeping of the newest rotated segment: pqmr file exists, segment is on the query's
//	     persisted empty-segments list (which applyFopAllRequests skips)
//	Q    a tracked query through one of three routes: records (`b=batch-1`), segment statistics (`.. | stats count AS c`),
//	     group-by statistics (`.. | stats count AS c BY w` -> fetchGroupByResults -> applyFopAllRequests = the planner
//	     that consults the empty-segments list)
//
// Oracle (property text): every search returns every matching event of every block flushed before it, once - while the
// segment is open and after it was rotated.  coq/model/PqFlagCheck.v replays the stream on the model (PqFlag.v) and
// compares every answer and the bookkeeping after every rotation.

import (
	"bufio"
	"encoding/json"
	"fmt"
	"os"
	"os/exec"
	"path/filepath"
	"sort"
	"strings"
	"time"

	"github.com/siglens/siglens/pkg/ast/pipesearch"
	eswriter "github.com/siglens/siglens/pkg/es/writer"
	"github.com/siglens/siglens/pkg/querytracker"
	"github.com/siglens/siglens/pkg/segment/pqmr"
	"github.com/siglens/siglens/pkg/segment/query"
	pqsmeta "github.com/siglens/siglens/pkg/segment/query/pqs/meta"
	"github.com/siglens/siglens/pkg/segment/writer"
	vtable "github.com/siglens/siglens/pkg/virtualtable"

	"verifharness/vhlib"
)

type pqOp struct {
	K     string `json:"k"`               // F | R | Q
	L     int    `json:"l,omitempty"`     // F: label of the block (b=batch-L)
	N     int    `json:"n,omitempty"`     // F: events
	T     int    `json:"t,omitempty"`     // Q: index of the tracked query
	Route string `json:"route,omitempty"` // Q: filter | count | groupby
	Text  string `json:"text,omitempty"`
	Want  []int  `json:"want,omitempty"`
}
type pqCaseT struct {
	Name    string   `json:"name"`
	Tracked []string `json:"tracked"` // asked on the empty index first
	Ops     []pqOp   `json:"ops"`
}
type pqBook struct {
	T       int  `json:"t"`
	Tracked bool `json:"query_listed_in_segmeta"`
	HasPqmr bool `json:"pqmr_file_exists"`
	Empty   bool `json:"on_empty_segments_list"`
}
type pqObsT struct {
	Op      int      `json:"op"`
	IDs     []int    `json:"ids"`
	Count   int64    `json:"count"`
	Err     string   `json:"err,omitempty"`
	NSegs   int      `json:"rotated_segments"`
	Drained int      `json:"listener_requests"`
	Books   []pqBook `json:"books,omitempty"`
}
type pqResult struct {
	I    int      `json:"i"`
	Pqid []string `json:"pqids"`
	Obs  []pqObsT `json:"obs"`
}

func pqidOf(text string) string {
	node, _, _, err := pipesearch.ParseQuery(text, 1, "Splunk QL")
	if err != nil || node == nil {
		return ""
	}
	sn := query.ConvertASTNodeToSearchNode(node, 1)
	if sn == nil {
		return ""
	}
	return querytracker.GetHashForQuery(sn)
}

// ---------- worker ----------
func pqWorker(args []string) {
	dir, casesFile := args[0], args[1]
	start := 0
	fmt.Sscanf(args[2], "%d", &start)
	b, err := os.ReadFile(casesFile)
	if err != nil {
		fmt.Println("cannot read cases:", err)
		os.Exit(3)
	}
	var cases []pqCaseT
	if err := json.Unmarshal(b, &cases); err != nil {
		fmt.Println("cannot parse cases:", err)
		os.Exit(3)
	}
	if err := initSiglens(filepath.Join(dir, fmt.Sprintf("data%d", start))); err != nil {
		fmt.Println("init:", err)
		os.Exit(3)
	}
	out, _ := os.OpenFile(filepath.Join(dir, "results.jsonl"), os.O_APPEND|os.O_CREATE|os.O_WRONLY, 0o644)
	for i := start; i < len(cases); i++ {
		c := cases[i]
		index := fmt.Sprintf("pq%d", i)
		res := pqResult{I: i}
		_ = vtable.AddVirtualTable(&index, 0)
		for _, t := range c.Tracked {
			_, _, _ = runQuery(index, t) // asked before the first event arrives: a persistent query of the table from now on
			res.Pqid = append(res.Pqid, pqidOf(t))
		}
		next := 1
		for j, o := range c.Ops {
			_ = os.WriteFile(filepath.Join(dir, "progress"), []byte(fmt.Sprintf("%d %d", i, j)), 0o644)
			switch o.K {
			case "F":
				var sb strings.Builder
				for x := 0; x < o.N; x++ {
					id := next + x
					fmt.Fprintf(&sb, `{"index":{"_index":"%s"}}`+"\n"+`{"id":%d,"w":"w%d","b":"batch-%d","timestamp":%d}`+"\n", index, id, id%3, o.L, 1700000000000+uint64(id)*1000)
				}
				_, _, _ = eswriter.HandleBulkBody([]byte(sb.String()), nil, 0, 0, false)
				next += o.N
				flushLogs()
			case "R":
				writer.ForceRotateSegmentsForTest()
				ob := pqObsT{Op: j}
				ob.Drained = writer.VerifC11DrainPqsChan(25)
				var newest string
				var newestMs uint64
				allPq := map[string]bool{}
				for _, m := range writer.ReadLocalSegmeta(true) {
					if m.VirtualTableName != index {
						continue
					}
					ob.NSegs++
					if newest == "" || m.EarliestEpochMS > newestMs {
						newest, newestMs, allPq = m.SegmentKey, m.EarliestEpochMS, m.AllPQIDs
					}
				}
				if newest != "" {
					for t, pqid := range res.Pqid {
						empty, _ := pqsmeta.GetAllEmptySegmentsForPqid(pqid)
						_, ferr := os.Stat(pqmr.GetPQMRFileNameFromSegKey(newest, pqid))
						ob.Books = append(ob.Books, pqBook{T: t, Tracked: allPq[pqid], HasPqmr: ferr == nil, Empty: empty[newest]})
					}
				}
				res.Obs = append(res.Obs, ob)
			case "Q":
				ob := pqObsT{Op: j}
				kind := 1
				if o.Route == "groupby" {
					kind = 3
				}
				a := runQueryAns(index, qshape{Text: o.Text, Kind: kind})
				ob.IDs, ob.Count, ob.Err = a.IDs, a.Count, a.Err
				res.Obs = append(res.Obs, ob)
			}
		}
		// the index is not used again (see blocks.go)
		writer.ForceRotateSegmentsForTest()
		_ = writer.VerifC11DrainPqsChan(5)
		writer.DeleteVirtualTableSegStore(index)
		line, _ := json.Marshal(res)
		_, _ = out.Write(append(line, '\n'))
		_ = out.Sync()
	}
	out.Close()
	os.Exit(0)
}

// ---------- generator ----------
type pqTrackedQ struct {
	Text  string
	Match func(id, label int) bool
}

var pqTracked = []pqTrackedQ{
	{"b=batch-1", func(id, l int) bool { return l == 1 }},
	{"b=batch-2", func(id, l int) bool { return l == 2 }},
	{"w=w0", func(id, l int) bool { return id%3 == 0 }},
}

type pqEv struct{ id, label int }

func pqGenerate(cfg vhlib.Config) []pqCaseT {
	rng := vhlib.NewRng(cfg.Seed ^ 0x9f1a6)
	var cases []pqCaseT
	tracked := make([]string, len(pqTracked))
	for i, t := range pqTracked {
		tracked[i] = t.Text
	}
	routes := []string{"filter", "count", "groupby"}
	build := func(name string, seq []string, allRoutes bool) {
		r := rng.Fork()
		c := pqCaseT{Name: name, Tracked: tracked}
		var evs []pqEv
		ask := func(t int, route string) {
			q := pqOp{K: "Q", T: t, Route: route, Text: pqTracked[t].Text, Want: []int{}}
			switch route {
			case "count":
				q.Text += " | stats count AS c"
			case "groupby":
				q.Text += " | stats count AS c BY w"
			}
			for _, e := range evs {
				if pqTracked[t].Match(e.id, e.label) {
					q.Want = append(q.Want, e.id)
				}
			}
			c.Ops = append(c.Ops, q)
		}
		for _, k := range seq {
			if k == "R" {
				c.Ops = append(c.Ops, pqOp{K: "R"})
			} else {
				l := 0
				fmt.Sscanf(k, "F%d", &l)
				n := r.Range(1, 3)
				for x := 0; x < n; x++ {
					evs = append(evs, pqEv{len(evs) + 1, l})
				}
				c.Ops = append(c.Ops, pqOp{K: "F", L: l, N: n})
			}
			for t := range pqTracked {
				if allRoutes {
					for _, ro := range routes {
						ask(t, ro)
					}
					continue
				}
				// the planner route for every tracked query, one of the other routes for one of them
				ask(t, "groupby")
			}
			if !allRoutes {
				ask(r.Intn(len(pqTracked)), routes[r.Intn(2)])
			}
		}
		cases = append(cases, c)
	}
	// (1) small scope, exhaustive: every sequence over {F1, F2, R} (a block that matches `b=batch-1` / one that does not,
	// rotation) up to the length bound, starting with a flush and closed by a rotation
	maxLen := 3
	if cfg.Thorough() {
		maxLen = 5
	}
	alpha := []string{"F1", "F2", "R"}
	var rec func(cur []string)
	rec = func(cur []string) {
		if cur[len(cur)-1] != "R" { // (a sequence ending in R is the closed form of its prefix)
			build("seq:"+strings.Join(cur, ",")+",R", append(append([]string{}, cur...), "R"), cfg.Thorough())
		}
		if len(cur) == maxLen {
			return
		}
		for _, a := range alpha {
			if a == "R" && cur[len(cur)-1] == "R" {
				continue
			}
			rec(append(append([]string{}, cur...), a))
		}
	}
	rec([]string{"F1"})
	rec([]string{"F2"})
	// (2) longer random streams, three labels
	nr := 10
	if cfg.Thorough() {
		nr = 200
	}
	full := []string{"F1", "F2", "F3", "F1", "F2", "F3", "R"}
	for i := 0; i < nr; i++ {
		s := []string{full[rng.Intn(3)]}
		ln := rng.Range(4, 8)
		for len(s) < ln {
			s = append(s, full[rng.Intn(len(full))])
		}
		s = append(s, "R")
		build(fmt.Sprintf("rnd%d:%s", i, strings.Join(s, ",")), s, i%3 == 0)
	}
	return cases
}

// ---------- stage ----------
func pqHistory(c pqCaseT, upto int) string {
	var p []string
	for j, o := range c.Ops {
		if j > upto {
			break
		}
		switch o.K {
		case "F":
			p = append(p, fmt.Sprintf("F(%d events b=batch-%d)", o.N, o.L))
		case "R":
			p = append(p, "R")
		case "Q":
			if j == upto {
				p = append(p, "Q["+o.Text+"]")
			}
		}
	}
	return "tracked before ingest {" + strings.Join(c.Tracked, "; ") + "} " + strings.Join(p, " ")
}

// pqStart launches the worker(s) in the background (own process, own data directory); the returned function waits for
// them, judges the answers and writes the Coq case file.
func pqStart(cfg vhlib.Config) func(sum *vhlib.Summary) {
	self, _ := os.Executable()
	dir := filepath.Join(cfg.Out, "pq")
	_ = os.RemoveAll(dir)
	_ = os.MkdirAll(dir, 0o755)
	cases := pqGenerate(cfg)
	if only := os.Getenv("C11_PQ_MAX"); only != "" {
		n := 0
		fmt.Sscanf(only, "%d", &n)
		if n < len(cases) {
			cases = cases[:n]
		}
	}
	cb, _ := json.Marshal(cases)
	casesFile := filepath.Join(dir, "cases.json")
	_ = os.WriteFile(casesFile, cb, 0o644)

	results := map[int]*pqResult{}
	crashed := map[int]string{}
	var harnessErr string
	launches := 0
	finished := make(chan struct{})
	go func() {
		defer close(finished)
		readResults := func() {
			f, err := os.Open(filepath.Join(dir, "results.jsonl"))
			if err != nil {
				return
			}
			defer f.Close()
			sc := bufio.NewScanner(f)
			sc.Buffer(make([]byte, 1<<20), 1<<26)
			for sc.Scan() {
				var r pqResult
				if json.Unmarshal(sc.Bytes(), &r) == nil {
					rr := r
					results[r.I] = &rr
				}
			}
		}
		start := 0
		for start < len(cases) && launches < 25 {
			launches++
			cmd := exec.Command(self, "pqworker", dir, casesFile, fmt.Sprint(start))
			logName := filepath.Join(dir, fmt.Sprintf("worker%d.out", launches))
			logf, _ := os.Create(logName)
			cmd.Stdout, cmd.Stderr = logf, logf
			if err := cmd.Start(); err != nil {
				harnessErr = "pq stage: cannot start the worker: " + err.Error()
				return
			}
			done := make(chan error, 1)
			go func() { done <- cmd.Wait() }()
			limit := 240 * time.Second
			if cfg.Thorough() {
				limit = 1200 * time.Second
			}
			timedOut := false
			select {
			case <-done:
			case <-time.After(limit):
				timedOut = true
				_ = cmd.Process.Kill()
				<-done
			}
			logf.Close()
			readResults()
			first := start
			for first < len(cases) && results[first] != nil {
				first++
			}
			if first >= len(cases) {
				break
			}
			pb, _ := os.ReadFile(filepath.Join(dir, "progress"))
			pi, pj := -1, -1
			fmt.Sscanf(string(pb), "%d %d", &pi, &pj)
			ob, _ := os.ReadFile(logName)
			what := tail(string(ob), 1800)
			if timedOut {
				what = "no answer within " + limit.String() + " (worker killed)"
			}
			if pi != first {
				pj = -1
			}
			crashed[first] = fmt.Sprintf("%d\x00%s", pj, what)
			start = first + 1
		}
	}()

	return func(sum *vhlib.Summary) {
		<-finished
		if harnessErr != "" {
			sum.HarnessError(harnessErr)
			return
		}
		var coq []string
		legend := "tracked queries are asked once on the empty index (persistent from then on); F ingest+flush = one block of the open segment (events id=1.., w=w<id%3>, b=batch-<label>); R writer.ForceRotateSegmentsForTest + one pass of the writer's persistent-query listener (what its 10 s ticker does); Q the tracked query through the named route"
		for i, c := range cases {
			if cr, ok := crashed[i]; ok {
				parts := strings.SplitN(cr, "\x00", 2)
				pj := -1
				fmt.Sscanf(parts[0], "%d", &pj)
				sum.Fail("crash_in_persistent_query_stream", fmt.Sprintf("fresh index, %s: the worker process died: %s", pqHistory(c, pj), firstLineWith(parts[1], "panic")),
					map[string]interface{}{"case": c.Name, "ops": c.Ops, "worker_died_in_op": pj, "worker_output": parts[1], "legend": legend})
				sum.Count("pq/case_crashed")
				continue
			}
			r := results[i]
			if r == nil {
				sum.Count("pq/case_not_run")
				continue
			}
			obs := map[int]pqObsT{}
			for _, o := range r.Obs {
				obs[o.Op] = o
			}
			var items []string
			var evs []pqEv
			rotated, lastNoMatchRot := false, false
			lastBlockLabel, segLabels := 0, []int{}
			wantOf := func(t int) []int {
				w := []int{}
				for _, e := range evs {
					if pqTracked[t].Match(e.id, e.label) {
						w = append(w, e.id)
					}
				}
				return w
			}
			for j, o := range c.Ops {
				switch o.K {
				case "F":
					ids := []int{}
					for x := 0; x < o.N; x++ {
						evs = append(evs, pqEv{len(evs) + 1, o.L})
						ids = append(ids, len(evs))
					}
					lastBlockLabel = o.L
					segLabels = append(segLabels, o.L)
					items = append(items, "PF "+evCoqList(ids))
				case "R":
					items = append(items, "PR", "PL")
					ob, ok := obs[j]
					if len(segLabels) > 0 {
						rotated = true
						// a segment with >= 2 blocks whose last block lacks a label that an earlier block has
						for _, l := range segLabels[:len(segLabels)-1] {
							if l != lastBlockLabel {
								lastNoMatchRot = true
							}
						}
					}
					segLabels = nil
					if !ok || ob.NSegs == 0 {
						continue
					}
					sum.Count(fmt.Sprintf("pq/listener_requests_per_pass=%d", min(ob.Drained, 4)))
					for _, bk := range ob.Books {
						if !bk.Tracked {
							sum.HarnessError(fmt.Sprintf("pq stream %s: query `%s` was asked on the empty index but the rotated segment does not list it as a persistent query", c.Name, c.Tracked[bk.T]))
						}
						sum.Count(fmt.Sprintf("pq/books/pqmr=%v,on_empty_list=%v", bk.HasPqmr, bk.Empty))
						items = append(items, fmt.Sprintf("PBooks %s %d%%nat (%s, %s)", evCoqList(wantOf(bk.T)), ob.NSegs, evCoqBool(bk.HasPqmr), evCoqBool(bk.Empty)))
					}
				case "Q":
					ob, ok := obs[j]
					if !ok {
						continue
					}
					sum.Count("pq/route/" + o.Route)
					where := "of_open_segment"
					if rotated {
						where = "after_rotation"
						sum.Count("pq/search_after_a_rotation")
					}
					hist := pqHistory(c, j)
					cj := map[string]interface{}{"case": c.Name, "ops_up_to_the_search": hist, "query": o.Text, "expected_ids": o.Want, "observed": ob, "ops": c.Ops[:j+1], "legend": legend}
					route := map[string]string{"filter": "record", "count": "statistics", "groupby": "groupby"}[o.Route]
					base := "persistent_query_" + route + "_search_" + where
					if o.Route == "filter" {
						got := append([]int{}, ob.IDs...)
						sort.Ints(got)
						switch {
						case ob.Err != "":
							sum.Fail("query_error_in_"+base, fmt.Sprintf("%s: %s", hist, ob.Err), cj)
						case hasDup(got):
							sum.Fail("event_doubled_in_"+base, fmt.Sprintf("%s: returned %v, expected %v", hist, got, o.Want), cj)
						case !intsEq(got, o.Want):
							set := map[int]bool{}
							for _, x := range got {
								set[x] = true
							}
							missing := false
							for _, x := range o.Want {
								if !set[x] {
									missing = true
								}
							}
							if missing {
								sum.Fail("flushed_event_missing_from_"+base, fmt.Sprintf("%s: returned %v, expected %v (all flushed before the search began)", hist, got, o.Want), cj)
							} else {
								sum.Fail("event_not_matching_returned_by_"+base, fmt.Sprintf("%s: returned %v, expected %v", hist, got, o.Want), cj)
							}
						}
						items = append(items, fmt.Sprintf("PObs false %s %s None", evCoqList(o.Want), evCoqList(got)))
					} else {
						want, cnt := int64(len(o.Want)), max(ob.Count, 0)
						switch {
						case ob.Err != "":
							sum.Fail("query_error_in_"+base, fmt.Sprintf("%s: %s", hist, ob.Err), cj)
						case cnt < want:
							sum.Fail("flushed_event_missing_from_"+base, fmt.Sprintf("%s: counts add up to %d, %d events flushed before the search match", hist, cnt, want), cj)
						case cnt > want:
							sum.Fail("event_counted_twice_in_"+base, fmt.Sprintf("%s: counts add up to %d, %d events match", hist, cnt, want), cj)
						}
						items = append(items, fmt.Sprintf("PObs %s %s [] (Some %d)", evCoqBool(o.Route == "groupby"), evCoqList(o.Want), cnt))
					}
				}
			}
			sum.Eval("pq/"+c.Name, lastNoMatchRot)
			if lastNoMatchRot {
				sum.Count("pq/stream_rotates_a_segment_whose_last_block_differs_from_an_earlier_one")
			}
			if i%11 == 2 {
				sum.Sample(map[string]interface{}{"case": c.Name, "tracked": c.Tracked, "ops": c.Ops, "observed": r.Obs})
			}
			coq = append(coq, "["+strings.Join(items, "; ")+"]")
		}
		sum.Count(fmt.Sprintf("pq/worker_launches=%d", launches))
		for sh := 0; sh*150 < len(coq) || sh == 0; sh++ {
			part := coq[min(sh*150, len(coq)):min(sh*150+150, len(coq))]
			name := "cases_pq"
			if sh > 0 {
				name = fmt.Sprintf("cases_pq%d", sh)
			}
			defs := "Open Scope N_scope.\nDefinition cases : list (list pitem) := " + vhlib.CoqListNL(part) + ".\n"
			sum.WriteCaseFile(cfg.Out, name, "From SigM Require Import Base PqFlag PqFlagCheck.\n", defs, "check_pq_cases cases", len(part))
		}
	}
}

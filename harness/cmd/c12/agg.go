// agg.go: trace views that AGGREGATE OVER SEVERAL STORED PERIODS (generator, property oracle, Coq cases).
//
// The spans of a scenario arrive in 2..6 periods; after every period the hourly dependency-graph job runs over
// that period's window and stores its graph (aggworker.go), and the 5-minute RED job may run.  Then
// /dependencies (ProcessAggregatedDependencyGraphs) and the Jaeger form are asked for several ranges (all
// periods, sub-ranges, one period, a range before everything).
//
// Property: the merged view of a range equals the view of the UNION of the spans of the periods whose graph
// lies in the range: every cell = the number of parent/child pairs crossing the two services, for any number
// of periods and for edges that occur in several of them; graphs outside the range do not count.  Every RED
// run appends exactly the records of its own window and leaves those of earlier runs alone.
//
// Kinds: agg (every trace inside one period), the streams of the four repaired defects (fixes 37f2dcb, 25574c6; a
// regression is reported under the class of the defect): aggdot (service names containing '.'), aggunnamed
// (spans of unnamed resources: service ""), aggover100 (more than 100 stored graphs in the range), aggmeta (a
// service named "timestamp" / "_index", the keys of two bookkeeping fields of the answer); agglegacy (a store
// that also holds records in the per-edge-column format written before 25574c6, which must still be read);
// and the known-class stream aggsplit (a trace whose spans arrive in two periods).
package main

import (
	"encoding/json"
	"fmt"
	"math/big"
	"sort"
	"strconv"
	"strings"

	"verifharness/vhlib"
)

const msBase = uint64(1700000000000)

func coqMs(x uint64) string {
	if x >= msBase {
		return fmt.Sprintf("(MS %d)", x-msBase)
	}
	return fmt.Sprintf("%d", x)
}

func isAggKind(kind string) bool { return strings.HasPrefix(kind, "agg") }

func genAgg(r *vhlib.Rng, kind string) *E2E {
	e := &E2E{Kind: kind}
	e.Sc.StartMs, e.Sc.EndMs = winStartMs, winEndMs
	e.Sc.Agg = &AggPlan{Jaeger: r.Bool()}
	if kind == "aggover100" {
		k := 101 + r.Intn(30)
		names := []string{"A", "B", "C"}
		for i := 0; i < k; i++ {
			m := map[string]map[string]int{}
			for n := 1 + r.Intn(3); n > 0; n-- {
				a, b := r.Intn(3), r.Intn(3)
				if a == b {
					b = (a + 1) % 3
				}
				if m[names[a]] == nil {
					m[names[a]] = map[string]int{}
				}
				m[names[a]][names[b]] = 1 + r.Intn(5)
			}
			fl := 0
			if r.Chance(15) {
				fl = 1 + r.Intn(2)
			}
			e.Sc.Agg.Periods = append(e.Sc.Agg.Periods, AggPeriod{Flush: fl, Direct: m})
		}
		e.Sc.Agg.Ranges = [][2]int{{0, k - 1}, {0, 99}, {k - 100, k - 1}, {0, 100}, {3, 3 + r.Intn(60)}}
		e.noCoq = true // no spans: only the aggregate cases go to Coq
		return e
	}
	if kind == "agglegacy" {
		names := []string{"A", "B", "C", "checkout"}
		k := 3 + r.Intn(6)
		old := r.Intn(k) // at least one record in the old format
		for i := 0; i < k; i++ {
			m := map[string]map[string]int{}
			for n := 1 + r.Intn(3); n > 0; n-- {
				a, b := r.Intn(4), r.Intn(4)
				if a == b {
					b = (a + 1) % 4
				}
				if m[names[a]] == nil {
					m[names[a]] = map[string]int{}
				}
				m[names[a]][names[b]] = 1 + r.Intn(5)
			}
			e.Sc.Agg.Periods = append(e.Sc.Agg.Periods, AggPeriod{Flush: r.Intn(3), Direct: m, Legacy: i == old || r.Bool()})
		}
		e.Sc.Agg.Ranges = [][2]int{{0, k - 1}, {0, r.Intn(k)}, {r.Intn(k), k - 1}, {old, old}, {1, 0}}
		e.noCoq = true
		return e
	}
	if kind == "aggmeta" {
		// a service named like one of the two bookkeeping fields of the answer ("timestamp" of the first hit, "_index")
		for i, k := 0, 2+r.Intn(3); i < k; i++ {
			m := map[string]map[string]int{"A": {"B": 1 + r.Intn(4)}, "timestamp": {"B": 1 + r.Intn(4)}}
			if r.Bool() {
				m["_index"] = map[string]int{"A": 1 + r.Intn(4)}
			}
			e.Sc.Agg.Periods = append(e.Sc.Agg.Periods, AggPeriod{Flush: r.Intn(3), Direct: m})
		}
		k := len(e.Sc.Agg.Periods)
		e.Sc.Agg.Ranges = [][2]int{{0, k - 1}, {0, 0}, {k - 1, k - 1}, {0, k - 1}, {1, k - 1}}
		e.noCoq = true
		return e
	}
	k := 2 + r.Intn(5)
	nsvc := 2 + r.Intn(3)
	svcMap := []int{0, 1, 2, 3, 4}
	if kind == "aggdot" {
		svcMap = []int{11, 0, 12, 1, 13}
		nsvc = 3 + r.Intn(3)
	}
	var split []genSpan // aggsplit: the spans that arrive one period late
	splitAt := -1
	if kind == "aggsplit" {
		splitAt = r.Intn(k - 1)
	}
	for p := 0; p < k; p++ {
		var gs []genSpan
		ntr := 1 + r.Intn(4)
		ns := nsvc
		switch {
		case kind == "agg" && r.Chance(12):
			ntr = 0 // nothing arrives in this period: no graph is stored
		case kind == "agg" && r.Chance(12):
			ns = 1 // one service only: the matrix is empty, no graph is stored
		}
		sb := uint64(0x10000 * (p + 1))
		for t := 0; t < ntr; t++ {
			n := 1 + r.Intn(8)
			tr := genTrace(r, uint64(100*(p+1)+t), sb, traceOpt{n: n, shape: r.Intn(4), nsvc: ns, skew: r.Chance(20), startMs: uint64(r.Intn(5000))})
			for i := range tr {
				tr[i].setSvc(svcMap[tr[i].SvcI])
			}
			gs = append(gs, tr...)
			sb += uint64(n) + 16
		}
		if p == splitAt { // a star: root (service A) and first children now, the other children (service B) in the next period
			n := 3 + r.Intn(5)
			tr := genTrace(r, 9000, 0x900000, traceOpt{n: n, shape: 2, nsvc: 1, startMs: 7})
			tr[0].setSvc(0)
			for i := 1; i < n; i++ {
				tr[i].setSvc(1)
			}
			cut := 1 + r.Intn(n-1)
			gs = append(gs, tr[:cut]...)
			split = tr[cut:]
		} else if p == splitAt+1 && split != nil {
			gs = append(gs, split...)
			split = nil
		}
		if len(gs) > 1 && r.Bool() {
			shuffle(r, gs)
		}
		per := AggPeriod{N: len(gs), Flush: r.Intn(3), Red: r.Chance(50)}
		if len(gs) > 0 {
			per.Batches = batches(r, len(gs))
		}
		e.perLo = append(e.perLo, len(e.gs))
		e.gs = append(e.gs, gs...)
		e.Sc.Batches = append(e.Sc.Batches, per.Batches...)
		e.Sc.Agg.Periods = append(e.Sc.Agg.Periods, per)
	}
	e.perLo = append(e.perLo, len(e.gs))
	tset := map[string]bool{}
	for _, g := range e.gs {
		e.Sc.Spans = append(e.Sc.Spans, g.Span)
		tset[g.Span.T] = true
	}
	e.Sc.FlushEach = r.Bool()
	e.Sc.Rotate = r.Chance(30)
	e.Sc.Pages = (len(tset)+49)/50 + 1
	for t := range tset {
		e.Sc.Gantt = append(e.Sc.Gantt, t)
	}
	sort.Strings(e.Sc.Gantt)
	if len(e.Sc.Gantt) > 3 {
		e.Sc.Gantt = e.Sc.Gantt[:3]
	}
	e.Sc.Dep, e.Sc.Red = true, false
	rg := [][2]int{{0, k - 1}}
	for n := 1 + r.Intn(4); n > 0; n-- {
		i := r.Intn(k)
		rg = append(rg, [2]int{i, i + r.Intn(k-i)})
	}
	i := r.Intn(k)
	rg = append(rg, [2]int{i, i})
	if r.Chance(40) {
		rg = append(rg, [2]int{1, 0})
	}
	e.Sc.Agg.Ranges = rg
	return e
}

// ---------- specification ----------
func depAdd(dst, src map[string]map[string]int) {
	for a, mm := range src {
		for b, v := range mm {
			if dst[a] == nil {
				dst[a] = map[string]int{}
			}
			dst[a][b] += v
		}
	}
}

func colKey(a, b string) string {
	if a == "" {
		return b
	}
	return a + "." + b
}

func legacyFlags(e *E2E) string {
	var f []bool
	for _, p := range e.Sc.Agg.Periods {
		f = append(f, p.Legacy)
	}
	return fmt.Sprint(f)
}

func depJSON(m map[string]map[string]int) string {
	b, _ := json.Marshal(m)
	return trunc(string(b), 260)
}

func (e *E2E) periodSpans(p int) []Span {
	if e.perLo == nil {
		return nil
	}
	return e.Sc.Spans[e.perLo[p]:e.perLo[p+1]]
}

func redCheck(want map[string]*redSpec, gotList []RedObs, fail func(class, detail string)) {
	got := map[string]RedObs{}
	for _, ro := range gotList {
		if _, dup := got[ro.Service]; dup {
			fail("red_service_duplicate", "service "+ro.Service+" has two RED records")
		}
		got[ro.Service] = ro
	}
	for svc, w := range want {
		g, ok := got[svc]
		if !ok {
			fail("red_service_missing", fmt.Sprintf("no RED record for service %s (%d entry spans)", svc, w.cnt))
			continue
		}
		if !closeTo(g.Rate, big.NewRat(int64(w.cnt), 60)) {
			fail("red_rate_wrong", fmt.Sprintf("service %s: rate %v, %d entry spans / 60", svc, g.Rate, w.cnt))
		}
		if !closeTo(g.ErrRate, big.NewRat(int64(w.errs*100), int64(w.cnt))) {
			fail("red_error_rate_wrong", fmt.Sprintf("service %s: error_rate %v, %d of %d entry spans have status error", svc, g.ErrRate, w.errs, w.cnt))
		}
		for _, pp := range []struct {
			p int
			v float64
		}{{50, g.P50}, {90, g.P90}, {95, g.P95}, {99, g.P99}} {
			if ws := pctSpec(w.durMs, pp.p); !closeTo(pp.v, ws) {
				fail("percentile_wrong", fmt.Sprintf("service %s: p%d %v, want %s over %d entry spans", svc, pp.p, pp.v, ws.FloatString(4), w.cnt))
			}
		}
	}
	for svc := range got {
		if want[svc] == nil {
			fail("red_service_unexpected", "RED record for service "+svc+" which has no entry span")
		}
	}
}

func oracleAgg(e *E2E, o *WorkerObs, sum *vhlib.Summary) {
	ag := o.Agg
	fail := func(class, detail string) { sum.Fail(class, e.Kind+": "+detail, e) }
	if ag == nil {
		fail("trace_handler_panic", "no observation of the aggregated views")
		return
	}
	hp := func(where, s string) bool {
		if strings.HasPrefix(s, "panic") {
			fail("trace_handler_panic", where+": "+s)
			return true
		}
		if s == "timeout" {
			fail("trace_handler_hang", where+": no answer within 60 s")
			return true
		}
		return s != ""
	}
	np := len(e.Sc.Agg.Periods)
	if len(ag.Periods) != np {
		fail("trace_handler_panic", "the worker did not run every period")
		return
	}
	// ---- the hourly job of every period: the graph of the spans of its window, stored iff not empty ----
	exact := make([]map[string]map[string]int, np)
	storedTs := make([]uint64, np) // 0: nothing stored
	if hp("query of index service-dependency", ag.StoredErr) {
		if ag.StoredErr != "timeout" && !strings.HasPrefix(ag.StoredErr, "panic") {
			fail("dep_stored_graphs_unreadable", ag.StoredErr)
		}
		return
	}
	for p, po := range ag.Periods {
		if hp(fmt.Sprintf("hourly dependency-graph job of period %d", p), po.Err) {
			return
		}
		if d := e.Sc.Agg.Periods[p].Direct; d != nil {
			exact[p] = d
		} else {
			exact[p] = newSpec(e.periodSpans(p)).exactDep()
			if !depEqual(exact[p], po.Graph) {
				fail("dep_hourly_graph_wrong", fmt.Sprintf("period %d of %d (%d spans arrived in its window [%d, %d], all flushed): the hourly job computed %s, the parent/child pairs of those spans are %s",
					p, np, len(e.periodSpans(p)), po.Lo, po.Hi, depJSON(po.Graph), depJSON(exact[p])))
			}
		}
		var mine []AggHit
		for _, h := range ag.Stored {
			if h.Ts >= po.W0 && h.Ts <= po.W1 {
				mine = append(mine, h)
			}
		}
		nonEmpty := false
		for _, mm := range exact[p] {
			nonEmpty = nonEmpty || len(mm) > 0
		}
		switch {
		case nonEmpty && len(mine) == 0:
			fail("dep_hourly_graph_not_stored", fmt.Sprintf("period %d: the hourly job computed %s but index service-dependency holds no record written between %d and %d", p, depJSON(exact[p]), po.W0, po.W1))
		case len(mine) > 1 || (!nonEmpty && len(mine) == 1):
			fail("dep_hourly_graph_stored_unexpectedly", fmt.Sprintf("period %d: matrix %s, %d records written between %d and %d", p, depJSON(exact[p]), len(mine), po.W0, po.W1))
		case len(mine) == 1:
			storedTs[p] = mine[0].Ts
			// the record holds the matrix in one column "graph"; a record written in the old format holds one column per edge
			ok, clash := false, false
			if e.Sc.Agg.Periods[p].Legacy {
				want := map[string]int{}
				for a, mm := range exact[p] {
					for b, v := range mm {
						if _, dup := want[colKey(a, b)]; dup {
							clash = true
						}
						want[colKey(a, b)] = v
					}
				}
				ok = len(mine[0].Bad) == 0 && len(mine[0].Cols) == len(want) && mine[0].Graph == nil
				for k, v := range want {
					if g := mine[0].Cols[k]; g == nil || int(*g) != v {
						ok = false
					}
				}
			} else {
				ok = len(mine[0].Bad) == 0 && len(mine[0].Cols) == 0 && mine[0].Graph != nil && depEqual(mine[0].Graph, exact[p])
			}
			if !ok && !clash {
				cj, _ := json.Marshal(mine[0])
				fail("dep_stored_graph_wrong", fmt.Sprintf("period %d: the matrix %s is stored as %s", p, depJSON(exact[p]), trunc(string(cj), 300)))
			}
		}
	}
	for _, h := range ag.Stored {
		in := false
		for _, po := range ag.Periods {
			in = in || (h.Ts >= po.W0 && h.Ts <= po.W1)
		}
		if !in {
			fail("dep_hourly_graph_stored_unexpectedly", fmt.Sprintf("index service-dependency holds a record with timestamp %d that no run of the job wrote", h.Ts))
		}
	}

	// ---- the merged view of every requested range ----
	for ri, ro := range ag.Ranges {
		if e.Kind == "aggmeta" && strings.HasPrefix(ro.Err, "panic: interface conversion") {
			fail("dep_aggregate_panic_service_named_like_result_field", fmt.Sprintf("range [%d, %d] over stored graphs with an edge out of a service named \"timestamp\" (or \"_index\"): ProcessAggregatedDependencyGraphs: %s", ro.Start, ro.End, ro.Err))
			continue
		}
		if hp(fmt.Sprintf("ProcessAggregatedDependencyGraphs [%d, %d]", ro.Start, ro.End), ro.Err) {
			continue
		}
		var inGraphs []map[string]map[string]int
		var inSpans []Span
		sumOf := map[string]map[string]int{}
		var which []int
		for p := range ag.Periods {
			if storedTs[p] >= ro.Start && storedTs[p] <= ro.End && storedTs[p] != 0 {
				inGraphs = append(inGraphs, exact[p])
				which = append(which, p)
			}
			// the spans of the periods whose job ran inside the range (an empty matrix is not stored and adds nothing)
			if ag.Periods[p].W0 >= ro.Start && ag.Periods[p].W1 <= ro.End {
				inSpans = append(inSpans, e.periodSpans(p)...)
				depAdd(sumOf, exact[p])
			}
		}
		want := sumOf // aggover100: the sum of the matrices
		if e.perLo != nil {
			want = newSpec(inSpans).exactDep() // the view of the union of the spans
		}
		sum.Count(fmt.Sprintf("agg_graphs_in_range<=%d", bucket(len(inGraphs))))
		shared := 0 // edges that occur in more than one graph of the range
		seen := map[string]int{}
		for _, g := range inGraphs {
			for a, mm := range g {
				for b := range mm {
					seen[a+"\x00"+b]++
				}
			}
		}
		for _, c := range seen {
			if c > 1 {
				shared++
			}
		}
		if shared > 0 {
			sum.Count("agg_range_with_edge_in_several_graphs")
		}
		desc := fmt.Sprintf("range %d of the scenario = [%d, %d]: %d stored hourly graphs (periods %s of %d) lie inside, %d edges occur in more than one of them", ri, ro.Start, ro.End, len(inGraphs), trunc(fmt.Sprint(which), 60), np, shared)
		if ro.Body != "" || ro.Code != 200 {
			fail("dep_aggregate_error", fmt.Sprintf("%s: /dependencies answered %d %s", desc, ro.Code, ro.Body))
			continue
		}
		if ro.NoGraphs {
			if len(inGraphs) > 0 {
				fail("dep_aggregate_missing_graphs", desc+": /dependencies says that no dependency graph has been generated")
			}
			continue
		}
		if len(inGraphs) == 0 {
			fail("dep_aggregate_includes_graph_outside_range", fmt.Sprintf("%s: /dependencies answers %s", desc, depJSON(ro.Graph)))
			continue
		}
		if !depEqual(want, ro.Graph) {
			all := map[string]map[string]int{}
			for p := range exact {
				if storedTs[p] != 0 {
					depAdd(all, exact[p])
				}
			}
			d := fmt.Sprintf("%s: /dependencies answers %s, the parent/child pairs of the spans of those periods are %s", desc, depJSON(ro.Graph), depJSON(want))
			// without is what the answer would be without the rows of "timestamp" / "_index" (stream aggmeta)
			strip := func(m map[string]map[string]int) map[string]map[string]int {
				c := map[string]map[string]int{}
				for a, mm := range m {
					if a != "timestamp" && a != "_index" {
						c[a] = mm
					}
				}
				return c
			}
			switch {
			case e.Kind == "aggsplit" && depEqual(sumOf, ro.Graph):
				fail("dep_aggregate_trace_across_hourly_windows", d+" (= the sum of the hourly graphs: a pair whose parent and child arrived in different hourly windows is in no hourly graph)")
			// the streams of the repaired defects: a regression is reported under the class of the defect
			case e.Kind == "aggover100" && len(inGraphs) > 100:
				fail("dep_aggregate_over_100_stored_graphs", d)
			case e.Kind == "aggdot":
				fail("dep_aggregate_service_name_with_dot", d)
			case e.Kind == "aggunnamed":
				fail("dep_aggregate_unnamed_parent_service", d)
			case e.Kind == "aggmeta" && depEqual(strip(want), strip(ro.Graph)):
				fail("dep_aggregate_panic_service_named_like_result_field", d+": the row of a service named like a bookkeeping field of the answer is lost")
			case e.Kind == "agglegacy":
				fail("dep_aggregate_old_format_record_not_read", d+"; formats of the records (true = per-edge columns): "+legacyFlags(e))
			case len(inGraphs) < len(all) && depEqual(all, ro.Graph) && !depEqual(all, sumOf):
				fail("dep_aggregate_range_ignored", d+" (= the sum of ALL stored graphs)")
			case len(inGraphs) >= 2:
				fail("dep_aggregate_wrong_over_several_hourly_graphs", d+"; sum of the stored graphs "+depJSON(sumOf))
			default:
				fail("dep_aggregate_wrong_single_hourly_graph", d)
			}
		}
		// the Jaeger form must show the same matrix
		if e.Sc.Agg.Jaeger && !hp("ProcessGetDependencies", ro.JaegerX) {
			jm := map[string]map[string]int{}
			bad := ""
			for _, row := range ro.Jaeger {
				n, err := strconv.Atoi(row["callCount"])
				if err != nil {
					bad = fmt.Sprintf("%v", row)
				}
				if jm[row["parent"]] == nil {
					jm[row["parent"]] = map[string]int{}
				}
				jm[row["parent"]][row["child"]] += n
			}
			if bad != "" || !depEqual(jm, ro.Graph) {
				fail("dep_jaeger_dependencies_differ", fmt.Sprintf("%s: /dependencies answers %s, the Jaeger endpoint %s %s", desc, depJSON(ro.Graph), depJSON(jm), bad))
			}
		}
	}

	// ---- RED: run k wrote exactly the records of the spans that had arrived by then (all inside the last 5 minutes) ----
	if !hp("ProcessRedTracesIngest", ag.RedErr) && e.perLo != nil {
		used := 0
		runs := 0
		for p, po := range ag.Periods {
			if !e.Sc.Agg.Periods[p].Red {
				continue
			}
			runs++
			var mine []RedObs
			for _, r := range ag.Red {
				if r.Ts >= po.R0 && r.Ts <= po.R1 {
					mine = append(mine, r.RedObs)
					used++
				}
			}
			want := newSpec(e.Sc.Spans[:e.perLo[p+1]]).exactRed()
			sfx := ""
			if runs > 1 {
				sfx = "_later_window"
			}
			redCheck(want, mine, func(class, detail string) {
				fail(class+sfx, fmt.Sprintf("run %d of the RED job (after period %d of %d, %d spans had arrived): %s", runs, p, np, e.perLo[p+1], detail))
			})
		}
		if used != len(ag.Red) {
			fail("red_record_outside_any_run", fmt.Sprintf("index red-traces holds %d records, %d of them written during the %d runs of the job", len(ag.Red), used, runs))
		}
	}
}

// ---------- Coq case text ----------
func coqReqs(e *E2E, lo int, bs []int) string {
	var reqs []string
	pos := lo
	for _, n := range bs {
		var ress, cur []string
		flushRes := func(g genSpan) {
			if len(cur) > 0 {
				ress = append(ress, fmt.Sprintf("R1 %d %d %s [%s]", g.RK, g.SentI, vhlib.CoqBool(g.RS), strings.Join(cur, ";\n    ")))
				cur = nil
			}
		}
		for i := pos; i < pos+n && i < len(e.gs); i++ {
			g := e.gs[i]
			if i > pos && g.R != e.gs[i-1].R {
				flushRes(e.gs[i-1])
			}
			cur = append(cur, fmt.Sprintf("O1 %d %d %d %d %s %s %d", g.T, small(g.S), small(g.P), g.NameI, coqT(g.Start), coqT(g.End), g.St))
		}
		if pos+n-1 < len(e.gs) && n > 0 {
			flushRes(e.gs[pos+n-1])
		}
		reqs = append(reqs, "["+strings.Join(ress, ";\n   ")+"]")
		pos += n
	}
	return vhlib.CoqListNL(reqs)
}

func coqMatrix(m map[string]map[string]int) string {
	var kv []string
	for a, mm := range m {
		for b, v := range mm {
			kv = append(kv, fmt.Sprintf("((%s, %s), %d)", coqSvc(a), coqSvc(b), v))
		}
	}
	sort.Strings(kv)
	return vhlib.CoqList(kv)
}

func coqHit(h AggHit) string {
	var cs []string
	for k, v := range h.Cols {
		if v == nil {
			cs = append(cs, fmt.Sprintf("(%s, VNull)", vhlib.CoqStr(k)))
		} else {
			cs = append(cs, fmt.Sprintf("(%s, VNum %d)", vhlib.CoqStr(k), int64(*v)))
		}
	}
	sort.Strings(cs)
	if h.Graph != nil {
		cs = append(cs, "GR "+coqMatrix(h.Graph))
	}
	return vhlib.CoqList(cs)
}

func coqHits(hs []AggHit) string {
	var out []string
	for _, h := range hs {
		out = append(out, coqHit(h))
	}
	return vhlib.CoqListNL(out)
}

func coqAnswer(ro AggRangeObs) string {
	if ro.NoGraphs {
		return "None"
	}
	return "(Some " + coqMatrix(ro.Graph) + ")"
}

func coqAgg(idx int, e *E2E, o *WorkerObs) (defs string, ncases int) {
	ag := o.Agg
	if ag == nil || ag.StoredErr != "" || len(ag.Periods) != len(e.Sc.Agg.Periods) {
		return "", 0
	}
	var sb strings.Builder
	var checks []string
	stored := func(po AggPeriodObs) *AggHit {
		for i := range ag.Stored {
			if ag.Stored[i].Ts >= po.W0 && ag.Stored[i].Ts <= po.W1 {
				return &ag.Stored[i]
			}
		}
		return nil
	}
	rangeChecks := func(hitsF, viewF, src string) {
		for _, ro := range ag.Ranges {
			if ro.Err != "" || ro.HitsErr != "" || ro.Body != "" {
				continue
			}
			bad := false
			for _, h := range ro.Hits {
				bad = bad || len(h.Bad) > 0
			}
			if bad {
				continue
			}
			checks = append(checks, fmt.Sprintf("%s %s %s %s %s", hitsF, coqMs(ro.Start), coqMs(ro.End), src, coqHits(ro.Hits)))
			checks = append(checks, fmt.Sprintf("%s %s %s %s %s", viewF, coqMs(ro.Start), coqMs(ro.End), src, coqAnswer(ro)))
			checks = append(checks, fmt.Sprintf("check_agg_hits %s %s", coqHits(ro.Hits), coqAnswer(ro)))
		}
	}
	if e.perLo == nil { // matrices stored directly
		var gl []string
		for p, po := range ag.Periods {
			h := stored(po)
			if h == nil {
				return "", 0 // reported by the oracle
			}
			gl = append(gl, fmt.Sprintf("(%s, %s, %s)", coqMs(h.Ts), vhlib.CoqBool(e.Sc.Agg.Periods[p].Legacy), coqMatrix(e.Sc.Agg.Periods[p].Direct)))
		}
		fmt.Fprintf(&sb, "Definition ag%d : list (N * bool * matrix) := %s.\n", idx, vhlib.CoqListNL(gl))
		rangeChecks("check_store_hits", "check_agg_store", fmt.Sprintf("ag%d", idx))
	} else {
		var pl, cum []string
		for p, po := range ag.Periods {
			fmt.Fprintf(&sb, "Definition aq%d_%d : list (list otlp_resource) := %s.\n", idx, p, coqReqs(e, e.perLo[p], e.Sc.Agg.Periods[p].Batches))
			ts := po.W1
			h := stored(po)
			if h != nil {
				ts = h.Ts
			}
			pl = append(pl, fmt.Sprintf("(%s, events_of aq%d_%d)", coqMs(ts), idx, p))
			cum = append(cum, fmt.Sprintf("aq%d_%d", idx, p))
			if po.Err == "" {
				checks = append(checks, fmt.Sprintf("check_dep [events_of aq%d_%d] %s", idx, p, coqMatrix(po.Graph)))
				if h == nil {
					checks = append(checks, fmt.Sprintf("check_stored_graph (events_of aq%d_%d) None", idx, p))
				} else if len(h.Bad) == 0 {
					checks = append(checks, fmt.Sprintf("check_stored_graph (events_of aq%d_%d) (Some %s)", idx, p, coqHit(*h)))
				}
			}
			if e.Sc.Agg.Periods[p].Red && ag.RedErr == "" {
				var rs []string
				for _, r := range ag.Red {
					if r.Ts >= po.R0 && r.Ts <= po.R1 {
						rs = append(rs, fmt.Sprintf("(%s, (%s, %s, %s, %s, %s, %s))", coqSvc(r.Service), coqFl(r.Rate), coqFl(r.ErrRate), coqFl(r.P50), coqFl(r.P90), coqFl(r.P95), coqFl(r.P99)))
					}
				}
				checks = append(checks, fmt.Sprintf("check_red [events_of (%s)] %s", strings.Join(cum, " ++ "), vhlib.CoqList(rs)))
			}
		}
		fmt.Fprintf(&sb, "Definition ap%d : list (N * list span) := %s.\n", idx, vhlib.CoqListNL(pl))
		rangeChecks("check_range_hits", "check_agg_view", fmt.Sprintf("ap%d", idx))
	}
	fmt.Fprintf(&sb, "Definition ca%d : list bool := %s.\n", idx, vhlib.CoqListNL(checks))
	return sb.String(), len(checks)
}

// aggworker.go: views that aggregate over SEVERAL STORED PERIODS, worker side.  The spans of a scenario
// arrive in periods; after every period one iteration of the hourly dependency-graph job runs over the
// period's window and stores its graph in index service-dependency (hook VerifC12HourlyDepGraph = the loop
// body of DependencyGraphThread), and the 5-minute RED job may run (ProcessRedTracesIngest, which appends
// one record per service to index red-traces).  Then /dependencies (ProcessAggregatedDependencyGraphs) and
// the Jaeger form (ProcessGetDependencies) are asked for ranges that cover some of the stored graphs.
package main

import (
	"encoding/json"
	"fmt"
	"sort"
	"time"

	"github.com/siglens/siglens/pkg/otlp"
	thandler "github.com/siglens/siglens/pkg/segment/tracing/handler"
	"github.com/siglens/siglens/pkg/segment/writer"
	sutils "github.com/siglens/siglens/pkg/utils"
	"github.com/valyala/fasthttp"
)

type AggPeriod struct {
	N       int                       `json:"n"`                // the next N spans of the scenario belong to this period
	Batches []int                     `json:"batches"`          // sizes of its OTLP requests
	Flush   int                       `json:"flush"`            // after the job stored the graph: 0 nothing, 1 flush, 2 flush + rotate
	Red     bool                      `json:"red,omitempty"`    // the RED job runs after this period
	Direct  map[string]map[string]int `json:"direct,omitempty"` // this matrix is stored instead of running the job
	Legacy  bool                      `json:"legacy,omitempty"` // Direct only: stored in the record format used before fix 25574c6 (one column per edge)
}

type AggPlan struct {
	Periods []AggPeriod `json:"periods"`
	// (i, j), i <= j: the range from just before the hourly job of period i to just after the job of period j;
	// i > j: a range that ends before the first job
	Ranges [][2]int `json:"ranges"`
	Jaeger bool     `json:"jaeger,omitempty"`
}

type AggPeriodObs struct {
	Lo    uint64                    `json:"lo"` // window of the hourly job (ms, both ends included)
	Hi    uint64                    `json:"hi"`
	Graph map[string]map[string]int `json:"graph"` // what the job computed (stored when not empty)
	W0    uint64                    `json:"w0"`    // the millisecond clock before / after the job: the stored graph's timestamp lies between
	W1    uint64                    `json:"w1"`
	R0    uint64                    `json:"r0,omitempty"` // the same for the RED job
	R1    uint64                    `json:"r1,omitempty"`
	Err   string                    `json:"err,omitempty"`
}

type AggHit struct {
	Ts   uint64              `json:"ts"`
	Cols  map[string]*float64       `json:"cols"`            // numeric column -> value (nil: JSON null)
	Graph map[string]map[string]int `json:"graph,omitempty"` // the column "graph": a JSON string holding the matrix
	Bad   []string                  `json:"bad,omitempty"`
}

type AggRangeObs struct {
	Start    uint64                    `json:"start"`
	End      uint64                    `json:"end"`
	Code     int                       `json:"code"`
	NoGraphs bool                      `json:"no_graphs,omitempty"` // the body is the "no dependencies graphs" message
	Graph    map[string]map[string]int `json:"graph,omitempty"`
	Body     string                    `json:"body,omitempty"` // an answer that is neither
	Err      string                    `json:"err,omitempty"`
	Hits     []AggHit                  `json:"hits"` // the request the handler sends to the search engine, sent again
	HitsErr  string                    `json:"hits_err,omitempty"`
	Jaeger   []map[string]string       `json:"jaeger,omitempty"`
	JaegerEr []string                  `json:"jaeger_errors,omitempty"`
	JaegerX  string                    `json:"jaeger_err,omitempty"`
}

type RedTsObs struct {
	RedObs
	Ts uint64 `json:"ts"`
}

type AggObs struct {
	Periods   []AggPeriodObs `json:"periods"`
	Stored    []AggHit       `json:"stored"` // every record of index service-dependency
	StoredErr string         `json:"stored_err,omitempty"`
	Ranges    []AggRangeObs  `json:"ranges"`
	Red       []RedTsObs     `json:"red,omitempty"` // every record of index red-traces with its timestamp
	RedErr    string         `json:"red_err,omitempty"`
}

// waits until the millisecond clock has moved past t and returns it
func freshMs(t uint64) uint64 {
	for {
		now := sutils.GetCurrentTimeInMs()
		if now > t {
			return now
		}
		time.Sleep(50 * time.Microsecond)
	}
}

func aggHits(body []byte) ([]AggHit, string) {
	var resp struct {
		Hits struct {
			Records []map[string]interface{} `json:"records"`
		} `json:"hits"`
	}
	if err := json.Unmarshal(body, &resp); err != nil {
		return nil, "bad body: " + trunc(string(body), 300)
	}
	var out []AggHit
	for _, r := range resp.Hits.Records {
		h := AggHit{Cols: map[string]*float64{}}
		for k, v := range r {
			switch {
			case k == "timestamp":
				if f := fl(v); f > 0 {
					h.Ts = uint64(f)
				}
			case k == "_index":
			case v == nil:
				h.Cols[k] = nil
			default:
				if f, ok := v.(float64); ok {
					g := f
					h.Cols[k] = &g
				} else if gs, ok := v.(string); ok && k == "graph" && h.Graph == nil && json.Unmarshal([]byte(gs), &h.Graph) == nil && h.Graph != nil {
					// the stored matrix
				} else {
					h.Bad = append(h.Bad, fmt.Sprintf("%s=%v", k, v))
				}
			}
		}
		out = append(out, h)
	}
	return out, ""
}

func depOfBody(body []byte) (map[string]map[string]int, bool) {
	raw := map[string]interface{}{}
	if err := json.Unmarshal(body, &raw); err != nil {
		return nil, false
	}
	res := map[string]map[string]int{}
	for parent, children := range raw {
		cm, ok := children.(map[string]interface{})
		if !ok {
			continue // _index, timestamp
		}
		res[parent] = map[string]int{}
		for child, cnt := range cm {
			f, ok := cnt.(float64)
			if !ok {
				return nil, false
			}
			res[parent][child] = int(f)
		}
	}
	return res, true
}

func runAggWorker(sc *Scenario, o *WorkerObs) {
	ag := &AggObs{}
	o.Agg = ag
	pos := 0
	clock := freshMs(sutils.GetCurrentTimeInMs())
	for _, p := range sc.Agg.Periods {
		po := AggPeriodObs{Lo: clock + 1}
		clock = freshMs(clock)
		left := p.N
		for _, n := range p.Batches {
			if n > left {
				n = left
			}
			if n <= 0 {
				continue
			}
			body := otlpRequest(sc.Spans[pos : pos+n])
			pos += n
			left -= n
			ctx := postCtx(body)
			ctx.Request.Header.Set("Content-Type", "application/x-protobuf")
			e := guarded(opCap, func() { otlp.ProcessTraceIngest(ctx, 0) })
			code := ctx.Response.StatusCode()
			if e != "" {
				code = -1
			}
			o.Ingest = append(o.Ingest, code)
			if sc.FlushEach {
				flushAll()
			}
		}
		pos += left
		flushAll()
		clock = freshMs(sutils.GetCurrentTimeInMs()) // every span of the period was stamped before this millisecond
		po.Hi = clock
		clock = freshMs(clock)
		po.W0 = clock
		if p.Direct != nil {
			po.Err = guarded(opCap, func() {
				if p.Legacy {
					thandler.VerifC12WriteLegacyDepMatrix(p.Direct, 0)
				} else {
					thandler.VerifC12WriteDepMatrix(p.Direct, 0)
				}
			})
			po.Graph = p.Direct
		} else {
			po.Err = guarded(opCap, func() { po.Graph = thandler.VerifC12HourlyDepGraph(int64(po.Lo), int64(po.Hi), 0) })
		}
		po.W1 = sutils.GetCurrentTimeInMs()
		clock = freshMs(po.W1)
		if p.Flush >= 1 {
			flushAll()
			if p.Flush == 2 {
				writer.ForceRotateSegmentsForTest()
			}
		}
		if p.Red {
			po.R0 = clock
			if e := guarded(opCap, func() { thandler.ProcessRedTracesIngest(0) }); e != "" {
				ag.RedErr = e
			}
			po.R1 = sutils.GetCurrentTimeInMs()
			clock = freshMs(po.R1)
		}
		ag.Periods = append(ag.Periods, po)
	}
	flushAll()
	if sc.Rotate {
		writer.ForceRotateSegmentsForTest()
	}

	// every stored graph
	{
		body, _ := json.Marshal(map[string]interface{}{"searchText": "*", "indexName": "service-dependency", "startEpoch": "1600000000000", "endEpoch": "4000000000000",
			"queryLanguage": "Splunk QL", "size": 10000})
		ctx := postCtx(body)
		ag.StoredErr = guarded(opCap, func() { pipesearchProcess(ctx) })
		if ag.StoredErr == "" {
			ag.Stored, ag.StoredErr = aggHits(ctx.Response.Body())
		}
	}

	for _, rg := range sc.Agg.Ranges {
		ro := AggRangeObs{}
		n := len(ag.Periods)
		switch {
		case n == 0:
			ro.Start, ro.End = 1600000000000, 1600000001000
		case rg[0] > rg[1] || rg[0] < 0 || rg[1] >= n:
			ro.Start, ro.End = ag.Periods[0].W0-1000, ag.Periods[0].W0-1
		default:
			ro.Start, ro.End = ag.Periods[rg[0]].W0, ag.Periods[rg[1]].W1
		}
		// epochs as strings, as the UI sends them (JSON numbers are rejected by the handler: "Invalid data type")
		body, _ := json.Marshal(map[string]interface{}{"startEpoch": fmt.Sprintf("%d", ro.Start), "endEpoch": fmt.Sprintf("%d", ro.End)})
		ctx := postCtx(body)
		ro.Err = guarded(opCap, func() { thandler.ProcessAggregatedDependencyGraphs(ctx, 0) })
		if ro.Err == "" {
			ro.Code = ctx.Response.StatusCode()
			b := ctx.Response.Body()
			if string(b) == sutils.ErrNoDependencyGraphs {
				ro.NoGraphs = true
			} else if g, ok := depOfBody(b); ok {
				ro.Graph = g
			} else {
				ro.Body = trunc(string(b), 300)
			}
		}
		// the request of the handler (processSearchRequest: size 10000, no from), sent again
		{
			hb, _ := json.Marshal(map[string]interface{}{"indexName": "service-dependency", "searchText": "*", "startEpoch": fmt.Sprintf("%d", ro.Start),
				"endEpoch": fmt.Sprintf("%d", ro.End), "queryLanguage": "Splunk QL", "size": 10000})
			hctx := postCtx(hb)
			ro.HitsErr = guarded(opCap, func() { pipesearchProcess(hctx) })
			if ro.HitsErr == "" {
				ro.Hits, ro.HitsErr = aggHits(hctx.Response.Body())
			}
		}
		if sc.Agg.Jaeger {
			jctx := &fasthttp.RequestCtx{}
			jctx.Request.Header.SetMethod("GET")
			jctx.Request.SetRequestURI(fmt.Sprintf("/jaeger/api/dependencies?endTs=%d&lookback=%d", ro.End, ro.End-ro.Start))
			ro.JaegerX = guarded(opCap, func() { thandler.ProcessGetDependencies(jctx, 0) })
			if ro.JaegerX == "" {
				var jr struct {
					Data   []map[string]string `json:"data"`
					Errors []string            `json:"errors"`
				}
				if err := json.Unmarshal(jctx.Response.Body(), &jr); err != nil {
					ro.JaegerX = "bad body: " + trunc(string(jctx.Response.Body()), 300)
				}
				ro.Jaeger, ro.JaegerEr = jr.Data, jr.Errors
			}
		}
		ag.Ranges = append(ag.Ranges, ro)
	}

	// every RED record with its timestamp
	red := false
	for _, p := range sc.Agg.Periods {
		red = red || p.Red
	}
	if red && ag.RedErr == "" {
		body, _ := json.Marshal(map[string]interface{}{"searchText": "*", "indexName": "red-traces", "startEpoch": "1600000000000", "endEpoch": "4000000000000",
			"queryLanguage": "Splunk QL", "size": 10000})
		ctx := postCtx(body)
		var resp struct {
			Hits struct {
				Records []map[string]interface{} `json:"records"`
			} `json:"hits"`
		}
		ag.RedErr = guarded(opCap, func() { pipesearchProcess(ctx) })
		if ag.RedErr == "" {
			if err := json.Unmarshal(ctx.Response.Body(), &resp); err != nil {
				ag.RedErr = "bad body: " + trunc(string(ctx.Response.Body()), 300)
			}
			for _, r := range resp.Hits.Records {
				ro := RedTsObs{}
				ro.Service, _ = r["service"].(string)
				ro.Rate = fl(r["rate"])
				ro.ErrRate = fl(r["error_rate"])
				ro.P50, ro.P90, ro.P95, ro.P99 = fl(r["p50"]), fl(r["p90"]), fl(r["p95"]), fl(r["p99"])
				if f := fl(r["timestamp"]); f > 0 {
					ro.Ts = uint64(f)
				}
				ag.Red = append(ag.Red, ro)
			}
			sort.SliceStable(ag.Red, func(i, j int) bool {
				if ag.Red[i].Ts != ag.Red[j].Ts {
					return ag.Red[i].Ts < ag.Red[j].Ts
				}
				return ag.Red[i].Service < ag.Red[j].Service
			})
		}
	}
}

// direct.go: the pure functions of the trace views driven directly on generated inputs
// (BuildSpanTree, quickSelect, pickPivot, FindPercentileData, spanToJson).
package main

import (
	"encoding/hex"
	"encoding/json"
	"fmt"
	"math"
	"math/big"
	"sort"
	"strings"
	"time"

	"github.com/siglens/siglens/pkg/otlp"
	tstructs "github.com/siglens/siglens/pkg/segment/tracing/structs"
	tutils "github.com/siglens/siglens/pkg/segment/tracing/utils"
	tracepb "go.opentelemetry.io/proto/otlp/trace/v1"

	"verifharness/vhlib"
)

var statusStr = []string{"STATUS_CODE_UNSET", "STATUS_CODE_OK", "STATUS_CODE_ERROR", "Unknown"}

func statusCode(s string) int {
	for i, x := range statusStr {
		if x == s {
			return i
		}
	}
	return 99
}

// ---------- BuildSpanTree ----------
type DSpan struct {
	ID    string `json:"id"`
	Svc   string `json:"svc"`
	Name  string `json:"name"`
	Start uint64 `json:"st"`
	End   uint64 `json:"en"`
	Dur   uint64 `json:"dur"`
	Code  int    `json:"code"`
}
type TreeCase struct {
	Spans  []DSpan     `json:"spans"`
	Parent [][2]string `json:"parent"` // idToParentId entries
}

func coqOT(n *GanttNode, idf func(string) string, budget *int) string {
	*budget--
	if *budget < 0 {
		return "(OT [] 0 0 0 0 false 0 [] [] [])"
	}
	cs := make([]string, 0, len(n.Children))
	for _, c := range n.Children {
		cs = append(cs, coqOT(c, idf, budget))
	}
	return fmt.Sprintf("(OT %s %d %d %d %d %s %d %s %s %s)", idf(n.SpanID), n.Actual, n.Start, n.End, n.Duration,
		vhlib.CoqBool(n.Anomalous), statusCode(n.Status), vhlib.CoqStr(n.Service), vhlib.CoqStr(n.Operation), vhlib.CoqList(cs))
}

func toNode(g *tstructs.GanttChartSpan, budget *int) *GanttNode {
	*budget--
	if *budget < 0 {
		return nil
	}
	n := &GanttNode{SpanID: g.SpanID, Actual: g.ActualStartTime, Start: g.StartTime, End: g.EndTime, Duration: g.Duration,
		Service: g.ServiceName, Operation: g.OperationName, Anomalous: g.IsAnomalous, Status: g.Status}
	for _, c := range g.Children {
		cn := toNode(c, budget)
		if cn == nil {
			return nil
		}
		n.Children = append(n.Children, cn)
	}
	return n
}

func genTreeCase(r *vhlib.Rng, n int) TreeCase {
	alphabet := []string{"a", "b", "c", "ab", "ba", "a0", "b1", "0", "9", "A", "aa", "abc", "z", "zz", "c1", "d", "e", "f", "g", "h"}
	if r.Chance(6) {
		alphabet[r.Intn(len(alphabet))] = "" // a span with an empty id (a root with id "" is reported as "no root")
	}
	ids := []string{}
	if n <= len(alphabet) {
		perm := append([]string{}, alphabet...)
		for i := range perm {
			j := i + r.Intn(len(perm)-i)
			perm[i], perm[j] = perm[j], perm[i]
		}
		ids = perm[:n]
	} else {
		for i := 0; i < n; i++ {
			ids = append(ids, fmt.Sprintf("s%x", i*7+3))
		}
		for i := range ids {
			j := i + r.Intn(len(ids)-i)
			ids[i], ids[j] = ids[j], ids[i]
		}
	}
	tc := TreeCase{}
	svcs := []string{"A", "B", "C"}
	base := uint64(r.Intn(3)) * 50
	tight := r.Chance(50) // many equal start times
	for i, id := range ids {
		var st uint64
		if tight {
			st = base + uint64(r.Intn(4))
		} else {
			st = base + uint64(r.Intn(40))
		}
		if r.Chance(4) {
			st = 0
		}
		en := st + uint64(r.Intn(30))
		if r.Chance(5) {
			en = uint64(r.Intn(20))
		}
		tc.Spans = append(tc.Spans, DSpan{ID: id, Svc: vhlib.Pick(r, svcs), Name: string(rune('a' + i%26)), Start: st, End: en, Dur: en - st, Code: r.Intn(4)})
	}
	if n == 0 {
		return tc
	}
	// parents: span i>0 gets a parent among earlier spans (a tree), root = span 0
	shape := r.Intn(3) // 0 random, 1 chain, 2 star
	for i, id := range ids {
		p := ""
		if i > 0 {
			switch shape {
			case 0:
				p = ids[r.Intn(i)]
			case 1:
				p = ids[i-1]
			default:
				p = ids[0]
			}
		}
		tc.Parent = append(tc.Parent, [2]string{id, p})
	}
	// malformations (about half of the cases stay well formed)
	if r.Chance(55) {
		k := 1 + r.Intn(3)
		for ; k > 0; k-- {
			i := r.Intn(n)
			switch r.Intn(8) {
			case 0: // missing parent
				tc.Parent[i][1] = "nope"
			case 1: // another root
				tc.Parent[i][1] = ""
			case 2: // cycle of two
				if n >= 3 {
					a, b := 1+r.Intn(n-1), 1+r.Intn(n-1)
					tc.Parent[a][1] = ids[b]
					tc.Parent[b][1] = ids[a]
				}
			case 3: // self parent
				tc.Parent[i][1] = ids[i]
			case 4: // no entry in idToParentId
				tc.Parent = append(tc.Parent[:i], tc.Parent[i+1:]...)
				if len(tc.Parent) == 0 {
					return tc
				}
				n = len(tc.Parent)
				ids = nil
				for _, kv := range tc.Parent {
					ids = append(ids, kv[0])
				}
			case 5: // no root at all
				tc.Parent[0][1] = ids[n-1]
			case 6: // cycle of three
				if n >= 4 {
					tc.Parent[1][1], tc.Parent[2][1], tc.Parent[3][1] = ids[2], ids[3], ids[1]
				}
			case 7: // entry for an id that is not in the span map
				tc.Parent = append(tc.Parent, [2]string{"ghost", ids[0]})
			}
		}
	}
	return tc
}

type treeObs struct {
	Err  string
	Tree *GanttNode
}

func runBuildSpanTree(tc *TreeCase) (o treeObs) {
	spanMap := map[string]*tstructs.GanttChartSpan{}
	for _, s := range tc.Spans {
		spanMap[s.ID] = &tstructs.GanttChartSpan{SpanID: s.ID, StartTime: s.Start, EndTime: s.End, Duration: s.Dur,
			ServiceName: s.Svc, OperationName: s.Name, Status: statusStr[s.Code]}
	}
	pm := map[string]string{}
	for _, kv := range tc.Parent {
		pm[kv[0]] = kv[1]
	}
	e := guarded(30*time.Second, func() {
		res, err := tutils.BuildSpanTree(spanMap, pm)
		if err != nil {
			o.Err = "error"
			return
		}
		budget := 20*len(tc.Spans) + 100
		o.Tree = toNode(res, &budget)
		if o.Tree == nil {
			o.Err = "cyclic"
		}
	})
	if e != "" {
		o.Err = e
	}
	return
}

// the property evaluated on the observed tree (independent of the model)
func treeOracle(tc *TreeCase, o treeObs, sum *vhlib.Summary) bool {
	pm := map[string]string{}
	for _, kv := range tc.Parent {
		pm[kv[0]] = kv[1]
	}
	byID := map[string]DSpan{}
	for _, s := range tc.Spans {
		byID[s.ID] = s
	}
	roots := 0
	wf := true
	for _, s := range tc.Spans {
		p, ok := pm[s.ID]
		if !ok {
			wf = false
			continue
		}
		if p == "" {
			roots++
			if s.ID == "" {
				wf = false
			}
		} else if _, ok := byID[p]; !ok {
			wf = false
		}
	}
	if roots != 1 {
		wf = false
	}
	if wf { // acyclic: every span reaches the root
		for _, s := range tc.Spans {
			cur, steps := s.ID, 0
			for pm[cur] != "" && steps <= len(tc.Spans) {
				cur = pm[cur]
				steps++
			}
			if steps > len(tc.Spans) {
				wf = false
			}
		}
	}
	fail := func(class, detail string) bool {
		sum.Fail(class, detail, tc)
		return false
	}
	if strings.HasPrefix(o.Err, "panic") {
		return fail("trace_handler_panic", "BuildSpanTree: "+o.Err)
	}
	if o.Err == "timeout" || o.Err == "cyclic" {
		return fail("trace_handler_hang", "BuildSpanTree result is not a finite tree / no answer in 30 s: "+o.Err)
	}
	if o.Err == "error" {
		if wf {
			return fail("span_tree_error_on_wellformed", "BuildSpanTree returned an error for a well-formed trace")
		}
		return true
	}
	seen := map[string]int{}
	ok := true
	var walk func(n *GanttNode, parent string, isRoot bool)
	walk = func(n *GanttNode, parent string, isRoot bool) {
		seen[n.SpanID]++
		s, known := byID[n.SpanID]
		if !known {
			ok = fail("cross_trace_attribution", fmt.Sprintf("tree node %q is not a span of the input", n.SpanID))
		} else {
			if isRoot {
				if pm[n.SpanID] != "" {
					ok = fail("span_tree_wrong_parent", fmt.Sprintf("root %q has parent %q", n.SpanID, pm[n.SpanID]))
				}
			} else if pm[n.SpanID] != parent {
				ok = fail("span_tree_wrong_parent", fmt.Sprintf("node %q sits under %q, its parent is %q", n.SpanID, parent, pm[n.SpanID]))
			}
			if n.Actual != s.Start || n.Duration != s.Dur || n.Service != s.Svc || n.Operation != s.Name {
				ok = fail("span_tree_wrong_fields", fmt.Sprintf("node %q: fields differ from the span", n.SpanID))
			}
		}
		for _, c := range n.Children {
			walk(c, n.SpanID, false)
		}
	}
	walk(o.Tree, "", true)
	for id, c := range seen {
		if c > 1 {
			ok = fail("span_tree_duplicate_span", fmt.Sprintf("span %q appears %d times in the tree", id, c))
		}
	}
	if wf {
		for _, s := range tc.Spans {
			if seen[s.ID] == 0 {
				ok = fail("span_tree_missing_span", fmt.Sprintf("well-formed trace of %d spans: span %q is not in the tree", len(tc.Spans), s.ID))
				break
			}
		}
	}
	return ok
}

func coqTreeCase(tc *TreeCase, o treeObs) string {
	sp := make([]string, 0, len(tc.Spans))
	for _, s := range tc.Spans {
		sp = append(sp, fmt.Sprintf("G %s %s %s %d %d %d %d", vhlib.CoqStr(s.ID), vhlib.CoqStr(s.Svc), vhlib.CoqStr(s.Name), s.Start, s.End, s.Dur, s.Code))
	}
	// a Go map has one value per key: later entries overwrite earlier ones
	pm := map[string]string{}
	var keys []string
	for _, kv := range tc.Parent {
		if _, ok := pm[kv[0]]; !ok {
			keys = append(keys, kv[0])
		}
		pm[kv[0]] = kv[1]
	}
	ps := make([]string, 0, len(keys))
	for _, k := range keys {
		ps = append(ps, fmt.Sprintf("(%s, %s)", vhlib.CoqStr(k), vhlib.CoqStr(pm[k])))
	}
	obs := "None"
	if o.Tree != nil {
		budget := 1 << 30
		obs = "(Some " + coqOT(o.Tree, vhlib.CoqStr, &budget) + ")"
	}
	return fmt.Sprintf("(%s, %s, %s)", vhlib.CoqList(sp), vhlib.CoqList(ps), obs)
}

func streamTree(cfg vhlib.Config, r *vhlib.Rng, sum *vhlib.Summary) {
	n := 1000
	if cfg.Thorough() {
		n = 12000
	}
	var cases []string
	shard := 0
	flush := func() {
		if len(cases) == 0 {
			return
		}
		defs := "Definition cases : list (list span * pmap * option otree) := " + vhlib.CoqListNL(cases) + ".\n"
		sum.WriteCaseFile(cfg.Out, fmt.Sprintf("cases_c12_tree_%d", shard), "From SigM Require Import Base Trace TraceCheck.\n", defs,
			"indices_false (map (fun c => check_tree (fst (fst c)) (snd (fst c)) (snd c)) cases) 0", len(cases))
		shard++
		cases = nil
	}
	size := 0
	for i := 0; i < n; i++ {
		k := r.Intn(9)
		if r.Chance(15) {
			k = 9 + r.Intn(11)
		}
		if i%250 == 249 {
			k = 60 + r.Intn(140)
		}
		if cfg.Thorough() && i%1500 == 1499 {
			k = 1500 + r.Intn(2000)
		}
		tc := genTreeCase(r, k)
		o := runBuildSpanTree(&tc)
		okc := treeOracle(&tc, o, sum)
		kind := "tree"
		if o.Tree == nil {
			kind = "error"
		}
		sum.Count("build_span_tree/" + kind + fmt.Sprintf("/n<=%d", bucket(len(tc.Spans))))
		b, _ := json.Marshal(tc)
		sum.Eval("tree:"+string(b), len(tc.Spans) > 1)
		if i == 0 {
			sum.Sample(map[string]interface{}{"stream": "BuildSpanTree direct", "case": tc, "ok": okc})
		}
		if o.Err == "" || o.Err == "error" {
			c := coqTreeCase(&tc, o)
			cases = append(cases, c)
			size += len(c)
			if len(cases) >= 400 || size > 120000 {
				flush()
				size = 0
			}
		}
	}
	flush()
}

func bucket(n int) int {
	for _, b := range []int{1, 4, 8, 20, 100, 300, 1000} {
		if n <= b {
			return b
		}
	}
	return 100000
}

// ---------- quickSelect / pickPivot / FindPercentileData ----------
func genArr(r *vhlib.Rng, n int) []uint64 {
	a := make([]uint64, n)
	mode := r.Intn(6)
	for i := range a {
		switch mode {
		case 0:
			a[i] = uint64(r.Intn(5))
		case 1:
			a[i] = uint64(r.Intn(100))
		case 2:
			a[i] = uint64(i)
		case 3:
			a[i] = uint64(n - i)
		case 4:
			a[i] = r.U64() >> uint(2+r.Intn(40)) // below 2^62: (a+b)/2 cannot wrap
		default:
			a[i] = uint64(r.Intn(1000000)) * 1000
		}
	}
	return a
}

func coqNs(a []uint64) string {
	s := make([]string, len(a))
	for i, x := range a {
		s[i] = vhlib.CoqN(x)
	}
	return "[" + strings.Join(s, ";") + "]"
}

// a non-negative float64 as m * 2^e
func coqFl(f float64) string {
	if f == 0 {
		return "(F 0 0)"
	}
	if f < 0 || math.IsNaN(f) || math.IsInf(f, 0) {
		return "(F 1 5000)" // never equal to a model value
	}
	fr, ex := math.Frexp(f) // f = fr * 2^ex, 0.5 <= fr < 1
	m := uint64(fr * (1 << 53))
	e := ex - 53
	for m%2 == 0 {
		m /= 2
		e++
	}
	return fmt.Sprintf("(F %d (%d)%%Z)", m, e)
}

func pctSpec(arr []uint64, p int) *big.Rat {
	if len(arr) == 0 || p > 100 || p < 0 {
		return new(big.Rat)
	}
	s := append([]uint64{}, arr...)
	sort.Slice(s, func(i, j int) bool { return s[i] < s[j] })
	a := p * (len(s) - 1)
	lo := new(big.Rat).SetInt(new(big.Int).SetUint64(s[a/100]))
	if a%100 == 0 {
		return lo
	}
	up := new(big.Rat).SetInt(new(big.Int).SetUint64(s[a/100+1]))
	d := new(big.Rat).Sub(up, lo)
	d.Mul(d, big.NewRat(int64(a%100), 100))
	return lo.Add(lo, d)
}

func closeTo(f float64, q *big.Rat) bool {
	if math.IsNaN(f) || math.IsInf(f, 0) {
		return false
	}
	fr := new(big.Rat)
	fr.SetFloat64(f)
	d := new(big.Rat).Sub(fr, q)
	d.Abs(d)
	m := new(big.Rat).Abs(q)
	m.Mul(m, big.NewRat(1, 1000000000))
	return d.Cmp(m) <= 0
}

func streamQS(cfg vhlib.Config, r *vhlib.Rng, sum *vhlib.Summary) {
	n := 1000
	if cfg.Thorough() {
		n = 20000
	}
	var qsCases, pvCases, pcCases []string
	shard := 0
	flush := func() {
		if len(qsCases)+len(pvCases)+len(pcCases) == 0 {
			return
		}
		defs := "Definition qs : list (list N * nat * option N) := " + vhlib.CoqListNL(qsCases) + ".\n" +
			"Definition pv : list (list N * option N) := " + vhlib.CoqListNL(pvCases) + ".\n" +
			"Definition pc : list (list N * nat * fl) := " + vhlib.CoqListNL(pcCases) + ".\n"
		sum.WriteCaseFile(cfg.Out, fmt.Sprintf("cases_c12_qs_%d", shard), "From SigM Require Import Base Trace TraceCheck.\n", defs,
			"map N.of_nat (indices_false (map check_qs qs) 0) ++ map (fun i => 100000 + N.of_nat i) (indices_false (map check_pivot pv) 0) ++ map (fun i => 200000 + N.of_nat i) (indices_false (map check_pct pc) 0) ++ map (fun i => 300000 + N.of_nat i) (indices_false (map self_qs qs) 0)",
			len(qsCases)+len(pvCases)+len(pcCases))
		shard++
		qsCases, pvCases, pcCases = nil, nil, nil
	}
	for i := 0; i < n; i++ {
		ln := 1 + r.Intn(12)
		if r.Chance(30) {
			ln = 5 + r.Intn(60)
		}
		if i%160 == 159 {
			ln = 200 + r.Intn(500)
		}
		if cfg.Thorough() && i%2000 == 1999 {
			ln = 5000 + r.Intn(5000)
		}
		if r.Chance(1) {
			ln = 0
		}
		arr := genArr(r, ln)
		k := 0
		if ln > 0 {
			k = r.Intn(ln)
		}
		if r.Chance(2) {
			k = ln + r.Intn(3) // invalid k: the Go code panics on an empty slice
		}
		sorted := append([]uint64{}, arr...)
		sort.Slice(sorted, func(a, b int) bool { return sorted[a] < sorted[b] })
		// quickSelect
		var got uint64
		e := guarded(30*time.Second, func() { got = tutils.VerifQuickSelectU64(append([]uint64{}, arr...), k) })
		sum.Count(fmt.Sprintf("quickselect/n<=%d", bucket(ln)))
		sum.Eval(fmt.Sprintf("qs:%v:%d", arr, k), ln > 1)
		cs := map[string]interface{}{"arr": arr, "k": k}
		if e == "timeout" {
			sum.Fail("trace_handler_hang", "quickSelect did not return in 30 s", cs)
			continue
		}
		if k < ln {
			if e != "" {
				sum.Fail("trace_handler_panic", "quickSelect: "+e, cs)
			} else if got != sorted[k] {
				sum.Fail("quickselect_wrong", fmt.Sprintf("quickSelect(arr,%d)=%d, the %d-th smallest is %d", k, got, k, sorted[k]), cs)
			}
		}
		qsCases = append(qsCases, fmt.Sprintf("(%s, %d%%nat, %s)", coqNs(arr), k, vhlib.CoqOpt(e == "", vhlib.CoqN(got))))
		// pickPivot
		if i%3 == 0 {
			var pv uint64
			e := guarded(30*time.Second, func() { pv = tutils.VerifPickPivotU64(append([]uint64{}, arr...)) })
			if e == "timeout" {
				sum.Fail("trace_handler_hang", "pickPivot did not return in 30 s", cs)
				continue
			}
			pvCases = append(pvCases, fmt.Sprintf("(%s, %s)", coqNs(arr), vhlib.CoqOpt(e == "", vhlib.CoqN(pv))))
		}
		// FindPercentileData (the values of the RED path are milliseconds: far below 2^53)
		if ln == 0 || arr[len(sorted)-1] == sorted[len(sorted)-1] || true {
			p := vhlib.Pick(r, []int{50, 90, 95, 99, 50, 90, 95, 99, 0, 100, 1, 37, 101, -1})
			small := true
			for _, x := range arr {
				if x >= 1<<50 {
					small = false
				}
			}
			if small {
				var f float64
				e := guarded(30*time.Second, func() { f = tutils.FindPercentileData(append([]uint64{}, arr...), p) })
				cs := map[string]interface{}{"arr": arr, "percentile": p}
				sum.Count("find_percentile")
				if e == "timeout" {
					sum.Fail("trace_handler_hang", "FindPercentileData did not return in 30 s", cs)
					continue
				}
				if e != "" {
					sum.Fail("trace_handler_panic", "FindPercentileData: "+e, cs)
					continue
				}
				if want := pctSpec(arr, p); !closeTo(f, want) {
					sum.Fail("percentile_wrong", fmt.Sprintf("FindPercentileData(arr,%d)=%v, want %s", p, f, want.FloatString(6)), cs)
				}
				if p >= 0 {
					pcCases = append(pcCases, fmt.Sprintf("(%s, %d%%nat, %s)", coqNs(arr), p, coqFl(f)))
				}
			}
		}
		if len(qsCases) >= 250 {
			flush()
		}
	}
	flush()
}

// ---------- spanToJson ----------
func streamEvent(cfg vhlib.Config, r *vhlib.Rng, sum *vhlib.Summary) {
	n := 150
	if cfg.Thorough() {
		n = 3000
	}
	var cases []string
	rb := func(k int) []byte {
		b := make([]byte, k)
		for i := range b {
			b[i] = byte(r.Intn(256))
		}
		return b
	}
	for i := 0; i < n; i++ {
		tl, sl, pl := 16, 8, 8
		if r.Chance(10) {
			tl = vhlib.Pick(r, []int{0, 1, 8, 17})
		}
		if r.Chance(10) {
			sl = vhlib.Pick(r, []int{0, 1, 4, 9})
		}
		if r.Chance(40) {
			pl = 0
		}
		st := r.U64() >> uint(r.Intn(40))
		en := st + uint64(r.Intn(1000000000))
		if r.Chance(10) {
			en = r.U64() >> uint(r.Intn(40)) // possibly before the start: uint64 wrap-around
		}
		code := r.Intn(4)
		sp := &tracepb.Span{TraceId: rb(tl), SpanId: rb(sl), ParentSpanId: rb(pl), Name: fmt.Sprintf("op %d", r.Intn(50)),
			StartTimeUnixNano: st, EndTimeUnixNano: en, Status: statusOf(code), Kind: tracepb.Span_SPAN_KIND_CLIENT}
		if code == 3 {
			sp.Status = nil
		}
		svc := vhlib.Pick(r, []string{"A", "svc-b", "", "C d"})
		var raw []byte
		var err error
		e := guarded(10*time.Second, func() { raw, err = otlp.VerifSpanToJson(sp, svc) })
		cs := map[string]interface{}{"trace_id": hex.EncodeToString(sp.TraceId), "span_id": hex.EncodeToString(sp.SpanId), "start": st, "end": en, "code": code}
		sum.Count("span_to_json")
		sum.Eval(fmt.Sprintf("ev:%v", cs), true)
		if e != "" || err != nil {
			sum.Fail("trace_handler_panic", fmt.Sprintf("spanToJson: %s %v", e, err), cs)
			continue
		}
		dec := json.NewDecoder(strings.NewReader(string(raw)))
		dec.UseNumber()
		m := map[string]interface{}{}
		if err := dec.Decode(&m); err != nil {
			sum.Fail("span_event_wrong_field", "spanToJson output is not JSON", cs)
			continue
		}
		gs := func(k string) string { s, _ := m[k].(string); return s }
		gn := func(k string) uint64 {
			x, _ := m[k].(json.Number)
			v, _ := new(big.Int).SetString(string(x), 10)
			if v == nil || !v.IsUint64() {
				return 0
			}
			return v.Uint64()
		}
		if gs("trace_id") != hex.EncodeToString(sp.TraceId) || gs("span_id") != hex.EncodeToString(sp.SpanId) ||
			gs("parent_span_id") != hex.EncodeToString(sp.ParentSpanId) || gs("service") != svc || gs("name") != sp.Name ||
			gn("start_time") != st || gn("end_time") != en || gn("duration") != en-st || statusCode(gs("status")) != code {
			sum.Fail("span_event_wrong_field", "stored event differs from the span: "+string(raw), cs)
		}
		ost := "None"
		if code != 3 {
			ost = fmt.Sprintf("(Some %d)", code)
		}
		cases = append(cases, fmt.Sprintf("(%s, mkOtlp %s %s %s %s %d %d %s, mkSpan %s %s %s %s %s %d %d %d %d)",
			vhlib.CoqStr(svc), vhlib.CoqBytes(sp.TraceId), vhlib.CoqBytes(sp.SpanId), vhlib.CoqBytes(sp.ParentSpanId), vhlib.CoqStr(sp.Name), st, en, ost,
			vhlib.CoqStr(gs("trace_id")), vhlib.CoqStr(gs("span_id")), vhlib.CoqStr(gs("parent_span_id")), vhlib.CoqStr(gs("service")), vhlib.CoqStr(gs("name")),
			gn("start_time"), gn("end_time"), gn("duration"), statusCode(gs("status"))))
	}
	for sh := 0; sh*500 < len(cases); sh++ {
		hi := (sh + 1) * 500
		if hi > len(cases) {
			hi = len(cases)
		}
		defs := "Definition cases : list (str * otlp_span * span) := " + vhlib.CoqListNL(cases[sh*500:hi]) + ".\n"
		sum.WriteCaseFile(cfg.Out, fmt.Sprintf("cases_c12_event_%d", sh), "From SigM Require Import Base Trace TraceCheck.\n", defs,
			"indices_false (map check_event cases) 0", hi-sh*500)
	}
}

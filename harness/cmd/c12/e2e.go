// e2e.go: span forests ingested through the real OTLP path into a fresh store (one worker
// process per scenario), the four views read through the real handlers, compared with an
// independent specification (property oracle) and with the Coq model (case files).
package main

import (
	"context"
	"encoding/json"
	"fmt"
	"math/big"
	"os"
	"os/exec"
	"path/filepath"
	"sort"
	"strings"
	"sync"
	"time"

	"verifharness/vhlib"
)

const baseNs = uint64(1700000000000) * 1000000 // 2023-11-14, divisible by 2^17
const unit = uint64(1024)                      // all generated times are multiples of 1024 ns (exact in float64 below 2^63)
const winStartMs = uint64(1600000000000)
const winEndMs = uint64(4000000000000)

type genSpan struct {
	T, S, P uint64 // numeric ids (P = 0: root); S and P carry sidPrefix
	SvcI, NameI int // indices into svcPool / name table
	SentI       int // index of the service name the resource sends (kinds 0,4,5)
	Span
}

func nameOf(k int) string {
	if k < 10 {
		return fmt.Sprintf("op%d", k)
	}
	return fmt.Sprintf("op%dx", k/10)
}
func (g *genSpan) setSvc(i int)  { g.SvcI = i; g.Span.Svc = svcPool[i] }
func (g *genSpan) setName(i int) { g.NameI = i; g.Span.Name = nameOf(i) }

type E2E struct {
	Kind   string    `json:"kind"`
	Sc     Scenario  `json:"scenario"`
	gs     []genSpan // same order as Sc.Spans
	dupIDs bool      // some span id occurs twice
	perLo  []int     // streams of aggregated views (agg.go): period p holds the spans perLo[p]..perLo[p+1]-1
	noCoq  bool      // trace ids outside the compact encoding of the case files: oracle only
}

func tidHex(t uint64) string { return fmt.Sprintf("ab%014x%016x", 0, t) }

// the 128-bit trace id as a decimal number (for the Coq case files)
func tbig(t uint64) string {
	v := new(big.Int).Lsh(big.NewInt(0xab), 120)
	return v.Add(v, new(big.Int).SetUint64(t)).String()
}

const sidPrefix = uint64(0xcd00000000000000) // span ids contain letters (never look like numbers)
func sidHex(s uint64) string {
	if s == 0 {
		return ""
	}
	return fmt.Sprintf("%016x", s)
}

var svcPool = []string{"A", "B", "C", "checkout", "db", "auth-svc", "X1", "X2", "Y1", "Y2", "", "web.front", "db.v2", "q.r"}

const svcNone = 10 // index of "": the service of a span whose resource carries no service.name

const nSvc = 6 // X1..Y2 are used by the crossjoin stream only, the names with a '.' by the aggdot stream only (agg.go)

type traceOpt struct {
	n       int
	shape   int // 0 random 1 chain 2 star 3 binary
	nsvc    int
	skew    bool // children may start before their parent
	startMs uint64
	longEnd bool // root ends after the window
}

// one well-formed trace: span ids sbase+1 .. sbase+n, root = sbase+1
func genTrace(r *vhlib.Rng, t uint64, sbase uint64, o traceOpt) []genSpan {
	out := make([]genSpan, 0, o.n)
	start := make([]uint64, o.n)
	sbase |= sidPrefix
	for i := 0; i < o.n; i++ {
		var p uint64
		pi := -1
		if i > 0 {
			switch o.shape {
			case 0:
				pi = r.Intn(i)
			case 1:
				pi = i - 1
			case 2:
				pi = 0
			default:
				pi = (i - 1) / 2
			}
			p = sbase + uint64(pi) + 1
		}
		var st uint64
		if i == 0 {
			st = baseNs + o.startMs*1000*unit
		} else {
			st = start[pi] + uint64(r.Intn(3000))*unit
			if o.skew && r.Chance(30) {
				d := uint64(1+r.Intn(2000)) * unit
				if st > baseNs+d {
					st = start[pi] - d
				}
			}
			if r.Chance(10) {
				st = start[pi] // equal start times: the span-id tie-break decides the order of children
			}
		}
		start[i] = st
		dur := uint64(r.Intn(4000000)) * unit // up to ~4 s
		if r.Chance(10) {
			dur = uint64(r.Intn(900)) * unit // below one millisecond
		}
		en := st + dur
		if i == 0 && o.longEnd {
			en = uint64(5000000000000) * 1000000
		}
		code := vhlib.Pick(r, []int{0, 1, 1, 1, 2, 2, 3})
		si, ni := r.Intn(o.nsvc), r.Intn(8)
		out = append(out, genSpan{T: t, S: sbase + uint64(i) + 1, P: p, SvcI: si, NameI: ni, Span: Span{T: tidHex(t), S: sidHex(sbase + uint64(i) + 1), P: sidHex(p),
			Svc: svcPool[si], Name: nameOf(ni), Start: st, End: en, St: code}})
	}
	return out
}

func setParent(g *genSpan, p uint64) { g.P = p; g.Span.P = sidHex(p) }

// malformations that keep span ids unique
func malform(r *vhlib.Rng, tr []genSpan) string {
	n := len(tr)
	switch k := r.Intn(7); {
	case k == 0 || n < 2:
		if n >= 2 {
			setParent(&tr[1+r.Intn(n-1)], sidPrefix|(0xdead0000+uint64(r.Intn(100))))
			return "missing_parent"
		}
		return "none"
	case k == 1: // second root with the same start and end as the root (different start: own stream)
		i := 1 + r.Intn(n-1)
		setParent(&tr[i], 0)
		tr[i].Start, tr[i].End = tr[0].Start, tr[0].End
		if r.Bool() {
			tr[i].setSvc(tr[0].SvcI)
			tr[i].setName(tr[0].NameI)
			return "two_roots_same_attrs"
		}
		tr[i].setName(10 * (tr[0].NameI%10 + 1))
		return "two_roots_diff_name"
	case k == 2 && n >= 3:
		a, b := 1+r.Intn(n-1), 1+r.Intn(n-1)
		if a == b {
			b = 1 + (a % (n - 1))
		}
		setParent(&tr[a], tr[b].S)
		setParent(&tr[b], tr[a].S)
		return "cycle2"
	case k == 3:
		i := 1 + r.Intn(n-1)
		setParent(&tr[i], tr[i].S)
		return "self_parent"
	case k == 4: // no root
		setParent(&tr[0], tr[n-1].S)
		return "no_root"
	case k == 5 && n >= 4:
		setParent(&tr[1], tr[2].S)
		setParent(&tr[2], tr[3].S)
		setParent(&tr[3], tr[1].S)
		return "cycle3"
	default:
		setParent(&tr[n-1], sidPrefix|0xdead0000)
		return "missing_parent"
	}
}

func batches(r *vhlib.Rng, n int) []int {
	var b []int
	for n > 0 {
		k := n
		if r.Chance(60) {
			k = 1 + r.Intn(n)
		}
		b = append(b, k)
		n -= k
	}
	return b
}

func shuffle(r *vhlib.Rng, gs []genSpan) {
	for i := range gs {
		j := i + r.Intn(len(gs)-i)
		gs[i], gs[j] = gs[j], gs[i]
	}
}

func finish(r *vhlib.Rng, kind string, gs []genSpan, order int) *E2E {
	switch order {
	case 0: // ingest order: shuffled
		shuffle(r, gs)
	case 1: // children before parents
		for i, j := 0, len(gs)-1; i < j; i, j = i+1, j-1 {
			gs[i], gs[j] = gs[j], gs[i]
		}
	}
	e := &E2E{Kind: kind, gs: gs}
	tset := map[string]bool{}
	seen := map[string]bool{}
	for _, g := range gs {
		e.Sc.Spans = append(e.Sc.Spans, g.Span)
		tset[g.Span.T] = true
		if seen[g.Span.S] {
			e.dupIDs = true
		}
		seen[g.Span.S] = true
	}
	e.Sc.Batches = batches(r, len(gs))
	e.Sc.FlushEach = r.Bool()
	e.Sc.Rotate = r.Chance(30)
	e.Sc.StartMs, e.Sc.EndMs = winStartMs, winEndMs
	e.Sc.Pages = (len(tset)+49)/50 + 1
	for t := range tset {
		e.Sc.Gantt = append(e.Sc.Gantt, t)
	}
	sort.Strings(e.Sc.Gantt)
	if len(e.Sc.Gantt) > 12 {
		e.Sc.Gantt = e.Sc.Gantt[:12]
	}
	e.Sc.Dep, e.Sc.Red = true, true
	return e
}

func genForest(r *vhlib.Rng, ntr, maxSpans int, mal bool) ([]genSpan, []string) {
	var gs []genSpan
	var kinds []string
	left := maxSpans
	sb := uint64(0x1000)
	for t := 1; t <= ntr && left > 0; t++ {
		n := 1 + r.Intn(12)
		if r.Chance(15) {
			n = 12 + r.Intn(30)
		}
		if n > left {
			n = left
		}
		o := traceOpt{n: n, shape: r.Intn(4), nsvc: 1 + r.Intn(nSvc), skew: r.Chance(25), startMs: uint64(r.Intn(5000)), longEnd: r.Chance(5)}
		tr := genTrace(r, uint64(t), sb, o)
		if mal && r.Chance(60) {
			kinds = append(kinds, malform(r, tr))
		}
		gs = append(gs, tr...)
		sb += uint64(n) + 16
		left -= n
	}
	return gs, kinds
}

// assignResources cuts every OTLP request (batch) into ResourceSpans entries: a new entry starts with
// the batch, with a change of service, and at random; about 30% of the entries (when unnamed is set) carry
// no service name (nil Resource / attributes without service.name / a non-string service.name) in any
// position, and their spans must be stored with service "".
func assignResources(r *vhlib.Rng, e *E2E, unnamed bool, splitPct int) {
	pos, res := 0, 0
	orig := make([]int, len(e.gs))
	for i := range e.gs {
		orig[i] = e.gs[i].SvcI
	}
	for _, n := range e.Sc.Batches {
		kind, split := 0, false
		for i := pos; i < pos+n && i < len(e.gs); i++ {
			if i == pos || orig[i] != orig[i-1] || r.Chance(splitPct) {
				res++
				kind = vhlib.Pick(r, []int{0, 0, 0, 4, 5})
				if unnamed && r.Chance(30) {
					kind = vhlib.Pick(r, []int{1, 2, 3})
				}
				split = r.Chance(25)
			}
			g := &e.gs[i]
			g.R, g.RK, g.RS, g.SvcN, g.SentI = res, kind, split, svcPool[orig[i]], orig[i]
			if kind >= 1 && kind <= 3 {
				g.setSvc(svcNone)
			}
			e.Sc.Spans[i] = g.Span
		}
		pos += n
	}
}

func genE2E(r *vhlib.Rng, kind string) *E2E {
	if isAggKind(kind) {
		e := genAgg(r, kind)
		if len(e.gs) > 0 {
			assignResources(r, e, kind == "aggunnamed", 15)
		}
		return e
	}
	e := genE2E0(r, kind)
	if e == nil {
		return nil
	}
	switch kind {
	case "main", "malformed", "dupid", "big", "huge", "paged", "pagedwin":
		assignResources(r, e, true, 15)
	case "otlp":
		assignResources(r, e, true, 45)
	default: // known-class streams keep their services
		assignResources(r, e, false, 15)
	}
	return e
}

func genE2E0(r *vhlib.Rng, kind string) *E2E {
	switch kind {
	case "otlp": // many small ResourceSpans entries per request, named and unnamed in all positions
		gs, _ := genForest(r, 2+r.Intn(5), 60, false)
		e := finish(r, kind, gs, r.Intn(3))
		if len(e.Sc.Batches) > 3 {
			e.Sc.Batches = []int{len(gs) / 2, len(gs) - len(gs)/2}
		}
		return e
	case "main": // well-formed forests of at most 100 spans: all four views are exact
		gs, _ := genForest(r, 1+r.Intn(9), 100, false)
		e := finish(r, kind, gs, r.Intn(3))
		if r.Chance(40) { // a window that cuts off the traces whose root starts early
			e.Sc.StartMs = (baseNs/1000000 + uint64(r.Intn(5200)))
		}
		return e
	case "malformed":
		gs, _ := genForest(r, 1+r.Intn(8), 100, true)
		return finish(r, kind, gs, r.Intn(3))
	case "dupid": // one duplicated span id, inside a trace or across two traces
		gs, _ := genForest(r, 2+r.Intn(4), 60, false)
		i, j := r.Intn(len(gs)), r.Intn(len(gs))
		if i != j {
			gs[j].S, gs[j].Span.S = gs[i].S, gs[i].Span.S
		}
		return finish(r, kind, gs, r.Intn(3))
	case "crossjoin": // known class: a span whose parent id exists only in ANOTHER trace
		gs, _ := genForest(r, 1+r.Intn(3), 40, false)
		sb := uint64(0x900000)
		t1 := genTrace(r, 101, sb, traceOpt{n: 2, shape: 1, nsvc: 1, startMs: 5})
		t2 := genTrace(r, 102, sb+16, traceOpt{n: 3, shape: 2, nsvc: 1, startMs: 6})
		t1[0].setSvc(6)
		t1[1].setSvc(7)
		t2[0].setSvc(8)
		t2[1].setSvc(9)
		setParent(&t2[1], t1[1].S) // t2's children name a span of t1 as their parent: no edge X2->Y2 exists in any trace,
		t2[2].setSvc(7)            // and the second child (service X2, like the foreign span) is an entry span of X2
		setParent(&t2[2], t1[1].S)
		gs = append(append(gs, t1...), t2...)
		return finish(r, kind, gs, r.Intn(3))
	case "multiroot": // known class: one trace with two roots that start at different times
		gs, _ := genForest(r, 1+r.Intn(5), 60, false)
		tr := genTrace(r, 77, 0x800000, traceOpt{n: 3 + r.Intn(4), shape: 2, nsvc: 2, startMs: 10})
		setParent(&tr[1], 0)
		if tr[1].Start == tr[0].Start {
			tr[1].Start += unit
			tr[1].End += unit
		}
		gs = append(gs, tr...)
		return finish(r, kind, gs, r.Intn(3))
	case "deppage": // known class: more than 100 spans in the window
		var gs []genSpan
		ntr := 51 + r.Intn(100)
		for t := 1; t <= ntr; t++ {
			tr := genTrace(r, uint64(t), uint64(t)*16, traceOpt{n: 2, shape: 1, nsvc: 1, startMs: uint64(t)})
			tr[0].setSvc(0)
			tr[1].setSvc(1)
			gs = append(gs, tr...)
		}
		e := finish(r, kind, gs, 2)
		e.Sc.Gantt = e.Sc.Gantt[:3]
		return e
	case "numid": // known class: a trace id that consists of decimal digits only
		gs, _ := genForest(r, 1+r.Intn(3), 40, false)
		tr := genTrace(r, 500, 0x700000, traceOpt{n: 2 + r.Intn(5), shape: r.Intn(4), nsvc: 3, startMs: 7})
		id := fmt.Sprintf("%032d", 1000000007+uint64(r.Intn(1000000)))
		for i := range tr {
			tr[i].Span.T = id
		}
		e := finish(r, kind, append(gs, tr...), r.Intn(3))
		e.noCoq = true
		return e
	case "manytraces": // known class: more than one page (50) of traces, at most 100 spans
		var gs []genSpan
		ntr := 51 + r.Intn(40)
		left := 100
		for t := 1; t <= ntr; t++ {
			n := 1
			if left-(ntr-t) >= 2 && r.Bool() {
				n = 2
			}
			gs = append(gs, genTrace(r, uint64(t), uint64(t)*16, traceOpt{n: n, shape: 1, nsvc: 3, startMs: uint64(t)})...)
			left -= n
		}
		e := finish(r, kind, gs, r.Intn(3))
		e.Sc.Gantt = e.Sc.Gantt[:3]
		return e
	case "big": // 101..1000 spans, well formed
		mx := 101 + r.Intn(300)
		if r.Chance(30) {
			mx = 400 + r.Intn(600)
		}
		gs, _ := genForest(r, 3+r.Intn(45), mx, false)
		for round := uint64(1); len(gs) <= 100; round++ { // top up with further traces (fresh trace and span ids)
			more, _ := genForest(r, 5, 200, false)
			for i := range more {
				more[i].T += 1000 * round
				more[i].Span.T = tidHex(more[i].T)
				more[i].S += 0x4000000 * round
				more[i].Span.S = sidHex(more[i].S)
				if more[i].P != 0 {
					setParent(&more[i], more[i].P+0x4000000*round)
				}
			}
			gs = append(gs, more...)
		}
		return finish(r, kind, gs, r.Intn(3))
	case "paged", "pagedwin":
		// more spans than one internal result page (1000) of the handlers, every span in its own OTLP request
		// with its own ingest timestamp (no ties: from/size paging is deterministic), flushed into several
		// blocks / segments whose edges are unrelated to the multiples of 1000, few blocks per fetch:
		// the views must be EXACT.  paged: one trace of > 1000 (often > 2000) spans + small ones;
		// pagedwin: many ordinary traces, > 1000 / > 2000 spans in the window
		var gs []genSpan
		total := 1001 + r.Intn(900)
		if r.Chance(50) {
			total = 2001 + r.Intn(700)
		}
		if kind == "paged" {
			gs = genTrace(r, 1, 0x1000, traceOpt{n: total, shape: vhlib.Pick(r, []int{0, 0, 2, 3}), nsvc: 2 + r.Intn(3), startMs: 1})
			for t := uint64(2); t <= 3; t++ {
				gs = append(gs, genTrace(r, t, 0x100000*t, traceOpt{n: 2 + r.Intn(6), shape: r.Intn(4), nsvc: 3, startMs: t})...)
			}
		} else {
			sb := uint64(0x1000)
			for t := uint64(1); len(gs) < total; t++ {
				n := 1 + r.Intn(14)
				if r.Chance(10) {
					n = 20 + r.Intn(60)
				}
				gs = append(gs, genTrace(r, t, sb, traceOpt{n: n, shape: r.Intn(4), nsvc: 1 + r.Intn(nSvc), skew: r.Chance(25), startMs: uint64(r.Intn(5000))})...)
				sb += uint64(n) + 16
			}
		}
		e := finish(r, kind, gs, r.Intn(3))
		n := len(gs)
		e.Sc.Batches = make([]int, n)
		e.Sc.Layout = make([]int, n)
		for i := range e.Sc.Batches {
			e.Sc.Batches[i] = 1
		}
		for i, nb := 0, len(e.Sc.Batches); i < nb; { // block sizes 30..700 spans; a quarter of the block ends also end the segment
			i += 30 + r.Intn(vhlib.Pick(r, []int{100, 300, 671}))
			if i-1 < nb {
				e.Sc.Layout[i-1] = 1
				if r.Chance(25) {
					e.Sc.Layout[i-1] = 2
				}
			}
		}
		e.Sc.OwnTs, e.Sc.FlushEach, e.Sc.Rotate = true, false, r.Chance(30)
		e.Sc.Procs = vhlib.Pick(r, []int{1, 1, 2, 3})
		e.Sc.Raw = []string{"*"}
		if kind == "paged" {
			e.Sc.Raw = append(e.Sc.Raw, tidHex(1))
		}
		if len(e.Sc.Gantt) > 3 {
			e.Sc.Gantt = e.Sc.Gantt[:3]
		}
		return e
	case "over11k":
		// more spans in the window than the paged readers can reach: a search request with from > 10 000 is
		// answered with an empty page (ParseAndExecutePipeRequest: isScrollMax), so the loops from = 0, 1000, ...
		// stop after from = 10 000, i.e. after the newest 11 000 spans.  Two-span traces A -> B, one span per
		// OTLP request (pairwise different timestamps)
		var gs []genSpan
		ntr := 5501 + r.Intn(300)
		for t := 1; t <= ntr; t++ {
			tr := genTrace(r, uint64(t), uint64(t)*16, traceOpt{n: 2, shape: 1, nsvc: 1, startMs: uint64(t)})
			tr[0].setSvc(0)
			tr[1].setSvc(1 + r.Intn(2))
			gs = append(gs, tr...)
		}
		e := finish(r, kind, gs, 2)
		n := len(gs)
		e.Sc.Batches = make([]int, n)
		e.Sc.Layout = make([]int, n)
		for i := range e.Sc.Batches {
			e.Sc.Batches[i] = 1
		}
		for i := 0; i < n; {
			i += 300 + r.Intn(1500)
			if i-1 < n {
				e.Sc.Layout[i-1] = 1 + r.Intn(2)
			}
		}
		e.Sc.OwnTs, e.Sc.FlushEach, e.Sc.Rotate = true, false, false
		e.Sc.Procs = vhlib.Pick(r, []int{1, 2, 3})
		e.Sc.Pages = 0 // no trace search (thousands of traces: more than a hundred search pages)
		e.Sc.Gantt = e.Sc.Gantt[:2]
		e.Sc.Raw = []string{"*"}
		return e
	case "huge": // one trace of more than 1000 spans (a partial span tree is acceptable)
		n := 1001 + r.Intn(1500)
		tr := genTrace(r, 1, 0x1000, traceOpt{n: n, shape: vhlib.Pick(r, []int{0, 2, 3}), nsvc: 4, startMs: 1})
		small := genTrace(r, 2, 0x100000, traceOpt{n: 3, shape: 1, nsvc: 2, startMs: 2})
		e := finish(r, kind, append(tr, small...), r.Intn(3))
		for len(e.Sc.Batches) < 3 { // several requests: several ingest timestamps
			e.Sc.Batches = []int{n / 3, n / 3, n + 3 - 2*(n/3)}
		}
		return e
	}
	return nil
}

// ---------- specification (independent of the code under test and of the model) ----------
type key struct{ t, s string }

type spec struct {
	spans   []Span
	byTrace map[string][]Span
	tids    []string
}

func newSpec(spans []Span) *spec {
	s := &spec{spans: spans, byTrace: map[string][]Span{}}
	for _, x := range spans {
		if _, ok := s.byTrace[x.T]; !ok {
			s.tids = append(s.tids, x.T)
		}
		s.byTrace[x.T] = append(s.byTrace[x.T], x)
	}
	sort.Strings(s.tids)
	return s
}

// a trace is well formed: unique span ids, exactly one root, every parent present, no cycle
func (s *spec) wellFormed(t string) bool {
	tr := s.byTrace[t]
	par := map[string]string{}
	roots := 0
	for _, x := range tr {
		if _, dup := par[x.S]; dup {
			return false
		}
		par[x.S] = x.P
		if x.P == "" {
			roots++
		}
	}
	if roots != 1 {
		return false
	}
	for _, x := range tr {
		cur, steps := x.S, 0
		for par[cur] != "" {
			nx, ok := par[par[cur]]
			_ = nx
			if !ok {
				return false
			}
			cur = par[cur]
			steps++
			if steps > len(tr) {
				return false
			}
		}
	}
	return true
}

func (s *spec) roots(t string) []Span {
	var r []Span
	for _, x := range s.byTrace[t] {
		if x.P == "" {
			r = append(r, x)
		}
	}
	return r
}

// parent-child pairs inside one trace that cross services
func (s *spec) exactDep() map[string]map[string]int {
	m := map[string]map[string]int{}
	for _, tr := range s.byTrace {
		for _, c := range tr {
			if c.P == "" {
				continue
			}
			for _, p := range tr {
				if p.S == c.P && p.Svc != c.Svc {
					if m[p.Svc] == nil {
						m[p.Svc] = map[string]int{}
					}
					m[p.Svc][c.Svc]++
				}
			}
		}
	}
	return m
}

type redSpec struct {
	cnt, errs int
	durMs     []uint64
}

// entry spans: no parent, or no span of the same trace with the parent's id, or that span is in another service
func (s *spec) exactRed() map[string]*redSpec {
	m := map[string]*redSpec{}
	for _, tr := range s.byTrace {
		for _, c := range tr {
			entry := true
			if c.P != "" {
				for _, p := range tr {
					if p.S == c.P && p.Svc == c.Svc {
						entry = false
					}
				}
			}
			if !entry {
				continue
			}
			if m[c.Svc] == nil {
				m[c.Svc] = &redSpec{}
			}
			m[c.Svc].cnt++
			if c.St == 2 {
				m[c.Svc].errs++
			}
			m[c.Svc].durMs = append(m[c.Svc].durMs, (c.End-c.Start)/1000000)
		}
	}
	return m
}

func depEqual(a, b map[string]map[string]int) bool {
	flat := func(m map[string]map[string]int) map[string]int {
		f := map[string]int{}
		for x, mm := range m {
			for y, v := range mm {
				if v != 0 {
					f[x+"\x00"+y] = v
				}
			}
		}
		return f
	}
	fa, fb := flat(a), flat(b)
	if len(fa) != len(fb) {
		return false
	}
	for k, v := range fa {
		if fb[k] != v {
			return false
		}
	}
	return true
}

// ---------- running one scenario in a worker process ----------
func runWorker(dir string, e *E2E) (*WorkerObs, string) {
	_ = os.RemoveAll(dir)
	_ = os.MkdirAll(filepath.Join(dir, "data"), 0o755)
	sp, op := filepath.Join(dir, "scenario.json"), filepath.Join(dir, "obs.json")
	b, _ := json.Marshal(e.Sc)
	_ = os.WriteFile(sp, b, 0o644)
	ctx, cancel := context.WithTimeout(context.Background(), 300*time.Second)
	defer cancel()
	cmd := exec.CommandContext(ctx, os.Args[0], "worker", filepath.Join(dir, "data"), sp, op)
	if e.Sc.Procs > 0 {
		// fetchRRCs takes runtime.GOMAXPROCS(0) blocks per fetch: with the default of a large machine the hits of
		// every scenario reach the head / scroll stages as ONE batch; small values give several batches per query
		cmd.Env = append(os.Environ(), fmt.Sprintf("GOMAXPROCS=%d", e.Sc.Procs))
	}
	out, err := cmd.CombinedOutput()
	if ctx.Err() != nil {
		return nil, "timeout"
	}
	if err != nil {
		tail := string(out)
		if len(tail) > 1500 {
			tail = tail[len(tail)-1500:]
		}
		return nil, "crash: " + err.Error() + ": " + tail
	}
	ob, err := os.ReadFile(op)
	if err != nil {
		return nil, "crash: no observation file"
	}
	var o WorkerObs
	if err := json.Unmarshal(ob, &o); err != nil {
		return nil, "crash: bad observation file"
	}
	_ = os.RemoveAll(dir)
	return &o, ""
}

// ---------- the property evaluated on the observations ----------
func replayCase(e *E2E, tids ...string) interface{} {
	// the spans of the named traces only (all spans when none is named)
	if len(tids) == 0 || len(e.Sc.Spans) <= 40 {
		return e
	}
	keep := map[string]bool{}
	for _, t := range tids {
		keep[t] = true
	}
	c := *e
	c.Sc.Spans = nil
	for _, s := range e.Sc.Spans {
		if keep[s.T] {
			c.Sc.Spans = append(c.Sc.Spans, s)
		}
	}
	if len(c.Sc.Spans) > 300 {
		c.Sc.Spans = c.Sc.Spans[:300]
	}
	return map[string]interface{}{"kind": e.Kind, "note": "spans of the offending trace(s) only; the run used seed-generated scenario", "scenario": c.Sc}
}

func oracle(e *E2E, o *WorkerObs, sum *vhlib.Summary) {
	sp := newSpec(e.Sc.Spans)
	total := len(e.Sc.Spans)
	fail := func(class, detail string, tids ...string) { sum.Fail(class, e.Kind+": "+detail, replayCase(e, tids...)) }
	hp := func(where, s string) bool { // handler panic / hang
		if strings.HasPrefix(s, "panic") {
			fail("trace_handler_panic", where+": "+s)
			return true
		}
		if s == "timeout" {
			fail("trace_handler_hang", where+": no answer within 60 s")
			return true
		}
		return false
	}
	for i, c := range o.Ingest {
		if c != 200 {
			fail("trace_ingest_rejected", fmt.Sprintf("OTLP request %d answered %d", i, c))
		}
	}

	// ---- stored events: every span is stored once, with the service of its own resource ----
	if !hp("query of index traces", o.StoredErr) && o.StoredErr == "" && total <= 9000 {
		want := map[string]int{}
		for _, x := range e.Sc.Spans {
			want[x.T+"/"+x.S+"/"+x.Svc]++
		}
		got := map[string]int{}
		for _, x := range o.Stored {
			got[x.T+"/"+x.S+"/"+x.Svc]++
		}
		for _, x := range e.Sc.Spans {
			k := x.T + "/" + x.S + "/" + x.Svc
			if got[k] != want[k] {
				other := ""
				for _, y := range o.Stored {
					if y.T == x.T && y.S == x.S {
						other = y.Svc
					}
				}
				if other != "" || got[k] > 0 {
					fail("span_stored_wrong_service", fmt.Sprintf("span %s of trace %s sent in a ResourceSpans entry of kind %d (service %q expected) is stored with service %q", x.S, x.T, x.RK, x.Svc, other), x.T)
				} else {
					fail("span_stored_missing", fmt.Sprintf("span %s of trace %s is not in index traces", x.S, x.T), x.T)
				}
				break
			}
		}
		if len(o.Stored) != total {
			fail("span_stored_count", fmt.Sprintf("%d spans ingested, %d stored", total, len(o.Stored)))
		}
	}

	// ---- ingest timestamps: from/size paging re-runs the query for every page and is deterministic only when
	// no two hits share a timestamp (C05 paging_timestamp_ties); the stored events tell whether that is the case
	tsOf := map[string]uint64{}
	tsList, tsDistinct := spanTimestamps(e, o)
	if e.dupIDs {
		tsDistinct = false
	}
	if tsDistinct {
		for i, x := range e.Sc.Spans {
			tsOf[x.T+"/"+x.S] = tsList[i]
		}
	}
	// a search request with from > 10 000 is answered with no hits, so the paged readers reach the newest
	// 11 000 spans of the window only (known finding window_over_11000_spans_truncated): what they must then
	// show is the exact view of those spans
	const reach = 11000
	spR := sp // the specification over the reachable spans
	if total > reach && tsDistinct {
		idx := make([]int, total)
		for i := range idx {
			idx[i] = i
		}
		sort.SliceStable(idx, func(a, b int) bool { return tsList[idx[a]] > tsList[idx[b]] })
		var newest []Span
		for _, i := range idx[:reach] {
			newest = append(newest, e.Sc.Spans[i])
		}
		spR = newSpec(newest)
	}
	if total > 1000 {
		if tsDistinct {
			sum.Count("observed/over_1000_spans_pairwise_distinct_timestamps")
		} else {
			sum.Count("observed/over_1000_spans_shared_timestamps")
		}
	}

	// ---- raw paged reads (the requests the handlers send): with pairwise different timestamps page k is exactly
	// the slice [1000k, 1000k+1000) of the matching spans, newest first ----
	for _, what := range e.Sc.Raw {
		ro := o.Raw[what]
		if ro == nil || hp("paged read of "+what, ro.Err) {
			continue
		}
		if ro.Err != "" {
			fail("span_pages_error", "paged read of "+what+": "+ro.Err)
			continue
		}
		if !tsDistinct {
			continue
		}
		var want []string
		for _, x := range e.Sc.Spans {
			if what == "*" || x.T == what {
				want = append(want, x.T+"/"+x.S)
			}
		}
		sort.SliceStable(want, func(i, j int) bool { return tsOf[want[i]] > tsOf[want[j]] })
		if len(want) > reach {
			if len(ro.Pages) == reach/1000 {
				fail("window_over_11000_spans_truncated", fmt.Sprintf("search %q over %d matching spans read in pages of 1000 until an empty page: the request from=%d is answered with no hits (scroll limit 10 000), %d spans are never read", what, len(want), reach, len(want)-reach))
			}
			want = want[:reach]
		}
		got := 0
		for k, pg := range ro.Pages {
			lo, hi := 1000*k, 1000*k+1000
			if lo > len(want) {
				lo = len(want)
			}
			if hi > len(want) {
				hi = len(want)
			}
			got += len(pg)
			ok := len(pg) == hi-lo
			for i := 0; ok && i < len(pg); i++ {
				ok = pg[i] == want[lo+i]
			}
			if !ok {
				first := ""
				if len(pg) > 0 {
					first = pg[0]
				}
				fail("span_page_not_the_from_size_slice", fmt.Sprintf("search %q over %d matching spans with pairwise different timestamps in %d blocks (GOMAXPROCS=%d): page from=%d size=1000 holds %d spans (first %s), expected the %d spans %d..%d in newest-first order (first %s); pages read: %v",
					what, len(want), e.blocks(), e.Sc.Procs, 1000*k, len(pg), first, hi-lo, lo, hi-1, want[lo:][:min(1, hi-lo)], pageSizes(ro.Pages)))
				break
			}
		}
		if got < len(want) && len(ro.Pages) <= (len(want)+999)/1000 {
			all := map[string]bool{}
			for _, pg := range ro.Pages {
				for _, k := range pg {
					all[k] = true
				}
			}
			miss := 0
			for _, k := range want {
				if !all[k] {
					miss++
				}
			}
			if miss > 0 {
				fail("span_pages_lose_spans", fmt.Sprintf("search %q read in pages of 1000 until an empty page (page sizes %v): %d of %d matching spans (pairwise different timestamps, %d blocks, GOMAXPROCS=%d) are in no page",
					what, pageSizes(ro.Pages), miss, len(want), e.blocks(), e.Sc.Procs))
			}
		}
	}

	// ---- search ----
	listed := map[string]int{}
	aborted := false
	for pi, p := range o.Search {
		if hp(fmt.Sprintf("ProcessSearchTracesRequest page %d", pi+1), p.Err) {
			continue
		}
		if p.Code != 200 {
			aborted = true
			continue
		}
		for _, t := range p.Traces {
			listed[t.TraceId]++
			tr, ok := sp.byTrace[t.TraceId]
			if !ok {
				fail("cross_trace_attribution", "search lists unknown trace "+t.TraceId)
				continue
			}
			cnt, errs := 0, 0
			for _, x := range tr {
				cnt++
				if x.St == 2 {
					errs++
				}
			}
			if t.SpanCount != cnt {
				fail("search_wrong_span_count", fmt.Sprintf("trace %s: span_count %d, ingested %d", t.TraceId, t.SpanCount, cnt), t.TraceId)
			}
			if t.ErrCount != errs {
				fail("search_wrong_error_count", fmt.Sprintf("trace %s: span_errors_count %d, ingested %d error spans", t.TraceId, t.ErrCount, errs), t.TraceId)
			}
			okRoot := false
			for _, rt := range sp.roots(t.TraceId) {
				if rt.Svc == t.Service && rt.Name == t.Operation {
					okRoot = true
				}
			}
			if !okRoot {
				fail("search_wrong_root", fmt.Sprintf("trace %s listed with %s/%s which is not a root span of it", t.TraceId, t.Service, t.Operation), t.TraceId)
			}
		}
	}
	multiRootDiffStart := ""
	for _, t := range sp.tids {
		rs := sp.roots(t)
		for _, x := range rs {
			if x.Start != rs[0].Start || x.End != rs[0].End {
				multiRootDiffStart = t
			}
		}
	}
	if e.Sc.Pages == 0 {
		// no search page requested (over11k)
	} else if aborted {
		if multiRootDiffStart != "" {
			fail("search_aborted_by_multi_root_trace", fmt.Sprintf("trace search answers 500 for the whole page (%d traces) because trace %s has two roots with different start/end times", len(sp.tids), multiRootDiffStart), multiRootDiffStart)
		} else {
			fail("search_error", "trace search answered an error: "+fmt.Sprintf("%+v", o.Search))
		}
	} else {
		for _, t := range sp.tids {
			rs := sp.roots(t)
			inWin := len(rs) >= 1 && rs[0].Start >= e.Sc.StartMs*1000000 && rs[0].End <= e.Sc.EndMs*1000000
			n := listed[t]
			if len(sp.tids) > 50 && (n > 1 || (len(rs) == 1 && inWin && n == 0)) {
				// more than one page of traces: known class (the bucket order differs between the page requests)
				fail("search_pages_unstable_bucket_order", fmt.Sprintf("%d traces, pages 1..%d requested one after the other: trace %s is listed %d times", len(sp.tids), e.Sc.Pages, t, n))
				continue
			}
			if n > 1 {
				fail("search_trace_duplicate", fmt.Sprintf("trace %s listed %d times", t, n), t)
			}
			if len(rs) == 1 {
				if inWin && n == 0 {
					fail("search_trace_missing", fmt.Sprintf("trace %s (root in window, %d spans) is not listed", t, len(sp.byTrace[t])), t)
				}
				if !inWin && n > 0 {
					fail("search_trace_outside_window", fmt.Sprintf("trace %s is listed although its root is outside the window", t), t)
				}
			}
			if len(rs) == 0 && n > 0 {
				fail("search_lists_rootless_trace", fmt.Sprintf("trace %s has no root span but is listed", t), t)
			}
		}
	}

	// ---- span trees ----
	for _, t := range e.Sc.Gantt {
		g := o.Gantt[t]
		if g == nil {
			continue
		}
		if hp("ProcessGanttChartRequest "+t, g.Err) {
			continue
		}
		tr := sp.byTrace[t]
		wf := sp.wellFormed(t)
		if g.Tree == nil {
			if wf && len(tr) <= 1000 && strings.Trim(t, "0123456789") == "" {
				fail("span_tree_numeric_trace_id", fmt.Sprintf("trace %s (%d spans, well formed, id of decimal digits only): searchText trace_id=%s matches nothing: %d %s", t, len(tr), t, g.Code, g.Body), t)
			} else if wf && len(tr) <= 1000 {
				fail("span_tree_error_on_wellformed", fmt.Sprintf("trace %s (%d spans, well formed): %d %s", t, len(tr), g.Code, g.Body), t)
			}
			continue
		}
		cand := map[string][]Span{}
		for _, x := range tr {
			cand[x.S] = append(cand[x.S], x)
		}
		seen := map[string]int{}
		var walk func(n *GanttNode, parent string, root bool)
		walk = func(n *GanttNode, parent string, root bool) {
			seen[n.SpanID]++
			cs, ok := cand[n.SpanID]
			if !ok {
				fail("cross_trace_attribution", fmt.Sprintf("tree of trace %s contains span %s which is not a span of that trace", t, n.SpanID), t)
			} else {
				okp, okf := false, false
				for _, c := range cs {
					if c.P == parent {
						okp = true
						if c.Name == n.Operation && c.Svc == n.Service {
							okf = true
						}
					}
				}
				if !okp {
					fail("span_tree_wrong_parent", fmt.Sprintf("trace %s: span %s (%s/%s) sits under %q", t, n.SpanID, n.Service, n.Operation, parent), t)
				} else if !okf {
					fail("span_tree_wrong_fields", fmt.Sprintf("trace %s: span %s is shown with service %q operation %q, ingested with %q/%q", t, n.SpanID, n.Service, n.Operation, cs[0].Svc, cs[0].Name), t)
				}
			}
			for _, c := range n.Children {
				walk(c, n.SpanID, false)
			}
		}
		walk(g.Tree, "", true)
		for id, c := range seen {
			if c > 1 {
				fail("span_tree_duplicate_span", fmt.Sprintf("trace %s: span %s appears %d times", t, id, c), t)
			}
		}
		if wf && len(tr) > 1000 && len(seen) < len(tr) {
			sum.Count("observed/gantt_partial_view_over_1000_spans")
			if tsDistinct {
				// no two spans share an ingest timestamp: the pages of the handler are disjoint and cover the trace, so the
				// view of a WELL-FORMED trace must be complete (the partial view the text tolerates is for malformed traces
				// and for pages that overlap because of timestamp ties)
				for _, x := range tr {
					if seen[x.S] == 0 {
						fail("span_tree_missing_span_paged", fmt.Sprintf("trace %s (well formed, %d spans with pairwise different ingest timestamps, %d blocks, GOMAXPROCS=%d; the handler reads it in pages of 1000): span %s is not in the tree (%d nodes)", t, len(tr), e.blocks(), e.Sc.Procs, x.S, len(seen)), t)
						break
					}
				}
			}
		}
		if wf && len(tr) <= 1000 {
			for _, x := range tr {
				if seen[x.S] == 0 {
					fail("span_tree_missing_span", fmt.Sprintf("trace %s (well formed, %d spans): span %s is not in the tree (%d nodes)", t, len(tr), x.S, len(seen)), t)
					break
				}
			}
		}
	}

	// ---- dependency graph ----
	if e.Sc.Dep && !hp("ProcessGeneratedDepGraph", o.DepErr) {
		if o.DepErr != "" {
			fail("dep_graph_error", o.DepErr)
		} else if !e.dupIDs {
			want := sp.exactDep()
			if total > reach && tsDistinct && !depEqual(want, o.Dep) && depEqual(spR.exactDep(), o.Dep) {
				wj, _ := json.Marshal(want)
				oj, _ := json.Marshal(o.Dep)
				fail("window_over_11000_spans_truncated", fmt.Sprintf("%d spans in the window (pairwise different timestamps): dependency graph %s = the exact graph of the newest %d spans; exact parent-child pairs of the window %s", total, trunc(string(oj), 200), reach, trunc(string(wj), 200)))
			} else if !depEqual(want, o.Dep) {
				wj, _ := json.Marshal(want)
				oj, _ := json.Marshal(o.Dep)
				if total > 1000 && tsDistinct {
					fail("dep_graph_wrong_paged", fmt.Sprintf("%d spans in the window with pairwise different ingest timestamps (%d blocks, GOMAXPROCS=%d; read in pages of 1000): dependency graph %s, exact parent-child pairs %s", total, e.blocks(), e.Sc.Procs, trunc(string(oj), 200), trunc(string(wj), 200)))
				} else if total > 1000 {
					fail("dep_graph_paging_over_1000_spans", fmt.Sprintf("%d spans in the window (read in pages of 1000): dependency graph %s, exact parent-child pairs %s", total, trunc(string(oj), 200), trunc(string(wj), 200)))
				} else if total > 100 && e.Kind != "crossjoin" {
					fail("dep_graph_first_page_only", fmt.Sprintf("%d spans in the window: dependency graph %s, exact parent-child pairs %s", total, trunc(string(oj), 200), trunc(string(wj), 200)))
				} else if e.Kind == "crossjoin" {
					fail("span_id_join_across_traces", fmt.Sprintf("dependency graph %s, pairs inside traces %s: a span naming a parent id that exists only in another trace is joined to it", trunc(string(oj), 200), trunc(string(wj), 200)))
				} else {
					fail("dep_graph_wrong", fmt.Sprintf("%d spans: dependency graph %s, exact %s", total, trunc(string(oj), 300), trunc(string(wj), 300)))
				}
			}
		}
	}

	// ---- RED ----
	if e.Sc.Red && !hp("ProcessRedTracesIngest", o.RedErr) {
		if o.RedErr != "" {
			fail("red_error", o.RedErr)
		} else if !e.dupIDs {
			want := sp.exactRed()
			truncated := false
			if total > reach && tsDistinct {
				// compare with the exact RED of the newest 11 000 spans; a difference from the RED of the whole window
				// is then the known truncation, anything else is reported in the ordinary classes
				want = spR.exactRed()
				full := sp.exactRed()
				for svc, w := range full {
					if t := want[svc]; t == nil || t.cnt != w.cnt || t.errs != w.errs {
						truncated = true
					}
				}
			}
			cls := func(c string) string {
				if total > 1000 && tsDistinct {
					return c + "_paged" // pairwise different timestamps: the pages are disjoint and complete, RED must be exact
				}
				if total > 1000 {
					return "red_paging_over_1000_spans"
				}
				if e.Kind == "crossjoin" {
					return "span_id_join_across_traces"
				}
				return c
			}
			pfx := ""
			if total > 1000 && tsDistinct {
				pfx = fmt.Sprintf("%d spans in the 5-minute window with pairwise different ingest timestamps (%d blocks, GOMAXPROCS=%d; read in pages of 1000): ", total, e.blocks(), e.Sc.Procs)
			}
			rfail := func(c, d string) { fail(cls(c), pfx+d) }
			if truncated {
				ok := len(o.Red) == len(want)
				n := 0
				for _, ro := range o.Red {
					if w := want[ro.Service]; w == nil || !closeTo(ro.Rate, big.NewRat(int64(w.cnt), 60)) {
						ok = false
					} else {
						n += w.cnt
					}
				}
				if ok {
					all := 0
					for _, w := range sp.exactRed() {
						all += w.cnt
					}
					fail("window_over_11000_spans_truncated", fmt.Sprintf("%d spans in the 5-minute window (pairwise different timestamps): the RED records count %d entry spans = those of the newest %d spans; the window has %d entry spans", total, n, reach, all))
				}
			}
			got := map[string]RedObs{}
			for _, ro := range o.Red {
				if _, dup := got[ro.Service]; dup {
					rfail("red_service_duplicate", "service "+ro.Service+" has two RED records")
				}
				got[ro.Service] = ro
			}
			for svc, w := range want {
				g, ok := got[svc]
				if !ok {
					rfail("red_service_missing", fmt.Sprintf("no RED record for service %s (%d entry spans)", svc, w.cnt))
					continue
				}
				if !closeTo(g.Rate, big.NewRat(int64(w.cnt), 60)) {
					rfail("red_rate_wrong", fmt.Sprintf("service %s: rate %v, %d entry spans / 60", svc, g.Rate, w.cnt))
				}
				if !closeTo(g.ErrRate, big.NewRat(int64(w.errs*100), int64(w.cnt))) {
					rfail("red_error_rate_wrong", fmt.Sprintf("service %s: error_rate %v, %d of %d entry spans have status error", svc, g.ErrRate, w.errs, w.cnt))
				}
				for _, pp := range []struct {
					p int
					v float64
				}{{50, g.P50}, {90, g.P90}, {95, g.P95}, {99, g.P99}} {
					if ws := pctSpec(w.durMs, pp.p); !closeTo(pp.v, ws) {
						rfail("percentile_wrong", fmt.Sprintf("service %s: p%d %v, want %s over %d entry spans", svc, pp.p, pp.v, ws.FloatString(4), w.cnt))
					}
				}
			}
			for svc := range got {
				if want[svc] == nil {
					rfail("red_service_unexpected", "RED record for service "+svc+" which has no entry span")
				}
			}
		}
	}
}

// number of blocks the spans were flushed into (0: not a layout scenario)
func (e *E2E) blocks() int {
	n := 0
	for _, l := range e.Sc.Layout {
		if l >= 1 {
			n++
		}
	}
	if len(e.Sc.Layout) > 0 && e.Sc.Layout[len(e.Sc.Layout)-1] == 0 {
		n++
	}
	return n
}

func pageSizes(p [][]string) []int {
	out := make([]int, len(p))
	for i := range p {
		out[i] = len(p[i])
	}
	return out
}

// ---------- Coq case text ----------
type coqIDs struct {
	tnum map[string]uint64
	snum map[string]uint64
}

// a time / id as a short Coq term (the elaboration of long numerals dominates the cost of a case file)
func coqT(x uint64) string {
	switch {
	case x >= baseNs && x < 1<<63 && (x-baseNs)%1024 == 0:
		return fmt.Sprintf("(U %d)", (x-baseNs)/1024)
	case x >= 1<<63 && (-x)%1024 == 0:
		return fmt.Sprintf("(W %d)", (-x)/1024)
	case x%1024 == 0 && x > 0:
		return fmt.Sprintf("(K %d)", x/1024)
	}
	return fmt.Sprintf("%d", x)
}
func small(id uint64) uint64 {
	if id == 0 {
		return 0
	}
	return id - sidPrefix
}
func coqSvc(s string) string {
	for i, x := range svcPool {
		if x == s {
			return fmt.Sprintf("(sv %d)", i)
		}
	}
	return vhlib.CoqStr(s)
}
func coqName(s string) string {
	for k := 0; k < 10; k++ {
		if nameOf(k) == s {
			return fmt.Sprintf("(nm %d)", k)
		}
		if nameOf(10*(k+1)) == s {
			return fmt.Sprintf("(nm %d)", 10*(k+1))
		}
	}
	return vhlib.CoqStr(s)
}

func coqE(g genSpan) string {
	return fmt.Sprintf("E1 %d %d %d %d %d %s %s %d", g.T, small(g.S), small(g.P), g.SvcI, g.NameI, coqT(g.Start), coqT(g.End), g.St)
}

func coqScenario(idx int, e *E2E, o *WorkerObs) (defs string, ncases int) {
	var sb strings.Builder
	rname := fmt.Sprintf("r%d", idx)
	// the OTLP requests as sent: request -> ResourceSpans entries -> spans; the model derives the events
	var reqs []string
	pos := 0
	for _, n := range e.Sc.Batches {
		var ress []string
		var cur []string
		flushRes := func(g genSpan) {
			if len(cur) > 0 {
				ress = append(ress, fmt.Sprintf("R1 %d %d %s [%s]", g.RK, g.SentI, vhlib.CoqBool(g.RS), strings.Join(cur, ";\n    ")))
				cur = nil
			}
		}
		for i := pos; i < pos+n && i < len(e.gs); i++ {
			g := e.gs[i]
			if i > pos && g.R != e.gs[i-1].R {
				flushRes(e.gs[i-1])
			}
			cur = append(cur, fmt.Sprintf("O1 %d %d %d %d %s %s %d", g.T, small(g.S), small(g.P), g.NameI, coqT(g.Start), coqT(g.End), g.St))
		}
		if pos+n-1 < len(e.gs) && n > 0 {
			flushRes(e.gs[pos+n-1])
		}
		reqs = append(reqs, "["+strings.Join(ress, ";\n   ")+"]")
		pos += n
	}
	fmt.Fprintf(&sb, "Definition q%d : list (list otlp_resource) := %s.\nDefinition %s : list span := events_of q%d.\n", idx, vhlib.CoqListNL(reqs), rname, idx)
	// candidate record orders: with a duplicated span id the record the real code kept is unknown
	cands := "[" + rname + "]"
	if e.dupIDs {
		cands = "[" + rname + "; rev " + rname + "]"
	}
	snum := map[string]uint64{}
	tnum := map[string]uint64{}
	for _, g := range e.gs {
		snum[g.Span.S] = g.S
		tnum[g.Span.T] = g.T
	}
	idf := func(s string) string {
		if n, ok := snum[s]; ok {
			return fmt.Sprintf("(sid1 %d)", small(n))
		}
		return vhlib.CoqStr(s)
	}
	var checks []string
	total := len(e.gs)
	// the stored events: every span carries the service of its own resource
	if o.StoredErr == "" && total <= 9000 {
		okSt := true
		var st []string
		for _, x := range o.Stored {
			tn, ok1 := tnum[x.T]
			sn, ok2 := snum[x.S]
			si := -1
			for k, v := range svcPool {
				if v == x.Svc {
					si = k
				}
			}
			if !ok1 || !ok2 || si < 0 {
				okSt = false // reported by the oracle
				break
			}
			st = append(st, fmt.Sprintf("(%d,%d,%d%%nat)", tn, small(sn), si))
		}
		if okSt {
			checks = append(checks, fmt.Sprintf("check_stored %s [%s]", rname, strings.Join(st, ";")))
		}
	}
	// search
	okSearch := true
	var pages []string
	for _, p := range o.Search {
		if p.Err != "" {
			okSearch = false
		}
		if p.Code != 200 {
			pages = append(pages, "None")
			continue
		}
		var ts []string
		for _, t := range p.Traces {
			n, ok := tnum[t.TraceId]
			if !ok {
				okSearch = false
				continue
			}
			ts = append(ts, fmt.Sprintf("mkSum (tid1 %d) %s %s %s %s %d %d", n, coqT(t.StartTime), coqT(t.EndTime), coqSvc(t.Service), coqName(t.Operation), t.SpanCount, t.ErrCount))
		}
		pages = append(pages, "Some "+vhlib.CoqList(ts))
	}
	if okSearch {
		checks = append(checks, fmt.Sprintf("check_search %d %d %s %s", e.Sc.StartMs, e.Sc.EndMs, rname, vhlib.CoqList(pages)))
	}
	// span trees (traces of at most 1000 spans: one result page)
	for _, t := range e.Sc.Gantt {
		g := o.Gantt[t]
		if g == nil || g.Err != "" {
			continue
		}
		cnt := 0
		for _, x := range e.Sc.Spans {
			if x.T == t {
				cnt++
			}
		}
		if cnt > 1000 {
			continue
		}
		obs := "None"
		if g.Tree != nil {
			budget := 1 << 30
			obs = "(Some " + coqOTc(g.Tree, idf, &budget) + ")"
		}
		checks = append(checks, fmt.Sprintf("existsb (fun rs => check_gantt (filter (of_trace (tid1 %d)) rs) %s) %s", tnum[t], obs, cands))
		checks = append(checks, fmt.Sprintf("self_gantt (tid1 %d) %s", tnum[t], rname))
	}
	// dependency graph (the handler pages through the window; one page of 1000 holds everything here)
	if e.Sc.Dep && o.DepErr == "" && total <= 1000 {
		var kv []string
		for a, mm := range o.Dep {
			for b, v := range mm {
				kv = append(kv, fmt.Sprintf("((%s, %s), %d)", coqSvc(a), coqSvc(b), v))
			}
		}
		sort.Strings(kv)
		checks = append(checks, fmt.Sprintf("check_dep %s %s", cands, vhlib.CoqList(kv)))
	}
	// RED (one page of 1000)
	if e.Sc.Red && o.RedErr == "" && total <= 1000 {
		var rs []string
		for _, ro := range o.Red {
			rs = append(rs, fmt.Sprintf("(%s, (%s, %s, %s, %s, %s, %s))", coqSvc(ro.Service), coqFl(ro.Rate), coqFl(ro.ErrRate), coqFl(ro.P50), coqFl(ro.P90), coqFl(ro.P95), coqFl(ro.P99)))
		}
		checks = append(checks, fmt.Sprintf("check_red %s %s", cands, vhlib.CoqList(rs)))
	}
	fmt.Fprintf(&sb, "Definition c%d : list bool := %s.\n", idx, vhlib.CoqListNL(checks))
	return sb.String(), len(checks)
}

func coqOTc(n *GanttNode, idf func(string) string, budget *int) string {
	*budget--
	if *budget < 0 {
		return "(OT [] 0 0 0 0 false 0 [] [] [])"
	}
	cs := make([]string, 0, len(n.Children))
	for _, c := range n.Children {
		cs = append(cs, coqOTc(c, idf, budget))
	}
	return fmt.Sprintf("(OT %s %s %s %s %s %s %d %s %s %s)", idf(n.SpanID), coqT(n.Actual), coqT(n.Start), coqT(n.End), coqT(n.Duration),
		vhlib.CoqBool(n.Anomalous), statusCode(n.Status), coqSvc(n.Service), coqName(n.Operation), vhlib.CoqList(cs))
}

// ---------- the stream ----------
func streamE2E(cfg vhlib.Config, r *vhlib.Rng, sum *vhlib.Summary) {
	plan := []struct {
		kind string
		n    int
	}{{"main", 36}, {"otlp", 10}, {"malformed", 26}, {"dupid", 8}, {"big", 2}, {"huge", 2},
		{"deppage", 2}, {"multiroot", 2}, {"crossjoin", 2}, {"manytraces", 2}, {"numid", 2}, // these five: known-defect classes, own generator streams
		{"paged", 2}, {"pagedwin", 1}, // more than one internal result page of spans, pairwise different timestamps: exact views
		{"over11k", 1}, // known class: more spans in the window than the paged readers reach (from <= 10 000)
		// views merged over several stored periods (agg.go): hourly dependency graphs over a range, RED runs
		{"agg", 10}, {"aggdot", 1}, {"aggunnamed", 2}, {"aggover100", 1}, {"aggmeta", 1}, // the last four: repaired defects (37f2dcb, 25574c6), the streams stay
		{"agglegacy", 1}, // records in the format written before 25574c6 are still read
		{"aggsplit", 1}} // known class: a trace whose spans arrive in two hourly windows
	if cfg.Thorough() {
		plan = []struct {
			kind string
			n    int
		}{{"main", 600}, {"otlp", 200}, {"malformed", 500}, {"dupid", 150}, {"big", 60}, {"huge", 40}, {"deppage", 10}, {"multiroot", 10}, {"crossjoin", 10}, {"manytraces", 10}, {"numid", 10}, {"paged", 14}, {"pagedwin", 10}, {"over11k", 3},
			{"agg", 200}, {"aggdot", 12}, {"aggunnamed", 20}, {"aggsplit", 12}, {"aggover100", 4}, {"aggmeta", 4}, {"agglegacy", 12}}
	}
	var all []*E2E
	for _, p := range plan {
		rr := r.Fork() // every class has its own stream
		for i := 0; i < p.n; i++ {
			all = append(all, genE2E(rr, p.kind))
		}
	}
	obs := make([]*WorkerObs, len(all))
	errs := make([]string, len(all))
	var wg sync.WaitGroup
	sem := make(chan struct{}, 6)
	root, _ := os.MkdirTemp("/tmp", "C12_e2e_")
	defer os.RemoveAll(root)
	launch := make([]int, len(all)) // the long scenarios first (their workers run for 5-20 s), so that they do not form the tail of the stream
	for i := range launch {
		launch[i] = i
	}
	sort.SliceStable(launch, func(a, b int) bool { return len(all[launch[a]].Sc.Spans) > len(all[launch[b]].Sc.Spans) })
	for _, i := range launch {
		wg.Add(1)
		sem <- struct{}{}
		go func(i int) {
			defer wg.Done()
			defer func() { <-sem }()
			obs[i], errs[i] = runWorker(filepath.Join(root, fmt.Sprintf("s%d", i)), all[i])
			if errs[i] != "" { // a crash or hang under parallel load is re-run alone before it is reported
				time.Sleep(200 * time.Millisecond)
				obs[i], errs[i] = runWorker(filepath.Join(root, fmt.Sprintf("s%dr", i)), all[i])
			}
		}(i)
	}
	wg.Wait()

	var defs strings.Builder
	var exprs []string
	nfile, shard, size := 0, 0, 0
	flush := func() {
		if len(exprs) == 0 {
			return
		}
		sum.WriteCaseFile(cfg.Out, fmt.Sprintf("cases_c12_e2e_%d", shard), "From SigM Require Import Base Trace TraceCheck.\n", defs.String(),
			strings.Join(exprs, "\n ++ "), nfile)
		shard++
		defs.Reset()
		exprs = nil
		nfile, size = 0, 0
	}
	var aggDefs strings.Builder
	var aggExprs []string
	aggN, aggShard := 0, 0
	flushAgg := func() {
		if len(aggExprs) == 0 {
			return
		}
		sum.WriteCaseFile(cfg.Out, fmt.Sprintf("cases_c12_agg_%d", aggShard), "From SigM Require Import Base Trace TraceCheck TraceAgg TraceAggCheck.\n", aggDefs.String(),
			strings.Join(aggExprs, "\n ++ "), aggN)
		aggShard++
		aggDefs.Reset()
		aggExprs = nil
		aggN = 0
	}
	for i, e := range all {
		sum.Count("e2e/" + e.Kind)
		sum.Count(fmt.Sprintf("e2e_spans<=%d", bucket(len(e.Sc.Spans))))
		b, _ := json.Marshal(e.Sc.Spans)
		if e.Sc.Agg != nil {
			pb, _ := json.Marshal(e.Sc.Agg)
			b = append(b, pb...)
		}
		sum.Eval("e2e:"+string(b), len(e.Sc.Spans) > 1 || e.Sc.Agg != nil)
		if i == 0 {
			sum.Sample(map[string]interface{}{"stream": "e2e " + e.Kind, "spans": len(e.Sc.Spans), "first_spans": e.Sc.Spans[:min(3, len(e.Sc.Spans))], "observed_search": obs[i].Search})
		}
		if errs[i] != "" {
			if errs[i] == "timeout" {
				sum.Fail("trace_handler_hang", e.Kind+": worker did not finish within 300 s (twice)", replayCase(e))
			} else {
				sum.Fail("trace_handler_panic", e.Kind+": worker process died (twice): "+trunc(errs[i], 600), replayCase(e))
			}
			continue
		}
		if len(e.Sc.Spans) > 0 || e.Sc.Agg == nil { // aggover100 / aggmeta store given matrices: no spans, no ordinary views
			oracle(e, obs[i], sum)
		}
		if e.Sc.Agg != nil {
			oracleAgg(e, obs[i], sum)
			if d, n := coqAgg(i, e, obs[i]); n > 0 {
				aggDefs.WriteString(d)
				aggExprs = append(aggExprs, fmt.Sprintf("map (fun i => %d + N.of_nat i) (indices_false ca%d 0)", 1000*i+500, i))
				aggN += n
				if aggDefs.Len() > 120000 {
					flushAgg()
				}
			}
		}
		if len(e.Sc.Spans) > 1000 && !e.noCoq {
			// the raw paged reads of a scenario without timestamp ties against the model's pages
			if d, n := coqPaged(i, e, obs[i]); n > 0 {
				defs.WriteString(d)
				exprs = append(exprs, fmt.Sprintf("map (fun i => %d + N.of_nat i) (indices_false c%d 0)", 1000*i, i))
				nfile += n
				size += len(d)
			}
		}
		if len(e.Sc.Spans) > 1000 || e.noCoq {
			continue // a >1000-span forest is checked by the oracle only (its paged views are not a function of the span set; Coq list literals of that size overflow the stack)
		}
		d, n := coqScenario(i, e, obs[i])
		defs.WriteString(d)
		exprs = append(exprs, fmt.Sprintf("map (fun i => %d + N.of_nat i) (indices_false c%d 0)", 1000*i, i)) // list N: a unary nat of this size overflows the stack
		nfile += n
		size += len(d)
		if size > 120000 {
			flush()
		}
	}
	flush()
	flushAgg()
}

func min(a, b int) int {
	if a < b {
		return a
	}
	return b
}

package main

import (
	"encoding/json"
	"fmt"
	"os"
	"os/exec"
	"context"
	"time"
	"github.com/siglens/siglens/pkg/ast/pipesearch"
	"github.com/valyala/fasthttp"
)

func pipesearchProcess(ctx *fasthttp.RequestCtx) { pipesearch.ProcessPipeSearchRequest(ctx, 0) }

func main() {
	if len(os.Args) >= 5 && os.Args[1] == "worker" {
		workerMain(os.Args[2], os.Args[3], os.Args[4])
		return
	}
	if len(os.Args) >= 5 && os.Args[1] == "pageprobe" {
		pageProbe(os.Args[2], os.Args[3], os.Args[4])
		return
	}
	if len(os.Args) >= 3 && os.Args[1] == "probe" {
		dir, _ := os.MkdirTemp("/tmp", "C12_probe")
		defer os.RemoveAll(dir)
		ctx, cancel := context.WithTimeout(context.Background(), 120*time.Second)
		defer cancel()
		cmd := exec.CommandContext(ctx, os.Args[0], "worker", dir+"/data", os.Args[2], os.Args[2]+".out")
		out, err := cmd.CombinedOutput()
		fmt.Println(string(out), err)
		return
	}
}

func pageProbe(dir, scen, text string) {
	b, _ := os.ReadFile(scen)
	var sc Scenario
	json.Unmarshal(b, &sc)
	initNode(dir)
	sc.Pages, sc.Gantt, sc.Dep, sc.Red = 0, nil, false, false
	runScenarioWorker(&sc)
	seen := map[string]int{}
	for from := 0; from < 5000; from += 1000 {
		body, _ := json.Marshal(map[string]interface{}{"searchText": text, "indexName": "traces", "startEpoch": "1600000000000", "endEpoch": "4000000000000", "queryLanguage": "Splunk QL", "from": from, "size": 1000})
		ctx := postCtx(body)
		pipesearchProcess(ctx)
		var resp struct {
			Hits struct {
				Records []map[string]interface{} `json:"records"`
			} `json:"hits"`
		}
		json.Unmarshal(ctx.Response.Body(), &resp)
		dup := 0
		for _, r := range resp.Hits.Records {
			id := r["span_id"].(string)
			if seen[id] > 0 {
				dup++
			}
			seen[id]++
		}
		fmt.Println("from", from, "records", len(resp.Hits.Records), "dups", dup, "distinct so far", len(seen))
	}
}

// c12: trace views agree with the ingested spans.
//
// Streams (every stream has its own PRNG fork of the seed):
//
//	tree    BuildSpanTree driven directly on generated span maps (well formed, missing parents,
//	        several roots, cycles, self parents, missing idToParentId entries, up to thousands of spans)
//	qs      quickSelect / pickPivot (verif hook) and FindPercentileData on generated uint64 slices
//	event   spanToJson (verif hook) on generated OTLP spans
//	scroll  the tail of the search pipeline head(size+from) -> scroller(from) (verif hook) on generated
//	        batchings, single requests and the read loops of the handlers (paging.go)
//	e2e     span forests ingested through otlp.ProcessTraceIngest into a fresh store (one worker
//	        process per scenario), then ProcessSearchTracesRequest (all pages), ProcessGanttChartRequest
//	        (per trace), ProcessGeneratedDepGraph and ProcessRedTracesIngest (+ query of red-traces);
//	        kinds agg*: the spans arrive in several periods, the hourly dependency-graph job (one iteration of
//	        DependencyGraphThread, verif hook) stores a graph after each, the RED job runs several times, then
//	        ProcessAggregatedDependencyGraphs / ProcessGetDependencies over ranges of stored graphs (agg.go)
//
//	(a) property oracle: the property text evaluated on the handlers' answers with an independent
//	    specification written in Go (spec in e2e.go / direct.go); specific failure classes;
//	    known-defect inputs come from their own streams (deppage, multiroot, crossjoin, huge);
//	(b) Coq case files: the model (Trace.v) must reproduce every observed answer (trees node by
//	    node incl. relative times and anomaly flags, summaries, matrices, RED numbers, pivots).
package main

import (
	"context"
	"fmt"
	"os"
	"os/exec"
	"time"

	"github.com/siglens/siglens/pkg/ast/pipesearch"
	log "github.com/sirupsen/logrus"
	"github.com/valyala/fasthttp"

	"verifharness/vhlib"
)

func pipesearchProcess(ctx *fasthttp.RequestCtx) { pipesearch.ProcessPipeSearchRequest(ctx, 0) }

func main() {
	if len(os.Args) >= 5 && os.Args[1] == "worker" {
		workerMain(os.Args[2], os.Args[3], os.Args[4])
		return
	}
	if len(os.Args) >= 3 && os.Args[1] == "probe" { // development aid: run one scenario file
		dir, _ := os.MkdirTemp("/tmp", "C12_probe")
		defer os.RemoveAll(dir)
		ctx, cancel := context.WithTimeout(context.Background(), 300*time.Second)
		defer cancel()
		cmd := exec.CommandContext(ctx, os.Args[0], "worker", dir+"/data", os.Args[2], os.Args[2]+".out")
		out, err := cmd.CombinedOutput()
		fmt.Println(string(out), err)
		return
	}
	if len(os.Args) >= 4 && os.Args[1] == "kindprobe" { // development aid: n scenarios of one kind
		log.SetLevel(log.PanicLevel)
		sum := vhlib.NewSummary("")
		r := vhlib.NewRng(7)
		n := 0
		fmt.Sscanf(os.Args[3], "%d", &n)
		for i := 0; i < n; i++ {
			e := genE2E(r, os.Args[2])
			o, errs := runWorker(fmt.Sprintf("/tmp/C12_kp_%d", i), e)
			if errs != "" {
				fmt.Println("worker:", errs)
				continue
			}
			before := len(sum.OracleFailures)
			if len(e.Sc.Spans) > 0 || e.Sc.Agg == nil {
				oracle(e, o, sum)
			}
			if e.Sc.Agg != nil {
				oracleAgg(e, o, sum)
				_, nc := coqAgg(i, e, o)
				fmt.Println("   periods", len(e.Sc.Agg.Periods), "ranges", len(e.Sc.Agg.Ranges), "coq checks", nc)
			}
			cnt := func(n *GanttNode) int { return 0 }
			_ = cnt
			nodes := 0
			for _, g := range o.Gantt {
				if g.Tree != nil {
					var w func(n *GanttNode)
					w = func(n *GanttNode) { nodes++; for _, c := range n.Children { w(c) } }
					w(g.Tree)
				}
			}
			fmt.Println(i, "spans", len(e.Sc.Spans), "batches", len(e.Sc.Batches), "flushEach", e.Sc.FlushEach, "tree nodes", nodes, "new failures", len(sum.OracleFailures)-before)
		}
		for k, v := range sum.Distribution {
			fmt.Println(k, v)
		}
		for _, f := range sum.OracleFailures {
			fmt.Println(f.Class, "|", trunc(f.Detail, 200))
		}
		return
	}
	log.SetLevel(log.PanicLevel)
	cfg := vhlib.ParseFlags()
	sum := vhlib.NewSummary("distinct generated inputs (span maps, slices, OTLP spans, span forests) with more than one element")
	r := vhlib.NewRng(cfg.Seed)
	rt, rq, re, r2 := r.Fork(), r.Fork(), r.Fork(), r.Fork()
	rs := r.Fork()
	t0 := time.Now()
	streamTree(cfg, rt, sum)
	streamQS(cfg, rq, sum)
	streamEvent(cfg, re, sum)
	streamScroll(cfg, rs, sum)
	t1 := time.Now()
	streamE2E(cfg, r2, sum)
	sum.Notes = append(sum.Notes,
		fmt.Sprintf("direct streams %.1fs, e2e stream %.1fs", t1.Sub(t0).Seconds(), time.Since(t1).Seconds()),
		"floats (RED, percentiles) are compared with the model's exact rationals with relative tolerance 1e-9",
		"all generated times are multiples of 1024 ns below 2^63 (exact through the float64 conversion of the search handler)",
		"span trees of traces with more than 1000 spans are checked for safety (subset, no duplicates, parents); for completeness only when no two stored spans share an ingest timestamp (kinds paged / pagedwin: one span per OTLP request), where the dependency graph and RED over more than 1000 spans must be exact too",
	)
	sum.Write(cfg.Out)
}

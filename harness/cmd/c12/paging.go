// paging.go: the paged reads underneath the trace views.
//
// The dependency graph, the RED job and the span tree read their spans with from = 0, 1000, 2000, ...
// (size 1000); every request passes its hits, batch by batch, through head(size+from) and the
// scroller(from).  Stream "scroll" drives that real pipeline tail (verif hook VerifC12Page, wired as in
// newQueryProcessorHelper) directly in one worker process:
//
//	page  one request (from, size) over the records 0..n-1 in a generated batching: the answer must be
//	      the slice [from, from+size) (offsets on a batch edge, strictly inside a batch, past the end;
//	      empty batches; the sizes of the real handlers: 1000 over 1001..2600 records)
//	loop  the read loops of the handlers (until an empty page / until a short page) with a small or the
//	      real page size, every request in its OWN batching: the loop must return every record once
//
// and both are reproduced by the model (TracePage.v) inside Coq.  The e2e kinds paged / pagedwin
// (e2e.go) do the same through the real handlers on > 1000 / > 2000 ingested spans.
package main

import (
	"fmt"
	"strings"
	"time"

	"github.com/siglens/siglens/pkg/segment/query"
	"github.com/siglens/siglens/pkg/segment/query/processor"

	"verifharness/vhlib"
)

type ScrollCase struct {
	Loop   bool    `json:"loop"`
	N      int     `json:"n"`               // records 0..n-1
	From   uint64  `json:"from,omitempty"`  // page case
	Size   uint64  `json:"size"`            // page case: size; loop case: the page size
	Sizes  [][]int `json:"sizes"`           // batch sizes; page case: one list; loop case: one list per request
	Short  bool    `json:"short,omitempty"` // loop case: stop after a short page (span tree) instead of an empty one
}
type ScrollObs struct {
	Recs  []int `json:"recs"`
	Pages []int `json:"pages,omitempty"` // loop case: the sizes of the pages read
	Err   string `json:"err,omitempty"`
}

// cutBatches: the batching the model's [cut] builds (the last batch takes the rest)
func cutBatches(sizes []int, n int) [][]string {
	var out [][]string
	pos := 0
	for _, k := range sizes {
		hi := pos + k
		if hi > n {
			hi = n
		}
		b := make([]string, 0, hi-pos)
		for i := pos; i < hi; i++ {
			b = append(b, fmt.Sprintf("%d", i))
		}
		out = append(out, b)
		pos = hi
	}
	if pos < n {
		b := make([]string, 0, n-pos)
		for i := pos; i < n; i++ {
			b = append(b, fmt.Sprintf("%d", i))
		}
		out = append(out, b)
	}
	return out
}

func toInts(ss []string) []int {
	out := make([]int, len(ss))
	for i, s := range ss {
		out[i] = -1
		fmt.Sscanf(s, "%d", &out[i])
	}
	return out
}

// runScrollWorker: inside the worker process (query node initialised)
func runScrollWorker(cases []ScrollCase) []ScrollObs {
	qid := uint64(771200)
	obs := make([]ScrollObs, len(cases))
	if _, err := query.StartQuery(qid, true, nil, false); err != nil {
		for i := range obs {
			obs[i].Err = "StartQuery: " + err.Error()
		}
		return obs
	}
	defer query.DeleteQuery(qid)
	for w := 0; w < 500; w++ { // the query is moved from the waiting list to the running ones by PullQueriesToRun
		query.InitProgressForRRCCmd(1, qid)
		if query.IncRecordsSent(qid, 0) == nil {
			break
		}
		time.Sleep(10 * time.Millisecond)
	}
	for i, c := range cases {
		i, c := i, c
		e := guarded(opCap, func() {
			if !c.Loop {
				pg, err := processor.VerifC12Page(qid, cutBatches(c.Sizes[0], c.N), c.From, c.Size)
				if err != nil {
					obs[i].Err = err.Error()
				}
				obs[i].Recs = toInts(pg)
				return
			}
			from := uint64(0)
			for k := 0; ; k++ {
				if k > c.N/int(c.Size)+3 {
					obs[i].Err = "the read loop did not stop"
					return
				}
				var sizes []int
				if k < len(c.Sizes) {
					sizes = c.Sizes[k]
				}
				pg, err := processor.VerifC12Page(qid, cutBatches(sizes, c.N), from, c.Size)
				if err != nil {
					obs[i].Err = err.Error()
					return
				}
				obs[i].Pages = append(obs[i].Pages, len(pg))
				if !c.Short && len(pg) == 0 {
					return
				}
				obs[i].Recs = append(obs[i].Recs, toInts(pg)...)
				if c.Short && uint64(len(pg)) < c.Size {
					return
				}
				from += c.Size
			}
		})
		if e != "" {
			obs[i].Err = e
		}
	}
	return obs
}

func genSizes(r *vhlib.Rng, n int, big bool) []int {
	var s []int
	left := n + r.Intn(3)
	for left > 0 && !(r.Chance(8) && len(s) > 0) { // sometimes the sizes end early: the last batch takes the rest
		k := 0
		switch {
		case big:
			k = 30 + r.Intn(vhlib.Pick(r, []int{100, 300, 671}))
		case r.Chance(12):
			k = 0 // an empty batch
		default:
			k = 1 + r.Intn(vhlib.Pick(r, []int{2, 4, 9}))
		}
		s = append(s, k)
		left -= k
	}
	return s
}

func genScrollCases(r *vhlib.Rng, thorough bool) []ScrollCase {
	var cs []ScrollCase
	mul := 1
	if thorough {
		mul = 15
	}
	for i := 0; i < 1200*mul; i++ { // one request, small scopes
		n := r.Intn(31)
		cs = append(cs, ScrollCase{N: n, From: uint64(r.Intn(n + 3)), Size: uint64(r.Intn(n + 3)), Sizes: [][]int{genSizes(r, n, false)}})
	}
	for i := 0; i < 12*mul; i++ { // one request of the handlers' size over more than one page of records
		n := 1001 + r.Intn(1600)
		cs = append(cs, ScrollCase{N: n, From: uint64(1000 * r.Intn(4)), Size: 1000, Sizes: [][]int{genSizes(r, n, true)}})
	}
	loop := func(n int, page uint64, big bool) ScrollCase {
		c := ScrollCase{Loop: true, N: n, Size: page, Short: r.Bool()}
		for k := 0; k <= n/int(page)+1; k++ {
			c.Sizes = append(c.Sizes, genSizes(r, n, big))
		}
		return c
	}
	for i := 0; i < 300*mul; i++ {
		page := uint64(1 + r.Intn(7))
		n := r.Intn(41)
		if r.Chance(25) {
			n = int(page) * r.Intn(6) // a multiple of the page size: the last page is full
		}
		cs = append(cs, loop(n, page, false))
	}
	for i := 0; i < 6*mul; i++ {
		n := 1001 + r.Intn(1600)
		if r.Chance(20) {
			n = 1000 * (1 + r.Intn(3))
		}
		cs = append(cs, loop(n, 1000, true))
	}
	return cs
}

func coqInts(xs []int) string {
	ss := make([]string, len(xs))
	for i, x := range xs {
		ss[i] = fmt.Sprintf("%d", x)
	}
	return "[" + strings.Join(ss, ";") + "]"
}
func coqNats(xs []int) string {
	ss := make([]string, len(xs))
	for i, x := range xs {
		ss[i] = fmt.Sprintf("%d%%nat", x)
	}
	return "[" + strings.Join(ss, ";") + "]"
}

func streamScroll(cfg vhlib.Config, r *vhlib.Rng, sum *vhlib.Summary) {
	cases := genScrollCases(r, cfg.Thorough())
	e := &E2E{Kind: "scroll"}
	e.Sc.Scroll = cases
	o, errs := runWorker(fmt.Sprintf("/tmp/C12_scroll_%d", cfg.Seed), e)
	if errs != "" {
		o, errs = runWorker(fmt.Sprintf("/tmp/C12_scroll_%dr", cfg.Seed), e)
	}
	if errs != "" || len(o.Scroll) != len(cases) {
		sum.Fail("trace_handler_panic", "scroll: worker process died: "+trunc(errs, 600), nil)
		return
	}
	var pageCases, loopCases []string
	shard := 0
	flush := func() {
		if len(pageCases)+len(loopCases) == 0 {
			return
		}
		defs := "Definition pg : list (N * N * list nat * nat * list N) := " + vhlib.CoqListNL(pageCases) + ".\n" +
			"Definition lp : list (N * list (list nat) * nat * bool * list N) := " + vhlib.CoqListNL(loopCases) + ".\n"
		sum.WriteCaseFile(cfg.Out, fmt.Sprintf("cases_c12_scroll_%d", shard), "From SigM Require Import Base Trace TracePage TraceCheck.\n", defs,
			"map N.of_nat (indices_false (map check_scroll_page pg) 0) ++ map (fun i => 100000 + N.of_nat i) (indices_false (map check_scroll_loop lp) 0)",
			len(pageCases)+len(loopCases))
		shard++
		pageCases, loopCases = nil, nil
	}
	size := 0
	for i, c := range cases {
		ob := o.Scroll[i]
		key := fmt.Sprintf("scroll:%v", c)
		sum.Eval(key, c.N > 1)
		var nb int
		for _, s := range c.Sizes {
			nb += len(s)
		}
		what := fmt.Sprintf("records 0..%d handed to head(size+from) -> scroller(from) in batches of sizes %v (the last batch takes the rest)", c.N-1, trunc(fmt.Sprint(c.Sizes), 300))
		if ob.Err != "" {
			cl := "scroller_error"
			if strings.HasPrefix(ob.Err, "panic") {
				cl = "trace_handler_panic"
			} else if ob.Err == "timeout" || strings.Contains(ob.Err, "did not stop") || strings.Contains(ob.Err, "no EOF") {
				cl = "trace_handler_hang"
			}
			sum.Fail(cl, "scroll: "+what+": "+ob.Err, c)
			continue
		}
		if !c.Loop {
			sum.Count("scroll/page")
			lo, hi := int(c.From), int(c.From+c.Size)
			if lo > c.N {
				lo = c.N
			}
			if hi > c.N {
				hi = c.N
			}
			inside := false // the offset ends strictly inside a batch
			pos := 0
			for _, b := range cutBatches(c.Sizes[0], c.N) {
				if pos < int(c.From) && int(c.From) < pos+len(b) {
					inside = true
				}
				pos += len(b)
			}
			if inside {
				sum.Count("scroll/page/offset_strictly_inside_a_batch")
			} else if c.From > 0 {
				sum.Count("scroll/page/offset_on_a_batch_edge_or_past_the_end")
			}
			ok := len(ob.Recs) == hi-lo
			for k := 0; ok && k < len(ob.Recs); k++ {
				ok = ob.Recs[k] == lo+k
			}
			if !ok {
				sum.Fail("scroller_page_not_the_from_size_slice", fmt.Sprintf("scroll: %s, request from=%d size=%d: got %d records %s, expected the %d records %d..%d",
					what, c.From, c.Size, len(ob.Recs), trunc(fmt.Sprint(ob.Recs), 120), hi-lo, lo, hi-1), c)
			}
			pageCases = append(pageCases, fmt.Sprintf("(%d, %d, %s, %d%%nat, %s)", c.From, c.Size, coqNats(c.Sizes[0]), c.N, coqInts(ob.Recs)))
			size += 8*len(ob.Recs) + 8*nb
		} else {
			sum.Count(fmt.Sprintf("scroll/loop/short=%v", c.Short))
			ok := len(ob.Recs) == c.N
			for k := 0; ok && k < len(ob.Recs); k++ {
				ok = ob.Recs[k] == k
			}
			if !ok {
				stop := "an empty page (dependency graph, RED)"
				if c.Short {
					stop = "a page shorter than size (span tree)"
				}
				sum.Fail("paged_read_loses_or_repeats_records", fmt.Sprintf("scroll: %s, read with from=0,%d,%d,... size=%d until %s: pages of %v records, %d records read, expected every record 0..%d once",
					what, c.Size, 2*c.Size, c.Size, stop, ob.Pages, len(ob.Recs), c.N-1), c)
			}
			var ss []string
			for _, s := range c.Sizes {
				ss = append(ss, coqNats(s))
			}
			loopCases = append(loopCases, fmt.Sprintf("(%d, %s, %d%%nat, %s, %s)", c.Size, vhlib.CoqList(ss), c.N, vhlib.CoqBool(c.Short), coqInts(ob.Recs)))
			size += 8*len(ob.Recs) + 8*nb
		}
		if size > 150000 {
			flush()
			size = 0
		}
	}
	flush()
}

// coqPaged: the Coq cases of an e2e scenario with more than 1000 spans whose stored timestamps are pairwise
// different: the raw paged reads against the model's pages (the views over them are covered by the theorems
// C12_*_paged and by the property oracle; a forest of this size is not sent to Coq span by span)
func coqPaged(idx int, e *E2E, o *WorkerObs) (string, int) {
	if len(e.Sc.Raw) == 0 || e.dupIDs {
		return "", 0
	}
	ord := map[string]int{}
	for i, s := range e.Sc.Spans {
		ord[s.T+"/"+s.S] = i
	}
	ts, ok := spanTimestamps(e, o)
	if !ok {
		return "", 0
	}
	var checks []string
	for _, what := range e.Sc.Raw {
		ro := o.Raw[what]
		if ro == nil || ro.Err != "" {
			continue
		}
		// the matching spans newest first, and the hits per fetch: blocks newest first, Procs blocks per fetch
		var order []int
		for i := len(e.Sc.Spans) - 1; i >= 0; i-- {
			if what == "*" || e.Sc.Spans[i].T == what {
				order = append(order, i)
			}
		}
		sortByTsDesc(order, ts)
		var blockSizes []int
		cnt := 0
		for i := len(e.Sc.Spans) - 1; i >= 0; i-- {
			if i < len(e.Sc.Layout) && e.Sc.Layout[i] >= 1 && i != len(e.Sc.Spans)-1 {
				blockSizes = append(blockSizes, cnt)
				cnt = 0
			}
			if what == "*" || e.Sc.Spans[i].T == what {
				cnt++
			}
		}
		blockSizes = append(blockSizes, cnt)
		var fetch []int
		per := e.Sc.Procs
		if per <= 0 {
			per = len(blockSizes)
		}
		for i := 0; i < len(blockSizes); i += per {
			s := 0
			for j := i; j < i+per && j < len(blockSizes); j++ {
				s += blockSizes[j]
			}
			fetch = append(fetch, s)
		}
		okPages := true
		var pages []string
		for _, pg := range ro.Pages {
			xs := make([]int, len(pg))
			for i, k := range pg {
				v, ok := ord[k]
				if !ok {
					okPages = false // reported by the oracle
				}
				xs[i] = v
			}
			pages = append(pages, coqRuns(xs))
		}
		if !okPages {
			continue
		}
		checks = append(checks, fmt.Sprintf("check_span_pages %s %s %s", coqRuns(order), coqNats(fetch), vhlib.CoqList(pages)))
	}
	if len(checks) == 0 {
		return "", 0
	}
	return fmt.Sprintf("Definition c%d : list bool := %s.\n", idx, vhlib.CoqListNL(checks)), len(checks)
}

// coqRuns: a list of numbers as descending runs [(start, length)] (unruns in TraceCheck.v)
func coqRuns(xs []int) string {
	var rs []string
	for i := 0; i < len(xs); {
		j := i + 1
		for j < len(xs) && xs[j] == xs[j-1]-1 {
			j++
		}
		rs = append(rs, fmt.Sprintf("(%d,%d%%nat)", xs[i], j-i))
		i = j
	}
	return "[" + strings.Join(rs, ";") + "]"
}

func sortByTsDesc(order []int, ts []uint64) {
	// insertion into descending timestamp order (the input is almost sorted: ingest order reversed)
	for i := 1; i < len(order); i++ {
		for j := i; j > 0 && ts[order[j]] > ts[order[j-1]]; j-- {
			order[j], order[j-1] = order[j-1], order[j]
		}
	}
}

// spanTimestamps: the ingest timestamp of every span (index = ingest order) and whether they are pairwise different.
// Up to 9000 spans they are read back from the store; above that (one result page cannot hold them) they are the
// millisecond clock the worker saw change before every single-span request.
func spanTimestamps(e *E2E, o *WorkerObs) ([]uint64, bool) {
	n := len(e.Sc.Spans)
	ts := make([]uint64, n)
	if n <= 9000 {
		if o.StoredErr != "" || len(o.Stored) != n {
			return nil, false
		}
		ord := map[string]int{}
		for i, s := range e.Sc.Spans {
			ord[s.T+"/"+s.S] = i
		}
		seen := map[uint64]bool{}
		for _, x := range o.Stored {
			i, ok := ord[x.T+"/"+x.S]
			if !ok || x.Ts == 0 || seen[x.Ts] {
				return nil, false
			}
			seen[x.Ts] = true
			ts[i] = x.Ts
		}
		return ts, true
	}
	if !e.Sc.OwnTs || len(o.ReqMs) != n || len(e.Sc.Batches) != n {
		return nil, false
	}
	for i := range ts {
		ts[i] = o.ReqMs[i]
		if i > 0 && ts[i] <= ts[i-1] {
			return nil, false
		}
	}
	return ts, true
}

// worker.go: the part of the c12 harness that runs the real siglens code on one
// fresh data directory (child process; global state is process-wide).
package main

import (
	"context"
	"encoding/hex"
	"encoding/json"
	"fmt"
	"os"
	"sort"
	"time"

	"github.com/siglens/siglens/pkg/config"
	"github.com/siglens/siglens/pkg/otlp"
	"github.com/siglens/siglens/pkg/segment/memory/limit"
	"github.com/siglens/siglens/pkg/segment/query"
	thandler "github.com/siglens/siglens/pkg/segment/tracing/handler"
	"github.com/siglens/siglens/pkg/segment/writer"
	serverutils "github.com/siglens/siglens/pkg/server/utils"
	sutils "github.com/siglens/siglens/pkg/utils"
	vtable "github.com/siglens/siglens/pkg/virtualtable"
	log "github.com/sirupsen/logrus"
	"github.com/valyala/fasthttp"
	coltracepb "go.opentelemetry.io/proto/otlp/collector/trace/v1"
	commonpb "go.opentelemetry.io/proto/otlp/common/v1"
	resourcepb "go.opentelemetry.io/proto/otlp/resource/v1"
	tracepb "go.opentelemetry.io/proto/otlp/trace/v1"
	"google.golang.org/protobuf/proto"
)

// Span: one generated span. Ids are hex strings (trace 32, span 16 hex digits; P "" = root).
type Span struct {
	T     string `json:"t"`
	S     string `json:"s"`
	P     string `json:"p"`
	Svc   string `json:"svc"`
	Name  string `json:"name"`
	Start uint64 `json:"st"` // ns
	End   uint64 `json:"en"` // ns
	St    int    `json:"code"` // 0 unset 1 ok 2 error; 3 = no status message
	// the ResourceSpans entry the span is sent in: consecutive spans of a request with equal R form one
	// entry of kind RK (0 service.name only, 1 nil Resource, 2 attributes without service.name,
	// 3 service.name with an integer value, 4 two service.name attributes, 5 service.name between other
	// attributes); SvcN = the name sent (kinds 0,4,5), Svc = the service the stored event must carry
	R    int    `json:"r"`
	RK   int    `json:"rk"`
	RS   bool   `json:"rs"` // one ScopeSpans per span instead of one for all
	SvcN string `json:"svcn"`
}

type Scenario struct {
	Spans   []Span   `json:"spans"`
	Batches []int    `json:"batches"` // sizes of the OTLP requests (sum = len(spans)); a flush follows each request when FlushEach
	FlushEach bool   `json:"flush_each"`
	Rotate  bool     `json:"rotate"`
	StartMs uint64   `json:"start_ms"`
	EndMs   uint64   `json:"end_ms"`
	Pages   int      `json:"pages"`  // search pages to request (1..Pages)
	Gantt   []string `json:"gantt"`  // trace ids for which the span tree is requested
	Dep     bool     `json:"dep"`
	Red     bool     `json:"red"`
	// paged streams (more spans than one internal result page of the handlers)
	OwnTs  bool     `json:"own_ts,omitempty"` // every OTLP request waits for a fresh millisecond: requests have pairwise different ingest timestamps
	Layout []int    `json:"layout,omitempty"` // per request (overrides FlushEach): 0 nothing, 1 flush after it (= end of a block), 2 flush + rotate (= end of a segment)
	Procs  int      `json:"procs,omitempty"`  // GOMAXPROCS of the worker = blocks per fetch of the searcher = hits per batch reaching head/scroller (0: default)
	Scroll []ScrollCase `json:"scroll,omitempty"` // stream "scroll" (paging.go): only these cases are run
	Raw    []string `json:"raw,omitempty"`    // raw paged reads to record: "*" (the window, as the dependency graph / RED read it) or a trace id (as the span tree reads it)
	Agg    *AggPlan `json:"agg,omitempty"`    // the spans arrive in periods, each followed by the hourly dependency-graph job (aggworker.go)
}

type SearchObs struct {
	Code   int             `json:"code"`
	Traces []TraceObs      `json:"traces"`
	Body   string          `json:"body,omitempty"`
	Err    string          `json:"err,omitempty"` // panic / timeout
}
type TraceObs struct {
	TraceId   string `json:"trace_id"`
	StartTime uint64 `json:"start_time"`
	EndTime   uint64 `json:"end_time"`
	SpanCount int    `json:"span_count"`
	ErrCount  int    `json:"span_errors_count"`
	Service   string `json:"service_name"`
	Operation string `json:"operation_name"`
}
type GanttNode struct {
	SpanID      string       `json:"span_id"`
	Actual      uint64       `json:"actual_start_time"`
	Start       uint64       `json:"start_time"`
	End         uint64       `json:"end_time"`
	Duration    uint64       `json:"duration"`
	Service     string       `json:"service_name"`
	Operation   string       `json:"operation_name"`
	Anomalous   bool         `json:"is_anomalous"`
	Children    []*GanttNode `json:"children"`
	Status      string       `json:"status"`
	Tags        map[string]interface{} `json:"tags,omitempty"`
}
type GanttObs struct {
	Code int        `json:"code"`
	Tree *GanttNode `json:"tree,omitempty"`
	Body string     `json:"body,omitempty"`
	Err  string     `json:"err,omitempty"`
}
type RedObs struct {
	Service string  `json:"service"`
	Rate    float64 `json:"rate"`
	ErrRate float64 `json:"error_rate"`
	P50     float64 `json:"p50"`
	P90     float64 `json:"p90"`
	P95     float64 `json:"p95"`
	P99     float64 `json:"p99"`
}
type StoredObs struct {
	T   string `json:"t"`
	S   string `json:"s"`
	Svc string `json:"svc"`
	Ts  uint64 `json:"ts,omitempty"` // ingest timestamp (ms) of the stored event
}

// RawObs: the pages from=0,1000,2000,... (size 1000) of one search text, read the way the handlers read them
// (until a page is empty); every page is the list of "trace/span" keys in the order of the answer
type RawObs struct {
	Pages [][]string `json:"pages"`
	Err   string     `json:"err,omitempty"`
}
type WorkerObs struct {
	Stored    []StoredObs               `json:"stored"` // every span of index traces read back with a "*" query
	StoredErr string                    `json:"stored_err,omitempty"`
	Ingest []int                     `json:"ingest"`
	Search []SearchObs               `json:"search"`
	Gantt  map[string]*GanttObs      `json:"gantt"`
	Dep    map[string]map[string]int `json:"dep"`
	DepErr string                    `json:"dep_err,omitempty"`
	Red    []RedObs                  `json:"red"`
	RedErr string                    `json:"red_err,omitempty"`
	Raw    map[string]*RawObs        `json:"raw,omitempty"`
	Scroll []ScrollObs               `json:"scroll,omitempty"`
	ReqMs  []uint64                  `json:"req_ms,omitempty"` // OwnTs: the millisecond clock read just before every OTLP request (after it had moved on)
	Agg    *AggObs                   `json:"agg,omitempty"`
}

func initNode(dir string) error {
	config.InitializeTestingConfig(dir + "/")
	config.SetNewQueryPipelineEnabled(true)
	limit.InitMemoryLimiter()
	writer.InitWriterNode()
	if err := vtable.InitVTable(serverutils.GetMyIds); err != nil {
		return err
	}
	if err := query.InitQueryNode(serverutils.GetMyIds, serverutils.ExtractKibanaRequests); err != nil {
		return err
	}
	query.InitMaxRunningQueries()
	go query.PullQueriesToRun(context.Background())
	return nil
}

// guarded runs f with panic capture and a wall-clock cap; returns "" or "panic: ..."/"timeout"
func guarded(d time.Duration, f func()) string {
	ch := make(chan string, 1)
	go func() {
		defer func() {
			if r := recover(); r != nil {
				ch <- fmt.Sprintf("panic: %v", r)
			}
		}()
		f()
		ch <- ""
	}()
	select {
	case s := <-ch:
		return s
	case <-time.After(d):
		return "timeout"
	}
}

func statusOf(c int) *tracepb.Status {
	switch c {
	case 0:
		return &tracepb.Status{Code: tracepb.Status_STATUS_CODE_UNSET}
	case 1:
		return &tracepb.Status{Code: tracepb.Status_STATUS_CODE_OK}
	case 2:
		return &tracepb.Status{Code: tracepb.Status_STATUS_CODE_ERROR}
	}
	return nil
}

func strAttr(k, v string) *commonpb.KeyValue {
	return &commonpb.KeyValue{Key: k, Value: &commonpb.AnyValue{Value: &commonpb.AnyValue_StringValue{StringValue: v}}}
}

func resourceOf(kind int, name string) *resourcepb.Resource {
	switch kind {
	case 1:
		return nil
	case 2:
		return &resourcepb.Resource{Attributes: []*commonpb.KeyValue{strAttr("host.name", "h")}}
	case 3:
		return &resourcepb.Resource{Attributes: []*commonpb.KeyValue{{Key: "service.name", Value: &commonpb.AnyValue{Value: &commonpb.AnyValue_IntValue{IntValue: 7}}}}}
	case 4:
		return &resourcepb.Resource{Attributes: []*commonpb.KeyValue{strAttr("service.name", "zzz"), strAttr("service.name", name)}}
	case 5:
		return &resourcepb.Resource{Attributes: []*commonpb.KeyValue{strAttr("host.name", "h"), strAttr("service.name", name), strAttr("host.name", "i")}}
	}
	return &resourcepb.Resource{Attributes: []*commonpb.KeyValue{strAttr("service.name", name)}}
}

func otlpRequest(spans []Span) []byte {
	// one ResourceSpans entry per run of equal resource ordinals (keeps the span order of the batch)
	req := &coltracepb.ExportTraceServiceRequest{}
	var cur *tracepb.ResourceSpans
	curR := 0
	for i, s := range spans {
		if cur == nil || s.R != curR || i == 0 {
			cur = &tracepb.ResourceSpans{Resource: resourceOf(s.RK, s.SvcN), ScopeSpans: []*tracepb.ScopeSpans{{}}}
			curR = s.R
			req.ResourceSpans = append(req.ResourceSpans, cur)
		} else if s.RS {
			cur.ScopeSpans = append(cur.ScopeSpans, &tracepb.ScopeSpans{})
		}
		tid, _ := hex.DecodeString(s.T)
		sid, _ := hex.DecodeString(s.S)
		pid, _ := hex.DecodeString(s.P)
		sc := cur.ScopeSpans[len(cur.ScopeSpans)-1]
		sc.Spans = append(sc.Spans, &tracepb.Span{
			TraceId: tid, SpanId: sid, ParentSpanId: pid, Name: s.Name, Kind: tracepb.Span_SPAN_KIND_SERVER,
			StartTimeUnixNano: s.Start, EndTimeUnixNano: s.End, Status: statusOf(s.St),
		})
	}
	b, err := proto.Marshal(req)
	if err != nil {
		panic(err)
	}
	return b
}

func postCtx(body []byte) *fasthttp.RequestCtx {
	ctx := &fasthttp.RequestCtx{}
	ctx.Request.Header.SetMethod("POST")
	ctx.Request.SetBody(body)
	return ctx
}

func flushAll() {
	zero := time.Duration(0)
	writer.FlushWipBufferToFile(&zero, &zero)
}

const opCap = 60 * time.Second

func runScenarioWorker(sc *Scenario) *WorkerObs {
	o := &WorkerObs{Gantt: map[string]*GanttObs{}}
	if len(sc.Scroll) > 0 {
		o.Scroll = runScrollWorker(sc.Scroll)
		return o
	}
	// ingest through the real OTLP path
	pos := 0
	lastMs := uint64(0)
	if sc.Agg != nil { // period by period, the hourly job after each (aggworker.go)
		runAggWorker(sc, o)
	}
	for bi, n := range sc.Batches {
		if sc.Agg != nil {
			break
		}
		if pos+n > len(sc.Spans) {
			n = len(sc.Spans) - pos
		}
		if sc.OwnTs { // ProcessTraceIngest stamps every span of a request with the millisecond clock read at its start
			for sutils.GetCurrentTimeInMs() <= lastMs {
				time.Sleep(50 * time.Microsecond)
			}
			o.ReqMs = append(o.ReqMs, sutils.GetCurrentTimeInMs())
		}
		body := otlpRequest(sc.Spans[pos : pos+n])
		pos += n
		ctx := postCtx(body)
		ctx.Request.Header.Set("Content-Type", "application/x-protobuf")
		e := guarded(opCap, func() { otlp.ProcessTraceIngest(ctx, 0) })
		code := ctx.Response.StatusCode()
		if e != "" {
			code = -1
		}
		o.Ingest = append(o.Ingest, code)
		if sc.OwnTs {
			lastMs = sutils.GetCurrentTimeInMs()
		}
		if sc.Layout != nil {
			if bi < len(sc.Layout) && sc.Layout[bi] >= 1 {
				flushAll()
				if sc.Layout[bi] == 2 {
					writer.ForceRotateSegmentsForTest()
				}
			}
		} else if sc.FlushEach {
			flushAll()
		}
	}
	flushAll()
	if sc.Rotate {
		writer.ForceRotateSegmentsForTest()
	}
	se, ee := fmt.Sprintf("%d", sc.StartMs), fmt.Sprintf("%d", sc.EndMs)

	if len(sc.Spans) <= 9000 { // the stored events (one page holds them all)
		body, _ := json.Marshal(map[string]interface{}{"searchText": "*", "indexName": "traces", "startEpoch": "1600000000000", "endEpoch": "4000000000000",
			"queryLanguage": "Splunk QL", "size": 10000})
		ctx := postCtx(body)
		var resp struct {
			Hits struct {
				Records []map[string]interface{} `json:"records"`
			} `json:"hits"`
		}
		o.StoredErr = guarded(opCap, func() { pipesearchProcess(ctx) })
		if o.StoredErr == "" {
			if err := json.Unmarshal(ctx.Response.Body(), &resp); err != nil {
				o.StoredErr = "bad body: " + trunc(string(ctx.Response.Body()), 300)
			}
			for _, r := range resp.Hits.Records {
				so := StoredObs{}
				so.T, _ = r["trace_id"].(string)
				so.S, _ = r["span_id"].(string)
				if v, ok := r["service"]; ok && v != nil {
					if sv, ok := v.(string); ok {
						so.Svc = sv
					} else {
						so.Svc = fmt.Sprintf("<%v>", v)
					}
				}
				if f := fl(r["timestamp"]); f > 0 {
					so.Ts = uint64(f)
				}
				o.Stored = append(o.Stored, so)
			}
		}
	}

	// raw paged reads: the requests MakeTracesDependancyGraph / ProcessRedTracesIngest ("*") and
	// ProcessGanttChartRequest (trace_id="<id>") send, page after page until an empty page
	for _, what := range sc.Raw {
		if o.Raw == nil {
			o.Raw = map[string]*RawObs{}
		}
		ro := &RawObs{}
		o.Raw[what] = ro
		text := "*"
		if what != "*" {
			text = fmt.Sprintf(`trace_id="%s"`, what)
		}
		for from := 0; from <= len(sc.Spans)+2000; from += 1000 {
			body, _ := json.Marshal(map[string]interface{}{"searchText": text, "indexName": "traces", "startEpoch": se, "endEpoch": ee,
				"queryLanguage": "Splunk QL", "from": from, "size": 1000})
			ctx := postCtx(body)
			var resp struct {
				Hits struct {
					Records []map[string]interface{} `json:"records"`
				} `json:"hits"`
			}
			if ro.Err = guarded(opCap, func() { pipesearchProcess(ctx) }); ro.Err != "" {
				break
			}
			if err := json.Unmarshal(ctx.Response.Body(), &resp); err != nil {
				ro.Err = "bad body: " + trunc(string(ctx.Response.Body()), 300)
				break
			}
			if len(resp.Hits.Records) == 0 {
				break
			}
			pg := make([]string, 0, len(resp.Hits.Records))
			for _, r := range resp.Hits.Records {
				t, _ := r["trace_id"].(string)
				sid, _ := r["span_id"].(string)
				pg = append(pg, t+"/"+sid)
			}
			ro.Pages = append(ro.Pages, pg)
		}
	}

	for page := 1; page <= sc.Pages; page++ {
		body, _ := json.Marshal(map[string]interface{}{"searchText": "*", "startEpoch": se, "endEpoch": ee,
			"queryLanguage": "Splunk QL", "page": page})
		ctx := postCtx(body)
		so := SearchObs{}
		so.Err = guarded(opCap, func() { thandler.ProcessSearchTracesRequest(ctx, 0) })
		if so.Err == "" {
			so.Code = ctx.Response.StatusCode()
			var r struct {
				Traces []TraceObs `json:"traces"`
			}
			if err := json.Unmarshal(ctx.Response.Body(), &r); err != nil || so.Code != 200 {
				so.Body = trunc(string(ctx.Response.Body()), 300)
			}
			so.Traces = r.Traces
		}
		o.Search = append(o.Search, so)
	}

	for _, tid := range sc.Gantt {
		body, _ := json.Marshal(map[string]interface{}{"searchText": "trace_id=" + tid, "startEpoch": se, "endEpoch": ee})
		ctx := postCtx(body)
		g := &GanttObs{}
		g.Err = guarded(opCap, func() { thandler.ProcessGanttChartRequest(ctx, 0) })
		if g.Err == "" {
			g.Code = ctx.Response.StatusCode()
			if g.Code == 200 {
				g.Tree = &GanttNode{}
				if err := json.Unmarshal(ctx.Response.Body(), g.Tree); err != nil {
					g.Tree = nil
					g.Body = trunc(string(ctx.Response.Body()), 300)
				}
			} else {
				g.Body = trunc(string(ctx.Response.Body()), 300)
			}
		}
		o.Gantt[tid] = g
	}

	if sc.Dep {
		body, _ := json.Marshal(map[string]interface{}{"startEpoch": se, "endEpoch": ee})
		ctx := postCtx(body)
		o.DepErr = guarded(opCap, func() { thandler.ProcessGeneratedDepGraph(ctx, 0) })
		if o.DepErr == "" {
			if err := json.Unmarshal(ctx.Response.Body(), &o.Dep); err != nil {
				o.DepErr = "bad body: " + trunc(string(ctx.Response.Body()), 300)
			}
		}
	}

	if sc.Red {
		o.RedErr = guarded(opCap, func() { thandler.ProcessRedTracesIngest(0) })
		flushAll()
		if o.RedErr == "" {
			body, _ := json.Marshal(map[string]interface{}{"searchText": "*", "indexName": "red-traces", "startEpoch": se, "endEpoch": ee,
				"queryLanguage": "Splunk QL", "size": 10000})
			ctx := postCtx(body)
			var resp struct {
				Hits struct {
					Records []map[string]interface{} `json:"records"`
				} `json:"hits"`
			}
			o.RedErr = guarded(opCap, func() { pipesearchProcess(ctx) })
			if o.RedErr == "" {
				if err := json.Unmarshal(ctx.Response.Body(), &resp); err != nil {
					o.RedErr = "bad body: " + trunc(string(ctx.Response.Body()), 300)
				}
				for _, r := range resp.Hits.Records {
					ro := RedObs{}
					ro.Service, _ = r["service"].(string)
					ro.Rate = fl(r["rate"])
					ro.ErrRate = fl(r["error_rate"])
					ro.P50, ro.P90, ro.P95, ro.P99 = fl(r["p50"]), fl(r["p90"]), fl(r["p95"]), fl(r["p99"])
					o.Red = append(o.Red, ro)
				}
				sort.Slice(o.Red, func(i, j int) bool { return o.Red[i].Service < o.Red[j].Service })
			}
		}
	}
	return o
}

func fl(v interface{}) float64 {
	switch x := v.(type) {
	case float64:
		return x
	case json.Number:
		f, _ := x.Float64()
		return f
	}
	return -1
}

func trunc(s string, n int) string {
	if len(s) > n {
		return s[:n]
	}
	return s
}

func workerMain(dir, scenPath, outPath string) {
	log.SetLevel(log.PanicLevel)
	b, err := os.ReadFile(scenPath)
	if err != nil {
		fmt.Fprintln(os.Stderr, err)
		os.Exit(3)
	}
	var sc Scenario
	if err := json.Unmarshal(b, &sc); err != nil {
		fmt.Fprintln(os.Stderr, err)
		os.Exit(3)
	}
	if err := initNode(dir); err != nil {
		fmt.Fprintln(os.Stderr, "init:", err)
		os.Exit(4)
	}
	o := runScenarioWorker(&sc)
	ob, _ := json.Marshal(o)
	if err := os.WriteFile(outPath, ob, 0o644); err != nil {
		os.Exit(5)
	}
	os.Exit(0)
}

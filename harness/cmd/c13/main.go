// c13: tenant and index isolation.
//
// The real siglens code runs in worker processes (one fresh data directory per
// scenario, a second worker on the same directory = restart).  A scenario is a
// list of ops over 3 organisations and index names that are prefixes / suffixes /
// regex-confusable variants of each other.  Every ingested event carries marker
// fields (morg, midx, mid) and a per-(org,index) column, so every query form
// (search, stats, SPL index=..., column listing, index listing) shows where its
// data came from.
//
//	(a) property oracle on the observables: every returned marker belongs to the
//	    requesting org and to an index named by the expression under GLOB semantics;
//	    delete-index removes exactly the data of the named indexes of that org;
//	(b) Coq case files: the model (Tenant.v, the code's regex semantics) must predict
//	    exactly the id sets / column sets / index lists the real code returned.
package main

import (
	"context"
	"encoding/json"
	"fmt"
	"os"
	"os/exec"
	"path/filepath"
	"regexp"
	"sort"
	"strconv"
	"strings"
	"sync"
	"time"

	"github.com/cespare/xxhash"
	"github.com/siglens/siglens/pkg/ast/pipesearch"
	"github.com/siglens/siglens/pkg/config"
	"github.com/siglens/siglens/pkg/hooks"
	eswriter "github.com/siglens/siglens/pkg/es/writer"
	"github.com/siglens/siglens/pkg/integrations/prometheus/promql"
	"github.com/siglens/siglens/pkg/segment"
	"github.com/siglens/siglens/pkg/segment/memory/limit"
	segmetadata "github.com/siglens/siglens/pkg/segment/metadata"
	"github.com/siglens/siglens/pkg/segment/query"
	sutils "github.com/siglens/siglens/pkg/segment/utils"
	"github.com/siglens/siglens/pkg/segment/writer"
	"github.com/siglens/siglens/pkg/segment/writer/metrics"
	serverutils "github.com/siglens/siglens/pkg/server/utils"
	"github.com/siglens/siglens/pkg/utils"
	vtable "github.com/siglens/siglens/pkg/virtualtable"
	log "github.com/sirupsen/logrus"
	"github.com/valyala/fasthttp"

	"verifharness/vhlib"
)

// ---------- ops ----------
// kinds: ingest (Org, Idx, Ids) [+flush]; rotate; mkadir (Org); alias (Org, Idx, Al);
// unalias (Org, Idx, Al); delete (Org, Expr); restart;
// q_search / q_stats / q_spl / q_cols / q_list (Org, Expr)
type Op struct {
	Kind string `json:"k"`
	Org  int64  `json:"org,omitempty"`
	Idx  string `json:"idx,omitempty"`
	Al   string `json:"al,omitempty"`
	Expr string `json:"expr,omitempty"`
	Ids  []int  `json:"ids,omitempty"`
	Col  string `json:"col,omitempty"` // ingest: marker column = colName(org, table the spec resolves the name to)
}

// observation of one op
type Obs struct {
	Ids   []int    `json:"ids,omitempty"`   // markers returned (sorted, deduplicated)
	Names []string `json:"names,omitempty"` // q_cols: marker columns; q_list: index names
	Err   string   `json:"err,omitempty"`
	Dup   bool     `json:"dup,omitempty"` // an id was returned more than once
	Code  int      `json:"code,omitempty"`
}

const tsBase = uint64(1700000000000)

var idxCode = map[string]int{}

func colName(org int64, idx string) string {
	// column names must be plain identifiers
	h := 0
	for _, c := range []byte(idx) {
		h = h*131 + int(c)
	}
	return fmt.Sprintf("kc%d_%d", org, h%1000003)
}

// ---------- worker: runs the real code ----------
func initNode(dir string) error {
	config.InitializeTestingConfig(dir + "/")
	config.SetNewQueryPipelineEnabled(true)
	limit.InitMemoryLimiter()
	metrics.InitTestingConfig()
	writer.InitWriterNode()
	if err := vtable.InitVTable(serverutils.GetMyIds); err != nil {
		return err
	}
	if err := query.InitQueryNode(serverutils.GetMyIds, serverutils.ExtractKibanaRequests); err != nil {
		return err
	}
	query.InitMaxRunningQueries()
	go query.PullQueriesToRun(context.Background())
	return nil
}

var qid uint64 = 1

func runQuery(org int64, text, expr string) (*Obs, []map[string]interface{}, []string) {
	qid++
	req := map[string]interface{}{
		"searchText": text, "indexName": expr, "startEpoch": tsBase - 1000, "endEpoch": tsBase + 100000000,
		"size": uint64(10000), "from": uint64(0), "queryLanguage": "Splunk QL", "state": "query",
	}
	o := &Obs{}
	type res struct {
		hits  []map[string]interface{}
		gvals []string
		err   string
	}
	ch := make(chan res, 1)
	go func() {
		defer func() {
			if r := recover(); r != nil {
				ch <- res{err: fmt.Sprintf("panic: %v", r)}
			}
		}()
		resp, _, _, err := pipesearch.ParseAndExecutePipeRequest(req, qid, org, time.Now(), "", nil)
		if err != nil {
			ch <- res{err: "error: " + err.Error()}
			return
		}
		if resp == nil {
			ch <- res{err: "nil response"}
			return
		}
		var g []string
		for _, b := range resp.MeasureResults {
			for _, v := range b.GroupByValues {
				g = append(g, v)
			}
		}
		e := ""
		if len(resp.Errors) > 0 {
			e = "resp.Errors: " + strings.Join(resp.Errors, "; ")
		}
		ch <- res{hits: resp.Hits.Hits, gvals: g, err: e}
	}()
	select {
	case r := <-ch:
		o.Err = r.err
		return o, r.hits, r.gvals
	case <-time.After(20 * time.Second):
		o.Err = "timeout"
		return o, nil, nil
	}
}

func toInt(v interface{}) (int, bool) {
	switch x := v.(type) {
	case float64:
		return int(x), true
	case int64:
		return int(x), true
	case uint64:
		return int(x), true
	case int:
		return x, true
	case json.Number:
		n, err := x.Int64()
		return int(n), err == nil
	case string:
		n, err := strconv.Atoi(x)
		return n, err == nil
	}
	return 0, false
}

func setIds(o *Obs, ids []int) {
	sort.Ints(ids)
	for i, x := range ids {
		if i > 0 && ids[i-1] == x {
			o.Dup = true
			continue
		}
		o.Ids = append(o.Ids, x)
	}
}

func workerMain(dir, scriptPath, outPath string) {
	log.SetLevel(log.PanicLevel)
	b, err := os.ReadFile(scriptPath)
	if err != nil {
		fmt.Fprintln(os.Stderr, err)
		os.Exit(3)
	}
	var ops []Op
	if err := json.Unmarshal(b, &ops); err != nil {
		fmt.Fprintln(os.Stderr, err)
		os.Exit(3)
	}
	// multi-tenant node: the deployment's id hook lists every organisation (start-up recovery, table pre-load and the
	// refresh loops go by GetMyIds)
	if len(ops) > 0 && ops[0].Kind == "myids" {
		ids := make([]int64, 0, len(ops[0].Ids))
		for _, x := range ops[0].Ids {
			ids = append(ids, int64(x))
		}
		hooks.GlobalHooks.GetIdsConditionHook = func() (bool, []int64) { return true, ids }
	}
	if err := initNode(dir); err != nil {
		fmt.Fprintln(os.Stderr, "init:", err)
		os.Exit(4)
	}
	if len(ops) > 0 && ops[0].Kind == "myids" && ops[0].Al == "after_crash" {
		// segments that have a .sfm but no line in segmeta.json are adopted by a goroutine started in InitQueryNode
		// (initSyncSegMetaForAllIds): wait until every segment with a .sfm on disk is in the in-memory metadata
		for k := 0; k < 150; k++ {
			n := 0
			_ = filepath.Walk(dir, func(p string, info os.FileInfo, err error) error {
				if err == nil && !info.IsDir() && strings.HasSuffix(p, ".sfm") {
					n++
				}
				return nil
			})
			if len(segmetadata.GetAllSegKeys()) >= n {
				break
			}
			time.Sleep(100 * time.Millisecond)
		}
	}
	obs := make([]Obs, len(ops))
	zero := time.Duration(0)
	for i, op := range ops {
		switch op.Kind {
		case "ingest":
			var sb strings.Builder
			for _, id := range op.Ids {
				fmt.Fprintf(&sb, "{\"index\":{\"_index\":%q}}\n", op.Idx)
				fmt.Fprintf(&sb, "{\"timestamp\":%d,\"morg\":%d,\"midx\":%q,\"mid\":%d,\"%s\":1}\n",
					tsBase+uint64(id), op.Org, op.Idx, id, op.Col)
			}
			n, _, err := eswriter.HandleBulkBody([]byte(sb.String()), nil, uint64(i+1), op.Org, false)
			if err != nil {
				obs[i].Err = err.Error()
			}
			obs[i].Code = n
			writer.FlushWipBufferToFile(&zero, &zero)
		case "m_ingest":
			for _, id := range op.Ids {
				raw := fmt.Sprintf(`{"metric":"%s","tags":{"dp":"d%d","morg":"o%d"},"timestamp":%d,"value":%d}`, op.Idx, id, op.Org, tsBase/1000+uint64(id), id)
				if err := writer.AddTimeSeriesEntryToInMemBuf([]byte(raw), sutils.SIGNAL_METRICS_OTSDB, op.Org); err != nil {
					obs[i].Err = err.Error()
				}
			}
		case "m_rotate":
			old := sutils.MAX_BYTES_METRICS_SEGMENT
			sutils.MAX_BYTES_METRICS_SEGMENT = 0
			for _, mSeg := range metrics.GetAllMetricsSegments() {
				if err := mSeg.CheckAndRotate(false); err != nil {
					obs[i].Err = err.Error()
				}
			}
			sutils.MAX_BYTES_METRICS_SEGMENT = old
			if err := query.PopulateMetricsMetadataForTheFile_TestOnly(config.GetSmrBaseDir() + "metricmeta.json"); err != nil {
				obs[i].Err = err.Error()
			}
		case "m_query":
			func() {
				defer func() {
					if r := recover(); r != nil {
						obs[i].Err = fmt.Sprintf("panic: %v", r)
					}
				}()
				lo, hi := uint32(tsBase/1000-10), uint32(tsBase/1000+300)
				reqs, _, _, err := promql.ConvertPromQLToMetricsQuery(op.Expr, lo, hi, op.Org)
				if err != nil {
					obs[i].Err = err.Error()
					return
				}
				qid++
				res := segment.ExecuteMetricsQuery(&reqs[0].MetricsQuery, &reqs[0].TimeRange, qid)
				if res == nil {
					obs[i].Err = "nil result"
					return
				}
				if len(res.ErrList) > 0 {
					obs[i].Err = fmt.Sprintf("%v", res.ErrList)
				}
				var ids []int
				for series := range res.Results {
					obs[i].Names = append(obs[i].Names, series)
					if k := strings.Index(series, "dp:d"); k >= 0 {
						rest := series[k+4:]
						j := 0
						for j < len(rest) && rest[j] >= '0' && rest[j] <= '9' {
							j++
						}
						if n, err := strconv.Atoi(rest[:j]); err == nil {
							ids = append(ids, n)
						}
					}
				}
				sort.Strings(obs[i].Names)
				setIds(&obs[i], ids)
			}()
		case "create":
			if err := vtable.AddVirtualTable(&op.Idx, op.Org); err != nil {
				obs[i].Err = err.Error()
			}
		case "myids":
		case "shutdown":
			// the data-related part of ShutdownSiglensServer
			writer.ForcedFlushToSegfile()
			_ = vtable.FlushAliasMapToFile()
			writer.WaitForSortedIndexToComplete()
		case "rotate":
			writer.ForceRotateSegmentsForTest()
		case "mkadir":
			_ = os.MkdirAll(vtable.VTableAliasesDir+strconv.FormatInt(op.Org, 10), 0o755)
		case "alias":
			if err := vtable.AddAliases(op.Idx, []string{op.Al}, op.Org); err != nil {
				obs[i].Err = "err"
			}
		case "unalias":
			if err := vtable.RemoveAliases(op.Idx, []string{op.Al}, op.Org); err != nil {
				obs[i].Err = "err"
			}
		case "delete":
			var ctx fasthttp.RequestCtx
			ctx.SetUserValue("indexName", op.Expr)
			eswriter.ProcessDeleteIndex(&ctx, op.Org)
			obs[i].Code = ctx.Response.StatusCode()
		case "q_search", "q_spl", "q_raw":
			text, expr := "*", op.Expr
			if op.Kind == "q_spl" {
				// SPL index block: _index="x" OR _index="y" ; the request's indexName is "*"
				parts := strings.Split(op.Expr, ",")
				for j := range parts {
					parts[j] = "_index=\"" + parts[j] + "\""
				}
				text, expr = strings.Join(parts, " OR ")+" *", "*"
			}
			if op.Kind == "q_raw" {
				text = op.Al
			}
			o, hits, _ := runQuery(op.Org, text, expr)
			var ids []int
			for _, h := range hits {
				if v, ok := h["mid"]; ok {
					if n, ok := toInt(v); ok {
						ids = append(ids, n)
						continue
					}
				}
				o.Err += fmt.Sprintf(" record without mid: %v", h)
			}
			setIds(o, ids)
			obs[i] = *o
		case "q_stats":
			o, _, g := runQuery(op.Org, "* | stats count by mid", op.Expr)
			var ids []int
			for _, v := range g {
				n, err := strconv.Atoi(v)
				if err != nil {
					o.Err += " group value not a number: " + v
					continue
				}
				ids = append(ids, n)
			}
			setIds(o, ids)
			obs[i] = *o
		case "q_cols":
			var ctx fasthttp.RequestCtx
			body, _ := json.Marshal(map[string]interface{}{"searchText": "*", "indexName": op.Expr,
				"startEpoch": tsBase - 1000, "endEpoch": tsBase + 100000000})
			ctx.Request.SetBody(body)
			pipesearch.ListColumnNamesHandler(&ctx, op.Org)
			var cols []string
			if err := json.Unmarshal(ctx.Response.Body(), &cols); err != nil {
				obs[i].Err = "bad response: " + string(ctx.Response.Body())
			}
			for _, c := range cols {
				if strings.HasPrefix(c, "kc") {
					obs[i].Names = append(obs[i].Names, c)
				}
			}
			sort.Strings(obs[i].Names)
		case "q_list":
			var ctx fasthttp.RequestCtx
			pipesearch.ListIndicesHandler(&ctx, op.Org)
			var l []struct {
				Index string `json:"index"`
			}
			if err := json.Unmarshal(ctx.Response.Body(), &l); err != nil {
				obs[i].Err = "bad response: " + string(ctx.Response.Body())
			}
			for _, e := range l {
				obs[i].Names = append(obs[i].Names, e.Index)
			}
			sort.Strings(obs[i].Names)
		default:
			obs[i].Err = "unknown op"
		}
	}
	ob, _ := json.Marshal(obs)
	if err := os.WriteFile(outPath, ob, 0o644); err != nil {
		os.Exit(5)
	}
	os.Exit(0)
}

// ---------- driver side ----------
// runScenario splits ops at "restart" and runs each phase in its own worker process on the same directory.
func runScenario(dir string, ops []Op) ([]Obs, error) {
	_ = os.RemoveAll(dir)
	if err := os.MkdirAll(dir, 0o755); err != nil {
		return nil, err
	}
	data := filepath.Join(dir, "data")
	_ = os.MkdirAll(data, 0o755)
	all := make([]Obs, len(ops))
	start := 0
	phase := 0
	// "crash" = unclean death: the worker simply ends (os.Exit) without the shutdown sequence; nothing is rotated, no
	// alias map is flushed.  A scenario with a crash runs on a multi-tenant node (id hook = the crash op's Ids) in every phase.
	var myids []int
	for _, o := range ops {
		if o.Kind == "crash" {
			myids = o.Ids
			break
		}
	}
	afterCrash := false
	for start <= len(ops) {
		end := start
		for end < len(ops) && ops[end].Kind != "restart" && ops[end].Kind != "crash" {
			end++
		}
		if end > start {
			sp := filepath.Join(dir, fmt.Sprintf("script%d.json", phase))
			op := filepath.Join(dir, fmt.Sprintf("obs%d.json", phase))
			var phaseOps []Op
			off := 0
			if myids != nil {
				al := ""
				if afterCrash {
					al = "after_crash"
				}
				phaseOps = append(phaseOps, Op{Kind: "myids", Ids: myids, Al: al})
				off = 1
			}
			phaseOps = append(phaseOps, ops[start:end]...)
			if end < len(ops) && ops[end].Kind == "restart" {
				phaseOps = append(phaseOps, Op{Kind: "shutdown"})
			}
			b, _ := json.Marshal(phaseOps)
			_ = os.WriteFile(sp, b, 0o644)
			ctx, cancel := context.WithTimeout(context.Background(), 120*time.Second)
			cmd := exec.CommandContext(ctx, os.Args[0], "worker", data, sp, op)
			out, err := cmd.CombinedOutput()
			cancel()
			if err != nil {
				tail := string(out)
				if len(tail) > 600 {
					tail = tail[len(tail)-600:]
				}
				return nil, fmt.Errorf("worker phase %d: %v: %s", phase, err, tail)
			}
			ob, err := os.ReadFile(op)
			if err != nil {
				return nil, err
			}
			var o []Obs
			if err := json.Unmarshal(ob, &o); err != nil || len(o) != len(phaseOps) {
				return nil, fmt.Errorf("worker phase %d: bad observation file", phase)
			}
			copy(all[start:end], o[off:off+end-start])
		}
		afterCrash = end < len(ops) && ops[end].Kind == "crash"
		phase++
		start = end + 1
	}
	return all, nil
}

// ---------- specification side (independent of the code under test) ----------

// glob: only '*' is special
func glob(p, s string) bool {
	if p == "" {
		return s == ""
	}
	if p[0] == '*' {
		for i := 0; i <= len(s); i++ {
			if glob(p[1:], s[i:]) {
				return true
			}
		}
		return false
	}
	return s != "" && p[0] == s[0] && glob(p[1:], s[1:])
}

func stripColon(e string) string {
	if i := strings.Index(e, ":"); i >= 0 {
		return e[i+1:]
	}
	return e
}

// what the harness knows from the ops it issued (specification state)
type spec struct {
	evOrg     map[int]int64
	evTab     map[int]string
	live      map[int]bool                         // ingested and not (supposed to be) deleted
	tables    map[int64]map[string]bool            // created / ingested and not deleted
	alias     map[int64]map[string]map[string]bool // alias -> indexes
	adir      map[int64]bool
	delPhase  map[int64]map[string]bool // deleted since the last restart
	recreated map[int64]map[string]bool // ingested again after a delete in the same process
	restarted bool
	crashed   bool // an unclean death + start-up recovery lies behind this point
	unrot     map[int64]map[string]bool            // has flushed-but-unrotated data
	zombies   map[int]bool                         // events of an index that was deleted, re-created and deleted again in one process
	aliasEver map[int64]map[string]map[string]bool // alias -> indexes it ever pointed to
	aliasCut  map[int64]map[string]bool            // alias from which at least one index was removed
	hadOpen   map[int64]map[string]bool            // index lost its files (delete-index of that name) while it had flushed, unrotated data
}

func newSpec() *spec {
	s := &spec{evOrg: map[int]int64{}, evTab: map[int]string{}, live: map[int]bool{},
		tables: map[int64]map[string]bool{}, alias: map[int64]map[string]map[string]bool{}, adir: map[int64]bool{0: true},
		delPhase: map[int64]map[string]bool{}, recreated: map[int64]map[string]bool{}, unrot: map[int64]map[string]bool{}, zombies: map[int]bool{},
		aliasEver: map[int64]map[string]map[string]bool{}, aliasCut: map[int64]map[string]bool{}, hadOpen: map[int64]map[string]bool{}}
	for _, o := range allOrgs {
		s.tables[o] = map[string]bool{}
		s.alias[o] = map[string]map[string]bool{}
		s.delPhase[o] = map[string]bool{}
		s.recreated[o] = map[string]bool{}
		s.unrot[o] = map[string]bool{}
		s.aliasEver[o] = map[string]map[string]bool{}
		s.aliasCut[o] = map[string]bool{}
		s.hadOpen[o] = map[string]bool{}
	}
	return s
}

// how does expr (of org X) name table t: directly (literal / glob on the index name), through a current
// alias, only through an alias that has been removed; cut = through a current alias that lost another index
func (s *spec) namesHow(X int64, expr, t string) (direct, viaCur, viaRemoved, cut bool) {
	for _, term := range strings.Split(stripColon(expr), ",") {
		star := strings.Contains(term, "*")
		if (star && glob(term, t)) || (!star && term == t) {
			direct = true
		}
		for a, ever := range s.aliasEver[X] {
			if !ever[t] || !((star && glob(term, a)) || (!star && term == a)) {
				continue
			}
			if s.alias[X][a][t] {
				viaCur = true
				if s.aliasCut[X][a] {
					cut = true
				}
			} else {
				viaRemoved = true
			}
		}
	}
	return
}

// does expression expr, issued by org X, name table t (glob semantics, aliases of X)?
func (s *spec) names(X int64, expr, t string) bool {
	for _, term := range strings.Split(stripColon(expr), ",") {
		if strings.Contains(term, "*") {
			if glob(term, t) {
				return true
			}
			for a, idxs := range s.alias[X] {
				if idxs[t] && glob(term, a) {
					return true
				}
			}
		} else {
			if term == t || s.alias[X][term][t] {
				return true
			}
		}
	}
	return false
}

func (s *spec) resolve(X int64, n string) string {
	if m := s.alias[X][n]; len(m) == 1 {
		for k := range m {
			return k
		}
	}
	return n
}

var orgs = []int64{0, 1, 2}

// orgs whose decimal ids are prefixes of each other, and index names that begin with the digits completing
// another org's id: "<org><index>" coincides for (12, logs)/(1, 2logs), (73, 1-app)/(7, 31-app),
// (123, x)/(12, 3x)/(1, 23x)
var digitOrgs = []int64{1, 7, 12, 73, 123}
var allOrgs = []int64{0, 1, 2, 7, 12, 73, 123}
var digitIdx = map[int64][]string{
	1:   {"2logs", "23x", "logs"},
	12:  {"logs", "3x", "2logs"},
	7:   {"31-app", "1-app"},
	73:  {"1-app", "31-app"},
	123: {"x", "3x"},
}
var digitNames = []string{"logs", "2logs", "23x", "3x", "x", "1-app", "31-app"}
var digitCollisions = [][2]struct {
	Org int64
	Idx string
}{
	{{12, "logs"}, {1, "2logs"}},
	{{73, "1-app"}, {7, "31-app"}},
	{{123, "x"}, {12, "3x"}},
	{{12, "3x"}, {1, "23x"}},
	{{123, "x"}, {1, "23x"}},
}
var idxPool = map[int64][]string{
	0: {"a", "ab", "a-b", "ab1"},
	1: {"a", "ab", "a.b1", "aXb1"},
	2: {"ab", "ab1", "a.b1", "aXb1", "a-b"},
}
var aliasPool = map[int64][]string{
	0: {"al", "a.b1", "aXb1"},
	1: {"al", "a-b", "ab1"},
	2: {"al", "a"},
}
var allIdx = []string{"a", "ab", "a-b", "ab1", "a.b1", "aXb1"}
var snapshotExpr = strings.Join(allIdx, ",")
var wildMain = []string{"*", "a*", "ab*", "*b1", "a*1", "*b*", "a-*", "*-b", "al*", "*l", "a*b*", "**", "zz*", "*1", "a*b1",
	"b*", "b1*", "a*b", "*b", "X*", "*a"} // the last six match nothing or little under glob but much if an anchor is lost
var wildMeta = []string{"a.b*", "a.*", "a.*1", "*.b1", "a+b*", "a?b*", "+a*", "a.b1*", "a.*b1", "a++*", "a*+", "a+*"}
var rxMeta = ".+?"

func hasMeta(term string) bool { return strings.ContainsAny(term, rxMeta) }

// Go's own regexp on the code's translation (used only to classify a failure and for the matcher correspondence)
func goRx(term, s string) int {
	r, err := regexp.Compile("^" + strings.ReplaceAll(term, "*", ".*") + "$")
	if err != nil {
		return 2
	}
	if r.MatchString(s) {
		return 1
	}
	return 0
}

type scenario struct {
	Stream string `json:"stream"`
	Ops    []Op   `json:"ops"`
	// per op: spec snapshot needed by the oracle
	pre []*opCtx
}

// context captured at generation time for the oracle
type opCtx struct {
	named      map[string]bool // tables (of the requesting org) the expression names under glob semantics, among allIdx+aliases
	aliasOf    map[string]map[string]bool
	dspec      []string // delete: tables of X to be deleted per spec
	snapBefore [3]int   // delete: indices of the snapshot queries before / after
	snapAfter  [3]int
	liveBefore map[int]bool
	recreated  map[string]bool
	restarted  bool
	aliasDirs  bool
	viaCurOnly map[string]bool // named only through a current alias
	viaRemoved map[string]bool // not named, but an alias that used to point to the table matches
	cutAlias   map[string]bool // named through a current alias from which another index was removed
	noSnap     bool            // delete without before/after snapshots (streams with other org sets)
	hadOpen    map[string]bool // index of the org was deleted while it had unrotated data (stale columns until restart: known finding)
	complete   bool            // the completeness side of the oracle applies to this op
	crashed    bool            // the op runs after an unclean death + start-up recovery
}

type gen struct {
	r            *vhlib.Rng
	s            *spec
	sc           *scenario
	nextID       int
	stream       string
	willRestart  bool
	complete     bool // this stream promises completeness (no known-defect input)
	noSnap       bool // deletes of this stream carry no snapshots
	completePost bool // ... also after a restart (alias life-cycle streams: alias-form queries only)
}

func (g *gen) emit(op Op, c *opCtx) int {
	g.sc.Ops = append(g.sc.Ops, op)
	g.sc.pre = append(g.sc.pre, c)
	return len(g.sc.Ops) - 1
}

func (g *gen) ctxFor(X int64, expr string) *opCtx {
	c := &opCtx{named: map[string]bool{}, restarted: g.s.restarted, aliasDirs: g.s.adir[X] && X != 0,
		liveBefore: map[int]bool{}, aliasOf: map[string]map[string]bool{},
		viaCurOnly: map[string]bool{}, viaRemoved: map[string]bool{}, cutAlias: map[string]bool{}, hadOpen: map[string]bool{}}
	for t, v := range g.s.hadOpen[X] {
		c.hadOpen[t] = v
	}
	c.complete = g.complete && (!g.s.restarted || g.completePost)
	c.crashed = g.s.crashed
	for id, l := range g.s.live {
		c.liveBefore[id] = l
	}
	for a, m := range g.s.alias[X] {
		c.aliasOf[a] = map[string]bool{}
		for k, v := range m {
			c.aliasOf[a][k] = v
		}
	}
	cands := map[string]bool{}
	for _, n := range allIdx {
		cands[n] = true
	}
	for _, a := range aliasPool[X] {
		cands[a] = true
	}
	for _, id := range sortedIDs(g.s.evTab) {
		cands[g.s.evTab[id]] = true
	}
	for t := range cands {
		if g.s.names(X, expr, t) {
			c.named[t] = true
		}
		d, cur, rem, cut := g.s.namesHow(X, expr, t)
		c.viaCurOnly[t] = cur && !d
		c.viaRemoved[t] = rem && !d && !cur
		c.cutAlias[t] = cut
	}
	return c
}

func sortedIDs(m map[int]string) []int {
	var ids []int
	for k := range m {
		ids = append(ids, k)
	}
	sort.Ints(ids)
	return ids
}

func sortedAliasNames(m map[string]map[string]bool) []string {
	var ks []string
	for k := range m {
		ks = append(ks, k)
	}
	sort.Strings(ks)
	return ks
}

func sortedKeys(m map[string]bool) []string {
	var ks []string
	for k, v := range m {
		if v {
			ks = append(ks, k)
		}
	}
	sort.Strings(ks)
	return ks
}

func (g *gen) ingest(X int64, name string, n int) {
	var ids []int
	t := g.s.resolve(X, name)
	for i := 0; i < n; i++ {
		g.nextID++
		ids = append(ids, g.nextID)
		g.s.evOrg[g.nextID] = X
		g.s.evTab[g.nextID] = t
		g.s.live[g.nextID] = true
	}
	if g.s.delPhase[X][t] {
		g.s.recreated[X][t] = true
	}
	g.s.tables[X][t] = true
	g.s.unrot[X][t] = true
	g.emit(Op{Kind: "ingest", Org: X, Idx: name, Ids: ids, Col: colName(X, t)}, nil)
}

func (g *gen) rotate() {
	for _, o := range allOrgs {
		g.s.unrot[o] = map[string]bool{}
	}
	g.emit(Op{Kind: "rotate"}, nil)
}

func (g *gen) query(kind string, X int64, expr string) int {
	return g.emit(Op{Kind: kind, Org: X, Expr: expr}, g.ctxFor(X, expr))
}

func (g *gen) pickExpr(X int64, meta bool) string {
	r := g.r
	term := func() string {
		switch {
		case meta && r.Chance(60):
			return vhlib.Pick(r, wildMeta)
		case r.Chance(45):
			return vhlib.Pick(r, wildMain)
		case r.Chance(25):
			return vhlib.Pick(r, aliasPool[X])
		default:
			return vhlib.Pick(r, allIdx)
		}
	}
	e := term()
	if r.Chance(25) {
		e += "," + term()
		if r.Chance(30) {
			e += "," + term()
		}
	}
	if r.Chance(5) {
		e = "rc:" + e
	}
	return e
}

// tables of X the spec says a delete of expr removes
func (g *gen) dspec(X int64, expr string) []string {
	var d []string
	for _, t := range sortedKeys(g.s.tables[X]) {
		if g.s.names(X, expr, t) {
			d = append(d, t)
		}
	}
	return d
}

func (g *gen) otherOrgHas(X int64, t string) bool {
	for id, live := range g.s.live {
		if live && g.s.evTab[id] == t && g.s.evOrg[id] != X {
			return true
		}
	}
	return false
}

func (g *gen) delete(X int64, expr string, rotateFirst bool) {
	if rotateFirst {
		g.rotate()
	}
	c := g.ctxFor(X, expr)
	c.dspec = g.dspec(X, expr)
	c.recreated = map[string]bool{}
	for t, v := range g.s.recreated[X] {
		c.recreated[t] = v
	}
	c.noSnap = g.noSnap
	for i, o := range orgs {
		if g.noSnap {
			break
		}
		c.snapBefore[i] = g.query("q_search", o, snapshotExpr)
	}
	g.emit(Op{Kind: "delete", Org: X, Expr: expr}, c)
	defer func() {
		for i, o := range orgs {
			if g.noSnap {
				break
			}
			c.snapAfter[i] = g.query("q_search", o, snapshotExpr)
		}
	}()
	for _, t := range c.dspec {
		for id := range g.s.live {
			if g.s.evOrg[id] == X && g.s.evTab[id] == t {
				if g.s.live[id] && c.recreated[t] {
					g.s.zombies[id] = true
				}
				g.s.live[id] = false
			}
		}
		delete(g.s.tables[X], t)
		for _, o := range allOrgs {
			if g.s.unrot[o][t] {
				g.s.hadOpen[o][t] = true
			}
		}
		g.s.delPhase[X][t] = true
		delete(g.s.recreated[X], t)
		delete(g.s.unrot[X], t)
	}
}

func (g *gen) restart() {
	g.rotate0()
	g.emit(Op{Kind: "restart"}, nil)
	g.s.restarted = true
	for _, o := range allOrgs {
		g.s.delPhase[o] = map[string]bool{}
		g.s.recreated[o] = map[string]bool{}
		g.s.hadOpen[o] = map[string]bool{}
	}
}

// unclean death (no shutdown sequence: open segments stay open, only their .sfm describes them) + start on the
// same directory as a multi-tenant node: the start-up recovery rebuilds the open segments of every org from disk
func (g *gen) crash() {
	g.rotate0()
	ids := make([]int, 0, len(allOrgs))
	for _, o := range allOrgs {
		ids = append(ids, int(o))
	}
	g.emit(Op{Kind: "crash", Ids: ids}, nil)
	g.s.restarted = true
	g.s.crashed = true
	for _, o := range allOrgs {
		g.s.delPhase[o] = map[string]bool{}
		g.s.recreated[o] = map[string]bool{}
		g.s.hadOpen[o] = map[string]bool{}
	}
}

// k rotations of one index: k rotated segments of (X, t)
func (g *gen) burst(X int64, t string, k int) {
	for i := 0; i < k; i++ {
		g.ingest(X, t, g.r.Range(1, 2))
		g.rotate()
	}
}

// every query form over the name and over "*"
func (g *gen) askIndex(X int64, t string) {
	g.query("q_cols", X, t)
	g.query("q_search", X, t)
	g.query("q_stats", X, t)
	g.query("q_spl", X, t)
	g.query("q_cols", X, "*")
	g.query(vhlib.Pick(g.r, []string{"q_search", "q_stats"}), X, "*")
}
func (g *gen) rotate0() {
	for _, o := range allOrgs {
		g.s.unrot[o] = map[string]bool{}
	}
}

func (g *gen) aliasOp(X int64, idx, al string, add bool) {
	ok := g.s.adir[X]
	if add {
		g.emit(Op{Kind: "alias", Org: X, Idx: idx, Al: al}, nil)
		if ok {
			if g.s.alias[X][al] == nil {
				g.s.alias[X][al] = map[string]bool{}
			}
			g.s.alias[X][al][idx] = true
			if g.s.aliasEver[X][al] == nil {
				g.s.aliasEver[X][al] = map[string]bool{}
			}
			g.s.aliasEver[X][al][idx] = true
		}
	} else {
		g.emit(Op{Kind: "unalias", Org: X, Idx: idx, Al: al}, nil)
		if g.s.alias[X][al] != nil && g.s.alias[X][al][idx] {
			delete(g.s.alias[X][al], idx)
			g.s.aliasCut[X][al] = true
		}
	}
}

var qKinds = []string{"q_search", "q_stats", "q_spl", "q_cols", "q_search", "q_stats"}

// ---- main stream: no input of a known-defect class ----
func genMain(r *vhlib.Rng) (*scenario, *spec) {
	// since the repairs of delete-index and of the alias persistence the main stream is unrestricted in these
	// respects: delete with unrotated data, re-ingest into a deleted index in the same process, aliases of any
	// org (with alias directory) across a restart, ingest and delete through aliases after a restart; the
	// two-sided oracle also applies after a restart
	g := &gen{r: r, s: newSpec(), sc: &scenario{Stream: "main"}, stream: "main", complete: true, completePost: true}
	g.willRestart = r.Chance(45)
	n := r.Range(14, 26)
	// a start that makes names overlap between orgs
	for _, o := range orgs {
		for _, t := range idxPool[o] {
			if r.Chance(60) {
				g.ingest(o, t, r.Range(1, 3))
			}
		}
	}
	digitAt := -1
	if r.Chance(70) {
		digitAt = r.Intn(n)
	}
	for i := 0; i < n; i++ {
		if i == digitAt {
			g.digitBlock(r.Intn(len(digitCollisions)), r.Bool())
		}
		X := vhlib.Pick(r, orgs)
		w := r.Intn(100)
		switch {
		case w < 22:
			name := vhlib.Pick(r, idxPool[X])
			if r.Chance(20) {
				a := vhlib.Pick(r, aliasPool[X])
				if len(g.s.alias[X][a]) == 1 {
					name = a
				}
			}
			g.ingest(X, name, r.Range(1, 3))
		case w < 60:
			g.query(vhlib.Pick(r, qKinds), X, g.pickExpr(X, false))
		case w < 64:
			g.emit(Op{Kind: "q_list", Org: X}, g.ctxFor(X, "*"))
		case w < 73:
			g.aliasOp(X, vhlib.Pick(r, idxPool[X]), vhlib.Pick(r, aliasPool[X]), true)
		case w < 76:
			// mostly remove an alias that exists (last alias of the index or one of several)
			var pairs [][2]string
			for _, a := range sortedAliasNames(g.s.alias[X]) {
				for _, t := range sortedKeys(g.s.alias[X][a]) {
					pairs = append(pairs, [2]string{t, a})
				}
			}
			if len(pairs) > 0 && r.Chance(80) {
				pr := vhlib.Pick(r, pairs)
				g.aliasOp(X, pr[0], pr[1], false)
				g.query(vhlib.Pick(r, qKinds), X, pr[1])
			} else {
				g.aliasOp(X, vhlib.Pick(r, idxPool[X]), vhlib.Pick(r, aliasPool[X]), false)
			}
		case w < 79:
			if X != 0 && !g.s.adir[X] {
				g.emit(Op{Kind: "mkadir", Org: X}, nil)
				g.s.adir[X] = true
			}
		case w < 84:
			if r.Chance(45) { // an index with 3-5 rotated segments, often deleted by name right away
				t := vhlib.Pick(r, idxPool[X])
				if g.s.delPhase[X][g.s.resolve(X, t)] || len(g.s.alias[X][t]) > 0 {
					continue
				}
				g.burst(X, t, r.Range(3, 5))
				if r.Chance(65) && !g.otherOrgHas(X, t) && len(g.dspec(X, t)) == 1 {
					g.delete(X, t, true)
					g.askIndex(X, t)
				}
				continue
			}
			g.rotate()
		case w < 86:
			t := vhlib.Pick(r, idxPool[X])
			g.emit(Op{Kind: "create", Org: X, Idx: t}, nil)
			g.s.tables[X][t] = true
		case w < 95:
			expr := g.pickExpr(X, false)
			ok := true
			for _, t := range g.dspec(X, expr) {
				if g.otherOrgHas(X, t) { // M3
					ok = false
				}
			}
			if !ok {
				continue
			}
			g.delete(X, expr, r.Chance(50))
		default:
			if g.willRestart && !g.s.restarted {
				g.restart()
			}
		}
	}
	// final sweep: every org, the broad expressions, every query form
	for _, o := range orgs {
		g.query("q_search", o, "*")
		g.query("q_stats", o, "a*")
		g.query("q_cols", o, "*")
		g.query("q_spl", o, "*b1,a")
		g.emit(Op{Kind: "q_list", Org: o}, g.ctxFor(o, "*"))
	}
	return g.sc, g.s
}

// ---- known-defect streams ----
func genMeta(r *vhlib.Rng) (*scenario, *spec) {
	g := &gen{r: r, s: newSpec(), sc: &scenario{Stream: "regex_metachar"}}
	for _, o := range orgs {
		for _, t := range idxPool[o] {
			if r.Chance(75) {
				g.ingest(o, t, r.Range(1, 2))
			}
		}
	}
	if r.Chance(50) {
		g.rotate()
	}
	for i := 0; i < 10; i++ {
		X := vhlib.Pick(r, orgs)
		g.query(vhlib.Pick(r, qKinds), X, g.pickExpr(X, true))
	}
	X := vhlib.Pick(r, []int64{1, 2})
	g.delete(X, vhlib.Pick(r, []string{"a.b*", "a.*1", "*.b1"}), true)
	for _, o := range orgs {
		g.query("q_search", o, "*")
	}
	return g.sc, g.s
}

func genCrossDelete(r *vhlib.Rng) (*scenario, *spec) {
	g := &gen{r: r, s: newSpec(), sc: &scenario{Stream: "cross_org_delete"}}
	t := vhlib.Pick(r, []string{"a", "ab", "a.b1", "aXb1"})
	var have []int64
	for _, o := range orgs {
		for _, x := range idxPool[o] {
			if x == t {
				have = append(have, o)
				g.ingest(o, t, r.Range(1, 3))
			} else if r.Chance(40) {
				g.ingest(o, x, 1)
			}
		}
	}
	if r.Chance(50) {
		g.rotate()
		g.ingest(have[len(have)-1], t, 1)
	}
	g.delete(have[0], t, r.Chance(50))
	if r.Chance(50) {
		g.restart()
	}
	for _, o := range orgs {
		g.query("q_search", o, "*")
		g.query("q_stats", o, t)
	}
	return g.sc, g.s
}

func genRecreate(r *vhlib.Rng) (*scenario, *spec) {
	g := &gen{r: r, s: newSpec(), sc: &scenario{Stream: "delete_recreated"}}
	X := vhlib.Pick(r, orgs)
	t := vhlib.Pick(r, idxPool[X])
	g.ingest(X, t, 2)
	g.ingest(X, idxPool[X][0], 1)
	g.delete(X, t, true)
	g.ingest(X, t, 2)
	g.query("q_search", X, "*")
	g.query("q_search", X, t)
	g.delete(X, t, true)
	g.query("q_search", X, t)
	g.emit(Op{Kind: "q_list", Org: X}, g.ctxFor(X, "*"))
	if r.Chance(50) {
		g.restart()
		g.query("q_search", X, t)
		g.delete(X, t, true)
		g.query("q_search", X, t)
	}
	return g.sc, g.s
}

func genGhostCols(r *vhlib.Rng) (*scenario, *spec) {
	g := &gen{r: r, s: newSpec(), sc: &scenario{Stream: "delete_unrotated_columns"}}
	X := vhlib.Pick(r, orgs)
	t := vhlib.Pick(r, idxPool[X])
	g.ingest(X, t, 2)
	if r.Chance(50) {
		g.rotate()
		g.ingest(X, t, 1)
	}
	g.ingest(X, idxPool[X][1], 1)
	g.delete(X, t, false)
	g.query("q_cols", X, t)
	g.query("q_cols", X, "*")
	g.query("q_search", X, t)
	g.rotate()
	g.query("q_cols", X, t)
	if r.Chance(50) {
		g.restart()
		g.query("q_cols", X, t)
	}
	return g.sc, g.s
}

func genAliasRestart(r *vhlib.Rng) (*scenario, *spec) {
	g := &gen{r: r, s: newSpec(), sc: &scenario{Stream: "alias_restart"}}
	X := vhlib.Pick(r, []int64{1, 2})
	g.emit(Op{Kind: "mkadir", Org: X}, nil)
	g.s.adir[X] = true
	p := idxPool[X]
	g.ingest(X, p[0], 2)
	g.ingest(X, p[1], 2)
	g.ingest(X, p[2], 1)
	// an alias whose name is another index of the same org
	g.aliasOp(X, p[0], p[1], true)
	g.aliasOp(X, p[2], "al", true)
	g.query("q_search", X, p[1])
	g.query("q_search", X, p[0])
	g.restart()
	g.query("q_search", X, p[0])
	g.query("q_stats", X, p[1])
	g.query("q_search", X, "al")
	g.query("q_search", X, p[2])
	g.query("q_cols", X, p[0])
	g.query("q_search", X, "*")
	return g.sc, g.s
}

// ---- alias life cycle (no known-defect input before a restart): an alias is added to one, two or three
// indexes of one org, removed from one of them (the last alias of that index or not), and queried through
// the alias name directly, by wildcards that match only the alias name, and inside comma lists;
// both sides of the oracle apply: only indexes named through a CURRENT alias, and all of their data.
// With a restart: org n>0 (alias directory present) must still be exact for alias-form queries;
// org 0 loses its aliases (known finding, stream alias_restart_org0).
func genAliasLife(r *vhlib.Rng) (*scenario, *spec) {
	return genAliasLifeFor(r, vhlib.Pick(r, orgs), r.Chance(40))
}
func genAliasRestartOrg0(r *vhlib.Rng) (*scenario, *spec) { return genAliasLifeFor(r, 0, true) }

func genAliasLifeFor(r *vhlib.Rng, X int64, withRestart bool) (*scenario, *spec) {
	stream := "alias_lifecycle"
	if X == 0 && withRestart {
		stream = "alias_restart_org0"
	}
	g := &gen{r: r, s: newSpec(), sc: &scenario{Stream: stream}, complete: true, completePost: true}
	if X != 0 {
		g.emit(Op{Kind: "mkadir", Org: X}, nil)
		g.s.adir[X] = true
	}
	// the same alias name is in use in another org, pointing elsewhere
	Y := orgs[(int(X)+1)%3]
	if Y != 0 {
		g.emit(Op{Kind: "mkadir", Org: Y}, nil)
		g.s.adir[Y] = true
	}
	pool := append([]string{}, idxPool[X]...)
	for i := len(pool) - 1; i > 0; i-- {
		j := r.Intn(i + 1)
		pool[i], pool[j] = pool[j], pool[i]
	}
	A, B, C, D := pool[0], pool[1], pool[2], pool[3]
	for _, t := range []string{A, B, C, D} {
		g.ingest(X, t, r.Range(1, 2))
	}
	g.ingest(Y, idxPool[Y][0], 1)
	g.aliasOp(Y, idxPool[Y][0], "al", true)
	if r.Chance(40) {
		g.rotate()
		g.ingest(X, B, 1)
	}
	shared := r.Intn(3) // 0: alias only on A; 1: A and B; 2: A, B and C
	g.aliasOp(X, A, "al", true)
	if shared >= 1 {
		g.aliasOp(X, B, "al", true)
	}
	if shared == 2 {
		g.aliasOp(X, C, "al", true)
	}
	other := ""
	for _, a := range aliasPool[X] {
		if a != "al" {
			other = a
		}
	}
	if r.Chance(40) { // A keeps another alias: removing al is then not the removal of its last alias
		g.aliasOp(X, A, other, true)
	}
	ask := func(post bool) {
		exprs := []string{"al", "al*", "*l", "a*l", "al," + D, "zz,al", "al,al*"}
		if !post {
			exprs = append(exprs, other, A, "al,"+A, "*")
		}
		for _, e := range exprs {
			k := vhlib.Pick(r, []string{"q_search", "q_stats", "q_spl"})
			g.query(k, X, e)
		}
		g.query("q_cols", X, "al")
		g.query("q_search", Y, "al")
	}
	ask(false)
	g.aliasOp(X, A, "al", false)
	ask(false)
	switch r.Intn(3) {
	case 0:
		g.aliasOp(X, A, "al", true) // back again
		ask(false)
		if shared >= 1 {
			g.aliasOp(X, B, "al", false)
			ask(false)
		}
	case 1:
		if shared >= 1 {
			g.aliasOp(X, B, "al", false)
			ask(false)
		}
	}
	if withRestart {
		g.restart()
		ask(true)
	}
	return g.sc, g.s
}

// ---- an index with 3-7 rotated segments is deleted (no known-defect input): nothing of it may be left in
// search, stats, SPL or the column listing, by name and by "*", before and after a restart, and a later
// index of the same name starts empty.
func genMultiSegDelete(r *vhlib.Rng) (*scenario, *spec) {
	g := &gen{r: r, s: newSpec(), sc: &scenario{Stream: "multi_segment_delete"}, complete: true}
	X := vhlib.Pick(r, orgs)
	pool := append([]string{}, idxPool[X]...)
	for i := len(pool) - 1; i > 0; i-- {
		j := r.Intn(i + 1)
		pool[i], pool[j] = pool[j], pool[i]
	}
	t, u := pool[0], pool[1]
	k := vhlib.Pick(r, []int{3, 4, 5, 6, 7, 3, 7})
	// another org gets differently named indexes only (a same-named index would be the known cross-org delete)
	Y := orgs[(int(X)+1)%3]
	for _, n := range idxPool[Y] {
		if n != t && r.Chance(40) {
			g.ingest(Y, n, 1)
		}
	}
	for i := 0; i < k; i++ {
		g.ingest(X, t, r.Range(1, 2))
		if r.Chance(50) {
			g.ingest(X, u, 1)
		}
		g.rotate()
	}
	g.ingest(X, u, 1)
	g.askIndex(X, t)
	g.delete(X, t, true)
	g.askIndex(X, t)
	g.askIndex(X, u)
	if r.Chance(70) {
		g.restart()
		g.askIndex(X, t)
		g.ingest(X, t, 2)
		if r.Chance(50) {
			g.rotate()
		}
		g.askIndex(X, t)
	}
	return g.sc, g.s
}

// ---- ingest-side routing: orgs with multi-digit ids and index names that complete another org's id.
// Each org must get exactly its own events back (two-sided oracle), in every query form, the column
// listing and the index listing, also after rotation, delete and restart.
func (g *gen) digitExpr(X int64) string {
	r := g.r
	switch w := r.Intn(100); {
	case w < 45:
		return vhlib.Pick(r, digitIdx[X])
	case w < 65:
		return "*"
	case w < 85:
		return vhlib.Pick(r, []string{"*logs", "2*", "*x", "*app", "3*", "*-app", "l*"})
	default:
		return vhlib.Pick(r, digitIdx[X]) + "," + vhlib.Pick(r, digitNames)
	}
}

func (g *gen) digitBlock(pairIdx int, swap bool) {
	r := g.r
	c := digitCollisions[pairIdx]
	a, b := c[0], c[1]
	if swap {
		a, b = b, a
	}
	if g.s.delPhase[a.Org][a.Idx] || g.s.delPhase[b.Org][b.Idx] {
		return
	}
	g.ingest(a.Org, a.Idx, r.Range(1, 2))
	g.ingest(b.Org, b.Idx, r.Range(1, 2))
	if r.Chance(40) {
		g.rotate()
		g.ingest(b.Org, b.Idx, 1)
	}
	for _, x := range []struct {
		Org int64
		Idx string
	}{a, b} {
		g.query(vhlib.Pick(r, []string{"q_search", "q_stats", "q_spl"}), x.Org, x.Idx)
		g.query(vhlib.Pick(r, []string{"q_search", "q_stats"}), x.Org, "*")
		g.query("q_cols", x.Org, "*")
		g.emit(Op{Kind: "q_list", Org: x.Org}, g.ctxFor(x.Org, "*"))
	}
}

func genDigitOrgs(r *vhlib.Rng) (*scenario, *spec) {
	g := &gen{r: r, s: newSpec(), sc: &scenario{Stream: "digit_orgs"}, complete: true, completePost: true, noSnap: true}
	g.digitBlock(r.Intn(len(digitCollisions)), r.Bool())
	n := r.Range(10, 18)
	for i := 0; i < n; i++ {
		X := vhlib.Pick(r, digitOrgs)
		switch w := r.Intn(100); {
		case w < 35:
			t := vhlib.Pick(r, digitIdx[X])
			if g.s.delPhase[X][t] {
				continue
			}
			g.ingest(X, t, r.Range(1, 2))
		case w < 45:
			g.digitBlock(r.Intn(len(digitCollisions)), r.Bool())
		case w < 75:
			g.query(vhlib.Pick(r, qKinds), X, g.digitExpr(X))
		case w < 80:
			g.emit(Op{Kind: "q_list", Org: X}, g.ctxFor(X, "*"))
		case w < 88:
			g.rotate()
		case w < 94:
			t := vhlib.Pick(r, digitIdx[X])
			if len(g.dspec(X, t)) == 1 && !g.otherOrgHas(X, t) {
				g.delete(X, t, true)
				g.query("q_search", X, t)
				g.query("q_cols", X, t)
			}
		default:
			if !g.s.restarted {
				g.restart()
			}
		}
	}
	for _, o := range digitOrgs {
		g.query("q_search", o, "*")
		g.query("q_stats", o, "*")
		g.query("q_cols", o, "*")
		g.query("q_spl", o, strings.Join(digitIdx[o], ","))
		g.emit(Op{Kind: "q_list", Org: o}, g.ctxFor(o, "*"))
	}
	return g.sc, g.s
}

// crash-recovery stream: tenant ownership across an unclean death.  Several orgs (0 and multi-digit ones) flush into
// open segments of indexes with the SAME names (and names only one of them has), some segments are rotated, the node
// dies without the shutdown sequence and restarts as a multi-tenant node; every org must then see exactly its own
// data under every query form (two-sided oracle), also after further ingests and a second crash or a graceful restart.
var crashNames = []string{"a", "ab", "a-b", "logs", "2logs", "x"}
var crashWild = []string{"*", "a*", "*b", "*logs", "a*b", "*x", "l*", "2*"}

func (g *gen) crashSweep(os_ []int64) {
	r := g.r
	for _, o := range os_ {
		for _, n := range crashNames {
			if g.s.tables[o][n] || r.Chance(50) {
				g.query(vhlib.Pick(r, []string{"q_search", "q_stats", "q_spl"}), o, n)
			}
			if r.Chance(25) {
				g.query("q_cols", o, n)
			}
		}
		g.query(vhlib.Pick(r, []string{"q_search", "q_stats"}), o, "*")
		g.query(vhlib.Pick(r, qKinds), o, vhlib.Pick(r, crashWild))
		g.query("q_cols", o, "*")
		g.query("q_spl", o, strings.Join(crashNames, ","))
		g.emit(Op{Kind: "q_list", Org: o}, g.ctxFor(o, "*"))
	}
}

func genCrash(r *vhlib.Rng) (*scenario, *spec) {
	g := &gen{r: r, s: newSpec(), sc: &scenario{Stream: "crash_recovery"}, complete: true, completePost: true, noSnap: true}
	// org 0 + 2..3 other orgs
	pool := []int64{1, 2, 7, 12, 73, 123}
	os_ := []int64{0}
	for len(os_) < 3+r.Intn(2) {
		o := vhlib.Pick(r, pool)
		dup := false
		for _, x := range os_ {
			dup = dup || x == o
		}
		if !dup {
			os_ = append(os_, o)
		}
	}
	shared := vhlib.Pick(r, crashNames) // every org of the scenario (except, half of the time, org 0) has an index of this name
	phase := func(n int) {
		for _, o := range os_ {
			if o != 0 || r.Bool() {
				g.ingest(o, shared, r.Range(1, 2))
			}
		}
		for i := 0; i < n; i++ {
			X := vhlib.Pick(r, os_)
			switch w := r.Intn(100); {
			case w < 55:
				g.ingest(X, vhlib.Pick(r, crashNames), r.Range(1, 3))
			case w < 70:
				g.rotate()
				// data flushed into the NEXT open segment of an index that already has rotated ones
				g.ingest(vhlib.Pick(r, os_[1:]), shared, 1)
			case w < 90:
				g.query(vhlib.Pick(r, qKinds), X, vhlib.Pick(r, append(append([]string{}, crashNames...), crashWild...)))
			default:
				g.emit(Op{Kind: "q_list", Org: X}, g.ctxFor(X, "*"))
			}
		}
	}
	phase(r.Range(6, 12))
	g.crashSweep(os_) // the view before the death
	g.crash()
	g.crashSweep(os_)
	phase(r.Range(3, 6)) // later ingests go to new segments next to the recovered ones
	g.crashSweep(os_[1:])
	switch r.Intn(3) {
	case 0:
		g.crash()
	case 1:
		g.restart()
	default:
		return g.sc, g.s
	}
	g.crashSweep(os_)
	return g.sc, g.s
}

// metrics stream: same metric names in all orgs; oracle only (the metrics store is not part of the Coq model)
var metricNames = []string{"cpu", "mem", "cpu_total"}

func genMetrics(r *vhlib.Rng) (*scenario, *spec) {
	g := &gen{r: r, s: newSpec(), sc: &scenario{Stream: "metrics"}}
	n := r.Range(8, 14)
	exprs := []string{"(cpu)", "(mem)", "(cpu_total)", `{__name__=~"cpu|mem"}`, `{__name__=~"cpu.*"}`, `(cpu{dp=~"d.*"})`, `{__name__=~".+"}`}
	names := map[string][]string{"(cpu)": {"cpu"}, "(mem)": {"mem"}, "(cpu_total)": {"cpu_total"}, `{__name__=~"cpu|mem"}`: {"cpu", "mem"},
		`{__name__=~"cpu.*"}`: {"cpu", "cpu_total"}, `(cpu{dp=~"d.*"})`: {"cpu"}, `{__name__=~".+"}`: {"cpu", "mem", "cpu_total"}}
	q := func(X int64) {
		e := vhlib.Pick(r, exprs)
		c := g.ctxFor(X, "zz")
		for _, m := range names[e] {
			c.named[m] = true
		}
		g.emit(Op{Kind: "m_query", Org: X, Expr: e}, c)
	}
	for i := 0; i < n; i++ {
		X := vhlib.Pick(r, orgs)
		switch w := r.Intn(100); {
		case w < 45:
			m := vhlib.Pick(r, metricNames)
			var ids []int
			for k := r.Range(1, 3); k > 0; k-- {
				g.nextID++
				ids = append(ids, g.nextID)
				g.s.evOrg[g.nextID], g.s.evTab[g.nextID], g.s.live[g.nextID] = X, m, true
			}
			g.emit(Op{Kind: "m_ingest", Org: X, Idx: m, Ids: ids}, nil)
		case w < 55:
			g.emit(Op{Kind: "m_rotate"}, nil)
		case w < 60 && !g.s.restarted:
			g.emit(Op{Kind: "m_rotate"}, nil)
			g.emit(Op{Kind: "restart"}, nil)
			g.s.restarted = true
		default:
			q(X)
		}
	}
	for _, o := range orgs {
		q(o)
		q(o)
	}
	return g.sc, g.s
}

// matcher stream: one event in every index of a pool of confusable names (org 0), then one query per pattern:
// the real expansion must select exactly the glob matches (two-sided oracle, and model = implementation)
var matcherNames = []string{"a", "ab", "a-b", "ab1", "a.b1", "aXb1", "al", "+ab", "abb", "aab1", "a+b", "a.b", "b1", "a?b", "a..b1"}

func matcherPatterns() []string {
	pats := append(append([]string{}, wildMain...), wildMeta...)
	return append(pats, "a", "a.b1", "+", "a?", "a??*", "a*?", ".*", "*.*", "a+", "a+?b*", "?a*", "a.b1,a+b*", "*?b")
}

func genMatcher(r *vhlib.Rng) (*scenario, *spec) {
	g := &gen{r: r, s: newSpec(), sc: &scenario{Stream: "matcher"}, complete: true}
	for _, n := range matcherNames {
		g.ingest(0, n, 1)
	}
	if r.Chance(50) {
		g.rotate()
	}
	for _, p := range matcherPatterns() {
		g.query(vhlib.Pick(r, []string{"q_search", "q_stats", "q_spl", "q_search"}), 0, p)
	}
	g.query("q_cols", 0, "a.b*")
	g.query("q_cols", 0, "a+b*")
	return g.sc, g.s
}

// ---------- oracle ----------
type failCase struct {
	Stream string `json:"stream"`
	Ops    []Op   `json:"ops"`
	At     int    `json:"failing_op"`
	Obs    Obs    `json:"observed"`
}

func classifyUnnamed(c *opCtx, expr, tab string) string {
	for _, term := range strings.Split(stripColon(expr), ",") {
		if strings.Contains(term, "*") && hasMeta(term) {
			if goRx(term, tab) == 1 {
				return "index_pattern_regex_metachar"
			}
			for a, idxs := range c.aliasOf {
				if idxs[tab] && goRx(term, a) == 1 {
					return "index_pattern_regex_metachar"
				}
			}
		}
	}
	if c.viaRemoved[tab] && !c.restarted {
		return "removed_alias_still_resolves"
	}
	if c.restarted && c.aliasDirs {
		return "alias_reversed_after_restart"
	}
	if c.viaRemoved[tab] {
		return "removed_alias_still_resolves"
	}
	return "unnamed_index_leak"
}

var colRev = map[string][2]string{}
var perClass = map[string]int{}

func initCols() {
	seen := map[string]bool{}
	for _, o := range allOrgs {
		names := append(append(append(append([]string{}, allIdx...), aliasPool[o]...), matcherNames...), digitNames...)
		for _, n := range names {
			c := colName(o, n)
			if prev, ok := colRev[c]; ok && (prev[0] != strconv.FormatInt(o, 10) || prev[1] != n) {
				panic("column name collision " + c)
			}
			colRev[c] = [2]string{strconv.FormatInt(o, 10), n}
			seen[c] = true
		}
	}
}

func evalScenario(sum *vhlib.Summary, mu *sync.Mutex, si int, sc *scenario, obs []Obs, g *spec, zombies map[int]bool) {
	mu.Lock()
	defer mu.Unlock()
	fail := func(class, detail string, at int) {
		perClass[class]++
		sum.Count("oracle_failure/" + class)
		if perClass[class] <= 4 { // vhlib keeps 50 failures in total: a few per class, so that no class hides another
			sum.Fail(class, fmt.Sprintf("[%s #%d op %d] %s", sc.Stream, si, at, detail), failCase{sc.Stream, sc.Ops[:at+1], at, obs[at]})
		}
	}
	tablesEver := map[int64]map[string]bool{}
	for _, o := range allOrgs {
		tablesEver[o] = map[string]bool{}
	}
	for i, op := range sc.Ops {
		c := sc.pre[i]
		o := obs[i]
		switch op.Kind {
		case "ingest":
			tablesEver[op.Org][op.Idx] = true
			if len(op.Ids) > 0 {
				tablesEver[op.Org][g.evTab[op.Ids[0]]] = true
			}
			if o.Code != len(op.Ids) {
				sum.HarnessError(fmt.Sprintf("ingest processed %d of %d", o.Code, len(op.Ids)))
			}
		case "create":
			tablesEver[op.Org][op.Idx] = true
		case "m_query":
			sum.Eval(fmt.Sprintf("%s/%d/%d", sc.Stream, si, i), len(o.Ids) > 0)
			sum.Count("op/m_query")
			sum.Count("stream/" + sc.Stream)
			if o.Err != "" {
				sum.Count("query_error")
				sum.Notes = appendNote(sum.Notes, fmt.Sprintf("metrics query error (org %d %s): %s", op.Org, op.Expr, o.Err))
			}
			for _, series := range o.Names {
				if !strings.Contains(series, fmt.Sprintf("morg:o%d,", op.Org)) {
					fail("cross_org_leak", fmt.Sprintf("metrics query org=%d %s returned series %s", op.Org, op.Expr, series), i)
				}
			}
			for _, id := range o.Ids {
				eo, known := g.evOrg[id]
				switch {
				case !known:
					fail("unknown_event_returned", fmt.Sprintf("metrics query org=%d %s returned datapoint marker %d that was never ingested", op.Org, op.Expr, id), i)
				case eo != op.Org:
					fail("cross_org_leak", fmt.Sprintf("metrics query org=%d %s returned series d%d of org %d", op.Org, op.Expr, id, eo), i)
				case !c.named[g.evTab[id]]:
					fail("unnamed_metric_leak", fmt.Sprintf("metrics query org=%d %s returned series d%d of metric %s", op.Org, op.Expr, id, g.evTab[id]), i)
				}
			}
		case "q_search", "q_stats", "q_spl":
			sum.Eval(fmt.Sprintf("%s/%d/%d", sc.Stream, si, i), len(o.Ids) > 0)
			sum.Count("op/" + op.Kind)
			sum.Count("stream/" + sc.Stream)
			switch {
			case strings.Contains(op.Expr, ","):
				sum.Count("expr/comma_list")
			case op.Expr == "*":
				sum.Count("expr/star")
			case strings.Contains(op.Expr, "*"):
				sum.Count("expr/wildcard")
			default:
				sum.Count("expr/literal_or_alias")
			}
			if o.Err != "" {
				sum.Count("query_error")
				sum.Notes = appendNote(sum.Notes, fmt.Sprintf("query error (%s org %d %q): %s", op.Kind, op.Org, op.Expr, o.Err))
			}
			if o.Dup {
				fail("duplicate_event_returned", fmt.Sprintf("%s org=%d expr=%q returned an event twice", op.Kind, op.Org, op.Expr), i)
			}
			for _, id := range o.Ids {
				eo, known := g.evOrg[id]
				et := g.evTab[id]
				switch {
				case !known:
					fail("unknown_event_returned", fmt.Sprintf("%s org=%d expr=%q returned marker %d that was never ingested", op.Kind, op.Org, op.Expr, id), i)
				case eo != op.Org:
					fail("cross_org_leak", fmt.Sprintf("%s org=%d expr=%q returned event %d of org %d (index %s)", op.Kind, op.Org, op.Expr, id, eo, et), i)
				case !c.named[et]:
					fail(classifyUnnamed(c, op.Expr, et), fmt.Sprintf("%s org=%d expr=%q returned event %d of index %q, which the expression does not name", op.Kind, op.Org, op.Expr, id, et), i)
				case !c.liveBefore[id]:
					cl := "delete_left_data"
					if zombies[id] {
						cl = "delete_recreated_index_not_found"
					}
					fail(cl, fmt.Sprintf("%s org=%d expr=%q returned event %d of deleted index %q", op.Kind, op.Org, op.Expr, id, et), i)
				}
			}
			if c.complete && o.Err == "" {
				got := map[int]bool{}
				for _, id := range o.Ids {
					got[id] = true
				}
				for _, id := range sortedIDs(g.evTab) {
					et := g.evTab[id]
					if got[id] || !c.liveBefore[id] || g.evOrg[id] != op.Org || !c.named[et] {
						continue
					}
					cl := "named_index_data_missing"
					metaTerm := false
					for _, term := range strings.Split(stripColon(op.Expr), ",") {
						if strings.Contains(term, "*") && hasMeta(term) && glob(term, et) {
							metaTerm = true
						}
					}
					switch {
					case c.crashed && !c.viaCurOnly[et]:
						cl = "own_data_missing_after_unclean_restart"
					case metaTerm:
						cl = "index_pattern_regex_metachar"
					case c.viaCurOnly[et] && c.restarted && op.Org == 0:
						cl = "alias_lost_after_restart"
					case c.viaCurOnly[et] && c.cutAlias[et]:
						cl = "shared_alias_lost_for_other_index"
					case c.viaCurOnly[et]:
						cl = "aliased_index_data_missing"
					}
					fail(cl, fmt.Sprintf("%s org=%d expr=%q does not return event %d of index %q, which the expression names%s", op.Kind, op.Org, op.Expr, id, et,
						map[bool]string{true: " through a current alias", false: ""}[c.viaCurOnly[et]]), i)
				}
			}
		case "q_cols":
			sum.Eval(fmt.Sprintf("%s/%d/%d", sc.Stream, si, i), len(o.Names) > 0)
			sum.Count("op/q_cols")
			for _, cn := range o.Names {
				p, ok := colRev[cn]
				if !ok {
					fail("unknown_column_returned", fmt.Sprintf("column listing org=%d expr=%q returned marker column %s", op.Org, op.Expr, cn), i)
					continue
				}
				co, _ := strconv.ParseInt(p[0], 10, 64)
				tn := p[1]
				hasLive := false
				for id, t := range g.evTab {
					if g.evOrg[id] == co && t == tn && c.liveBefore[id] {
						hasLive = true
					}
				}
				namedAny := c.named[tn]
				switch {
				case co != op.Org:
					fail("cross_org_leak", fmt.Sprintf("column listing org=%d expr=%q lists column %s of org %d", op.Org, op.Expr, cn, co), i)
				case !namedAny:
					fail(classifyUnnamed(c, op.Expr, tn), fmt.Sprintf("column listing org=%d expr=%q lists column %s of index %q, which the expression does not name", op.Org, op.Expr, cn, tn), i)
				case !hasLive:
					cl := "delete_left_rotated_segment_columns"
					if c.hadOpen[tn] {
						cl = "delete_left_column_names" // stale unrotated-segment info: known finding
					}
					fail(cl, fmt.Sprintf("column listing org=%d expr=%q still lists column %s of deleted index %q", op.Org, op.Expr, cn, tn), i)
				}
			}
		case "q_list":
			sum.Eval(fmt.Sprintf("%s/%d/%d", sc.Stream, si, i), len(o.Names) > 0)
			sum.Count("op/q_list")
			for _, n := range o.Names {
				if !tablesEver[op.Org][n] {
					fail("index_list_leak", fmt.Sprintf("index listing of org %d contains %q, which this org never created", op.Org, n), i)
				}
			}
		case "delete":
			sum.Eval(fmt.Sprintf("%s/%d/%d", sc.Stream, si, i), len(c.dspec) > 0)
			sum.Count("op/delete")
			inD := map[string]bool{}
			for _, t := range c.dspec {
				inD[t] = true
			}
			for k := range orgs {
				if c.noSnap {
					break
				}
				before, after := obs[c.snapBefore[k]].Ids, obs[c.snapAfter[k]].Ids
				aft := map[int]bool{}
				for _, id := range after {
					aft[id] = true
					if g.evOrg[id] == op.Org && inD[g.evTab[id]] {
						cl := "delete_left_data"
						if c.recreated[g.evTab[id]] {
							cl = "delete_recreated_index_not_found"
						}
						fail(cl, fmt.Sprintf("delete-index org=%d expr=%q (status %d): event %d of index %q is still returned", op.Org, op.Expr, o.Code, id, g.evTab[id]), i)
					}
				}
				for _, id := range before {
					if aft[id] || (g.evOrg[id] == op.Org && inD[g.evTab[id]]) {
						continue
					}
					cl := "delete_removed_other"
					meta := false
					for _, term := range strings.Split(stripColon(op.Expr), ",") {
						if strings.Contains(term, "*") && hasMeta(term) && goRx(term, g.evTab[id]) == 1 {
							meta = true
						}
					}
					switch {
					case g.evOrg[id] != op.Org && inD[g.evTab[id]]:
						cl = "delete_removed_other_org_same_name"
					case meta:
						cl = "index_pattern_regex_metachar"
					}
					fail(cl, fmt.Sprintf("delete-index org=%d expr=%q removed event %d of org %d index %q", op.Org, op.Expr, id, g.evOrg[id], g.evTab[id]), i)
				}
			}
		}
	}
}

func appendNote(notes []string, n string) []string {
	if len(notes) < 8 {
		return append(notes, n)
	}
	return notes
}

// ---------- Coq terms ----------
func coqOp(op Op) string {
	switch op.Kind {
	case "ingest":
		var ids []string
		for _, id := range op.Ids {
			ids = append(ids, strconv.Itoa(id))
		}
		return fmt.Sprintf("Ingest %d %s %s", op.Org, vhlib.CoqStr(op.Idx), vhlib.CoqList(ids))
	case "create":
		return fmt.Sprintf("Create %d %s", op.Org, vhlib.CoqStr(op.Idx))
	case "rotate":
		return "Rotate"
	case "mkadir":
		return fmt.Sprintf("MkAliasDir %d", op.Org)
	case "alias":
		return fmt.Sprintf("AddAlias %d %s %s", op.Org, vhlib.CoqStr(op.Idx), vhlib.CoqStr(op.Al))
	case "unalias":
		return fmt.Sprintf("RemAlias %d %s %s", op.Org, vhlib.CoqStr(op.Idx), vhlib.CoqStr(op.Al))
	case "delete":
		return fmt.Sprintf("Delete %d %s", op.Org, vhlib.CoqStr(op.Expr))
	case "restart":
		return "Restart"
	case "q_search", "q_stats", "q_spl":
		return fmt.Sprintf("QSearch %d %s", op.Org, vhlib.CoqStr(op.Expr))
	case "q_cols":
		return fmt.Sprintf("QCols %d %s", op.Org, vhlib.CoqStr(op.Expr))
	case "q_list":
		return fmt.Sprintf("QList %d", op.Org)
	}
	return "Rotate"
}

// ops of the crash-recovery model (TenantCrash.v)
func coqCrashOp(op Op) string {
	my := func() string {
		var ids []string
		for _, id := range op.Ids {
			ids = append(ids, strconv.Itoa(id))
		}
		return vhlib.CoqList(ids)
	}
	switch op.Kind {
	case "ingest":
		var ids []string
		for _, id := range op.Ids {
			ids = append(ids, strconv.Itoa(id))
		}
		return fmt.Sprintf("CIngest %d %s %s", op.Org, vhlib.CoqStr(op.Idx), vhlib.CoqList(ids))
	case "create":
		return fmt.Sprintf("CCreate %d %s", op.Org, vhlib.CoqStr(op.Idx))
	case "rotate":
		return "CRotate"
	case "crash":
		return "CCrash " + my()
	case "restart": // the scenario's node is multi-tenant in every phase (runScenario)
		var ids []string
		for _, o := range allOrgs {
			ids = append(ids, strconv.FormatInt(o, 10))
		}
		return "CRestart " + vhlib.CoqList(ids)
	case "q_search", "q_stats", "q_spl":
		return fmt.Sprintf("CSearch %d %s", op.Org, vhlib.CoqStr(op.Expr))
	case "q_cols":
		return fmt.Sprintf("CCols %d %s", op.Org, vhlib.CoqStr(op.Expr))
	case "q_list":
		return fmt.Sprintf("CList %d", op.Org)
	}
	return "CRotate"
}

func coqObs(op Op, o Obs, g *spec) string {
	switch op.Kind {
	case "delete":
		return fmt.Sprintf("OCode %d", o.Code)
	case "q_search", "q_stats", "q_spl":
		if o.Err != "" {
			return "ONone"
		}
		var ids []string
		for _, id := range o.Ids {
			ids = append(ids, strconv.Itoa(id))
		}
		return "OIds " + vhlib.CoqList(ids)
	case "q_cols":
		var ps []string
		for _, cn := range o.Names {
			if p, ok := colRev[cn]; ok {
				ps = append(ps, fmt.Sprintf("(%s, %s)", p[0], vhlib.CoqStr(p[1])))
			} else {
				ps = append(ps, "(99, [])")
			}
		}
		return "OPairs " + vhlib.CoqList(ps)
	case "q_list":
		var ns []string
		for _, n := range o.Names {
			ns = append(ns, vhlib.CoqStr(n))
		}
		return "ONames " + vhlib.CoqList(ns)
	}
	return "ONone"
}

// ---------- driver ----------
type job struct {
	sc  *scenario
	g   *spec
	obs []Obs
	err error
}

func main() {
	if len(os.Args) >= 5 && os.Args[1] == "worker" {
		workerMain(os.Args[2], os.Args[3], os.Args[4])
		return
	}
	log.SetLevel(log.PanicLevel)
	initCols()
	if len(os.Args) >= 3 && os.Args[1] == "probe" {
		b, _ := os.ReadFile(os.Args[2])
		var ops []Op
		if err := json.Unmarshal(b, &ops); err != nil {
			fmt.Println(err)
			os.Exit(2)
		}
		for i := range ops {
			if ops[i].Kind == "ingest" && ops[i].Col == "" {
				ops[i].Col = colName(ops[i].Org, ops[i].Idx)
			}
		}
		obs, err := runScenario("/tmp/C13_probe", ops)
		if err != nil {
			fmt.Println("ERR", err)
			os.Exit(1)
		}
		for i := range ops {
			a, _ := json.Marshal(ops[i])
			c, _ := json.Marshal(obs[i])
			fmt.Printf("%2d %s -> %s\n", i, a, c)
		}
		return
	}
	cfg := vhlib.ParseFlags()
	sum := vhlib.NewSummary("one case = one query / listing / delete-index op inside an op sequence run by the real code in worker processes " +
		"(3 orgs; index names a, ab, a-b, ab1, a.b1, aXb1 shared between orgs; aliases shared by name; flush, rotate, graceful restart); " +
		"non-trivial = the op returned data (delete: names an existing index); distinct by (stream, scenario, op index); " +
		"streams: main (no known-defect input) and one stream per known defect class")
	r := vhlib.NewRng(cfg.Seed)
	nMain, nKnown := 36, 3
	if cfg.Thorough() {
		nMain, nKnown = 1200, 40
	}
	var jobs []*job
	add := func(sc *scenario, g *spec) { jobs = append(jobs, &job{sc: sc, g: g}) }
	mk := func(f func(*vhlib.Rng) *scenario, n int) {
		for i := 0; i < n; i++ {
			rr := r.Fork()
			gsc := f(rr)
			add(gsc, lastSpec)
		}
	}
	mk(genMainS, nMain)
	mk(genMetaS, nKnown+1)
	mk(genCrossDeleteS, nKnown)
	mk(genRecreateS, nKnown)
	mk(genGhostColsS, nKnown)
	mk(genAliasRestartS, nKnown)
	mk(wrap(genMetrics), 2*nKnown)
	mk(wrap(genAliasLife), 4*nKnown)
	mk(wrap(genAliasRestartOrg0), 2)
	mk(wrap(genMatcher), 2)
	mk(wrap(genMultiSegDelete), nKnown+2)
	mk(wrap(genDigitOrgs), 2*nKnown)
	mk(wrap(genCrash), nKnown+1)

	// run
	par := 6
	sem := make(chan struct{}, par)
	var wg sync.WaitGroup
	for i, j := range jobs {
		wg.Add(1)
		sem <- struct{}{}
		go func(i int, j *job) {
			defer wg.Done()
			defer func() { <-sem }()
			dir := filepath.Join(cfg.Out, fmt.Sprintf("run%d", i))
			j.obs, j.err = runScenario(dir, j.sc.Ops)
			if j.err != nil { // re-run alone once (load)
				j.obs, j.err = runScenario(dir, j.sc.Ops)
			}
			_ = os.RemoveAll(dir)
		}(i, j)
	}
	wg.Wait()

	var mu sync.Mutex
	var cases []string
	ncases := 0
	shard := 0
	flush := func() {
		if len(cases) == 0 {
			return
		}
		defs := "Definition cases : list (list op * list out) := " + vhlib.CoqListNL(cases) + ".\n"
		expr := "check_runs cases 0 ++ flat_map (fun c => self_check_from init (fst c) 0) cases"
		sum.WriteCaseFile(cfg.Out, fmt.Sprintf("cases_c13_%d", shard), "From SigM Require Import Base Tenant TenantCheck.\n", defs, expr, ncases)
		cases, ncases = nil, 0
		shard++
	}
	var crashCases []string
	nCrash, crashShard := 0, 0
	flushCrash := func() {
		if len(crashCases) == 0 {
			return
		}
		defs := "Definition cases : list (list cop * list out) := " + vhlib.CoqListNL(crashCases) + ".\n"
		sum.WriteCaseFile(cfg.Out, fmt.Sprintf("cases_c13_crash_%d", crashShard), "From SigM Require Import Base Tenant TenantCrash TenantCheck.\n",
			defs, "check_crash_runs cases 0", nCrash)
		crashCases, nCrash = nil, 0
		crashShard++
	}
	for i, j := range jobs {
		if j.err != nil {
			sum.HarnessError(fmt.Sprintf("scenario %d (%s): %v", i, j.sc.Stream, j.err))
			continue
		}
		evalScenario(sum, &mu, i, j.sc, j.obs, j.g, j.g.zombies)
		if j.sc.Stream == "metrics" {
			continue
		}
		if j.sc.Stream == "crash_recovery" {
			// own model (TenantCrash.v: on-disk segment records, start-up recovery), own case file
			var cs, bs []string
			for k, op := range j.sc.Ops {
				cs = append(cs, coqCrashOp(op))
				bs = append(bs, coqObs(op, j.obs[k], j.g))
				switch op.Kind {
				case "q_search", "q_stats", "q_spl", "q_cols", "q_list":
					nCrash++
				}
			}
			crashCases = append(crashCases, "("+vhlib.CoqList(cs)+",\n   "+vhlib.CoqList(bs)+")")
			sum.Sample(map[string]interface{}{"stream": j.sc.Stream, "ops": len(j.sc.Ops), "first_ops": j.sc.Ops[:min(6, len(j.sc.Ops))]})
			if len(crashCases) >= 20 {
				flushCrash()
			}
			continue
		}
		var os_, bs []string
		for k, op := range j.sc.Ops {
			os_ = append(os_, coqOp(op))
			bs = append(bs, coqObs(op, j.obs[k], j.g))
			switch op.Kind {
			case "delete", "q_search", "q_stats", "q_spl", "q_cols", "q_list":
				ncases++
			}
		}
		cases = append(cases, "("+vhlib.CoqList(os_)+",\n   "+vhlib.CoqList(bs)+")")
		if i%7 == 0 {
			sum.Sample(map[string]interface{}{"stream": j.sc.Stream, "ops": len(j.sc.Ops), "first_ops": j.sc.Ops[:min(6, len(j.sc.Ops))]})
		}
		if len(cases) >= 25 {
			flush()
		}
	}
	flush()
	flushCrash()

	// documentation check: the PRE-FIX matcher model (rx_matcher) against Go regexp on the pre-fix translation,
	// and the glob specification against the harness' glob.  The matcher of the code under test is observed
	// through the real expansion in the "matcher" stream above.
	pats := matcherPatterns()
	strs := append([]string{""}, matcherNames...)
	var rxItems, glItems []string
	for _, p := range pats {
		for _, s := range strs {
			rxItems = append(rxItems, fmt.Sprintf("(%s, %s, %d)", vhlib.CoqStr(p), vhlib.CoqStr(s), goRx(p, s)))
			glItems = append(glItems, fmt.Sprintf("(%s, %s, %s)", vhlib.CoqStr(p), vhlib.CoqStr(s), vhlib.CoqBool(glob(p, s))))
			sum.Count("matcher_case")
		}
	}
	sum.WriteCaseFile(cfg.Out, "cases_c13_rx", "From SigM Require Import Base Tenant TenantCheck.\n",
		"Definition rxs : list (name * name * N) := "+vhlib.CoqListNL(rxItems)+".\nDefinition gls : list (name * name * bool) := "+vhlib.CoqListNL(glItems)+".\n",
		"check_rx rxs 0 ++ check_glob gls 0", len(rxItems)+len(glItems))
	// the real utils.CreateStreamId against the model's formula and "ids equal iff (org, index) equal"
	sidNames := append(append([]string{}, digitNames...), "a", "ab", "0a", "12", "-", "1-2")
	var htbl, sobs []string
	type sidp struct {
		org int64
		idx string
		id  string
	}
	var sids []sidp
	for _, n := range sidNames {
		htbl = append(htbl, fmt.Sprintf("(%s, %d)", vhlib.CoqStr(n), xxhash.Sum64String(n)))
	}
	for _, o := range allOrgs {
		for _, n := range sidNames {
			id := utils.CreateStreamId(n, o)
			sids = append(sids, sidp{o, n, id})
			sobs = append(sobs, fmt.Sprintf("(%d, %s, %s)", o, vhlib.CoqStr(n), vhlib.CoqStr(id)))
			sum.Count("stream_id_case")
		}
	}
	for i := range sids {
		for j := i + 1; j < len(sids); j++ {
			if sids[i].id == sids[j].id {
				sum.Fail("stream_id_collision", fmt.Sprintf("CreateStreamId gives org %d index %q and org %d index %q the same stream id %s",
					sids[i].org, sids[i].idx, sids[j].org, sids[j].idx, sids[i].id),
					map[string]interface{}{"a": []interface{}{sids[i].org, sids[i].idx}, "b": []interface{}{sids[j].org, sids[j].idx}, "stream_id": sids[i].id})
			}
		}
	}
	sum.WriteCaseFile(cfg.Out, "cases_c13_sid", "From SigM Require Import Base Tenant TenantCheck.\n",
		"Definition htbl : list (name * N) := "+vhlib.CoqListNL(htbl)+".\nDefinition sobs : list (N * name * list N) := "+vhlib.CoqListNL(sobs)+".\n",
		"check_sid htbl sobs", len(sobs))
	sum.Write(cfg.Out)
}

var lastSpec *spec

func wrap(f func(*vhlib.Rng) (*scenario, *spec)) func(*vhlib.Rng) *scenario {
	return func(r *vhlib.Rng) *scenario { sc, g := f(r); lastSpec = g; return sc }
}

var genMainS = wrap(genMain)
var genMetaS = wrap(genMeta)
var genCrossDeleteS = wrap(genCrossDelete)
var genRecreateS = wrap(genRecreate)
var genGhostColsS = wrap(genGhostCols)
var genAliasRestartS = wrap(genAliasRestart)

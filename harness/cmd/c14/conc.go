// conc.go: the retention pass running WHILE the ingest side publishes freshly rotated segments.
//
// Both sides write the same two metadata files: the pass rewrites segmeta.json / metricmeta.json through a
// temporary file and a rename (or removes them), a rotation appends the line of its segment
// (writer.BulkAddRotatedSegmetas, meta.AddMetricsMetaEntry).  Property: after both have finished, each file lists
// exactly the survivors of the pass and the newly published segments, every one of them is searchable (also after a
// restart), and a further pass changes nothing.
//
// A scenario: a store of rotated log and metrics segments around the horizon (build + settle processes as in every
// scenario); the pass process ingests one more log segment per chosen index (flushed, unrotated) and more metrics
// datapoints (unrotated), observes, then runs the real DoRetentionBasedDeletion and the real rotations
// (ForceRotateSegmentsForTest, CheckAndRotate) concurrently, interleaved by a gate:
//
//	behind   the harness holds the READ side of the file's lock (add-only hooks VerifC14Hold...Read): the pass
//	         reads its selection, then waits for the write lock at its rewrite; the rotation is started once a
//	         writer is waiting, and the read lock is released when the rotation's goroutine is itself parked in
//	         Lock() inside the publishing function.  The write lock is therefore taken first by the pass,
//	         then by the publisher: whatever the publisher did before it asked for the lock happened BEFORE
//	         the rewrite, whatever it does under the lock happens AFTER the rename.  Done for both files.
//	between  only the segmeta.json lock is held: the pass (selection of both files done) waits at the rewrite
//	         of segmeta.json while the metrics rotation runs to its end: the new line of metricmeta.json
//	         lands between the selection and the rewrite of that file; the log rotation as in "behind".
//	free     the pass and the rotations are started together, no lock is touched.
//
// The model (coq/model/RetentionConc.v) runs the same schedule; the Coq case compares the two files.
package main

import (
	"fmt"
	"os"
	"path/filepath"
	"runtime"
	"sort"
	"strconv"
	"strings"
	"time"

	"github.com/siglens/siglens/pkg/config"
	"github.com/siglens/siglens/pkg/retention"
	"github.com/siglens/siglens/pkg/segment/query"
	"github.com/siglens/siglens/pkg/segment/writer"
	mmeta "github.com/siglens/siglens/pkg/segment/writer/metrics/meta"

	"verifharness/vhlib"
)

// ---------------------------------------------------------------- worker side

func waitUntil(f func() bool, d time.Duration) bool {
	end := time.Now().Add(d)
	for time.Now().Before(end) {
		if f() {
			return true
		}
		time.Sleep(200 * time.Microsecond)
	}
	return f()
}

// number of goroutines that are parked in a lock acquisition somewhere below the function fn
var stackBuf = make([]byte, 4<<20)

func goroutinesWaitingForALockIn(fn string) int {
	buf := stackBuf // one gate at a time
	n := runtime.Stack(buf, true)
	cnt := 0
	for _, g := range strings.Split(string(buf[:n]), "\n\n") {
		header := g
		if i := strings.IndexByte(g, '\n'); i >= 0 {
			header = g[:i]
		}
		if !strings.Contains(g, fn+"(") {
			continue
		}
		if strings.Contains(header, "sync.Mutex.Lock") || strings.Contains(header, "sync.RWMutex.Lock") || strings.Contains(header, "semacquire") {
			cnt++
		}
	}
	return cnt
}

func waitParked(fn string, want int, d time.Duration) int {
	end := time.Now().Add(d)
	got := 0
	for time.Now().Before(end) {
		if got = goroutinesWaitingForALockIn(fn); got >= want {
			return got
		}
		time.Sleep(500 * time.Microsecond)
	}
	return got
}

func b2i(b bool) int {
	if b {
		return 1
	}
	return 0
}

// metric name -> directory (relative to the host directory) of the metrics segment whose .mnm file holds it
func scanMnm(hostRoot string) map[string]string {
	out := map[string]string{}
	files, _ := filepath.Glob(hostRoot + "final/ts/*/*/*.mnm")
	for _, f := range files {
		for _, n := range readMnm(f) {
			out[n] = rel(hostRoot, filepath.Dir(f))
		}
	}
	return out
}

func concurrentPass(spec *Spec, out *WorkerOut, hostRoot string) {
	info := map[string]int{}
	out.GateInfo = info
	out.Tb = time.Now().UnixMilli()
	passDone := make(chan struct{})
	logsDone := make(chan struct{})
	metDone := make(chan error, 1)
	runPass := func() {
		defer close(passDone)
		for _, org := range spec.PassOrgs {
			retention.DoRetentionBasedDeletion(config.GetCurrentNodeIngestDir(), spec.Hours, org)
		}
	}
	rotateLogs := func() {
		defer close(logsDone)
		writer.ForceRotateSegmentsForTest()
	}
	rotateMets := func() { metDone <- rotateMetrics() }
	const patience = 3 * time.Second
	logFn, metFn := "writer.BulkAddRotatedSegmetas", "meta.AddMetricsMetaEntry"
	switch spec.Gate {
	case "behind":
		relS := writer.VerifC14HoldSegmetaRead()
		relM := mmeta.VerifC14HoldMetricsMetaRead()
		go runPass()
		info["pass_waits_for_segmeta_write_lock"] = b2i(waitUntil(writer.VerifC14SegmetaWriterWaiting, patience))
		go rotateLogs()
		info["log_publishers_parked_in_lock"] = waitParked(logFn, 1, patience)
		relS()
		info["pass_waits_for_metricmeta_write_lock"] = b2i(waitUntil(mmeta.VerifC14MetricsMetaWriterWaiting, patience))
		go rotateMets()
		info["metrics_publishers_parked_in_lock"] = waitParked(metFn, 1, patience)
		relM()
	case "between":
		relS := writer.VerifC14HoldSegmetaRead()
		go runPass()
		info["pass_waits_for_segmeta_write_lock"] = b2i(waitUntil(writer.VerifC14SegmetaWriterWaiting, patience))
		rotateMets() // runs to its end: metricmeta.json gets its new lines after the selection, before the rewrite
		go rotateLogs()
		info["log_publishers_parked_in_lock"] = waitParked(logFn, 1, patience)
		relS()
	default: // free
		go runPass()
		go rotateLogs()
		go rotateMets()
	}
	deadline := time.After(60 * time.Second)
	for _, ch := range []<-chan struct{}{passDone, logsDone} {
		select {
		case <-ch:
		case <-deadline:
			out.Err = "concurrent pass and rotation did not finish within 60 s (gate " + spec.Gate + ")"
			return
		}
	}
	select {
	case err := <-metDone:
		if err != nil {
			out.Err = "metrics rotate: " + err.Error()
		}
	case <-deadline:
		out.Err = "metrics rotation did not finish within 60 s (gate " + spec.Gate + ")"
		return
	}
	// what the periodic refresh of the in-memory metrics metadata does (every 5 s) when metricmeta.json has changed
	mm := config.GetSmrBaseDir() + "metricmeta.json"
	if _, err := os.Stat(mm); err == nil {
		if err := query.PopulateMetricsMetadataForTheFile_TestOnly(mm); err != nil {
			out.Err = "metrics metadata refresh: " + err.Error()
		}
	}
	out.MnmDirs = scanMnm(hostRoot)
	out.Obs = append(out.Obs, observe("post", spec, hostRoot))
	for _, org := range spec.PassOrgs {
		retention.DoRetentionBasedDeletion(config.GetCurrentNodeIngestDir(), spec.Hours, org)
	}
	out.Obs = append(out.Obs, observe("post2", spec, hostRoot))
	out.Ta = time.Now().UnixMilli()
}

// ---------------------------------------------------------------- generator

var concGates = []string{"behind", "between", "free"}

// a store as in the main stream (metrics always, a second org in every third store), a pass for org 0 that
// has at least one expired log segment and one expired metrics segment to remove, and per scenario 1-2 log
// segments and 1-2 groups of metrics datapoints that are rotated while the pass runs; their newest event is
// newer than the horizon (what a rotation publishes at that moment has just been written)
func genConcurrent(r *vhlib.Rng, i int) *Spec {
	s := genSpecT(r, "concurrent", true, i%3 == 2, false)
	s.Gate = concGates[i%len(concGates)]
	s.PassOrgs = []int64{0}
	s.Extras = nil
	id := 0
	hasLog, hasMet := false, false
	for ri := range s.Rounds {
		s.Rounds[ri].Rotate = true
		for _, sg := range s.Rounds[ri].Segs {
			if sg.ID > id {
				id = sg.ID
			}
			if sg.Org == 0 && maxOff(sg) <= olderMax {
				if sg.Kind == "log" {
					hasLog = true
				} else {
					hasMet = true
				}
			}
		}
	}
	if !hasLog || !hasMet {
		// a round of its own: two segments of one index ingested in one round would be one segment
		rd := Round{Rotate: true}
		if !hasLog {
			id++
			rd.Segs = append(rd.Segs, SegSpec{ID: id, Kind: "log", Name: "ixb", Org: 0, Offs: genOffs(r, 0)})
		}
		if !hasMet {
			id++
			offs := genOffs(r, 0)
			for k := range offs {
				offs[k] = offs[k] / 1000 * 1000
			}
			rd.Segs = append(rd.Segs, SegSpec{ID: id, Kind: "met", Name: "m", Org: 0, Offs: offs})
		}
		s.Rounds = append(s.Rounds, rd)
	}
	names := []string{"ixa", "ixd", "ixc"}
	nlog := r.Range(1, 2)
	for k := 0; k < nlog; k++ {
		id++
		s.Extras = append(s.Extras, SegSpec{ID: id, Kind: "log", Name: names[(i+k)%len(names)], Org: 0, Offs: genOffs(r, 1+r.Intn(2))})
	}
	nmet := r.Range(1, 2)
	for k := 0; k < nmet; k++ {
		id++
		offs := genOffs(r, 1+r.Intn(2))
		for j := range offs {
			offs[j] = offs[j] / 1000 * 1000
		}
		s.Live = append(s.Live, SegSpec{ID: id, Kind: "met", Name: "m", Org: 0, Offs: offs})
	}
	return s
}

// ---------------------------------------------------------------- parent: one scenario

func coqSegLines(in *interner, l []SegEntry, met bool) string {
	items := make([]string, len(l))
	for i, e := range l {
		if met {
			items[i] = fmt.Sprintf("mseg %s %d %d %s %s", in.path(e.Dir), e.Earliest, e.Latest, vhlib.CoqZ(e.Org), in.path(e.TT))
		} else {
			items[i] = fmt.Sprintf("lseg %s %d %d %s %d", in.path(e.Dir), e.Earliest, e.Latest, vhlib.CoqZ(e.Org), in.table(e.Table))
		}
	}
	return vhlib.CoqList(items)
}

type published struct {
	Seg  SegSpec
	Dir  string
	File string // segmeta.json | metricmeta.json
}

func runConcurrentScenario(idx int, spec *Spec, r *vhlib.Rng, cfg vhlib.Config) *scenarioResult {
	res := &scenarioResult{Spec: spec}
	scDir := filepath.Join(cfg.Out, fmt.Sprintf("sc%03d", idx))
	_ = os.MkdirAll(scDir, 0o755)
	data := filepath.Join(scDir, "d")
	_ = os.RemoveAll(data)
	spec.Dir = data
	spec.T0 = time.Now().UnixMilli()
	herr := func(f string, a ...interface{}) *scenarioResult {
		res.HErr = fmt.Sprintf("scenario %d (%s, gate %s): ", idx, spec.Kind, spec.Gate) + fmt.Sprintf(f, a...)
		return res
	}
	spec.Phase = "build"
	bo, err := runWorker(spec, scDir, "build", "")
	if err != nil {
		return herr("%v", err)
	}
	spec.MetNames = bo.MetNames
	spec.Phase = "settle"
	if _, err := runWorker(spec, scDir, "look", ""); err != nil {
		return herr("%v", err)
	}
	spec.Phase = "pass"
	ref, err := runWorker(spec, scDir, "pass", "")
	if err != nil {
		return herr("%v", err)
	}
	for id, n := range ref.MetNames {
		if spec.MetNames == nil {
			spec.MetNames = map[string]string{}
		}
		spec.MetNames[id] = n
	}
	if len(ref.Obs) != 3 {
		return herr("pass worker returned %d observations", len(ref.Obs))
	}
	pre, post, post2 := &ref.Obs[0], &ref.Obs[1], &ref.Obs[2]
	// one more start: the metadata files are read back
	spec.Phase = "settle"
	lo, err := runWorker(spec, scDir, "restart", "")
	var again *Obs
	if err != nil || len(lo.Obs) == 0 {
		res.Fails = append(res.Fails, fail{"restart_fails_after_concurrent_pass", fmt.Sprintf("gate %s: %v", spec.Gate, err)})
	} else {
		again = &lo.Obs[0]
	}
	_ = os.RemoveAll(data)

	dirOf, err := mapSegments(spec, pre)
	if err != nil {
		return herr("%v", err)
	}
	if len(pre.Errs) > 0 {
		return herr("queries fail before the pass: %v", pre.Errs)
	}
	win := [2]int64{ref.Tb - spec.T0, ref.Ta - spec.T0}
	if win[1] > newerMin-60000 {
		return herr("scenario took %d ms: event times no longer unambiguous", win[1])
	}
	for _, f := range evalObs(spec, dirOf, pre, nil, "before the pass", win) {
		if f.Class == "survivor_not_searchable" || f.Class == "metadata_mismatch" {
			return herr("store not as expected before the pass: %s", f.Detail)
		}
	}
	// directories of the segments that are published while the pass runs, found WITHOUT the metadata files:
	// log segments: the one directory with files below final/<index>/ that no line of segmeta.json named before;
	// metrics segments: the directory whose .mnm file holds the metric name
	targets := targetsOf(pre)
	var unrot []string
	for _, d := range pre.FileDirs {
		if strings.HasPrefix(d, "final/") && !strings.HasPrefix(d, "final/ts") && !strings.HasPrefix(d, "final/tth") && !contains(targets, d) && !insideStrict(targets, d) {
			unrot = append(unrot, d)
		}
	}
	{
		var top []string
		for _, d := range unrot {
			if !insideStrict(unrot, d) {
				top = append(top, d)
			}
		}
		unrot = top
	}
	var pubs []published
	for _, x := range spec.Extras {
		var cand []string
		for _, d := range unrot {
			if parts := strings.Split(d, "/"); len(parts) == 4 && parts[1] == x.Name {
				cand = append(cand, d)
			}
		}
		if len(cand) != 1 {
			return herr("unrotated log segment %d (index %s): %d candidate directories %v", x.ID, x.Name, len(cand), cand)
		}
		pubs = append(pubs, published{x, cand[0], "segmeta.json"})
	}
	for _, x := range spec.Live {
		d, ok := ref.MnmDirs[spec.MetNames[strconv.Itoa(x.ID)]]
		if !ok {
			return herr("metrics segment %d (%s): no .mnm file holds the metric name after the rotation", x.ID, spec.MetNames[strconv.Itoa(x.ID)])
		}
		if listed(pre.Mmeta, d) {
			return herr("metrics segment %d: directory %s was listed before the pass", x.ID, d)
		}
		pubs = append(pubs, published{x, d, "metricmeta.json"})
	}
	// from here on the published segments are rotated segments like the others
	espec := *spec
	espec.Rounds = append(append([]Round{}, spec.Rounds...), Round{Rotate: true})
	dirOf2 := map[int]string{}
	for k, v := range dirOf {
		dirOf2[k] = v
	}
	for _, p := range pubs {
		espec.Rounds[len(espec.Rounds)-1].Segs = append(espec.Rounds[len(espec.Rounds)-1].Segs, p.Seg)
		dirOf2[p.Seg.ID] = p.Dir
	}
	espec.Extras, espec.Live = nil, nil
	gate := fmt.Sprintf("gate %s %v", spec.Gate, ref.GateInfo)
	where := "pass and rotations run concurrently (" + gate + "), both finished"
	lostOrNot := func(o *Obs, stage string) {
		for _, p := range pubs {
			desc := fmt.Sprintf("%s segment %d (%s, org %d, event offsets to the horizon %v ms), rotated while the pass for org %v was running (%s)", p.Seg.Kind, p.Seg.ID, p.Seg.Name, p.Seg.Org, p.Seg.Offs, spec.PassOrgs, gate)
			exists := contains(o.Dirs, p.Dir)
			isListed := listed(o.Segmeta, p.Dir)
			if p.Seg.Kind == "met" {
				isListed = listed(o.Mmeta, p.Dir)
			}
			if exists && !isListed {
				res.Fails = append(res.Fails, fail{"published_during_pass_missing_from_metadata", fmt.Sprintf("%s: %s: its directory %s exists, %s does not list it (lines: %v)", stage, desc, p.Dir, p.File, dirsOfEntries(map[bool][]SegEntry{true: o.Mmeta, false: o.Segmeta}[p.Seg.Kind == "met"]))})
			}
			if !exists {
				res.Fails = append(res.Fails, fail{"published_during_pass_deleted", fmt.Sprintf("%s: %s: its directory %s is gone", stage, desc, p.Dir)})
			}
		}
		// a survivor of the pass must stay listed whatever the publishers do
		for _, s := range spec.allSegs() {
			d, ok := dirOf[s.ID]
			if !ok || !contains(o.Dirs, d) {
				continue
			}
			isListed := listed(o.Segmeta, d)
			file := "segmeta.json"
			if s.Kind == "met" {
				isListed, file = listed(o.Mmeta, d), "metricmeta.json"
			}
			if !isListed {
				res.Fails = append(res.Fails, fail{"survivor_dropped_from_metadata_by_concurrent_publication", fmt.Sprintf("%s: %s segment %d dir %s exists, %s does not list it (%s)", stage, s.Kind, s.ID, d, file, gate)})
			}
		}
	}
	lostOrNot(post, "after both finished")
	res.Fails = append(res.Fails, evalObs(&espec, dirOf2, post, spec.PassOrgs, where, win)...)
	res.Fails = append(res.Fails, evalObs(&espec, dirOf2, post2, spec.PassOrgs, where+", then one more pass", win)...)
	res.Fails = append(res.Fails, compareObs("repeat_differs", post, post2, where+", then one more pass", true)...)
	if again != nil {
		lostOrNot(again, "after a restart")
		for _, f := range evalObs(&espec, dirOf2, again, spec.PassOrgs, where+", then a restart", win) {
			if f.Class == "survivor_not_searchable" {
				f.Class = "survivor_not_searchable_after_concurrent_pass_and_restart"
			}
			res.Fails = append(res.Fails, f)
		}
		res.Fails = append(res.Fails, compareObs("restart_differs", post2, again, where+", then a restart", false)...)
	}
	for _, s := range espec.allSegs() {
		if d, ok := dirOf2[s.ID]; ok {
			if contains(post.Dirs, d) {
				res.Kept++
			} else {
				res.Deleted++
			}
		}
	}
	// histogram: was the interleaving the gate stands for reached?
	gi := ref.GateInfo
	switch spec.Gate {
	case "behind":
		if gi["pass_waits_for_segmeta_write_lock"] == 1 && gi["log_publishers_parked_in_lock"] >= 1 {
			res.Counts = append(res.Counts, "segmeta_publisher_queued_behind_the_rewriting_pass")
		}
		if gi["pass_waits_for_metricmeta_write_lock"] == 1 && gi["metrics_publishers_parked_in_lock"] >= 1 {
			res.Counts = append(res.Counts, "metricmeta_publisher_queued_behind_the_rewriting_pass")
		}
	case "between":
		if gi["pass_waits_for_segmeta_write_lock"] == 1 {
			res.Counts = append(res.Counts, "metricmeta_publication_between_selection_and_rewrite")
			if gi["log_publishers_parked_in_lock"] >= 1 {
				res.Counts = append(res.Counts, "segmeta_publisher_queued_behind_the_rewriting_pass")
			}
		}
	default:
		res.Counts = append(res.Counts, "pass_and_rotations_started_together")
	}
	res.Counts = append(res.Counts, "concurrent_gate_"+spec.Gate)

	// Coq: the two files after both finished against the model's run of the same schedule
	in := &interner{ids: map[string]int{}}
	hz0 := spec.hz0()
	var pl, pm []string
	seenDir := map[string]bool{}
	for _, p := range pubs {
		first, last := int64(1)<<62, int64(-1)<<62
		for _, s := range espec.allSegs() {
			if dirOf2[s.ID] == p.Dir {
				for _, o := range s.Offs {
					if o < first {
						first = o
					}
					if o > last {
						last = o
					}
				}
			}
		}
		if seenDir[p.Dir] {
			continue
		}
		seenDir[p.Dir] = true
		if p.Seg.Kind == "log" {
			pl = append(pl, fmt.Sprintf("[lseg %s %d %d %s %d]", in.path(p.Dir), hz0+first, hz0+last, vhlib.CoqZ(p.Seg.Org), in.table(p.Seg.Name)))
		} else {
			pm = append(pm, fmt.Sprintf("[mseg %s %d %d %s []]", in.path(p.Dir), (hz0+first)/1000, (hz0+last)/1000, vhlib.CoqZ(p.Seg.Org)))
		}
	}
	gl, gm := 0, 0 // schedule of the model per file: 0 behind, 1 between
	if spec.Gate == "between" {
		gm = 1
	}
	res.CoqTerm = fmt.Sprintf("check_conc %s\n  %s\n  %d %d %d %s%%Z\n  %s %s\n  %s\n  %s",
		coqSegLines(in, pre.Segmeta, false), coqSegLines(in, pre.Mmeta, true), gl, gm, hz0, vhlib.CoqZ(spec.PassOrgs[0]),
		vhlib.CoqList(pl), vhlib.CoqList(pm), in.paths(dirsOfEntries(post.Segmeta)), in.paths(dirsOfEntries(post.Mmeta)))
	res.NChecks = 2
	sort.Strings(res.Counts)
	res.Sample = map[string]interface{}{"kind": spec.Kind, "gate": spec.Gate, "gate_info": ref.GateInfo, "hours": spec.Hours, "rounds": spec.Rounds,
		"published_while_the_pass_ran": append(append([]SegSpec{}, spec.Extras...), spec.Live...), "pass_orgs": spec.PassOrgs, "deleted": res.Deleted, "kept": res.Kept}
	return res
}

// c14: retention pass — property oracle, interruption replay and correspondence with
// the Coq model (coq/model/Retention.v).
//
// Every scenario builds a real store in child processes (log segments and metrics
// segments with event times chosen around the retention horizon, rotated or left
// unrotated), then a restarted child process runs the real
// retention.DoRetentionBasedDeletion twice and reports what is on disk (segmeta.json,
// metricmeta.json, directories), what the in-memory metadata holds and what queries
// return.  For "interrupt" scenarios the pass runs under strace; every prefix of its
// file-level system calls (selected boundaries in the quick tier) is applied to a copy
// of the store, a fresh process is started on it and runs a full pass; the outcome
// must equal the uninterrupted one.
//
// "concurrent" scenarios (conc.go): the pass runs while rotations publish new segments in the two metadata
// files (coq/model/RetentionConc.v).
//
// Every observation also holds the three views of the in-memory metadata of rotated log
// segments (global slice, reverse index, per-index slices), what FilterSegmentsByTime hands
// to a query over every index and GetAllColNames; a second stream builds stores whose
// segments of one index end on the same millisecond (coq/model/RetentionMem.v).
package main

import (
	"bufio"
	"bytes"
	"context"
	"encoding/binary"
	"encoding/hex"
	"encoding/json"
	"fmt"
	"io"
	"math"
	"os"
	"os/exec"
	"path"
	"path/filepath"
	"regexp"
	"sort"
	"strconv"
	"strings"
	"sync"
	"time"

	"github.com/cespare/xxhash"
	"github.com/siglens/siglens/pkg/ast/pipesearch"
	dtu "github.com/siglens/siglens/pkg/common/dtypeutils"
	"github.com/siglens/siglens/pkg/config"
	eswriter "github.com/siglens/siglens/pkg/es/writer"
	"github.com/siglens/siglens/pkg/integrations/prometheus/promql"
	"github.com/siglens/siglens/pkg/retention"
	"github.com/siglens/siglens/pkg/segment"
	"github.com/siglens/siglens/pkg/segment/memory/limit"
	segmetadata "github.com/siglens/siglens/pkg/segment/metadata"
	"github.com/siglens/siglens/pkg/segment/query"
	sutils "github.com/siglens/siglens/pkg/segment/utils"
	"github.com/siglens/siglens/pkg/segment/writer"
	"github.com/siglens/siglens/pkg/segment/writer/metrics"
	serverutils "github.com/siglens/siglens/pkg/server/utils"
	"github.com/siglens/siglens/pkg/utils"
	vtable "github.com/siglens/siglens/pkg/virtualtable"
	log "github.com/sirupsen/logrus"

	"verifharness/vhlib"
)

// ---------------------------------------------------------------- scenario description

type SegSpec struct {
	ID   int     `json:"id"`
	Kind string  `json:"kind"` // log | met
	Name string  `json:"name"` // index name / metric base name
	Org  int64   `json:"org"`
	Offs []int64 `json:"offs"` // event times in ms relative to T0 - Hours*3600000
	Mid  int     `json:"mid"`  // metrics: id of an earlier metrics segment whose shard this one must share (0: any shard)
}

type Round struct {
	Segs   []SegSpec `json:"segs"`
	Rotate bool      `json:"rotate"`
}

type Spec struct {
	Kind       string            `json:"kind"`           // plain | interrupt | stale_metrics | live_tagstree | late_expiry | concurrent
	Gate       string            `json:"gate,omitempty"` // concurrent: how the publication of Extras / Live is interleaved with the pass (conc.go)
	Dir        string            `json:"dir"`
	Hours      int               `json:"hours"`
	T0         int64             `json:"t0"`
	Phase      string            `json:"phase"`
	Rounds     []Round           `json:"rounds"`
	Extras     []SegSpec         `json:"extras,omitempty"`      // pass process: ingested, flushed, left unrotated
	Stale      []SegSpec         `json:"stale,omitempty"`       // pass process: metrics rotated, in-memory metadata not refreshed
	Live       []SegSpec         `json:"live,omitempty"`        // pass process: metrics ingested, left unrotated
	PassAfter  int64             `json:"pass_after,omitempty"`  // pass process: do not start the pass before T0+PassAfter ms
	PassBefore int64             `json:"pass_before,omitempty"` // pass process: both passes must be over before T0+PassBefore ms
	LateOff    int64             `json:"late_off,omitempty"`    // late_expiry: newest event of the segment that expires between the interrupted pass and its repetition
	Ties       bool              `json:"ties,omitempty"`        // newest events of the segments of one index (and of the metrics segments) share one timestamp per age class
	NoModel    bool              `json:"no_model,omitempty"`    // outcome depends on Go map iteration order inside one phase: oracle only
	Refresh    bool              `json:"refresh,omitempty"`     // pass process: reload the in-memory metrics metadata after rotating Stale (what the 5 s refresh loop does)
	PassOrgs   []int64           `json:"pass_orgs"`
	Orgs       []int64           `json:"orgs"`
	MetNames   map[string]string `json:"met_names,omitempty"` // seg id -> metric name (chosen by the build process)
	// zone scenarios (zone.go): time.Local of every worker process; Hours is chosen when the scenario starts so that the
	// zone's latest clock change lies inside [now - Hours, now]; the two offsets (ms east of UTC) are recorded for the report
	Zone        string `json:"zone,omitempty"`
	ZoneOffNow  int64  `json:"zone_off_now,omitempty"`
	ZoneOffThen int64  `json:"zone_off_then,omitempty"`
	// collide scenarios (paths.go): the index names are words of the data directory's layout (final, ts, suffix, ...)
	Collide bool `json:"collide,omitempty"`
	// the data path of the scenario below its scratch directory (default "d"); "final/d": a data path with a directory called final
	DataSub string `json:"data_sub,omitempty"`
}

func (s *Spec) hz0() int64 { return s.T0 - int64(s.Hours)*3600000 }

func (s *Spec) allSegs() []SegSpec {
	var out []SegSpec
	for _, r := range s.Rounds {
		out = append(out, r.Segs...)
	}
	out = append(out, s.Extras...)
	out = append(out, s.Stale...)
	out = append(out, s.Live...)
	return out
}

// ---------------------------------------------------------------- observations

type SegEntry struct {
	Dir      string   `json:"dir"` // relative to the host directory
	Table    string   `json:"table,omitempty"`
	Earliest uint64   `json:"earliest"`
	Latest   uint64   `json:"latest"`
	Org      int64    `json:"org"`
	TT       string   `json:"tt,omitempty"`
	Names    []string `json:"names,omitempty"`
}

// one entry of the in-memory metadata of rotated log segments
type MemEnt struct {
	Dir      string `json:"dir"`
	Table    string `json:"table"`
	Earliest uint64 `json:"earliest"`
	Latest   uint64 `json:"latest"`
	Org      int64  `json:"org"`
}

// one slice of tableSortedMetadata, slice order
type TblObs struct {
	Table string   `json:"table"`
	Keys  []string `json:"keys"`
}

// FilterSegmentsByTime([Lo,Hi], [Table], Org) returned Keys
type EnumRec struct {
	Lo    uint64   `json:"lo"`
	Hi    uint64   `json:"hi"`
	Table string   `json:"table"`
	Org   int64    `json:"org"`
	Keys  []string `json:"keys"`
}

type Obs struct {
	Tag      string              `json:"tag"`
	All      []MemEnt            `json:"all"`  // allSegmentMicroIndex, slice order
	Rev      []string            `json:"rev"`  // keys of segmentMetadataReverseIndex
	Tbl      []TblObs            `json:"tbl"`  // tableSortedMetadata, tables by name
	Enum     []EnumRec           `json:"enum"` // what queries are handed: all time and a window around the horizon
	Cols     map[string][]string `json:"cols"` // index -> per-segment marker columns reported by GetAllColNames
	Segmeta  []SegEntry          `json:"segmeta"`
	Mmeta    []SegEntry          `json:"mmeta"`
	Dirs     []string            `json:"dirs"`
	FileDirs []string            `json:"file_dirs"`
	Mem      []string            `json:"mem"`
	MMem     []string            `json:"mmem"`
	Hits     map[string][]string `json:"hits"`
	Count    map[string]int      `json:"count"`
	Met      map[string]int      `json:"met"`
	Vt       map[string][]string `json:"vt"`
	SegTmp   bool                `json:"seg_tmp"`
	MmTmp    bool                `json:"mm_tmp"`
	Errs     []string            `json:"errs,omitempty"`
}

type WorkerOut struct {
	Obs      []Obs             `json:"obs"`
	Tb       int64             `json:"tb"`
	Ta       int64             `json:"ta"`
	MetNames map[string]string `json:"met_names,omitempty"`
	HostRoot string            `json:"host_root"`
	Err      string            `json:"err,omitempty"`
	GateInfo map[string]int    `json:"gate_info,omitempty"` // concurrent: what the gate saw (conc.go)
	MnmDirs  map[string]string `json:"mnm_dirs,omitempty"`  // concurrent: metric name -> directory of the metrics segment that holds it (from the .mnm files)
}

// ---------------------------------------------------------------- worker (child process)

// the start-up goroutine that adds segment directories missing from segmeta.json
// (query.initSyncSegMetaForAllIds) reports its end with an Info message
type syncHook struct{ ch chan struct{} }

func (h *syncHook) Levels() []log.Level { return []log.Level{log.InfoLevel} }
func (h *syncHook) Fire(e *log.Entry) error {
	if strings.HasPrefix(e.Message, "syncSegMetaWithSegFullMeta: myid=") {
		select {
		case h.ch <- struct{}{}:
		default:
		}
	}
	return nil
}

var startupSync = &syncHook{ch: make(chan struct{}, 4)}

func waitStartupSync() bool {
	select {
	case <-startupSync.ch:
		return true
	case <-time.After(10 * time.Second):
		return false
	}
}

func initSiglens(dir string) {
	log.SetOutput(io.Discard)
	log.SetLevel(log.InfoLevel)
	log.AddHook(startupSync)
	config.InitializeTestingConfig(dir + "/")
	config.SetNewQueryPipelineEnabled(true)
	limit.InitMemoryLimiter()
	metrics.InitTestingConfig()
	writer.InitWriterNode()
	if err := vtable.InitVTable(serverutils.GetMyIds); err != nil {
		panic(err)
	}
	if err := query.InitQueryNode(serverutils.GetMyIds, serverutils.ExtractKibanaRequests); err != nil {
		panic(err)
	}
	query.InitMaxRunningQueries()
	go query.PullQueriesToRun(context.Background())
}

func flush() {
	z := time.Duration(0)
	z2 := time.Duration(0)
	writer.FlushWipBufferToFile(&z, &z2)
}

var qid uint64 = 100

func search(text string, org int64) ([]map[string]interface{}, []byte, error) {
	qid++
	req := map[string]interface{}{
		"searchText": text, "indexName": "*", "startEpoch": uint64(1000000000000), "endEpoch": uint64(3900000000000),
		"size": uint64(10000), "queryLanguage": "Splunk QL",
	}
	resp, _, _, err := pipesearch.ParseAndExecutePipeRequest(req, qid, org, time.Now(), "", nil)
	if err != nil {
		return nil, nil, err
	}
	if resp == nil {
		return nil, nil, fmt.Errorf("nil response")
	}
	mr, _ := json.Marshal(resp.MeasureResults)
	return resp.Hits.Hits, mr, nil
}

func ingestLog(s SegSpec, hz0 int64) error {
	var sb strings.Builder
	for j, o := range s.Offs {
		fmt.Fprintf(&sb, "{\"index\":{\"_index\":\"%s\"}}\n{\"id\":\"s%de%d\",\"seg\":%d,\"k%d\":1,\"timestamp\":%d}\n", s.Name, s.ID, j, s.ID, s.ID, hz0+o)
	}
	n, _, err := eswriter.HandleBulkBody([]byte(sb.String()), nil, 0, s.Org, false)
	if err != nil {
		return err
	}
	if n != len(s.Offs) {
		return fmt.Errorf("bulk ingest accepted %d of %d", n, len(s.Offs))
	}
	return nil
}

func ingestMetric(s SegSpec, name string, hz0 int64) error {
	for j, o := range s.Offs {
		raw := fmt.Sprintf(`{"metric":"%s","tags":{"sg":"s%d"},"timestamp":%d,"value":%d}`, name, s.ID, (hz0+o)/1000, j+1)
		if err := writer.AddTimeSeriesEntryToInMemBuf([]byte(raw), sutils.SIGNAL_METRICS_OTSDB, s.Org); err != nil {
			return err
		}
	}
	return nil
}

// size-triggered rotation (the non-shutdown path of CheckAndRotate) with the size limit lowered
func rotateMetrics() error {
	old := sutils.MAX_BYTES_METRICS_SEGMENT
	sutils.MAX_BYTES_METRICS_SEGMENT = 0
	defer func() { sutils.MAX_BYTES_METRICS_SEGMENT = old }()
	for _, mSeg := range metrics.GetAllMetricsSegments() {
		if err := mSeg.CheckAndRotate(false); err != nil {
			return err
		}
	}
	return nil
}

type segMetaLine struct {
	SegmentKey       string `json:"segmentKey"`
	EarliestEpochMS  uint64 `json:"earliestEpochMs"`
	LatestEpochMS    uint64 `json:"latestEpochMs"`
	SegbaseDir       string `json:"segbaseDir"`
	VirtualTableName string `json:"virtualTableName"`
	OrgId            int64  `json:"orgid"`
}
type mMetaLine struct {
	MSegmentDir      string `json:"mSegmentDir"`
	EarliestEpochSec uint32 `json:"earliestEpochSec"`
	LatestEpochSec   uint32 `json:"latestEpochSec"`
	TTreeDir         string `json:"TTreeDir"`
	OrgId            int64  `json:"orgid"`
}

func readLines(p string) [][]byte {
	b, err := os.ReadFile(p)
	if err != nil {
		return nil
	}
	var out [][]byte
	for _, l := range bytes.Split(b, []byte("\n")) {
		if len(bytes.TrimSpace(l)) > 0 {
			out = append(out, l)
		}
	}
	return out
}

func rel(root, p string) string {
	p = strings.TrimSuffix(p, "/")
	r := strings.TrimPrefix(p, root)
	return strings.Trim(r, "/")
}

func parseSegmeta(root string, lines [][]byte) []SegEntry {
	var out []SegEntry
	for _, l := range lines {
		var s segMetaLine
		if json.Unmarshal(l, &s) != nil {
			out = append(out, SegEntry{Dir: "?unparsable"})
			continue
		}
		out = append(out, SegEntry{Dir: rel(root, s.SegbaseDir), Table: s.VirtualTableName, Earliest: s.EarliestEpochMS, Latest: s.LatestEpochMS, Org: s.OrgId})
	}
	return out
}

func readMnm(p string) []string {
	b, err := os.ReadFile(p)
	if err != nil {
		return nil
	}
	var out []string
	for len(b) >= 2 {
		n := int(binary.LittleEndian.Uint16(b))
		b = b[2:]
		if n > len(b) {
			break
		}
		out = append(out, string(b[:n]))
		b = b[n:]
	}
	sort.Strings(out)
	return out
}

func parseMmeta(root string, lines [][]byte, withNames bool) []SegEntry {
	var out []SegEntry
	for _, l := range lines {
		var s mMetaLine
		if json.Unmarshal(l, &s) != nil {
			out = append(out, SegEntry{Dir: "?unparsable"})
			continue
		}
		e := SegEntry{Dir: rel(root, path.Dir(s.MSegmentDir)), Earliest: uint64(s.EarliestEpochSec), Latest: uint64(s.LatestEpochSec), Org: s.OrgId, TT: rel(root, s.TTreeDir)}
		if withNames {
			e.Names = readMnm(s.MSegmentDir + ".mnm")
		}
		out = append(out, e)
	}
	return out
}

func observe(tag string, spec *Spec, hostRoot string) Obs {
	o := Obs{Tag: tag, Hits: map[string][]string{}, Count: map[string]int{}, Met: map[string]int{}, Vt: map[string][]string{}}
	smr := config.GetSmrBaseDir()
	o.Segmeta = parseSegmeta(hostRoot, readLines(smr+"segmeta.json"))
	o.Mmeta = parseMmeta(hostRoot, readLines(smr+"metricmeta.json"), true)
	_, e1 := os.Stat(smr + "segmeta.json.tmp")
	_, e2 := os.Stat(smr + "metricmeta.json.tmp")
	o.SegTmp, o.MmTmp = e1 == nil, e2 == nil
	fd := map[string]bool{}
	_ = filepath.Walk(hostRoot+"final", func(p string, info os.FileInfo, err error) error {
		if err != nil {
			return nil
		}
		if info.IsDir() {
			o.Dirs = append(o.Dirs, rel(hostRoot, p))
		} else {
			fd[rel(hostRoot, filepath.Dir(p))] = true
		}
		return nil
	})
	sort.Strings(o.Dirs)
	for d := range fd {
		o.FileDirs = append(o.FileDirs, d)
	}
	sort.Strings(o.FileDirs)
	for _, org := range spec.Orgs {
		k := strconv.FormatInt(org, 10)
		for key := range segmetadata.GetAllSegKeysForOrg(org) {
			o.Mem = append(o.Mem, rel(hostRoot, path.Dir(key)))
		}
		for d := range segmetadata.GetMetricSegmentsOverTheTimeRange(&dtu.MetricsTimeRange{StartEpochSec: 0, EndEpochSec: math.MaxUint32}, utils.Some(org)) {
			o.MMem = append(o.MMem, rel(hostRoot, path.Dir(d)))
		}
		hits, _, err := search("*", org)
		if err != nil {
			o.Errs = append(o.Errs, "search org "+k+": "+err.Error())
		}
		ids := []string{}
		for _, h := range hits {
			ids = append(ids, fmt.Sprint(h["id"]))
		}
		sort.Strings(ids)
		o.Hits[k] = ids
		_, mr, err := search("* | stats count", org)
		if err != nil {
			o.Errs = append(o.Errs, "stats org "+k+": "+err.Error())
		}
		o.Count[k] = -1
		if m := regexp.MustCompile(`"count\(\*\)":(\d+)`).FindSubmatch(mr); m != nil {
			o.Count[k], _ = strconv.Atoi(string(m[1]))
		} else if len(ids) == 0 {
			o.Count[k] = 0
		}
		vt, err := vtable.GetVirtualTableNames(org)
		if err == nil {
			for n := range vt {
				o.Vt[k] = append(o.Vt[k], n)
			}
			sort.Strings(o.Vt[k])
		}
	}
	sort.Strings(o.Mem)
	sort.Strings(o.MMem)
	observeViews(&o, spec, hostRoot)
	// metrics: datapoints returned per metric name
	segByID := map[string]SegSpec{}
	for _, s := range spec.allSegs() {
		segByID[strconv.Itoa(s.ID)] = s
	}
	ids := make([]string, 0, len(spec.MetNames))
	for id := range spec.MetNames {
		ids = append(ids, id)
	}
	sort.Strings(ids)
	hz0 := spec.hz0()
	for _, id := range ids {
		name := spec.MetNames[id]
		s := segByID[id]
		lo, hi := int64(math.MaxInt64), int64(math.MinInt64)
		for _, off := range s.Offs {
			t := (hz0 + off) / 1000
			if t < lo {
				lo = t
			}
			if t > hi {
				hi = t
			}
		}
		n, err := queryMetric(name, uint32(lo-5), uint32(hi+5), s.Org)
		if err != nil {
			o.Errs = append(o.Errs, "metrics "+name+": "+err.Error())
		}
		o.Met[name] = n
	}
	return o
}

const allTimeHi = uint64(math.MaxUint64)

var reMarkerCol = regexp.MustCompile(`^k\d+$`)

// the three views of the in-memory metadata of rotated log segments and what they give to queries
func observeViews(o *Obs, spec *Spec, hostRoot string) {
	key := func(segKey string) string { return rel(hostRoot, path.Dir(segKey)) }
	for _, smi := range segmetadata.GetAllSegmentMicroIndexForTest() {
		o.All = append(o.All, MemEnt{Dir: key(smi.SegmentKey), Table: smi.VirtualTableName, Earliest: smi.EarliestEpochMS, Latest: smi.LatestEpochMS, Org: smi.OrgId})
	}
	for k := range segmetadata.GetSegmentMetadataReverseIndexForTest() {
		o.Rev = append(o.Rev, key(k))
	}
	sort.Strings(o.Rev)
	tsm := segmetadata.GetTableSortedMetadata()
	tables := map[string]bool{}
	for t, sl := range tsm {
		tables[t] = true
		to := TblObs{Table: t, Keys: []string{}}
		for _, smi := range sl {
			to.Keys = append(to.Keys, key(smi.SegmentKey))
		}
		o.Tbl = append(o.Tbl, to)
	}
	sort.Slice(o.Tbl, func(i, j int) bool { return o.Tbl[i].Table < o.Tbl[j].Table })
	for _, sg := range spec.allSegs() {
		if sg.Kind == "log" {
			tables[sg.Name] = true
		}
	}
	names := make([]string, 0, len(tables))
	for t := range tables {
		names = append(names, t)
	}
	sort.Strings(names)
	hz0 := uint64(spec.hz0())
	ranges := [][2]uint64{{0, allTimeHi}, {hz0 - 700000, hz0 + 400000}}
	o.Cols = map[string][]string{}
	for _, t := range names {
		for _, org := range spec.Orgs {
			for _, rg := range ranges {
				res, _, _ := segmetadata.FilterSegmentsByTime(&dtu.TimeRange{StartEpochMs: rg[0], EndEpochMs: rg[1]}, []string{t}, org)
				rec := EnumRec{Lo: rg[0], Hi: rg[1], Table: t, Org: org, Keys: []string{}}
				for _, m := range res {
					for k := range m {
						rec.Keys = append(rec.Keys, key(k))
					}
				}
				sort.Strings(rec.Keys)
				o.Enum = append(o.Enum, rec)
			}
		}
		cols := []string{}
		for _, c := range segmetadata.GetAllColNames([]string{t}) {
			if reMarkerCol.MatchString(c) {
				cols = append(cols, c)
			}
		}
		sort.Strings(cols)
		o.Cols[t] = cols
	}
}

// segments of index table (org) that a query over all time is handed
func enumeratedAllTime(o *Obs, table string, org int64) []string {
	for _, e := range o.Enum {
		if e.Table == table && e.Org == org && e.Lo == 0 && e.Hi == allTimeHi {
			return e.Keys
		}
	}
	return nil
}

func queryMetric(name string, lo, hi uint32, org int64) (n int, err error) {
	defer func() {
		if r := recover(); r != nil {
			err = fmt.Errorf("panic: %v", r)
		}
	}()
	reqs, _, _, err := promql.ConvertPromQLToMetricsQuery("("+name+")", lo, hi, org)
	if err != nil {
		return 0, err
	}
	qid++
	res := segment.ExecuteMetricsQuery(&reqs[0].MetricsQuery, &reqs[0].TimeRange, qid)
	if res == nil {
		return 0, fmt.Errorf("nil result")
	}
	for _, dps := range res.Results {
		n += len(dps)
	}
	if len(res.ErrList) > 0 {
		return n, fmt.Errorf("%v", res.ErrList)
	}
	return n, nil
}

func workerMain(specPath, outPath string) {
	var spec Spec
	b, _ := os.ReadFile(specPath)
	if err := json.Unmarshal(b, &spec); err != nil {
		panic(err)
	}
	out := WorkerOut{MetNames: map[string]string{}}
	finish := func() {
		jb, _ := json.Marshal(out)
		_ = os.WriteFile(outPath, jb, 0o644)
		os.Exit(0) // no shutdown hooks: the process simply ends
	}
	defer func() {
		if r := recover(); r != nil {
			out.Err = fmt.Sprintf("panic: %v", r)
			finish()
		}
	}()
	if spec.Zone != "" {
		// the server's local zone: what time.Now() inside the pass carries
		loc, err := time.LoadLocation(spec.Zone)
		if err != nil {
			out.Err = "time zone " + spec.Zone + ": " + err.Error()
			finish()
		}
		time.Local = loc
	}
	initSiglens(spec.Dir)
	if !waitStartupSync() {
		out.Err = "start-up synchronisation of segmeta.json did not finish"
		finish()
	}
	hostRoot := config.GetDataPath() + config.GetHostID() + "/"
	out.HostRoot = hostRoot
	hz0 := spec.hz0()
	nshards := func(org int64) int { return len(metrics.GetMetricSegments(org)) }
	ingestMet := func(s SegSpec) {
		name, ok := spec.MetNames[strconv.Itoa(s.ID)]
		if !ok {
			name = fmt.Sprintf("m%dx0", s.ID)
			if other, ok2 := out.MetNames[strconv.Itoa(s.Mid)]; ok2 && s.Mid > 0 {
				if n := nshards(s.Org); n > 0 {
					want := int(xxhash.Sum64([]byte(other)) % uint64(n))
					for j := 0; ; j++ {
						name = fmt.Sprintf("m%dx%d", s.ID, j)
						if int(xxhash.Sum64([]byte(name))%uint64(n)) == want {
							break
						}
					}
				}
			}
		}
		out.MetNames[strconv.Itoa(s.ID)] = name
		if err := ingestMetric(s, name, hz0); err != nil {
			out.Err = "metrics ingest: " + err.Error()
		}
	}
	switch spec.Phase {
	case "settle":
		out.Obs = append(out.Obs, observe("settled", &spec, hostRoot))
	case "build":
		for _, r := range spec.Rounds {
			hasMet := false
			for _, s := range r.Segs {
				if s.Kind == "log" {
					if err := ingestLog(s, hz0); err != nil {
						out.Err = "ingest: " + err.Error()
					}
				} else {
					ingestMet(s)
					hasMet = true
				}
			}
			flush()
			if r.Rotate {
				writer.ForceRotateSegmentsForTest()
			}
			if hasMet {
				if err := rotateMetrics(); err != nil {
					out.Err = "metrics rotate: " + err.Error()
				}
			}
		}
	case "pass":
		for _, s := range spec.Extras {
			if err := ingestLog(s, hz0); err != nil {
				out.Err = "ingest: " + err.Error()
			}
		}
		if len(spec.Extras) > 0 {
			flush()
		}
		for _, s := range spec.Stale {
			ingestMet(s)
		}
		if len(spec.Stale) > 0 {
			if err := rotateMetrics(); err != nil {
				out.Err = "metrics rotate: " + err.Error()
			}
		}
		if spec.Refresh {
			if err := query.PopulateMetricsMetadataForTheFile_TestOnly(config.GetSmrBaseDir() + "metricmeta.json"); err != nil {
				out.Err = "metrics metadata refresh: " + err.Error()
			}
		}
		for _, s := range spec.Live {
			ingestMet(s)
		}
		for id, n := range out.MetNames {
			if spec.MetNames == nil {
				spec.MetNames = map[string]string{}
			}
			spec.MetNames[id] = n
		}
		out.Obs = append(out.Obs, observe("pre", &spec, hostRoot))
		if spec.PassAfter > 0 {
			for time.Now().UnixMilli() < spec.T0+spec.PassAfter {
				time.Sleep(100 * time.Millisecond)
			}
		}
		if spec.Kind == "concurrent" {
			concurrentPass(&spec, &out, hostRoot)
			finish()
		}
		out.Tb = time.Now().UnixMilli()
		for rep, tag := range []string{"post", "post2"} {
			if rep == 0 {
				_ = os.Remove("/nonexistent/C14_BEGIN")
			}
			for _, org := range spec.PassOrgs {
				retention.DoRetentionBasedDeletion(config.GetCurrentNodeIngestDir(), spec.Hours, org)
			}
			if rep == 0 {
				_ = os.Remove("/nonexistent/C14_END")
			}
			out.Obs = append(out.Obs, observe(tag, &spec, hostRoot))
		}
		out.Ta = time.Now().UnixMilli()
		if spec.PassBefore > 0 && out.Ta >= spec.T0+spec.PassBefore {
			out.Err = fmt.Sprintf("late_expiry timing: the early pass ended %d ms after the scenario start, limit %d", out.Ta-spec.T0, spec.PassBefore)
		}
		if spec.Kind == "live_tagstree" {
			// later the shard that kept receiving datapoints is rotated as well
			if err := rotateMetrics(); err != nil {
				out.Err = "metrics rotate: " + err.Error()
			}
			if err := query.PopulateMetricsMetadataForTheFile_TestOnly(config.GetSmrBaseDir() + "metricmeta.json"); err != nil {
				out.Err = "metrics metadata refresh: " + err.Error()
			}
			out.Obs = append(out.Obs, observe("after_rotation", &spec, hostRoot))
		}
	}
	finish()
}

// ---------------------------------------------------------------- parent: running workers

func writeJSON(p string, v interface{}) {
	b, _ := json.MarshalIndent(v, "", " ")
	_ = os.WriteFile(p, b, 0o644)
}

func runWorker(spec *Spec, scDir, name string, tracePath string) (*WorkerOut, error) {
	sp := filepath.Join(scDir, name+".spec.json")
	op := filepath.Join(scDir, name+".out.json")
	_ = os.Remove(op)
	writeJSON(sp, spec)
	ctx, cancel := context.WithTimeout(context.Background(), 120*time.Second)
	defer cancel()
	var cmd *exec.Cmd
	if tracePath != "" {
		cmd = exec.CommandContext(ctx, "strace", "-f", "-y", "-xx", "-s", "200000", "-o", tracePath,
			"-e", "trace=unlink,unlinkat,rmdir,rename,renameat,renameat2,openat,write,mkdirat,mkdir,truncate,ftruncate",
			os.Args[0], "worker", sp, op)
	} else {
		cmd = exec.CommandContext(ctx, os.Args[0], "worker", sp, op)
	}
	var stderr bytes.Buffer
	cmd.Stdout = &stderr
	cmd.Stderr = &stderr
	err := cmd.Run()
	b, rerr := os.ReadFile(op)
	if rerr != nil {
		tail := stderr.String()
		if len(tail) > 600 {
			tail = tail[len(tail)-600:]
		}
		return nil, fmt.Errorf("worker %s produced no output (run error: %v): %s", name, err, tail)
	}
	var out WorkerOut
	if e := json.Unmarshal(b, &out); e != nil {
		return nil, e
	}
	if out.Err != "" {
		return &out, fmt.Errorf("worker %s: %s", name, out.Err)
	}
	return &out, nil
}

func copyTree(src, dst string) error {
	_ = os.RemoveAll(dst)
	return exec.Command("cp", "-a", src, dst).Run()
}

// ---------------------------------------------------------------- strace parsing and replay

type Op struct {
	Kind   string `json:"kind"` // unlink | rmdir | create | write | rename | mkdir
	Path   string `json:"path"`
	To     string `json:"to,omitempty"`
	Data   []byte `json:"data,omitempty"`
	Append bool   `json:"append,omitempty"` // touch: opened with O_APPEND
}

var hexRe = regexp.MustCompile(`(?:\\x[0-9a-f]{2})+`)

func unhex(s string) string {
	return hexRe.ReplaceAllStringFunc(s, func(m string) string {
		b, _ := hex.DecodeString(strings.ReplaceAll(m, `\x`, ""))
		return string(b)
	})
}

var (
	reUnfinished = regexp.MustCompile(`^(\d+)\s+(.*) <unfinished \.\.\.>$`)
	reResumed    = regexp.MustCompile(`^(\d+)\s+<\.\.\. \w+ resumed>(.*)$`)
	reUnlinkat   = regexp.MustCompile(`^\d+\s+unlinkat\((?:AT_FDCWD|\d+)<([^>]*)>, "([^"]*)", (\w+)\)\s+= 0`)
	reUnlink     = regexp.MustCompile(`^\d+\s+(unlink|rmdir)\("([^"]*)"\)\s+= 0`)
	reOpenat     = regexp.MustCompile(`^\d+\s+openat\((?:AT_FDCWD|\d+)<([^>]*)>, "([^"]*)", ([A-Z_|]+)(?:, \d+)?\)\s+= \d+`)
	reWrite      = regexp.MustCompile(`^\d+\s+write\(\d+<([^>]*)>, "([^"]*)"(?:\.\.\.)?, \d+\)\s+= (\d+)`)
	reRename     = regexp.MustCompile(`^\d+\s+renameat2?\((?:AT_FDCWD|\d+)<([^>]*)>, "([^"]*)", (?:AT_FDCWD|\d+)<([^>]*)>, "([^"]*)"(?:, \w+)?\)\s+= 0`)
	reRename0    = regexp.MustCompile(`^\d+\s+rename\("([^"]*)", "([^"]*)"\)\s+= 0`)
	reMkdirat    = regexp.MustCompile(`^\d+\s+mkdirat\((?:AT_FDCWD|\d+)<([^>]*)>, "([^"]*)", \d+\)\s+= 0`)
)

func joinPath(base, p string) string {
	p = unhex(p)
	if strings.HasPrefix(p, "/") {
		return path.Clean(p)
	}
	return path.Clean(path.Join(base, p))
}

// file-level operations of the first pass (between the two marker calls) below dataDir
func parseTrace(tracePath, dataDir string) ([]Op, error) {
	f, err := os.Open(tracePath)
	if err != nil {
		return nil, err
	}
	defer f.Close()
	sc := bufio.NewScanner(f)
	sc.Buffer(make([]byte, 1<<20), 64<<20)
	pending := map[string]string{}
	var ops []Op
	in := false
	sawEnd := false
	begin := hexOf("C14_BEGIN")
	end := hexOf("C14_END")
	for sc.Scan() {
		line := sc.Text()
		if m := reUnfinished.FindStringSubmatch(line); m != nil {
			pending[m[1]] = m[1] + " " + m[2]
			if strings.Contains(line, begin) {
				in = true
			}
			continue
		}
		if m := reResumed.FindStringSubmatch(line); m != nil {
			if p, ok := pending[m[1]]; ok {
				line = p + m[2]
				delete(pending, m[1])
			}
		}
		if strings.Contains(line, begin) {
			in = true
			continue
		}
		if strings.Contains(line, end) {
			sawEnd = true
			break
		}
		if !in {
			continue
		}
		var op *Op
		raw := line
		if !strings.Contains(line, " write(") {
			line = unhex(line) // paths (also inside <...>) are hex-escaped by -xx; they contain no quote or '>'
		}
		_ = raw
		if m := reUnlinkat.FindStringSubmatch(line); m != nil {
			k := "unlink"
			if m[3] == "AT_REMOVEDIR" {
				k = "rmdir"
			}
			op = &Op{Kind: k, Path: joinPath(m[1], m[2])}
		} else if m := reUnlink.FindStringSubmatch(line); m != nil {
			op = &Op{Kind: m[1], Path: joinPath("/", m[2])}
		} else if m := reOpenat.FindStringSubmatch(line); m != nil {
			if strings.Contains(m[3], "O_TRUNC") || strings.Contains(m[3], "O_CREAT") {
				k := "create"
				if !strings.Contains(m[3], "O_TRUNC") {
					k = "touch"
				}
				op = &Op{Kind: k, Path: joinPath(m[1], m[2]), Append: strings.Contains(m[3], "O_APPEND")}
			}
		} else if m := reWrite.FindStringSubmatch(line); m != nil {
			m[1] = unhex(m[1])
			if strings.HasPrefix(m[1], "/") {
				n, _ := strconv.Atoi(m[3])
				data := []byte(unhex(m[2]))
				if n < len(data) {
					data = data[:n]
				}
				op = &Op{Kind: "write", Path: m[1], Data: data}
			}
		} else if m := reRename.FindStringSubmatch(line); m != nil {
			op = &Op{Kind: "rename", Path: joinPath(m[1], m[2]), To: joinPath(m[3], m[4])}
		} else if m := reRename0.FindStringSubmatch(line); m != nil {
			op = &Op{Kind: "rename", Path: joinPath("/", m[1]), To: joinPath("/", m[2])}
		} else if m := reMkdirat.FindStringSubmatch(line); m != nil {
			op = &Op{Kind: "mkdir", Path: joinPath(m[1], m[2])}
		}
		if op != nil && strings.HasPrefix(op.Path, dataDir+"/") {
			ops = append(ops, *op)
		}
	}
	if !in || !sawEnd {
		return nil, fmt.Errorf("trace markers not found (begin=%v end=%v)", in, sawEnd)
	}
	return ops, nil
}

func hexOf(s string) string {
	var sb strings.Builder
	for _, c := range []byte(s) {
		fmt.Fprintf(&sb, `\x%02x`, c)
	}
	return sb.String()
}

// replays file-level operations; keeps the write position of every file opened by a replayed
// operation (a file opened without O_TRUNC and without O_APPEND is overwritten from its start)
type replayer struct{ off map[string]int64 }

func newReplayer() *replayer { return &replayer{off: map[string]int64{}} }

func (rp *replayer) apply(o Op) error {
	switch o.Kind {
	case "unlink", "rmdir":
		return os.Remove(o.Path)
	case "create":
		rp.off[o.Path] = 0
		return os.WriteFile(o.Path, nil, 0o644)
	case "touch":
		f, err := os.OpenFile(o.Path, os.O_CREATE|os.O_WRONLY, 0o644)
		if err == nil {
			f.Close()
		}
		if o.Append {
			rp.off[o.Path] = -1
		} else {
			rp.off[o.Path] = 0
		}
		return err
	case "write":
		off, known := rp.off[o.Path]
		if !known || off < 0 {
			f, err := os.OpenFile(o.Path, os.O_APPEND|os.O_WRONLY, 0o644)
			if err != nil {
				return err
			}
			defer f.Close()
			_, err = f.Write(o.Data)
			return err
		}
		f, err := os.OpenFile(o.Path, os.O_WRONLY, 0o644)
		if err != nil {
			return err
		}
		defer f.Close()
		_, err = f.WriteAt(o.Data, off)
		rp.off[o.Path] = off + int64(len(o.Data))
		return err
	case "rename":
		delete(rp.off, o.Path)
		return os.Rename(o.Path, o.To)
	case "mkdir":
		return os.Mkdir(o.Path, 0o755)
	}
	return nil
}

// ---------------------------------------------------------------- abstraction of a trace to model effects

type TEff struct {
	Kind  string   `json:"kind"` // rm | rmempty | segtmp | segset | segremove | mmtmp | mmset | mmremove | vttmp | vtset | vttrunc (unfixed code)
	Path  string   `json:"path,omitempty"`
	List  []string `json:"list,omitempty"`
	Org   int64    `json:"org,omitempty"`
	Trunc bool     `json:"trunc,omitempty"` // segtmp: the temporary file was opened with O_TRUNC
}

var reVtFile = regexp.MustCompile(`/virtualtablenames(?:-(\d+))?\.txt$`)
var reVtTmpFile = regexp.MustCompile(`/virtualtablenames(?:-(\d+))?\.txt\.tmp$`)

func vtTmpOrg(p string) (int64, bool) {
	m := reVtTmpFile.FindStringSubmatch(p)
	if m == nil {
		return 0, false
	}
	if m[1] == "" {
		return 0, true
	}
	n, _ := strconv.ParseInt(m[1], 10, 64)
	return n, true
}

func vtOrg(p string) (int64, bool) {
	m := reVtFile.FindStringSubmatch(p)
	if m == nil {
		return 0, false
	}
	if m[1] == "" {
		return 0, true
	}
	n, _ := strconv.ParseInt(m[1], 10, 64)
	return n, true
}

func insideStrict(targets []string, d string) bool {
	for _, t := range targets {
		if strings.HasPrefix(d, t+"/") {
			return true
		}
	}
	return false
}

// abstract[i] = number of model-level file effects completed by ops[0:i+1]
func abstractTrace(ops []Op, hostRoot string, targets []string) ([]TEff, []int) {
	var effs []TEff
	count := make([]int, len(ops))
	written := map[string][]byte{}
	smrSeg, smrMm := "/segmeta.json", "/metricmeta.json"
	for i, o := range ops {
		switch o.Kind {
		case "rmdir":
			if strings.HasPrefix(o.Path, hostRoot) {
				d := rel(hostRoot, o.Path)
				if contains(targets, d) {
					effs = append(effs, TEff{Kind: "rm", Path: d})
				} else if !insideStrict(targets, d) {
					effs = append(effs, TEff{Kind: "rmempty", Path: d})
				}
			}
		case "create":
			written[o.Path] = nil
			if strings.HasSuffix(o.Path, smrSeg+".tmp") {
				effs = append(effs, TEff{Kind: "segtmp", Trunc: true})
			} else if strings.HasSuffix(o.Path, smrMm+".tmp") {
				effs = append(effs, TEff{Kind: "mmtmp"})
			} else if org, ok := vtOrg(o.Path); ok {
				// only the code before the fix opens the names file itself with O_TRUNC
				effs = append(effs, TEff{Kind: "vttrunc", Org: org})
			} else if org, ok := vtTmpOrg(o.Path); ok {
				effs = append(effs, TEff{Kind: "vttmp", Org: org})
			}
		case "touch":
			// opened without O_TRUNC: the code under check never does that for the temporary file
			if strings.HasSuffix(o.Path, smrSeg+".tmp") {
				written[o.Path] = nil
				effs = append(effs, TEff{Kind: "segtmp", Trunc: false})
			}
		case "write":
			written[o.Path] = append(written[o.Path], o.Data...)
			if org, ok := vtOrg(o.Path); ok {
				var names []string
				for _, l := range strings.Split(string(o.Data), "\n") {
					if l != "" {
						names = append(names, l)
					}
				}
				sort.Strings(names) // the observation of the names file is sorted as well
				effs = append(effs, TEff{Kind: "vtset", Org: org, List: names})
			}
		case "rename":
			lines := [][]byte{}
			for _, l := range bytes.Split(written[o.Path], []byte("\n")) {
				if len(bytes.TrimSpace(l)) > 0 {
					lines = append(lines, l)
				}
			}
			if strings.HasSuffix(o.To, smrSeg) {
				var l []string
				for _, e := range parseSegmeta(hostRoot, lines) {
					l = append(l, e.Dir)
				}
				effs = append(effs, TEff{Kind: "segset", List: l})
			} else if strings.HasSuffix(o.To, smrMm) {
				var l []string
				for _, e := range parseMmeta(hostRoot, lines, false) {
					l = append(l, e.Dir)
				}
				effs = append(effs, TEff{Kind: "mmset", List: l})
			} else if org, ok := vtOrg(o.To); ok {
				// the names file is replaced by its .tmp: the org's names become the written lines
				var names []string
				for _, l := range lines {
					names = append(names, string(l))
				}
				sort.Strings(names)
				effs = append(effs, TEff{Kind: "vtset", Org: org, List: names})
			}
		case "unlink":
			if strings.HasSuffix(o.Path, smrSeg) {
				effs = append(effs, TEff{Kind: "segremove"})
			} else if strings.HasSuffix(o.Path, smrMm) {
				effs = append(effs, TEff{Kind: "mmremove"})
			}
		}
		count[i] = len(effs)
	}
	return effs, count
}

// ---------------------------------------------------------------- Coq printing

type interner struct {
	ids  map[string]int
	tbls map[string]int
}

func (in *interner) table(name string) int {
	if in.tbls == nil {
		in.tbls = map[string]int{}
	}
	if v, ok := in.tbls[name]; ok {
		return v
	}
	v := len(in.tbls) + 1
	in.tbls[name] = v
	return v
}

func (in *interner) vt(m map[string][]string) string {
	var items []string
	orgs := make([]string, 0, len(m))
	for o := range m {
		orgs = append(orgs, o)
	}
	sort.Strings(orgs)
	for _, o := range orgs {
		for _, n := range m[o] {
			items = append(items, fmt.Sprintf("(%s%%Z, %d)", o, in.table(n)))
		}
	}
	return vhlib.CoqList(items)
}

func (in *interner) comp(s string) string {
	if v, ok := in.ids[s]; ok {
		return strconv.Itoa(v)
	}
	v := len(in.ids) + 1
	in.ids[s] = v
	return strconv.Itoa(v)
}

func (in *interner) path(p string) string {
	if p == "" {
		return "[]"
	}
	parts := strings.Split(p, "/")
	items := make([]string, len(parts))
	for i, c := range parts {
		items[i] = in.comp(c)
	}
	return "[" + strings.Join(items, ";") + "]"
}

func (in *interner) paths(ps []string) string {
	items := make([]string, len(ps))
	for i, p := range ps {
		items[i] = in.path(p)
	}
	return "[" + strings.Join(items, "; ") + "]"
}

func visibleDirs(dirs []string, targets []string) []string {
	var out []string
	for _, d := range dirs {
		if !insideStrict(targets, d) {
			out = append(out, d)
		}
	}
	return out
}

func targetsOf(o *Obs) []string {
	var t []string
	for _, e := range o.Segmeta {
		t = append(t, e.Dir)
	}
	for _, e := range o.Mmeta {
		t = append(t, e.Dir)
		if e.TT != "" {
			t = append(t, e.TT)
		}
	}
	return t
}

func coqStore(in *interner, o *Obs, targets []string, unrot []string) string {
	var sm, mm []string
	for _, e := range o.Segmeta {
		sm = append(sm, fmt.Sprintf("lseg %s %d %d %s %d", in.path(e.Dir), e.Earliest, e.Latest, vhlib.CoqZ(e.Org), in.table(e.Table)))
	}
	for _, e := range o.Mmeta {
		mm = append(mm, fmt.Sprintf("mseg %s %d %d %s %s", in.path(e.Dir), e.Earliest, e.Latest, vhlib.CoqZ(e.Org), in.path(e.TT)))
	}
	var ur []string
	for _, d := range unrot {
		parts := strings.Split(d, "/") // final/<index>/<stream>/<suffix>
		t := 0
		if len(parts) >= 2 {
			t = in.table(parts[1])
		}
		ur = append(ur, fmt.Sprintf("lseg %s 0 0 0 %d", in.path(d), t))
	}
	return fmt.Sprintf("(mkstore %s\n   %s\n   %s %s\n   %s\n   %s %s %s\n   %s)", vhlib.CoqList(sm), vhlib.CoqList(mm),
		in.paths(o.Mem), in.paths(o.MMem), in.paths(visibleDirs(o.Dirs, targets)), vhlib.CoqList(ur), map[bool]string{false: "None", true: "(Some [])"}[o.SegTmp], vhlib.CoqBool(o.MmTmp), in.vt(o.Vt))
}

func coqOutcome(in *interner, o *Obs, targets []string) string {
	var sm, mm []string
	for _, e := range o.Segmeta {
		sm = append(sm, e.Dir)
	}
	for _, e := range o.Mmeta {
		mm = append(mm, e.Dir)
	}
	return fmt.Sprintf("(mkout %s %s\n     %s\n     %s %s %s)", in.paths(sm), in.paths(mm), in.paths(visibleDirs(o.Dirs, targets)), in.paths(o.Mem), in.paths(o.MMem), in.vt(o.Vt))
}

func (in *interner) tblKeys(l []TblObs) string {
	items := make([]string, len(l))
	for i, t := range l {
		items[i] = fmt.Sprintf("(%d, %s)", in.table(t.Table), in.paths(t.Keys))
	}
	return vhlib.CoqList(items)
}

// the three views before a pass, entries with their fields
func coqMM(in *interner, o *Obs) string {
	all := make([]string, len(o.All))
	for i, e := range o.All {
		all[i] = fmt.Sprintf("me %s %d %d %d %s", in.path(e.Dir), in.table(e.Table), e.Earliest, e.Latest, vhlib.CoqZ(e.Org))
	}
	return fmt.Sprintf("(mm_of %s\n     %s\n     %s)", vhlib.CoqList(all), in.paths(o.Rev), in.tblKeys(o.Tbl))
}

// the three views after a pass, keys only
func coqViews(in *interner, o *Obs) string {
	all := make([]string, len(o.All))
	for i, e := range o.All {
		all[i] = e.Dir
	}
	return fmt.Sprintf("(mkviews %s %s\n     %s)", in.paths(all), in.paths(o.Rev), in.tblKeys(o.Tbl))
}

func coqEnum(in *interner, o *Obs) string {
	items := make([]string, len(o.Enum))
	for i, e := range o.Enum {
		items[i] = fmt.Sprintf("(%d, %d, %d, %s%%Z, %s)", e.Lo, e.Hi, in.table(e.Table), vhlib.CoqZ(e.Org), in.paths(e.Keys))
	}
	return vhlib.CoqList(items)
}

func coqTEff(in *interner, e TEff) string {
	switch e.Kind {
	case "rm":
		return "TRm " + in.path(e.Path)
	case "rmempty":
		return "TRmEmpty " + in.path(e.Path)
	case "vttrunc":
		return fmt.Sprintf("TVtTrunc %s%%Z", vhlib.CoqZ(e.Org))
	case "vttmp":
		return fmt.Sprintf("TVtTmp %s%%Z", vhlib.CoqZ(e.Org))
	case "vtset":
		items := make([]string, len(e.List))
		for i, n := range e.List {
			items[i] = strconv.Itoa(in.table(n))
		}
		return fmt.Sprintf("TVtSet %s%%Z %s", vhlib.CoqZ(e.Org), vhlib.CoqList(items))
	case "segtmp":
		return "TSegTmp " + vhlib.CoqBool(e.Trunc)
	case "segset":
		return "TSegSet " + in.paths(e.List)
	case "segremove":
		return "TSegRemove"
	case "mmtmp":
		return "TMmTmp"
	case "mmset":
		return "TMmSet " + in.paths(e.List)
	}
	return "TMmRemove"
}

// ---------------------------------------------------------------- oracle

type fail struct {
	Class  string
	Detail string
}

func contains(l []string, x string) bool {
	for _, y := range l {
		if y == x {
			return true
		}
	}
	return false
}

func hasOrg(l []int64, x int64) bool {
	for _, y := range l {
		if y == x {
			return true
		}
	}
	return false
}

func maxOff(s SegSpec) int64 {
	m := int64(math.MinInt64)
	for _, o := range s.Offs {
		if o > m {
			m = o
		}
	}
	return m
}

const olderMax = -1000  // offsets <= this are older than the horizon of every pass of the scenario
const newerMin = 300000 // offsets >= this are newer than the horizon of every pass of the scenario

// segment id -> directory, from the store as the pass process found it
func mapSegments(spec *Spec, pre *Obs) (map[int]string, error) {
	m := map[int]string{}
	type key struct {
		org int64
		tbl string
	}
	byTbl := map[key][]SegEntry{}
	for _, e := range pre.Segmeta {
		k := key{e.Org, e.Table}
		byTbl[k] = append(byTbl[k], e)
	}
	suffix := func(d string) int { n, _ := strconv.Atoi(path.Base(d)); return n }
	for k := range byTbl {
		l := byTbl[k]
		sort.Slice(l, func(i, j int) bool { return suffix(l[i].Dir) < suffix(l[j].Dir) })
	}
	cnt := map[key]int{}
	for _, r := range spec.Rounds {
		for _, s := range r.Segs {
			if s.Kind != "log" {
				continue
			}
			k := key{s.Org, s.Name}
			i := cnt[k]
			cnt[k]++
			if i >= len(byTbl[k]) {
				return nil, fmt.Errorf("segment %d (index %s org %d) has no segmeta.json line after the restart", s.ID, s.Name, s.Org)
			}
			m[s.ID] = byTbl[k][i].Dir
		}
	}
	for k, l := range byTbl {
		if cnt[k] != len(l) {
			return nil, fmt.Errorf("index %s org %d: %d segmeta.json lines for %d ingested segments", k.tbl, k.org, len(l), cnt[k])
		}
	}
	for _, s := range spec.allSegs() {
		if s.Kind != "met" {
			continue
		}
		name := spec.MetNames[strconv.Itoa(s.ID)]
		isLive := false
		for _, l := range spec.Live {
			if l.ID == s.ID {
				isLive = true
			}
		}
		if isLive {
			continue
		}
		found := false
		for _, e := range pre.Mmeta {
			if contains(e.Names, name) {
				m[s.ID] = e.Dir
				found = true
			}
		}
		if !found {
			return nil, fmt.Errorf("metrics segment %d (%s) has no metricmeta.json line", s.ID, name)
		}
	}
	return m, nil
}

func listed(l []SegEntry, d string) bool {
	for _, e := range l {
		if e.Dir == d {
			return true
		}
	}
	return false
}

// the property evaluated on one observed store after a pass for the orgs in passed
// win: the passes behind the observation ran between T0+win[0] and T0+win[1] ms, i.e. their horizons
// lie between hz0+win[0] and hz0+win[1]
func evalObs(spec *Spec, dirOf map[int]string, o *Obs, passed []int64, where string, win [2]int64) []fail {
	var fs []fail
	add := func(c, d string) { fs = append(fs, fail{c, where + ": " + d}) }
	extras := map[int]bool{}
	for _, s := range spec.Extras {
		extras[s.ID] = true
	}
	live := map[int]bool{}
	for _, s := range spec.Live {
		live[s.ID] = true
	}
	known := map[string]bool{}
	// several metrics segments of one round may share a directory: group them
	newestIn := map[string]int64{}
	for _, s := range spec.allSegs() {
		if d, ok := dirOf[s.ID]; ok {
			if v, ok2 := newestIn[d]; !ok2 || maxOff(s) > v {
				newestIn[d] = maxOff(s)
			}
		}
	}
	for _, s := range spec.allSegs() {
		org := strconv.FormatInt(s.Org, 10)
		found := 0
		if s.Kind == "log" {
			for j := range s.Offs {
				if contains(o.Hits[org], fmt.Sprintf("s%de%d", s.ID, j)) {
					found++
				}
			}
		} else {
			found = o.Met[spec.MetNames[strconv.Itoa(s.ID)]]
		}
		all := found >= len(s.Offs)
		if s.Kind == "met" {
			all = found > 0 // datapoints closer than the query's step are merged
		}
		desc := fmt.Sprintf("%s segment %d (%s, org %d, event offsets to the horizon %v ms)", s.Kind, s.ID, s.Name, s.Org, s.Offs)
		if extras[s.ID] || live[s.ID] {
			if !all {
				add("survivor_not_searchable", "unrotated "+desc+fmt.Sprintf(": %d of %d events returned", found, len(s.Offs)))
			}
			continue
		}
		d := dirOf[s.ID]
		known[d] = true
		gone := !contains(o.Dirs, d)
		var isListed bool
		if s.Kind == "log" {
			isListed = listed(o.Segmeta, d)
		} else {
			isListed = listed(o.Mmeta, d)
		}
		newest := newestIn[d]
		inScope := hasOrg(passed, s.Org)
		margin := int64(0)
		if s.Kind == "met" {
			margin = 1000 // seconds resolution
		}
		isOlder := newest < win[0]-margin
		isNewer := newest > win[1]+margin
		if inScope && isOlder && !gone {
			add("retention_kept_expired", desc+" dir "+d+" still exists")
			if s.Kind == "log" && collidesWithLayout(s.Name) {
				add("expired_segment_of_index_named_like_the_data_layout_left_on_disk", desc+fmt.Sprintf(" dir %s still exists with its files; listed in segmeta.json=%v, known to the in-memory metadata=%v", d, isListed, contains(o.Mem, d)))
			}
		}
		if isNewer && gone {
			add("retention_deleted_newer", desc+" dir "+d+" was removed")
			if s.Kind == "log" && collidesWithLayout(s.Name) {
				add("newer_segment_of_index_named_like_the_data_layout_removed", desc+" dir "+d+" was removed")
			}
		}
		if !inScope && gone {
			add("retention_deleted_other_org", desc+" dir "+d+" was removed by a pass for orgs "+fmt.Sprint(passed))
		}
		if gone == isListed {
			add("metadata_mismatch", desc+fmt.Sprintf(" dir %s: directory exists=%v, listed in metadata file=%v", d, !gone, isListed))
		}
		if !gone && !all {
			add("survivor_not_searchable", desc+fmt.Sprintf(" dir %s: %d of %d events returned", d, found, len(s.Offs)))
		}
		if gone && found > 0 {
			add("deleted_still_searchable", desc+fmt.Sprintf(" dir %s removed but %d events returned", d, found))
		}
		if s.Kind == "log" {
			// what the query side is handed for the index (FilterSegmentsByTime over all time, GetAllColNames)
			enumerated := contains(enumeratedAllTime(o, s.Name, s.Org), d)
			if gone && enumerated {
				add("deleted_segment_still_enumerated_for_queries", desc+fmt.Sprintf(" dir %s removed, but a query over index %s (org %d, all time) is still handed the segment; segments of the index with the same newest timestamp: %v", d, s.Name, s.Org, tiedWith(spec, s)))
			}
			if !gone && isListed && !enumerated {
				add("survivor_not_enumerated_for_queries", desc+fmt.Sprintf(" dir %s exists and is listed, but a query over index %s (org %d, all time) is not handed the segment", d, s.Name, s.Org))
			}
			if mk := fmt.Sprintf("k%d", s.ID); gone && contains(o.Cols[s.Name], mk) {
				add("deleted_segment_columns_still_reported", desc+fmt.Sprintf(" dir %s removed, but column %s, which only its events had, is still reported for index %s", d, mk, s.Name))
			}
		}
	}
	for _, e := range o.Segmeta {
		if !known[e.Dir] {
			add("metadata_mismatch", "segmeta.json lists "+e.Dir+" which is no ingested segment")
		}
	}
	for _, e := range o.Mmeta {
		if !known[e.Dir] {
			add("metadata_mismatch", "metricmeta.json lists "+e.Dir+" which is no ingested segment")
		}
	}
	for _, org := range spec.Orgs {
		k := strconv.FormatInt(org, 10)
		if o.Count[k] != len(o.Hits[k]) {
			add("stats_count_differs_from_hits", fmt.Sprintf("org %s: stats count=%d, * returns %d events", k, o.Count[k], len(o.Hits[k])))
		}
	}
	for _, e := range o.Errs {
		add("query_error_after_pass", e)
	}
	return fs
}

// ids of the other rotated log segments of the same index (any org) whose newest event has the same timestamp
func tiedWith(spec *Spec, s SegSpec) []int {
	out := []int{}
	for _, rd := range spec.Rounds {
		for _, t := range rd.Segs {
			if t.Kind == "log" && t.Name == s.Name && t.ID != s.ID && maxOff(t) == maxOff(s) {
				out = append(out, t.ID)
			}
		}
	}
	return out
}

func dirsOfEntries(l []SegEntry) []string {
	var out []string
	for _, e := range l {
		out = append(out, e.Dir)
	}
	return out
}

func sameStrs(a, b []string) bool {
	if len(a) != len(b) {
		return false
	}
	for i := range a {
		if a[i] != b[i] {
			return false
		}
	}
	return true
}

func sortedCopy(a []string) []string {
	b := append([]string{}, a...)
	sort.Strings(b)
	return b
}

func diffStrs(a, b []string) string {
	var only []string
	for _, x := range a {
		if !contains(b, x) {
			only = append(only, "-"+x)
		}
	}
	for _, x := range b {
		if !contains(a, x) {
			only = append(only, "+"+x)
		}
	}
	if len(only) > 8 {
		only = only[:8]
	}
	return strings.Join(only, " ")
}

// differences between two outcomes; prefix = class prefix
func compareObs(prefix string, ref, o *Obs, where string, ordered bool) []fail {
	var fs []fail
	add := func(c, d string) { fs = append(fs, fail{prefix + c, where + ": " + d}) }
	a, b := dirsOfEntries(ref.Segmeta), dirsOfEntries(o.Segmeta)
	if !ordered {
		a, b = sortedCopy(a), sortedCopy(b)
	}
	if !sameStrs(a, b) {
		add("_segmeta", "segmeta.json lines differ: "+diffStrs(a, b))
	}
	if !sameStrs(dirsOfEntries(ref.Mmeta), dirsOfEntries(o.Mmeta)) {
		add("_mmeta", "metricmeta.json lines differ: "+diffStrs(dirsOfEntries(ref.Mmeta), dirsOfEntries(o.Mmeta)))
	}
	if !sameStrs(ref.Dirs, o.Dirs) {
		add("_dirs", "directories differ: "+diffStrs(ref.Dirs, o.Dirs))
	}
	for org, h := range ref.Hits {
		if !sameStrs(h, o.Hits[org]) {
			add("_search", "events returned for org "+org+" differ: "+diffStrs(h, o.Hits[org]))
		}
		if !sameStrs(ref.Vt[org], o.Vt[org]) {
			add("_vtables", "index names of org "+org+" differ: "+diffStrs(ref.Vt[org], o.Vt[org]))
		}
	}
	for _, e := range ref.Enum {
		if e.Lo != 0 || e.Hi != allTimeHi {
			continue
		}
		if got := enumeratedAllTime(o, e.Table, e.Org); !sameStrs(e.Keys, got) {
			add("_enumeration", fmt.Sprintf("segments handed to a query over index %s (org %d, all time) differ: %s", e.Table, e.Org, diffStrs(e.Keys, got)))
		}
	}
	for n, c := range ref.Met {
		if (c > 0) != (o.Met[n] > 0) {
			add("_metrics_search", fmt.Sprintf("metric %s: %d datapoints vs %d", n, c, o.Met[n]))
		}
	}
	return fs
}

// ---------------------------------------------------------------- generator

var olderOffs = []int64{-7200000, -3600000, -600000, -60000, -1000}
var newerOffs = []int64{300000, 600000, 3600000, 86400000}

func genOffs(r *vhlib.Rng, class int) []int64 {
	n := r.Range(1, 3)
	offs := make([]int64, 0, n)
	for j := 0; j < n; j++ {
		switch class {
		case 0: // everything older than the horizon
			offs = append(offs, vhlib.Pick(r, olderOffs)-int64(j)*1000)
		case 1: // everything newer
			offs = append(offs, vhlib.Pick(r, newerOffs)+int64(j)*1000)
		default: // oldest event older, newest event newer
			if j == 0 {
				offs = append(offs, vhlib.Pick(r, olderOffs))
			} else {
				offs = append(offs, vhlib.Pick(r, newerOffs)+int64(j)*1000)
			}
		}
	}
	if class == 2 && n == 1 {
		offs = append(offs, vhlib.Pick(r, newerOffs))
	}
	return offs
}

// ties: the newest events of the segments of one index share one timestamp per age class (a batch
// stamped with one time, replayed data), so their LatestEpochMS are equal: the sort key of the
// in-memory slices does not identify a segment
func tieOffs(offs []int64, class int, tieOld, tieNew int64) []int64 {
	out := make([]int64, len(offs))
	switch class {
	case 0:
		for j := range offs {
			out[j] = tieOld - int64(j)*1000
		}
	case 1:
		for j := range offs {
			out[j] = tieNew - int64(j)*1000
		}
	default:
		out[0] = offs[0]
		for j := 1; j < len(offs); j++ {
			out[j] = tieNew - int64(j-1)*1000
		}
	}
	return out
}

func genSpec(r *vhlib.Rng, kind string, withMetrics, multiOrg bool) *Spec {
	return genSpecT(r, kind, withMetrics, multiOrg, false)
}

func genSpecT(r *vhlib.Rng, kind string, withMetrics, multiOrg, ties bool) *Spec {
	s := &Spec{Kind: kind, Hours: vhlib.Pick(r, []int{1, 24, 360, 720}), PassOrgs: []int64{0}, Orgs: []int64{0}, Ties: ties}
	if multiOrg {
		s.Orgs = []int64{0, 1}
		switch r.Intn(5) {
		case 0, 1:
			s.PassOrgs = []int64{0}
		case 2, 3:
			s.PassOrgs = []int64{1}
		default:
			s.PassOrgs = []int64{0, 1}
		}
	}
	id := 0
	nrounds := r.Range(2, 3)
	indexes := []string{"ixa", "ixb", "ixc"}
	tieOld, tieNew, orgBase := map[string]int64{}, map[string]int64{}, map[string]int{}
	pIndex := 65
	if ties {
		nrounds = r.Range(3, 4)
		pIndex = 85
		for _, ix := range append([]string{"m"}, indexes...) {
			tieOld[ix] = vhlib.Pick(r, olderOffs)
			tieNew[ix] = vhlib.Pick(r, newerOffs[1:])
			orgBase[ix] = r.Intn(2)
		}
	}
	class := func() int {
		if ties && r.Chance(45) {
			return 0 // more expired segments: only those are deleted one by one
		}
		return r.Intn(3)
	}
	for ri := 0; ri < nrounds; ri++ {
		rd := Round{Rotate: true}
		if ri == nrounds-1 && r.Chance(40) && !multiOrg {
			rd.Rotate = false // found unrotated by the next process, which rotates it
		}
		for _, ix := range indexes {
			if !r.Chance(pIndex) {
				continue
			}
			id++
			org := int64(0)
			if multiOrg && r.Chance(45) {
				org = 1
			}
			cl := class()
			offs := genOffs(r, cl)
			if ties {
				offs = tieOffs(offs, cl, tieOld[ix], tieNew[ix])
				if multiOrg {
					// the same index name in both orgs, round by round: one table slice holds tied segments of
					// both orgs and a pass for one org removes some of them only
					org = int64((ri + orgBase[ix]) % 2)
				}
			}
			rd.Segs = append(rd.Segs, SegSpec{ID: id, Kind: "log", Name: ix, Org: org, Offs: offs})
		}
		if withMetrics {
			for k := 0; k < r.Range(1, 2); k++ {
				id++
				cl := class()
				offs := genOffs(r, cl)
				if ties {
					offs = tieOffs(offs, cl, tieOld["m"], tieNew["m"])
				}
				for i := range offs {
					offs[i] = offs[i] / 1000 * 1000
				}
				rd.Segs = append(rd.Segs, SegSpec{ID: id, Kind: "met", Name: "m", Org: 0, Offs: offs})
			}
		}
		s.Rounds = append(s.Rounds, rd)
	}
	if multiOrg {
		// both orgs own an expired rotated segment, so a pass for one org has something to leave alone
		for _, org := range []int64{0, 1} {
			has := false
			for _, rd := range s.Rounds {
				for _, sg := range rd.Segs {
					if sg.Kind == "log" && sg.Org == org && maxOff(sg) <= olderMax {
						has = true
					}
				}
			}
			if !has {
				id++
				s.Rounds[0].Segs = append(s.Rounds[0].Segs, SegSpec{ID: id, Kind: "log", Name: fmt.Sprintf("ixo%d", org), Org: org, Offs: genOffs(r, 0)})
			}
		}
	}
	if kind == "plain" && r.Chance(60) {
		for _, ix := range []string{"ixa", "ixd"} {
			if r.Chance(60) {
				id++
				s.Extras = append(s.Extras, SegSpec{ID: id, Kind: "log", Name: ix, Org: 0, Offs: genOffs(r, r.Intn(3))})
			}
		}
	}
	return s
}

// directed scenarios for mechanisms found by reading the code (kept apart from the main stream)
func genStale(r *vhlib.Rng, loadedExpired bool) *Spec {
	s := &Spec{Kind: "stale_metrics", Hours: 24, PassOrgs: []int64{0}, Orgs: []int64{0}}
	off := int64(600000)
	if loadedExpired {
		off = -7200000 // before the repair the map iteration order decided whether this one left the in-memory metadata before the return
	}
	s.Rounds = []Round{{Rotate: true, Segs: []SegSpec{
		{ID: 1, Kind: "met", Name: "m", Offs: []int64{off}},
		{ID: 2, Kind: "log", Name: "ixa", Offs: []int64{-3600000, 600000}},
	}}}
	// rotated by the pass process itself a moment before the pass: the 5 s metadata refresh has not seen it yet
	s.Stale = []SegSpec{{ID: 3, Kind: "met", Name: "m", Offs: []int64{-3600000}}}
	return s
}

// one expired metrics segment that is alone in its shard: the climb of
// RecursivelyDeleteEmptyParentDirectories removes final/ts/<shard> and final/ts one after the other
func genLonelyMetric(r *vhlib.Rng) *Spec {
	s := &Spec{Kind: "interrupt", Hours: 24, PassOrgs: []int64{0}, Orgs: []int64{0}}
	s.Rounds = []Round{{Rotate: true, Segs: []SegSpec{
		{ID: 1, Kind: "met", Name: "m", Offs: []int64{-7200000}},
		{ID: 2, Kind: "log", Name: "ixa", Offs: []int64{-3600000, 600000}},
	}}}
	return s
}

// The interrupted pass and its repetition see different horizons: segment 3 (rotated last, so its
// line is the tail of segmeta.json) is newer than the horizon while the traced pass runs and has
// expired when the pass is repeated after the restart; segment 2 stays newer.  The repeated pass
// therefore preserves fewer lines than the interrupted one wrote into segmeta.json.tmp.
func genLateExpiry(r *vhlib.Rng, lateOff int64) *Spec {
	s := &Spec{Kind: "late_expiry", Hours: 24, PassOrgs: []int64{0}, Orgs: []int64{0}, LateOff: lateOff}
	s.Rounds = []Round{
		{Rotate: true, Segs: []SegSpec{{ID: 1, Kind: "log", Name: "ixa", Offs: []int64{-7200000}}}},
		{Rotate: true, Segs: []SegSpec{{ID: 2, Kind: "log", Name: "ixb", Offs: []int64{-60000, 3600000}}}},
		{Rotate: true, Segs: []SegSpec{{ID: 3, Kind: "log", Name: "ixc", Offs: []int64{-600000, lateOff}}}},
	}
	return s
}

// the same index name in two orgs, every segment of it expired, one cycle of passes for org 0 and org 1 and
// a second cycle: the name of the org passed first is dropped by the second cycle only (sharedIndexNames)
func genSharedName(r *vhlib.Rng) *Spec {
	s := &Spec{Kind: "plain", Hours: 24, PassOrgs: []int64{0, 1}, Orgs: []int64{0, 1}}
	s.Rounds = []Round{
		{Rotate: true, Segs: []SegSpec{
			{ID: 1, Kind: "log", Name: "ixc", Org: 0, Offs: []int64{-3600000}},
			{ID: 2, Kind: "log", Name: "ixa", Org: 0, Offs: []int64{-600000, 600000}},
		}},
		{Rotate: true, Segs: []SegSpec{
			{ID: 3, Kind: "log", Name: "ixc", Org: 1, Offs: []int64{-3600000}},
			{ID: 4, Kind: "log", Name: "ixb", Org: 1, Offs: []int64{3600000}},
		}},
	}
	return s
}

func genLiveTT(r *vhlib.Rng) *Spec {
	s := &Spec{Kind: "live_tagstree", Hours: 24, PassOrgs: []int64{0}, Orgs: []int64{0}, Refresh: true}
	s.Rounds = []Round{{Rotate: true, Segs: []SegSpec{
		{ID: 2, Kind: "log", Name: "ixa", Offs: []int64{-3600000, 600000}},
	}}}
	// one process: a metrics segment with old datapoints is rotated by size (the tags tree is not rotated
	// with it), the metadata refresh sees it, the shard keeps receiving datapoints, then the pass runs
	s.Stale = []SegSpec{{ID: 1, Kind: "met", Name: "m", Offs: []int64{-7200000}}}
	s.Live = []SegSpec{{ID: 3, Kind: "met", Name: "m", Offs: []int64{600000, 660000}, Mid: 1}}
	return s
}

// ---------------------------------------------------------------- one scenario

type trialRes struct {
	K    int
	A    int
	Pre  *Obs
	Post *Obs
}

type scenarioResult struct {
	Spec     *Spec
	Fails    []fail
	HErr     string
	CoqTerm  string
	NTrials  int
	Deleted  int
	Kept     int
	TraceLen int
	Sample   interface{}
	// index names that a repeated cycle over several orgs dropped because another org's segments had
	// the same index name when the org's own pass ran (see sharedIndexNames)
	SharedNames int
	Counts      []string // histogram keys
	NChecks     int      // number of comparisons the Coq term makes (0: 8 + 4 per interruption point)
}

func chooseBoundaries(r *vhlib.Rng, ops []Op, count []int, hostRoot string, targets []string, thorough bool) []int {
	n := len(ops)
	if thorough || n <= 14 {
		ks := make([]int, 0, n+1)
		for k := 0; k <= n; k++ {
			ks = append(ks, k)
		}
		return ks
	}
	pick := map[int]bool{0: true, n: true}
	// every boundary next to a model-level effect or an operation outside the segment directories
	for i, o := range ops {
		structural := (i == 0 && count[i] > 0) || (i > 0 && count[i] != count[i-1])
		if !strings.HasPrefix(o.Path, hostRoot) || !insideStrict(targets, rel(hostRoot, o.Path)) {
			structural = true
		}
		if structural {
			pick[i] = true
			pick[i+1] = true
		}
	}
	for j := 0; j < 3; j++ {
		pick[r.Intn(n+1)] = true
	}
	var ks []int
	for k := range pick {
		ks = append(ks, k)
	}
	sort.Ints(ks)
	const maxTrials = 18
	for len(ks) > maxTrials {
		i := 1 + r.Intn(len(ks)-2)
		ks = append(ks[:i], ks[i+1:]...)
	}
	return ks
}

func runScenario(idx int, spec *Spec, r *vhlib.Rng, cfg vhlib.Config) *scenarioResult {
	res := &scenarioResult{Spec: spec}
	scDir := filepath.Join(cfg.Out, fmt.Sprintf("sc%03d", idx))
	_ = os.MkdirAll(scDir, 0o755)
	data := filepath.Join(scDir, "d")
	if spec.DataSub != "" {
		data = filepath.Join(scDir, spec.DataSub)
	}
	_ = os.RemoveAll(data)
	_ = os.RemoveAll(filepath.Join(scDir, "snap"))
	spec.Dir = data
	spec.T0 = time.Now().UnixMilli()
	herr := func(f string, a ...interface{}) *scenarioResult {
		res.HErr = fmt.Sprintf("scenario %d (%s): ", idx, spec.Kind) + fmt.Sprintf(f, a...)
		return res
	}
	if spec.Zone != "" {
		if err := spec.fixZoneHours(r); err != nil {
			return herr("%v", err)
		}
	}
	// build
	spec.Phase = "build"
	bo, err := runWorker(spec, scDir, "build", "")
	if err != nil {
		return herr("%v", err)
	}
	spec.MetNames = bo.MetNames
	// a restarted process adds the segment directories it finds unlisted to segmeta.json (start-up
	// synchronisation); let that happen before the store is copied
	spec.Phase = "settle"
	if _, err := runWorker(spec, scDir, "look", ""); err != nil {
		return herr("%v", err)
	}
	late := spec.Kind == "late_expiry"
	interrupt := spec.Kind == "interrupt" || late
	snap := filepath.Join(scDir, "snap")
	if interrupt {
		if err := copyTree(data, snap); err != nil {
			return herr("snapshot: %v", err)
		}
	}
	// reference: restart, pass, pass
	spec.Phase = "pass"
	tracePath := ""
	if interrupt {
		tracePath = filepath.Join(scDir, "trace.txt")
	}
	if late {
		spec.PassBefore = spec.LateOff - 2000 // the traced pass runs while the late segment is still newer than the horizon
	}
	ref, err := runWorker(spec, scDir, "pass", tracePath)
	if err != nil {
		return herr("%v", err)
	}
	if late {
		spec.PassBefore, spec.PassAfter = 0, spec.LateOff+1500 // every pass after an interruption runs when it has expired
	}
	for id, n := range ref.MetNames {
		if spec.MetNames == nil {
			spec.MetNames = map[string]string{}
		}
		spec.MetNames[id] = n
	}
	if len(ref.Obs) < 3 {
		return herr("pass worker returned %d observations", len(ref.Obs))
	}
	pre, post, post2 := &ref.Obs[0], &ref.Obs[1], &ref.Obs[2]
	dirOf, err := mapSegments(spec, pre)
	if err != nil {
		return herr("%v", err)
	}
	if len(pre.Errs) > 0 {
		return herr("queries fail before the pass: %v", pre.Errs)
	}
	// before the pass everything ingested must be searchable (otherwise the scenario says nothing)
	refWin := [2]int64{ref.Tb - spec.T0, ref.Ta - spec.T0}
	for _, f := range evalObs(spec, dirOf, pre, nil, "before the pass", refWin) {
		if f.Class == "survivor_not_searchable" || f.Class == "metadata_mismatch" {
			if spec.Kind == "stale_metrics" || spec.Kind == "live_tagstree" {
				continue
			}
			return herr("store not as expected before the pass: %s", f.Detail)
		}
	}
	res.Fails = append(res.Fails, evalObs(spec, dirOf, post, spec.PassOrgs, "after the pass", refWin)...)
	res.Fails = append(res.Fails, evalObs(spec, dirOf, post2, spec.PassOrgs, "after the repeated pass", refWin)...)
	res.Fails = append(res.Fails, zoneFails(spec, dirOf, post, refWin, "after the pass")...)
	res.Fails = append(res.Fails, sharedIndexNames(spec, pre, post, post2, res,
		compareObs("repeat_differs", post, post2, "second pass in the same process", true))...)
	if spec.Kind == "live_tagstree" && len(ref.Obs) == 4 {
		o4 := &ref.Obs[3]
		for _, l := range spec.Live {
			name := spec.MetNames[strconv.Itoa(l.ID)]
			if o4.Met[name] == 0 {
				res.Fails = append(res.Fails, fail{"survivor_not_searchable", fmt.Sprintf("after the pass removed tags-tree directory %s the series %s that was still being written there is rotated and returns no datapoint (errors: %v)", ref.Obs[0].Mmeta[0].TT, name, o4.Errs)})
			}
		}
	}
	if directed := map[string]string{"stale_metrics": "metrics_pass_aborts_when_a_selected_segment_is_not_in_memory"}[spec.Kind]; directed != "" && len(res.Fails) > 0 {
		cl := map[string]bool{}
		var names []string
		for _, f := range res.Fails {
			if !cl[f.Class] {
				cl[f.Class] = true
				names = append(names, f.Class)
			}
		}
		res.Fails = []fail{{directed, "consequences: " + strings.Join(names, ", ") + "; first: " + res.Fails[0].Detail}}
	}
	if spec.DataSub != "" && len(res.Fails) > 0 && dataPathFinalSignature(post) {
		// directed scenario (paths.go): the consequences of one mechanism under one class; anything else is reported as it is
		cl := map[string]bool{}
		var names []string
		for _, f := range res.Fails {
			if !cl[f.Class] {
				cl[f.Class] = true
				names = append(names, f.Class)
			}
		}
		first := res.Fails[0].Detail
		for _, f := range res.Fails {
			if f.Class == "retention_deleted_newer" {
				first = f.Detail
				break
			}
		}
		res.Fails = []fail{{"pass_under_a_data_path_with_a_directory_called_final_removes_every_segment",
			fmt.Sprintf("data path %s/: the pass removed the host's whole final/ directory (directories below it after the pass: %v); consequences: %s; first: %s", spec.DataSub, post.Dirs, strings.Join(names, ", "), first)}}
	}
	if ref.Ta-spec.T0 > newerMin-60000 {
		return herr("scenario took %d ms: event times no longer unambiguous", ref.Ta-spec.T0)
	}
	for _, s := range spec.allSegs() {
		if d, ok := dirOf[s.ID]; ok {
			if contains(post.Dirs, d) {
				res.Kept++
			} else {
				res.Deleted++
			}
		}
	}
	// files below ts/ and tth/ only inside segment / tags-tree directories (assumption of the model's IsDirEmpty)
	targets := targetsOf(pre)
	for _, d := range pre.FileDirs {
		if (strings.HasPrefix(d, "final/ts") || strings.HasPrefix(d, "final/tth")) && !contains(targets, d) && !insideStrict(targets, d) {
			isLiveTT := spec.Kind == "live_tagstree" || spec.Kind == "stale_metrics"
			if !isLiveTT {
				return herr("regular files in %s which is no segment or tags-tree directory of a metadata line", d)
			}
		}
	}
	in := &interner{ids: map[string]int{}}
	// unrotated log segments written by the pass process itself: directories with files below an
	// index directory that no metadata line names (their sub-directories are internal)
	var unrot []string
	for _, d := range pre.FileDirs {
		if strings.HasPrefix(d, "final/") && !strings.HasPrefix(d, "final/ts") && !strings.HasPrefix(d, "final/tth") && !contains(targets, d) && !insideStrict(targets, d) {
			unrot = append(unrot, d)
		}
	}
	{
		var top []string
		for _, d := range unrot {
			if !insideStrict(unrot, d) {
				top = append(top, d)
			}
		}
		unrot = top
	}
	targets = append(targets, unrot...)
	var teffs []TEff
	var order []string
	var norder []string
	var trials []trialRes
	hostRoot := ref.HostRoot
	if interrupt {
		ops, err := parseTrace(tracePath, data)
		if err != nil {
			return herr("trace: %v", err)
		}
		res.TraceLen = len(ops)
		var count []int
		teffs, count = abstractTrace(ops, hostRoot, targets)
		cur := map[int64][]string{}
		for o, l := range pre.Vt {
			n, _ := strconv.ParseInt(o, 10, 64)
			cur[n] = l
		}
		for _, e := range teffs {
			if e.Kind == "rm" {
				order = append(order, e.Path)
			}
			if e.Kind == "vtset" {
				for _, n := range cur[e.Org] {
					if !contains(e.List, n) && !contains(norder, n) {
						norder = append(norder, n)
					}
				}
				cur[e.Org] = e.List
			}
		}
		// a names file rewritten with nothing left shows no write call
		for i, e := range teffs {
			if e.Kind == "vttrunc" && (i+1 >= len(teffs) || teffs[i+1].Kind != "vtset") {
				for _, n := range cur[e.Org] {
					if !contains(norder, n) {
						norder = append(norder, n)
					}
				}
				cur[e.Org] = nil
			}
		}
		ks := chooseBoundaries(r, ops, count, hostRoot, targets, cfg.Thorough() || late)
		var lateRef *Obs // late_expiry: outcome of the late pass on the store that was not interrupted (k = 0)
		for _, k := range ks {
			if err := copyTree(snap, data); err != nil {
				return herr("restore: %v", err)
			}
			rp := newReplayer()
			for i := 0; i < k; i++ {
				if err := rp.apply(ops[i]); err != nil {
					return herr("replay of operation %d (%s %s): %v", i, ops[i].Kind, ops[i].Path, err)
				}
			}
			to, err := runWorker(spec, scDir, fmt.Sprintf("trial%04d", k), "")
			if err != nil {
				res.Fails = append(res.Fails, fail{"interrupt_restart_fails", fmt.Sprintf("pass stopped after %d of %d file operations (last: %s), then restart: %v", k, len(ops), opDesc(ops, k), err)})
				continue
			}
			if len(to.Obs) != 3 {
				return herr("trial worker returned %d observations", len(to.Obs))
			}
			where := fmt.Sprintf("pass stopped after %d of %d file operations (last: %s), process restarted, full pass", k, len(ops), opDesc(ops, k))
			tpost := &to.Obs[1]
			tWin := [2]int64{to.Tb - spec.T0, to.Ta - spec.T0}
			if tWin[1] > newerMin-1000 {
				return herr("scenario took %d ms: event times no longer unambiguous", tWin[1])
			}
			cmpRef := post
			if late {
				if k == 0 {
					lateRef = tpost
				}
				if lateRef == nil {
					return herr("late_expiry: no outcome of the uninterrupted late pass")
				}
				cmpRef = lateRef
			}
			tf := evalObs(spec, dirOf, tpost, spec.PassOrgs, where, tWin)
			tf = append(tf, compareObs("interrupt_repeat_differs", cmpRef, tpost, where, false)...)
			if late {
				// what a further start finds: the metadata file is read back, every listed segment must have its files
				lspec := *spec
				lspec.Phase = "settle"
				if lo, err := runWorker(&lspec, scDir, "look", ""); err != nil {
					tf = append(tf, fail{"interrupt_restart_fails", where + ", one more restart: " + err.Error()})
				} else if len(lo.Obs) > 0 {
					tf = append(tf, evalObs(spec, dirOf, &lo.Obs[0], spec.PassOrgs, where+", one more restart", tWin)...)
				}
			}
			res.Fails = append(res.Fails, classifyTrial(tf, ops, k, cmpRef, &to.Obs[0], tpost, where)...)
			a := 0
			if k > 0 {
				a = count[k-1]
			}
			trials = append(trials, trialRes{K: k, A: a, Pre: &to.Obs[0], Post: tpost})
			res.NTrials++
			_ = os.Remove(filepath.Join(scDir, fmt.Sprintf("trial%04d.spec.json", k)))
			_ = os.Remove(filepath.Join(scDir, fmt.Sprintf("trial%04d.out.json", k)))
		}
		if os.Getenv("C14_KEEP") == "" {
			_ = os.RemoveAll(snap)
		}
	} else {
		// without a trace: the order in which directories disappeared is unknown and irrelevant
	}
	_ = os.RemoveAll(data)
	var tl []string
	for _, t := range trials {
		tt := targetsOf(t.Pre)
		tl = append(tl, fmt.Sprintf("(%d%%nat, %s,\n    %s)", t.A, coqOutcome(in, t.Pre, append(tt, targets...)), coqOutcome(in, t.Post, append(tt, targets...))))
	}
	var te []string
	for _, e := range teffs {
		te = append(te, coqTEff(in, e))
	}
	var orgs []string
	for _, o := range spec.PassOrgs {
		orgs = append(orgs, vhlib.CoqZ(o)+"%Z")
	}
	traceTerm := vhlib.CoqList(te)
	checker := "check_scenario"
	if !interrupt {
		checker = "check_scenario_notrace"
	}
	storeTerm := coqStore(in, pre, targets, unrot)
	var nol []string
	for _, n := range norder {
		nol = append(nol, strconv.Itoa(in.table(n)))
	}
	hz2 := spec.hz0()
	if late {
		hz2 = spec.hz0() + spec.LateOff + 1000
	}
	var vts []string
	for _, t := range trials {
		vts = append(vts, fmt.Sprintf("(%s,\n    %s,\n    %s)", coqMM(in, t.Pre), coqViews(in, t.Post), coqEnum(in, t.Post)))
	}
	orderTerm := fmt.Sprintf("(%s, %s)", in.paths(order), vhlib.CoqList(nol))
	res.CoqTerm = fmt.Sprintf("let st := %s in\n  let tr := %s in\n  %s st\n  %d %d %s %s\n  %s\n  %s\n  %s\n  tr\n  ++ check_views st %d %d %s %s tr\n  %s\n  %s\n  %s\n  %s\n  %s\n  %s",
		storeTerm, vhlib.CoqListNL(tl), checker, spec.hz0(), hz2, vhlib.CoqList(orgs), orderTerm,
		traceTerm, coqOutcome(in, post, targets), coqOutcome(in, post2, targets),
		spec.hz0(), hz2, vhlib.CoqList(orgs), orderTerm,
		coqMM(in, pre), coqViews(in, post), coqViews(in, post2), coqEnum(in, pre), coqEnum(in, post), vhlib.CoqListNL(vts))
	res.Sample = map[string]interface{}{"kind": spec.Kind, "hours": spec.Hours, "rounds": spec.Rounds, "extras": spec.Extras, "pass_orgs": spec.PassOrgs,
		"deleted": res.Deleted, "kept": res.Kept, "trace_ops": res.TraceLen, "interruption_points": res.NTrials}
	return res
}

// A cycle of passes for several orgs (pass for o1, then for o2) followed by a second cycle: DeleteEmptyIndices
// keeps an index name of the org while ANY org's segmeta.json line uses that name.  When orgs o1 and o2
// both have an index of the same name and all its segments are expired, the pass for o1 keeps the (now
// empty) name because o2's lines still exist, the pass for o2 removes them, and only the next pass for o1
// drops the name.  Every single pass is idempotent on the store it finds; the second pass for o1 runs on a
// store that the pass for o2 has changed.  The model predicts exactly this (the outcome of the repeated
// cycle is compared inside Coq), so such a difference is no failure of "repeated pass, same outcome";
// any other difference of the index names stays one.
func sharedIndexNames(spec *Spec, pre, post, post2 *Obs, res *scenarioResult, fs []fail) []fail {
	hasVt := false
	for _, f := range fs {
		if f.Class == "repeat_differs_vtables" {
			hasVt = true
		}
	}
	if !hasVt || len(spec.PassOrgs) < 2 {
		return fs
	}
	pos := func(org int64) int {
		for i, o := range spec.PassOrgs {
			if o == org {
				return i
			}
		}
		return -1
	}
	n := 0
	for _, org := range spec.Orgs {
		k := strconv.FormatInt(org, 10)
		for _, name := range post2.Vt[k] {
			if !contains(post.Vt[k], name) {
				return fs // a name appeared
			}
		}
		for _, name := range post.Vt[k] {
			if contains(post2.Vt[k], name) {
				continue
			}
			for _, e := range post.Segmeta {
				if e.Table == name {
					return fs // still used after the first cycle
				}
			}
			for _, x := range spec.Extras {
				if x.Name == name {
					return fs
				}
			}
			later := false
			for _, e := range pre.Segmeta {
				if e.Table == name && e.Org != org && pos(e.Org) > pos(org) && pos(org) >= 0 && !listed(post.Segmeta, e.Dir) {
					later = true
				}
			}
			if !later {
				return fs
			}
			n++
		}
	}
	if n == 0 {
		return fs
	}
	res.SharedNames += n
	var out []fail
	for _, f := range fs {
		if f.Class != "repeat_differs_vtables" {
			out = append(out, f)
		}
	}
	return out
}

// failures of an interruption trial that belong to a known mechanism get that mechanism's class
func classifyTrial(fs []fail, ops []Op, k int, ref, pre, o *Obs, where string) []fail {
	if len(fs) == 0 {
		return fs
	}
	if pre.SegTmp {
		// the interrupted pass left segmeta.json.tmp behind and the repeated pass ends with a metadata file
		// that is not the list of survivors: the temporary file was not emptied before it was rewritten
		for _, f := range fs {
			if f.Class == "metadata_mismatch" || f.Class == "interrupt_repeat_differs_segmeta" {
				cl := map[string]bool{}
				var names []string
				for _, g := range fs {
					if !cl[g.Class] {
						cl[g.Class] = true
						names = append(names, g.Class)
					}
				}
				return []fail{{"interrupt_stale_segmeta_tmp_survives", where + ": segmeta.json.tmp of the interrupted pass existed at the restart; consequences: " + strings.Join(names, ", ") + "; first: " + f.Detail}}
			}
		}
	}
	if k > 0 && ops[k-1].Kind == "create" {
		if _, ok := vtOrg(ops[k-1].Path); ok {
			// stopped between the truncation of the index-names file and the write of the remaining names
			cl := map[string]bool{}
			var names []string
			for _, f := range fs {
				if !cl[f.Class] {
					cl[f.Class] = true
					names = append(names, f.Class)
				}
			}
			return []fail{{"interrupt_index_names_file_truncated", where + ": index names file left empty; consequences: " + strings.Join(names, ", ") + "; first: " + fs[0].Detail}}
		}
	}
	var out []fail
	for _, f := range fs {
		if f.Class == "interrupt_repeat_differs_dirs" {
			var extra, missing []string
			for _, d := range o.Dirs {
				if !contains(ref.Dirs, d) {
					extra = append(extra, d)
				}
			}
			for _, d := range ref.Dirs {
				if !contains(o.Dirs, d) {
					missing = append(missing, d)
				}
			}
			allUnder := func(prefix string) bool {
				for _, d := range extra {
					if d != prefix && !strings.HasPrefix(d, prefix+"/") {
						return false
					}
				}
				return len(extra) > 0
			}
			if len(missing) == 0 && allUnder("final/tth") {
				f.Class = "interrupt_tagstree_dirs_left_behind"
			} else if len(missing) == 0 && allUnder("final/ts") {
				empty := true
				for _, d := range extra {
					if contains(o.FileDirs, d) {
						empty = false
					}
				}
				if empty {
					f.Class = "interrupt_empty_metrics_dir_left_behind"
				}
			}
		}
		out = append(out, f)
	}
	return out
}

func sumInts(l []int) int {
	n := 0
	for _, x := range l {
		n += x
	}
	return n
}

func opDesc(ops []Op, k int) string {
	if k == 0 {
		return "none"
	}
	o := ops[k-1]
	p := o.Path
	if i := strings.Index(p, "/d/"); i >= 0 {
		p = p[i+3:]
	}
	if o.Kind == "rename" {
		return "rename " + p + " -> " + path.Base(o.To)
	}
	return o.Kind + " " + p
}

// ---------------------------------------------------------------- main

func main() {
	if len(os.Args) >= 4 && os.Args[1] == "worker" {
		workerMain(os.Args[2], os.Args[3])
		return
	}
	if len(os.Args) >= 4 && os.Args[1] == "trial" {
		// debugging aid: c14 trial <scenario dir kept with C14_KEEP=1> <k>: restore, apply k operations, leave the store in place
		scDir := os.Args[2]
		k, _ := strconv.Atoi(os.Args[3])
		var spec Spec
		b, _ := os.ReadFile(filepath.Join(scDir, "pass.spec.json"))
		_ = json.Unmarshal(b, &spec)
		ops, err := parseTrace(filepath.Join(scDir, "trace.txt"), spec.Dir)
		fmt.Println("ops", len(ops), err)
		_ = copyTree(filepath.Join(scDir, "snap"), spec.Dir)
		rp := newReplayer()
		for i := 0; i < k && i < len(ops); i++ {
			fmt.Println(i, ops[i].Kind, ops[i].Path, ops[i].To, rp.apply(ops[i]))
		}
		return
	}
	log.SetLevel(log.PanicLevel)
	cfg := vhlib.ParseFlags()
	if abs, err := filepath.Abs(cfg.Out); err == nil {
		cfg.Out = abs
	}
	sum := vhlib.NewSummary("one evaluation = one observed store after a retention pass (uninterrupted, repeated, or interrupted at a file-operation boundary + restart + full pass); " +
		"stores of 2-9 log segments (3 indexes, rotated / found unrotated at restart / unrotated) and 0-6 metrics segments with event times " +
		"1 s .. 2 h older and 5 min .. 1 day newer than the horizon, oldest-older/newest-newer mixes, retention 1/24/360/720 h, passes for org 0, 1 or both; " +
		"a second stream of stores whose segments of one index end on the same millisecond (3-4 rounds, same index name in two orgs in every second store); " +
		"observed per store: the three in-memory views (global slice, reverse index, per-index slices), FilterSegmentsByTime over all time and a window, GetAllColNames; " +
		"a third stream in which the pass runs WHILE rotations publish 1-2 log and 1-2 metrics segments in segmeta.json / metricmeta.json (publisher queued behind the pass that waits at its rewrite, " +
		"publication between selection and rewrite, both started together), observed after both finished, after one more pass and after a restart; " +
		"a fourth stream for the clock side: GetRetentionTimeMs on time values of 13 zones (daylight saving on both hemispheres, 30-minute change, half-hour offsets, a skipped day, fixed offsets) " +
		"at instants around every clock change 2012-2030 and with the horizon next to one, retentions 0 h .. 400 days, and the real pass in processes whose local zone has daylight saving " +
		"(retention chosen from the date of the run so that the zone's latest clock change lies inside the window; segments 15 min older / newer than the horizon in every store); " +
		"a fifth stream for names from the vocabulary of the data directory: the real key builder + GetSegBaseDirFromFilename on index names / stream ids / host ids / data paths equal to or containing final, ts, tth, suffix, wal-ts, ingestnodes, ... " +
		"(one function evaluation per key, always counted non-trivial), and the real pass over stores whose indexes carry such names (every index with an expired and a newer segment; one store where only the index called final expires; one store under a data path with a directory called final); " +
		"non-trivial = the pass removed at least one segment and kept at least one; distinct by (scenario, interruption point)")
	r := vhlib.NewRng(cfg.Seed)

	// GetRetentionTimeMs against the model's horizon
	var hc []string
	for i := 0; i < 40; i++ {
		now := int64(1600000000000 + r.U64()%400000000000)
		h := vhlib.Pick(r, []int{0, 1, 2, 24, 360, 720, 2160, r.Intn(100000)})
		got := retention.GetRetentionTimeMs(h, time.UnixMilli(now))
		hc = append(hc, fmt.Sprintf("(%d, %d, %d)", now, h, got))
		if got != uint64(now-int64(h)*3600000) {
			sum.Fail("horizon_formula", fmt.Sprintf("GetRetentionTimeMs(%d h, %d) = %d", h, now, got), map[string]interface{}{"hours": h, "now_ms": now})
		}
	}
	sum.WriteCaseFile(cfg.Out, "c14_horizon", "From SigM Require Import Base Retention RetentionCheck.", "",
		"check_horizon "+vhlib.CoqListNL(hc)+" 0", len(hc))

	nPlain, nInt := 8, 6
	if cfg.Thorough() {
		nPlain, nInt = 150, 80
	}
	var specs []*Spec
	var rngs []*vhlib.Rng
	for i := 0; i < nPlain; i++ {
		specs = append(specs, genSpec(r.Fork(), "plain", i%2 == 0, i%4 == 1))
		rngs = append(rngs, r.Fork())
	}
	for i := 0; i < nInt; i++ {
		specs = append(specs, genSpec(r.Fork(), "interrupt", i%3 != 2, false))
		rngs = append(rngs, r.Fork())
	}
	specs = append(specs, genLateExpiry(r.Fork(), 30000))
	rngs = append(rngs, r.Fork())
	specs = append(specs, genStale(r.Fork(), false), genStale(r.Fork(), true), genLiveTT(r.Fork()), genLonelyMetric(r.Fork()))
	rngs = append(rngs, r.Fork(), r.Fork(), r.Fork(), r.Fork())
	// stores whose segments share their newest timestamp (per index and age class); every second one
	// with the same index names in two orgs and a pass for one of them
	nTiePlain, nTieInt := 4, 1
	if cfg.Thorough() {
		nTiePlain, nTieInt = 40, 12
	}
	for i := 0; i < nTiePlain; i++ {
		specs = append(specs, genSpecT(r.Fork(), "plain", i%4 == 3, i%2 == 0, true))
		rngs = append(rngs, r.Fork())
	}
	for i := 0; i < nTieInt; i++ {
		specs = append(specs, genSpecT(r.Fork(), "interrupt", i%3 == 1, false, true))
		rngs = append(rngs, r.Fork())
	}
	specs = append(specs, genSharedName(r.Fork()))
	rngs = append(rngs, r.Fork())
	// the pass running while the ingest side publishes freshly rotated segments in the two metadata files
	nConc := 6
	if cfg.Thorough() {
		nConc = 60
	}
	for i := 0; i < nConc; i++ {
		specs = append(specs, genConcurrent(r.Fork(), i))
		rngs = append(rngs, r.Fork())
	}
	// the clock side (zone.go): forked after every older stream
	rz := r.Fork()
	horizonZoneStream(rz.Fork(), sum, cfg)
	// both hemispheres (on every date one pair is past its change forward, the other past its change back), the
	// 30-minute change, and a fixed offset that is not UTC (a wall-clock reading taken for an instant is off by 5.5 h there)
	zoneList := []string{"America/New_York", "Europe/Berlin", "Australia/Lord_Howe", "Australia/Sydney", "Asia/Kolkata"}
	if cfg.Thorough() {
		zoneList = append(append(append([]string{}, dstZones...), dstZones...), fixedZones...)
	}
	for i, z := range zoneList {
		specs = append(specs, genZone(rz.Fork(), i, z))
		rngs = append(rngs, rz.Fork())
	}
	// names from the vocabulary of the data directory (paths.go): forked after every older stream
	rp := r.Fork()
	segDirStream(rp.Fork(), sum, cfg)
	nCollide := 3
	if cfg.Thorough() {
		nCollide = 40
	}
	for i := 0; i < nCollide; i++ {
		specs = append(specs, genCollide(rp.Fork(), i))
		rngs = append(rngs, rp.Fork())
	}
	specs = append(specs, genDataPathFinal(rp.Fork()))
	rngs = append(rngs, rp.Fork())
	if os.Getenv("C14_ONLY") == "collide" {
		var ks []*Spec
		var kr []*vhlib.Rng
		for i := range specs {
			if specs[i].Collide || specs[i].DataSub != "" {
				ks, kr = append(ks, specs[i]), append(kr, rngs[i])
			}
		}
		specs, rngs = ks, kr
	} else if only := os.Getenv("C14_ONLY"); only != "" {
		// debugging aid: run the scenarios of one kind only (the specs themselves do not change)
		var ks []*Spec
		var kr []*vhlib.Rng
		for i := range specs {
			if specs[i].Kind == only {
				ks, kr = append(ks, specs[i]), append(kr, rngs[i])
			}
		}
		specs, rngs = ks, kr
	}
	results := make([]*scenarioResult, len(specs))
	var wg sync.WaitGroup
	sem := make(chan struct{}, 8)
	for i := range specs {
		wg.Add(1)
		go func(i int) {
			defer wg.Done()
			sem <- struct{}{}
			defer func() { <-sem }()
			if specs[i].Kind == "concurrent" {
				results[i] = runConcurrentScenario(i, specs[i], rngs[i], cfg)
				return
			}
			results[i] = runScenario(i, specs[i], rngs[i], cfg)
			if results[i].HErr != "" && specs[i].Kind == "late_expiry" && strings.Contains(results[i].HErr, "late_expiry timing") {
				// the machine was too slow for the short schedule: once more with a long one
				specs[i] = genLateExpiry(rngs[i], 150000)
				results[i] = runScenario(i, specs[i], rngs[i], cfg)
			}
		}(i)
	}
	wg.Wait()

	var terms []string
	var termChecks []int
	for i, res := range results {
		if res.HErr != "" {
			sum.HarnessError(res.HErr)
			continue
		}
		sum.Count("scenario_" + res.Spec.Kind)
		for _, c := range res.Counts {
			sum.Count(c)
		}
		if res.Spec.Ties {
			sum.Count("scenario_with_tied_newest_timestamps")
		}
		if res.Spec.Collide {
			sum.Count("scenario_with_index_names_from_the_data_layout")
			seenIx := map[string]bool{}
			for _, sg := range res.Spec.allSegs() {
				if !seenIx[sg.Name] && collidesWithLayout(sg.Name) {
					seenIx[sg.Name] = true
					sum.Count("index_named_" + sg.Name)
				}
			}
		}
		for k := 0; k < res.SharedNames; k++ {
			sum.Count("empty_index_name_shared_with_a_later_org_dropped_by_the_next_cycle")
		}
		{
			// groups of rotated log segments of one index that end on the same millisecond
			groups := map[string]int{}
			for _, rd := range res.Spec.Rounds {
				for _, sg := range rd.Segs {
					if sg.Kind == "log" {
						groups[fmt.Sprintf("%s/%d", sg.Name, maxOff(sg))]++
					}
				}
			}
			for _, n := range groups {
				if n >= 2 {
					sum.Count("tied_latest_group_in_one_index")
				}
			}
		}
		if res.Spec.Zone != "" {
			// the retention depends on the date of the run
			sum.Count("scenario_in_zone_" + res.Spec.Zone)
			if res.Spec.ZoneOffNow != res.Spec.ZoneOffThen {
				sum.Count("pass_with_a_clock_change_of_the_server_zone_inside_the_retention_window")
				if res.Spec.ZoneOffNow > res.Spec.ZoneOffThen {
					sum.Count("pass_after_clocks_went_forward")
				} else {
					sum.Count("pass_after_clocks_went_back")
				}
			}
		} else {
			sum.Count(fmt.Sprintf("retention_hours_%d", res.Spec.Hours))
		}
		nontrivial := res.Deleted > 0 && res.Kept > 0
		sum.Eval(fmt.Sprintf("sc%d", i), nontrivial)
		sum.Eval(fmt.Sprintf("sc%d-repeat", i), nontrivial)
		for t := 0; t < res.NTrials; t++ {
			sum.Eval(fmt.Sprintf("sc%d-k%d", i, t), nontrivial)
			sum.Count("interruption_points")
		}
		for _, s := range res.Spec.allSegs() {
			c := "newer"
			if maxOff(s) <= olderMax {
				c = "expired"
			} else if len(s.Offs) > 1 && s.Offs[0] <= olderMax {
				c = "straddling"
			}
			sum.Count(s.Kind + "_segment_" + c)
		}
		sum.Sample(res.Sample)
		seen := map[string]bool{}
		for _, f := range res.Fails {
			if seen[f.Class] {
				continue
			}
			seen[f.Class] = true
			sum.Fail(f.Class, f.Detail, map[string]interface{}{"scenario": i, "spec": res.Spec})
		}
		if !res.Spec.NoModel {
			terms = append(terms, fmt.Sprintf("tag %d (%s)", i, res.CoqTerm))
			if res.NChecks > 0 {
				termChecks = append(termChecks, res.NChecks)
				continue
			}
			termChecks = append(termChecks, 8+4*res.NTrials) // wf, pass, repeated pass, trace, in-memory views (before, after, repeated, enumerations), per interruption point: restart state and outcome, views after restart and after the pass
		}
	}
	// shard the case files: at most 6 scenarios and ~60 KB per file (coqc's parser recurses on the term)
	fileNo := 0
	for i := 0; i < len(terms); {
		j, size := i, 0
		for j < len(terms) && j-i < 6 && (j == i || size+len(terms[j]) < 60000) {
			size += len(terms[j])
			j++
		}
		sum.WriteCaseFile(cfg.Out, fmt.Sprintf("c14_cases_%03d", fileNo), "From SigM Require Import Base Retention RetentionCheck.", "",
			strings.Join(terms[i:j], "\n ++ "), sumInts(termChecks[i:j]))
		fileNo++
		i = j
	}
	sum.Write(cfg.Out)
}

// paths.go: names that collide with the vocabulary of the data directory (coq/model/RetentionPaths.v).
//
// The pass does not remove "the directory of the line": it removes what utils.GetSegBaseDirFromFilename makes of
// the line's segment key, a string built from the data path, the host id, the literal "/final/", the index name,
// the stream id and the segment number.  Index names are chosen by clients (any safe path component), the data
// path and the instance name by the operator: they may be equal to, or contain, the words of the layout (final,
// ts, tth, suffix, wal-ts, ingestnodes, querynodes, ...).  A check whose indexes are called ixa, ixb, ixc can
// never see a helper that is confused by such a name.  Two streams:
//
//   - segDirStream: the real key builder (config.GetSegKey / GetBaseSegDir under data paths and host ids set
//     through the configuration's setters) and the real GetSegBaseDirFromFilename on every key, for index names /
//     stream ids / host ids from the layout vocabulary, names that contain those words, names with dots and
//     dashes, and random safe components.  Oracle: the helper returns the directory the writer created.
//     Correspondence: the model of the key builder and of the helper (RetentionCheck.check_segdir_cases); arbitrary
//     file names (no key at all) tie the error returns (check_segdir_raw).
//   - collide scenarios (genCollide): the real DoRetentionBasedDeletion over stores whose indexes carry such
//     names, every index with an expired and a newer rotated segment; one store in which ONLY the index called
//     final has something expired (removeSegmetas rewrites segmeta.json only if it can name a directory).
package main

import (
	"fmt"
	"strings"

	"github.com/siglens/siglens/pkg/config"
	sutilsx "github.com/siglens/siglens/pkg/utils"

	"verifharness/vhlib"
)

// the words of the directory layout below the data path
var layoutWords = []string{"final", "ts", "tth", "suffix", "wal-ts", "ingestnodes", "querynodes", "common", "pqsmeta", "vtabledata", "wal"}

// index names equal to / containing a layout word, with dots and dashes, numerals (a segment number, a stream id)
var collideNames = []string{
	"final", "ts", "tth", "suffix", "wal-ts", "ingestnodes", "querynodes",
	"finalfinal", "final.final", "x-final", "final-1", "final.", "xfinalx", "ts.1", "tth-0", "0", "10-0-222", "a.b-c_d", "suffix.suffix",
}

func collidesWithLayout(name string) bool {
	// a numeral: what segment numbers (and the parts of stream ids) look like
	if name != "" && strings.Trim(name, "0123456789") == "" {
		return true
	}
	for _, w := range layoutWords {
		if strings.Contains(name, w) {
			return true
		}
	}
	return false
}

func randSafeName(r *vhlib.Rng) string {
	const al = "abcdefghijklmnopqrstuvwxyz0123456789.-_"
	var sb strings.Builder
	n := r.Range(1, 12)
	for i := 0; i < n; i++ {
		switch r.Intn(8) {
		case 0:
			sb.WriteString(vhlib.Pick(r, layoutWords))
		default:
			sb.WriteByte(al[r.Intn(len(al))])
		}
	}
	s := sb.String()
	if s == "." || s == ".." {
		return "x" + s
	}
	return s
}

func firstFinalIsTheBuilders(data, host string) bool {
	root := data + host
	return strings.Index(root+"/final/", "/final/") == len(root)
}

func segDirStream(r *vhlib.Rng, sum *vhlib.Summary, cfg vhlib.Config) {
	oldData, oldHost := config.GetDataPath(), config.GetHostID()
	defer func() { config.SetDataPath(oldData); config.SetHostIDForTestOnly(oldHost) }()
	n := 240
	if cfg.Thorough() {
		n = 6000
	}
	datas := []string{"/data/", "data/", "/var/lib/siglens/", "/mnt/finals/x/", "/x.final/d/", "/srv/final-store/", "/ts/tth/", "/a/finale/", "/"}
	hosts := []string{"h.test-uuid", "node-1.0f3a", "final.7", "x-final.ab", "ts.3", "a.final", "suffix.1"}
	// roots that contain a directory called final themselves (the guard of C14_segment_dir_of_key_guarded is false):
	// a class of their own, evaluated apart
	badDatas := []string{"/final/x/", "/mnt/final/siglens/", "/a/final/"}
	sids := []string{"10-0-222", "0-0-1", "final", "18446744073709551615-0-3", "ts", "7"}
	var cases, raws, keyCases []string
	for i := 0; i < n; i++ {
		data, host := vhlib.Pick(r, datas), vhlib.Pick(r, hosts)
		bad := false
		if i%12 == 11 {
			// (a host id is <hostname>.<node id>: it cannot be the bare word)
			data, bad = vhlib.Pick(r, badDatas), true
		}
		var ix string
		switch {
		case i < len(collideNames):
			ix = collideNames[i]
		case r.Chance(50):
			ix = vhlib.Pick(r, collideNames)
		default:
			ix = randSafeName(r)
		}
		sid := vhlib.Pick(r, sids)
		if r.Chance(30) {
			sid = fmt.Sprintf("%d-%d-%d", r.U64(), r.Intn(3), r.Intn(1000))
		}
		sfx := uint64(r.Intn(4))
		if r.Chance(30) {
			sfx = r.U64()
		}
		config.SetDataPath(data)
		config.SetHostIDForTestOnly(host)
		key := config.GetSegKey(sid, ix, sfx)
		want := config.GetBaseSegDir(sid, ix, sfx)
		got, err := sutilsx.GetSegBaseDirFromFilename(key)
		guard := firstFinalIsTheBuilders(data, host)
		if guard == bad {
			sum.HarnessError(fmt.Sprintf("segDirStream: root %q + %q classified wrongly", data, host))
		}
		gotS := fmt.Sprintf("%q", got)
		if err != nil {
			gotS = "an error (" + err.Error() + ")"
		}
		// what the pass uses since fix e0ecac0: no guard, every data path
		got2, err2 := sutilsx.GetSegBaseDirFromSegKey(key)
		keyCases = append(keyCases, fmt.Sprintf("(%s, %s)", vhlib.CoqStr(key), vhlib.CoqOpt(err2 == nil, vhlib.CoqStr(got2))))
		if err2 != nil || got2 != want {
			g2 := fmt.Sprintf("%q", got2)
			if err2 != nil {
				g2 = "an error (" + err2.Error() + ")"
			}
			detail := fmt.Sprintf("GetSegBaseDirFromSegKey(%q) = %s; the writer created %q (data path %q, host id %q, index %q, stream id %q, segment %d)", key, g2, want, data, host, ix, sid, sfx)
			c := map[string]interface{}{"data_path": data, "host_id": host, "index": ix, "stream_id": sid, "suffix": sfx, "key": key}
			switch {
			case !guard:
				sum.Fail("segment_dir_of_key_wrong_when_the_data_path_has_a_directory_called_final", detail, c)
			case collidesWithLayout(ix) || collidesWithLayout(sid):
				sum.Fail("segment_dir_of_segkey_wrong_for_a_name_from_the_data_layout", detail, c)
			default:
				sum.Fail("segment_dir_of_segkey_wrong", detail, c)
			}
		}
		// the searching helper (IsFileForRotatedSegment, GetSegKeyFromFilename; the callers of the pass before the fix):
		// judged under its guard only, compared with the model everywhere
		if guard && (err != nil || got != want) {
			detail := fmt.Sprintf("GetSegBaseDirFromFilename(%q) = %s; the writer created %q (data path %q, host id %q, index %q, stream id %q, segment %d)", key, gotS, want, data, host, ix, sid, sfx)
			c := map[string]interface{}{"data_path": data, "host_id": host, "index": ix, "stream_id": sid, "suffix": sfx, "key": key}
			switch {
			case collidesWithLayout(ix) || collidesWithLayout(sid):
				sum.Fail("segment_dir_of_key_wrong_for_a_name_from_the_data_layout", detail, c)
			default:
				sum.Fail("segment_dir_of_key_wrong", detail, c)
			}
		}
		sum.Eval(fmt.Sprintf("segdir-%d", i), true)
		sum.Count("segdir_case")
		if !guard {
			sum.Count("segdir_case_root_with_a_directory_called_final")
		}
		if ix == "final" {
			sum.Count("segdir_case_index_called_final")
		} else if collidesWithLayout(ix) {
			sum.Count("segdir_case_index_name_containing_a_layout_word")
		}
		cases = append(cases, fmt.Sprintf("(%s, %s, %s, %s, %s, %s, %s)", vhlib.CoqStr(data), vhlib.CoqStr(host), vhlib.CoqStr(ix), vhlib.CoqStr(sid),
			vhlib.CoqStr(fmt.Sprint(sfx)), vhlib.CoqOpt(err == nil, vhlib.CoqStr(got)), vhlib.CoqStr(key)))
		// an arbitrary file name: the key cut short / with parts removed / a file below the directory (error returns, longer names)
		var raw string
		switch r.Intn(5) {
		case 0:
			raw = key[:r.Intn(len(key)+1)]
		case 1:
			raw = strings.Replace(key, "/final/", "/"+vhlib.Pick(r, []string{"finale", "fina", "Final", "final"})+"/", 1)
		case 2:
			raw = want + vhlib.Pick(r, []string{"0.bsu", "cmi/ts.cmi", fmt.Sprint(sfx) + "_1.csg", ""})
		case 3:
			raw = data + host + "/final/" + ix + "/" + sid
		default:
			raw = randSafeName(r) + "/final/" + randSafeName(r)
		}
		rg, rerr := sutilsx.GetSegBaseDirFromFilename(raw)
		raws = append(raws, fmt.Sprintf("(%s, %s)", vhlib.CoqStr(raw), vhlib.CoqOpt(rerr == nil, vhlib.CoqStr(rg))))
		kg, kerr := sutilsx.GetSegBaseDirFromSegKey(raw)
		keyCases = append(keyCases, fmt.Sprintf("(%s, %s)", vhlib.CoqStr(raw), vhlib.CoqOpt(kerr == nil, vhlib.CoqStr(kg))))
		if kerr == nil && !strings.HasPrefix(raw, kg) {
			sum.Fail("segment_dir_of_file_is_not_a_prefix_of_the_file_name", fmt.Sprintf("GetSegBaseDirFromSegKey(%q) = %q", raw, kg), map[string]interface{}{"file": raw})
		}
		if rerr == nil && !strings.HasPrefix(raw, rg) {
			sum.Fail("segment_dir_of_file_is_not_a_prefix_of_the_file_name", fmt.Sprintf("GetSegBaseDirFromFilename(%q) = %q", raw, rg), map[string]interface{}{"file": raw})
		}
	}
	for i, f := 0, 0; i < len(cases); i, f = i+200, f+1 {
		j := i + 200
		if j > len(cases) {
			j = len(cases)
		}
		sum.WriteCaseFile(cfg.Out, fmt.Sprintf("c14_segdir_%03d", f), "From SigM Require Import Base RetentionPaths RetentionCheck.", "",
			"check_segdir_cases "+vhlib.CoqListNL(cases[i:j])+" 0 ++ check_segdir_raw "+vhlib.CoqListNL(raws[i:j])+" 0 ++ check_segdir_key "+vhlib.CoqListNL(keyCases[2*i:2*j])+" 0", 5*(j-i))
	}
}

// stores whose indexes are called like parts of the data directory.  Every index owns an expired rotated segment
// (round 0) and a newer or straddling one (last round); variant 1: only the index called final has something expired.
func genCollide(r *vhlib.Rng, variant int) *Spec {
	kind := "plain"
	if variant%3 == 2 {
		kind = "interrupt"
	}
	s := &Spec{Kind: kind, Hours: vhlib.Pick(r, []int{1, 24, 360, 720}), PassOrgs: []int64{0}, Orgs: []int64{0}, Collide: true}
	var names []string
	switch variant {
	case 0:
		names = []string{"final", "ixa", vhlib.Pick(r, collideNames[1:])}
	case 1:
		names = []string{"final", "suffix"}
	default:
		if variant == 2 {
			names = append(names, "0") // an index called like the first segment number of every stream
		}
		if variant >= 3 && variant%4 == 1 {
			names = append(names, vhlib.Pick(r, []string{"ts", "tth"}))
		}
		for len(names) < 3 {
			n := vhlib.Pick(r, collideNames)
			if !contains(names, n) {
				names = append(names, n)
			}
		}
	}
	id := 0
	nrounds := r.Range(2, 3)
	for ri := 0; ri < nrounds; ri++ {
		rd := Round{Rotate: true}
		for ni, ix := range names {
			cl := r.Intn(3)
			switch {
			case ri == 0:
				cl = 0
			case ri == nrounds-1:
				cl = 1 + r.Intn(2)
			case !r.Chance(70):
				continue
			}
			if variant == 1 && ni > 0 && cl == 0 {
				cl = 1 // nothing else expires in this pass
			}
			id++
			rd.Segs = append(rd.Segs, SegSpec{ID: id, Kind: "log", Name: ix, Org: 0, Offs: genOffs(r, cl)})
		}
		if variant >= 3 && variant%2 == 1 {
			// metrics segments next to indexes called ts / tth / ...: final/ts and final/tth hold both kinds of directories
			id++
			offs := genOffs(r, r.Intn(3))
			for i := range offs {
				offs[i] = offs[i] / 1000 * 1000
			}
			rd.Segs = append(rd.Segs, SegSpec{ID: id, Kind: "met", Name: "m", Org: 0, Offs: offs})
		}
		s.Rounds = append(s.Rounds, rd)
	}
	return s
}

// a data path that has a directory called final itself: <scratch>/final/d/<host>/final/<index>/...  One expired segment,
// two newer ones in two indexes.  The helper's answer for every key is <data><host>/final/ (C14_segment_dir_of_key_unguarded_refuted).
func genDataPathFinal(r *vhlib.Rng) *Spec {
	s := &Spec{Kind: "plain", Hours: 24, PassOrgs: []int64{0}, Orgs: []int64{0}, DataSub: "final/d", NoModel: true}
	s.Rounds = []Round{
		{Rotate: true, Segs: []SegSpec{{ID: 1, Kind: "log", Name: "ixa", Offs: []int64{-3600000}}}},
		{Rotate: true, Segs: []SegSpec{
			{ID: 2, Kind: "log", Name: "ixa", Offs: []int64{600000, 660000}},
			{ID: 3, Kind: "log", Name: "ixb", Offs: []int64{-60000, 3600000}},
		}},
	}
	return s
}

// what the pass leaves when DeleteSegmentData removed <data><host>/final/ instead of one segment directory: nothing below final
func dataPathFinalSignature(post *Obs) bool {
	for _, d := range post.Dirs {
		if d != "final" && d != "final/" {
			return false
		}
	}
	return true
}

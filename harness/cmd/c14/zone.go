// zone.go: the clock side of the retention pass (coq/model/RetentionTime.v).
//
// "Older than the retention horizon" is an age: an absolute duration between the instant of the pass and the
// newest event of a segment.  time.Now() hands the pass an instant together with the SERVER'S LOCAL ZONE, and
// part of the time API works on the wall clock of that zone (AddDate, Date, Truncate-to-day idioms), where a
// day is 23, 24, 24.5 or 25 hours long when the clocks change.  A check that runs in UTC only can never see
// the difference.  Two streams:
//
//   - horizonZoneStream: GetRetentionTimeMs on instants placed around every clock change of a list of zones
//     (before, 1 ms .. 30 days after, inside the repeated hour), handed over as time.Time values of that zone,
//     retentions from 0 h to 400 days.  Oracle: the result is now - hours*3600000 ms and equals the result for
//     the same instant in UTC.  Correspondence: the model of the code, and the model of the standard library's
//     AddDate against the real AddDate (the calendar variant of the model is only as good as that).
//   - zone scenarios (genZone): the real DoRetentionBasedDeletion in a worker whose time.Local is a zone with
//     daylight saving; the pass reads time.Now() itself, so the retention is chosen from the real date such
//     that the zone's latest clock change lies inside the window [now - retention, now]; segments 15 minutes
//     older / newer than the horizon are part of every such store.
//
// The tz database comes from the system or, when the sandbox has none, from the embedded copy (time/tzdata).
package main

import (
	"fmt"
	"sort"
	"strings"
	"time"
	_ "time/tzdata"

	"github.com/siglens/siglens/pkg/retention"

	"verifharness/vhlib"
)

// zones with daylight saving on both hemispheres, a 30-minute change (Lord_Howe), half-hour base offsets
// (St_Johns), a zone whose "summer time" is the negative one (Casablanca), one that skipped a whole day
// (Apia, 2011-12-30) and fixed-offset controls
var dstZones = []string{"America/New_York", "Europe/Berlin", "Australia/Lord_Howe", "Australia/Sydney",
	"America/Santiago", "America/St_Johns", "Africa/Casablanca", "Pacific/Apia", "Europe/London", "America/Sao_Paulo"}
var fixedZones = []string{"UTC", "Asia/Kolkata", "Asia/Tokyo"}

type zoneTx struct {
	When int64 // ms since the epoch (a whole second)
	Off  int64 // ms east of UTC from then on
}

type zoneInfo struct {
	Name  string
	Loc   *time.Location
	First int64 // offset at the start of the scanned window
	Tx    []zoneTx
}

func offsetAt(loc *time.Location, sec int64) int64 {
	_, o := time.Unix(sec, 0).In(loc).Zone()
	return int64(o)
}

// every change of the UTC offset between two instants, found by a scan in 12-hour steps and bisection to the second
func scanZone(name string, fromSec, toSec int64) (*zoneInfo, error) {
	loc, err := time.LoadLocation(name)
	if err != nil {
		return nil, err
	}
	zi := &zoneInfo{Name: name, Loc: loc, First: offsetAt(loc, fromSec) * 1000}
	const step = 12 * 3600 // no zone of the list changes its clocks twice within 12 hours (the comparison with the real AddDate inside Coq would show it)
	for t := fromSec; t < toSec; t += step {
		base := offsetAt(loc, t)
		if offsetAt(loc, t+step) == base {
			continue
		}
		lo, hi := t, t+step // offset(lo) == base != offset(hi)
		for hi-lo > 1 {
			m := lo + (hi-lo)/2
			if offsetAt(loc, m) == base {
				lo = m
			} else {
				hi = m
			}
		}
		zi.Tx = append(zi.Tx, zoneTx{When: hi * 1000, Off: offsetAt(loc, hi) * 1000})
	}
	return zi, nil
}

func coqZv(n int64) string {
	if n < 0 {
		return fmt.Sprintf("(%d)%%Z", n)
	}
	return fmt.Sprintf("%d%%Z", n)
}

func (z *zoneInfo) coq() string {
	var tx []string
	for _, t := range z.Tx {
		tx = append(tx, fmt.Sprintf("(%s, %s)", coqZv(t.When), coqZv(t.Off)))
	}
	return fmt.Sprintf("mkzone %s %s", coqZv(z.First), vhlib.CoqListNL(tx))
}

func fmtOff(ms int64) string {
	sign := "+"
	if ms < 0 {
		sign, ms = "-", -ms
	}
	return fmt.Sprintf("UTC%s%02d:%02d", sign, ms/3600000, ms/60000%60)
}

// window of the scan: instants are drawn from [2012, 2031), retentions reach back 400 days at most
var zoneScanFrom = time.Date(2009, 1, 1, 0, 0, 0, 0, time.UTC).Unix()
var zoneScanTo = time.Date(2034, 1, 1, 0, 0, 0, 0, time.UTC).Unix()
var zoneDrawFrom = time.Date(2012, 1, 1, 0, 0, 0, 0, time.UTC).UnixMilli()
var zoneDrawTo = time.Date(2031, 1, 1, 0, 0, 0, 0, time.UTC).UnixMilli()

func horizonZoneStream(r *vhlib.Rng, sum *vhlib.Summary, cfg vhlib.Config) {
	names := append(append([]string{}, dstZones...), fixedZones...)
	var zones []*zoneInfo
	for _, n := range names {
		zi, err := scanZone(n, zoneScanFrom, zoneScanTo)
		if err != nil {
			sum.HarnessError("time zone " + n + " not available (neither system zoneinfo nor the embedded tzdata): " + err.Error())
			continue
		}
		zones = append(zones, zi)
	}
	if len(zones) == 0 {
		return
	}
	perZone := 24
	if cfg.Thorough() {
		perZone = 400
	}
	afterChange := []int64{0, 1, 1799999, 1800000, 3599999, 3600000, 3600001, 7200000, 43200000, 86400000, 3 * 86400000, 14 * 86400000, 15 * 86400000, 30 * 86400000, 200 * 86400000}
	beforeChange := []int64{1, 1800000, 3600000, 86400000, 10 * 86400000}
	hoursSet := []int{0, 1, 2, 23, 24, 25, 47, 48, 360, 720, 2160, 4872, 8760, 9600}
	var defs strings.Builder
	var cases []string
	failed := map[string]int{}
	for zi, z := range zones {
		fmt.Fprintf(&defs, "Definition zone_%d : zone := (* %s *) %s.\n", zi, z.Name, z.coq())
		var inWin []zoneTx
		for _, t := range z.Tx {
			if t.When >= zoneDrawFrom && t.When < zoneDrawTo {
				inWin = append(inWin, t)
			}
		}
		for c := 0; c < perZone; c++ {
			var now int64
			h := vhlib.Pick(r, hoursSet)
			if r.Chance(15) {
				h = r.Intn(9601)
			}
			switch {
			case len(inWin) == 0 || r.Chance(10):
				now = zoneDrawFrom + int64(r.U64()%uint64(zoneDrawTo-zoneDrawFrom))
			case r.Chance(75):
				// shortly (or up to the length of the window) after a clock change
				now = vhlib.Pick(r, inWin).When + vhlib.Pick(r, afterChange)
				if r.Chance(30) {
					now += int64(r.Intn(3600000))
				}
			default:
				now = vhlib.Pick(r, inWin).When - vhlib.Pick(r, beforeChange)
			}
			if r.Chance(50) && h >= 24 {
				// the horizon itself next to a clock change
				now = vhlib.Pick(r, inWinOr(inWin, now)).When + int64(h)*3600000 + vhlib.Pick(r, []int64{-3600000, -1, 0, 1, 1800000, 5400000})
			}
			t := time.UnixMilli(now).In(z.Loc)
			got := retention.GetRetentionTimeMs(h, t)
			want := uint64(now - int64(h)*3600000)
			inUTC := retention.GetRetentionTimeMs(h, time.UnixMilli(now).UTC())
			days := h / 24
			ad := t.AddDate(0, 0, -days).UnixMilli()
			cases = append(cases, fmt.Sprintf("(zone_%d, %s, %d, %d, %s, %s)", zi, coqZv(now), h, got, coqZv(int64(days)), coqZv(ad)))
			sum.Count("horizon_cases_in_zone_" + z.Name)
			offNow, offHz := offsetAt(z.Loc, now/1000)*1000, offsetAt(z.Loc, (now-int64(h)*3600000)/1000)*1000
			if offNow != offHz {
				sum.Count("horizon_case_with_a_clock_change_inside_the_retention_window")
			}
			if ad != now-int64(days)*86400000 {
				sum.Count("horizon_case_where_calendar_days_are_not_24h_days")
			}
			sum.Eval(fmt.Sprintf("hz-%s-%d-%d", z.Name, now, h), offNow != offHz)
			if got == want && got == inUTC {
				continue
			}
			class := "horizon_depends_on_server_time_zone"
			if got == inUTC {
				class = "horizon_formula" // wrong in UTC as well
			}
			if failed[class] >= 3 {
				continue
			}
			failed[class]++
			diff := int64(got) - int64(want)
			conseq := fmt.Sprintf("a segment whose newest event is %d min NEWER than now - retention would be deleted", diff/60000/2)
			if diff < 0 {
				conseq = fmt.Sprintf("a segment whose newest event is %d min OLDER than now - retention would be kept", -diff/60000/2)
			}
			sum.Fail(class, fmt.Sprintf("GetRetentionTimeMs(%d h, %s [zone %s, %s now, %s at now - %d h]) = %d, the same instant in UTC gives %d, now - %d h = %d (off by %d ms): %s",
				h, t.Format(time.RFC3339Nano), z.Name, fmtOff(offNow), fmtOff(offHz), h, got, inUTC, h, want, diff, conseq),
				map[string]interface{}{"zone": z.Name, "now_ms": now, "now_local": t.Format(time.RFC3339Nano), "hours": h, "got": got, "want": want, "in_utc": inUTC})
		}
	}
	// shard: at most 400 cases per file
	for i, f := 0, 0; i < len(cases); i, f = i+400, f+1 {
		j := i + 400
		if j > len(cases) {
			j = len(cases)
		}
		sum.WriteCaseFile(cfg.Out, fmt.Sprintf("c14_zones_%03d", f), "From Coq Require Import ZArith.\nFrom SigM Require Import Base Retention RetentionTime RetentionCheck.",
			defs.String(), "check_zone_cases "+vhlib.CoqListNL(cases[i:j])+" 0", 2*(j-i))
	}
}

func inWinOr(inWin []zoneTx, now int64) []zoneTx {
	if len(inWin) > 0 {
		return inWin
	}
	return []zoneTx{{When: now}}
}

// ---------------------------------------------------------------- the real pass in a zone with daylight saving

// A retention (hours, >= 24) such that the zone's offset at now - hours differs from its offset now: the latest
// clock change lies inside the window and the next older one outside.  ok = false when the zone had no change in
// the last 400 days (fixed offset).
func dstHours(loc *time.Location, nowMs int64, r *vhlib.Rng) (hours int, offNow, offThen int64, ok bool) {
	nowSec := nowMs / 1000
	offNow = offsetAt(loc, nowSec)
	var good []int
	for d := 1; d <= 400; d++ {
		// one day of margin on both sides of the horizon: the scenario itself takes seconds, not days
		a, b, c := offsetAt(loc, nowSec-int64(d)*86400), offsetAt(loc, nowSec-int64(d-1)*86400), offsetAt(loc, nowSec-int64(d+1)*86400)
		if a != offNow && a == b && a == c {
			good = append(good, d)
		} else if len(good) > 0 {
			break // the window must not reach the change before
		}
	}
	if len(good) == 0 {
		return 0, offNow * 1000, offNow * 1000, false
	}
	if len(good) > 20 {
		good = good[:20]
	}
	d := vhlib.Pick(r, good)
	hours = d*24 + r.Intn(24)
	offThen = offsetAt(loc, nowSec-int64(hours)*3600)
	return hours, offNow * 1000, offThen * 1000, true
}

// store as in the main stream plus, in rounds of their own, a log and a metrics segment whose newest event is
// 15 minutes older and a log (straddling) and a metrics segment whose newest event is 15 minutes newer than the
// horizon: a horizon displaced by half an hour or more in either direction deletes or keeps one of them
func genZone(r *vhlib.Rng, i int, zone string) *Spec {
	s := genSpecT(r, "plain", i%2 == 0, false, false)
	s.Kind = "zone"
	s.Zone = zone
	s.Extras = nil
	for ri := range s.Rounds {
		s.Rounds[ri].Rotate = true
	}
	near := []Round{
		{Rotate: true, Segs: []SegSpec{
			{ID: 91, Kind: "log", Name: "ixn", Org: 0, Offs: []int64{-900000}},
			{ID: 92, Kind: "met", Name: "m", Org: 0, Offs: []int64{-900000}},
		}},
		{Rotate: true, Segs: []SegSpec{
			{ID: 93, Kind: "log", Name: "ixn", Org: 0, Offs: []int64{-7200000, 900000}},
			{ID: 94, Kind: "met", Name: "m", Org: 0, Offs: []int64{900000}},
		}},
	}
	s.Rounds = append(near, s.Rounds...)
	return s
}

// called when the scenario starts (the retention depends on the date of the run)
func (s *Spec) fixZoneHours(r *vhlib.Rng) error {
	loc, err := time.LoadLocation(s.Zone)
	if err != nil {
		return fmt.Errorf("time zone %s not available: %v", s.Zone, err)
	}
	h, on, ot, ok := dstHours(loc, time.Now().UnixMilli(), r)
	if !ok {
		// control: a zone without a change in the last 400 days
		h = vhlib.Pick(r, []int{24, 360, 720, 4872})
	}
	s.Hours, s.ZoneOffNow, s.ZoneOffThen = h, on, ot
	return nil
}

func (s *Spec) zoneDesc() string {
	return fmt.Sprintf("server zone %s (%s now, %s at the horizon %d h = %d days %d h ago)", s.Zone, fmtOff(s.ZoneOffNow), fmtOff(s.ZoneOffThen), s.Hours, s.Hours/24, s.Hours%24)
}

// The signature of a horizon computed on the wall clock: the store after the pass is exactly what a pass with the
// horizon displaced by the zone's clock change (offset now - offset at the horizon) leaves, and that is not what
// the absolute horizon demands.  Every rotated segment of the passed orgs is looked at: outside the band between the
// two horizons it must be treated correctly, inside it wrongly (deleted though newer when the clocks went forward,
// kept though expired when they went back); event times inside the run time of the pass are left out.
func zoneFails(spec *Spec, dirOf map[int]string, o *Obs, win [2]int64, where string) []fail {
	shift := spec.ZoneOffNow - spec.ZoneOffThen
	if spec.Zone == "" || shift == 0 {
		return nil
	}
	newestIn := map[string]int64{}
	kind := map[string]string{}
	for _, rd := range spec.Rounds {
		for _, s := range rd.Segs {
			if d, ok := dirOf[s.ID]; ok && hasOrg(spec.PassOrgs, s.Org) {
				if v, ok2 := newestIn[d]; !ok2 || maxOff(s) > v {
					newestIn[d] = maxOff(s)
				}
				kind[d] = fmt.Sprintf("%s segment %d (%s, org %d, event offsets to the horizon %v ms)", s.Kind, s.ID, s.Name, s.Org, s.Offs)
			}
		}
	}
	lo, hi := int64(0), shift
	if shift < 0 {
		lo, hi = shift, 0
	}
	var dirs []string
	for d := range newestIn {
		dirs = append(dirs, d)
	}
	sort.Strings(dirs)
	var wrong []string
	for _, d := range dirs {
		n := newestIn[d]
		gone := !contains(o.Dirs, d)
		const margin = 1000 // metrics: seconds resolution
		switch {
		case n < lo+win[0]-margin: // older than both horizons
			if !gone {
				return nil
			}
		case n > hi+win[1]+margin: // newer than both
			if gone {
				return nil
			}
		case n > lo+win[1]+margin && n < hi+win[0]-margin: // between the two horizons
			if gone != (shift > 0) {
				return nil
			}
			wrong = append(wrong, kind[d]+" dir "+d)
		}
	}
	if len(wrong) == 0 {
		return nil
	}
	what := fmt.Sprintf("deleted although their newest event is newer than now - retention: exactly the segments up to %d min newer are gone", shift/60000)
	if shift < 0 {
		what = fmt.Sprintf("kept although their newest event is older than now - retention: exactly the segments more than %d min older are gone", -shift/60000)
	}
	return []fail{{"retention_horizon_displaced_by_clock_change_in_window", where + ": " + spec.zoneDesc() + ": segments " + what + ": " + strings.Join(wrong, "; ")}}
}

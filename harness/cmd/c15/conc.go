// stream "concurrent": several bulk requests served AT THE SAME TIME.
//
// The property speaks about every bulk request; a server serves them on as many goroutines as clients send them.  What
// the requests share is the table of segment stores (allSegStores, one store per stream = index): the first write of a
// new index has to create the store, and requests that arrive together all find "no store yet".  A round of this
// stream is K requests (each its own body from the ordinary grammar: bad documents, deletes, updates, several indexes)
// that are released together through a starting gate (the write lock of the store table, held through the add-only
// hook writer.VerifC15HoldSegStoreTable while the K goroutines arrive at their look-up), then ONE flush, then the
// ordinary per-request oracle: every item answered created is searchable exactly once, failed items are not stored,
// items / errors flag as the body deserves.  Round kinds: all requests write first into the same new index; each into
// its own new index; several new indexes per body; new and long-existing indexes mixed; a second wave onto the store
// the first wave created; a second wave after the idle store was taken out of the table (what removeStaleSegments does
// after a rotation and 15 idle minutes: hook writer.VerifC15RemoveIdleSegStores).
//
// A failure that the same requests do not show when they are served one after the other (fresh index names again) is
// the concurrency's doing and gets the class <class>_under_concurrent_requests.
//
// Model: SigM.BulkConc (get-or-create of the segment store as three atomic steps per group, every interleaving);
// each round is replayed in Coq under the gate's interleaving and under the sequential one.
package main

import (
	"encoding/json"
	"fmt"
	"strings"
	"sync"
	"time"

	eswriter "github.com/siglens/siglens/pkg/es/writer"
	"github.com/siglens/siglens/pkg/segment/writer"

	"verifharness/vhlib"
)

const concSuffix = "_under_concurrent_requests"

type concRound struct {
	No     int          `json:"round"`
	Kind   string       `json:"kind"`
	Phases [][]bodyCase `json:"-"` // every phase: the requests released together
	Drop   bool         `json:"-"` // before phase 2: rotation, then the idle stores of the round's indexes leave the table
	Fresh  []int        `json:"-"` // index numbers of the round's new indexes
	inst   int          // instantiation of the new index names (a re-run needs indexes nobody has written to)
	names  []string     // the names of this instantiation
}

func concIdx(round, j int) int { return 5000 + 10*round + j }

// (re-)names the round's new indexes: c15q<round>n<j>, re-runs c15q<round>n<j>v<inst>
func (rd *concRound) instantiate(inst int) {
	rd.inst = inst
	rd.names = nil
	for j, ix := range rd.Fresh {
		n := fmt.Sprintf("c15q%dn%d", rd.No, j)
		if inst > 0 {
			n += fmt.Sprintf("v%d", inst)
		}
		indexNames[ix] = n
		rd.names = append(rd.names, n)
	}
}

var concInst = map[int]int{} // round -> instantiations used so far

func (rd *concRound) reinstantiate() {
	concInst[rd.No]++
	rd.instantiate(concInst[rd.No])
}

// the stores of the round's indexes (tens of MB of buffers each) are removed when the round is over
func (rd *concRound) cleanup() {
	for _, n := range rd.names {
		writer.DeleteVirtualTableSegStore(n)
	}
}

var concKinds = []string{"same_new_index", "each_its_own_new_index", "several_new_indexes_per_body", "new_and_existing_indexes",
	"second_wave_on_the_created_store", "second_wave_after_idle_store_removed"}

// one body: a well-formed write for every index in must, 0-4 ordinary action groups of the grammar redirected (70 %)
// to the body's pool (the others stay in the long-existing c15a-d), shuffled, usually a closing write
func genConcBody(r *vhlib.Rng, pool, must []int) bodyCase {
	c := bodyCase{Stream: "concurrent", FinalNL: r.Chance(75)}
	redirect := func(ls []lineSpec) []lineSpec {
		for i := range ls {
			if ls[i].Idx >= 1 && ls[i].Idx <= 4 && r.Chance(70) {
				ls[i].Idx = vhlib.Pick(r, pool)
			}
		}
		return ls
	}
	var groups [][]lineSpec
	for _, ix := range must {
		v := "index"
		if r.Chance(30) {
			v = "create"
		}
		groups = append(groups, []lineSpec{mk(v, ix), goodDoc(r)})
	}
	nIdx := r.Range(1, 2)
	for i := r.Range(0, 4); i > 0; i-- {
		groups = append(groups, redirect(someAction(r, nIdx, true)))
	}
	for i := len(groups) - 1; i > 0; i-- {
		j := r.Intn(i + 1)
		groups[i], groups[j] = groups[j], groups[i]
	}
	for _, g := range groups {
		c.Lines = append(c.Lines, g...)
	}
	if r.Chance(60) {
		c.Lines = append(c.Lines, redirect(closing(r, nIdx))...)
	}
	if n := len(c.Lines); c.Lines[n-1].Shape == "empty" {
		c.FinalNL = true
	}
	return c
}

func genConcRound(r *vhlib.Rng, no int) *concRound {
	rd := &concRound{No: no, Fresh: []int{concIdx(no, 0), concIdx(no, 1), concIdx(no, 2)}}
	kind := no % len(concKinds)
	if no >= 2*len(concKinds) {
		kind = r.Intn(len(concKinds))
	}
	rd.Kind = concKinds[kind]
	n0, n1, n2 := rd.Fresh[0], rd.Fresh[1], rd.Fresh[2]
	K := r.Range(2, 6)
	wave := func(pool func(i int) []int, must func(i int) []int) []bodyCase {
		var bs []bodyCase
		for i := 0; i < K; i++ {
			bs = append(bs, genConcBody(r, pool(i), must(i)))
		}
		return bs
	}
	same := func(int) []int { return []int{n0} }
	switch rd.Kind {
	case "same_new_index":
		rd.Fresh = rd.Fresh[:1]
		rd.Phases = [][]bodyCase{wave(same, same)}
	case "each_its_own_new_index":
		own := func(i int) []int { return []int{rd.Fresh[i%3]} }
		rd.Phases = [][]bodyCase{wave(own, own)}
	case "several_new_indexes_per_body":
		all := func(int) []int { return []int{n0, n1, n2} }
		two := func(i int) []int { return []int{rd.Fresh[i%3], rd.Fresh[(i+1+r.Intn(2))%3]} }
		rd.Phases = [][]bodyCase{wave(all, two)}
	case "new_and_existing_indexes":
		rd.Fresh = rd.Fresh[:2]
		pool := func(int) []int { return []int{n0, n1, 1, 2} }
		must := func(i int) []int { return []int{n0, 1 + i%2} }
		rd.Phases = [][]bodyCase{wave(pool, must)}
	case "second_wave_on_the_created_store":
		rd.Fresh = rd.Fresh[:1]
		rd.Phases = [][]bodyCase{wave(same, same), wave(same, same)}
	case "second_wave_after_idle_store_removed":
		rd.Fresh = rd.Fresh[:2]
		pool := func(int) []int { return []int{n0, n1} }
		rd.Phases = [][]bodyCase{wave(pool, same), wave(pool, same)}
		rd.Drop = true
	}
	rd.instantiate(0)
	return rd
}

// serves the round: per phase the requests together (through the gate) or one after the other, one flush, then
// search + oracle per request.  notes: what the harness did between the phases.
func evaluateRound(rd *concRound, together bool) (ps [][]*prepared, notes []string, herr string) {
	for pi, phase := range rd.Phases {
		if pi > 0 && rd.Drop {
			writer.ForceRotateSegmentsForTest()
			for _, ix := range rd.Fresh {
				removed, kept := writer.VerifC15RemoveIdleSegStores(indexNames[ix])
				notes = append(notes, fmt.Sprintf("after phase %d: all segments rotated; %d idle segment store(s) of %s taken out of the store table, %d kept", pi, removed, indexNames[ix], kept))
				if kept != 0 {
					return ps, notes, fmt.Sprintf("round %d: a store of %s still holds records after the rotation", rd.No, indexNames[ix])
				}
			}
		}
		var pp []*prepared
		for _, c := range phase {
			p, he := prepare(c)
			if he != "" {
				return ps, notes, he
			}
			pp = append(pp, p)
		}
		ps = append(ps, pp)
		if together {
			start := make(chan struct{})
			var wg sync.WaitGroup
			for _, p := range pp {
				wg.Add(1)
				go func(p *prepared) {
					defer wg.Done()
					<-start
					p.serve()
				}(p)
			}
			// starting gate: while the store table is write-locked every request blocks in the look-up of its first
			// stream; on release all of them look it up at the same moment
			release := writer.VerifC15HoldSegStoreTable()
			close(start)
			time.Sleep(60 * time.Millisecond)
			release()
			wg.Wait()
		} else {
			for _, p := range pp {
				p.serve()
			}
		}
		flush()
		var own [][]int
		for _, p := range pp {
			own = append(own, expectedItems(p.acts))
		}
		for i, p := range pp {
			if p.parseResponse() {
				if together {
					p.checkOverwritten(own, i)
				}
				if he := p.judge(); he != "" {
					return ps, notes, he
				}
			}
		}
	}
	return ps, notes, ""
}

// ---- the pooled items slice (regression class; repaired in /repo by 9cbaf3b) ----
//
// HandleBulkBody collects the response items in a slice of respItemsPool and puts it back when it returns (deferred
// Put) - BEFORE its caller serialises the response.  Before the fix the response pointed into that slice: a request
// that started in between got the same slice and wrote its own statuses into it from position 0, and the first caller
// serialised, position by position, its own status or the status another request of the same moment has at that
// position.  Since the fix the response owns a copy (model: SigM.BulkConc.sstep, C15_response_items_private).  A
// response with foreign items that this mechanism accounts for gets the specific class below (a VIOLATION).
const sliceClass = "bulk_response_items_overwritten_by_concurrent_request"

func expectedItems(acts []action) []int {
	out := []int{}
	for _, a := range acts {
		out = append(out, expectedStatus(a))
	}
	return out
}

func sameInts(a, b []int) bool {
	if len(a) != len(b) {
		return false
	}
	for i := range a {
		if a[i] != b[i] {
			return false
		}
	}
	return true
}

// got has the length of own and differs from it only where another request (peers, all but number self) has the
// status got shows at that position
func explainedByPeers(own [][]int, self int, got []int) bool {
	if len(got) != len(own[self]) {
		return false
	}
	for i, st := range got {
		if st == own[self][i] {
			continue
		}
		ok := false
		for j, o := range own {
			if j != self && i < len(o) && o[i] == st {
				ok = true
			}
		}
		if !ok {
			return false
		}
	}
	return true
}

// a response whose items are not the request's own, but are explained by the pooled slice, and whose other fields
// (errors flag, request-level error: not kept in the slice) are the request's own: the repaired defect is back.  The
// store-side oracle then goes on with the statuses the request computed for itself (= what the body deserves;
// the overwritten positions cannot be observed).
func (p *prepared) checkOverwritten(own [][]int, self int) {
	mine := own[self]
	if sameInts(p.obs.Items, mine) || !explainedByPeers(own, self, p.obs.Items) {
		return
	}
	anyFailed, anyCreated := false, false
	for _, st := range mine {
		anyFailed = anyFailed || st != 201
		anyCreated = anyCreated || st == 201
	}
	if p.obs.Errors != anyFailed || p.obs.AllFailed != !anyCreated {
		return
	}
	p.overwritten, p.rawItems = true, p.obs.Items
	p.fails = append(p.fails, failure{sliceClass, fmt.Sprintf("the response of a request whose actions deserve the items %v carries the items %v (errors=%v): positions overwritten with the statuses of a bulk request served at the same time", mine, p.obs.Items, p.obs.Errors)})
	p.obs.Items = mine
}

func roundClasses(ps [][]*prepared) map[string]bool {
	m := map[string]bool{}
	for _, pp := range ps {
		for _, p := range pp {
			for _, f := range p.fails {
				m[f.class] = true
			}
		}
	}
	return m
}

// first failure of the class in the round: phase, request, detail
func roundFind(ps [][]*prepared, class string) (int, int, string) {
	for pi, pp := range ps {
		for bi, p := range pp {
			for _, f := range p.fails {
				if f.class == class {
					return pi, bi, f.detail
				}
			}
		}
	}
	return -1, -1, ""
}

func describeRound(rd *concRound, ps [][]*prepared, notes []string, together bool) interface{} {
	var phases []interface{}
	for pi, pp := range ps {
		var reqs []interface{}
		for bi, p := range pp {
			var ls []string
			for _, t := range p.texts {
				t = strings.ReplaceAll(t, p.tag, "kN")
				if len(t) > 200 {
					t = fmt.Sprintf("%s…<%d bytes in all>", t[:120], len(t))
				}
				ls = append(ls, t)
			}
			reqs = append(reqs, map[string]interface{}{"request": bi, "body_lines": ls, "final_newline": p.c.FinalNL, "shapes": p.c.Lines,
				"items": p.obs.Items, "errors": p.obs.Errors, "found_index_line": p.obs.Found})
		}
		phases = append(phases, map[string]interface{}{"phase": pi + 1, "requests": reqs})
	}
	names := rd.names
	how := "the requests of a phase are served by HandleBulkBody on one goroutine each, released together: the harness holds the write lock of the segment-store table (allSegStoresLock) for 60 ms while the goroutines arrive at getSegStore, then releases it; after they have all returned: one FlushWipBufferToFile, then the searches"
	if !together {
		how = "the requests of a phase are served one after the other, then one FlushWipBufferToFile, then the searches"
	}
	return map[string]interface{}{"stream": "concurrent", "round": rd.No, "kind": rd.Kind, "new_indexes_of_the_round": names,
		"phases": phases, "between_the_phases": notes, "how": how}
}

// the round as steps of SigM.BulkCheck.check_conc: CWave [(bad, lines, obs); ...] per phase, CDrop [indexes] between
// phases; document identities 1000*(request number in the round) + line
func coqRound(rd *concRound, ps [][]*prepared) string {
	var steps []string
	n := 0
	for pi, pp := range ps {
		if pi > 0 && rd.Drop {
			var ix []string
			for _, i := range rd.Fresh {
				ix = append(ix, fmt.Sprint(i))
			}
			steps = append(steps, "CDrop "+vhlib.CoqList(ix))
		}
		var reqs []string
		for _, p := range pp {
			n++
			o := p.obs
			if p.overwritten { // the model of the fixed code cannot explain these items: a disagreement
				o.Items = p.rawItems
			}
			bad, lines, obs := coqParts(p.c, p.lens, o, 1000*n)
			reqs = append(reqs, fmt.Sprintf("(%s, %s, %s)", bad, lines, obs))
		}
		steps = append(steps, "CWave "+vhlib.CoqListNL(reqs))
	}
	return vhlib.CoqListNL(steps)
}

// smaller round with the same failure class (raw class, before the suffix): drop the phases after the failing one,
// then whole requests, then lines; every try needs new index names and is served through the gate again (a try
// that does not fail keeps the larger round).  budget = number of tries.
func shrinkRound(rd *concRound, class string, together bool, budget int) (*concRound, [][]*prepared, []string) {
	try := func(cand *concRound) ([][]*prepared, []string, bool) {
		if budget <= 0 {
			return nil, nil, false
		}
		budget--
		cand.reinstantiate()
		ps, notes, he := evaluateRound(cand, together)
		cand.cleanup()
		return ps, notes, he == "" && roundClasses(ps)[class]
	}
	clone := func(src *concRound) *concRound {
		c := *src
		c.Phases = nil
		for _, ph := range src.Phases {
			var bs []bodyCase
			for _, b := range ph {
				b.Lines = append([]lineSpec{}, b.Lines...)
				bs = append(bs, b)
			}
			c.Phases = append(c.Phases, bs)
		}
		return &c
	}
	var best [][]*prepared
	var bestNotes []string
	cur := rd
	// phases after the failing one
	for len(cur.Phases) > 1 {
		cand := clone(cur)
		cand.Phases = cand.Phases[:len(cand.Phases)-1]
		if ps, notes, ok := try(cand); ok {
			cur, best, bestNotes = cand, ps, notes
		} else {
			break
		}
	}
	for changed := true; changed && budget > 0; {
		changed = false
		// whole requests
		for pi := range cur.Phases {
			for bi := 0; bi < len(cur.Phases[pi]) && len(cur.Phases[pi]) > 1; bi++ {
				cand := clone(cur)
				cand.Phases[pi] = append(cand.Phases[pi][:bi], cand.Phases[pi][bi+1:]...)
				if ps, notes, ok := try(cand); ok {
					cur, best, bestNotes, changed = cand, ps, notes, true
					bi--
				}
			}
		}
		// lines
		for pi := range cur.Phases {
			for bi := range cur.Phases[pi] {
				for li := 0; li < len(cur.Phases[pi][bi].Lines) && len(cur.Phases[pi][bi].Lines) > 1; li++ {
					cand := clone(cur)
					b := &cand.Phases[pi][bi]
					b.Lines = append(b.Lines[:li], b.Lines[li+1:]...)
					if b.Lines[len(b.Lines)-1].Shape == "empty" {
						b.FinalNL = true
					}
					if ps, notes, ok := try(cand); ok {
						cur, best, bestNotes, changed = cand, ps, notes, true
						li--
					}
				}
			}
		}
	}
	return cur, best, bestNotes
}

// runs the stream; returns the Coq rounds
func runConcurrent(cfg vhlib.Config, sum *vhlib.Summary, r *vhlib.Rng, nRounds int, known map[string]bool, reported map[string]int) {
	var coqRounds []string
	shard := 0
	flushRounds := func() {
		if len(coqRounds) == 0 {
			return
		}
		defs := "Definition rounds : list (list cstep) := " + vhlib.CoqListNL(coqRounds) + ".\n"
		sum.WriteCaseFile(cfg.Out, fmt.Sprintf("cases_bulk_conc_%d", shard), "From SigM Require Import Base Bulk BulkConc BulkCheck.\n", defs, "check_conc rounds 0", len(coqRounds))
		shard++
		coqRounds = nil
	}
	for no := 0; no < nRounds; no++ {
		rd := genConcRound(r, no)
		ps, notes, herr := evaluateRound(rd, true)
		if herr != "" {
			sum.HarnessError(fmt.Sprintf("concurrent round %d: %s", no, herr))
			rd.cleanup()
			continue
		}
		var key strings.Builder
		fmt.Fprintf(&key, "conc/%s;", rd.Kind)
		nreq := 0
		for _, pp := range ps {
			for _, p := range pp {
				nreq++
				for _, l := range p.c.Lines {
					fmt.Fprintf(&key, "%s%d,", l.Shape, l.Idx%10)
				}
				key.WriteString("|")
				sum.Count("stream/concurrent")
				sum.Count(fmt.Sprintf("concurrent/requests_released_together/%d", len(pp)))
				for _, s := range p.obs.Items {
					sum.Count(fmt.Sprintf("item_status/%d", s))
				}
				for _, a := range p.acts {
					if a.OK && a.Idx >= 5000 {
						sum.Count("concurrent/write_ok_into_new_index")
					} else if a.OK {
						sum.Count("concurrent/write_ok_into_existing_index")
					} else {
						sum.Count("concurrent/failing_action")
					}
				}
			}
		}
		sum.Eval(key.String(), true)
		sum.Count("concurrent/round_kind/" + rd.Kind)
		if no%5 == 1 {
			sum.Sample(describeRound(rd, ps, notes, true))
		}
		coqRounds = append(coqRounds, coqRound(rd, ps))
		if len(coqRounds) >= 40 {
			flushRounds()
		}
		classes := roundClasses(ps)
		rd.cleanup()
		if len(classes) == 0 {
			continue
		}
		// the same requests, one after the other, into new indexes again: which failures are the concurrency's doing?
		ctl := *rd
		ctl.reinstantiate()
		cps, _, cherr := evaluateRound(&ctl, false)
		ctl.cleanup()
		alone := roundClasses(cps)
		var sorted []string
		for cl := range classes {
			sorted = append(sorted, cl)
		}
		sortStrings(sorted)
		for _, raw := range sorted {
			sum.Count("oracle/" + raw)
			class := raw
			conc := cherr == "" && !alone[raw]
			if conc && raw != sliceClass { // that class names the concurrency already
				class = raw + concSuffix
			}
			reported[class]++
			if reported[class] > 2 {
				continue
			}
			srd, sps, snotes := rd, ps, notes
			if !known[class] {
				if c2, p2, n2 := shrinkRound(rd, raw, conc, 30); p2 != nil {
					srd, sps, snotes = c2, p2, n2
				}
			}
			pi, bi, detail := roundFind(sps, raw)
			if conc {
				detail = fmt.Sprintf("%d bulk requests released together (%s), request %d of phase %d: %s (the same requests served one after the other, new indexes again: no such failure)",
					len(sps[pi]), srd.Kind, bi, pi+1, detail)
			} else {
				detail = fmt.Sprintf("stream concurrent, request %d of phase %d: %s (also when the requests are served one after the other)", bi, pi+1, detail)
			}
			sum.Fail(class, detail, describeRound(srd, sps, snotes, conc))
		}
	}
	flushRounds()
}

func sortStrings(a []string) {
	for i := 1; i < len(a); i++ {
		for j := i; j > 0 && a[j] < a[j-1]; j-- {
			a[j], a[j-1] = a[j-1], a[j]
		}
	}
}

// ---------- sub-stream "concurrent/response_slice": sustained concurrent requests ----------
//
// G goroutines, each sends its own small body (8-12 actions: deletes and one or two writes, at other positions per
// goroutine) M times into the one index c15z, without any gate - requests start while others return, as on a busy
// server.  Every response is serialised at once (as ProcessBulkRequest -> WriteJsonResponse does) and compared with
// the items the body deserves.  Then one flush and one search per goroutine: every write is answered created
// (observed or, where the response was overwritten, as the body deserves) and must be found exactly once.
func runResponseSlice(cfg vhlib.Config, sum *vhlib.Summary, G, M int, reported map[string]int) {
	evalNo++
	run := evalNo
	indexNames[8] = "c15z"
	type hit struct {
		g, m int
		got  []int
	}
	own := make([][]int, G)
	writes := make([][]int, G) // action numbers that are writes
	var mu sync.Mutex
	var wrong []hit
	var intact []hit
	var wg sync.WaitGroup
	start := make(chan struct{})
	render := func(g, m int) []byte {
		var sb strings.Builder
		for i := range own[g] {
			if own[g][i] == 201 {
				fmt.Fprintf(&sb, "{\"index\":{\"_index\":\"c15z\"}}\n{\"id\":\"m%dd%d\",\"g\":\"kz%dg%d\",\"timestamp\":%d}\n", m, i, run, g, 1700000000000+int64(i))
			} else {
				sb.WriteString("{\"delete\":{\"_index\":\"c15z\"}}\n")
			}
		}
		return []byte(sb.String())
	}
	for g := 0; g < G; g++ {
		// 8-12 actions, the writes at the positions g%8 and (for every fourth goroutine) g%8+3: the items of two
		// goroutines differ at the positions of their writes
		for i := 0; i < 8+g%5; i++ {
			if i == g%8 || (g%4 == 0 && i == g%8+3) {
				own[g] = append(own[g], 201)
				writes[g] = append(writes[g], i)
			} else {
				own[g] = append(own[g], 400)
			}
		}
	}
	panicked := ""
	for g := 0; g < G; g++ {
		wg.Add(1)
		go func(g int) {
			defer wg.Done()
			defer func() {
				if r := recover(); r != nil {
					mu.Lock()
					panicked = fmt.Sprint(r)
					mu.Unlock()
				}
			}()
			<-start
			for m := 0; m < M; m++ {
				_, resp, _ := eswriter.HandleBulkBody(render(g, m), nil, 0, 0, false)
				js, _ := json.Marshal(resp)
				var r struct {
					Items []interface{} `json:"items"`
				}
				_ = json.Unmarshal(js, &r)
				var got []int
				for _, it := range r.Items {
					got = append(got, statusOf(it))
				}
				if !sameInts(got, own[g]) {
					mu.Lock()
					wrong = append(wrong, hit{g, m, got})
					mu.Unlock()
				} else if m%(M/4+1) == 0 {
					mu.Lock()
					intact = append(intact, hit{g, m, got})
					mu.Unlock()
				}
			}
		}(g)
	}
	close(start)
	wg.Wait()
	flush()
	desc := func(h *hit) interface{} {
		var bodies []interface{}
		for g := 0; g < G; g++ {
			bodies = append(bodies, map[string]interface{}{"goroutine": g, "body": string(render(g, 0)), "items_the_body_deserves": own[g]})
		}
		d := map[string]interface{}{"stream": "concurrent/response_slice", "goroutines": G, "requests_per_goroutine": M, "bodies": bodies,
			"how": "every goroutine sends its body (document ids m<iteration>d<line>) again and again through HandleBulkBody and serialises each response at once with json.Marshal, as ProcessBulkRequest -> utils.WriteJsonResponse does; no gate; afterwards one flush and one search per goroutine"}
		if h != nil {
			d["request"] = map[string]interface{}{"goroutine": h.g, "iteration": h.m, "items_in_the_response": h.got}
		}
		return d
	}
	if panicked != "" {
		sum.Fail("bulk_handler_panic"+concSuffix, "HandleBulkBody panicked under sustained concurrent requests: "+panicked, desc(nil))
	}
	sum.Count(fmt.Sprintf("concurrent/response_slice/requests=%d", G*M))
	for g := 0; g < G; g++ {
		sum.Eval(fmt.Sprintf("slice/%v", own[g]), true)
	}
	var coq []string
	coqInts := func(a []int) string {
		var s []string
		for _, x := range a {
			if x < 0 {
				x = 0
			}
			s = append(s, fmt.Sprint(x))
		}
		return vhlib.CoqList(s)
	}
	coqCase := func(h hit) string {
		var peers []string
		for j := range own {
			if j != h.g {
				peers = append(peers, coqInts(own[j]))
			}
		}
		return fmt.Sprintf("(%s, %s, %s)", coqInts(own[h.g]), vhlib.CoqList(peers), coqInts(h.got))
	}
	for i := range wrong {
		h := wrong[i]
		sum.Count("concurrent/response_slice/response_with_foreign_items")
		class := sliceClass
		detail := fmt.Sprintf("%d goroutines x %d requests: the response of request %d of goroutine %d (its actions deserve the items %v) carries the items %v: overwritten with the statuses of a request served at the same time", G, M, h.m, h.g, own[h.g], h.got)
		if !explainedByPeers(own, h.g, h.got) {
			class = "bulk_item_status_wrong" + concSuffix
			detail = fmt.Sprintf("%d goroutines x %d requests: the response of request %d of goroutine %d carries the items %v, the actions deserve %v, and no other request has these statuses at these positions", G, M, h.m, h.g, h.got, own[h.g])
		}
		if len(coq) < 30 { // the model of the fixed code explains none of them: disagreements
			coq = append(coq, coqCase(h))
		}
		sum.Count("oracle/" + class)
		reported[class]++
		if reported[class] <= 2 {
			sum.Fail(class, detail, desc(&h))
		}
	}
	for i := 0; i < len(intact) && i < 30; i++ {
		coq = append(coq, coqCase(intact[i]))
	}
	if len(coq) > 0 {
		defs := "Definition cases : list (list N * list (list N) * list N) := " + vhlib.CoqListNL(coq) + ".\n"
		sum.WriteCaseFile(cfg.Out, "cases_bulk_slice_0", "From SigM Require Import Base Bulk BulkConc BulkCheck.\n", defs, "check_slice cases 0", len(coq))
	}
	// created => searchable exactly once, for every write of every request
	for g := 0; g < G; g++ {
		hits, err := searchRange("c15z", fmt.Sprintf("g=kz%dg%d", run, g), 1600000000000, 1700000000999)
		if err != nil {
			sum.HarnessError(fmt.Sprintf("response_slice: search for goroutine %d failed: %v", g, err))
			continue
		}
		have := map[string]int{}
		for _, h := range hits {
			id, _ := h["id"].(string)
			have[id]++
		}
		missing, dup, first := 0, 0, ""
		for m := 0; m < M; m++ {
			for _, i := range writes[g] {
				id := fmt.Sprintf("m%dd%d", m, i)
				switch n := have[id]; {
				case n == 0:
					missing++
					if first == "" {
						first = id
					}
				case n > 1:
					dup++
					if first == "" {
						first = id
					}
				}
				delete(have, id)
			}
		}
		fail := func(class, detail string) {
			class += concSuffix
			sum.Count("oracle/" + class)
			reported[class]++
			if reported[class] <= 2 {
				sum.Fail(class, fmt.Sprintf("%d goroutines x %d requests into c15z, goroutine %d: %s", G, M, g, detail), desc(nil))
			}
		}
		if missing > 0 {
			fail("bulk_created_but_not_searchable", fmt.Sprintf("%d of %d created documents are not found after the flush (first: %s)", missing, M*len(writes[g]), first))
		}
		if dup > 0 {
			fail("bulk_created_but_duplicated", fmt.Sprintf("%d created documents are found more than once (first: %s)", dup, first))
		}
		if len(have) > 0 {
			fail("bulk_unexpected_document", fmt.Sprintf("%d documents are found that no write of the goroutine sent", len(have)))
		}
	}
}

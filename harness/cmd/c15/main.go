// c15: property oracle + correspondence for the Elasticsearch-style bulk endpoint.
// Drives the REAL eswriter.HandleBulkBody in-process on generated bulk bodies,
// parses the real response, flushes, searches every index for the documents of the
// body and
//
//	(a) evaluates the property text ("one item per action in request order; created
//	    iff searchable exactly once; failed items not stored; errors iff some item
//	    failed; a bad action affects only its own item") on those observables, against
//	    the bulk grammar's reading of the body (the harness generated the lines, it
//	    never asks the code under test what a line is);
//	(b) writes Coq case files that compare the same observations with the Gallina
//	    model of HandleBulkBody (SigM.Bulk.handle).
//
// Streams: "main", "regression/trailing_action" and "regression/oversize" (bodies of
// the three defect classes repaired by fixes/C15-bulk-response-accounting.diff: if
// one of them comes back it is a VIOLATION with a concrete input) and
// "known/store_failure" (the still open finding, see known/C15.json);
// "after_other_ingest": the bulk request is served after requests of the OTHER log
// ingest entry points of the same process (Splunk HEC, Loki, OTLP logs, the
// single-document API, other bulk requests; accepted and rejected ones), which share
// process-wide pools with HandleBulkBody: what they leave behind must not change what the
// bulk request acknowledges and stores (model: SigM.BulkPool).
// "alias": scenarios of one process in which index names are ALIASES (PUT /<index>/_alias/<alias>
// through the real handler): alias defined before the first write of its index (no segment
// store yet), after it, alias and index name mixed in one body, two aliases of one index, a
// name first used as an index and later made an alias; every created document must be found
// by a query on the index AND by a query through every alias of it, and nothing may be filed
// under an alias name (model: SigM.BulkAlias, the history is replayed inside Coq).
// "concurrent" (conc.go): rounds of 2-6 bulk requests served AT THE SAME TIME, released together
// through a starting gate, first writes of new indexes among them; one flush; the per-request
// oracle; plus sustained ungated concurrent requests (model: SigM.BulkConc).
package main

import (
	"context"
	"encoding/json"
	"fmt"
	"os"
	"runtime"
	"sort"
	"strings"
	"time"

	"github.com/golang/snappy"
	"github.com/siglens/siglens/pkg/ast/pipesearch"
	"github.com/siglens/siglens/pkg/config"
	eswriter "github.com/siglens/siglens/pkg/es/writer"
	"github.com/siglens/siglens/pkg/integrations/loki"
	lokilog "github.com/siglens/siglens/pkg/integrations/loki/log"
	"github.com/siglens/siglens/pkg/integrations/splunk"
	"github.com/siglens/siglens/pkg/otlp"
	"github.com/siglens/siglens/pkg/segment/memory/limit"
	"github.com/siglens/siglens/pkg/segment/query"
	"github.com/siglens/siglens/pkg/segment/structs"
	sutils "github.com/siglens/siglens/pkg/segment/utils"
	"github.com/siglens/siglens/pkg/segment/writer"
	serverutils "github.com/siglens/siglens/pkg/server/utils"
	vtable "github.com/siglens/siglens/pkg/virtualtable"
	log "github.com/sirupsen/logrus"
	"github.com/valyala/fasthttp"
	collogpb "go.opentelemetry.io/proto/otlp/collector/logs/v1"
	commonpb "go.opentelemetry.io/proto/otlp/common/v1"
	logpb "go.opentelemetry.io/proto/otlp/logs/v1"
	resourcepb "go.opentelemetry.io/proto/otlp/resource/v1"
	"google.golang.org/protobuf/proto"
	"google.golang.org/protobuf/types/known/timestamppb"

	"verifharness/vhlib"
)

// ---------- siglens in-process (recipe of BUILDERS.md) ----------

func initSiglens(dir string) {
	log.SetLevel(log.PanicLevel)
	config.InitializeTestingConfig(dir + "/")
	config.SetNewQueryPipelineEnabled(true)
	limit.InitMemoryLimiter()
	writer.InitWriterNode()
	if err := vtable.InitVTable(serverutils.GetMyIds); err != nil {
		panic(err)
	}
	if err := query.InitQueryNode(serverutils.GetMyIds, serverutils.ExtractKibanaRequests); err != nil {
		panic(err)
	}
	query.InitMaxRunningQueries()
	go query.PullQueriesToRun(context.Background())
}

func flush() {
	z1, z2 := time.Duration(0), time.Duration(0)
	writer.FlushWipBufferToFile(&z1, &z2)
}

var qid uint64 = 1000

// ids of the documents with tag g=<tag> in one index ("*" = all indexes); one entry per hit
func search(index, tag string) (ids []string, err error) {
	hits, err := searchRange(index, "g="+tag, 1600000000000, 1700000000999)
	for _, h := range hits {
		id, _ := h["id"].(string)
		ids = append(ids, id)
	}
	return ids, err
}

// the fields of a JSON document as siglens names its columns: nested objects and arrays are flattened with
// dots, null values have no column; ok=false for an empty object/array value (no rule asserted here)
func flatten(prefix string, v interface{}, out map[string]interface{}) bool {
	switch x := v.(type) {
	case map[string]interface{}:
		if len(x) == 0 && prefix != "" {
			return false
		}
		for k, e := range x {
			if !flatten(prefix+k+".", e, out) {
				return false
			}
		}
	case []interface{}:
		if len(x) == 0 {
			return false
		}
		for i, e := range x {
			if !flatten(fmt.Sprintf("%s%d.", prefix, i), e, out) {
				return false
			}
		}
	case nil:
	default:
		out[strings.TrimSuffix(prefix, ".")] = v
	}
	return true
}

// "the document becomes searchable": the record found for a line holds that line's fields and no others
func contentMismatch(line int, text string, hit map[string]interface{}) []failure {
	var doc map[string]interface{}
	dec := json.NewDecoder(strings.NewReader(text))
	dec.UseNumber()
	if dec.Decode(&doc) != nil {
		return nil
	}
	want := map[string]interface{}{}
	if !flatten("", doc, want) {
		return nil
	}
	var foreign, missing, differs []string
	for k := range hit {
		if _, in := want[k]; !in {
			foreign = append(foreign, k)
		}
	}
	for k, w := range want {
		h, in := hit[k]
		if !in {
			missing = append(missing, k)
		} else if ws, isStr := w.(string); isStr {
			if hs, _ := h.(string); hs != ws {
				differs = append(differs, k)
			}
		}
	}
	sort.Strings(foreign)
	sort.Strings(missing)
	sort.Strings(differs)
	var fs []failure
	if len(foreign) > 0 {
		fs = append(fs, failure{"bulk_stored_document_has_foreign_field", fmt.Sprintf("the record found for document line %d has the fields %v, which that line does not contain", line, foreign)})
	}
	if len(missing) > 0 {
		fs = append(fs, failure{"bulk_stored_document_lacks_field", fmt.Sprintf("the record found for document line %d lacks the fields %v of that line", line, missing)})
	}
	if len(differs) > 0 {
		fs = append(fs, failure{"bulk_stored_document_field_differs", fmt.Sprintf("the record found for document line %d has other string values than that line in the fields %v", line, differs)})
	}
	return fs
}

// all records of one index matching text with a timestamp in [start, end]
func searchRange(index, text string, start, end uint64) (hits []map[string]interface{}, err error) {
	defer func() {
		if r := recover(); r != nil {
			err = fmt.Errorf("panic: %v", r)
		}
	}()
	qid++
	req := map[string]interface{}{
		"searchText": text, "indexName": index,
		"startEpoch": start, "endEpoch": end,
		"size": uint64(10000), "queryLanguage": "Splunk QL",
	}
	resp, _, _, err := pipesearch.ParseAndExecutePipeRequest(req, qid, 0, time.Now(), "", nil)
	if err != nil {
		return nil, err
	}
	if resp == nil {
		return nil, nil
	}
	return resp.Hits.Hits, nil
}

// ---------- lines, grammar ----------

const maxRec = sutils.MAX_RECORD_SIZE // 63000; read from the tree so that an edit of the constant shows up as a disagreement with the model

const (
	kIndex = iota
	kCreate
	kUpdate
	kDelete
	kUnknown
	kBadJson
)

var kindCoq = []string{"KIndex", "KCreate", "KUpdate", "KDelete", "KUnknown", "KBadJson"}

var indexNames = map[int]string{1: "c15a", 2: "c15b", 3: "c15c", 4: "c15d", 9: strings.Repeat("x", 300),
	// names utils.IsSafePathComponent rejects (numbers >= 20), as they read after JSON unescaping
	20: "<no _index>", 21: "", 22: ".", 23: "..", 24: "a/b", 25: "../x", 26: `a\b`,
	// indexes that, after an ordinary first document, only ever receive documents without any field
	5: "c15h1", 6: "c15h2", 7: "c15h3",
	// indexes written by the other ingest entry points (stream after_other_ingest)
	50: "c15p0", 51: "c15p1", 52: "c15p2", 60: "loki-index", 61: "otel-logs"}

// 40+k: fresh index c15f<k> whose very first block holds only field-less documents
func freshIdx(k int) int {
	indexNames[40+k] = fmt.Sprintf("c15f%d", k)
	return 40 + k
}

// ---------- aliases (stream "alias") ----------
//
// scenario k owns the index numbers 100+10k .. 100+10k+5 with fresh names:
//
//	+0 r0, +1 r1  indexes
//	+2 l0, +3 m0  aliases of r0        +4 l1  alias of r1
//	+5 d0         a name that may first be written as an index of its own and is later made an alias of r0
//
// aliasOf is the relation the scenario will establish; aliasDefined says whether the PUT _alias request
// was already served in this process (before that the name is an ordinary index name).
var aliasOf = map[int]int{}
var aliasDefined = map[int]bool{}
var scnNames = map[int][]int{}

func scnIdx(k, j int) int { return 100 + 10*k + j }

func newScenario(k int) int {
	for j, n := range []string{"r0", "r1", "l0", "m0", "l1", "d0"} {
		indexNames[scnIdx(k, j)] = fmt.Sprintf("c15s%d%s", k, n)
		scnNames[k+1] = append(scnNames[k+1], scnIdx(k, j))
	}
	aliasOf[scnIdx(k, 2)], aliasOf[scnIdx(k, 3)], aliasOf[scnIdx(k, 5)] = scnIdx(k, 0), scnIdx(k, 0), scnIdx(k, 0)
	aliasOf[scnIdx(k, 4)] = scnIdx(k, 1)
	return k + 1
}

// the index a name stands for right now (vtable.IsAlias as the harness's own bookkeeping)
func resolveIdx(ix int) int {
	if aliasDefined[ix] {
		return aliasOf[ix]
	}
	return ix
}

// PUT /<index>/_alias/<alias> through the real handler
func putAlias(index, alias int) string {
	ctx := &fasthttp.RequestCtx{}
	ctx.Request.Header.SetMethod("PUT")
	ctx.SetUserValue("indexName", indexNames[index])
	ctx.SetUserValue("aliasName", indexNames[alias])
	eswriter.ProcessPutAliasesRequest(ctx, 0)
	if st := ctx.Response.StatusCode(); st != 200 {
		return fmt.Sprintf("PUT /%s/_alias/%s answered %d: %s", indexNames[index], indexNames[alias], st, ctx.Response.Body())
	}
	if is, target := vtable.IsAlias(indexNames[alias], 0); !is || target != indexNames[index] {
		return fmt.Sprintf("PUT /%s/_alias/%s acknowledged, but IsAlias says (%v, %q)", indexNames[index], indexNames[alias], is, target)
	}
	return ""
}

// a finished scenario's names are never used again: its segment stores (tens of MB of buffers each) are
// removed, whatever table name they were filed under
func dropScenario(scn int) {
	for _, ix := range scnNames[scn] {
		writer.DeleteVirtualTableSegStore(indexNames[ix])
	}
}

// records held by the unrotated segment stores, per VirtualTableName
func tableCounts() map[string]uint64 {
	m := map[string]*structs.VtableCounts{}
	writer.GetUnrotatedVTableCountsForAll(0, m)
	out := map[string]uint64{}
	for k, v := range m {
		out[k] = v.RecordCount
	}
	return out
}

// timestamps of {"timestamp":T} documents: tsOnlyBase + evalNo*100 + line number (the ordinary lines use 1700000000000+n)
const tsOnlyBase = 1710000000000

// the JSON text of the unsafe names inside the quotes of "_index"
var unsafeJSON = map[int]string{21: "", 22: ".", 23: "..", 24: "a/b", 25: `..\/x`, 26: `a\\b`}

func unsafeIdx(ix int) bool { return ix >= 20 && ix < 30 }

// one body line as the generator made it (shape + how the bulk grammar reads it)
type lineSpec struct {
	Shape  string `json:"shape"`           // generator's name of the form
	Act    int    `json:"-"`               // read as an action line
	Idx    int    `json:"index,omitempty"` // _index of the action (number of indexNames)
	Parses bool   `json:"doc_parses"`      // read as a document line: a JSON object
	Pad    int    `json:"pad,omitempty"`   // length of the padding string
	Target int    `json:"target_len,omitempty"`
}

func (l lineSpec) render(tag string, n int) string {
	switch l.Shape {
	case "doc_ts_only": // no field besides the timestamp key
		return fmt.Sprintf(`{"timestamp":%d}`, tsOnlyBase+evalNo*100+n)
	case "doc_empty_obj":
		return "{}"
	}
	id := fmt.Sprintf("%sd%d", tag, n)
	common := fmt.Sprintf(`"id":"%s","g":"%s","timestamp":%d`, id, tag, 1700000000000+int64(n))
	verb := func(v string) string {
		if l.Idx == 20 {
			return fmt.Sprintf(`{"%s":{},%s}`, v, common)
		}
		if unsafeIdx(l.Idx) {
			return fmt.Sprintf(`{"%s":{"_index":"%s"},%s}`, v, unsafeJSON[l.Idx], common)
		}
		return fmt.Sprintf(`{"%s":{"_index":"%s"},%s}`, v, indexNames[l.Idx], common)
	}
	switch l.Shape {
	case "index":
		return verb("index")
	case "create":
		return verb("create")
	case "update":
		return verb("update")
	case "delete":
		return verb("delete")
	case "verb_unknown":
		return verb("frobnicate")
	case "index_not_object":
		return fmt.Sprintf(`{"index":"%s",%s}`, indexNames[l.Idx], common)
	case "garbage":
		return "this is not json " + id
	case "empty":
		return ""
	case "doc":
		return fmt.Sprintf(`{%s,"v":%d,"w":"alpha beta"}`, common, n)
	case "doc_nested":
		return fmt.Sprintf(`{%s,"o":{"a":[1,2,{"b":"c"}],"s":"x y"},"n":null,"t":true}`, common)
	case "doc_sized": // exactly Target bytes
		base := fmt.Sprintf(`{%s,"p":""}`, common)
		return fmt.Sprintf(`{%s,"p":"%s"}`, common, strings.Repeat("p", l.Target-len(base)))
	case "doc_truncated":
		return fmt.Sprintf(`{%s,"v":`, common)
	case "doc_array":
		return fmt.Sprintf(`[{%s}]`, common)
	case "doc_scalar":
		return fmt.Sprintf(`"%s"`, id)
	case "garbage_sized":
		return strings.Repeat("z", l.Target)
	}
	panic("shape " + l.Shape)
}

func mk(shape string, idx int) lineSpec {
	l := lineSpec{Shape: shape, Idx: idx}
	switch shape {
	case "index":
		l.Act, l.Parses = kIndex, true
	case "create":
		l.Act, l.Parses = kCreate, true
	case "update":
		l.Act, l.Parses = kUpdate, true
	case "delete":
		l.Act, l.Parses = kDelete, true
	case "verb_unknown":
		l.Act, l.Parses = kUnknown, true
	case "index_not_object":
		l.Act, l.Parses = kBadJson, true
	case "garbage", "empty", "garbage_sized":
		l.Act, l.Parses = kBadJson, false
	case "doc", "doc_nested", "doc_sized", "doc_ts_only", "doc_empty_obj":
		l.Act, l.Parses = kUnknown, true
	case "doc_truncated", "doc_array", "doc_scalar":
		l.Act, l.Parses = kUnknown, false
	default:
		panic(shape)
	}
	return l
}
func sized(shape string, n int) lineSpec { l := mk(shape, 0); l.Target = n; return l }

// the bulk grammar (mirror of SigM.Bulk.actions): index/create/update take the next
// line as their document, everything else in action position stands alone
type action struct {
	Kind   string // write | update | other
	ALine  int    // line number of the action line
	DLine  int    // line number of the document line, -1 = the body ends
	Idx    int
	OK     bool // well-formed write: must be created and stored
	Over   bool // its document is oversize
	HasDoc bool
}

func grammar(lines []lineSpec, lens []int, finalNL bool) []action {
	var out []action
	// the body's lines: a blank last line (the body ends in "\n\n") is not a line
	if finalNL && len(lines) > 0 && lens[len(lines)-1] == 0 {
		lines, lens = lines[:len(lines)-1], lens[:len(lens)-1]
	}
	for i := 0; i < len(lines); {
		l := lines[i]
		switch l.Act {
		case kIndex, kCreate, kUpdate:
			a := action{Kind: "write", ALine: i, DLine: -1, Idx: l.Idx}
			if l.Act == kUpdate {
				a.Kind = "update"
			}
			if i+1 < len(lines) {
				a.DLine, a.HasDoc = i+1, true
				if a.Kind == "write" {
					d := lines[i+1]
					// an unusable index name is a plain failure (400) of this action, whatever its document is
					a.Over = !unsafeIdx(l.Idx) && lens[i+1] >= maxRec
					a.OK = !unsafeIdx(l.Idx) && lens[i+1] > 0 && lens[i+1] < maxRec && d.Parses
				}
			}
			out = append(out, a)
			i += 2
		default:
			out = append(out, action{Kind: "other", ALine: i, DLine: -1, Idx: l.Idx})
			i++
		}
	}
	return out
}

func expectedStatus(a action) int {
	if a.OK {
		return 201
	}
	if a.Over {
		return 413
	}
	return 400
}

// ---------- one evaluation ----------

type bodyCase struct {
	Stream   string     `json:"stream"`
	Lines    []lineSpec `json:"lines"`
	FinalNL  bool       `json:"final_newline"`
	BadIndex []int      `json:"unstorable_indexes,omitempty"`
	Prelude  []preReq   `json:"earlier_requests,omitempty"` // served (after the pools were emptied) before the bulk request
	Scn      int        `json:"alias_scenario,omitempty"`   // stream "alias": scenario number (0 = none); the steps of a scenario share its names
	AliasOps [][2]int   `json:"-"`                          // (alias, index): PUT _alias requests served before this request (once per process)
}

// ---------- requests of the other ingest entry points ----------

// one request served before the bulk request under test
type preReq struct {
	Proto  string `json:"protocol"`                    // splunk_hec | loki_json | loki_promtail | otlp_logs | es_single_doc | es_bulk
	Idxs   []int  `json:"-"`                           // index number of every accepted document
	Bad    int    `json:"failing_documents,omitempty"` // es_bulk: documents on which GetNewPLE fails
	Reject bool   `json:"rejected,omitempty"`          // answered with an error AFTER the accepted documents were parsed
	Body   string `json:"body"`                        // the request body (otlp_logs: a description of the protobuf message)
	Want   int    `json:"expected_http_status"`
	raw    []byte
	gets   [][2]int // GetNewPLE calls in order: (index number, 1 = accepted)
}

var protoCoq = map[string]string{"splunk_hec": "PSplunkHec", "loki_json": "PLoki", "loki_promtail": "PLoki", "otlp_logs": "POtlpLogs", "es_single_doc": "PEsDoc", "es_bulk": "PBulk"}

func mkPre(protocol string, idxs []int, bad int, reject bool) preReq {
	p := preReq{Proto: protocol, Idxs: append([]int{}, idxs...), Bad: bad, Reject: reject, Want: 200}
	doc := func(i int) string {
		return fmt.Sprintf(`"id":"pre%d","g":"pre","timestamp":%d`, i, 1690000000000+int64(i))
	}
	for _, ix := range idxs {
		p.gets = append(p.gets, [2]int{ix, 1})
	}
	switch protocol {
	case "splunk_hec":
		var sb strings.Builder
		for i, ix := range idxs {
			fmt.Fprintf(&sb, `{"index":"%s","event":"hec event %d",%s}`+"\n", indexNames[ix], i, doc(i))
		}
		if reject { // getPLE: "Index field should be a string", after the records before it were parsed
			sb.WriteString(`{"index":7,"event":"the index is not a string"}` + "\n")
			p.Want = 400
		}
		p.Body = sb.String()
	case "loki_json":
		var vals []string
		for i := range idxs {
			vals = append(vals, fmt.Sprintf(`["%d","loki line pre%d"]`, 1690000000000000000+int64(i), i))
		}
		if reject { // "Invalid line format", after the lines before it were parsed
			vals = append(vals, `["1690000000000000000",5]`)
			p.Want = 400
		}
		p.Body = `{"streams":[{"stream":{"job":"c15","g":"pre"},"values":[` + strings.Join(vals, ",") + `]}]}`
	case "loki_promtail": // snappy-compressed protobuf push request
		st := &lokilog.StreamAdapter{Labels: `{job="c15", g="pre"}`}
		for i := range idxs {
			st.Entries = append(st.Entries, &lokilog.EntryAdapter{Timestamp: timestamppb.New(time.UnixMilli(1690000000000 + int64(i))), Line: fmt.Sprintf("promtail line pre%d", i)})
		}
		pb, _ := proto.Marshal(&lokilog.PushRequest{Streams: []*lokilog.StreamAdapter{st}})
		p.raw = snappy.Encode(nil, pb)
		p.Body = fmt.Sprintf(`snappy(PushRequest{stream {job="c15", g="pre"}: %d entries})`, len(idxs))
	case "otlp_logs":
		req := &collogpb.ExportLogsServiceRequest{}
		var desc []string
		for i, ix := range idxs {
			rl := &logpb.ResourceLogs{Resource: &resourcepb.Resource{}}
			if ix != 61 {
				rl.Resource.Attributes = []*commonpb.KeyValue{{Key: "siglensIndexName", Value: &commonpb.AnyValue{Value: &commonpb.AnyValue_StringValue{StringValue: indexNames[ix]}}}}
			}
			rl.ScopeLogs = []*logpb.ScopeLogs{{LogRecords: []*logpb.LogRecord{{TimeUnixNano: uint64(1690000000000+int64(i)) * 1000000, SeverityText: "INFO",
				Body: &commonpb.AnyValue{Value: &commonpb.AnyValue_StringValue{StringValue: fmt.Sprintf("otlp record pre%d", i)}}}}}}
			req.ResourceLogs = append(req.ResourceLogs, rl)
			desc = append(desc, fmt.Sprintf("resource(index %s){1 log record}", indexNames[ix]))
		}
		p.raw, _ = proto.Marshal(req)
		p.Body = "ExportLogsServiceRequest{" + strings.Join(desc, ", ") + "}"
	case "es_single_doc":
		if reject { // not JSON: refused before any document is parsed
			p.Body, p.Want, p.Idxs, p.gets = `{"id":`, 400, nil, nil
		} else {
			p.Body = "{" + doc(0) + "}"
		}
	case "es_bulk":
		var sb strings.Builder
		for i, ix := range idxs {
			fmt.Fprintf(&sb, `{"index":{"_index":"%s"}}`+"\n{%s}\n", indexNames[ix], doc(i))
		}
		for i := 0; i < bad; i++ {
			fmt.Fprintf(&sb, `{"index":{"_index":"c15p0"}}`+"\n{%s,\"v\":\n", doc(100+i))
			p.gets = append(p.gets, [2]int{50, 0})
		}
		p.Body = sb.String()
	default:
		panic(protocol)
	}
	if p.raw == nil {
		p.raw = []byte(p.Body)
	}
	return p
}

func mkctx(body []byte, ctype string) *fasthttp.RequestCtx {
	ctx := &fasthttp.RequestCtx{}
	ctx.Request.Header.SetMethod("POST")
	ctx.Request.Header.SetContentType(ctype)
	ctx.Request.SetBody(body)
	return ctx
}

// serves the request through the real entry point; "" or what went wrong
func (p preReq) run() (herr string) {
	defer func() {
		if r := recover(); r != nil {
			herr = fmt.Sprintf("%s request panicked: %v", p.Proto, r)
		}
	}()
	var ctx *fasthttp.RequestCtx
	switch p.Proto {
	case "splunk_hec":
		ctx = mkctx(p.raw, "application/json")
		splunk.ProcessSplunkHecIngestRequest(ctx, 0)
	case "loki_json":
		ctx = mkctx(p.raw, "application/json")
		loki.ProcessLokiLogsIngestRequest(ctx, 0)
	case "loki_promtail":
		ctx = mkctx(p.raw, "application/x-protobuf")
		loki.ProcessLokiLogsIngestRequest(ctx, 0)
	case "otlp_logs":
		ctx = mkctx(p.raw, "application/x-protobuf")
		otlp.ProcessLogIngest(ctx, 0)
	case "es_single_doc":
		ctx = mkctx(p.raw, "application/json")
		ctx.SetUserValue("indexName", indexNames[50])
		if len(p.Idxs) > 0 {
			ctx.SetUserValue("indexName", indexNames[p.Idxs[0]])
		}
		eswriter.ProcessPutPostSingleDocRequest(ctx, false, 0)
	case "es_bulk":
		_, _, err := eswriter.HandleBulkBody(p.raw, nil, 0, 0, false)
		if (err == nil) != (len(p.Idxs) > 0) {
			return fmt.Sprintf("earlier es_bulk request: error %v with %d good documents", err, len(p.Idxs))
		}
		return ""
	}
	if st := ctx.Response.StatusCode(); st != p.Want {
		return fmt.Sprintf("earlier %s request answered %d, expected %d: %s", p.Proto, st, p.Want, ctx.Response.Body())
	}
	return ""
}

// empties every sync.Pool of the process (two collections: the first one moves the pools to their victim caches)
func purgePools() {
	runtime.GC()
	runtime.GC()
}

const afterSuffix = "_after_other_ingest"

func preSummary(ps []preReq) string {
	var out []string
	for _, p := range ps {
		t := fmt.Sprintf("%s(%d documents", p.Proto, len(p.Idxs))
		if p.Bad > 0 {
			t += fmt.Sprintf(", %d failing", p.Bad)
		}
		if p.Reject {
			t += ", rejected"
		}
		out = append(out, t+")")
	}
	return strings.Join(out, ", ")
}

// the bulk request after the case's earlier requests.  The oracle is the one of every other stream; a
// failure that the same body does NOT show when it is served alone (pools emptied) is the history's doing
// and gets its own class <class>_after_other_ingest.
func evaluate(c bodyCase) (obs observation, fails []failure, texts []string, lens []int, herr string) {
	if len(c.Prelude) == 0 {
		return evaluateCore(c)
	}
	purgePools()
	for _, p := range c.Prelude {
		if herr = p.run(); herr != "" {
			return
		}
	}
	obs, fails, texts, lens, herr = evaluateCore(c)
	if herr != "" || len(fails) == 0 {
		return
	}
	purgePools()
	alone := c
	alone.Prelude = nil
	_, fs2, _, _, he2 := evaluateCore(alone)
	for i := range fails {
		if he2 == "" && !hasClass(fs2, fails[i].class) {
			fails[i].class += afterSuffix
			fails[i].detail = fmt.Sprintf("bulk request served after %s: %s (the same body served alone, pools emptied: no such failure)", preSummary(c.Prelude), fails[i].detail)
		}
	}
	return
}

type observation struct {
	Items     []int
	Errors    bool
	Processed int
	AllFailed bool
	Found     [][2]int // (index number, line number) per search hit
	Stray     []string
	Names     []int    // alias scenarios: the names searched
	Tables    [][2]int // alias scenarios: (name, growth of the record count of the unrotated stores filed under that name)
}

type failure struct{ class, detail string }

var evalNo int

func describe(c bodyCase, texts []string) interface{} {
	var ls []string
	for _, t := range texts {
		if len(t) > 200 {
			t = fmt.Sprintf("%s…<%d bytes in all>", t[:120], len(t))
		}
		ls = append(ls, t)
	}
	d := map[string]interface{}{"stream": c.Stream, "body_lines": ls, "final_newline": c.FinalNL, "shapes": c.Lines}
	if c.Scn != 0 {
		names := map[string]string{}
		for _, ix := range scnNames[c.Scn] {
			names[indexNames[ix]] = "index"
			if t, ok := aliasOf[ix]; ok {
				names[indexNames[ix]] = "becomes an alias of " + indexNames[t] + " when its PUT _alias request is served"
			}
		}
		d["alias_scenario"] = map[string]interface{}{"names": names, "earlier_requests_of_the_scenario": scnLog[c.Scn],
			"alias_definitions_before_this_request": aliasOpsText(c.AliasOps),
			"note":                                  "one process; every request is followed by a flush and by queries on every name of the scenario; PUT /<index>/_alias/<alias> through ProcessPutAliasesRequest"}
	}
	if len(c.Prelude) > 0 {
		d["earlier_requests_of_the_process"] = c.Prelude
		d["note"] = "the process-wide pools are emptied (two garbage collections), the earlier requests are served in order, then the bulk body"
	}
	return d
}

// what was served in the scenario before the request at hand (for the replay)
var scnLog = map[int][]interface{}{}

func aliasOpsText(ops [][2]int) []string {
	out := []string{}
	for _, op := range ops {
		out = append(out, fmt.Sprintf("PUT /%s/_alias/%s", indexNames[op[1]], indexNames[op[0]]))
	}
	return out
}

func statusOf(item interface{}) int {
	m, ok := item.(map[string]interface{})
	if !ok {
		return -1
	}
	if s, ok := m["status"].(float64); ok {
		return int(s)
	}
	for _, v := range m {
		if mm, ok := v.(map[string]interface{}); ok {
			if s, ok := mm["status"].(float64); ok {
				return int(s)
			}
		}
	}
	return -1
}

// runs the real code on the case; returns observation, oracle failures, rendered lines
func evaluateCore(c bodyCase) (obs observation, fails []failure, texts []string, lens []int, herr string) {
	p, herr := prepare(c)
	if herr != "" {
		return
	}
	p.serve()
	if p.parseResponse() {
		// ---- the next flush, then search every index for this body's documents ----
		flush()
		herr = p.judge()
	}
	return p.obs, p.fails, p.texts, p.lens, herr
}

// one bulk request on its way through the harness: prepare (render; sequential), serve (the real HandleBulkBody;
// touches nothing but p, so several requests may be served at the same time), parseResponse, [flush], judge
// (searches + the property oracle; sequential)
type prepared struct {
	c      bodyCase
	no     int // evaluation number: tag k<no>, timestamps of {"timestamp":T} documents
	tag    string
	texts  []string
	lens   []int
	body   string
	acts   []action
	before map[string]uint64
	respJS []byte
	t0, t1 uint64
	obs    observation
	fails  []failure
	// concurrent waves: the items as the response carried them, when they are not this request's own (see conc.go)
	overwritten bool
	rawItems    []int
}

func prepare(c bodyCase) (p *prepared, herr string) {
	evalNo++
	p = &prepared{c: c, no: evalNo, tag: fmt.Sprintf("k%d", evalNo)}
	for i, l := range c.Lines {
		t := l.render(p.tag, i)
		p.texts = append(p.texts, t)
		p.lens = append(p.lens, len(t))
	}
	p.body = strings.Join(p.texts, "\n")
	if c.FinalNL {
		p.body += "\n"
	}
	p.acts = grammar(c.Lines, p.lens, c.FinalNL)

	// ---- alias scenarios: the alias definitions that precede this request, the stores' record counts ----
	for _, op := range c.AliasOps {
		if !aliasDefined[op[0]] {
			if herr = putAlias(op[1], op[0]); herr != "" {
				return
			}
			aliasDefined[op[0]] = true
		}
	}
	if c.Scn != 0 {
		p.before = tableCounts()
	}
	return
}

// ---- the real HandleBulkBody ----
func (p *prepared) serve() {
	defer func() {
		if r := recover(); r != nil {
			p.fails = append(p.fails, failure{"bulk_handler_panic", fmt.Sprintf("HandleBulkBody panicked: %v", r)})
		}
	}()
	time.Sleep(2 * time.Millisecond) // {} documents get the arrival time: keep the windows of consecutive bodies apart
	p.t0 = uint64(time.Now().UnixMilli())
	n, resp, err := eswriter.HandleBulkBody([]byte(p.body), nil, 0, 0, false)
	p.t1 = uint64(time.Now().UnixMilli())
	p.obs.Processed, p.obs.AllFailed = n, err != nil
	p.respJS, _ = json.Marshal(resp) // as utils.WriteJsonResponse does, before the pooled items slice is reused
}

func (p *prepared) parseResponse() bool {
	if p.respJS == nil {
		return false
	}
	var resp struct {
		Errors *bool         `json:"errors"`
		Items  []interface{} `json:"items"`
	}
	if err := json.Unmarshal(p.respJS, &resp); err != nil || resp.Errors == nil {
		p.fails = append(p.fails, failure{"bulk_response_malformed", "response is not {errors, items}: " + string(p.respJS[:min(len(p.respJS), 200)])})
		return false
	}
	p.obs.Errors = *resp.Errors
	for _, it := range resp.Items {
		p.obs.Items = append(p.obs.Items, statusOf(it))
	}
	return true
}

// after the flush: search every index for this body's documents, then the property on the observables
func (p *prepared) judge() (herr string) {
	c, evalNo, tag, texts, acts, before, t0, t1 := p.c, p.no, p.tag, p.texts, p.acts, p.before, p.t0, p.t1
	obs, fails := p.obs, p.fails
	defer func() { p.obs, p.fails = obs, fails }()
	used := map[int]bool{}
	for _, l := range c.Lines {
		if l.Idx != 0 {
			used[l.Idx] = true
		}
	}
	if c.Scn != 0 { // every name of the scenario is searched: index names and aliases
		after := tableCounts()
		for _, ix := range scnNames[c.Scn] {
			used[ix] = true
			obs.Tables = append(obs.Tables, [2]int{ix, int(after[indexNames[ix]]) - int(before[indexNames[ix]])})
		}
	}
	var idxs []int
	for i := range used {
		idxs = append(idxs, i)
	}
	sort.Ints(idxs)
	total := 0
	for _, ix := range idxs {
		if unsafeIdx(ix) { // no such index can exist; anything stored anywhere shows in the search over "*"
			continue
		}
		if c.Scn != 0 {
			obs.Names = append(obs.Names, ix)
		}
		hits, err := searchRange(indexNames[ix], "g="+tag, 1600000000000, 1700000000999)
		if err != nil {
			if ix == 9 { // the index that cannot exist
				continue
			}
			herr = fmt.Sprintf("search in %s failed: %v", indexNames[ix], err)
			return
		}
		for _, h := range hits {
			id, _ := h["id"].(string)
			var n int
			if _, e := fmt.Sscanf(id, tag+"d%d", &n); e != nil || n < 0 || n >= len(c.Lines) {
				obs.Stray = append(obs.Stray, indexNames[ix]+"/"+id)
				continue
			}
			obs.Found = append(obs.Found, [2]int{ix, n})
			if !aliasDefined[ix] { // a hit through an alias is the same record seen again
				total++
			}
			fails = append(fails, contentMismatch(n, texts[n], h)...)
		}
	}
	// documents without any field cannot carry the tag: {"timestamp":T} is found by its own T,
	// {} by the arrival window of this request (count equality per index)
	fieldless := false
	for _, l := range c.Lines {
		fieldless = fieldless || l.Shape == "doc_ts_only" || l.Shape == "doc_empty_obj"
	}
	if fieldless {
		for _, ix := range idxs {
			if unsafeIdx(ix) || ix == 9 {
				continue
			}
			base := uint64(tsOnlyBase + evalNo*100)
			hits, err := searchRange(indexNames[ix], "*", base, base+99)
			if err != nil {
				herr = fmt.Sprintf("range search in %s failed: %v", indexNames[ix], err)
				return
			}
			for _, h := range hits {
				n := -1
				switch v := h["timestamp"].(type) {
				case uint64:
					n = int(v - base)
				case int64:
					n = int(uint64(v) - base)
				case float64:
					n = int(uint64(v) - base)
				case json.Number:
					x, _ := v.Int64()
					n = int(uint64(x) - base)
				}
				if n < 0 || n >= len(c.Lines) || c.Lines[n].Shape != "doc_ts_only" || len(h) != 1 {
					obs.Stray = append(obs.Stray, fmt.Sprintf("%s/%v", indexNames[ix], h))
					continue
				}
				obs.Found = append(obs.Found, [2]int{ix, n})
			}
			hits, err = searchRange(indexNames[ix], "*", t0, t1)
			if err != nil {
				herr = fmt.Sprintf("window search in %s failed: %v", indexNames[ix], err)
				return
			}
			// the {} documents of this body that the grammar sends to this index, in order
			var mine []int
			for _, a := range acts {
				if a.Kind == "write" && a.HasDoc && a.Idx == ix && c.Lines[a.DLine].Shape == "doc_empty_obj" {
					mine = append(mine, a.DLine)
				}
			}
			for k, h := range hits {
				if len(h) != 1 || k >= len(mine) {
					obs.Stray = append(obs.Stray, fmt.Sprintf("%s/%v (arrival window)", indexNames[ix], h))
					continue
				}
				obs.Found = append(obs.Found, [2]int{ix, mine[k]})
			}
		}
	}
	all, err := search("*", tag)
	if err != nil {
		herr = "search in * failed: " + err.Error()
		return
	}
	if len(all) != total+len(obs.Stray) {
		obs.Stray = append(obs.Stray, fmt.Sprintf("%d hits over all indexes but %d in the body's indexes", len(all), total))
	}

	// ---- the property, on the observables ----
	count := func(ix, line int) int {
		n := 0
		for _, f := range obs.Found {
			if f[0] == ix && f[1] == line {
				n++
			}
		}
		return n
	}
	claimed := map[[2]int]bool{}
	// the names searched in this case that stand for the same index as ix (ix itself first): the index
	// name and every alias of it; outside the alias scenarios just ix
	views := func(ix int) []int {
		out := []int{ix}
		if c.Scn != 0 {
			for _, v := range scnNames[c.Scn] {
				if v != ix && resolveIdx(v) == resolveIdx(ix) {
					out = append(out, v)
				}
			}
		}
		return out
	}
	nameOf := func(ix int) string {
		if aliasDefined[ix] {
			return fmt.Sprintf("%s (alias of %s)", indexNames[ix], indexNames[aliasOf[ix]])
		}
		return indexNames[ix] + " (index)"
	}
	// one item per action, in request order
	if len(obs.Items) != len(acts) {
		var last action
		if len(acts) > 0 {
			last = acts[len(acts)-1]
		}
		if len(acts) > 0 && len(obs.Items) == len(acts)-1 && !last.HasDoc {
			fails = append(fails, failure{"bulk_trailing_action_without_doc",
				fmt.Sprintf("%d actions, %d items: the last action (line %d %q, no document line follows) has no item", len(acts), len(obs.Items), last.ALine, c.Lines[last.ALine].Shape)})
		} else {
			fails = append(fails, failure{"bulk_item_count_mismatch", fmt.Sprintf("%d actions but %d items", len(acts), len(obs.Items))})
		}
	}
	anyFailed, only413 := false, true
	overBefore := false
	for i, a := range acts {
		if a.HasDoc && a.Kind == "write" {
			for _, v := range views(a.Idx) {
				claimed[[2]int{v, a.DLine}] = true
			}
		}
		if i >= len(obs.Items) {
			if a.HasDoc && a.Kind == "write" && count(a.Idx, a.DLine) > 0 {
				fails = append(fails, failure{"bulk_stored_without_item", fmt.Sprintf("action %d has no item but its document is searchable", i)})
			}
			continue
		}
		st := obs.Items[i]
		if st != 201 {
			anyFailed = true
			if st != 413 {
				only413 = false
			}
		}
		// created iff searchable exactly once; failed items are not stored
		if st == 201 {
			switch {
			case !(a.HasDoc && a.Kind == "write"):
				fails = append(fails, failure{"bulk_created_without_document", fmt.Sprintf("item %d is 201 but action %d (%s) has no document", i, i, a.Kind)})
			case count(a.Idx, a.DLine) == 0 && len(indexNames[a.Idx]) > 255:
				fails = append(fails, failure{"bulk_store_failure_reported_created",
					fmt.Sprintf("item %d is 201, errors=%v, but the document is not searchable: its index name has %d bytes and the store call failed", i, obs.Errors, len(indexNames[a.Idx]))})
			case count(a.Idx, a.DLine) == 0 && a.Idx >= 40 && strings.HasSuffix(c.Stream, "/step2"):
				fails = append(fails, failure{"bulk_created_after_fieldless_first_block_not_searchable",
					fmt.Sprintf("item %d is 201, errors=%v, but document line %d is not found in %s after the flush: the first block of that index's segment held only documents without any field", i, obs.Errors, a.DLine, indexNames[a.Idx])})
			case count(a.Idx, a.DLine) == 0 && !aliasDefined[a.Idx]:
				fails = append(fails, failure{"bulk_created_but_not_searchable", fmt.Sprintf("item %d is 201 but document line %d is not found in %s after the flush", i, a.DLine, indexNames[a.Idx])})
			case count(a.Idx, a.DLine) > 1:
				fails = append(fails, failure{"bulk_created_but_duplicated", fmt.Sprintf("item %d is 201 and document line %d is found %d times", i, a.DLine, count(a.Idx, a.DLine))})
			default:
				// created means searchable under the index AND through every alias of it, whichever name the action used
				for _, v := range views(a.Idx) {
					switch n := count(v, a.DLine); {
					case n == 0 && aliasDefined[a.Idx]:
						fails = append(fails, failure{"bulk_created_through_alias_not_searchable",
							fmt.Sprintf("item %d is 201 (errors=%v) for a write into %s, but document line %d is not found by a query on %s after the flush", i, obs.Errors, nameOf(a.Idx), a.DLine, nameOf(v))})
					case n == 0:
						fails = append(fails, failure{"bulk_created_not_searchable_through_alias",
							fmt.Sprintf("item %d is 201 for a write into %s and document line %d is found there, but not by a query on %s", i, nameOf(a.Idx), a.DLine, nameOf(v))})
					case n > 1:
						fails = append(fails, failure{"bulk_created_but_duplicated", fmt.Sprintf("item %d is 201 and document line %d is found %d times by a query on %s", i, a.DLine, n, nameOf(v))})
					}
				}
			}
		} else if a.HasDoc && a.Kind == "write" {
			for _, v := range views(a.Idx) {
				if count(v, a.DLine) > 0 {
					fails = append(fails, failure{"bulk_failed_item_but_stored", fmt.Sprintf("item %d is %d but document line %d is searchable in %s", i, st, a.DLine, indexNames[v])})
					break
				}
			}
		}
		// a bad action affects only its own item: item i is what action i deserves on its own
		want := expectedStatus(a)
		switch {
		case st == want:
		case want == 201:
			fails = append(fails, failure{"bulk_good_action_rejected", fmt.Sprintf("item %d is %d for a well-formed write (document line %d)", i, st, a.DLine)})
		case st == 201:
			fails = append(fails, failure{"bulk_bad_action_acknowledged", fmt.Sprintf("item %d is 201 but the action deserves %d", i, want)})
		case st == 413 && want == 400 && overBefore:
			fails = append(fails, failure{"bulk_oversize_status_sticky", fmt.Sprintf("item %d reports 413 (request entity too large) for an action that is not oversize (deserves 400); an earlier document was oversize", i)})
		default:
			fails = append(fails, failure{"bulk_item_status_wrong", fmt.Sprintf("item %d is %d, the action deserves %d", i, st, want)})
		}
		if a.Over {
			overBefore = true
		}
	}
	// nothing else is stored
	for _, f := range obs.Found {
		if !claimed[f] {
			fails = append(fails, failure{"bulk_unexpected_document", fmt.Sprintf("line %d is searchable in %s but is not the document of a write action there", f[1], indexNames[f[0]])})
		}
	}
	for _, s := range obs.Stray {
		fails = append(fails, failure{"bulk_unexpected_document", "stray hit: " + s})
	}
	// an alias is only a name for queries and requests: no segment store may be filed under it
	for _, t := range obs.Tables {
		if aliasDefined[t[0]] && t[1] != 0 {
			fails = append(fails, failure{"bulk_documents_filed_under_alias_name",
				fmt.Sprintf("the request added %d records to segment stores whose table name is %s; queries expand the alias to %s and never read them", t[1], nameOf(t[0]), indexNames[aliasOf[t[0]]])})
		}
	}
	// errors iff some item failed
	if obs.Errors != anyFailed {
		if !obs.Errors && only413 {
			fails = append(fails, failure{"bulk_oversize_item_not_in_errors_flag", fmt.Sprintf("errors=false although items %v contain a 413", obs.Items)})
		} else {
			fails = append(fails, failure{"bulk_errors_flag_wrong", fmt.Sprintf("errors=%v with items %v", obs.Errors, obs.Items)})
		}
	}
	return
}

// ---------- generators ----------

func pickIdx(r *vhlib.Rng, nIdx int) int { return 1 + r.Intn(nIdx) }

func goodDoc(r *vhlib.Rng) lineSpec {
	switch r.Intn(10) {
	case 0, 1:
		return mk("doc_nested", 0)
	case 2:
		return sized("doc_sized", r.Range(200, 3000))
	default:
		return mk("doc", 0)
	}
}
func badDoc(r *vhlib.Rng) lineSpec {
	return mk(vhlib.Pick(r, []string{"doc_truncated", "doc_array", "doc_scalar", "garbage", "empty"}), 0)
}
func writeVerb(r *vhlib.Rng, nIdx int) lineSpec {
	if r.Chance(75) {
		return mk("index", pickIdx(r, nIdx))
	}
	return mk("create", pickIdx(r, nIdx))
}
func loneAction(r *vhlib.Rng, nIdx int) lineSpec {
	switch r.Intn(10) {
	case 0, 1, 2, 3:
		return mk("delete", pickIdx(r, nIdx))
	case 4, 5:
		return mk("verb_unknown", pickIdx(r, nIdx))
	case 6:
		return mk("index_not_object", pickIdx(r, nIdx))
	case 7:
		return mk("garbage", 0)
	case 8:
		return mk("empty", 0)
	default:
		return mk("doc", 0) // a document line where an action is expected
	}
}

// a group of lines forming one or two actions
func someAction(r *vhlib.Rng, nIdx int, allow400 bool) []lineSpec {
	p := r.Intn(100)
	switch {
	case p < 55 || !allow400:
		return []lineSpec{writeVerb(r, nIdx), goodDoc(r)}
	case p < 70:
		return []lineSpec{writeVerb(r, nIdx), badDoc(r)}
	case p < 78:
		return []lineSpec{mk("update", pickIdx(r, nIdx)), goodDoc(r)}
	case p < 94:
		return []lineSpec{loneAction(r, nIdx)}
	case p < 97: // document line missing: the next action line is taken as the document
		return []lineSpec{writeVerb(r, nIdx), writeVerb(r, nIdx), goodDoc(r)}
	default: // size just below the limit
		return []lineSpec{writeVerb(r, nIdx), sized("doc_sized", maxRec-1)}
	}
}
func overAction(r *vhlib.Rng, nIdx int) []lineSpec {
	switch r.Intn(4) {
	case 0:
		return []lineSpec{writeVerb(r, nIdx), sized("doc_sized", maxRec)} // exactly the limit
	case 1:
		return []lineSpec{writeVerb(r, nIdx), sized("garbage_sized", maxRec+r.Intn(50))}
	default:
		return []lineSpec{writeVerb(r, nIdx), sized("doc_sized", maxRec+r.Intn(3000))}
	}
}
func closing(r *vhlib.Rng, nIdx int) []lineSpec {
	if r.Chance(12) {
		return []lineSpec{mk("update", pickIdx(r, nIdx)), goodDoc(r)}
	}
	if r.Chance(15) {
		return []lineSpec{writeVerb(r, nIdx), badDoc2(r)}
	}
	return []lineSpec{writeVerb(r, nIdx), goodDoc(r)}
}

// a bad document that is a non-empty line (a body may not end in an empty line in the main stream)
func badDoc2(r *vhlib.Rng) lineSpec {
	return mk(vhlib.Pick(r, []string{"doc_truncated", "doc_array", "doc_scalar", "garbage"}), 0)
}

func genMain(r *vhlib.Rng) bodyCase {
	nIdx := r.Range(1, 4)
	c := bodyCase{Stream: "main", FinalNL: r.Chance(75)}
	n := r.Range(0, 8)
	if r.Chance(12) { // an oversize document after a 400 item and with no 400-deserving action after it
		k := r.Range(0, 2)
		for i := 0; i < k; i++ {
			c.Lines = append(c.Lines, someAction(r, nIdx, true)...)
		}
		c.Lines = append(c.Lines, loneAction(r, nIdx))
		for i := 0; i < r.Range(1, 2); i++ {
			c.Lines = append(c.Lines, overAction(r, nIdx)...)
			if r.Bool() {
				c.Lines = append(c.Lines, someAction(r, nIdx, false)...)
			}
		}
		c.Lines = append(c.Lines, writeVerb(r, nIdx), goodDoc(r))
		return c
	}
	for i := 0; i < n; i++ {
		c.Lines = append(c.Lines, someAction(r, nIdx, true)...)
	}
	c.Lines = append(c.Lines, closing(r, nIdx)...)
	return c
}

// repaired class 1: the body ends with an action that has no document line
func genTrailing(r *vhlib.Rng) bodyCase {
	nIdx := r.Range(1, 3)
	c := bodyCase{Stream: "regression/trailing_action", FinalNL: r.Chance(70)}
	for i := 0; i < r.Range(0, 3); i++ {
		c.Lines = append(c.Lines, someAction(r, nIdx, true)...)
	}
	switch r.Intn(4) {
	case 0:
		c.Lines = append(c.Lines, mk("delete", pickIdx(r, nIdx)))
	case 1:
		c.Lines = append(c.Lines, writeVerb(r, nIdx))
	case 2:
		c.Lines = append(c.Lines, mk("update", pickIdx(r, nIdx)))
	default:
		l := loneAction(r, nIdx)
		if l.Shape == "empty" {
			c.FinalNL = true // an empty last line exists only through its newline
		}
		c.Lines = append(c.Lines, l)
	}
	return c
}

// repaired classes 2 and 3: oversize documents anywhere
func genOversize(r *vhlib.Rng) bodyCase {
	nIdx := r.Range(1, 3)
	c := bodyCase{Stream: "regression/oversize", FinalNL: r.Chance(75)}
	for i := 0; i < r.Range(0, 2); i++ {
		c.Lines = append(c.Lines, someAction(r, nIdx, false)...)
	}
	c.Lines = append(c.Lines, overAction(r, nIdx)...)
	for i := 0; i < r.Range(0, 3); i++ {
		c.Lines = append(c.Lines, someAction(r, nIdx, r.Bool())...)
	}
	c.Lines = append(c.Lines, closing(r, nIdx)...)
	return c
}

// known class 3: a write into an index the segment store cannot create (name > 255 bytes)
func genStoreFail(r *vhlib.Rng) bodyCase {
	nIdx := r.Range(1, 3)
	c := bodyCase{Stream: "known/store_failure", FinalNL: r.Chance(75), BadIndex: []int{9}}
	for i := 0; i < r.Range(0, 2); i++ {
		c.Lines = append(c.Lines, someAction(r, nIdx, true)...)
	}
	c.Lines = append(c.Lines, mk("index", 9), goodDoc(r))
	for i := 0; i < r.Range(0, 2); i++ {
		c.Lines = append(c.Lines, someAction(r, nIdx, true)...)
	}
	if r.Bool() {
		c.Lines = append(c.Lines, mk("create", 9), goodDoc(r))
	}
	c.Lines = append(c.Lines, closing(r, nIdx)...)
	return c
}

// index/create actions with an index name that IsSafePathComponent rejects (~20 % of the
// writes, at least one per body), followed by their document line — which may itself look
// like an action line — and by further actions
func unsafeVerb(r *vhlib.Rng) lineSpec {
	v := "index"
	if r.Chance(30) {
		v = "create"
	}
	return mk(v, 20+r.Intn(7))
}
func genUnsafe(r *vhlib.Rng) bodyCase {
	nIdx := r.Range(1, 3)
	c := bodyCase{Stream: "unsafe_index", FinalNL: r.Chance(75)}
	n := r.Range(2, 7)
	forced := r.Intn(n)
	for i := 0; i < n; i++ {
		if i != forced && !r.Chance(20) {
			c.Lines = append(c.Lines, someAction(r, nIdx, true)...)
			continue
		}
		c.Lines = append(c.Lines, unsafeVerb(r))
		switch p := r.Intn(100); {
		case p < 45:
			c.Lines = append(c.Lines, goodDoc(r))
		case p < 80: // the document looks like an action line
			c.Lines = append(c.Lines, mk(vhlib.Pick(r, []string{"index", "index", "create", "update", "delete"}), pickIdx(r, nIdx)))
		case p < 88:
			c.Lines = append(c.Lines, badDoc2(r))
		case p < 94:
			c.Lines = append(c.Lines, sized("doc_sized", maxRec+r.Intn(100)))
		default:
			c.Lines = append(c.Lines, unsafeVerb(r)) // and the document is another unsafe action line
		}
	}
	if r.Chance(10) {
		c.Lines = append(c.Lines, unsafeVerb(r)) // last line: no document follows
		return c
	}
	c.Lines = append(c.Lines, closing(r, nIdx)...)
	return c
}

// documents without any field ({"timestamp":T}, {}) into the primed indexes c15h1..3, which receive
// nothing else: every request is followed by a flush, so the block they land in holds only
// such documents; ordinary actions into the other indexes around them
func fieldlessDoc(r *vhlib.Rng) lineSpec {
	if r.Chance(60) {
		return mk("doc_ts_only", 0)
	}
	return mk("doc_empty_obj", 0)
}
func genFieldless(r *vhlib.Rng) bodyCase {
	nIdx := r.Range(1, 3)
	c := bodyCase{Stream: "fieldless_docs", FinalNL: r.Chance(75)}
	n := r.Range(1, 5)
	forced := r.Intn(n)
	for i := 0; i < n; i++ {
		if i == forced || r.Chance(50) {
			v := "index"
			if r.Chance(25) {
				v = "create"
			}
			c.Lines = append(c.Lines, mk(v, 5+r.Intn(3)), fieldlessDoc(r))
		} else {
			c.Lines = append(c.Lines, someAction(r, nIdx, true)...)
		}
	}
	if r.Chance(50) {
		c.Lines = append(c.Lines, closing(r, nIdx)...)
	}
	return c
}

// regression (repaired in /repo by 2a1b376): a fresh index whose first block holds only field-less
// documents (step 1: they are searchable), then an ordinary document into the same index (step 2:
// before the fix it was acknowledged and never became searchable)
func genFieldlessFirst(r *vhlib.Rng, k int) []bodyCase {
	ix := freshIdx(k)
	s1 := bodyCase{Stream: "regression/fieldless_first_block/step1", FinalNL: true}
	for i := 0; i < r.Range(1, 3); i++ {
		s1.Lines = append(s1.Lines, mk("index", ix), fieldlessDoc(r))
	}
	if r.Bool() {
		s1.Lines = append(s1.Lines, mk("index", 1), mk("doc", 0))
	}
	s2 := bodyCase{Stream: "regression/fieldless_first_block/step2", FinalNL: true}
	s2.Lines = append(s2.Lines, mk("index", ix), mk("doc", 0))
	if r.Bool() {
		s2.Lines = append(s2.Lines, mk("index", 2), mk("doc", 0), mk("index", ix), mk("doc_ts_only", 0))
	}
	return []bodyCase{s1, s2}
}

// stream after_other_ingest: 1-3 requests of the other entry points, then a bulk body with more well-formed
// writes than twice the documents of those requests (objects a request left in a pool - possibly more than
// once - are drawn by the first GetNewPLE calls of the bulk request) and ordinary other actions in between
func genPre(r *vhlib.Rng) preReq {
	pick := func(from []int, n int) []int {
		out := make([]int, n)
		for i := range out {
			out[i] = vhlib.Pick(r, from)
		}
		return out
	}
	switch p := r.Intn(10); {
	case p < 4:
		return mkPre("splunk_hec", pick([]int{50, 51, 52, 1, 2}, r.Range(1, 4)), 0, r.Chance(15))
	case p < 5:
		return mkPre("loki_json", pick([]int{60}, r.Range(1, 3)), 0, r.Chance(20))
	case p < 6:
		return mkPre("loki_promtail", pick([]int{60}, r.Range(1, 3)), 0, false)
	case p < 8:
		return mkPre("otlp_logs", pick([]int{61, 50, 51}, r.Range(1, 3)), 0, false)
	case p < 9:
		return mkPre("es_single_doc", pick([]int{50, 51, 1}, 1), 0, r.Chance(20))
	default:
		k, bad := r.Range(0, 3), r.Range(0, 2)
		if k+bad == 0 {
			bad = 1
		}
		return mkPre("es_bulk", pick([]int{50, 51, 3}, k), bad, false)
	}
}
func genAfter(r *vhlib.Rng) bodyCase {
	c := bodyCase{Stream: "after_other_ingest", FinalNL: r.Chance(75)}
	docs := 0
	for i := r.Range(1, 3); i > 0; i-- {
		p := genPre(r)
		c.Prelude = append(c.Prelude, p)
		docs += len(p.gets)
	}
	nIdx := r.Range(1, 3)
	for i := 0; i < 2*docs+2; i++ {
		c.Lines = append(c.Lines, writeVerb(r, nIdx), goodDoc(r))
		if r.Chance(20) {
			c.Lines = append(c.Lines, someAction(r, nIdx, true)...)
		}
	}
	c.Lines = append(c.Lines, closing(r, nIdx)...)
	return c
}
func cornerAfter() []bodyCase {
	ix, doc := mk("index", 1), mk("doc", 0)
	body := func(n int) []lineSpec {
		var ls []lineSpec
		for i := 0; i < n; i++ {
			ls = append(ls, ix, doc)
		}
		return ls
	}
	var out []bodyCase
	for _, p := range []preReq{
		mkPre("splunk_hec", []int{50}, 0, false), mkPre("splunk_hec", []int{50, 51, 50, 1}, 0, false), mkPre("splunk_hec", []int{50, 50}, 0, true),
		mkPre("loki_json", []int{60, 60}, 0, false), mkPre("loki_json", []int{60}, 0, true), mkPre("loki_promtail", []int{60, 60}, 0, false), mkPre("otlp_logs", []int{61, 50}, 0, false),
		mkPre("es_single_doc", []int{50}, 0, false), mkPre("es_single_doc", nil, 0, true),
		mkPre("es_bulk", []int{50, 1}, 1, false), mkPre("es_bulk", nil, 2, false)} {
		out = append(out, bodyCase{Stream: "after_other_ingest", Prelude: []preReq{p}, Lines: body(2*len(p.gets) + 2), FinalNL: true})
	}
	return out
}

// stream alias: one scenario = 2-4 requests of one process over the scenario's fresh names.  A body is
// made of ordinary action groups of the grammar whose index is redirected (60 %) to a name of the
// step's pool, plus one well-formed write for every name in must, in random order.
func genAliasBody(r *vhlib.Rng, scn int, pool, must []int) bodyCase {
	c := bodyCase{Stream: "alias", Scn: scn, FinalNL: r.Chance(75)}
	redirect := func(ls []lineSpec) []lineSpec {
		for i := range ls {
			if ls[i].Idx >= 1 && ls[i].Idx <= 4 && r.Chance(60) {
				ls[i].Idx = vhlib.Pick(r, pool)
			}
		}
		return ls
	}
	var groups [][]lineSpec
	for _, ix := range must {
		v := "index"
		if r.Chance(30) {
			v = "create"
		}
		groups = append(groups, []lineSpec{mk(v, ix), goodDoc(r)})
	}
	nIdx := r.Range(1, 2)
	for i := r.Range(0, 4); i > 0; i-- {
		groups = append(groups, redirect(someAction(r, nIdx, true)))
	}
	for i := len(groups) - 1; i > 0; i-- { // Fisher-Yates
		j := r.Intn(i + 1)
		groups[i], groups[j] = groups[j], groups[i]
	}
	for _, g := range groups {
		c.Lines = append(c.Lines, g...)
	}
	if r.Chance(60) || len(c.Lines) == 0 {
		c.Lines = append(c.Lines, redirect(closing(r, nIdx))...)
	}
	return c
}

func genAliasScenario(r *vhlib.Rng, k int) []bodyCase {
	scn := newScenario(k)
	r0, r1, l0, m0, l1, d0 := scnIdx(k, 0), scnIdx(k, 1), scnIdx(k, 2), scnIdx(k, 3), scnIdx(k, 4), scnIdx(k, 5)
	op := func(a int) [2]int { return [2]int{a, aliasOf[a]} }
	step := func(ops [][2]int, pool, must []int) bodyCase {
		c := genAliasBody(r, scn, pool, must)
		c.AliasOps = ops
		return c
	}
	kind := k % 6
	if k >= 12 {
		kind = r.Intn(7)
	}
	switch kind {
	case 0: // the alias exists before the first write of its index, and the first write goes through it
		return []bodyCase{
			step([][2]int{op(l0)}, []int{l0}, []int{l0}),
			step(nil, []int{l0, r0}, []int{r0}),
			step(nil, []int{l0, r0}, []int{l0})}
	case 1: // the index is written first (its store exists), then the alias is defined and used
		return []bodyCase{
			step(nil, []int{r0, r1}, []int{r0}),
			step([][2]int{op(l0)}, []int{l0, r0}, []int{l0}),
			step(nil, []int{l0, r0}, []int{r0, l0})}
	case 2: // aliases and index names mixed in the first body; two aliases of one index
		return []bodyCase{
			step([][2]int{op(l0), op(m0), op(l1)}, []int{l0, m0, r0, l1, r1}, []int{l0, r0, m0, l1}),
			step(nil, []int{l0, m0, r0, l1, r1}, []int{r0, r1})}
	case 3: // a name is an index of its own first and becomes an alias of another index later
		return []bodyCase{
			step(nil, []int{d0, r1}, []int{d0}),
			step([][2]int{op(d0)}, []int{d0, r1}, []int{d0}),
			step([][2]int{op(l0)}, []int{d0, r0, l0}, []int{r0})}
	case 4: // one body, first write of the index, through two different aliases only
		return []bodyCase{
			step([][2]int{op(l0), op(m0)}, []int{l0, m0}, []int{l0, m0}),
			step([][2]int{op(l1)}, []int{l0, m0, r0, l1}, []int{l1, r0})}
	case 5: // alias of one index, first write of ANOTHER index of the scenario in the same body
		return []bodyCase{
			step([][2]int{op(l1)}, []int{l1, r0}, []int{l1, r0}),
			step([][2]int{op(l0)}, []int{l0, l1, r0, r1}, []int{l0, r1})}
	}
	// random: 2-4 requests; before each, some of the not yet defined aliases are defined
	all := []int{r0, r1, l0, m0, l1, d0}
	var out []bodyCase
	defined := map[int]bool{}
	for n := r.Range(2, 4); n > 0; n-- {
		var ops [][2]int
		for _, a := range []int{l0, m0, l1, d0} {
			if !defined[a] && r.Chance(40) {
				ops = append(ops, op(a))
				defined[a] = true
			}
		}
		var must []int
		for i := r.Range(1, 3); i > 0; i-- {
			must = append(must, vhlib.Pick(r, all))
		}
		out = append(out, step(ops, all, must))
	}
	return out
}

// hand-written corner bodies, always run first
func corner() []bodyCase {
	ix, doc := mk("index", 1), mk("doc", 0)
	return []bodyCase{
		{Stream: "main", Lines: []lineSpec{ix, doc}, FinalNL: true},
		{Stream: "main", Lines: []lineSpec{ix, doc}, FinalNL: false},
		{Stream: "main", Lines: []lineSpec{mk("empty", 0), ix, doc}, FinalNL: true},
		{Stream: "main", Lines: []lineSpec{ix, mk("empty", 0), mk("create", 2), doc}, FinalNL: true},
		{Stream: "main", Lines: []lineSpec{mk("delete", 1), ix, doc}, FinalNL: true},
		{Stream: "main", Lines: []lineSpec{mk("update", 1), doc}, FinalNL: true},
		{Stream: "main", Lines: []lineSpec{ix, ix, doc, mk("create", 3), doc}, FinalNL: false},
		{Stream: "main", Lines: []lineSpec{ix, sized("doc_sized", maxRec-1)}, FinalNL: true},
		{Stream: "main", Lines: []lineSpec{mk("garbage", 0), ix, sized("doc_sized", maxRec), ix, doc}, FinalNL: true},
		{Stream: "regression/trailing_action", Lines: []lineSpec{mk("delete", 1)}, FinalNL: true},
		{Stream: "regression/trailing_action", Lines: []lineSpec{ix, doc, mk("delete", 1)}, FinalNL: true},
		{Stream: "regression/trailing_action", Lines: []lineSpec{ix}, FinalNL: true},
		{Stream: "regression/trailing_action", Lines: []lineSpec{ix}, FinalNL: false},
		{Stream: "regression/trailing_action", Lines: []lineSpec{ix, mk("empty", 0)}, FinalNL: true}, // "idx\n\n": the blank last line is not a line; item 400
		{Stream: "regression/trailing_action", Lines: []lineSpec{mk("update", 1), mk("empty", 0)}, FinalNL: true},
		{Stream: "regression/oversize", Lines: []lineSpec{ix, sized("doc_sized", maxRec+10), ix, mk("doc_truncated", 0), ix, doc}, FinalNL: true},
		{Stream: "regression/oversize", Lines: []lineSpec{ix, sized("doc_sized", maxRec)}, FinalNL: true},
		{Stream: "known/store_failure", Lines: []lineSpec{mk("index", 9), doc}, FinalNL: true, BadIndex: []int{9}},
		{Stream: "unsafe_index", Lines: []lineSpec{mk("index", 25), doc, ix, doc, mk("create", 2), doc}, FinalNL: true},
		{Stream: "unsafe_index", Lines: []lineSpec{ix, doc, mk("index", 23), mk("index", 2), ix, doc}, FinalNL: true},
		{Stream: "unsafe_index", Lines: []lineSpec{mk("create", 20), mk("update", 1), mk("index", 2), doc}, FinalNL: false},
		{Stream: "unsafe_index", Lines: []lineSpec{mk("index", 21), sized("doc_sized", maxRec), ix, doc}, FinalNL: true},
		{Stream: "unsafe_index", Lines: []lineSpec{mk("index", 22), doc}, FinalNL: true},
		{Stream: "unsafe_index", Lines: []lineSpec{mk("index", 24), mk("index", 26), doc, ix, doc}, FinalNL: true},
		{Stream: "unsafe_index", Lines: []lineSpec{ix, doc, mk("index", 26)}, FinalNL: true},
		{Stream: "fieldless_docs", Lines: []lineSpec{mk("index", 5), mk("doc_ts_only", 0), mk("index", 5), mk("doc_empty_obj", 0)}, FinalNL: true},
		{Stream: "fieldless_docs", Lines: []lineSpec{mk("index", 6), mk("doc_empty_obj", 0), ix, doc, mk("create", 6), mk("doc_empty_obj", 0)}, FinalNL: false},
		{Stream: "fieldless_docs", Lines: []lineSpec{ix, doc, mk("index", 7), mk("doc_ts_only", 0)}, FinalNL: true},
	}
}

// ---------- Coq rendering ----------

func coqCase(c bodyCase, lens []int, o observation) string {
	bad, lines, obs := coqParts(c, lens, o, 0)
	return fmt.Sprintf("(%s, %s, %s)", bad, lines, obs)
}

// alias histories: the identity of a line is idBase + its line number (unique over the history)
func coqAliasStep(c bodyCase, lens []int, o observation, idBase int) string {
	bad, lines, obs := coqParts(c, lens, o, idBase)
	var names, tables []string
	for _, n := range o.Names {
		names = append(names, fmt.Sprint(n))
	}
	for _, t := range o.Tables {
		if t[1] < 0 {
			t[1] = 999999 // a shrinking store: no model state explains it
		}
		tables = append(tables, fmt.Sprintf("(%d, %d)", t[0], t[1]))
	}
	return fmt.Sprintf("SBulk %s %s %s (%s) %s", bad, lines, vhlib.CoqList(names), obs, vhlib.CoqList(tables))
}

func coqParts(c bodyCase, lens []int, o observation, idBase int) (string, string, string) {
	var ls []string
	for i, l := range c.Lines {
		ls = append(ls, fmt.Sprintf("L %d %s %d %s %s %d", lens[i], kindCoq[l.Act], l.Idx, vhlib.CoqBool(!unsafeIdx(l.Idx)), vhlib.CoqBool(l.Parses), idBase+i))
	}
	if c.FinalNL {
		ls = append(ls, "empty_line")
	}
	var bad, items, found []string
	for _, b := range c.BadIndex {
		bad = append(bad, fmt.Sprint(b))
	}
	for _, s := range o.Items {
		if s < 0 {
			s = 0
		}
		items = append(items, fmt.Sprint(s))
	}
	fs := append([][2]int{}, o.Found...)
	sort.Slice(fs, func(i, j int) bool { return fs[i][1] < fs[j][1] || (fs[i][1] == fs[j][1] && fs[i][0] < fs[j][0]) })
	for _, f := range fs {
		found = append(found, fmt.Sprintf("(%d, %d)", f[0], idBase+f[1]))
	}
	return vhlib.CoqList(bad), vhlib.CoqList(ls), fmt.Sprintf("mkObs %s %s %d %s %s",
		vhlib.CoqList(items), vhlib.CoqBool(o.Errors), o.Processed, vhlib.CoqBool(o.AllFailed), vhlib.CoqList(found))
}

// the earlier requests as a history of SigM.BulkPool: the pools were emptied, then one request per entry
// point with the documents handed to GetNewPLE (index, identity, accepted)
func coqHist(ps []preReq) string {
	parts := []string{"HGc"}
	id := 1000
	for _, p := range ps {
		var docs []string
		for _, g := range p.gets {
			id++
			docs = append(docs, fmt.Sprintf("(%d, %d, %s)", g[0], id, vhlib.CoqBool(g[1] == 1)))
		}
		parts = append(parts, fmt.Sprintf("P %s %s", protoCoq[p.Proto], vhlib.CoqList(docs)))
	}
	return vhlib.CoqList(parts)
}

// ---------- shrinking of an unexpected failure ----------

func hasClass(fs []failure, class string) bool {
	for _, f := range fs {
		if f.class == class {
			return true
		}
	}
	return false
}

func classDetail(fs []failure, class string) string {
	for _, f := range fs {
		if f.class == class {
			return f.detail
		}
	}
	return ""
}

// greedy removal of lines while the same failure class persists; returns the smaller body and its own detail
func shrink(c bodyCase, class, detail string) (bodyCase, string) {
	// the earlier requests first: drop whole requests, then their documents one by one
	for changed := true; changed && len(c.Prelude) > 0; {
		changed = false
		for i := 0; i < len(c.Prelude); i++ {
			var cands [][]preReq
			if len(c.Prelude) > 1 {
				cands = append(cands, append(append([]preReq{}, c.Prelude[:i]...), c.Prelude[i+1:]...))
			}
			if p := c.Prelude[i]; len(p.Idxs)+p.Bad > 1 {
				q := mkPre(p.Proto, p.Idxs, max(p.Bad-1, 0), p.Reject)
				if p.Bad == 0 {
					q = mkPre(p.Proto, p.Idxs[:len(p.Idxs)-1], 0, p.Reject)
				}
				cands = append(cands, append(append(append([]preReq{}, c.Prelude[:i]...), q), c.Prelude[i+1:]...))
			}
			for _, cand := range cands {
				t := c
				t.Prelude = cand
				if _, fs, _, _, he := evaluate(t); he == "" && hasClass(fs, class) {
					c, changed, detail = t, true, classDetail(fs, class)
					i--
					break
				}
			}
		}
	}
	for changed := true; changed; {
		changed = false
		for i := 0; i < len(c.Lines) && len(c.Lines) > 1; i++ {
			t := c
			t.Lines = append(append([]lineSpec{}, c.Lines[:i]...), c.Lines[i+1:]...)
			if t.Lines[len(t.Lines)-1].Shape == "empty" {
				t.FinalNL = true
			}
			if _, fs, _, _, he := evaluate(t); he == "" && hasClass(fs, class) {
				c, changed, detail = t, true, classDetail(fs, class)
				i--
			}
		}
	}
	return c, detail
}

// ---------- main ----------

func main() {
	cfg := vhlib.ParseFlags()
	sum := vhlib.NewSummary("distinct = distinct sequence of (line shape, index) of the body + final-newline flag; non-trivial = at least two actions or a failing action")
	dir, err := os.MkdirTemp("", "C15_data")
	if err != nil {
		panic(err)
	}
	defer os.RemoveAll(dir)
	initSiglens(dir)
	if maxRec != 63000 {
		sum.Notes = append(sum.Notes, fmt.Sprintf("MAX_RECORD_SIZE in the tree is %d, the model has 63000", maxRec))
	}

	rng := vhlib.NewRng(cfg.Seed)
	rMain, rT, rO, rS, rU := rng.Fork(), rng.Fork(), rng.Fork(), rng.Fork(), rng.Fork()
	rF, rFF := rng.Fork(), rng.Fork()
	rA := rng.Fork()
	rAl := rng.Fork()
	rC := rng.Fork()
	nMain, nKnown, nUnsafe, nFieldless, nFresh, nAfter := 230, 22, 70, 40, 3, 40
	nAlias := 24 // scenarios of 2-4 requests
	nConc := 12  // rounds of 2-6 requests served at the same time (1-2 waves)
	if cfg.Thorough() {
		nMain, nKnown, nUnsafe, nFieldless, nFresh, nAfter = 2400, 150, 500, 300, 10, 300 // one process: flush+search get slower as the store grows (7200 bodies took 17 min)
		nAlias = 200
		nConc = 72
	}
	// prime c15h1..3: the first block of their segment holds an ordinary document
	for ix := 5; ix <= 7; ix++ {
		b := fmt.Sprintf("{\"index\":{\"_index\":\"%s\"}}\n{\"id\":\"prime\",\"g\":\"prime\",\"timestamp\":1700000000000}\n", indexNames[ix])
		if _, _, err := eswriter.HandleBulkBody([]byte(b), nil, 0, 0, false); err != nil {
			sum.HarnessError("priming " + indexNames[ix] + ": " + err.Error())
		}
		flush()
	}
	cases := corner()
	for i := 0; i < nMain; i++ {
		cases = append(cases, genMain(rMain))
	}
	for i := 0; i < nKnown; i++ {
		cases = append(cases, genTrailing(rT), genOversize(rO), genStoreFail(rS))
	}
	for i := 0; i < nUnsafe; i++ {
		cases = append(cases, genUnsafe(rU))
	}
	for i := 0; i < nFieldless; i++ {
		cases = append(cases, genFieldless(rF))
	}
	// last: before the fix 2a1b376 such an index rewrote its first block at every later flush of the process
	for k := 0; k < nFresh; k++ {
		cases = append(cases, genFieldlessFirst(rFF, k)...)
	}
	for k := 0; k < nAlias; k++ {
		cases = append(cases, genAliasScenario(rAl, k)...)
	}
	// last: if an earlier request poisons a pool, the poison stays in the process (these cases empty the pools themselves)
	cases = append(cases, cornerAfter()...)
	for i := 0; i < nAfter; i++ {
		cases = append(cases, genAfter(rA))
	}

	known := map[string]bool{"bulk_store_failure_reported_created": true}
	reported := map[string]int{}
	var coqCases, coqHistCases []string
	shard, hshard := 0, 0
	flushHist := func() {
		if len(coqHistCases) == 0 {
			return
		}
		defs := "Definition cases : list (list hev * list N * list line * obs) := " + vhlib.CoqListNL(coqHistCases) + ".\n"
		sum.WriteCaseFile(cfg.Out, fmt.Sprintf("cases_bulk_hist_%d", hshard), "From SigM Require Import Base Bulk BulkPool BulkCheck.\n", defs, "check_hist cases 0", len(coqHistCases))
		hshard++
		coqHistCases = nil
	}
	flushShard := func() {
		if len(coqCases) == 0 {
			return
		}
		defs := "Definition cases : list (list N * list line * obs) := " + vhlib.CoqListNL(coqCases) + ".\n"
		sum.WriteCaseFile(cfg.Out, fmt.Sprintf("cases_bulk_%d", shard), "From SigM Require Import Base Bulk BulkCheck.\n", defs, "check cases 0", len(coqCases))
		shard++
		coqCases = nil
	}
	// alias histories: one Coq case = the steps (alias definitions, bulk requests) of up to 40 consecutive
	// scenarios; their names are fresh per scenario, so the model may start every file from the empty state
	var aliasSteps []string
	ashard, aScns, lastScn := 0, 0, 0
	flushAlias := func() {
		if len(aliasSteps) == 0 {
			return
		}
		defs := "Definition steps : list astep := " + vhlib.CoqListNL(aliasSteps) + ".\n"
		sum.WriteCaseFile(cfg.Out, fmt.Sprintf("cases_bulk_alias_%d", ashard), "From SigM Require Import Base Bulk BulkAlias BulkCheck.\n", defs, "check_alias steps a_init 0", len(aliasSteps))
		ashard++
		aliasSteps, aScns = nil, 0
	}
	t0 := time.Now()
	for ci, c := range cases {
		if n := len(c.Lines); n > 0 && c.Lines[n-1].Shape == "empty" {
			c.FinalNL = true // an empty last line exists only through its newline
		}
		if c.Scn != 0 {
			if c.Scn != lastScn {
				dropScenario(lastScn)
				if lastScn = c.Scn; aScns >= 40 {
					flushAlias()
				}
				aScns++
			}
			for _, op := range c.AliasOps {
				if !aliasDefined[op[0]] {
					aliasSteps = append(aliasSteps, fmt.Sprintf("SAlias %d %d", op[0], op[1]))
					sum.Count("alias/defined_before_request")
				}
			}
		}
		o, fs, texts, lens, herr := evaluate(c)
		if herr != "" {
			sum.HarnessError(fmt.Sprintf("case %d: %s", ci, herr))
			continue
		}
		acts := grammar(c.Lines, lens, c.FinalNL)
		var key strings.Builder
		nfail := 0
		for _, p := range c.Prelude {
			fmt.Fprintf(&key, "%s%v%d%v;", p.Proto, p.Idxs, p.Bad, p.Reject)
			sum.Count("earlier_request/" + p.Proto)
			if p.Reject {
				sum.Count("earlier_request/" + p.Proto + "/rejected")
			}
		}
		for _, l := range c.Lines {
			fmt.Fprintf(&key, "%s%d,", l.Shape, l.Idx)
		}
		for _, a := range acts {
			if !a.OK {
				nfail++
			}
			switch {
			case a.OK:
				sum.Count("action/write_ok")
			case a.Over:
				sum.Count("action/write_oversize")
			case a.Kind == "write" && unsafeIdx(a.Idx):
				sum.Count(fmt.Sprintf("action/write_unsafe_index_name:%q", indexNames[a.Idx]))
				if a.HasDoc && c.Lines[a.DLine].Act <= kUpdate {
					sum.Count("action/write_unsafe_index_name/document_looks_like_an_action")
				}
			case a.Kind == "write" && !a.HasDoc:
				sum.Count("action/write_without_document")
			case a.Kind == "write":
				sum.Count("action/write_bad_document:" + c.Lines[a.DLine].Shape)
			case a.Kind == "update":
				sum.Count("action/update")
			default:
				sum.Count("action/lone:" + c.Lines[a.ALine].Shape)
			}
		}
		fmt.Fprintf(&key, "nl=%v", c.FinalNL)
		sum.Eval(key.String(), len(acts) >= 2 || nfail > 0)
		sum.Count("stream/" + c.Stream)
		sum.Count(fmt.Sprintf("final_newline/%v", c.FinalNL))
		idxSet := map[int]bool{}
		for _, a := range acts {
			idxSet[a.Idx] = true
		}
		sum.Count(fmt.Sprintf("indexes_in_body/%d", len(idxSet)))
		for _, s := range o.Items {
			sum.Count(fmt.Sprintf("item_status/%d", s))
		}
		sum.Count(fmt.Sprintf("docs_found_per_body/%d", min(len(o.Found), 6)))
		if ci%60 == 5 {
			sum.Sample(map[string]interface{}{"case": describe(c, texts), "items": o.Items, "errors": o.Errors, "found_index_line": o.Found})
		}
		seen := map[string]bool{}
		for _, f := range fs {
			if seen[f.class] {
				continue
			}
			seen[f.class] = true
			sum.Count("oracle/" + f.class)
			if known[f.class] && c.Stream == "main" {
				// the main stream is built so that the known classes cannot occur: report it as its own class
				f.class = f.class + "_in_main_stream"
			}
			reported[f.class]++
			if reported[f.class] > 2 {
				continue
			}
			rc, rtexts := c, texts
			if !known[f.class] {
				rc, f.detail = shrink(c, f.class, f.detail)
				rtexts = nil
				for i, l := range rc.Lines {
					rtexts = append(rtexts, l.render("kN", i))
				}
			}
			sum.Fail(f.class, f.detail, describe(rc, rtexts))
		}
		if c.Scn != 0 {
			aliasSteps = append(aliasSteps, coqAliasStep(c, lens, o, 1000*(len(aliasSteps)+1)))
			scnLog[c.Scn] = append(scnLog[c.Scn], map[string]interface{}{"alias_definitions_before_the_request": aliasOpsText(c.AliasOps), "body_lines": texts, "final_newline": c.FinalNL})
			for _, a := range acts {
				if a.Kind == "write" && a.HasDoc {
					switch {
					case aliasDefined[a.Idx]:
						sum.Count("alias/write_through_alias")
					case c.Scn != 0 && a.Idx >= 100:
						sum.Count("alias/write_to_index_of_scenario")
					}
				}
			}
			continue
		}
		if len(c.Prelude) > 0 {
			cc := coqCase(c, lens, o)
			coqHistCases = append(coqHistCases, "("+coqHist(c.Prelude)+", "+cc[1:])
			if len(coqHistCases) >= 200 {
				flushHist()
			}
			continue
		}
		coqCases = append(coqCases, coqCase(c, lens, o))
		if len(coqCases) >= 400 {
			flushShard()
		}
	}
	dropScenario(lastScn)
	flushShard()
	flushHist()
	flushAlias()
	// last: concurrent requests (one kind of round rotates every segment of the process)
	tc := time.Now()
	runConcurrent(cfg, sum, rC, nConc, known, reported)
	sum.Notes = append(sum.Notes, fmt.Sprintf("%d rounds of concurrent bulk requests in %.1fs", nConc, time.Since(tc).Seconds()))
	tc = time.Now()
	sliceG, sliceM := 16, 4000
	if cfg.Thorough() {
		sliceG, sliceM = 16, 4500
	}
	runResponseSlice(cfg, sum, sliceG, sliceM, reported)
	sum.Notes = append(sum.Notes, fmt.Sprintf("%d x %d requests of sustained concurrent bulk ingest in %.1fs", sliceG, sliceM, time.Since(tc).Seconds()))
	sum.Notes = append(sum.Notes, fmt.Sprintf("%d bodies through the real HandleBulkBody + flush + search in %.1fs", len(cases), time.Since(t0).Seconds()))
	sum.Write(cfg.Out)
}

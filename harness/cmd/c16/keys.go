// Stream K: field names that collide with names the ingest path treats specially, used as ORDINARY field
// names of an event -- below the root (inside nested objects, inside objects that are array elements, as keys of
// OTLP kvlist values / kvlist bodies, as attribute / resource attribute / scope attribute names) and, where the
// protocol's own record layout leaves the name free, at the root.  The names: the configured timestamp key, the
// Elasticsearch metadata names (_index, _id, _type), the HEC envelope names (time, event, fields, host, source,
// sourcetype, index), the Loki push names (streams, stream, values, line), the OTLP record names (resource, scope,
// attributes, body, severity_text, trace_id, span_id, time_unix_nano, name, service, kind, status, start_time),
// startTimeMillis.  The property demands that every leaf of the event is stored under its flattened path with the
// value it was sent with, and that the event time is the one of the ROOT time field only.
package main

import (
	"encoding/hex"
	"fmt"
	"hash/fnv"
	"strings"

	"github.com/siglens/siglens/pkg/otlp"
	collogpb "go.opentelemetry.io/proto/otlp/collector/logs/v1"
	commonpb "go.opentelemetry.io/proto/otlp/common/v1"
	logpb "go.opentelemetry.io/proto/otlp/logs/v1"
	resourcepb "go.opentelemetry.io/proto/otlp/resource/v1"
	"google.golang.org/protobuf/proto"

	"verifharness/vhlib"
)

// a JSON value of an event: scalar leaf ("l"), object ("o", members in document order), array ("a")
type jv struct {
	Kind string
	Leaf sv
	Obj  []jm
	Arr  []jv
}
type jm struct {
	K string
	V jv
}

// the members of an object, written into replays as the JSON object they are
type jobj []jm

func (o jobj) MarshalJSON() ([]byte, error) { return []byte("{" + membersJSON(o) + "}"), nil }

func leafJ(v sv) jv { return jv{Kind: "l", Leaf: v} }

func (v jv) json() string {
	switch v.Kind {
	case "o":
		return "{" + membersJSON(v.Obj) + "}"
	case "a":
		parts := make([]string, len(v.Arr))
		for i, x := range v.Arr {
			parts[i] = x.json()
		}
		return "[" + strings.Join(parts, ",") + "]"
	}
	return v.Leaf.json()
}

func membersJSON(ms []jm) string {
	parts := make([]string, len(ms))
	for i, m := range ms {
		parts[i] = sv{Kind: "s", S: m.K}.json() + ":" + m.V.json()
	}
	return strings.Join(parts, ",")
}

func (v jv) coq() string {
	switch v.Kind {
	case "o":
		return "JO " + coqTree(v.Obj)
	case "a":
		parts := make([]string, len(v.Arr))
		for i, x := range v.Arr {
			parts[i] = x.coq()
		}
		return "JA " + vhlib.CoqList(parts)
	}
	return "JL (" + v.Leaf.coq() + ")"
}

func coqTree(ms []jm) string {
	parts := make([]string, len(ms))
	for i, m := range ms {
		parts[i] = "(" + coqS(m.K) + ", " + m.V.coq() + ")"
	}
	return vhlib.CoqList(parts)
}

// attributes of a record in Coq: the flat ones, then the nested ones as the model's dotted leaves
func coqAttrsTree(attrs []kv, tree []jm) string {
	if len(tree) == 0 {
		return coqEvent(attrs)
	}
	return "(" + coqEvent(attrs) + " ++ dot " + coqTree(tree) + ")"
}

// the oracle's view of a tree, from the property text: every scalar is a field of the event, named by the keys that
// lead to it joined with '.', an array element by its position
func flatTree(prefix string, ms []jm) []kv {
	var out []kv
	var walk func(path string, v jv)
	join := func(p, k string) string {
		if p == "" {
			return k
		}
		return p + "." + k
	}
	walk = func(path string, v jv) {
		switch v.Kind {
		case "o":
			for _, m := range v.Obj {
				walk(join(path, m.K), m.V)
			}
		case "a":
			for i, x := range v.Arr {
				walk(join(path, fmt.Sprint(i)), x)
			}
		default:
			out = append(out, kv{path, v.Leaf})
		}
	}
	for _, m := range ms {
		walk(join(prefix, m.K), m.V)
	}
	return out
}

func otlpAnyTree(v jv) *commonpb.AnyValue {
	switch v.Kind {
	case "o":
		return &commonpb.AnyValue{Value: &commonpb.AnyValue_KvlistValue{KvlistValue: &commonpb.KeyValueList{Values: otlpTreeKVs(v.Obj)}}}
	case "a":
		xs := make([]*commonpb.AnyValue, len(v.Arr))
		for i, x := range v.Arr {
			xs[i] = otlpAnyTree(x)
		}
		return &commonpb.AnyValue{Value: &commonpb.AnyValue_ArrayValue{ArrayValue: &commonpb.ArrayValue{Values: xs}}}
	}
	return otlpAny(v.Leaf)
}

func otlpTreeKVs(ms []jm) []*commonpb.KeyValue {
	var out []*commonpb.KeyValue
	for _, m := range ms {
		out = append(out, &commonpb.KeyValue{Key: m.K, Value: otlpAnyTree(m.V)})
	}
	return out
}

// names with a meaning somewhere on the ingest path
var reservedNames = []string{"timestamp", "_index", "_id", "_type", "time", "event", "fields", "host", "source", "sourcetype", "index",
	"streams", "stream", "values", "line", "resource", "scope", "attributes", "body", "severity_text", "trace_id", "span_id",
	"time_unix_nano", "name", "service", "kind", "status", "start_time", "startTimeMillis", "message"}
var reservedSet = func() map[string]bool {
	m := map[string]bool{}
	for _, n := range reservedNames {
		m[n] = true
	}
	return m
}()
var plainNames = []string{"id", "sku", "qty", "ok", "note"}

// names of the root members that hold the nested parts: ordinary ones and reserved ones
var containerNames = []string{"ctx", "req", "items", "event", "attributes", "resource", "fields", "body", "host", "payload", "values", "scope", "stream"}

// reserved names that are free at the root of a record in every log protocol (as a document field, an HEC event
// member, a log-record attribute, a span attribute)
var rootReserved = []string{"time", "source", "sourcetype", "index", "line", "severity_text", "time_unix_nano", "startTimeMillis", "streams"}

// a column holds one value kind (C01): the kind is a function of the path below the event root
func kindOfPath(rel string) string {
	h := fnv.New32a()
	h.Write([]byte(rel))
	return []string{"s", "i", "f", "b", "s", "i"}[h.Sum32()%6]
}

// the instant (ms) a nested field called like the timestamp key WOULD denote if it were taken for the event time
func nestedInstant(v sv) (uint64, bool) {
	switch v.Kind {
	case "i":
		if v.I > 0 {
			return uint64(v.I) * 1000, true
		}
	case "s":
		if v.S == "1400000000" {
			return 1400000000000, true
		}
		if v.S == "2015-03-04T05:06:07Z" {
			return 1425445567000, true
		}
	}
	return 0, false
}

func leafFor(r *vhlib.Rng, rel, name string) sv {
	switch kindOfPath(rel) {
	case "s":
		if name == "timestamp" || name == "time" || name == "start_time" {
			return sv{Kind: "s", S: vhlib.Pick(r, []string{"2015-03-04T05:06:07Z", "1400000000", "yesterday", "n/a"})}
		}
		return sv{Kind: "s", S: vhlib.Pick(r, []string{"x", "web-1", "a b", "main", fmt.Sprintf("v%d", r.Intn(1000))})}
	case "i":
		if name == "timestamp" || name == "time" || name == "start_time" || name == "startTimeMillis" {
			return sv{Kind: "i", I: 1400000000 + int64(r.Intn(90000000))} // 2014 .. 2017: never the time of the event itself
		}
		return sv{Kind: "i", I: int64(r.Intn(100000)) - 500}
	case "f":
		return sv{Kind: "f", F: float64(r.Intn(4000)-2000) + vhlib.Pick(r, []float64{0.5, 0.25, 0.75})}
	}
	return sv{Kind: "b", B: r.Bool()}
}

func pickNames(r *vhlib.Rng, n int, first string) []string {
	used := map[string]bool{}
	var out []string
	if first != "" {
		out = append(out, first)
		used[first] = true
	}
	for len(out) < n {
		k := vhlib.Pick(r, reservedNames)
		if r.Chance(25) {
			k = vhlib.Pick(r, plainNames)
		}
		if !used[k] {
			used[k] = true
			out = append(out, k)
		}
	}
	return out
}

// an object below the path rel: 1-3 members, mostly reserved names; a member is a scalar, or (depth permitting)
// another object / an array
func genObj(r *vhlib.Rng, rel string, depth int, first string) jv {
	o := jv{Kind: "o"}
	for _, k := range pickNames(r, r.Range(1, 3), first) {
		p := rel + "." + k
		switch {
		case depth < 3 && r.Chance(20):
			o.Obj = append(o.Obj, jm{k, genObj(r, p, depth+1, pickFirst(r))})
		case depth < 3 && r.Chance(12):
			o.Obj = append(o.Obj, jm{k, genArr(r, p, depth+1)})
		default:
			o.Obj = append(o.Obj, jm{k, leafJ(leafFor(r, p, k))})
		}
	}
	return o
}

func pickFirst(r *vhlib.Rng) string {
	if r.Chance(55) {
		return "timestamp"
	}
	return ""
}

// an array below rel: of objects (records), of scalars, or of arrays of scalars
func genArr(r *vhlib.Rng, rel string, depth int) jv {
	a := jv{Kind: "a"}
	n := r.Range(1, 3)
	mode := r.Intn(10)
	for i := 0; i < n; i++ {
		p := fmt.Sprintf("%s.%d", rel, i)
		switch {
		case mode < 6:
			a.Arr = append(a.Arr, genObj(r, p, depth+1, pickFirst(r)))
		case mode < 9:
			a.Arr = append(a.Arr, leafJ(leafFor(r, p, "")))
		default:
			in := jv{Kind: "a"}
			for j := 0; j < 2; j++ {
				in.Arr = append(in.Arr, leafJ(leafFor(r, fmt.Sprintf("%s.%d", p, j), "")))
			}
			a.Arr = append(a.Arr, in)
		}
	}
	return a
}

// designed shapes first (the smallest events of the class), then random ones
func genKeyTree(r *vhlib.Rng, i int) []jm {
	leaf := func(rel, name string) jv { return leafJ(leafFor(r, rel, name)) }
	obj := func(rel string, names ...string) jv {
		o := jv{Kind: "o"}
		for _, k := range names {
			o.Obj = append(o.Obj, jm{k, leaf(rel+"."+k, k)})
		}
		return o
	}
	switch i {
	case 0: // {"event":{"timestamp":..}}
		return []jm{{"event", obj("event", "timestamp")}}
	case 1: // records inside an array
		return []jm{{"items", jv{Kind: "a", Arr: []jv{obj("items.0", "timestamp", "sku"), obj("items.1", "timestamp", "sku")}}}}
	case 2:
		return []jm{{"attributes", obj("attributes", "timestamp", "time", "body")}}
	case 3:
		return []jm{{"ctx", obj("ctx", "_index", "_id", "_type", "index")}}
	case 4:
		return []jm{{"resource", jv{Kind: "o", Obj: []jm{{"attributes", obj("resource.attributes", "timestamp", "host")}}}}, {"scope", obj("scope", "name", "timestamp")}}
	case 5: // three levels
		return []jm{{"payload", jv{Kind: "o", Obj: []jm{{"event", jv{Kind: "o", Obj: []jm{{"timestamp", leaf("payload.event.timestamp", "timestamp")},
			{"fields", obj("payload.event.fields", "timestamp", "line")}}}}}}}}
	case 6: // scalars in arrays, arrays in arrays
		return []jm{{"values", jv{Kind: "a", Arr: []jv{jv{Kind: "a", Arr: []jv{leaf("values.0.0", ""), leaf("values.0.1", "")}}}}},
			{"stream", obj("stream", "timestamp", "stream", "streams")}}
	case 7: // only the LAST member is called like the timestamp key
		return []jm{{"req", obj("req", "id", "note", "timestamp")}, {"host", obj("host", "name", "timestamp")}}
	case 8:
		return []jm{{"fields", obj("fields", "time", "event", "fields", "source")}, {"body", obj("body", "timestamp", "severity_text", "trace_id")}}
	}
	var out []jm
	used := map[string]bool{}
	n := r.Range(1, 2)
	for len(out) < n {
		c := vhlib.Pick(r, containerNames)
		if used[c] {
			continue
		}
		used[c] = true
		if r.Chance(25) {
			out = append(out, jm{c, genArr(r, c, 1)})
		} else {
			out = append(out, jm{c, genObj(r, c, 1, pickFirst(r))})
		}
	}
	return out
}

func keyEvents(r *vhlib.Rng, n int) []levent {
	var out []levent
	for i := 0; i < n; i++ {
		e := genEvent(r, i, "K")
		e.Msg = fmt.Sprintf("reserved names %d", i)
		if len(e.Attrs) > 2 {
			e.Attrs = e.Attrs[:2]
		}
		if len(e.Trace) == 0 {
			e.Trace = []byte{0xcc, 2, 3, 4, 5, 6, 7, 8, 9, 10, 11, 12, 13, 14, byte(i >> 8), byte(i)}
			e.Span = []byte{0xdd, 2, 3, 4, 5, 6, byte(i >> 8), byte(i)}
		}
		if e.TimeNs == 0 {
			e.TimeNs = 1650000000000000000 + uint64(i)*1000000007
		}
		if i%4 == 3 {
			e.Time = timeRep{Unit: "none"} // no time at the root (the nested fields called timestamp must not step in)
		}
		e.Tree = genKeyTree(r, i)
		inTree := map[string]bool{}
		for _, m := range e.Tree {
			inTree[m.K] = true
		}
		// reserved names as plain root fields of the event
		for _, k := range pickRoot(r, r.Range(0, 2)) {
			if !inTree[k] {
				e.Attrs = append(e.Attrs, kv{k, leafFor(r, k, k)})
			}
		}
		// the HEC envelope's own "fields" member (indexed fields: flat)
		if i%3 == 1 {
			for _, k := range pickNames(r, r.Range(1, 2), pickFirst(r)) {
				e.Fields = append(e.Fields, kv{k, leafFor(r, "fields."+k, k)})
			}
		}
		out = append(out, e)
	}
	return out
}

func pickRoot(r *vhlib.Rng, n int) []string {
	used := map[string]bool{}
	var out []string
	for len(out) < n {
		k := vhlib.Pick(r, rootReserved)
		if !used[k] {
			used[k] = true
			out = append(out, k)
		}
	}
	return out
}

// the class of a lost column: a name the ingest path knows, used as a field name
func reservedLost(proto string, depth0 int) func(k string) string {
	return func(k string) string {
		segs := strings.Split(k, ".")
		leaf := segs[len(segs)-1]
		for len(segs) > 1 && leaf != "" && leaf[0] >= '0' && leaf[0] <= '9' { // an array position: the name is the one before it
			segs = segs[:len(segs)-1]
			leaf = segs[len(segs)-1]
		}
		nested := len(segs) > depth0+1
		switch {
		case nested && leaf == "timestamp":
			return proto + "_nested_field_named_like_timestamp_key_lost"
		case nested && reservedSet[leaf]:
			return proto + "_nested_field_with_reserved_name_lost"
		case reservedSet[leaf]:
			return proto + "_root_field_with_reserved_name_lost"
		}
		return ""
	}
}

// adds the leaves of the tree to the expectation (prefix: where the protocol puts the event's own fields)
func expectTree(ex *expect, proto, prefix string, depth0 int, tree []jm) {
	for _, a := range flatTree(strings.TrimSuffix(prefix, "."), tree) {
		ex.cols[a.K] = a.V.expected()
		if strings.HasSuffix(a.K, ".timestamp") {
			if t, ok := nestedInstant(a.V); ok {
				if ex.nestedTimes == nil {
					ex.nestedTimes = map[uint64]string{}
				}
				ex.nestedTimes[t] = a.K
			}
		}
	}
	ex.lostClass = reservedLost(proto, depth0)
}

func countTree(sum *vhlib.Summary, proto string, e levent) {
	if e.Stream != "K" {
		return
	}
	for _, a := range flatTree("", e.Tree) {
		segs := strings.Split(a.K, ".")
		leaf := segs[len(segs)-1]
		inArr := false
		for _, s := range segs {
			if s != "" && s[0] >= '0' && s[0] <= '9' {
				inArr = true
			}
		}
		where := "nested_object"
		if inArr {
			where = "inside_array"
		}
		switch {
		case leaf == "timestamp":
			sum.Count(proto + "/" + where + "_leaf_named_timestamp")
		case reservedSet[leaf]:
			sum.Count(proto + "/" + where + "_leaf_with_reserved_name")
		default:
			sum.Count(proto + "/" + where + "_leaf_other")
		}
		sum.Count(fmt.Sprintf("%s/leaf_depth_%d", proto, len(segs)))
	}
	for _, a := range e.Attrs {
		if reservedSet[a.K] {
			sum.Count(proto + "/root_field_with_reserved_name")
		}
	}
}

// Loki push, stream K: labels and structured metadata whose names are reserved elsewhere on the path, and
// structured metadata whose values are objects / arrays holding such names.  ("timestamp" and "line" are the two
// names the Loki record itself uses at the root; they are not used as label / metadata names here.  "_id" and
// "_type" at the ROOT of a record are written but never returned by the record reader -- as for ES single-document
// requests -- so they cannot be observed by a search and are left out at the root; below the root they are ordinary.)
var lokiRootReserved = []string{"time", "event", "fields", "host", "source", "sourcetype", "index", "streams", "stream", "values",
	"resource", "scope", "attributes", "body", "severity_text", "trace_id", "span_id", "name", "service", "kind", "status", "message"}

func genLokiKeyStream(r *vhlib.Rng, si int) lokiStream {
	s := lokiStream{Kind: "K"}
	s.Labels = []kv{{"job", sv{Kind: "s", S: fmt.Sprintf("k%d", r.Intn(9))}}, {"stream_id", sv{Kind: "s", S: fmt.Sprintf("K%d", si)}}}
	lab := lokiRootReserved[(2*si)%len(lokiRootReserved)]
	s.Labels = append(s.Labels, kv{lab, sv{Kind: "s", S: fmt.Sprintf("label-%s", lab)}})
	n := r.Range(1, 3)
	for j := 0; j < n; j++ {
		ms := uint64(1577836800000) + r.U64()%uint64(122163200000)
		l := lokiLine{Cid: fmt.Sprintf("LK%d_%d %s", si, j, vhlib.Pick(r, strPool)), Ts: ms*1000000 + r.U64()%1000000, Form: "ns"}
		if j != 1 { // the middle line of a stream has no metadata at all
			mk := lokiRootReserved[(2*si+1+2*j)%len(lokiRootReserved)]
			if mk != lab {
				l.Meta = append(l.Meta, kv{mk, sv{Kind: "s", S: fmt.Sprintf("meta-%s", mk)}})
			}
			tree := genKeyTree(r, (si*3+j)%14)
			for _, m := range tree {
				dup := m.K == lab
				for _, a := range l.Meta {
					if a.K == m.K {
						dup = true
					}
				}
				if !dup {
					l.MetaTree = append(l.MetaTree, m)
				}
			}
		}
		s.Lines = append(s.Lines, l)
	}
	return s
}

// OTLP logs, stream K: records whose BODY is a kvlist (a structured body): the event's nested part is the body, its
// leaves are the columns body.<path>; one record per export request, resource and scope as plain as they get.
const otlpKeyBodyIndex = "otel-logs-keybody"

func runOTLPLogBodies(sum *vhlib.Summary, evs []levent, cases *[]string) {
	const ix = otlpKeyBodyIndex
	wins := make([]window, len(evs))
	resAttrs := []kv{{"siglensIndexName", sv{Kind: "s", S: ix}}, {"service.name", sv{Kind: "s", S: "kb"}}}
	for i, e := range evs {
		req := &collogpb.ExportLogsServiceRequest{ResourceLogs: []*logpb.ResourceLogs{{
			Resource: &resourcepb.Resource{Attributes: otlpKVs(resAttrs)},
			ScopeLogs: []*logpb.ScopeLogs{{Scope: &commonpb.InstrumentationScope{Name: "kbscope"}, LogRecords: []*logpb.LogRecord{{
				TimeUnixNano: e.TimeNs, SeverityNumber: 9, SeverityText: "INFO", Flags: 1, TraceId: e.Trace, SpanId: e.Span,
				Body:       otlpAnyTree(jv{Kind: "o", Obj: e.Tree}),
				Attributes: otlpKVs(append([]kv{{"cid", sv{Kind: "s", S: e.Cid}}}, e.Attrs...))}}}}}}}
		pb, _ := proto.Marshal(req)
		lo := nowMs() - 1
		ctx := mkctx(pb, "application/x-protobuf")
		otlp.ProcessLogIngest(ctx, 0)
		wins[i] = window{lo, nowMs() + 1}
		if ctx.Response.StatusCode() != 200 || len(ctx.Response.Body()) != 0 {
			sum.HarnessError(fmt.Sprintf("otlp logs (kvlist body): status %d body %q", ctx.Response.StatusCode(), ctx.Response.Body()))
		}
	}
	flushLogs()
	obs, err := search(ix)
	if err != nil {
		sum.HarnessError("otlp logs (kvlist body) search: " + err.Error())
		return
	}
	byCid := indexBy(obs, "attributes.cid")
	for i, e := range evs {
		o := pickObs(byCid, e.Cid, wins[i])
		z := sv{Kind: "i", I: 0}
		ex := expect{cols: map[string]sv{"attributes.cid": {Kind: "s", S: e.Cid},
			"severity_text": {Kind: "s", S: "INFO"}, "severity_number": {Kind: "i", I: 9},
			"scope.name": {Kind: "s", S: "kbscope"}, "scope.version": {Kind: "s", S: ""}, "scope.schema_url": {Kind: "s", S: ""},
			"scope.dropped_attributes_count": z, "resource.dropped_attributes_count": z, "resource.schema_url": {Kind: "s", S: ""},
			"dropped_attributes_count": z, "flags": {Kind: "i", I: 1}, "observed_time_unix_nano": z,
			"time_unix_nano": {Kind: "i", I: int64(e.TimeNs)},
			"trace_id": {Kind: "s", S: hex.EncodeToString(e.Trace)}, "span_id": {Kind: "s", S: hex.EncodeToString(e.Span)}},
			exact: true, timeKnown: "otlp_log_time_replaced", carried: e.TimeNs / 1000000}
		for _, a := range e.Attrs {
			ex.cols["attributes."+a.K] = a.V
		}
		for _, a := range resAttrs {
			ex.cols["resource.attributes."+a.K] = a.V
		}
		expectTree(&ex, "otlp_log_body", "body.", 1, e.Tree)
		sum.Eval("otlp_log_body/"+e.Cid, true)
		countTree(sum, "otlp_log_body", e)
		checkStored(sum, "otlp_log_body", e.Cid, ex, o, nil, map[string]interface{}{"protocol": "otlp_logs", "body": "kvlist", "event": e})
		attrs := append([]kv{{"cid", sv{Kind: "s", S: e.Cid}}}, e.Attrs...)
		*cases = append(*cases, fmt.Sprintf("(LOtlpKvBody (mk_res %s) (mk_scope (s2b \"kbscope\") [] []) (mk_rec %d 9%%Z (s2b \"INFO\") (SStr []) %s 1 %s %s) %s, %s, %s)",
			coqEvent(resAttrs), e.TimeNs, coqEvent(attrs), coqS(hex.EncodeToString(e.Trace)), coqS(hex.EncodeToString(e.Span)), coqTree(e.Tree), coqS(ix), o.coq()))
	}
}

// ---------- stream R: names that collide with the record's OWN root fields (known findings, kept apart) ----------
// OTLP traces put the span attributes at the root of the record, next to the span's own fields; Loki puts labels and
// structured metadata at the root, next to "timestamp" and "line".  An attribute / label / metadata entry with the
// name of such a field has no column of its own.
const spanCollisionClass = "otlp_span_attribute_named_like_record_field_replaces_it"
const lokiLabelCollisionClass = "loki_label_named_like_record_field_lost"
const lokiMetaCollisionClass = "loki_metadata_named_like_record_field_replaces_it"

func spanCollisionEvents(n int) []levent {
	var out []levent
	for i := 0; i < n; i++ {
		e := levent{Cid: fmt.Sprintf("r%d", i), Stream: "R", Msg: fmt.Sprintf("span name %d", i), Time: timeRep{Unit: "none"},
			TimeNs: 1650000000000000000 + uint64(i)*1000000007,
			Trace:  []byte{0xee, 2, 3, 4, 5, 6, 7, 8, 9, 10, 11, 12, 13, 14, 15, byte(i)}, Span: []byte{0xef, 2, 3, 4, 5, 6, 7, byte(i)}}
		e.Attrs = []kv{{"n", sv{Kind: "i", I: int64(i)}}}
		switch i % 8 {
		case 0:
			e.Attrs = append(e.Attrs, kv{"name", sv{Kind: "s", S: fmt.Sprintf("attribute-name-%d", i)}})
		case 1:
			e.Attrs = append(e.Attrs, kv{"timestamp", sv{Kind: "i", I: 1400000000 + int64(i)}})
		case 2:
			e.Attrs = append(e.Attrs, kv{"status", sv{Kind: "s", S: "ok"}}, kv{"kind", sv{Kind: "s", S: "batch"}})
		case 3:
			e.Attrs = append(e.Attrs, kv{"service", sv{Kind: "s", S: "attribute-service"}})
		case 4:
			e.Attrs = append(e.Attrs, kv{"timestamp", sv{Kind: "s", S: "1400000000"}}) // (a digit string: the model's fragment of string times)
		case 5:
			e.Attrs = append(e.Attrs, kv{"duration", sv{Kind: "i", I: 5}})
		case 6:
			e.Attrs = append(e.Attrs, kv{"trace_id", sv{Kind: "s", S: "attribute-trace"}}, kv{"span_id", sv{Kind: "s", S: "attribute-span"}})
		case 7:
			e.Attrs = append(e.Attrs, kv{"start_time", sv{Kind: "i", I: 1}}, kv{"end_time", sv{Kind: "i", I: 2}})
		}
		out = append(out, e)
	}
	return out
}

func lokiCollisionStream(si int) lokiStream {
	s := lokiStream{Kind: "R"}
	s.Labels = []kv{{"job", sv{Kind: "s", S: "r"}}, {"stream_id", sv{Kind: "s", S: fmt.Sprintf("R%d", si)}}}
	ms := uint64(1600000000000) + uint64(si)*1000
	l := lokiLine{Cid: fmt.Sprintf("LR%d_0 text", si), Ts: ms * 1000000, Form: "ns"}
	switch si % 4 {
	case 0:
		s.Labels = append(s.Labels, kv{"line", sv{Kind: "s", S: fmt.Sprintf("label-line-%d", si)}})
	case 1:
		s.Labels = append(s.Labels, kv{"timestamp", sv{Kind: "s", S: "label-timestamp"}})
	case 2:
		l.Meta = []kv{{"timestamp", sv{Kind: "s", S: "1400000000"}}}
	case 3:
		l.Meta = []kv{{"line", sv{Kind: "s", S: fmt.Sprintf("metadata-line-%d", si)}}}
	}
	s.Lines = []lokiLine{l}
	return s
}

// the oracle for a stream-R line: the line keeps its own text and time, and every label / metadata entry is stored
func lokiCollisions(sum *vhlib.Summary, s lokiStream, l lokiLine, ex *expect, o *logObs, byLine map[string][]stored, w window) {
	c := map[string]interface{}{"protocol": "loki_push_json", "stream": s, "line": l.Cid}
	sum.Count("loki/name_of_a_record_field_as_label_or_metadata")
	for _, a := range s.Labels {
		if a.K == "line" || a.K == "timestamp" {
			delete(ex.cols, a.K)
			if a.K == "line" {
				ex.cols["line"] = sv{Kind: "s", S: l.Cid}
			}
			fail(sum, lokiLabelCollisionClass, fmt.Sprintf("loki: line %q: the stream label %s=%q is not stored (the record's own %q takes the column)", l.Cid, a.K, a.V.S, a.K), c)
		}
	}
	for _, a := range l.Meta {
		switch a.K {
		case "timestamp":
			delete(ex.cols, a.K)
			if t, ok := nestedInstant(a.V); ok {
				ex.nestedTimes = map[uint64]string{t: "timestamp (structured metadata)"}
				ex.nestedClass = lokiMetaCollisionClass
			}
		case "line":
			ex.cols["line"] = sv{Kind: "s", S: l.Cid}
			if o.found == 0 {
				if alt := pickObs(byLine, a.V.S, w); alt.found > 0 {
					*o = alt
					ex.alteredClass = func(k string, got sv) string {
						if k == "line" && got.eq(a.V) {
							return lokiMetaCollisionClass
						}
						return ""
					}
				}
			}
		}
	}
}
